(* C02 — code-shaped executable model (no proofs) of
     control/kern/tproxy.c                  struct match_set / lpm_key / domain_routing as BYTES, route(), route_loop_cb,
                                            route_eval_match, route_match_lpm, route_match_domain_set,
                                            route_finalize_match, equal16, and the callers' decoding of the result word
     control/routing_matcher_builder.go     the bytes the add* callbacks put into bpfMatchSet, reserveLpmRingSlots,
                                            rewriteKernRulesWithRingLpmIndex, buildRoutingKernspace (what ends up in
                                            routing_map, routing_meta_map, lpm_array_map)
     control/bpf_utils.go                   bpfPortRange.Encode, cidrToBpfLpmKey
     common/utils.go                        Ipv6ByteSliceToUint32Array (native-endian words = the address bytes)
     control/domain_routing_tracker.go      the struct domain_routing value written for an address
   The userspace matcher (RoutingMatcher.Match) is C01_Model.match_loop, reused unchanged.
   Kernel-side constants come from the C compiler (gen/C02_Consts.v, names K_...), Go-side ones from gen/C01_Consts.v.
   Bytes are N < 256; a struct is the list of its bytes in memory order (little-endian host, as bpfel). *)
From Coq Require Import List NArith Bool String.
From Dae Require Import C01_Spec C01_Model C02_Spec.
From Dae.gen Require Import C01_Consts C02_Consts.
Import ListNotations.
Open Scope N_scope.

(* ---------- bytes ---------- *)

Definition byte_at (bs : list N) (o : nat) : N := nth o bs 0.
Definition le16 (bs : list N) (o : nat) : N := byte_at bs o + 256 * byte_at bs (o + 1).
Definition le32 (bs : list N) (o : nat) : N :=
  byte_at bs o + 256 * byte_at bs (o + 1) + 65536 * byte_at bs (o + 2) + 16777216 * byte_at bs (o + 3).
Definition le64 (bs : list N) (o : nat) : N := le32 bs o + 4294967296 * le32 bs (o + 4).
Definition be16 (bs : list N) (o : nat) : N := 256 * byte_at bs o + byte_at bs (o + 1).

Definition le16_bytes (x : N) : list N := [x mod 256; (x / 256) mod 256].
Definition le32_bytes (x : N) : list N := [x mod 256; (x / 256) mod 256; (x / 65536) mod 256; (x / 16777216) mod 256].
Definition be16_bytes (x : N) : list N := [(x / 256) mod 256; x mod 256].

(* big-endian (network order) bytes of an address and back *)
Fixpoint bytes_be (n : nat) (a : N) : list N :=
  match n with
  | O => []
  | S k => bytes_be k (a / 256) ++ [a mod 256]
  end.
Definition be (bs : list N) : N := fold_left (fun acc b => acc * 256 + b) bs 0.

Definition b2n (b : bool) : N := if b then 1 else 0.
Definition zeros (n : nat) : list N := repeat 0 n.

(* ====================================================================================================== *)
(* Go side: what the control plane writes                                                                   *)
(* ====================================================================================================== *)

Definition is_lpm_type (t : N) : bool := (t =? MatchType_IpSet) || (t =? MatchType_SourceIpSet) || (t =? MatchType_Mac).

Definition nth16 (l : list N) : list N :=
  [byte_at l 0; byte_at l 1; byte_at l 2; byte_at l 3; byte_at l 4; byte_at l 5; byte_at l 6; byte_at l 7;
   byte_at l 8; byte_at l 9; byte_at l 10; byte_at l 11; byte_at l 12; byte_at l 13; byte_at l 14; byte_at l 15].

(* the 16-byte Value of bpfMatchSet, per add* callback *)
Definition value_bytes (m : mset) : list N :=
  let t := m_type m in
  if is_lpm_type t then le32_bytes (m_lpm m) ++ zeros 12                        (* binary.LittleEndian.PutUint32(set.Value[:], idx) *)
  else if (t =? MatchType_Port) || (t =? MatchType_SourcePort)
       then le16_bytes (m_ps m) ++ le16_bytes (m_pe m) ++ zeros 12                (* bpfPortRange{..}.Encode() *)
  else if (t =? MatchType_L4Proto) || (t =? MatchType_IpVersion) then (m_mask m mod 256) :: zeros 15   (* [16]byte{byte(values)} *)
  else if t =? MatchType_ProcessName then nth16 (m_pname m)                      (* copy(matchSet.Value[:], value[:]) *)
  else if t =? MatchType_Dscp then m_dscp m :: zeros 15                          (* matchSet.Value[0] = value *)
  else zeros 16.                                                                 (* DomainSet, Fallback *)

(* struct bpfMatchSet { Value [16]uint8; Not, Type, Outbound, Must uint8; Mark uint32 } in memory *)
Definition enc_mset (m : mset) : list N :=
  value_bytes m ++ [b2n (m_not m); m_type m; m_out m; b2n (m_must m)] ++ le32_bytes (m_mark m).

(* rewriteKernRulesWithRingLpmIndex, one rule *)
Definition rewrite_rule (alloc lpm_count : N) (e : list N) : res (list N) :=
  if is_lpm_type (byte_at e 17) then
    let old := le32 e 0 in
    if lpm_count <=? old then Err E_BAD_LPM
    else Ok (le32_bytes ((alloc + old) mod MaxMatchSetLen) ++ skipn 4 e)
  else Ok e.

Fixpoint rewrite_rules (alloc lpm_count : N) (es : list (list N)) : res (list (list N)) :=
  match es with
  | [] => Ok []
  | e :: r => match rewrite_rule alloc lpm_count e, rewrite_rules alloc lpm_count r with
              | Ok e', Ok r' => Ok (e' :: r')
              | Err x, _ => Err x
              | _, Err x => Err x
              end
  end.

(* cidrToBpfLpmKey + Ipv6ByteSliceToUint32Array: struct lpm_key { prefixlen u32; data [4]be32 } in memory *)
Definition key_of_prefix (p : prefix128) : list N :=
  le32_bytes (if px_v4 p then px_bits p + 96 else px_bits p) ++ bytes_be 16 (px_addr p).

(* reserveLpmRingSlots / getNextRingLpmIndex: (start returned, next value of globalNextLpmIndex) *)
Definition E_TOO_MANY_LPM : N := 20.
Definition E_TOO_MANY_RULES : N := 21.
Definition reserve (g count : N) : res (N * N) :=
  if MaxMatchSetLen <? count then Err E_TOO_MANY_LPM
  else if count =? 0 then Ok (g, g)
  else Ok (g, (g + count) mod MaxMatchSetLen).

Fixpoint reserve_history (g : N) (counts : list N) : res N :=
  match counts with
  | [] => Ok g
  | c :: r => match reserve g c with Ok (_, g') => reserve_history g' r | Err e => Err e end
  end.

(* the kernel maps route() reads *)
Record kmaps := {
  km_routing : list (list N);                (* routing_map: array of struct match_set, entries 0.. *)
  km_meta : N;                               (* routing_meta_map[0] *)
  km_lpm : N -> option (list (list N));      (* lpm_array_map: slot -> inner LPM trie = its keys (struct lpm_key bytes) *)
  km_domain : list N -> option (list N) }.   (* domain_routing_map: 16 address bytes -> struct domain_routing bytes *)

Definition upd (f : N -> option (list (list N))) (k : N) (v : list (list N)) : N -> option (list (list N)) :=
  fun x => if x =? k then Some v else f x.

(* lpm_array_map.Update(lpmIndex, newLpmMap(keys)) for each simulated trie, in order *)
Fixpoint install_tries (f : N -> option (list (list N))) (alloc i : N) (tries : list (list prefix128)) :=
  match tries with
  | [] => f
  | t :: r => install_tries (upd f (ring_slot MaxMatchSetLen alloc i) (map key_of_prefix t)) alloc (i + 1) r
  end.

(* buildRoutingKernspace over the maps left by earlier generations *)
Definition install (prev : kmaps) (ms : list mset) (tries : list (list prefix128)) (alloc : N) : res kmaps :=
  let count := N.of_nat (List.length tries) in
  if MaxMatchSetLen <? count then Err E_TOO_MANY_LPM
  else if negb (last (map m_type ms) 255 =? MatchType_Fallback) then Err E_FALLBACK_LAST
  else match rewrite_rules alloc count (map enc_mset ms) with
       | Err e => Err e
       | Ok kern =>
         if MaxMatchSetLen <? N.of_nat (List.length kern) then Err E_TOO_MANY_RULES     (* BatchUpdate: key beyond max_entries *)
         else Ok {| km_routing := kern ++ skipn (List.length kern) (km_routing prev);
                    km_meta := N.of_nat (List.length kern);
                    km_lpm := install_tries (km_lpm prev) alloc 0 tries;
                    km_domain := km_domain prev |}
       end.

(* struct domain_routing for a bitmap (copy(snapshot.bitmap.Bitmap[:], cache.DomainBitmap), 32 words) *)
Definition enc_bitmap (bm : list N) : list N := flat_map le32_bytes bm.
Definition bitmap_zero (bm : list N) : bool := forallb (N.eqb 0) bm.
(* the entry the control plane keeps for an address all of whose names have this bitmap (C10): none when all-zero *)
Definition dom_entry (bm : option (list N)) : option (list N) :=
  match bm with
  | Some w => if bitmap_zero w then None else Some (enc_bitmap w)
  | None => None
  end.

(* ====================================================================================================== *)
(* kernel side: control/kern/tproxy.c                                                                       *)
(* ====================================================================================================== *)

(* struct match_set accessors: offsets as compiled (gen/C02_Consts.v C_TABLE; C02_layout_sync) *)
Definition ms_index (e : list N) : N := le32 e 0.
Definition ms_port_start (e : list N) : N := le16 e 0.
Definition ms_port_end (e : list N) : N := le16 e 2.
Definition ms_l4proto_type (e : list N) : N := le32 e 0.     (* enum L4ProtoType: 4 bytes *)
Definition ms_ip_version (e : list N) : N := le32 e 0.       (* enum IpVersionType: 4 bytes *)
Definition ms_dscp (e : list N) : N := byte_at e 0.
Definition ms_not (e : list N) : N := byte_at e 16.
Definition ms_type (e : list N) : N := byte_at e 17.         (* enum MatchType is packed: 1 byte *)
Definition ms_outbound (e : list N) : N := byte_at e 18.
Definition ms_must (e : list N) : N := byte_at e 19.
Definition ms_mark (e : list N) : N := le32 e 20.

(* struct lpm_key *)
Definition key_prefixlen (k : list N) : N := le32 k 0.
Definition key_data (k : list N) : list N := skipn 4 k.

(* the arguments of route() *)
Record kargs := {
  ka_flag : list N;       (* 8 u32 words: l4proto, ipversion, pname (4 words), dscp, is_wan *)
  ka_l4hdr : list N;      (* first bytes of the tcphdr/udphdr: source, dest in network order *)
  ka_saddr : list N;      (* 16 bytes *)
  ka_daddr : list N;
  ka_mac : list N }.

(* what a hook passes for a packet description (do_tproxy_lan_ingress: is_wan = 0, no pname;
   do_tproxy_wan_egress_{tcp,udp}: is_wan = 1, pname of the socket's process when known) *)
Definition kargs_of (pk : packet) (wan : bool) : kargs :=
  {| ka_flag := [match p_l4 pk with TCP => K_L4ProtoType_TCP | UDP => K_L4ProtoType_UDP end;
                 match p_ipver pk with V4 => K_IpVersionType_4 | V6 => K_IpVersionType_6 end;
                 le32 (p_pname pk) 0; le32 (p_pname pk) 4; le32 (p_pname pk) 8; le32 (p_pname pk) 12;
                 p_dscp pk; b2n wan];
     ka_l4hdr := be16_bytes (p_sport pk) ++ be16_bytes (p_dport pk);
     ka_saddr := bytes_be 16 (p_src pk);
     ka_daddr := bytes_be 16 (p_dst pk);
     ka_mac := bytes_be 16 (p_mac pk) |}.

Inductive kret := KWord (w : N) | KErrno (e : N).    (* non-negative result word | -errno *)

(* struct route_ctx, the part that changes during the loop *)
Record kctx := { c_state : N; c_dw_cached : bool; c_dw_idx : N; c_dw_bits : N }.

Definition has (st f : N) : bool := negb (N.land st f =? 0).
Definition setf (c : kctx) (f : N) : kctx :=
  {| c_state := N.lor (c_state c) f; c_dw_cached := c_dw_cached c; c_dw_idx := c_dw_idx c; c_dw_bits := c_dw_bits c |}.
Definition clrf (c : kctx) (f : N) : kctx :=            (* u8 &= ~f *)
  {| c_state := N.land (c_state c) (255 - f); c_dw_cached := c_dw_cached c; c_dw_idx := c_dw_idx c; c_dw_bits := c_dw_bits c |}.

(* BPF_MAP_TYPE_LPM_TRIE lookup (only existence is used): some stored key whose prefixlen does not exceed the
   looked-up key's and whose first prefixlen bits (most significant first, over the 16 data bytes) agree *)
Definition lpm_entry_matches (klen : N) (kdata : list N) (entry : list N) : bool :=
  let plen := key_prefixlen entry in
  (plen <=? klen) && (plen <=? 128) &&
  (N.shiftr (be kdata) (128 - plen) =? N.shiftr (be (key_data entry)) (128 - plen)).
Definition lpm_lookup (trie : list (list N)) (klen : N) (kdata : list N) : bool :=
  existsb (lpm_entry_matches klen kdata) trie.

(* route_match_lpm *)
Definition k_match_lpm (km : kmaps) (c : kctx) (e : list N) (kdata : list N) : kctx + kret :=
  match (if ms_index e <? K_MAX_LPM_NUM then km_lpm km (ms_index e) else None) with
  | None => inr (KErrno K_EFAULT)
  | Some trie => inl (if lpm_lookup trie 128 kdata then setf c K_ROUTE_STATE_GOOD_SUBRULE else c)
  end.

(* route_match_domain_set *)
Definition k_match_domain (km : kmaps) (a : kargs) (c : kctx) (index : N) : kctx + kret :=
  let widx := index / 32 in
  if K_MAX_MATCH_SET_LEN / 32 <=? widx then inr (KErrno K_EFAULT)
  else
    let c1 :=
      if negb (c_dw_cached c) || negb (c_dw_idx c =? widx) then
        {| c_state := c_state c; c_dw_cached := true; c_dw_idx := widx;
           c_dw_bits := match km_domain km (ka_daddr a) with
                        | Some dr => le32 dr (4 * N.to_nat widx)
                        | None => 0
                        end |}
      else c in
    inl (if N.land (N.shiftr (c_dw_bits c1) (index mod 32)) 1 =? 1 then setf c1 K_ROUTE_STATE_GOOD_SUBRULE else c1).

(* equal16: two 64-bit compares *)
Definition equal16 (x0 x1 y0 y1 : N) : bool := (x0 =? y0) && (x1 =? y1).

(* route_eval_match; l4proto_type, ipversion_type, dscp are __u8 copies of flag words *)
Definition k_eval (km : kmaps) (a : kargs) (hsport hdport : N) (c : kctx) (index : N) (e : list N) : kctx + kret :=
  let t := ms_type e in
  let flag := ka_flag a in
  let good := setf c K_ROUTE_STATE_GOOD_SUBRULE in
  if (t =? K_MatchType_Mac) || (t =? K_MatchType_IpSet) || (t =? K_MatchType_SourceIpSet) then
    k_match_lpm km c e (if t =? K_MatchType_Mac then ka_mac a else if t =? K_MatchType_IpSet then ka_daddr a else ka_saddr a)
  else if (t =? K_MatchType_Port) || (t =? K_MatchType_SourcePort) then
    let p := if t =? K_MatchType_Port then hdport else hsport in
    inl (if (ms_port_start e <=? p) && (p <=? ms_port_end e) then good else c)
  else if (t =? K_MatchType_L4Proto) || (t =? K_MatchType_IpVersion) then
    let value := (if t =? K_MatchType_L4Proto then byte_at flag 0 else byte_at flag 1) mod 256 in
    let mask := (if t =? K_MatchType_L4Proto then ms_l4proto_type e else ms_ip_version e) mod 256 in
    inl (if negb (N.land value mask =? 0) then good else c)
  else if t =? K_MatchType_DomainSet then k_match_domain km a c index
  else if t =? K_MatchType_ProcessName then
    inl (if negb (byte_at flag 7 mod 256 =? 0) && negb (byte_at flag 2 mod 256 =? 0) &&   (* is_wan, and the first byte of the name is non-zero *)
            equal16 (le64 e 0) (le64 e 8)
                    (byte_at flag 2 + 4294967296 * byte_at flag 3) (byte_at flag 4 + 4294967296 * byte_at flag 5)
         then good else c)
  else if t =? K_MatchType_Dscp then
    inl (if byte_at flag 6 mod 256 =? ms_dscp e then good else c)
  else if t =? K_MatchType_Fallback then inl good
  else inr (KErrno K_EINVAL).

Definition pack (o mark : N) (must : bool) : N := N.lor (N.lor o (N.shiftl mark 8)) (N.shiftl (b2n must) 40).

(* route_finalize_match *)
Definition k_finalize (c : kctx) (e : list N) : kctx + kret :=
  let ob := ms_outbound e in
  let mnot := negb (ms_not e =? 0) in
  let c1 :=
    if negb (ob =? K_OUTBOUND_LOGICAL_OR) then
      clrf (if Bool.eqb (has (c_state c) K_ROUTE_STATE_GOOD_SUBRULE) mnot then setf c K_ROUTE_STATE_BAD_RULE else c)
           K_ROUTE_STATE_GOOD_SUBRULE
    else c in
  if negb (N.land ob K_OUTBOUND_LOGICAL_MASK =? K_OUTBOUND_LOGICAL_MASK) then
    if negb (has (c_state c1) K_ROUTE_STATE_BAD_RULE) then
      if ob =? K_OUTBOUND_MUST_RULES then inl (clrf (setf c1 K_ROUTE_STATE_MUST) K_ROUTE_STATE_BAD_RULE)
      else
        let must := has (c_state c1) K_ROUTE_STATE_MUST || negb (ms_must e =? 0) in
        if negb must && has (c_state c1) K_ROUTE_STATE_DNS_QUERY
        then inr (KWord (pack K_OUTBOUND_CONTROL_PLANE_ROUTING (ms_mark e) must))
        else inr (KWord (pack ob (ms_mark e) must))
    else inl (clrf c1 K_ROUTE_STATE_BAD_RULE)
  else inl c1.

(* route_loop_cb *)
Definition k_cb (km : kmaps) (a : kargs) (hsport hdport : N) (c : kctx) (index : N) : kctx + kret :=
  if K_MAX_MATCH_SET_LEN <=? index then inr (KErrno K_EFAULT)
  else
    let e := nth (N.to_nat index) (km_routing km) (zeros 24) in      (* array map: unwritten entries are zero *)
    match (if has (c_state c) (N.lor K_ROUTE_STATE_BAD_RULE K_ROUTE_STATE_GOOD_SUBRULE) then inl c
           else k_eval km a hsport hdport c index e) with
    | inr r => inr r
    | inl c1 => k_finalize c1 e
    end.

(* bpf_loop(active_rules_len, route_loop_cb, ...): None = ran to the end without a result *)
Fixpoint k_loop (km : kmaps) (a : kargs) (hsport hdport : N) (fuel : nat) (index : N) (c : kctx) : option kret :=
  match fuel with
  | O => None
  | S f => match k_cb km a hsport hdport c index with
           | inr r => Some r
           | inl c1 => k_loop km a hsport hdport f (index + 1) c1
           end
  end.

(* route() *)
Definition k_route (km : kmaps) (a : kargs) : kret :=
  let l4 := byte_at (ka_flag a) 0 in
  let hdport := be16 (ka_l4hdr a) 2 in
  let hsport := be16 (ka_l4hdr a) 0 in
  let st0 := if (hdport =? 53) && ((l4 =? K_L4ProtoType_UDP) || (l4 =? K_L4ProtoType_TCP)) then K_ROUTE_STATE_DNS_QUERY else 0 in
  let n := if km_meta km <=? K_MAX_MATCH_SET_LEN then km_meta km else K_MAX_MATCH_SET_LEN in
  match k_loop km a hsport hdport (N.to_nat n) 0 {| c_state := st0; c_dw_cached := false; c_dw_idx := 0; c_dw_bits := 0 |} with
  | Some (KWord w) => KWord w              (* ctx->result >= 0 *)
  | Some (KErrno _) => KErrno K_EPERM      (* ctx->result < 0 (the callback's -EFAULT / -EINVAL): "return -EPERM" *)
  | None => KErrno K_EPERM                 (* result still -ENOEXEC *)
  end.

(* the callers: `if (s64_ret < 0) shot; outbound = s64_ret & 0xff; mark = s64_ret >> 8 (u32); must = (s64_ret >> 40) & 1` *)
Definition decode_word (r : kret) : option decision :=
  match r with
  | KErrno _ => None
  | KWord w => Some (N.land w 0xff, N.land (N.shiftr w 8) 0xffffffff, N.land (N.shiftr w 40) 1 =? 1)
  end.

(* the userspace matcher's answer as an option *)
Definition user_answer (r : res decision) : option decision :=
  match r with Ok d => Some d | Err _ => None end.

(* whole kernel pipeline for one generation and one packet *)
Definition kernel_decides (prev : kmaps) (ms : list mset) (tries : list (list prefix128)) (alloc : N)
           (dom : option (list N)) (pk : packet) (wan : bool) : res (option decision) :=
  match install prev ms tries alloc with
  | Err e => Err e
  | Ok km =>
    let km' := {| km_routing := km_routing km; km_meta := km_meta km; km_lpm := km_lpm km;
                  km_domain := fun k => if list_eqb k (bytes_be 16 (p_dst pk)) then dom else km_domain km k |} in
    Ok (decode_word (k_route km' (kargs_of pk wan)))
  end.

(* a map state "before the first generation": nothing installed *)
Definition empty_kmaps : kmaps :=
  {| km_routing := []; km_meta := 0; km_lpm := fun _ => None; km_domain := fun _ => None |}.

(* ====================================================================================================== *)
(* side conditions of the property's quantifier, and the statement "the kernel reads what was written"      *)
(* ====================================================================================================== *)

(* a match-set the builder can emit: one of the eleven routing types, fields in their Go types' ranges, an LPM index
   that names one of the generation's tries *)
Definition wf_mset (ntries : N) (m : mset) : bool :=
  (m_type m <=? MatchType_Fallback) && (m_out m <? 256) && (m_mark m <? 2 ^ 32) &&
  (m_ps m <? 65536) && (m_pe m <? 65536) && (m_mask m <? 256) &&
  Nat.eqb (List.length (m_pname m)) 16 && forallb (fun b => b <? 256) (m_pname m) && (m_dscp m <? 256) &&
  (if is_lpm_type (m_type m) then m_lpm m <? ntries else true).

Definition wf_prefix (p : prefix128) : bool :=
  (px_addr p <? 2 ^ 128) && (if px_v4 p then px_bits p <=? 32 else px_bits p <=? 128).

(* the bytes of a match-set as they sit in routing_map: Go encoding, then the ring rewrite *)
Definition kentry (alloc : N) (m : mset) : list N :=
  (if is_lpm_type (m_type m) then le32_bytes (ring_slot MaxMatchSetLen alloc (m_lpm m)) ++ zeros 12 else value_bytes m)
  ++ [b2n (m_not m); m_type m; m_out m; b2n (m_must m)] ++ le32_bytes (m_mark m).

(* the kernel's accessors, applied to entry e, yield the field values of match-set m *)
Definition decodes (alloc : N) (e : list N) (m : mset) : Prop :=
  ms_type e = m_type m /\ ms_not e = b2n (m_not m) /\ ms_outbound e = m_out m /\ ms_must e = b2n (m_must m) /\
  ms_mark e = m_mark m /\
  (is_lpm_type (m_type m) = true -> ms_index e = ring_slot MaxMatchSetLen alloc (m_lpm m)) /\
  ((m_type m = MatchType_Port \/ m_type m = MatchType_SourcePort) -> ms_port_start e = m_ps m /\ ms_port_end e = m_pe m) /\
  (m_type m = MatchType_L4Proto -> ms_l4proto_type e mod 256 = m_mask m) /\
  (m_type m = MatchType_IpVersion -> ms_ip_version e mod 256 = m_mask m) /\
  (m_type m = MatchType_ProcessName -> le64 e 0 = le64 (m_pname m) 0 /\ le64 e 8 = le64 (m_pname m) 8) /\
  (m_type m = MatchType_Dscp -> ms_dscp e = m_dscp m).

(* a probe of the property's quantifier: "LAN (MAC, no process name) and WAN (process name)" - the LAN hook
   (do_tproxy_lan_ingress) passes `route_flag[8] = {}` and never copies a name; wf_packet is C01's range condition *)
Definition probe_ok (pk : packet) (wan : bool) : bool :=
  wf_packet pk && (wan || forallb (N.eqb 0) (p_pname pk)).

(* a bitmap as the domain matcher returns it: MaxMatchSetLen/32 words of 32 bits *)
Definition bitmap_ok (w : list N) : bool := Nat.eqb (List.length w) 32 && forallb (fun x => x <? 2 ^ 32) w.

(* ====================================================================================================== *)
(* the builder as a state machine: ControlPlane takes a KernspaceSnapshot of the builder, and in any order *)
(* (first start: install, then BuildUserspace; staged reload: BuildUserspace, then CommitPreparedDatapath;  *)
(* RebuildReloadDatapath: install again later) builds the userspace matcher from the builder and installs   *)
(* the kernel state from the snapshot                                                                       *)
(* ====================================================================================================== *)

Inductive bstep := BSnapshot | BUserspace | BInstall.

(* one call of buildRoutingKernspace: what it was given and the state it started from *)
Record ilog := { il_rules : list mset; il_tries : list (list prefix128); il_ring : N; il_km : kmaps }.

Record bworld := {
  bw_rules : list mset;                       (* RoutingMatcherBuilder.compiledRules / rules *)
  bw_tries : list (list prefix128);           (* RoutingMatcherBuilder.simulatedLpmTries *)
  bw_snap : option (list mset * list (list prefix128));   (* routingKernspaceSnapshot held by the ControlPlane *)
  bw_matcher : option matcher;                (* the RoutingMatcher in use *)
  bw_ring : N;                                (* globalNextLpmIndex *)
  bw_km : kmaps;                              (* the kernel maps *)
  bw_log : list ilog }.                       (* buildRoutingKernspace calls, oldest first *)

Definition E_NO_RULES : N := 22.    (* "no routing rules to build" *)

(* buildRoutingKernspace over a snapshot: reserve the ring slots, then install *)
Definition do_install (ring : N) (km : kmaps) (rules : list mset) (tries : list (list prefix128)) : res (N * N * kmaps) :=
  match rules with
  | [] => Err E_NO_RULES
  | _ => match reserve ring (N.of_nat (List.length tries)) with
         | Err e => Err e
         | Ok (alloc, next) => match install km rules tries alloc with
                               | Ok km' => Ok (alloc, next, km')
                               | Err e => Err e       (* the ring stays advanced: see bstep_run *)
                               end
         end
  end.

(* `alias` = false: the snapshot is a value (what the code has to guarantee).  `alias` = true models a snapshot that
   shares the builder's slice of prefix lists with a BuildUserspace that releases each list once its trie is built. *)
Definition bstep_run (alias : bool) (w : bworld) (s : bstep) : bworld :=
  match s with
  | BSnapshot =>
    {| bw_rules := bw_rules w; bw_tries := bw_tries w; bw_snap := Some (bw_rules w, bw_tries w); bw_matcher := bw_matcher w;
       bw_ring := bw_ring w; bw_km := bw_km w; bw_log := bw_log w |}
  | BUserspace =>
    match build_userspace {| b_rules := bw_rules w; b_tries := bw_tries w; b_domsets := []; b_dedup := [] |} with
    | Err _ => w
    | Ok mt =>
      {| bw_rules := []; bw_tries := [];        (* b.rules = nil; b.simulatedLpmTries = nil; ... *)
         bw_snap := if alias then match bw_snap w with Some (r, t) => Some (r, map (fun _ => []) t) | None => None end else bw_snap w;
         bw_matcher := Some mt; bw_ring := bw_ring w; bw_km := bw_km w; bw_log := bw_log w |}
    end
  | BInstall =>
    match bw_snap w with
    | None => w
    | Some (r, t) =>
      let entry := {| il_rules := r; il_tries := t; il_ring := bw_ring w; il_km := bw_km w |} in
      let ring' := match r with
                   | [] => bw_ring w
                   | _ => match reserve (bw_ring w) (N.of_nat (List.length t)) with Ok (_, next) => next | Err _ => bw_ring w end
                   end in
      {| bw_rules := bw_rules w; bw_tries := bw_tries w; bw_snap := bw_snap w; bw_matcher := bw_matcher w;
         bw_ring := ring';
         bw_km := match do_install (bw_ring w) (bw_km w) r t with Ok (_, _, km') => km' | Err _ => bw_km w end;
         bw_log := bw_log w ++ [entry] |}
    end
  end.

Definition brun (alias : bool) (steps : list bstep) (w : bworld) : bworld := fold_left (bstep_run alias) steps w.

Definition bworld0 (ms : list mset) (tries : list (list prefix128)) (ring : N) (km : kmaps) : bworld :=
  {| bw_rules := ms; bw_tries := tries; bw_snap := None; bw_matcher := None; bw_ring := ring; bw_km := km; bw_log := [] |}.
