(* C04 — lemmas.  Everything is proved for arbitrary atom / outbound semantics (section variables). *)
From Coq Require Import List String Ascii Bool Arith NArith Lia.
From Dae Require Import C04_Spec C04_Model.
From Dae.gen Require Import C04_Extracted.
Import ListNotations.
Open Scope string_scope.

(* ---- hypotheses of the partial theorems, in the terms of the rule list ---- *)
Fixpoint adjacent_all (P : rule -> rule -> Prop) (rs : list rule) : Prop :=
  match rs with
  | a :: t => match t with b :: _ => P a b | [] => True end /\ adjacent_all P t
  | [] => True
  end.

(* geodata references as the model expands them *)
Definition dat_expansion (db : geodb) (f : string) (p : param) : option (list param) :=
  match expand_param db f p with XOk ps => Some ps | _ => None end.

Section Proofs.
  Variable packet : Type.
  Variable D : Type.
  Variable atom_sem : string -> string -> string -> packet -> bool.
  Variable out_sem : func -> option D.

  Notation param_holds := (param_holds packet atom_sem).
  Notation func_holds := (func_holds packet atom_sem).
  Notation rule_matches := (rule_matches packet atom_sem).
  Notation decide_ast := (decide_ast packet D atom_sem out_sem).
  Notation decide := (decide packet D atom_sem out_sem).

  (* the outbounds of neighbours that the merge step fuses (it compares their printed form) mean the same *)
  Definition merge_hazard_free (rules : list rule) : Prop :=
    adjacent_all (fun a b => mergeable a b = true -> out_sem (r_out b) = out_sem (r_out a)) rules.

  (* values of one condition that print alike mean the same *)
  Definition dedup_faithful (rules : list rule) : Prop :=
    forall r f p q, In r rules -> In f (r_funcs r) -> In p (f_params f) -> In q (f_params f) ->
                    param_print p = param_print q ->
                    forall pk, param_holds (f_name f) pk p = param_holds (f_name f) pk q.

  (* ---------- congruence of the decision ---------- *)
  Definition rule_equiv (r r' : rule) : Prop :=
    r_out r' = r_out r /\ forall pk, rule_matches pk r' = rule_matches pk r.
  Definition func_equiv (f f' : func) : Prop := forall pk, func_holds pk f' = func_holds pk f.

  Lemma decide_ast_Forall2 : forall rs rs', Forall2 rule_equiv rs rs' ->
      forall pk m, decide_ast rs' pk m = decide_ast rs pk m.
  Proof.
    induction 1 as [|r r' rs rs' [Ho Hm] _ IH]; intros pk m; cbn; [reflexivity|].
    rewrite Hm, Ho. destruct (rule_matches pk r); [|apply IH].
    destruct (out_sem (r_out r)); [reflexivity|apply IH].
  Qed.

  Lemma decide_ast_map : forall (g : rule -> rule), (forall r, rule_equiv r (g r)) ->
      forall rs pk m, decide_ast (map g rs) pk m = decide_ast rs pk m.
  Proof.
    intros g Hg rs pk m. apply decide_ast_Forall2.
    induction rs; constructor; auto.
  Qed.

  Lemma rule_matches_Forall2 : forall fs fs', Forall2 func_equiv fs fs' ->
      forall pk, forallb (func_holds pk) fs' = forallb (func_holds pk) fs.
  Proof.
    induction 1 as [|f f' fs fs' Hf _ IH]; intros pk; cbn; [reflexivity|].
    now rewrite Hf, IH.
  Qed.

  Lemma rule_equiv_map_funcs : forall (g : func -> func), (forall f, func_equiv f (g f)) ->
      forall r, rule_equiv r {| r_funcs := map g (r_funcs r); r_out := r_out r |}.
  Proof.
    intros g Hg r. split; [reflexivity|]. intros pk. unfold C04_Spec.rule_matches; cbn.
    apply rule_matches_Forall2. induction (r_funcs r); constructor; auto.
  Qed.

  Lemma existsb_map' : forall {A B} (g : B -> bool) (h : A -> B) l,
      existsb g (map h l) = existsb (fun x => g (h x)) l.
  Proof. induction l; cbn; congruence. Qed.

  Lemma existsb_ext' : forall {A} (g h : A -> bool) l, (forall x, In x l -> g x = h x) ->
      existsb g l = existsb h l.
  Proof.
    induction l; cbn; intros H; [reflexivity|].
    rewrite H by auto. f_equal. apply IHl. auto.
  Qed.

  (* ---------- AliasOptimizer ---------- *)
  Lemma alias_fname_canon : forall n,
      match assoc n alias_fnames_src with Some n' => n' | None => n end = canon_fname n.
  Proof.
    intros n. unfold alias_fnames_src, canon_fname. cbn [assoc].
    rewrite (String.eqb_sym "dport"), (String.eqb_sym "dip").
    destruct (n =? "dport"); [reflexivity|]. destruct (n =? "dip"); reflexivity.
  Qed.

  Lemma alias_key_canon : forall k,
      match assoc k alias_domain_keys_src with Some k' => k' | None => k end = canon_key "domain" k.
  Proof.
    intros k. unfold alias_domain_keys_src, canon_key. cbn [assoc].
    rewrite (String.eqb_sym ""), (String.eqb_sym "domain" k), (String.eqb_sym "contains").
    change ("domain" =? "domain") with true. cbv iota.
    destruct (k =? ""); [reflexivity|]. destruct (k =? "domain"); [reflexivity|].
    destruct (k =? "contains"); reflexivity.
  Qed.

  Lemma alias_func_equiv : alias_respecting packet atom_sem -> forall f, func_equiv f (alias_func f).
  Proof.
    intros HA f pk. unfold C04_Spec.func_holds, alias_func; cbn [f_name f_not f_params].
    f_equal. rewrite existsb_map'. apply existsb_ext'. intros p _.
    unfold C04_Spec.param_holds. rewrite (HA (f_name f) (p_key p) (p_val p) pk).
    rewrite alias_fname_canon. unfold alias_param, alias_key_function_src.
    destruct (canon_fname (f_name f) =? "domain") eqn:E.
    - cbn [p_key p_val]. rewrite alias_key_canon. apply String.eqb_eq in E. rewrite E. reflexivity.
    - unfold canon_key. rewrite E. reflexivity.
  Qed.

  Lemma alias_sound : alias_respecting packet atom_sem ->
      forall rules pk m, decide_ast (alias_opt rules) pk m = decide_ast rules pk m.
  Proof.
    intros HA rules pk m. unfold alias_opt. apply decide_ast_map.
    intros r. apply (rule_equiv_map_funcs alias_func). apply alias_func_equiv, HA.
  Qed.

  (* ---------- sorting ---------- *)
  Lemma existsb_insert : forall {A} (less : A -> A -> bool) (g : A -> bool) x l,
      existsb g (insert_by less x l) = g x || existsb g l.
  Proof.
    induction l as [|y t IH]; cbn; [reflexivity|].
    destruct (less y x); cbn; [|reflexivity].
    rewrite IH. destruct (g y), (g x); reflexivity.
  Qed.

  Lemma forallb_insert : forall {A} (less : A -> A -> bool) (g : A -> bool) x l,
      forallb g (insert_by less x l) = g x && forallb g l.
  Proof.
    induction l as [|y t IH]; cbn; [reflexivity|].
    destruct (less y x); cbn; [|reflexivity].
    rewrite IH. destruct (g y), (g x); reflexivity.
  Qed.

  Lemma existsb_stable_sort : forall {A} (less : A -> A -> bool) (g : A -> bool) l,
      existsb g (stable_sort less l) = existsb g l.
  Proof.
    induction l; cbn; [reflexivity|]. unfold stable_sort in *. cbn.
    now rewrite existsb_insert, IHl.
  Qed.

  Lemma forallb_stable_sort : forall {A} (less : A -> A -> bool) (g : A -> bool) l,
      forallb g (stable_sort less l) = forallb g l.
  Proof.
    induction l; cbn; [reflexivity|]. unfold stable_sort in *. cbn.
    now rewrite forallb_insert, IHl.
  Qed.

  Lemma insert_by_length : forall {A} (less : A -> A -> bool) x l,
      List.length (insert_by less x l) = S (List.length l).
  Proof. induction l; cbn; [reflexivity|]. destruct (less a x); cbn; congruence. Qed.

  Lemma stable_sort_length : forall {A} (less : A -> A -> bool) l,
      List.length (stable_sort less l) = List.length l.
  Proof.
    induction l; cbn; [reflexivity|]. unfold stable_sort in *. cbn.
    now rewrite insert_by_length, IHl.
  Qed.

  Lemma sort_params_func_equiv : forall f, func_equiv f (sort_params_func f).
  Proof.
    intros f pk. unfold C04_Spec.func_holds, sort_params_func; cbn [f_name f_not f_params].
    f_equal. destruct (existsb (String.eqb (f_name f)) ip_sorted_functions_src); apply existsb_stable_sort.
  Qed.

  Lemma sort_params_equiv : forall r, rule_equiv r (sort_params r).
  Proof. intros r. apply (rule_equiv_map_funcs sort_params_func), sort_params_func_equiv. Qed.

  Lemma sort_funcs_equiv : forall r, rule_equiv r (sort_funcs r).
  Proof.
    intros r. split; [reflexivity|]. intros pk. unfold C04_Spec.rule_matches, sort_funcs; cbn.
    apply forallb_stable_sort.
  Qed.

  (* the sorting half of MergeAndSortRulesOptimizer alone never changes a decision *)
  Lemma sort_sound : forall rules pk m,
      decide_ast (map sort_params (map sort_funcs rules)) pk m = decide_ast rules pk m.
  Proof.
    intros. rewrite (decide_ast_map sort_params sort_params_equiv).
    apply (decide_ast_map sort_funcs sort_funcs_equiv).
  Qed.

  (* ---------- DeduplicateParamsOptimizer ---------- *)
  Lemma dedup_aux_sound : forall (g : param -> bool) l seen (A : bool),
      (forall p q, In p l -> In q l -> param_print p = param_print q -> g p = g q) ->
      (forall p, In p l -> In (param_print p) seen -> g p = true -> A = true) ->
      A || existsb g (dedup_aux seen l) = A || existsb g l.
  Proof.
    induction l as [|p t IH]; intros seen A HF HS; cbn; [reflexivity|].
    destruct (existsb (String.eqb (param_print p)) seen) eqn:E.
    - rewrite IH; [| intros; apply HF; cbn; auto | intros q Hq; apply HS; cbn; auto].
      destruct (g p) eqn:G; [|reflexivity].
      assert (A = true) as ->; [|reflexivity].
      apply (HS p); cbn; auto.
      apply existsb_exists in E. destruct E as [s [Hin Heq]]. apply String.eqb_eq in Heq. now subst.
    - cbn. rewrite !orb_assoc. apply IH.
      + intros; apply HF; cbn; auto.
      + intros q Hq [Hs|Hs] Gq.
        * assert (g p = g q) as -> by (apply HF; cbn; auto). rewrite Gq. apply orb_true_r.
        * rewrite (HS q); cbn; auto.
  Qed.

  Lemma dedup_func_equiv : forall f,
      (forall p q, In p (f_params f) -> In q (f_params f) -> param_print p = param_print q ->
                   forall pk, param_holds (f_name f) pk p = param_holds (f_name f) pk q) ->
      func_equiv f (dedup_func f).
  Proof.
    intros f HF pk. unfold C04_Spec.func_holds, dedup_func; cbn [f_name f_not f_params]. f_equal.
    apply (dedup_aux_sound (param_holds (f_name f) pk) (f_params f) [] false).
    - intros; now apply HF.
    - intros p _ [].
  Qed.

  Lemma dedup_sound_partial : forall rules, dedup_faithful rules ->
      forall pk m, decide_ast (dedup_opt rules) pk m = decide_ast rules pk m.
  Proof.
    intros rules HF pk m. unfold dedup_opt. apply decide_ast_Forall2.
    assert (H : forall r, In r rules -> rule_equiv r (dedup_rule r)).
    { intros r Hr. split; [reflexivity|]. intros pk'. unfold C04_Spec.rule_matches, dedup_rule; cbn.
      apply rule_matches_Forall2.
      assert (Hf : forall f, In f (r_funcs r) -> func_equiv f (dedup_func f)).
      { intros f Hf. apply dedup_func_equiv. intros p q Hp Hq E pk''. now apply (HF r f p q). }
      induction (r_funcs r); constructor; [apply Hf; cbn; auto | apply IHl; intros; apply Hf; cbn; auto]. }
    induction rules; constructor; [apply H; cbn; auto | apply IHrules].
    - intros r f p q Hr. apply HF. cbn; auto.
    - intros; apply H; cbn; auto.
  Qed.

  (* ---------- DatReaderOptimizer ---------- *)
  Lemma existsb_app' : forall {A} (g : A -> bool) l1 l2, existsb g (l1 ++ l2) = existsb g l1 || existsb g l2.
  Proof. intros. apply existsb_app. Qed.

  Lemma dat_params_sound : forall db fname,
      geo_respecting packet atom_sem (dat_expansion db) ->
      forall pk ps acc out, dat_params db fname ps acc = XOk out ->
      existsb (param_holds fname pk) out = existsb (param_holds fname pk) acc || existsb (param_holds fname pk) ps.
  Proof.
    intros db fname HG pk. induction ps as [|p t IH]; intros acc out H; cbn in *.
    - inversion H; subst. now rewrite orb_false_r.
    - destruct (expand_param db fname p) as [l| |] eqn:E; try discriminate.
      rewrite (IH _ _ H), existsb_app', <- orb_assoc. f_equal. f_equal.
      symmetry. apply (HG fname p l pk). unfold dat_expansion. now rewrite E.
  Qed.

  Lemma dat_funcs_sound : forall db, geo_respecting packet atom_sem (dat_expansion db) ->
      forall fs fs', dat_funcs db fs = XOk fs' -> Forall2 func_equiv fs fs'.
  Proof.
    intros db HG. induction fs as [|f t IH]; intros fs' H; cbn in H.
    - inversion H. constructor.
    - destruct (dat_params db (f_name f) (f_params f) []) as [ps| |] eqn:E; try discriminate.
      destruct (dat_funcs db t) as [t'| |]; try discriminate. inversion H; subst. constructor; [|now apply IH].
      intros pk. unfold C04_Spec.func_holds; cbn [f_name f_not f_params]. f_equal.
      now rewrite (dat_params_sound db (f_name f) HG pk _ _ _ E).
  Qed.

  Lemma dat_combine_ok : forall db rules out, dat_combine (map (dat_rule db) rules) = XOk out ->
      Forall2 (fun r r' => dat_rule db r = XOk r') rules out.
  Proof.
    induction rules as [|r t IH]; intros out H; cbn in H.
    - inversion H. constructor.
    - destruct (dat_rule db r) as [r'| |] eqn:E; destruct (dat_combine (map (dat_rule db) t)) as [t'| |];
        try discriminate. inversion H; subst. constructor; auto.
  Qed.

  Lemma dat_sound : forall db, geo_respecting packet atom_sem (dat_expansion db) ->
      forall rules out, dat_opt db rules = XOk out ->
      forall pk m, decide_ast out pk m = decide_ast rules pk m.
  Proof.
    intros db HG rules out H pk m. apply decide_ast_Forall2.
    apply dat_combine_ok in H. induction H as [|r r' t t' Hr _ IH]; constructor; [|exact IH].
    unfold dat_rule in Hr. destruct (dat_funcs db (r_funcs r)) as [fs| |] eqn:E; try discriminate.
    inversion Hr; subst. split; [reflexivity|]. intros pk'. unfold C04_Spec.rule_matches; cbn.
    apply rule_matches_Forall2. now apply (dat_funcs_sound db HG).
  Qed.

  (* ---------- merge ---------- *)
  Lemma mergeable_shape : forall m r, mergeable m r = true ->
      exists fm fr, r_funcs m = [fm] /\ r_funcs r = [fr] /\ f_name fm = f_name fr /\ f_not fm = false /\ f_not fr = false
                    /\ out_print (r_out r) = out_print (r_out m).
  Proof.
    intros m r H. unfold mergeable in H.
    destruct (r_funcs m) as [|fm [|? ?]]; try discriminate.
    destruct (r_funcs r) as [|fr [|? ?]]; try discriminate.
    apply andb_prop in H as [H H3]. apply andb_prop in H as [H1 H2]. apply andb_prop in H2 as [H2 H2'].
    exists fm, fr. repeat split; auto.
    - now apply String.eqb_eq.
    - now destruct (f_not fm).
    - now destruct (f_not fr).
    - now apply String.eqb_eq.
  Qed.

  Lemma merge_step : forall m r rest pk mu, mergeable m r = true ->
      out_sem (r_out r) = out_sem (r_out m) ->
      decide_ast (merge_into m r :: rest) pk mu = decide_ast (m :: r :: rest) pk mu.
  Proof.
    intros m r rest pk mu HM HO.
    destruct (mergeable_shape _ _ HM) as (fm & fr & Em & Er & En & Nm & Nr & _).
    assert (Hmm : rule_matches pk (merge_into m r) = rule_matches pk m || rule_matches pk r).
    { unfold C04_Spec.rule_matches, merge_into. rewrite Em, Er. cbn.
      unfold C04_Spec.func_holds; cbn [f_name f_not f_params].
      rewrite Nm, Nr, <- En, existsb_app'. cbn.
      destruct (existsb _ (f_params fm)), (existsb _ (f_params fr)); reflexivity. }
    assert (Ho : r_out (merge_into m r) = r_out m).
    { unfold merge_into. rewrite Em, Er. reflexivity. }
    cbn [C04_Spec.decide_ast]. rewrite Hmm, Ho, HO.
    destruct (rule_matches pk m), (rule_matches pk r), (out_sem (r_out m)); cbn; reflexivity.
  Qed.

  (* loop-shaped hazard condition *)
  Fixpoint adj_ok (m : rule) (rs : list rule) : Prop :=
    match rs with
    | [] => True
    | r :: t => (mergeable m r = true -> out_sem (r_out r) = out_sem (r_out m)) /\ adj_ok r t
    end.

  Lemma mergeable_merge_into : forall m r x, mergeable m r = true ->
      mergeable (merge_into m r) x = mergeable r x.
  Proof.
    intros m r x HM. destruct (mergeable_shape _ _ HM) as (fm & fr & Em & Er & En & Nm & Nr & Ep).
    unfold mergeable, merge_into. rewrite Em, Er. cbn. now rewrite En, Nm, Nr, Ep.
  Qed.

  Lemma adj_ok_merge_into : forall m r t, mergeable m r = true ->
      out_sem (r_out r) = out_sem (r_out m) ->
      adj_ok r t -> adj_ok (merge_into m r) t.
  Proof.
    intros m r t HM HO H. destruct t as [|x t']; cbn in *; [exact I|].
    destruct H as [H1 H2]. split; [|exact H2].
    rewrite (mergeable_merge_into _ _ _ HM). intros Hx. pose proof (H1 Hx) as Ho.
    destruct (mergeable_shape _ _ HM) as (fm & fr & Em & Er & _).
    unfold merge_into. rewrite Em, Er. cbn. now rewrite Ho.
  Qed.

  Lemma merge_loop_sound : forall rs m pk mu, adj_ok m rs ->
      decide_ast (merge_loop m rs) pk mu = decide_ast (m :: rs) pk mu.
  Proof.
    induction rs as [|r t IH]; intros m pk mu H; [reflexivity|].
    cbn [merge_loop]. destruct H as [H1 H2].
    destruct (mergeable m r) eqn:HM.
    - pose proof (H1 eq_refl) as HO.
      rewrite IH by (apply adj_ok_merge_into; auto).
      now apply merge_step.
    - cbn [C04_Spec.decide_ast]. rewrite (IH r pk true H2), (IH r pk mu H2). reflexivity.
  Qed.

  Lemma adjacent_all_adj_ok : forall m rs,
      adjacent_all (fun a b => mergeable a b = true -> out_sem (r_out b) = out_sem (r_out a)) (m :: rs) ->
      adj_ok m rs.
  Proof.
    intros m rs; revert m. induction rs as [|r t IH]; intros m H; cbn in *; [exact I|].
    destruct H as [H1 H2]. split; [exact H1|]. apply IH. exact H2.
  Qed.

  Lemma merge_rules_sound : forall rules pk mu, merge_hazard_free rules ->
      decide_ast (merge_rules rules) pk mu = decide_ast rules pk mu.
  Proof.
    intros [|m t] pk mu H; [reflexivity|]. cbn [merge_rules].
    apply merge_loop_sound, adjacent_all_adj_ok, H.
  Qed.

  (* sorting the conditions of a rule does not change which neighbours merge *)
  Lemma sort_funcs_single : forall r,
      match r_funcs r with [f] => r_funcs (sort_funcs r) = [f]
                      | _ => List.length (r_funcs (sort_funcs r)) <> 1 end.
  Proof.
    intros r. unfold sort_funcs; cbn.
    destruct (r_funcs r) as [|f [|g t]] eqn:E; cbn; [discriminate|reflexivity|].
    change (List.length (stable_sort less_fname (f :: g :: t)) <> 1).
    rewrite stable_sort_length. cbn. discriminate.
  Qed.

  Lemma mergeable_sort_funcs : forall a b, mergeable (sort_funcs a) (sort_funcs b) = mergeable a b.
  Proof.
    intros a b. unfold mergeable.
    pose proof (sort_funcs_single a) as Ha. pose proof (sort_funcs_single b) as Hb.
    change (r_out (sort_funcs a)) with (r_out a). change (r_out (sort_funcs b)) with (r_out b).
    destruct (r_funcs a) as [|fa [|ga ta]].
    - destruct (r_funcs (sort_funcs a)) as [|x [|y l]]; cbn in Ha; try congruence; reflexivity.
    - rewrite Ha. destruct (r_funcs b) as [|fb [|gb tb]].
      + destruct (r_funcs (sort_funcs b)) as [|x [|y l]]; cbn in Hb; try congruence; reflexivity.
      + rewrite Hb. reflexivity.
      + destruct (r_funcs (sort_funcs b)) as [|x [|y l]]; cbn in Hb; try congruence; reflexivity.
    - destruct (r_funcs (sort_funcs a)) as [|x [|y l]]; cbn in Ha; try congruence; reflexivity.
  Qed.

  Lemma hazard_free_sort_funcs : forall rules, merge_hazard_free rules ->
      merge_hazard_free (map sort_funcs rules).
  Proof.
    unfold merge_hazard_free. induction rules as [|a t IH]; intros H; [exact I|].
    cbn in *. destruct H as [H1 H2]. split; [|apply IH, H2].
    destruct t as [|b t']; cbn; [exact I|].
    rewrite mergeable_sort_funcs. exact H1.
  Qed.

  Lemma merge_sound_partial : forall rules, merge_hazard_free rules ->
      forall pk m, decide_ast (merge_sort_opt rules) pk m = decide_ast rules pk m.
  Proof.
    intros rules H pk m. unfold merge_sort_opt.
    rewrite (decide_ast_map sort_params sort_params_equiv).
    rewrite merge_rules_sound by (apply hazard_free_sort_funcs, H).
    apply (decide_ast_map sort_funcs sort_funcs_equiv).
  Qed.

  (* ---------- pipelines (their composition is the one extracted from the call sites) ---------- *)
  Lemma traffic_pipeline_eq : forall db rules,
      traffic_pipeline db rules = xmap dedup_opt (xmap merge_sort_opt (dat_opt db (alias_opt rules))).
  Proof. intros. unfold traffic_pipeline, run_pipeline, traffic_pipeline_src. cbn [fold_left].
         destruct (dat_opt db (alias_opt rules)) eqn:E; cbn; rewrite E; reflexivity. Qed.

  Lemma dns_pipeline_eq : forall db rules,
      dns_pipeline db rules = xmap dedup_opt (xmap merge_sort_opt (dat_opt db rules))
      /\ dns_response_pipeline db rules = dns_pipeline db rules
      /\ daedns_pipeline db rules = dns_pipeline db rules.
  Proof. intros. unfold dns_response_pipeline, daedns_pipeline, dns_pipeline, run_pipeline,
           dns_request_pipeline_src, dns_response_pipeline_src, daedns_request_pipeline_src. cbn [fold_left].
         destruct (dat_opt db rules) eqn:E; cbn; rewrite E; repeat split; reflexivity. Qed.

  Lemma traffic_pipeline_sound_partial : forall db rules mid,
      alias_respecting packet atom_sem ->
      geo_respecting packet atom_sem (dat_expansion db) ->
      dat_opt db (alias_opt rules) = XOk mid ->
      merge_hazard_free mid ->
      dedup_faithful (merge_sort_opt mid) ->
      exists out, traffic_pipeline db rules = XOk out /\
                  forall pk, decide out pk = decide rules pk.
  Proof.
    intros db rules mid HA HG Hd HM HF. rewrite traffic_pipeline_eq, Hd. cbn.
    eexists; split; [reflexivity|]. intros pk. unfold C04_Spec.decide.
    rewrite dedup_sound_partial by exact HF.
    rewrite merge_sound_partial by exact HM.
    rewrite (dat_sound db HG _ _ Hd). apply alias_sound, HA.
  Qed.

  Lemma dns_pipeline_sound_partial : forall db rules mid,
      geo_respecting packet atom_sem (dat_expansion db) ->
      dat_opt db rules = XOk mid ->
      merge_hazard_free mid ->
      dedup_faithful (merge_sort_opt mid) ->
      exists out, (dns_pipeline db rules = XOk out /\ dns_response_pipeline db rules = XOk out
                   /\ daedns_pipeline db rules = XOk out) /\
                  forall pk, decide out pk = decide rules pk.
  Proof.
    intros db rules mid HG Hd HM HF. destruct (dns_pipeline_eq db rules) as (E1 & E2 & E3).
    rewrite E2, E3, E1, Hd. cbn.
    eexists; split; [repeat split; reflexivity|]. intros pk. unfold C04_Spec.decide.
    rewrite dedup_sound_partial by exact HF.
    rewrite merge_sound_partial by exact HM.
    apply (dat_sound db HG _ _ Hd).
  Qed.
End Proofs.

(* ---------- refutations of the full statements (witnesses evaluated by vm_compute) ---------- *)
Definition mk_rule (neg : bool) (fname key val out : string) : rule :=
  {| r_funcs := [{| f_name := fname; f_not := neg; f_params := [{| p_key := key; p_val := val |}] |}];
     r_out := {| f_name := out; f_not := false; f_params := [] |} |}.

(* a packet is a domain name; a value holds iff it equals the name; an outbound means its name *)
Definition w_atom (f k v : string) (pk : string) : bool := v =? pk.
Definition w_out (o : func) : option string := Some (f_name o).

(* regression for /repo ec2de34: negated neighbours are left alone, and the decision is kept *)
Definition w_neg_rules : list rule :=
  [mk_rule true "domain" "full" "a.com" "proxy"; mk_rule true "domain" "full" "b.com" "proxy"].

Lemma negated_neighbours_kept :
  merge_sort_opt w_neg_rules = w_neg_rules /\
  decide string string w_atom w_out (merge_sort_opt w_neg_rules) "a.com" = (Some "proxy", false) /\
  decide string string w_atom w_out w_neg_rules "a.com" = (Some "proxy", false).
Proof. vm_compute. repeat split; reflexivity. Qed.

(* outbounds that differ only after the fifth parameter print alike (Function.String prints "...") *)
Definition w_mark (n : string) : func :=
  {| f_name := "proxy"; f_not := false;
     f_params := map (fun v => {| p_key := "mark"; p_val := v |}) ["1"; "1"; "1"; "1"; "1"; n] |}.
Definition w_out_last (o : func) : option string := Some (p_val (last (f_params o) {| p_key := ""; p_val := "" |})).
Definition w_out_rules : list rule :=
  [ {| r_funcs := [{| f_name := "domain"; f_not := false; f_params := [{| p_key := "full"; p_val := "a.com" |}] |}]; r_out := w_mark "2" |};
    {| r_funcs := [{| f_name := "domain"; f_not := false; f_params := [{| p_key := "full"; p_val := "b.com" |}] |}]; r_out := w_mark "3" |} ].

Lemma merge_outbound_refuted_witness :
  decide string string w_atom w_out_last (merge_sort_opt w_out_rules) "b.com" = (Some "2", false) /\
  decide string string w_atom w_out_last w_out_rules "b.com" = (Some "3", false).
Proof. vm_compute. split; reflexivity. Qed.

(* dedup: Param{Key:"", Val:"a:b"} and Param{Key:"a", Val:"b"} print alike *)
Definition w_atom_kv (f k v : string) (pk : string) : bool := (k ++ "|" ++ v) =? pk.
Definition w_dedup_rules : list rule :=
  [ {| r_funcs := [{| f_name := "pname"; f_not := false;
                      f_params := [{| p_key := ""; p_val := "a:b" |}; {| p_key := "a"; p_val := "b" |}] |}];
       r_out := {| f_name := "proxy"; f_not := false; f_params := [] |} |} ].

Lemma dedup_refuted_witness :
  decide string string w_atom_kv w_out (dedup_opt w_dedup_rules) "a|b" = (None, false) /\
  decide string string w_atom_kv w_out w_dedup_rules "a|b" = (Some "proxy", false).
Proof. vm_compute. split; reflexivity. Qed.


(* ---------- lowering + scan ----------
   auxiliary: the match sets RulesBuilder.Apply emits when it does not fail *)
Fixpoint lower_funcs_ms (fs : list func) (out : func) : list matchset :=
  match fs with
  | [] => []
  | f :: t => (lower_groups f (match t with [] => true | _ => false end) out (group_params (f_params f))
               ++ lower_funcs_ms t out)%list
  end.
Definition lower_ms (rules : list rule) : list matchset :=
  flat_map (fun r => lower_funcs_ms (r_funcs r) (r_out r)) rules.

Definition some_condition_empty (rules : list rule) : Prop :=
  exists r f, In r rules /\ In f (r_funcs r) /\ f_params f = [].
(* a guarantee of the grammar (a rule is `conditions -> outbound`), kept by every optimizer *)
Definition rules_have_conditions (rules : list rule) : Prop :=
  forall r, In r rules -> r_funcs r <> [].

Definition nonempty_conditions (rules : list rule) : Prop :=
  forall r, In r rules -> r_funcs r <> [] /\ forall f, In f (r_funcs r) -> f_params f <> [].

Section LowerProofs.
  Variable packet : Type.
  Variable D : Type.
  Variable atom_sem : string -> string -> string -> packet -> bool.
  Variable out_sem : func -> option D.

  Notation param_holds := (param_holds packet atom_sem).
  Notation func_holds := (func_holds packet atom_sem).
  Notation rule_matches := (rule_matches packet atom_sem).
  Notation decide_ast := (decide_ast packet D atom_sem out_sem).
  Notation scan := (scan packet D atom_sem out_sem).

  Definition groups_eval (fname : string) (pk : packet) (gs : list (string * list string)) : bool :=
    existsb (fun g => existsb (fun v => atom_sem fname (fst g) v pk) (snd g)) gs.

  Lemma group_add_eval : forall fname pk k v gs,
      groups_eval fname pk (group_add k v gs) = groups_eval fname pk gs || atom_sem fname k v pk.
  Proof.
    induction gs as [|[k' vs] t IH]; cbn.
    - now rewrite !orb_false_r.
    - destruct (String.eqb_spec k' k) as [->|N]; cbn.
      + rewrite existsb_app. cbn. rewrite orb_false_r.
        destruct (existsb _ vs), (atom_sem fname k v pk), (existsb _ t); reflexivity.
      + fold (groups_eval fname pk (group_add k v t)). rewrite IH. unfold groups_eval.
        now rewrite orb_assoc.
  Qed.

  Lemma group_params_eval_gen : forall fname pk ps gs,
      groups_eval fname pk (fold_left (fun gs p => group_add (p_key p) (p_val p) gs) ps gs)
      = groups_eval fname pk gs || existsb (param_holds fname pk) ps.
  Proof.
    induction ps as [|p t IH]; intros gs; cbn [fold_left existsb].
    - now rewrite orb_false_r.
    - rewrite IH, group_add_eval. unfold C04_Spec.param_holds. now rewrite orb_assoc.
  Qed.

  Lemma group_params_eval : forall fname pk ps,
      groups_eval fname pk (group_params ps) = existsb (param_holds fname pk) ps.
  Proof. intros. unfold group_params. now rewrite group_params_eval_gen. Qed.

  Lemma group_add_nonempty : forall k v gs, group_add k v gs <> [].
  Proof. intros k v [|[k' vs] t]; cbn; [discriminate|]. destruct (k' =? k); discriminate. Qed.

  Lemma group_params_nonempty : forall ps, ps <> [] -> group_params ps <> [].
  Proof.
    intros ps H. unfold group_params.
    assert (G : forall l gs, gs <> [] -> fold_left (fun gs p => group_add (p_key p) (p_val p) gs) l gs <> []).
    { induction l; cbn; intros; auto. apply IHl, group_add_nonempty. }
    destruct ps as [|p t]; [congruence|]. cbn [fold_left]. apply G, group_add_nonempty.
  Qed.

  (* the match sets of one condition *)
  Lemma scan_groups : forall f last out gs rest pk good bad must, gs <> [] ->
      scan (lower_groups f last out gs ++ rest) pk good bad must =
      let h := good || groups_eval (f_name f) pk gs in
      let bad' := bad || Bool.eqb h (f_not f) in
      if last then
        (if negb bad' then match out_sem out with Some d => Some (Some d, must) | None => scan rest pk false false true end
         else scan rest pk false false must)
      else scan rest pk false bad' must.
  Proof.
    induction gs as [|[k vs] t IH]; intros rest pk good bad must NE; [congruence|].
    destruct t as [|g' t'].
    - cbn [lower_groups app C04_Model.scan m_out m_not]. unfold ms_eval; cbn [m_fname m_key m_vals].
      unfold groups_eval; cbn [existsb fst snd]. rewrite orb_false_r.
      destruct bad; cbn.
      + destruct last; destruct good; reflexivity.
      + destruct good; cbn; destruct last; reflexivity.
    - change (lower_groups f last out ((k, vs) :: g' :: t'))
        with ({| m_fname := f_name f; m_key := k; m_vals := vs; m_not := f_not f; m_out := MOr |}
                :: lower_groups f last out (g' :: t')).
      cbn [app C04_Model.scan m_out].
      rewrite IH by discriminate. unfold ms_eval; cbn [m_fname m_key m_vals].
      cbv zeta. unfold groups_eval at 3 4. cbn [existsb fst snd]. fold (groups_eval (f_name f) pk (g' :: t')).
      destruct bad; cbn [orb].
      + destruct last; reflexivity.
      + destruct good; cbn [orb]; [reflexivity|]. reflexivity.
  Qed.

  Lemma eqb_xorb : forall h n, Bool.eqb h n = negb (xorb n h).
  Proof. destruct h, n; reflexivity. Qed.

  (* the match sets of one rule *)
  Lemma scan_funcs : forall out fs rest pk bad must, fs <> [] -> (forall f, In f fs -> f_params f <> []) ->
      scan (lower_funcs_ms fs out ++ rest) pk false bad must =
      if negb (bad || negb (forallb (func_holds pk) fs))
      then match out_sem out with Some d => Some (Some d, must) | None => scan rest pk false false true end
      else scan rest pk false false must.
  Proof.
    induction fs as [|f t IH]; intros rest pk bad must NE HP; [congruence|].
    cbn [lower_funcs_ms]. rewrite <- app_assoc.
    rewrite scan_groups by (apply group_params_nonempty, HP; cbn; auto).
    cbv zeta. rewrite group_params_eval. cbn [orb forallb].
    unfold C04_Spec.func_holds at 1. rewrite eqb_xorb.
    destruct t as [|f' t'].
    - cbn [lower_funcs_ms app forallb]. rewrite andb_true_r. reflexivity.
    - rewrite IH by (try discriminate; intros; apply HP; cbn; auto).
      set (a := xorb (f_not f) (existsb (param_holds (f_name f) pk) (f_params f))).
      set (b := forallb (func_holds pk) (f' :: t')).
      destruct bad, a, b; reflexivity.
  Qed.

  Lemma lower_sound : forall rules, nonempty_conditions rules ->
      forall pk must, scan (lower_ms rules) pk false false must = Some (decide_ast rules pk must).
  Proof.
    induction rules as [|r t IH]; intros HN pk must; [reflexivity|].
    unfold lower_ms; cbn [flat_map]. fold (lower_ms t).
    destruct (HN r (or_introl eq_refl)) as [NE HP].
    rewrite scan_funcs by assumption. cbn [orb C04_Spec.decide_ast].
    unfold C04_Spec.rule_matches.
    assert (HT : nonempty_conditions t) by (intros r' Hr'; apply HN; cbn; auto).
    destruct (forallb (func_holds pk) (r_funcs r)); cbn.
    - destruct (out_sem (r_out r)); [reflexivity|apply IH, HT].
    - apply IH, HT.
  Qed.

  (* the code-shaped lowering: fails exactly on an empty condition, otherwise yields those match sets *)
  Lemma group_params_nil : forall ps, group_params ps = [] -> ps = [].
  Proof. intros [|p t] H; [reflexivity|]. exfalso. revert H. apply group_params_nonempty. discriminate. Qed.

  Lemma lower_funcs_some : forall out fs l, lower_funcs fs out = Some l ->
      l = lower_funcs_ms fs out /\ forall f, In f fs -> f_params f <> [].
  Proof.
    induction fs as [|f t IH]; intros l H; cbn in H.
    - inversion H. split; [reflexivity|]. intros f [].
    - destruct (group_params (f_params f)) as [|g gs] eqn:E; [discriminate|].
      destruct (lower_funcs t out) as [l'|]; [|discriminate]. inversion H; subst.
      destruct (IH l' eq_refl) as [-> HP]. split.
      + cbn [lower_funcs_ms]. rewrite E. reflexivity.
      + intros f' [<-|Hin]; [|now apply HP]. intros N. rewrite N in E. discriminate.
  Qed.

  Lemma lower_funcs_none : forall out fs, lower_funcs fs out = None -> exists f, In f fs /\ f_params f = [].
  Proof.
    induction fs as [|f t IH]; intros H; cbn in H; [discriminate|].
    destruct (group_params (f_params f)) as [|g gs] eqn:E.
    - exists f. split; [cbn; auto|]. now apply group_params_nil.
    - destruct (lower_funcs t out) as [l'|]; [discriminate|].
      destruct (IH eq_refl) as (f' & Hin & N). exists f'. split; [cbn; auto|exact N].
  Qed.

  Lemma lower_some : forall rules ms, lower rules = Some ms ->
      ms = lower_ms rules /\ forall r f, In r rules -> In f (r_funcs r) -> f_params f <> [].
  Proof.
    induction rules as [|r t IH]; intros ms H; cbn in H.
    - inversion H. split; [reflexivity|]. intros r f [].
    - destruct (lower_funcs (r_funcs r) (r_out r)) as [a|] eqn:E; [|discriminate].
      destruct (lower t) as [b|]; [|discriminate]. inversion H; subst.
      destruct (lower_funcs_some _ _ _ E) as [-> HP]. destruct (IH b eq_refl) as [-> HT].
      split; [reflexivity|]. intros r' f [<-|Hin]; [apply HP|now apply HT].
  Qed.

  Lemma lower_none_iff : forall rules, lower rules = None <-> some_condition_empty rules.
  Proof.
    intros rules. split.
    - induction rules as [|r t IH]; intros H; cbn in H; [discriminate|].
      destruct (lower_funcs (r_funcs r) (r_out r)) as [a|] eqn:E.
      + destruct (lower t) as [b|]; [discriminate|]. destruct (IH eq_refl) as (r' & f & Hr & Hf & N).
        exists r', f. repeat split; cbn; auto.
      + destruct (lower_funcs_none _ _ E) as (f & Hf & N). exists r, f. repeat split; cbn; auto.
    - intros (r & f & Hr & Hf & N). destruct (lower rules) as [ms|] eqn:E; [|reflexivity].
      exfalso. destruct (lower_some _ _ E) as [_ HP]. now apply (HP r f).
  Qed.

  Lemma compiled_error : forall rules, some_condition_empty rules ->
      forall pk, compiled_decision packet D atom_sem out_sem rules pk = CBuildError.
  Proof. intros rules H pk. unfold compiled_decision. apply lower_none_iff in H. now rewrite H. Qed.

  Lemma compiled_sound : forall rules ms, rules_have_conditions rules -> lower rules = Some ms ->
      forall pk, compiled_decision packet D atom_sem out_sem rules pk
                 = CDecision (C04_Spec.decide packet D atom_sem out_sem rules pk).
  Proof.
    intros rules ms HC H pk. unfold compiled_decision, C04_Spec.decide. rewrite H.
    destruct (lower_some _ _ H) as [-> HP].
    rewrite lower_sound; [reflexivity|]. intros r Hr. split; [now apply HC|]. intros f Hf. now apply (HP r f).
  Qed.
End LowerProofs.

(* a geodata reference whose expansion is empty: DatReaderOptimizer leaves `domain()`, and the build fails *)
Definition db_empty : geodb :=
  {| db_sites := [("geosite.dat", [{| gs_code := "cn"; gs_domains := [{| d_type := 3%N; d_value := "a.com"; d_attrs := ["ads"] |}] |}])];
     db_ips := [] |}.
Definition w_geo_rules : list rule :=
  [ {| r_funcs := [ {| f_name := "domain"; f_not := false; f_params := [{| p_key := "geosite"; p_val := "cn@nope" |}] |};
                    {| f_name := "port"; f_not := false; f_params := [{| p_key := ""; p_val := "80" |}] |} ];
       r_out := {| f_name := "block"; f_not := false; f_params := [] |} |} ].

Lemma empty_expansion_witness :
  exists out, traffic_pipeline db_empty w_geo_rules = XOk out /\ some_condition_empty out /\
              forall pk : string, compiled_decision string string w_atom w_out out pk = CBuildError.
Proof.
  eexists. split; [vm_compute; reflexivity|].
  assert (H : some_condition_empty
                [ {| r_funcs := [ {| f_name := "domain"; f_not := false; f_params := [] |};
                                  {| f_name := "port"; f_not := false; f_params := [{| p_key := ""; p_val := "80" |}] |} ];
                     r_out := {| f_name := "block"; f_not := false; f_params := [] |} |} ]).
  { eexists; eexists. split; [left; reflexivity|]. split; [left; reflexivity|reflexivity]. }
  split; [exact H|]. intros pk. now apply compiled_error.
Qed.

(* ---------- every optimizer keeps "each rule has a condition" ---------- *)
Lemma hc_map : forall (g : rule -> rule), (forall r, r_funcs r <> [] -> r_funcs (g r) <> []) ->
    forall rules, rules_have_conditions rules -> rules_have_conditions (map g rules).
Proof.
  intros g Hg rules H r' Hin. apply in_map_iff in Hin as (r & <- & Hr). apply Hg, H, Hr.
Qed.

Lemma map_not_nil : forall {A B} (g : A -> B) l, l <> [] -> map g l <> [].
Proof. intros A B g [|x t] H; [congruence|discriminate]. Qed.

Lemma hc_alias : forall rules, rules_have_conditions rules -> rules_have_conditions (alias_opt rules).
Proof. apply hc_map. intros r H. cbn. now apply map_not_nil. Qed.

Lemma hc_sort_funcs : forall rules, rules_have_conditions rules -> rules_have_conditions (map sort_funcs rules).
Proof.
  apply hc_map. intros r H. cbn. intros N. apply H.
  apply length_zero_iff_nil. rewrite <- (stable_sort_length less_fname), N. reflexivity.
Qed.

Lemma hc_sort_params : forall rules, rules_have_conditions rules -> rules_have_conditions (map sort_params rules).
Proof. apply hc_map. intros r H. cbn. now apply map_not_nil. Qed.

Lemma hc_dedup : forall rules, rules_have_conditions rules -> rules_have_conditions (dedup_opt rules).
Proof. apply hc_map. intros r H. cbn. now apply map_not_nil. Qed.

Lemma hc_merge_loop : forall rs m, rules_have_conditions (m :: rs) -> rules_have_conditions (merge_loop m rs).
Proof.
  induction rs as [|r t IH]; intros m H; [exact H|].
  cbn [merge_loop]. destruct (mergeable m r) eqn:HM.
  - apply IH. intros x [<-|Hx].
    + destruct (mergeable_shape _ _ HM) as (fm & fr & Em & Er & _). unfold merge_into. rewrite Em, Er. discriminate.
    + apply H. cbn; auto.
  - intros x [<-|Hx]; [apply H; cbn; auto|]. apply (IH r); [|exact Hx]. intros y Hy. apply H. cbn; auto.
Qed.

Lemma hc_merge_sort : forall rules, rules_have_conditions rules -> rules_have_conditions (merge_sort_opt rules).
Proof.
  intros rules H. unfold merge_sort_opt. apply hc_sort_params.
  apply hc_sort_funcs in H. destruct (map sort_funcs rules) as [|m t]; [exact H|]. now apply hc_merge_loop.
Qed.

Lemma dat_funcs_not_nil : forall db fs fs', dat_funcs db fs = XOk fs' -> fs <> [] -> fs' <> [].
Proof.
  intros db [|f t] fs' H N; [congruence|]. cbn in H.
  destruct (dat_params db (f_name f) (f_params f) []); try discriminate.
  destruct (dat_funcs db t); try discriminate. inversion H. discriminate.
Qed.

Lemma hc_dat : forall db rules out, dat_opt db rules = XOk out ->
    rules_have_conditions rules -> rules_have_conditions out.
Proof.
  intros db rules out H HC. apply dat_combine_ok in H.
  induction H as [|r r' t t' Hr _ IH]; [intros x []|].
  intros x [<-|Hx].
  - unfold dat_rule in Hr. destruct (dat_funcs db (r_funcs r)) as [fs| |] eqn:E; try discriminate.
    inversion Hr; subst. cbn. apply (dat_funcs_not_nil _ _ _ E). apply HC. cbn; auto.
  - apply IH; [|exact Hx]. intros y Hy. apply HC. cbn; auto.
Qed.

(* ---------- the statements of C04_Props.v ---------- *)
Lemma C04_alias_sound_proof :
  forall (packet D : Type) (atom_sem : string -> string -> string -> packet -> bool) (out_sem : func -> option D),
    alias_respecting packet atom_sem ->
    forall (rules : list rule) (pk : packet),
      decide packet D atom_sem out_sem (alias_opt rules) pk = decide packet D atom_sem out_sem rules pk.
Proof. intros; unfold decide; now apply alias_sound. Qed.

Lemma C04_dat_sound_proof :
  forall (packet D : Type) (atom_sem : string -> string -> string -> packet -> bool) (out_sem : func -> option D)
         (db : geodb),
    geo_respecting packet atom_sem (dat_expansion db) ->
    forall (rules out : list rule) (pk : packet),
      dat_opt db rules = XOk out ->
      decide packet D atom_sem out_sem out pk = decide packet D atom_sem out_sem rules pk.
Proof. intros; unfold decide; now apply (dat_sound packet D atom_sem out_sem db). Qed.

Lemma C04_sort_sound_proof :
  forall (packet D : Type) (atom_sem : string -> string -> string -> packet -> bool) (out_sem : func -> option D)
         (rules : list rule) (pk : packet),
    decide packet D atom_sem out_sem (map sort_params (map sort_funcs rules)) pk
    = decide packet D atom_sem out_sem rules pk.
Proof. intros; unfold decide; apply sort_sound. Qed.

Lemma C04_merge_outbound_refuted_proof :
  exists (rules : list rule) (pk : string),
    decide string string w_atom w_out_last (merge_sort_opt rules) pk <> decide string string w_atom w_out_last rules pk.
Proof. exists w_out_rules, "b.com". destruct merge_outbound_refuted_witness as [-> ->]. discriminate. Qed.

Lemma C04_merge_sound_partial_proof :
  forall (packet D : Type) (atom_sem : string -> string -> string -> packet -> bool) (out_sem : func -> option D)
         (rules : list rule),
    merge_hazard_free D out_sem rules ->
    forall pk : packet,
      decide packet D atom_sem out_sem (merge_sort_opt rules) pk = decide packet D atom_sem out_sem rules pk.
Proof. intros; unfold decide; now apply merge_sound_partial. Qed.

Lemma C04_merge_sound_proof :
  forall (packet D : Type) (atom_sem : string -> string -> string -> packet -> bool) (out_sem : func -> option D),
    (forall o1 o2 : func, out_print o1 = out_print o2 -> out_sem o1 = out_sem o2) ->
    forall (rules : list rule) (pk : packet),
      decide packet D atom_sem out_sem (merge_sort_opt rules) pk = decide packet D atom_sem out_sem rules pk.
Proof.
  intros packet D atom_sem out_sem HP rules pk. apply C04_merge_sound_partial_proof.
  unfold merge_hazard_free. induction rules as [|a t IH]; [exact I|].
  cbn. split; [|exact IH]. destruct t as [|b t']; [exact I|].
  intros HM. apply HP. destruct (mergeable_shape a b HM) as (fm & fr & _ & _ & _ & _ & _ & Ep). exact Ep.
Qed.

Lemma C04_dedup_sound_refuted_proof :
  exists (rules : list rule) (pk : string),
    decide string string w_atom_kv w_out (dedup_opt rules) pk <> decide string string w_atom_kv w_out rules pk.
Proof. exists w_dedup_rules, "a|b". destruct dedup_refuted_witness as [-> ->]. discriminate. Qed.

Lemma C04_dedup_sound_partial_proof :
  forall (packet D : Type) (atom_sem : string -> string -> string -> packet -> bool) (out_sem : func -> option D)
         (rules : list rule),
    dedup_faithful packet atom_sem rules ->
    forall pk : packet,
      decide packet D atom_sem out_sem (dedup_opt rules) pk = decide packet D atom_sem out_sem rules pk.
Proof. intros; unfold decide; now apply dedup_sound_partial. Qed.

Definition nonvacuous_rules : list rule :=
  [mk_rule false "domain" "full" "b.com" "proxy"; mk_rule false "domain" "full" "a.com" "proxy";
   mk_rule false "domain" "full" "b.com" "proxy"; mk_rule true "domain" "full" "c.com" "direct"].

Lemma C04_nonvacuous_proof :
  let rules := nonvacuous_rules in
  merge_hazard_free string w_out rules
  /\ dedup_faithful string w_atom (merge_sort_opt rules)
  /\ List.length (dedup_opt (merge_sort_opt rules)) = 2
  /\ map (fun r => map (fun f => map p_val (f_params f)) (r_funcs r)) (dedup_opt (merge_sort_opt rules))
     = [[["a.com"; "b.com"]]; [["c.com"]]]
  /\ decide string string w_atom w_out (dedup_opt (merge_sort_opt rules)) "a.com" = (Some "proxy", false).
Proof.
  cbv zeta. split; [|split; [|split; [|split]]].
  - unfold merge_hazard_free, nonvacuous_rules. cbn [adjacent_all].
    repeat split; vm_compute; intros; try discriminate; auto.
  - intros r f p q Hr Hf Hp Hq E pk. vm_compute in Hr.
    destruct Hr as [<-|[<-|[]]]; vm_compute in Hf; destruct Hf as [<-|[]];
      vm_compute in Hp; vm_compute in Hq;
      repeat match goal with H : _ \/ _ |- _ => destruct H as [<-|H] | H : False |- _ => destruct H end;
      vm_compute in E; try discriminate E; reflexivity.
  - vm_compute. reflexivity.
  - vm_compute. reflexivity.
  - vm_compute. reflexivity.
Qed.

(* the pipelines inherit the refutation (empty geodata, no aliases involved) *)
Definition db0 : geodb := {| db_sites := []; db_ips := [] |}.

Lemma w_atom_alias : alias_respecting string w_atom.
Proof. intros f k v pk. reflexivity. Qed.

Lemma w_atom_geo0 : geo_respecting string w_atom (dat_expansion db0).
Proof.
  intros f p ps pk H. unfold dat_expansion, expand_param in H.
  destruct (p_key p =? "geosite"); [cbn in H; discriminate|].
  destruct (p_key p =? "geoip"); [cbn in H; discriminate|].
  destruct (p_key p =? "ext").
  - destruct (cut_char ":" (p_val p)) as [file [code|]]; [|discriminate].
    destruct ((f =? "domain") || (f =? "qname")); [cbn in H; discriminate|].
    destruct (f =? "ip"); [cbn in H; discriminate|discriminate].
  - inversion H; subst. cbn. now rewrite orb_false_r.
Qed.

Lemma C04_pipeline_sound_refuted_proof :
  exists (rules out : list rule) (pk : string),
    alias_respecting string w_atom /\ geo_respecting string w_atom (dat_expansion db0) /\
    traffic_pipeline db0 rules = XOk out /\ dns_pipeline db0 rules = XOk out /\
    decide string string w_atom w_out_last out pk <> decide string string w_atom w_out_last rules pk.
Proof.
  exists w_out_rules, (merge_sort_opt w_out_rules), "b.com".
  split; [exact w_atom_alias|]. split; [exact w_atom_geo0|].
  split; [vm_compute; reflexivity|]. split; [vm_compute; reflexivity|].
  destruct merge_outbound_refuted_witness as [-> ->]. discriminate.
Qed.

(* ---------- statements about the compiled program ---------- *)
Lemma C04_build_error_iff_empty_condition_proof :
  forall rules : list rule, lower rules = None <-> some_condition_empty rules.
Proof. exact lower_none_iff. Qed.

Lemma C04_lower_sound_proof :
  forall (packet D : Type) (atom_sem : string -> string -> string -> packet -> bool) (out_sem : func -> option D)
         (rules : list rule),
    rules_have_conditions rules ->
    forall pk : packet,
      (some_condition_empty rules -> compiled_decision packet D atom_sem out_sem rules pk = CBuildError) /\
      (~ some_condition_empty rules ->
       compiled_decision packet D atom_sem out_sem rules pk = CDecision (decide packet D atom_sem out_sem rules pk)).
Proof.
  intros packet D atom_sem out_sem rules HC pk. split.
  - intros H. now apply compiled_error.
  - intros H. destruct (lower rules) as [ms|] eqn:E.
    + now apply (compiled_sound packet D atom_sem out_sem rules ms).
    + exfalso. apply H. now apply lower_none_iff.
Qed.

Lemma C04_empty_expansion_is_build_error_proof :
  exists (db : geodb) (rules out : list rule),
    rules_have_conditions rules /\ ~ some_condition_empty rules /\
    traffic_pipeline db rules = XOk out /\ some_condition_empty out /\
    forall pk : string, compiled_decision string string w_atom w_out out pk = CBuildError.
Proof.
  destruct empty_expansion_witness as (out & Hp & He & Hc).
  exists db_empty, w_geo_rules, out. split.
  - intros r [<-|[]]. discriminate.
  - split; [|auto].
    intros (r & f & [<-|[]] & [<-|[<-|[]]] & N); discriminate.
Qed.

Lemma C04_compiled_program_proof :
  forall (packet D : Type) (atom_sem : string -> string -> string -> packet -> bool) (out_sem : func -> option D)
         (db : geodb) (rules mid : list rule),
    alias_respecting packet atom_sem ->
    geo_respecting packet atom_sem (dat_expansion db) ->
    rules_have_conditions rules ->
    dat_opt db (alias_opt rules) = XOk mid ->
    merge_hazard_free D out_sem mid ->
    dedup_faithful packet atom_sem (merge_sort_opt mid) ->
    exists out, traffic_pipeline db rules = XOk out /\
                forall pk : packet,
                  (some_condition_empty out -> compiled_decision packet D atom_sem out_sem out pk = CBuildError) /\
                  (~ some_condition_empty out ->
                   compiled_decision packet D atom_sem out_sem out pk = CDecision (decide packet D atom_sem out_sem rules pk)).
Proof.
  intros packet D atom_sem out_sem db rules mid HA HG HC Hd HM HF.
  destruct (traffic_pipeline_sound_partial packet D atom_sem out_sem db rules mid HA HG Hd HM HF) as (out & Hp & Hdec).
  exists out. split; [exact Hp|]. intros pk. rewrite <- Hdec.
  apply C04_lower_sound_proof.
  rewrite traffic_pipeline_eq, Hd in Hp. cbn in Hp. inversion Hp; subst.
  apply hc_dedup, hc_merge_sort, (hc_dat db _ _ Hd), hc_alias, HC.
Qed.

Lemma C04_compiled_dns_program_proof :
  forall (packet D : Type) (atom_sem : string -> string -> string -> packet -> bool) (out_sem : func -> option D)
         (db : geodb) (rules mid : list rule),
    geo_respecting packet atom_sem (dat_expansion db) ->
    rules_have_conditions rules ->
    dat_opt db rules = XOk mid ->
    merge_hazard_free D out_sem mid ->
    dedup_faithful packet atom_sem (merge_sort_opt mid) ->
    exists out, (dns_pipeline db rules = XOk out /\ dns_response_pipeline db rules = XOk out /\ daedns_pipeline db rules = XOk out) /\
                forall pk : packet,
                  (some_condition_empty out -> compiled_decision packet D atom_sem out_sem out pk = CBuildError) /\
                  (~ some_condition_empty out ->
                   compiled_decision packet D atom_sem out_sem out pk = CDecision (decide packet D atom_sem out_sem rules pk)).
Proof.
  intros packet D atom_sem out_sem db rules mid HG HC Hd HM HF.
  destruct (dns_pipeline_sound_partial packet D atom_sem out_sem db rules mid HG Hd HM HF) as (out & Hp & Hdec).
  exists out. split; [exact Hp|]. intros pk. rewrite <- Hdec.
  apply C04_lower_sound_proof.
  destruct Hp as (Hp & _). destruct (dns_pipeline_eq db rules) as (E & _). rewrite E, Hd in Hp. cbn in Hp. inversion Hp; subst.
  apply hc_dedup, hc_merge_sort, (hc_dat db _ _ Hd), HC.
Qed.

Lemma compiled_nonvacuous :
  compiled_decision string string w_atom w_out (dedup_opt (merge_sort_opt nonvacuous_rules)) "a.com"
  = CDecision (Some "proxy", false)
  /\ rules_have_conditions nonvacuous_rules /\ ~ some_condition_empty (dedup_opt (merge_sort_opt nonvacuous_rules)).
Proof.
  split; [vm_compute; reflexivity|]. split.
  - intros r Hr. vm_compute in Hr. repeat (destruct Hr as [<-|Hr]; [discriminate|]). destruct Hr.
  - intros H. apply lower_none_iff in H. vm_compute in H. discriminate.
Qed.

(* ---------- the alias pass touches function names and keys only (per the alias table), never a value ---------- *)
Definition rule_values (r : rule) : list (bool * list string) * func :=
  (map (fun f => (f_not f, map p_val (f_params f))) (r_funcs r), r_out r).

Lemma alias_param_val : forall n p, p_val (alias_param n p) = p_val p.
Proof. intros n p. unfold alias_param. destruct (n =? alias_key_function_src); reflexivity. Qed.

Lemma alias_param_key : forall n p, p_key (alias_param (canon_fname n) p) = canon_key (canon_fname n) (p_key p).
Proof.
  intros n p. unfold alias_param, alias_key_function_src.
  destruct (canon_fname n =? "domain") eqn:E.
  - cbn [p_key]. rewrite alias_key_canon. apply String.eqb_eq in E. now rewrite E.
  - unfold canon_key. now rewrite E.
Qed.

Lemma C04_alias_preserves_values_proof :
  forall rules : list rule,
    map rule_values (alias_opt rules) = map rule_values rules
    /\ forall r f, In r rules -> In f (r_funcs r) ->
         f_name (alias_func f) = canon_fname (f_name f)
         /\ map p_key (f_params (alias_func f)) = map (canon_key (canon_fname (f_name f))) (map p_key (f_params f))
         /\ map p_val (f_params (alias_func f)) = map p_val (f_params f).
Proof.
  intros rules. split.
  - unfold alias_opt. rewrite map_map. apply map_ext. intros r. unfold rule_values, alias_rule; cbn [r_funcs r_out].
    f_equal. rewrite map_map. apply map_ext. intros f. unfold alias_func; cbn [f_not f_params].
    f_equal. rewrite map_map. apply map_ext. intros p. apply alias_param_val.
  - intros r f _ _. unfold alias_func; cbn [f_name f_params]. rewrite alias_fname_canon. repeat split.
    + rewrite !map_map. apply map_ext. intros p. apply alias_param_key.
    + rewrite map_map. apply map_ext. intros p. apply alias_param_val.
Qed.
