(* C09 — property theorems only.  Each is closed by `exact` of a lemma of C09_Proofs*.v. *)
From Coq Require Import List NArith ZArith Bool.
From Dae Require Import C09_Spec C09_Model C09_Check C09_ProofsF C09_ProofsP C09_Proofs C09_ProofsC.
Import ListNotations.
Open Scope N_scope.

(* ---- UDP path (DoUDP.ForwardDNS over the pooled socket) ------------------------------------- *)

(* Whatever datagrams the environment puts on the pooled socket (late, duplicated, short, garbage,
   foreign IDs), in whatever order and for any sequence of queries: a message handed back for a query
   carries that query's ID, and every query gets exactly one result. *)
Theorem C09_udp_reply_id :
  forall evs : list uev, length (urun evs) = length (uq_ids evs) /\ udp_ids_ok evs = true.
Proof. exact C09_udp_reply_id_proof. Qed.
Print Assumptions C09_udp_reply_id.

(* Full statement: every message handed back answers the query's own question.  False of the code:
   the receive loop tests the ID only. *)
Definition C09_udp_own_answer_full : Prop :=
  forall evs qs, length qs = length (uq_ids evs) -> udp_results_ok evs qs = true.

Theorem C09_udp_own_answer_refuted :
  exists evs qs, length qs = length (uq_ids evs) /\ udp_results_ok evs qs = false.
Proof. exact C09_udp_own_answer_refuted_proof. Qed.
Print Assumptions C09_udp_own_answer_refuted.

(* It holds when every datagram carrying ID x is an answer to every query sent under ID x (no foreign
   question under a colliding ID, no duplicate that survives into a later query with the same ID);
   truncated answers are excluded (they are reported as ErrDNSTruncated, not handed to a client). *)
Theorem C09_udp_own_answer_partial :
  forall evs qs, length qs = length (uq_ids evs) ->
    udp_honest (zip (uq_ids evs) qs) (all_dgrams evs) = true ->
    udp_results_ok evs qs = true.
Proof. exact C09_udp_own_answer_partial_proof. Qed.
Print Assumptions C09_udp_own_answer_partial.

(* ---- controller ----------------------------------------------------------------------------- *)

(* Every reply written to any client on any path (cache hit packed / filled in place, singleflight
   waiter with and without a cached entry, fallback) carries that client's own transaction ID, and
   every client of every round gets exactly one outcome — for all rounds of concurrent clients (equal
   and colliding IDs, equal and different names), all upstream scripts and any initial cache. *)
Theorem C09_reply_id :
  forall packed pnew fallback s rounds,
    let '(outs, _) := run_rounds packed pnew fallback s rounds in
    length outs = length rounds /\ rounds_ids_ok rounds outs = true.
Proof. exact C09_reply_id_proof. Qed.
Print Assumptions C09_reply_id.

(* Full statement: every reply also carries the client's question and only answers to it, and the
   cache holds under each key only answers to that key.  False of the code: the question section of an
   upstream response is never compared with the request. *)
Definition C09_reply_question_cache_full : Prop :=
  forall packed pnew fallback udp tcp rounds, ctl_full_ok packed pnew fallback udp tcp rounds = true.

Theorem C09_reply_question_cache_refuted :
  exists packed pnew fallback udp tcp rounds, ctl_full_ok packed pnew fallback udp tcp rounds = false.
Proof. exact C09_reply_question_cache_refuted_proof. Qed.
Print Assumptions C09_reply_question_cache_refuted.

(* C09_reply_id_question / C09_cache_only_answers_to_key of the design, as far as they are true: for
   upstream forwarders whose every response echoes the question it was asked (class IN) and carries only
   answers to it, and clients asking in class IN, every reply on every path carries the client's ID and
   question and only answers to it, and every cache entry holds only answers to its key. *)
Theorem C09_reply_question_cache_partial :
  forall packed pnew fallback udp tcp rounds,
    scripts_honest udp = true -> scripts_honest tcp = true -> forallb clients_in rounds = true ->
    ctl_full_ok packed pnew fallback udp tcp rounds = true.
Proof. exact C09_reply_question_cache_partial_proof. Qed.
Print Assumptions C09_reply_question_cache_partial.

(* Concurrent identical questions cause one upstream resolution whose result reaches every waiter:
   in every round, for any state, every client gets an outcome, each resolution performed in the round
   is for a question some client of the round asked, and no question is resolved twice.  (singleflight
   itself is abstracted to its contract; the harness counts forwarder invocations on the real code.) *)
Theorem C09_singleflight_one_resolution :
  forall packed pnew fallback s cs,
    let '(os, s') := run_round packed pnew fallback s cs in
    length os = length cs /\
    exists added, c_calls s' = c_calls s ++ added /\ NoDup added /\
      forall k, In k added -> exists c, In c cs /\ key_of (cq_q c) = k.
Proof. exact C09_singleflight_one_resolution_proof. Qed.
Print Assumptions C09_singleflight_one_resolution.

(* ---- forwarder lifecycle (cachedDnsForwarder) ------------------------------------------------ *)

(* For every schedule of the atomic steps of any number of users and retirers: the underlying
   forwarder is closed at most once, only after retire(), and — once every goroutine has returned and
   some retire() has run — exactly once (no leak); the in-flight counter returns to zero. *)
Theorem C09_forwarder_close_once :
  forall evs,
    let s := frun evs in let o := fwd_obs_of s in
    (fo_closes o <= 1) /\
    (0 < fo_closes o -> fo_retired o = true) /\
    (fo_quiescent o = true -> fo_retire_done o = true -> fo_closes o = 1) /\
    (forallb user_quiet (f_users s) = true -> f_inflight s = 0%Z).
Proof. exact C09_forwarder_close_once_final. Qed.
Print Assumptions C09_forwarder_close_once.

(* Full statement: the whole lifecycle spec, including "closed only after its last in-flight query".
   False of the code: endUse performs inFlight.Add(-1) and retired.Load() as two atomic operations. *)
Definition C09_forwarder_lifecycle_full : Prop :=
  forall evs, fwd_ok (fwd_obs_of (frun evs)) = true.

Theorem C09_forwarder_lifecycle_refuted :
  exists evs, fwd_ok (fwd_obs_of (frun evs)) = false.
Proof. exact C09_forwarder_lifecycle_refuted_proof. Qed.
Print Assumptions C09_forwarder_lifecycle_refuted.

(* It holds for every schedule in which no other goroutine takes a step while a user sits between the
   two atomic operations of endUse. *)
Theorem C09_forwarder_lifecycle_partial :
  forall evs, f_window (frun evs) = false -> fwd_ok (fwd_obs_of (frun evs)) = true.
Proof. exact C09_forwarder_lifecycle_partial_proof. Qed.
Print Assumptions C09_forwarder_lifecycle_partial.

(* ---- pipelined TCP/TLS connection ------------------------------------------------------------ *)

(* For every sequence of starts, upstream messages, completions and timeouts: no two in-flight
   queries on one connection hold the same wire ID; a message is delivered only to the query that
   holds the ID it carries; once a query timed out the connection is closed and delivers nothing. *)
Theorem C09_pipelined_ids_unique :
  forall evs, let s := prun evs in
    (forall c1 c2 st1 st2 id, lookup c1 (p_clients s) = Some st1 -> lookup c2 (p_clients s) = Some st2 ->
        held_id st1 = Some id -> held_id st2 = Some id -> c1 = c2) /\
    (forall c id m, (lookup c (p_clients s) = Some (CGot id m) \/ lookup c (p_clients s) = Some (CDoneOk id m)) ->
        m_id m = id /\ In (c, id) (p_log s)) /\
    (forall m, p_closed s = true -> pstep s (PResp m) = s).
Proof. exact C09_pipelined_ids_unique_proof. Qed.
Print Assumptions C09_pipelined_ids_unique.

(* Full statement: every delivered message answers the receiving query's own question.  False: wire
   IDs are reused immediately and the question section is not compared. *)
Definition C09_pipelined_own_answer_full : Prop :=
  forall qs evs, pipe_model_ok qs (prun evs) = true.

Theorem C09_pipelined_own_answer_refuted :
  exists qs evs, pipe_model_ok qs (prun evs) = false.
Proof. exact C09_pipelined_own_answer_refuted_proof. Qed.
Print Assumptions C09_pipelined_own_answer_refuted.

(* It holds for upstreams that send, under an ID that is pending, only an answer to the query pending
   under that ID (no duplicates after completion, no foreign answers). *)
Theorem C09_pipelined_own_answer_partial :
  forall qs evs, pipe_honest qs pinit evs = true -> pipe_model_ok qs (prun evs) = true.
Proof. exact C09_pipelined_own_answer_partial_proof. Qed.
Print Assumptions C09_pipelined_own_answer_partial.

(* ---- non-vacuity ------------------------------------------------------------------------------ *)
Example C09_nonvacuous :
  (* two users, one retirer, all finished: closed exactly once, nobody in flight *)
  (let s := frun [FSpawnU; FSpawnU; FSpawnR; FU 0; FU 0; FU 0; FU 1; FR 0; FU 1; FU 1; FR 0; FU 0; FU 0; FU 1]%nat in
   f_window s = false /\ fwd_ok (fwd_obs_of s) = true /\ fo_closes (fwd_obs_of s) = 1 /\ fo_quiescent (fwd_obs_of s) = true)
  /\ (* an honest pipelined exchange with two overlapping queries *)
  (let qs := [(1, wq1); (2, wq2)] in
   let evs := [PStart 1; PStart 2; PResp (wm2 1); PResp (wm1 0); PFinish 2; PFinish 1] in
   pipe_honest qs pinit evs = true /\ map snd (p_log (prun evs)) = [1; 0])
  /\ (* a round with two waiters for one question and a third client: two resolutions, three replies *)
  (let '(os, s') := run_round false false false
        {| c_cache := []; c_udp := [((1, 1), [FMsg (wm1 9)]); ((2, 1), [FMsg (wm2 9)])]; c_tcp := []; c_calls := [] |}
        [{| cq_id := 3; cq_q := wq1 |}; {| cq_id := 3; cq_q := wq1 |}; {| cq_id := 4; cq_q := wq2 |}] in
   length os = 3%nat /\ c_calls s' = [(1, 1); (2, 1)]).
Proof. vm_compute. repeat split; reflexivity. Qed.
