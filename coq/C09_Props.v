(* C09 — property theorems only.  Each is closed by `exact` of a lemma of C09_Proofs*.v. *)
From Coq Require Import List NArith ZArith Bool.
From Dae Require Import C09_Spec C09_Model C09_Check C09_ProofsF C09_ProofsP C09_Proofs C09_ProofsC C09_ProofsW C09_ProofsK C09_ProofsS C09_ProofsT C09_ProofsR C09_ProofsQ.
From Dae.gen Require Import C09_Route C09_TcpOwn C09_Pref C09_KeyQtype.
Import ListNotations.
Open Scope N_scope.

(* ---- UDP path (DoUDP.ForwardDNS over the pooled socket) ------------------------------------- *)

(* Whatever datagrams the environment puts on the pooled socket (late, duplicated, short, garbage,
   foreign IDs), in whatever order and for any sequence of queries: a message handed back for a query
   carries that query's ID, and every query gets exactly one result. *)
Theorem C09_udp_reply_id :
  forall evs : list uev, length (urun evs) = length (uq_ids evs) /\ udp_ids_ok evs = true.
Proof. exact C09_udp_reply_id_proof. Qed.
Print Assumptions C09_udp_reply_id.

(* Transport layer fact (not a violation of the property any more: dialSend rejects such a response
   before it reaches a client or the cache): DoUDP alone hands a query any datagram with its ID. *)
Definition C09_udp_own_answer_full : Prop :=
  forall evs qs, length qs = length (uq_ids evs) -> udp_results_ok evs qs = true.

Theorem C09_udp_own_answer_refuted :
  exists evs qs, length qs = length (uq_ids evs) /\ udp_results_ok evs qs = false.
Proof. exact C09_udp_own_answer_refuted_proof. Qed.
Print Assumptions C09_udp_own_answer_refuted.

(* It holds when every datagram carrying ID x is an answer to every query sent under ID x (no foreign
   question under a colliding ID, no duplicate that survives into a later query with the same ID);
   truncated answers are excluded (they are reported as ErrDNSTruncated, not handed to a client). *)
Theorem C09_udp_own_answer_partial :
  forall evs qs, length qs = length (uq_ids evs) ->
    udp_honest (zip (uq_ids evs) qs) (all_dgrams evs) = true ->
    udp_results_ok evs qs = true.
Proof. exact C09_udp_own_answer_partial_proof. Qed.
Print Assumptions C09_udp_own_answer_partial.

(* ---- controller ----------------------------------------------------------------------------- *)

(* Every reply written to any client on any path (cache hit packed / filled in place, singleflight
   waiter with and without a cached entry, fallback) carries that client's own transaction ID, and
   every client of every round gets exactly one outcome — for all rounds of concurrent clients (equal
   and colliding IDs, equal and different names), all upstream scripts and any initial cache. *)
Theorem C09_reply_id :
  forall packed pnew fallback s rounds,
    let '(outs, _) := run_rounds packed pnew fallback s rounds in
    length outs = length rounds /\ rounds_ids_ok rounds outs = true.
Proof. exact C09_reply_id_proof. Qed.
Print Assumptions C09_reply_id.

(* C09_reply_id_question and C09_cache_only_answers_to_key of the design, at full strength: for ALL
   upstream behaviours (any scripts of responses for the primary and the fallback forwarder: right or
   foreign question, no question, any rcode, truncated, errors), all rounds of concurrent clients and both
   cache-hit paths, every reply dae writes carries the client's own ID and question and only records of an
   upstream answer to that question, and every cache entry holds only records of an answer to its key.
   "Answer to q" = the answer section of an upstream response whose question section is q: scripts_tagged
   is this labelling convention of the description (each record is labelled by the question of the message
   that carries it), not a restriction on the upstream.  Clients ask in class IN (the cache key ignores
   the class; other classes are outside this theorem).  The proof rests on checkDnsResponseQuestion in
   dialSend. *)
Theorem C09_reply_question_cache :
  forall packed pnew fallback udp tcp rounds,
    scripts_tagged udp = true -> scripts_tagged tcp = true -> forallb clients_in rounds = true ->
    ctl_full_ok packed pnew fallback udp tcp rounds = true.
Proof. exact C09_reply_question_cache_proof. Qed.
Print Assumptions C09_reply_question_cache.

(* Concurrent identical questions cause one upstream resolution whose result reaches every waiter:
   in every round, for any state, every client gets an outcome, each resolution performed in the round
   is for a question some client of the round asked, and no question is resolved twice.  (singleflight
   itself is abstracted to its contract; the harness counts forwarder invocations on the real code.) *)
Theorem C09_singleflight_one_resolution :
  forall packed pnew fallback s cs,
    let '(os, s') := run_round packed pnew fallback s cs in
    length os = length cs /\
    exists added, c_calls s' = c_calls s ++ added /\ NoDup added /\
      forall k, In k added -> exists c, In c cs /\ key_of (cq_q c) = k.
Proof. exact C09_singleflight_one_resolution_proof. Qed.
Print Assumptions C09_singleflight_one_resolution.

(* The per-waiter tail after singleflight for a result that is not in the cache (copy the leader's
   message, stamp the own ID, hand it to the response writer, which packs it at any later time): for every
   number of waiters, any transaction IDs (also equal ones) and every interleaving of the waiters' steps
   copy / stamp / enter WriteMsg / pack, what is packed for a waiter is the leader's message under that
   waiter's own ID; no two waiters are handed the same message object, and nobody is handed the shared one. *)
Theorem C09_waiter_reply_private :
  forall m0 ids sched,
    let s := wrun true m0 ids sched in
    (forall i id o p, nth_error (w_ws s) i = Some (id, WDone o p) -> p = with_id m0 id) /\
    (forall i j idi idj pci pcj o, i <> j ->
       nth_error (w_ws s) i = Some (idi, pci) -> nth_error (w_ws s) j = Some (idj, pcj) ->
       wobj pci = Some o -> wobj pcj = Some o -> False) /\
    (forall i id pc o, nth_error (w_ws s) i = Some (id, pc) -> wobj pc = Some o -> o <> 0%nat).
Proof. exact C09_waiter_reply_private_proof. Qed.
Print Assumptions C09_waiter_reply_private.

(* The variant that stamps and writes the shared message itself (no copy) is refutable: a waiter whose
   writer packs after another waiter stamped replies under the other client's ID. *)
Theorem C09_waiter_reply_shared_refuted :
  exists m0 ids sched i id o p,
    nth_error (w_ws (wrun false m0 ids sched)) i = Some (id, WDone o p) /\ m_id p <> id.
Proof. exact C09_waiter_reply_shared_refuted_proof. Qed.
Print Assumptions C09_waiter_reply_shared_refuted.

(* One singleflight flight with clients of mixed kinds (transparent-UDP clients answered by datagrams,
   listener / TCP clients answered through a response writer), any leader, any number of waiters, any
   upstream behaviour, and every history of the cache - in particular an earlier flight publishing the
   answer between the leader's outer miss and the shared resolution's own lookup: the shared resolution,
   which is given the internal capturer, writes the answer to the capturer and to nothing else, so the
   leader and every waiter receive exactly one reply, under their own ID, with their own question, carrying
   the shared result (the answer when there is one, SERVFAIL only when there is none).  The routing
   conditions of writeCachedResponse are the terms generated from the source (gen/C09_Route.v). *)
Theorem C09_flight_result_reaches_every_waiter :
  forall p L Ws pb up,
    let k := key_of (cq_q (fc_q L)) in
    forallb (participant k) (L :: Ws) = true -> pub_good k pb = true -> fres_tagged up = true ->
    flight_ok wcr_writer_cond wcr_noconn_cond p L Ws pb up = true.
Proof. exact C09_flight_result_reaches_every_waiter_proof. Qed.
Print Assumptions C09_flight_result_reaches_every_waiter.

(* With the routing condition "writer present AND no lConn" the statement is refutable: a UDP leader whose
   shared resolution hits the cache gets the datagram itself, the capturer stays empty, every waiter gets
   SERVFAIL and the leader a second reply. *)
Theorem C09_flight_seeded_route_refuted :
  exists p L Ws pb up,
    forallb (participant (key_of (cq_q (fc_q L)))) (L :: Ws) = true /\
    pub_good (key_of (cq_q (fc_q L))) pb = true /\ fres_tagged up = true /\
    flight_ok seeded_writer_cond wcr_noconn_cond p L Ws pb up = false.
Proof. exact C09_flight_seeded_route_refuted_proof. Qed.
Print Assumptions C09_flight_seeded_route_refuted.

(* Message ownership on the pipelined DNS-over-TCP fast path: the connection loop allocates a fresh
   message for every query (tcp_fresh_msg_per_query is extracted from control/tcp.go), so for every list
   of pipelined queries, every set of stale hits that spawn a background refresh holding a POINTER to the
   query's message, and every interleaving of {next read / unpack, handle, refresh copy, refresh resolve +
   store}, a refresh resolves and stores the question it was spawned for: every cache entry answers the
   question of its key. *)
Theorem C09_tcp_refresh_keeps_own_question :
  forall q0 todo cache evs,
    tcache_ok cache = true -> tcache_ok (t_cache (trun tcp_fresh_msg_per_query q0 todo cache evs)) = true.
Proof. exact C09_tcp_refresh_keeps_own_question_proof. Qed.
Print Assumptions C09_tcp_refresh_keeps_own_question.

(* With one message object shared by all queries of the connection it is refutable: the refresh copies the
   NEXT query and its answer is stored under the first query's key. *)
Theorem C09_tcp_shared_message_refuted :
  exists q0 todo cache evs,
    tcache_ok cache = true /\ tcache_ok (t_cache (trun false q0 todo cache evs)) = false.
Proof. exact C09_tcp_shared_message_refuted_proof. Qed.
Print Assumptions C09_tcp_shared_message_refuted.

(* ip_version_prefer: the preference wait is a rendezvous between the resolutions of the two address types
   of one name.  For every ordering of the two upstream answers and every outcome of the wait (released by
   the preferred answer in time, timed out, nothing to wait for), every content of the two answers (empty,
   non-empty, any rcode), the message released to each resolution is the response to ITS OWN question
   (pref_returns_own is extracted from applyPreferenceWait: every return gives back the response it was
   given), so the reply and the cache entry of each type carry their own (name, type) question and only
   records of answers to it. *)
Theorem C09_preference_wait_own_response :
  forall o cN cP mN mP,
    fres_tagged (FMsg mN) = true -> question_checked (cq_q cN) mN = true -> q_class (cq_q cN) = 1 ->
    fres_tagged (FMsg mP) = true -> question_checked (cq_q cP) mP = true -> q_class (cq_q cP) = 1 ->
    pref_ok cN (pref_release pref_returns_own o mN mP) = true /\
    pref_ok cP (pref_release pref_returns_own o mP mN) = true.
Proof. exact C09_preference_wait_own_response_proof. Qed.
Print Assumptions C09_preference_wait_own_response.

(* Returning the preferred family's response to the waiting non-preferred resolution is refutable: the A
   client gets (and the A key caches) an AAAA message. *)
Theorem C09_preference_wait_swap_refuted :
  exists o cN cP mN mP,
    fres_tagged (FMsg mN) = true /\ question_checked (cq_q cN) mN = true /\ q_class (cq_q cN) = 1 /\
    fres_tagged (FMsg mP) = true /\ question_checked (cq_q cP) mP = true /\ q_class (cq_q cP) = 1 /\
    pref_ok cN (pref_release false o mN mP) = false.
Proof. exact C09_preference_wait_swap_refuted_proof. Qed.
Print Assumptions C09_preference_wait_swap_refuted.

(* The response-cache key, which is also the singleflight key, separates query types: for one name,
   distinct 16-bit query types give distinct keys (cacheKey appends the decimal string of the whole type;
   cachekey_full_qtype is extracted from the source), so a question never joins the flight or hits the
   entry of another type (CAA 257 vs A 1, 284 vs AAAA 28, DLV 32769 vs A). *)
Theorem C09_flight_key_injective_qtype :
  forall name t1 t2,
    flight_key cachekey_full_qtype name t1 = flight_key cachekey_full_qtype name t2 -> t1 = t2.
Proof. exact C09_flight_key_injective_qtype_proof. Qed.
Print Assumptions C09_flight_key_injective_qtype.

(* A key built from the low byte of the type is refutable. *)
Theorem C09_flight_key_low_byte_refuted :
  exists name t1 t2,
    t1 <> t2 /\ t1 < 65536 /\ t2 < 65536 /\ flight_key false name t1 = flight_key false name t2.
Proof. exact C09_flight_key_low_byte_refuted_proof. Qed.
Print Assumptions C09_flight_key_low_byte_refuted.

(* ---- forwarder lifecycle (cachedDnsForwarder) ------------------------------------------------ *)

(* For every schedule of the atomic steps of any number of users and retirers: the underlying
   forwarder is closed at most once, only after retire(), and — once every goroutine has returned and
   some retire() has run — exactly once (no leak); the in-flight counter returns to zero. *)
Theorem C09_forwarder_close_once :
  forall evs,
    let s := frun evs in let o := fwd_obs_of s in
    (fo_closes o <= 1) /\
    (0 < fo_closes o -> fo_retired o = true) /\
    (fo_quiescent o = true -> fo_retire_done o = true -> fo_closes o = 1) /\
    (forallb user_quiet (f_users s) = true -> f_inflight s = 0%Z).
Proof. exact C09_forwarder_close_once_final. Qed.
Print Assumptions C09_forwarder_close_once.

(* The whole lifecycle spec at full strength, for every schedule of the atomic steps (endUse = decrement,
   load of retired, re-load of inFlight): Close runs at most once, only when retired and with nothing in
   flight at the closing step's load (no query is inside ForwardDNS, none enters afterwards), and exactly
   once at quiescence after retire(). *)
Theorem C09_forwarder_lifecycle :
  forall evs, fwd_ok (fwd_obs_of (frun evs)) = true.
Proof. exact C09_forwarder_lifecycle_proof. Qed.
Print Assumptions C09_forwarder_lifecycle.

(* ---- the forwarder cache (key -> cachedDnsForwarder) ------------------------------------------ *)

(* For every schedule of any number of queries (Load / create / LoadOrStore / beginUse / ForwardDNS that
   succeeds or fails / endUse / retire-by-key = CompareAndDelete + retire), reloads (retireAll) and
   closeAll: the cache never holds a retired or closed entry; no instance is closed by endUse/retire while
   a query is inside it; at quiescence every instance ever created is closed except the one still cached,
   and closeAll then closes that one: every instance ever created is closed (sync.Once: exactly once)
   and the cache is empty.  (Entry methods are atomic here; their interleavings are C09_forwarder_lifecycle.
   closeAll itself closes whatever is cached even with queries in flight: that is shutdown.) *)
Theorem C09_forwarder_cache_no_leak :
  forall evs,
    let s := krun true evs in
    (forall e, k_cache s = Some e -> exists en, nth_error (k_ents s) e = Some en /\ fe_retired en = false /\ fe_closed en = false) /\
    k_bad s = false /\
    (k_quiescent s = true -> forall e en, nth_error (k_ents s) e = Some en -> fe_closed en = true \/ k_cache s = Some e) /\
    (k_quiescent s = true -> all_closed (kstep true s KCloseAll) = true /\ k_cache (kstep true s KCloseAll) = None).
Proof. exact C09_forwarder_cache_no_leak_proof. Qed.
Print Assumptions C09_forwarder_cache_no_leak.

(* The variant whose retire-by-key deletes the slot unconditionally is refutable: the failing query's
   delete evicts the healthy replacement, which is then never retired and never closed. *)
Theorem C09_forwarder_cache_unconditional_delete_refuted :
  exists evs, let s := krun false evs in
    k_quiescent s = true /\ all_closed (kstep false s KCloseAll) = false.
Proof. exact C09_forwarder_cache_unconditional_delete_refuted_proof. Qed.
Print Assumptions C09_forwarder_cache_unconditional_delete_refuted.

(* ---- pipelined TCP/TLS connection ------------------------------------------------------------ *)

(* For every sequence of starts, upstream messages, completions and timeouts: no two in-flight
   queries on one connection hold the same wire ID; a message is delivered only to the query that
   holds the ID it carries; once a query timed out the connection is closed and delivers nothing. *)
Theorem C09_pipelined_ids_unique :
  forall evs, let s := prun evs in
    (forall c1 c2 st1 st2 id, lookup c1 (p_clients s) = Some st1 -> lookup c2 (p_clients s) = Some st2 ->
        held_id st1 = Some id -> held_id st2 = Some id -> c1 = c2) /\
    (forall c id m, (lookup c (p_clients s) = Some (CGot id m) \/ lookup c (p_clients s) = Some (CDoneOk id m)) ->
        m_id m = id /\ In (c, id) (p_log s)) /\
    (forall m, p_closed s = true -> pstep s (PResp m) = s).
Proof. exact C09_pipelined_ids_unique_proof. Qed.
Print Assumptions C09_pipelined_ids_unique.

(* Transport layer fact (not a violation of the property any more: dialSend rejects such a response):
   wire IDs are reused immediately and the pipelined connection does not compare questions. *)
Definition C09_pipelined_own_answer_full : Prop :=
  forall qs evs, pipe_model_ok qs (prun evs) = true.

Theorem C09_pipelined_own_answer_refuted :
  exists qs evs, pipe_model_ok qs (prun evs) = false.
Proof. exact C09_pipelined_own_answer_refuted_proof. Qed.
Print Assumptions C09_pipelined_own_answer_refuted.

(* It holds for upstreams that send, under an ID that is pending, only an answer to the query pending
   under that ID (no duplicates after completion, no foreign answers). *)
Theorem C09_pipelined_own_answer_partial :
  forall qs evs, pipe_honest qs pinit evs = true -> pipe_model_ok qs (prun evs) = true.
Proof. exact C09_pipelined_own_answer_partial_proof. Qed.
Print Assumptions C09_pipelined_own_answer_partial.

(* ---- non-vacuity ------------------------------------------------------------------------------ *)
Example C09_nonvacuous :
  (* two users, one retirer, all finished: closed exactly once, nobody in flight *)
  (let s := frun [FSpawnU; FSpawnU; FSpawnR; FU 0; FU 0; FU 0; FU 1; FR 0; FU 1; FU 1; FR 0; FU 0; FU 0; FU 1]%nat in
   fwd_ok (fwd_obs_of s) = true /\ fo_closes (fwd_obs_of s) = 1 /\ fo_quiescent (fwd_obs_of s) = true)
  /\ (* an honest pipelined exchange with two overlapping queries *)
  (let qs := [(1, wq1); (2, wq2)] in
   let evs := [PStart 1; PStart 2; PResp (wm2 1); PResp (wm1 0); PFinish 2; PFinish 1] in
   pipe_honest qs pinit evs = true /\ map snd (p_log (prun evs)) = [1; 0])
  /\ (* a round with two waiters for one question and a third client: two resolutions, three replies *)
  (let '(os, s') := run_round false false false
        {| c_cache := []; c_udp := [((1, 1), [FMsg (wm1 9)]); ((2, 1), [FMsg (wm2 9)])]; c_tcp := []; c_calls := [] |}
        [{| cq_id := 3; cq_q := wq1 |}; {| cq_id := 3; cq_q := wq1 |}; {| cq_id := 4; cq_q := wq2 |}] in
   length os = 3%nat /\ c_calls s' = [(1, 1); (2, 1)]).
Proof. vm_compute. repeat split; reflexivity. Qed.
