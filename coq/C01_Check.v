(* C01 — executable comparison functions used by the generated cases file (no proofs). *)
From Coq Require Import List NArith Bool String Ascii.
From Dae Require Import C01_Spec C01_Model.
Import ListNotations.
Open Scope N_scope.

Record obs_packet := {
  op_pk : packet;
  op_route : bool;          (* probed through ControlPlane.Route (ip version computed by the glue) *)
  op_is4 : bool;            (* the destination was handed over as a plain IPv4 netip.Addr *)
  op_bm : list N;           (* what the real domain matcher returned for the domain (oracle for the model) *)
  op_impl : res decision }. (* what the implementation answered *)

Record obs_case := {
  oc_prog : program;
  oc_full : bool;                                  (* decisions come from the production path WITH the rule optimizers; the
                                                      dumps and the bitmap oracle come from the plain builder of the
                                                      same parsed program (same match-set indexing as the model) *)
  oc_build : N;                                    (* 0 = built; else error class of the implementation *)
  oc_msets : list mset;                            (* dump of builder.compiledRules *)
  oc_tries : list (list prefix128);                (* dump of builder.simulatedLpmTries *)
  oc_domsets : list (N * (N * list string));       (* dump of builder.simulatedDomainSet *)
  oc_packets : list obs_packet }.

Definition dec_eqb (a b : decision) : bool :=
  let '(o1, m1, u1) := a in let '(o2, m2, u2) := b in (o1 =? o2) && (m1 =? m2) && Bool.eqb u1 u2.
Definition res_eqb (a b : res decision) : bool :=
  match a, b with Ok x, Ok y => dec_eqb x y | Err e, Err f => e =? f | _, _ => false end.

Definition mset_eqb (a b : mset) : bool :=
  (m_type a =? m_type b) && Bool.eqb (m_not a) (m_not b) && (m_out a =? m_out b) && (m_mark a =? m_mark b) &&
  Bool.eqb (m_must a) (m_must b) && (m_lpm a =? m_lpm b) && (m_ps a =? m_ps b) && (m_pe a =? m_pe b) &&
  (m_mask a =? m_mask b) && list_eqb (m_pname a) (m_pname b) && (m_dscp a =? m_dscp b).

Fixpoint all2 {A} (f : A -> A -> bool) (a b : list A) : bool :=
  match a, b with
  | [], [] => true
  | x :: a', y :: b' => f x y && all2 f a' b'
  | _, _ => false
  end.

Definition domset_eqb (a b : N * (N * list string)) : bool :=
  (fst a =? fst b) && (fst (snd a) =? fst (snd b)) && all2 String.eqb (snd (snd a)) (snd (snd b)).

Definition route_in_of (o : obs_packet) : route_in :=
  let pk := op_pk o in
  {| ri_src := p_src pk; ri_dst_is4 := op_is4 o; ri_dst := p_dst pk; ri_sport := p_sport pk; ri_dport := p_dport pk;
     ri_l4 := a_l4 (args_of_packet pk); ri_domain := p_domain pk; ri_mac := p_mac pk; ri_pname := p_pname pk;
     ri_dscp := p_dscp pk |}.

(* error codes (second component):
     1 impl<>model decision   2 impl<>spec decision   3 model<>spec decision
     4 impl<>model lowering (match-set array / tries / domain sets)   5 impl<>model build outcome
     6 impl<>spec: well-formed program rejected *)
Definition check_packets (p : program) (wf : bool) (mt : matcher) (pks : list obs_packet) : list (N * N) :=
  List.concat (map (fun ip : N * obs_packet =>
    let '(i, o) := ip in
    let dm := fun _ : string => op_bm o in
    let mres := if op_route o then route_glue mt dm (route_in_of o) else match_sets mt dm (args_of_packet (op_pk o)) in
    let sres := Ok (decide p (op_pk o)) in
    (if res_eqb (op_impl o) mres then [] else [(i, 1)]) ++
    (if wf && wf_packet (op_pk o) then
       (if res_eqb (op_impl o) sres then [] else [(i, 2)]) ++ (if res_eqb mres sres then [] else [(i, 3)])
     else []))
    (combine (map N.of_nat (seq 0 (List.length pks))) pks)).

(* 6: a well-formed program is rejected by the implementation (impl<>spec: C01_lower_total) *)
Definition check_case (c : obs_case) : list (N * N) :=
  let p := oc_prog c in
  let wf := wf_program p in
  let rejected := if wf && negb (oc_build c =? 0) then [(0, 6)] else [] in
  match lower_program p with
  | Err e => (if oc_build c =? e then [] else [(0, 5)]) ++ (if wf then [(0, 3)] else []) ++ rejected
  | Ok b =>
    match build_userspace b with
    | Err e => (if oc_build c =? e then [] else [(0, 5)]) ++ (if wf then [(0, 3)] else []) ++ rejected
    | Ok mt =>
      if negb (oc_build c =? 0) then (0, 5) :: rejected else
      (if all2 mset_eqb (b_rules b) (oc_msets c) && all2 (all2 px_eqb) (b_tries b) (oc_tries c)
          && all2 domset_eqb (b_domsets b) (oc_domsets c) then [] else [(0, 4)]) ++
      check_packets p wf mt (oc_packets c)
    end
  end.

(* coverage signature: (#match-sets, #distinct deciding rules among the probes, #probes decided by the fallback,
   #probes whose decision carries must) *)
Fixpoint decider (rules : list rule) (pk : packet) (i : N) : N :=
  match rules with
  | [] => i
  | r :: rest => if rule_holds r pk && negb (is_must_rules (r_out r)) then i else decider rest pk (i + 1)
  end.

Fixpoint nodup_N (l : list N) : list N :=
  match l with
  | [] => []
  | x :: r => if existsb (N.eqb x) r then nodup_N r else x :: nodup_N r
  end.

Definition case_signature (c : obs_case) : N * N * N * N :=
  let p := oc_prog c in
  let n := match lower_program p with Ok b => N.of_nat (List.length (b_rules b)) | Err _ => 0 end in
  let ds := map (fun o => decider (pr_rules p) (op_pk o) 0) (oc_packets c) in
  let nr := N.of_nat (List.length (pr_rules p)) in
  (n, N.of_nat (List.length (nodup_N ds)),
   N.of_nat (List.length (filter (N.eqb nr) ds)),
   N.of_nat (List.length (filter (fun o => let '(_, _, mu) := decide p (op_pk o) in mu) (oc_packets c)))).
