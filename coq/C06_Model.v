(* C06 — code-shaped executable model of component/sniffing (tls.go, http.go, quic.go, sniffer.go,
   conn_sniffer.go, internal/quicutils/relocation.go, binary.go).  No proofs here.
   Go `int` values are N (every subtraction in the code is between values whose order the code has
   just established); bytes are N < 256.  Slices are modelled WITH their capacity: an access past
   the slice length but inside the capacity silently yields the foreign bytes (as in Go), an access
   past the capacity (or an index >= len) is the distinguished outcome Oob (Go panics).  The strict
   instance (capacity = length) therefore reports EVERY out-of-bounds access as Oob. *)
From Coq Require Import List NArith Bool Arith.
From Dae Require Import C06_Spec.
From Dae.gen Require Import C06_Extracted.
Import ListNotations.
Open Scope N_scope.

Inductive rr (A : Type) := Ok (a : A) | Err (r : outcome).
Arguments Ok {A} a.
Arguments Err {A} r.

Notation "'dor' ' p <- e ; k" := (match e with Ok p => k | Err r => r end)
  (at level 200, p pattern, e at level 100, k at level 200, only parsing).
Notation "'dom' ' p <- e ; k" := (match e with Ok p => k | Err r => Err r end)
  (at level 200, p pattern, e at level 100, k at level 200, only parsing).

Definition nthb (i : nat) (b : bytes) : N := nth i b 0.
Definition u16 (b : bytes) : N := nthb 0 b * 256 + nthb 1 b.

(* ------------------------------------------------------------------ quicutils.Locator *)
Record loc_ops (L : Type) := {
  op_len : L -> N;
  op_range : L -> N -> N -> rr (bytes * L);
  op_at : L -> N -> rr (N * L);
  op_slice : L -> N -> N -> rr L;
  op_fuel : L -> nat }.   (* bound on loop iterations: one more than the bytes that can be read *)
Arguments op_len {L}. Arguments op_range {L}. Arguments op_at {L}. Arguments op_slice {L}.
Arguments op_fuel {L}.

(* BuiltinBytesLocator: a Go slice = (bytes up to capacity, length) *)
Record bloc := { b_data : bytes; b_len : N }.
Definition b_range (l : bloc) (i j : N) : rr (bytes * bloc) :=
  if (i <=? j) && (j <=? blen (b_data l)) then Ok (sub (b_data l) i j, l) else Err Oob.
Definition b_at (l : bloc) (i : N) : rr (N * bloc) :=
  if i <? b_len l then Ok (nth (N.to_nat i) (b_data l) 0, l) else Err Oob.
Definition b_slice (l : bloc) (i j : N) : rr bloc :=
  if (i <=? j) && (j <=? blen (b_data l))
  then Ok {| b_data := skipn (N.to_nat i) (b_data l); b_len := j - i |} else Err Oob.
Definition bytes_ops : loc_ops bloc :=
  {| op_len := b_len; op_range := b_range; op_at := b_at; op_slice := b_slice;
     op_fuel := fun l => S (length (b_data l)) |}.
(* slice `data` whose backing array continues with `slack` *)
Definition bloc_of (data slack : bytes) : bloc := {| b_data := data ++ slack; b_len := blen data |}.

(* LinearLocator over []*CryptoFrameOffset *)
Definition frag := (N * bytes)%type.     (* UpperAppOffset, Data *)
Definition f_end (f : frag) : N := fst f + blen (snd f).
Record lloc := {
  l_left : N; l_length : N; l_iouter : nat;
  l_bend : N; l_bstart : N; l_bdata : bytes; l_o : list frag }.

Definition new_linear (o : list frag) : lloc :=
  match o with
  | [] => {| l_left := 0; l_length := 0; l_iouter := 0; l_bend := 0; l_bstart := 0; l_bdata := []; l_o := [] |}
  | f0 :: _ => let fl := last o f0 in
      {| l_left := 0; l_length := f_end fl; l_iouter := 0;
         l_bend := f_end f0; l_bstart := fst f0; l_bdata := snd f0; l_o := o |}
  end.

Definition set_block (l : lloc) (k : nat) : lloc :=
  let f := nth k (l_o l) (0, []) in
  {| l_left := l_left l; l_length := l_length l; l_iouter := k;
     l_bend := f_end f; l_bstart := fst f; l_bdata := snd f; l_o := l_o l |}.

(* relocate: forward only *)
Fixpoint relocate_loop (fuel : nat) (l : lloc) (i : N) : rr lloc :=
  match fuel with
  | O => Err OutOfFuel
  | S f =>
      if l_bend l <=? i then
        if (length (l_o l) <=? l_iouter l + 1)%nat then Err MissingCrypto
        else relocate_loop f (set_block l (l_iouter l + 1)) i
      else Ok l
  end.
Definition relocate (l : lloc) (i : N) : rr lloc :=
  dom ' l1 <- relocate_loop (S (length (l_o l))) l i ;
  if i <? l_bstart l1 then Err MissingCrypto else Ok l1.

(* checked Go slice expression data[lo:hi] (capacity = length for the fragment data) *)
Definition chk_slice (data : bytes) (lo hi : N) : rr bytes :=
  if (lo <=? hi) && (hi <=? blen data) then Ok (sub data lo hi) else Err Oob.
(* checked i - base (a negative Go index panics) *)
Definition chk_sub (i base : N) : rr N := if base <=? i then Ok (i - base) else Err Oob.

(* the copy loop of Range: acc = b[:k] *)
Fixpoint range_copy (fuel : nat) (l : lloc) (i j size : N) (acc : bytes) : rr (bytes * lloc) :=
  match fuel with
  | O => Err OutOfFuel
  | S f =>
      if l_bend l <=? j then
        dom ' lo <- chk_sub i (l_bstart l) ;
        dom ' piece <- chk_slice (l_bdata l) lo (blen (l_bdata l)) ;
        let room := N.to_nat (size - blen acc) in
        let n := firstn room piece in
        let acc' := acc ++ n in
        let i' := i + blen n in
        if (length (l_o l) <=? l_iouter l + 1)%nat
           || negb (f_end (nth (l_iouter l) (l_o l) (0, [])) =? fst (nth (l_iouter l + 1) (l_o l) (0, [])))
        then Err MissingCrypto
        else range_copy f (set_block l (l_iouter l + 1)) i' j size acc'
      else
        dom ' lo <- chk_sub i (l_bstart l) ;
        dom ' hi <- chk_sub (j + 1) (l_bstart l) ;
        dom ' piece <- chk_slice (l_bdata l) lo hi ;
        let room := N.to_nat (size - blen acc) in
        Ok (acc ++ firstn room piece, l)
  end.

Definition l_range (l : lloc) (i j : N) : rr (bytes * lloc) :=
  if i =? j then Ok ([], l) else
  if (length (l_o l) =? 0)%nat then Err MissingCrypto else
  if j <? i then Err Oob else        (* make([]byte, negative) panics; never reached by the extractor *)
  let size := j - i in
  let i := i + l_left l in
  let j := j + l_left l - 1 in
  dom ' l1 <- relocate l i ;
  if j <? l_bend l1 then
    dom ' lo <- chk_sub i (l_bstart l1) ;
    dom ' hi <- chk_sub (j + 1) (l_bstart l1) ;
    dom ' piece <- chk_slice (l_bdata l1) lo hi ;
    Ok (piece, l1)
  else range_copy (S (length (l_o l1))) l1 i j size [].

Definition l_at (l : lloc) (i : N) : rr (N * lloc) :=
  if (length (l_o l) =? 0)%nat then Err MissingCrypto else
  let i := i + l_left l in
  dom ' l1 <- relocate l i ;
  dom ' k <- chk_sub i (l_bstart l1) ;
  if k <? blen (l_bdata l1) then Ok (nth (N.to_nat k) (l_bdata l1) 0, l1) else Err Oob.

(* Slice: "we do not care about right"; note the j-i+1 length *)
Definition l_slice (l : lloc) (i j : N) : rr lloc :=
  Ok {| l_left := l_left l + i; l_length := j - i + 1; l_iouter := l_iouter l;
        l_bend := l_bend l; l_bstart := l_bstart l; l_bdata := l_bdata l; l_o := l_o l |}.

Definition linear_ops : loc_ops lloc :=
  {| op_len := l_length; op_range := l_range; op_at := l_at; op_slice := l_slice;
     op_fuel := fun l => S (length (concat (map snd (l_o l)))) |}.

(* ------------------------------------------------------------------ tls.go *)
Section Extract.
  Context {L : Type} (ops : loc_ops L).

  (* strings.TrimSuffix(string(b), ".") *)
  Definition trim_dot := strip_dot.

  (* the host_name loop: for j, indicatorLen := i+6, 0; j+3 <= iNextField; j += 3 + indicatorLen.
     Err r = the function returned r; Ok l = the loop ran out without returning *)
  Fixpoint host_loop (fuel : nat) (l : L) (j inext : N) : rr L :=
    match fuel with
    | O => Err OutOfFuel
    | S f =>
        if j + 3 <=? inext then
          dom ' (b, l1) <- op_range ops l j (j + 3) ;
          let ilen := nthb 1 b * 256 + nthb 2 b in
          if negb (nthb 0 b =? tls_name_type_host) then host_loop f l1 (j + 3 + ilen) inext
          else if inext <? j + 3 + ilen then Err NotApplicable
          else dom ' (nm, l2) <- op_range ops l1 (j + 3) (j + 3 + ilen) ;
               Err (Found (trim_dot nm))
        else Ok l
    end.

  (* findSniExtension *)
  Fixpoint find_loop (fuel0 fuel : nat) (l : L) (i : N) : outcome :=
    match fuel with
    | O => OutOfFuel
    | S f =>
        if op_len ops l <=? i + 4 then NotFound else
        dor ' (b, l1) <- op_range ops l i (i + 4) ;
        let typ := u16 b in
        let elen := nthb 2 b * 256 + nthb 3 b in
        let inext := i + 4 + elen in
        if op_len ops l1 <? inext then NotApplicable else
        if typ =? tls_ext_server_name then
          if elen <? 2 then NotApplicable else      (* too short to hold the list length (fix 86bfe56) *)
          dor ' (b2, l2) <- op_range ops l1 (i + 4) (i + 6) ;
          let snilen := u16 b2 in
          if elen <? snilen + 2 then NotApplicable else
          dor ' l3 <- host_loop fuel0 l2 (i + 6) inext ;
          find_loop fuel0 f l3 inext
        else find_loop fuel0 f l1 inext
    end.
  Definition find_sni_extension (l : L) : outcome :=
    find_loop (op_fuel ops l) (op_fuel ops l) l 0.

  (* extractSniFromTls *)
  Definition extract_sni (l : L) : outcome :=
    if op_len ops l <? 39 then NotApplicable else
    dor ' (b, l) <- op_range ops l 0 6 ;
    if negb (nthb 0 b =? tls_hs_client_hello) then NotApplicable else
    if negb (nthb 4 b =? 3) || (nthb 5 b <? 1) || (3 <? nthb 5 b) then NotApplicable else
    dor ' (sid, l) <- op_at ops l 38 ;
    let bd := 39 + sid + 2 in
    if op_len ops l <? bd then NotApplicable else
    dor ' (b, l) <- op_range ops l (bd - 2) bd ;
    let bd := bd + u16 b + 1 in
    if op_len ops l <? bd then NotApplicable else
    dor ' (cm, l) <- op_at ops l (bd - 1) ;
    let bd := bd + cm + 2 in
    if op_len ops l <? bd then NotApplicable else
    dor ' (b, l) <- op_range ops l (bd - 2) bd ;
    let elen := u16 b in
    let bd := bd + elen in
    if op_len ops l <? bd then NotApplicable else
    dor ' l' <- op_slice ops l (bd - elen) bd ;
    find_sni_extension l'.
End Extract.

(* the two instances *)
Definition extract_sni_bytes (data slack : bytes) : outcome := extract_sni bytes_ops (bloc_of data slack).
Definition extract_sni_strict (data : bytes) : outcome := extract_sni_bytes data [].
Definition extract_sni_linear (o : list frag) : outcome := extract_sni linear_ops (new_linear o).

(* SniffTls on buffer contents `buf` whose backing array continues with `slack` *)
Definition sniff_tls (buf slack : bytes) : outcome :=
  if blen buf <? 5 then NotApplicable else
  if negb (nthb 0 buf =? tls_content_handshake) || negb (nthb 1 buf =? 3) then NotApplicable else
  let length := nthb 3 buf * 256 + nthb 4 buf in
  let search := skipn 5 buf in
  if blen search <? length then NeedMore else
  extract_sni_bytes (firstn (N.to_nat length) search) (skipn (N.to_nat length) search ++ slack).

(* ------------------------------------------------------------------ sniffing.go: NormalizeDomain (ASCII) *)
Definition is_space (b : N) : bool := (b =? 32) || ((9 <=? b) && (b <=? 13)).
Fixpoint ltrim_sp (l : bytes) : bytes := match l with b :: r => if is_space b then ltrim_sp r else l | [] => [] end.
Definition trim_sp (l : bytes) : bytes := rev (ltrim_sp (rev (ltrim_sp l))).
Fixpoint index_byte (c : N) (l : bytes) : option nat :=
  match l with [] => None | b :: r => if b =? c then Some O else option_map S (index_byte c r) end.
Definition last_index_byte (c : N) (l : bytes) : option nat :=
  match index_byte c (rev l) with Some k => Some (length l - 1 - k)%nat | None => None end.
Definition has_byte (c : N) (l : bytes) : bool := match index_byte c l with Some _ => true | None => false end.
Fixpoint ltrim_set (set : bytes) (l : bytes) : bytes :=
  match l with b :: r => if existsb (N.eqb b) set then ltrim_set set r else l | [] => [] end.
Definition trim_set (set l : bytes) : bytes := rev (ltrim_set set (rev (ltrim_set set l))).

(* net.SplitHostPort: Some host on success *)
Definition split_host_port (hp : bytes) : option bytes :=
  match last_index_byte 58 hp with
  | None => None
  | Some i =>
      match hp with
      | 91 :: _ =>
          match index_byte 93 hp with
          | None => None
          | Some e =>
              if (e + 1 =? length hp)%nat then None
              else if (e + 1 =? i)%nat then
                let host := firstn (e - 1) (skipn 1 hp) in
                if has_byte 91 (skipn 1 hp) then None
                else if has_byte 93 (skipn (e + 1) hp) then None
                else Some host
              else None
          end
      | _ =>
          let host := firstn i hp in
          if has_byte 58 host then None
          else if has_byte 91 hp then None
          else if has_byte 93 hp then None
          else Some host
      end
  end.

Definition last_is (c : N) (l : bytes) : bool := match rev l with b :: _ => b =? c | [] => false end.

Definition normalize_domain (h0 : bytes) : bytes :=
  let h := map lower (trim_sp h0) in
  if last_is 93 h then trim_set [91; 93] h
  else match split_host_port h with
       | Some d => d
       | None => strip_dot h
       end.

Definition norm_outcome (r : outcome) : outcome :=
  match r with Found n => Found (normalize_domain n) | _ => r end.

(* ------------------------------------------------------------------ http.go *)
Fixpoint index_crlf (l : bytes) : option nat :=
  match l with
  | [] => None
  | b :: r => match b, r with
              | 13, 10 :: _ => Some O
              | _, _ => option_map S (index_crlf r)
              end
  end.

Definition host_key : bytes := [104; 111; 115; 116].

(* sniffHTTPHostHeader: rest = None when lineStart > len(data) *)
Fixpoint http_lines (fuel : nat) (rest : option bytes) : outcome :=
  match fuel with
  | O => OutOfFuel
  | S f =>
      match rest with
      | None => NotFound
      | Some d =>
          let '(line, rest') := match index_crlf d with
                                | Some k => (firstn k d, Some (skipn (k + 2) d))
                                | None => (d, None)
                                end in
          if (length line =? 0)%nat then NotFound else
          match index_byte 58 line with
          | None => http_lines f rest'
          | Some c =>
              let key := firstn c line in
              let value := skipn (c + 1) line in
              if bytes_eqb (map lower (trim_sp key)) host_key then
                let host := trim_sp value in
                if (length host =? 0)%nat then NotFound else Found host
              else http_lines f rest'
          end
      end
  end.

(* unicode.IsPrint(rune(b)) for a Latin-1 code point *)
Definition is_print (b : N) : bool :=
  ((32 <=? b) && (b <=? 126)) || ((161 <=? b) && (b <=? 255) && negb (b =? 173)).

Definition sniff_http (buf : bytes) : outcome :=
  match buf with
  | [] => NotApplicable
  | b0 :: _ =>
      if negb (is_print b0) then NotApplicable else
      let search := firstn 12 buf in
      match index_byte 32 search with
      | None => NotApplicable
      | Some k =>
          if existsb (bytes_eqb (firstn k search)) http_methods
          then http_lines (S (length buf)) (Some buf)
          else NotApplicable
      end
  end.

(* sniffGroup(SniffTls, SniffHttp) *)
Definition sniff_group_tcp (buf slack : bytes) : outcome :=
  match sniff_tls buf slack with
  | NotApplicable => norm_outcome (sniff_http buf)
  | r => norm_outcome r
  end.

(* ------------------------------------------------------------------ sniffer.go: stream side *)
Inductive rstatus := RsOk | RsEof | RsTimeout | RsErr.
(* one Read on the client connection as the sniffer saw it: the window it offered (cap - len after
   Buffer.grow, an observation: the buffer library is not modelled), the bytes delivered, the status *)
Record rd := { rd_window : N; rd_data : bytes; rd_status : rstatus }.
Record sstate := { s_buf : bytes; s_cap : N; s_dataerr : option rstatus }.

Definition zeros (n : N) : bytes := repeat 0 (N.to_nat n).

Fixpoint sniff_tcp_loop (script : list rd) (st : sstate) : outcome * sstate * list rd :=
  match script with
  | [] => (TimedOut, {| s_buf := s_buf st; s_cap := s_cap st; s_dataerr := None |}, [])
  | e :: rest =>
      let buf := s_buf st ++ rd_data e in
      let cap := blen (s_buf st) + rd_window e in
      match rd_status e with
      (* an expired sniff deadline is not recorded in dataError (fix 9ef4b71); other read errors are *)
      | RsTimeout => (TimedOut, {| s_buf := buf; s_cap := cap; s_dataerr := None |}, rest)
      | RsErr => (IoError, {| s_buf := buf; s_cap := cap; s_dataerr := Some RsErr |}, rest)
      | _ =>
          let st' := {| s_buf := buf; s_cap := cap; s_dataerr := None |} in
          if (length buf =? 0)%nat then (NotApplicable, st', rest) else
          match sniff_group_tcp buf (zeros (cap - blen buf)) with
          | NeedMore => sniff_tcp_loop rest st'
          | r => (r, st', rest)
          end
      end
  end.

Definition new_stream : sstate := {| s_buf := []; s_cap := 0; s_dataerr := None |}.
Definition sniff_tcp (script : list rd) := sniff_tcp_loop script new_stream.
(* the whole stream in one read, ample capacity *)
Definition sniff_whole (stream : bytes) : outcome := sniff_group_tcp stream [0].

(* relay phase.  Sniffer.Read called with a p-byte buffer until it reports an error or EOF. *)
Fixpoint relay_conn (script : list rd) : bytes * rstatus :=
  match script with
  | [] => ([], RsEof)
  | e :: rest =>
      match rd_status e with
      | RsOk | RsTimeout => let '(b, s) := relay_conn rest in (rd_data e ++ b, s)   (* no deadline armed: a pause *)
      | s => (rd_data e, s)
      end
  end.
Fixpoint chunks_of (fuel : nat) (p : N) (l : bytes) : bytes :=
  match fuel with O => l | S f => match l with [] => [] | _ => firstn (N.to_nat p) l ++ chunks_of f p (skipn (N.to_nat p) l) end end.
Definition relay_read_all (p : N) (st : sstate) (script : list rd) : bytes * rstatus :=
  match s_dataerr st with
  | Some e => (firstn (N.to_nat p) (s_buf st), e)          (* n, _ = buf.Read(p); return n, dataError *)
  | None => let '(b, s) := relay_conn script in (s_buf st ++ b, s)
  end.
(* TakeRelayPrefix + CopyRelayRemainder, and WriteTo: buffered bytes, then the connection itself *)
Definition relay_prefix_copy (st : sstate) (script : list rd) : bytes * rstatus :=
  let '(b, s) := relay_conn script in (s_buf st ++ b, s).
Definition relay_write_to := relay_prefix_copy.

(* ------------------------------------------------------------------ quicutils: varint, frames, reassembly *)
Definition uvarint (b : bytes) : option (N * N) :=
  match b with
  | [] => None
  | b0 :: r =>
      let len := N.shiftl 1 (b0 / 64) in
      if blen b <? len then None
      else Some (fold_left (fun x y => x * 256 + y) (firstn (N.to_nat len - 1) r) (b0 mod 64), len)
  end.

Inductive fres := FOk (o : option frag) (size : N) | FClosed | FBad.

Fixpoint count_zeros (l : bytes) : N := match l with 0 :: r => 1 + count_zeros r | _ => 0 end.

Definition extract_frame (rem : bytes) : fres :=
  match uvarint rem with
  | None => FBad
  | Some (ft, nf) =>
      if ft =? frame_ping then FOk None nf
      else if ft =? frame_padding then FOk None (nf + count_zeros (skipn (N.to_nat nf) rem))
      else if ft =? frame_crypto then
        match uvarint (skipn (N.to_nat nf) rem) with
        | None => FBad
        | Some (off, n) =>
            let nf := nf + n in
            match uvarint (skipn (N.to_nat nf) rem) with
            | None => FBad
            | Some (len, n2) =>
                let nf := nf + n2 in
                if blen rem <? nf + len then FBad
                else FOk (Some (off, sub rem nf (nf + len))) (nf + len)
            end
        end
      else if (ft =? frame_close) || (ft =? frame_close2) then FClosed
      else FBad
  end.

Inductive rres := ROk (o : list frag) | RClosed | RBad.

Fixpoint frames_loop (fuel : nat) (payload : bytes) (pos : N) (acc : list frag) : rres :=
  match fuel with
  | O => RBad
  | S f =>
      if pos <? blen payload then
        match extract_frame (skipn (N.to_nat pos) payload) with
        | FOk o sz => frames_loop f payload (pos + sz) (match o with Some x => acc ++ [x] | None => acc end)
        | FClosed => RClosed
        | FBad => RBad
        end
      else ROk acc
  end.

(* sort.Slice by UpperAppOffset (insertion sort for <= 12 elements: stable) *)
Fixpoint insert_frag (f : frag) (l : list frag) : list frag :=
  match l with
  | [] => [f]
  | g :: r => if fst f <? fst g then f :: l else g :: insert_frag f r
  end.
Definition sort_frags (l : list frag) : list frag := fold_left (fun acc f => insert_frag f acc) l [].

Fixpoint merge_loop (cur : frag) (rest : list frag) (merged : list frag) : list frag :=
  match rest with
  | [] => merged ++ [cur]
  | nx :: r =>
      let cend := f_end cur in
      if fst nx <=? cend then
        if cend <? f_end nx
        then merge_loop (fst cur, snd cur ++ skipn (N.to_nat (cend - fst nx)) (snd nx)) r merged
        else merge_loop cur r merged
      else merge_loop nx r (merged ++ [cur])
  end.
Definition merge_frags (l : list frag) : list frag :=
  match l with [] => [] | c :: r => merge_loop c r [] end.

Definition reassemble (offsets : list frag) (payload : bytes) : rres :=
  match frames_loop (S (length payload)) payload 0 offsets with
  | ROk offs => ROk (merge_frags (sort_frags offs))
  | e => e
  end.

(* ------------------------------------------------------------------ quic.go *)
Definition is_likely_quic_initial (buf : bytes) : bool :=
  if blen buf <? 7 then false else
  let flag := nthb 0 buf in
  ((flag / 128) mod 2 =? 1) && ((flag / 16) mod 4 =? 0).

Inductive bstatus := BOk | BNotApp | BClosed.
(* result of sniffQuicBlock: cryptos, next (None = nil), status, oracle answers left *)
Definition bresult := (list frag * option bytes * bstatus * list bytes)%type.

(* DecryptQuic_ is an oracle: `oracle` lists the plaintexts of the successful decryptions of this
   SniffUdp call in call order; an exhausted list answers "decryption failed". *)
Definition sniff_quic_block (cryptos : list frag) (buf : bytes) (oracle : list bytes) : bresult :=
  let na := (cryptos, None, BNotApp, oracle) in
  let len := blen buf in
  if len <? 6 then na else
  let flag := nthb 0 buf in
  if negb ((flag / 128) mod 4 =? 1) then na else
  if negb ((flag / 16) mod 4 =? 0) then na else
  let dlen := nthb 5 buf in
  let bd := 6 + dlen + 1 in
  if len <? bd then na else
  let slen := nth (N.to_nat (bd - 1)) buf 0 in
  let bd := bd + slen + max_varint_len in
  if len <? bd then na else
  match uvarint (skipn (N.to_nat (bd - max_varint_len)) buf) with
  | None => na
  | Some (toklen, n) =>
      let bd := bd - max_varint_len + n in
      let bd := bd + toklen + max_varint_len in
      if len <? bd then na else
      match uvarint (skipn (N.to_nat (bd - max_varint_len)) buf) with
      | None => na
      | Some (plen, n) =>
          let bd := bd - max_varint_len + n in
          let block_end := bd + plen in
          if len <? block_end then na else
          let bd := bd + max_pn_len in
          if len <? bd then na else
          match oracle with
          | [] => na
          | pt :: oracle' =>
              match reassemble cryptos pt with
              | RClosed => (cryptos, None, BClosed, oracle')
              | RBad => (cryptos, Some (skipn (N.to_nat block_end) buf), BNotApp, oracle')
              | ROk new => (new, Some (skipn (N.to_nat block_end) buf), BOk, oracle')
              end
          end
      end
  end.

Record ustate := {
  u_buf : bytes; u_data : list bytes; u_next : N; u_cryptos : list frag;
  u_needmore : bool; u_sniffed : bytes }.

Definition new_packet (data : bytes) : ustate :=
  {| u_buf := data; u_data := [data]; u_next := 0; u_cryptos := []; u_needmore := false; u_sniffed := [] |}.
Definition append_data (st : ustate) (d : bytes) : ustate :=
  {| u_buf := u_buf st ++ d; u_data := u_data st ++ [d]; u_next := u_next st; u_cryptos := u_cryptos st;
     u_needmore := false; u_sniffed := u_sniffed st |}.

(* the block loop of SniffQuic: returns (early result or None, cryptos, oracle left) *)
Fixpoint quic_blocks (fuel : nat) (cryptos : list frag) (next : bytes) (isquic : bool) (oracle : list bytes)
  : option outcome * list frag * list bytes :=
  match fuel with
  | O => (Some OutOfFuel, cryptos, oracle)
  | S f =>
      let '(cr, nx, stt, orc) := sniff_quic_block cryptos next oracle in
      match stt with
      | BNotApp => if isquic then (None, cr, orc) else (Some NotApplicable, cr, orc)
      | BClosed => (Some NotFound, cr, orc)
      | BOk => match nx with
               | None => (None, cr, orc)
               | Some n => if (length n =? 0)%nat then (None, cr, orc) else quic_blocks f cr n true orc
               end
      end
  end.

(* SniffQuic; second component: oracle answers left unused (must be none) *)
Definition sniff_quic (st : ustate) (oracle : list bytes) : outcome * ustate * list bytes :=
  let next := skipn (N.to_nat (u_next st)) (u_buf st) in
  let '(early, cr, orc) := quic_blocks (S (length next)) (u_cryptos st) next false oracle in
  match early with
  | Some r => (r, {| u_buf := u_buf st; u_data := u_data st; u_next := u_next st; u_cryptos := cr;
                     u_needmore := u_needmore st; u_sniffed := u_sniffed st |}, orc)
  | None =>
      let st1 nm := {| u_buf := u_buf st; u_data := u_data st; u_next := blen (u_buf st); u_cryptos := cr;
                       u_needmore := nm; u_sniffed := u_sniffed st |} in
      match extract_sni_linear cr with
      | Found n => (Found n, st1 (u_needmore st), orc)
      | _ => (NotFound, st1 true, orc)
      end
  end.

Definition sniff_udp (st : ustate) (oracle : list bytes) : outcome * ustate * list bytes :=
  if negb (length (u_sniffed st) =? 0)%nat then (Found (u_sniffed st), st, oracle) else
  if (length (u_buf st) =? 0)%nat then (NotApplicable, st, oracle) else
  if (length (u_cryptos st) =? 0)%nat
     && negb (is_likely_quic_initial (skipn (N.to_nat (u_next st)) (u_buf st)))
  then (NotApplicable, st, oracle) else
  let '(r, st', orc) := sniff_quic st oracle in
  match norm_outcome r with
  | Found n => (Found n, {| u_buf := u_buf st'; u_data := u_data st'; u_next := u_next st'; u_cryptos := u_cryptos st';
                            u_needmore := u_needmore st'; u_sniffed := n |}, orc)
  | r' => (r', st', orc)
  end.
