(* C02 — lemmas, part C: the kernel state installed from a KernspaceSnapshot does not depend on when BuildUserspace runs. *)
From Coq Require Import List NArith Bool String Lia.
From Dae Require Import C01_Spec C01_Model C02_Spec C02_Model C02_Proofs C02_ProofsScan.
Import ListNotations.
Open Scope N_scope.

Definition bstep_eq_dec : forall a b : bstep, {a = b} + {a <> b}.
Proof. decide equality. Defined.

Definition from_snapshot (s : list mset * list (list prefix128)) (e : ilog) : Prop :=
  il_rules e = fst s /\ il_tries e = snd s.

Lemma bstep_keeps_snapshot w st s :
  st <> BSnapshot -> bw_snap w = Some s ->
  bw_snap (bstep_run false w st) = Some s /\
  (forall e, In e (bw_log (bstep_run false w st)) -> In e (bw_log w) \/ from_snapshot s e) /\
  List.length (bw_log (bstep_run false w st)) = (List.length (bw_log w) + match st with BInstall => 1 | _ => 0 end)%nat.
Proof.
  intros Hst Hs. destruct st; [congruence| |].
  - cbn [bstep_run]. destruct (build_userspace _); cbn [bw_snap bw_log]; repeat split; auto; lia.
  - cbn [bstep_run]. rewrite Hs. destruct s as [r t]. cbn [bw_snap bw_log]. repeat split; auto.
    + intros e He. apply in_app_or in He as [He|[<-|[]]]; [now left|right]. split; reflexivity.
    + rewrite app_length. reflexivity.
Qed.

Lemma brun_keeps_snapshot : forall steps w s,
  ~ In BSnapshot steps -> bw_snap w = Some s ->
  (forall e, In e (bw_log w) -> from_snapshot s e) ->
  (forall e, In e (bw_log (brun false steps w)) -> from_snapshot s e) /\
  List.length (bw_log (brun false steps w)) = (List.length (bw_log w) + count_occ bstep_eq_dec steps BInstall)%nat.
Proof.
  induction steps as [|st steps IH]; intros w s Hn Hs Hlog.
  - cbn. split; [exact Hlog | lia].
  - cbn [brun fold_left]. fold (brun false steps (bstep_run false w st)).
    assert (Hst : st <> BSnapshot) by (intros ->; apply Hn; now left).
    destruct (bstep_keeps_snapshot w st s Hst Hs) as (H1 & H2 & H3).
    destruct (IH (bstep_run false w st) s) as [I1 I2]; auto.
    + intros Hin. apply Hn. now right.
    + intros e He. destruct (H2 e He); auto.
    + split; [exact I1|]. rewrite I2, H3. cbn [count_occ]. destruct st; try congruence;
        match goal with |- context [if ?d then _ else _] => destruct d end; try congruence; lia.
Qed.

Theorem install_order_independent_proof :
  forall (ms : list mset) (tries : list (list prefix128)) (ring : N) (km : kmaps) (steps : list bstep),
    ~ In BSnapshot steps ->
    let w := brun false (BSnapshot :: steps) (bworld0 ms tries ring km) in
    (forall e, In e (bw_log w) -> il_rules e = ms /\ il_tries e = tries) /\
    List.length (bw_log w) = count_occ bstep_eq_dec steps BInstall.
Proof.
  intros ms tries ring km steps Hn w. subst w. cbn [brun fold_left]. fold (brun false steps (bstep_run false (bworld0 ms tries ring km) BSnapshot)).
  destruct (brun_keeps_snapshot steps (bstep_run false (bworld0 ms tries ring km) BSnapshot) (ms, tries) Hn eq_refl) as [H1 H2].
  - intros e [].
  - split; [exact H1|]. rewrite H2. reflexivity.
Qed.

(* every logged call changes the maps exactly as buildRoutingKernspace does from its own inputs *)
Lemma install_effect w :
  match bw_snap w with
  | Some (r, t) =>
    bw_km (bstep_run false w BInstall) =
    match do_install (bw_ring w) (bw_km w) r t with Ok (_, _, km') => km' | Err _ => bw_km w end
  | None => bw_km (bstep_run false w BInstall) = bw_km w
  end.
Proof. cbn [bstep_run]. destruct (bw_snap w) as [[r t]|]; reflexivity. Qed.

(* a snapshot that shares the builder's prefix lists, with a BuildUserspace that releases them: staged reload order *)
Lemma install_order_aliasing_refuted_proof :
  exists (ms : list mset) (tries : list (list prefix128)) (steps : list bstep) (e : ilog),
    ~ In BSnapshot steps /\
    In e (bw_log (brun true (BSnapshot :: steps) (bworld0 ms tries 0 empty_kmaps))) /\ il_tries e <> tries.
Proof.
  exists ex_msets, ex_tries, [BUserspace; BInstall].
  eexists. split; [|split].
  - intros [H|[H|[]]]; discriminate.
  - vm_compute. left. reflexivity.
  - vm_compute. discriminate.
Qed.
