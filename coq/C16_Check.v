(* C16 — executable comparison functions used by the generated cases file (no proofs). *)
From Coq Require Import List NArith ZArith Bool.
From Dae Require Import C16_Spec C16_Model.
From Dae.gen Require Import C16_Consts.
Import ListNotations.
Open Scope N_scope.

Definition HMASK : N := 0x3fffffffffffffff.   (* 2^62 - 1 *)
Definition hmix (h x : N) : N := N.land (131 * h + x + 1) HMASK.
Definition hash_list (l : list N) : N := fold_left hmix l 7.

Definition b2n (b : bool) : N := if b then 1 else 0.
Definition nseq (k : nat) : list N := map N.of_nat (seq 0 k).
Definition flat_tlog (l : list (N * dom * bool)) : list N :=
  N.of_nat (length l) :: flat_map (fun e => match e with (n, d, b) => [n; dom_code d; b2n b] end) l.
Fixpoint with_index {A} (i : N) (l : list A) : list (N * A) :=
  match l with [] => [] | x :: r => (i, x) :: with_index (i + 1) r end.

(* everything the harness reads out of the implementation after a step *)
Definition obs_full (cfg : config) (nd na : nat) (m : mstate) : list N :=
  flat_map (fun n => flat_map (fun i => [b2n (md_alive (m_d m n) (canon i)); md_fail (m_d m n) i; md_traffic (m_d m n) i]) all_idx) (nseq nd)
  ++ flat_tlog (m_tlog m)
  (* connectivity writes of the step: per (group, type) the sequence of values (the order across groups is
     the iteration order of a Go map) *)
  ++ flat_map (fun ge => flat_map (fun d =>
        let vs := map (fun e => b2n (snd e)) (filter (fun e => (fst (fst e) =? fst ge) && dom_eqb (snd (fst e)) d) (m_blog m)) in
        N.of_nat (length vs) :: vs) all_doms) (with_index 0 (c_groups cfg))
  ++ flat_map (fun ge => match ge with (gi, g) =>
       if keeps_sets g then
         flat_map (fun d => let a := m_sets m gi d in
                            N.of_nat (length (as_entries a))
                            :: flat_map (fun e => [fst e; Z.to_N (snd e)]) (as_entries a)
                            ++ [match as_best a with Some b => b + 1 | None => 0 end; Z.to_N (as_best_lat a)]) all_doms
       else [] end) (with_index 0 (c_groups cfg))
  ++ flat_map (fun ge => map (fun d => b2n (m_bits m (fst ge) d)) all_doms) (with_index 0 (c_groups cfg))
  ++ map (fun a => m_tracker m (a + 1)) (nseq na)
  ++ [m_supp m; b2n (m_window m)].

(* what the property talks about, read from the model ... *)
Definition proj_groups (cfg : config) (members : N -> group -> dom -> list N) (bit : N -> group -> dom -> bool) : list N :=
  flat_map (fun ge => match ge with (gi, g) =>
       if keeps_sets g then
         flat_map (fun d => let ms := members gi g d in N.of_nat (length ms) :: ms) all_doms
         ++ (if is_min g then map (fun d => b2n (bit gi g d)) all_doms else [])
       else [] end) (with_index 0 (c_groups cfg)).

Definition obs_proj_model (cfg : config) (nd : nat) (with_log : bool) (m : mstate) : list N :=
  flat_map (fun n => map (fun d => b2n (d_alive (m_d m n) d)) all_doms) (nseq nd)
  ++ (if with_log then flat_tlog (m_tlog m) else [])
  ++ proj_groups cfg (fun gi g d => filter (fun x => is_member x (as_entries (m_sets m gi d))) (map fst (g_members g)))
                     (fun gi g d => m_bits m gi d).

(* ... and from the spec *)
Definition obs_proj_spec (cfg : config) (nd : nat) (with_log : bool) (s : sstate) (l : tlog) : list N :=
  flat_map (fun n => map (fun d => b2n (sa (s_dom s n d))) all_doms) (nseq nd)
  ++ (if with_log then flat_tlog l else [])
  ++ proj_groups cfg (fun gi g d => members_alive s g d)
                     (fun gi g d => bit_of s g d).

(* Evaluation aid: after every step the function-valued state components are re-tabulated over the finite
   ranges a case uses (nodes < nd, groups < ng, addresses <= na, 8 slots), so that look-ups do not walk a
   chain of updates as long as the history.  Points outside these ranges are never named by a case. *)
Definition tabulate {A} (k : nat) (f : N -> A) (dflt : A) : N -> A :=
  let l := map f (nseq k) in fun n => nth (N.to_nat n) l dflt.
Definition tab_dom {A} (f : dom -> A) : dom -> A :=
  let a0 := f Tcp4 in let a1 := f Tcp6 in let a2 := f DnsUdp4 in let a3 := f DnsUdp6 in let a4 := f DataUdp4 in let a5 := f DataUdp6 in
  fun d => match d with Tcp4 => a0 | Tcp6 => a1 | DnsUdp4 => a2 | DnsUdp6 => a3 | DataUdp4 => a4 | DataUdp6 => a5 end.
Definition compact_dialer (x : mdialer) : mdialer :=
  {| md_alive := tabulate 8 (md_alive x) true; md_fail := tabulate 8 (md_fail x) 0; md_traffic := tabulate 8 (md_traffic x) 0 |}.
Definition compact_m (nd ng na : nat) (m : mstate) : mstate :=
  {| m_d := tabulate nd (fun n => compact_dialer (m_d m n)) fresh_dialer;
     m_tracker := tabulate (S na) (m_tracker m) 0; m_supp := m_supp m; m_window := m_window m;
     m_sets := tabulate ng (fun g => tab_dom (m_sets m g)) (fun _ => empty_set);
     m_bits := tabulate ng (fun g => tab_dom (m_bits m g)) (fun _ => true);
     m_tlog := m_tlog m; m_blog := m_blog m |}.
Definition compact_s (nd na : nat) (s : sstate) : sstate :=
  {| s_dom := tabulate nd (fun n => tab_dom (s_dom s n)) (fun _ => sfresh);
     s_deaths := tabulate (S na) (s_deaths s) 0; s_supp := s_supp s; s_window := s_window s |}.

Definition L (n g : N) (d : dom) (z : Z) : N * N * dom * option Z := (n, g, d, Some z).

Record obs_step := { os_ev : ev;            (* the event, error class as the implementation judged it *)
                     os_ign_spec : bool;    (* error class by the property text (generator's label) *)
                     os_hfull : N;          (* hash of the implementation's full observation *)
                     os_hproj : N;          (* hash of the implementation's projected observation *)
                     os_hnorm : N;          (* same, a slot reading 0 while its set has a member reported as 1 *)
                     os_post : list bool }. (* reload steps: the implementation's alive flags afterwards, node-major x 6 types *)
Definition post_of (l : list bool) : N -> dom -> bool := fun n d => nth (N.to_nat (n * 6 + dom_code d)) l false.
Record obs_case := { oc_cfg : config; oc_nd : nat; oc_na : nat;
                     oc_init_hfull : N; oc_init_hproj : N;
                     oc_keys : list (N * dom * N);   (* outbound id, type, slot index the implementation writes *)
                     oc_steps : list obs_step }.

Definition spec_ev (s : obs_step) : ev :=
  match os_ev s with
  | EFail n d k _ l => EFail n d k (os_ign_spec s) l
  | e => e
  end.
Definition is_reload (e : ev) : bool := match e with EReload _ => true | _ => false end.

Fixpoint list_eqb (a b : list N) : bool :=
  match a, b with
  | [], [] => true
  | x :: a', y :: b' => (x =? y) && list_eqb a' b'
  | _, _ => false
  end.

(* error codes: 1 impl<>model   2 impl<>spec   3 model<>spec   4 key function
                6 impl<>spec even when stale-0 connectivity slots are disregarded *)
Fixpoint check_steps (cfg : config) (nd na : nat) (steps : list obs_step) (m : mstate) (s : sstate) (i : N) : list (N * N) :=
  match steps with
  | [] => []
  | st :: rest =>
      let m' := compact_m nd (length (c_groups cfg)) na (m_step cfg m (os_ev st)) in
      let rl := is_reload (os_ev st) in
      let post_i := post_of (os_post st) in
      let post_m := fun n d => d_alive (m_d m' n) d in
      (* a reload does not prescribe which node the floor revives: the spec adopts the observed flags and judges them *)
      let '(s0', l) := if rl then (s_adopt cfg s post_i, []) else s_step cfg s (spec_ev st) in
      let s' := compact_s nd na s0' in
      let s_m := if rl then compact_s nd na (s_adopt cfg s post_m) else s' in
      let wl := negb rl in
      let pm := obs_proj_model cfg nd wl m' in
      let ps := obs_proj_spec cfg nd wl s' l in
      (if hash_list (obs_full cfg nd na m') =? os_hfull st then [] else [(i, 1)])
      ++ (if (hash_list ps =? os_hproj st) && (negb rl || reload_ok cfg nd s post_i) then [] else [(i, 2)])
      ++ (if (hash_list ps =? os_hnorm st) && (negb rl || reload_ok cfg nd s post_i) then [] else [(i, 6)])
      ++ (if list_eqb pm (obs_proj_spec cfg nd wl s_m l) && (negb rl || reload_ok cfg nd s post_m) then [] else [(i, 3)])
      ++ check_steps cfg nd na rest m' s' (i + 1)
  end.

Definition check_case (c : obs_case) : list (N * N) :=
  let cfg := oc_cfg c in
  let m0 := m_init cfg in
  (if hash_list (obs_full cfg (oc_nd c) (oc_na c) m0) =? oc_init_hfull c then [] else [(0, 1)])
  ++ (if hash_list (obs_proj_spec cfg (oc_nd c) true s_init []) =? oc_init_hproj c then [] else [(0, 2)])
  ++ (if list_eqb (obs_proj_model cfg (oc_nd c) true m0) (obs_proj_spec cfg (oc_nd c) true s_init []) then [] else [(0, 3)])
  ++ (if forallb (fun k => match k with (o, d, v) => conn_key o d =? v end) (oc_keys c) then [] else [(0, 4)])
  ++ (if forallb (fun k => match k with (o, d, v) => spec_slot o d =? v end) (oc_keys c) then [] else [(0, 2); (0, 6)])
  ++ check_steps cfg (oc_nd c) (oc_na c) (oc_steps c) m0 s_init 1.

(* debugging aid: the model's and the spec's observations step by step *)
Fixpoint trace_steps (cfg : config) (nd na : nat) (steps : list obs_step) (m : mstate) (s : sstate) : list (list N * list N * list N) :=
  match steps with
  | [] => []
  | st :: rest =>
      let m' := compact_m nd (length (c_groups cfg)) na (m_step cfg m (os_ev st)) in
      let '(s0', l) := if is_reload (os_ev st) then (s_adopt cfg s (post_of (os_post st)), []) else s_step cfg s (spec_ev st) in
      let s' := compact_s nd na s0' in
      let wl := negb (is_reload (os_ev st)) in
      (obs_full cfg nd na m', obs_proj_model cfg nd wl m', obs_proj_spec cfg nd wl s' l) :: trace_steps cfg nd na rest m' s'
  end.
Definition trace_case (c : obs_case) :=
  (obs_full (oc_cfg c) (oc_nd c) (oc_na c) (m_init (oc_cfg c)))
  :: map (fun t => fst (fst t)) (trace_steps (oc_cfg c) (oc_nd c) (oc_na c) (oc_steps c) (m_init (oc_cfg c)) s_init).

(* coverage signature of a case, computed on the model: (threshold deaths, escalation steps, revivals,
   failures swallowed by suppression, connectivity slot cleared, reloads), counts saturated at 3 *)
Definition sat3 (n : nat) : N := N.of_nat (Nat.min n 3).
Fixpoint sig_steps (cfg : config) (nd na : nat) (steps : list obs_step) (m : mstate) (acc : nat * nat * nat * nat * nat * nat) :=
  match steps with
  | [] => acc
  | st :: rest =>
      let m' := compact_m nd (length (c_groups cfg)) na (m_step cfg m (os_ev st)) in
      let '(dth, esc, rev, sup, b0, rl) := acc in
      let e := os_ev st in
      let nonforced := match e with EFail _ _ KForced _ _ => false | EFail _ _ _ false _ => true | _ => false end in
      let deaths := length (filter (fun t => negb (snd t)) (m_tlog m')) in
      let acc' := ((if nonforced then dth + Nat.min deaths 1 else dth)%nat,
                   (if nonforced && Nat.ltb 1 deaths then S esc else esc),
                   (rev + length (filter (fun t => snd t) (m_tlog m')))%nat,
                   (if nonforced && m_suppressed m then S sup else sup),
                   (b0 + length (filter (fun t => negb (snd t)) (m_blog m')))%nat,
                   (if is_reload e then S rl else rl)) in
      sig_steps cfg nd na rest m' acc'
  end.
Definition case_signature (c : obs_case) : N * N * N * N * N * N :=
  let '(a, b, c1, d, e, f) := sig_steps (oc_cfg c) (oc_nd c) (oc_na c) (oc_steps c) (m_init (oc_cfg c)) (O, O, O, O, O, O) in
  (sat3 a, sat3 b, sat3 c1, sat3 d, sat3 e, sat3 f).
