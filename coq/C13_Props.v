(* C13 — property theorems only.  Each is closed by `exact` of a lemma of C13_Proofs.v.
   Model: C13_Model.v (every atomic operation of udp_task_pool.go is one step; schedules are arbitrary
   lists of thread choices, any number of producers, any flow keys, any channel capacity, sync.Pool
   handing back any channel that was put). *)
From Coq Require Import List Arith Bool ZArith.
From Dae Require Import C13_Spec C13_Model C13_Proofs C13_Inv C13_EpModel C13_EpProofs C13_EpTuples C13_EpFine C13_EpFineWit C13_TrFine C13_TrFineProofs C13_Ingress C13_IngressProofs C13_IngressCor C13_TrGen C13_TrGenProofs C13_Overflow.
Import ListNotations.

(* The full statement: for every schedule the history satisfies the spec's safety clause (per flow the
   started tasks are the accepted ones in order, each once, by the flow's own worker, one at a time), and
   at rest nothing accepted is left unstarted. *)
Definition C13_exactly_once_in_order_full : Prop :=
  forall cap keys sched, 0 < cap ->
    let s := run cap keys sched in
    spec_safe (st_log s) = true /\ (quiescent s = true -> spec_complete (st_log s) = true).

(* It is FALSE of the faithful model of the current code: the convoy's idle check precedes the claiming
   CAS with no re-check, so a complete EmitTask in between is accepted and its task is never run ... *)
Theorem C13_exactly_once_in_order_refuted :
  exists cap keys sched, 0 < cap /\
    let s := run cap keys sched in quiescent s = true /\ spec_complete (st_log s) = false.
Proof. exact C13_exactly_once_in_order_refuted_proof. Qed.
Print Assumptions C13_exactly_once_in_order_refuted.

(* ... and the channel is recycled non-empty, so the task later runs on another flow's worker. *)
Theorem C13_cross_flow_refuted :
  exists cap keys sched, 0 < cap /\ spec_safe (st_log (run cap keys sched)) = false.
Proof. exact C13_cross_flow_refuted_proof. Qed.
Print Assumptions C13_cross_flow_refuted.

(* The second window found by this check (popReadyTask polled the channel, then popped the overflow list
   although capacity+1 enqueues had happened in between) is repaired in /repo 0813a51; the model follows
   the source (extracted constant pop_overflow_rechecks_channel).  On the witness schedule the repaired code
   now starts the channel task before the overflow task. *)
Theorem C13_overflow_overtake_fixed :
  let s := run 1 [1; 1; 1] witness_overtake in
  spec_safe (st_log s) = true /\ started_tasks (st_log s) = [0; 1] /\ accepted_tasks (st_log s) = [0; 1; 2]
  /\ (exists Q, nth_error (st_qs s) 0 = Some Q /\ q_over Q = [2]).
Proof. exact C13_overflow_overtake_fixed_proof. Qed.
Print Assumptions C13_overflow_overtake_fixed.

Theorem C13_exactly_once_in_order_full_is_false : ~ C13_exactly_once_in_order_full.
Proof. exact C13_full_is_false. Qed.
Print Assumptions C13_exactly_once_in_order_full_is_false.

(* What does hold of every schedule (partial): no task is ever started twice and none is started that
   was not accepted before — tasks move between channels, overflow lists and workers, they are never
   copied or invented, whatever the interleaving, capacity, number of producers and pool behaviour. *)
Theorem C13_no_dup_no_invent_partial :
  forall cap keys sched, spec_no_dup_no_invent (st_log (run cap keys sched)).
Proof. exact C13_no_dup_no_invent_proof. Qed.
Print Assumptions C13_no_dup_no_invent_partial.

(* At most one worker per flow key is inside a task at any time, for every schedule (a replaced queue's
   convoy never runs a task again; two live queues never share a key). *)
Theorem C13_one_at_a_time :
  forall cap keys sched, spec_one_at_a_time (st_log (run cap keys sched)).
Proof. exact C13_one_at_a_time_proof. Qed.
Print Assumptions C13_one_at_a_time.

(* Kernel flow entries: for every history of retain / release / forget operations over any trackers
   (generations) and tuples, the kernel delete issued by an operation is exactly the spec's (the tuple,
   iff that operation is a release that takes the owner count from one to zero; a hand-over = retain in
   the next generation + forget in this one deletes nothing), and an entry exists iff owners remain. *)
Theorem C13_tuple_refcount :
  forall (h : list tuple_op) (o : tuple_op),
    snd (tstep (trun h) o) = must_delete h o
    /\ (forall g k, (exists e, ts_tr (trun h) g k = Some e) <-> 0 < owners_after h g k).
Proof. exact C13_tuple_refcount_proof. Qed.
Print Assumptions C13_tuple_refcount.

(* Kernel flow entries with CONCURRENT owners (C13_TrFine.v: every owner is a thread; a retain or forget may
   block while the last owner is between BeginRelease and FinalizeRelease and re-examines the key after every
   wake-up; the release is three steps with the kernel delete in the middle): for any number of owners, tuples
   and modes and EVERY schedule, at every reachable state the entry of every tuple counts exactly its live
   owners (absent when there are none) and no kernel delete was issued while the tuple had an owner. *)
Theorem C13_tuple_refcount_concurrent :
  forall (thr : list (nat * nat)) (sched : list nat) (k : nat),
    let s := tr_run true thr sched in
    refs_match s k = true /\ deletes_ok s = true.
Proof. exact C13_tuple_refcount_concurrent_proof. Qed.
Print Assumptions C13_tuple_refcount_concurrent.

(* The re-check after a wake-up is necessary: a retainer that waits once and then installs a fresh entry
   loses an owner (two retainers in one deleting window), and the tuple is deleted while an owner remains. *)
Theorem C13_tuple_wait_once_refuted :
  exists thr sched, deletes_ok (tr_run false thr sched) = false /\ exists k, refs_match (tr_run false thr sched) k = false.
Proof. exact C13_tuple_wait_once_refuted_proof. Qed.
Print Assumptions C13_tuple_wait_once_refuted.

(* The overflow list as a Go slice with its capacity shrink (C13_Overflow.v): for every content, every
   capacity and every number of pops, what popOverflowTask hands out is the queued tasks in order — a shrink
   never changes what is waiting — so the plain-list overflow of C13_Model.v (and with it
   C13_no_dup_no_invent_partial, C13_one_at_a_time, C13_in_order_partial) covers arbitrarily long backlogs of
   one flow; draining a backlog executes exactly what was queued. *)
Theorem C13_overflow_shrink_preserves :
  forall ql dv (contents : list nat) (cap n : nat),
    ov_drain n true ql dv (contents, cap) = firstn n contents.
Proof. exact C13_overflow_shrink_preserves_proof. Qed.
Print Assumptions C13_overflow_shrink_preserves.

Theorem C13_overflow_backlog_exactly_once :
  forall ql dv (contents : list nat) (cap : nat),
    ov_drain (length contents) true ql dv (contents, cap) = contents.
Proof. exact C13_overflow_backlog_exactly_once_proof. Qed.
Print Assumptions C13_overflow_backlog_exactly_once.

(* A shrink that copies into a zero-length slice drops every task still waiting. *)
Theorem C13_overflow_copy_into_empty_refuted :
  exists ql dv contents cap,
    ov_drain (length contents) false ql dv (contents, cap) <> contents
    /\ length (ov_drain (length contents) false ql dv (contents, cap)) = 1.
Proof. exact C13_overflow_copy_into_empty_refuted_proof. Qed.
Print Assumptions C13_overflow_copy_into_empty_refuted.

(* Kernel flow entries across generations (C13_TrGen.v: controlPlaneCore instances sharing one tracker per BPF
   object set through the ref-counted registry; a closed generation that still owns endpoints takes the shared
   tracker again when it retains or releases): for every history of new generations, generation Close —
   forced retirement while its endpoints are alive included, as long as another open generation exists on the
   same BPF object set (decidable side condition `disciplined`) —, retains, releases and adoptions by open and
   closed generations, the shared tracker counts per tuple exactly the live owners among all generations, and
   every kernel delete was issued when no owner was left. *)
Theorem C13_tuple_refcount_generations :
  forall (ops : list gop), disciplined true ops = true ->
    forall b k, gen_refs_ok (grun true ops) b k = true /\ gen_deletes_ok (grun true ops) = true.
Proof. exact C13_tuple_refcount_generations_proof. Qed.
Print Assumptions C13_tuple_refcount_generations.

(* A closed generation that reports no tracker (its releases then take the untracked delete-everything path)
   deletes a tuple that a newer generation's endpoint still owns and leaves its own references behind. *)
Theorem C13_closed_core_without_tracker_refuted :
  exists ops, disciplined false ops = true /\ gen_deletes_ok (grun false ops) = false
              /\ exists b k, gen_refs_ok (grun false (removelast ops)) b k = false.
Proof. exact C13_closed_core_without_tracker_refuted_proof. Qed.
Print Assumptions C13_closed_core_without_tracker_refuted.

(* ---- ingress batch reader (C13_Ingress.v: udp_ingress_batch.go, the ReadBatch -> Take -> EmitTask hand-off) ---- *)

(* For every number of slots and EVERY interleaving of ReadBatch (any datagrams, with or without a valid source
   address), Take of any index, task runs and Close: no buffer is returned to the pool twice; a buffer handed
   to a task is never re-attached to a slot (one owner per buffer) and is not in the pool while owned; a task
   handles exactly the payload of the datagram that was read for it; there is one task per taken datagram, in
   order; and at rest every buffer is back in the pool. *)
Theorem C13_ingress_buffer_ownership :
  forall (nslots : nat) (ops : list iop), ingress_ok (irun true true nslots ops).
Proof. exact C13_ingress_buffer_ownership_proof. Qed.
Print Assumptions C13_ingress_buffer_ownership.

(* Composition with the task pool: a taken datagram becomes exactly one accepted task (EmitTask); by
   C13_no_dup_no_invent_partial / C13_in_order_partial every accepted task of a flow is started once, in
   acceptance order (outside the recorded idle-GC window); by the statement below what the tasks handle is,
   task by task in Take order, what was received — so per flow the handled payload sequence is the received
   datagram sequence. *)
Theorem C13_ingress_handled_is_received :
  forall nslots ops, let s := irun true true nslots ops in
    forallb t_done (i_tasks s) = true -> map t_handled (i_tasks s) = i_taken s.
Proof. exact C13_ingress_handled_is_received_proof. Qed.
Print Assumptions C13_ingress_handled_is_received.

(* "Take keeps slot.buf" (the next ReadBatch re-attaches the buffer the earlier packet's task still owns): the
   earlier packet's payload is replaced, the later one handled twice, the buffer returned twice. *)
Theorem C13_ingress_take_keeps_buf_refuted :
  exists nslots ops, let s := irun false false nslots ops in
    ~ NoDup (i_puts s) /\ exists tk, In tk (i_tasks s) /\ t_done tk = true /\ t_handled tk <> t_expect tk.
Proof. exact C13_ingress_take_keeps_buf_refuted_proof. Qed.
Print Assumptions C13_ingress_take_keeps_buf_refuted.

(* ---- endpoint pool (C13_EpModel.v: GetOrCreate, retire, Close, WriteTo, adoptGeneration, health
   invalidation, Reset, janitor sweep, time; one call = one step) ---- *)

(* Every endpoint that was dialled: its transport is closed at most once, exactly when the endpoint is
   closed, and as soon as the endpoint is no longer the pool's entry for its key it has been closed —
   after any history of calls, dial outcomes, write errors, invalidations, sweeps, resets, clock steps. *)
Theorem C13_close_once :
  forall ops e u, nth_error (p_eps (prun ops)) e = Some u -> u_failed u = false ->
    u_conn_closes u <= 1
    /\ (u_conn_closes u = 1 <-> u_closed u = true)
    /\ (p_pool (prun ops) (u_key u) <> Some e -> u_conn_closes u = 1).
Proof. exact C13_close_once_proof. Qed.
Print Assumptions C13_close_once.

(* Whatever a call hands out, after any history: never a failure marker, never a retired (dead) or closed
   endpoint, never one whose transport was closed, never one invalidated by a health change before it
   carried traffic; and it is the pool's entry for its key. *)
Theorem C13_never_resurrect :
  forall ops o e,
    r_ret (snd (pstep (prun ops) o)) = Some e -> handed_ok (fst (pstep (prun ops) o)) e.
Proof. exact C13_never_resurrect_proof. Qed.
Print Assumptions C13_never_resurrect.

(* A key whose dial failed recently is answered with the failure error, without a dial and without any
   change of state. *)
Theorem C13_failed_recently :
  forall s k d g out e u,
    p_pool s k = Some e -> nth_error (p_eps s) e = Some u -> u_failed u = true -> is_expired u (p_now s) = false ->
    pstep s (PGoc k d g out) = (s, mkER None false 1).
Proof. exact C13_failed_recently_proof. Qed.
Print Assumptions C13_failed_recently.

(* While the endpoint of a key is alive (not retired, and current or already carrying traffic) every call
   for the key returns that endpoint, dials nothing and leaves the pool as it is; and no call ever dials
   more than once. *)
Theorem C13_endpoint_stable_single_dial :
  (forall s k d g out e u,
      p_pool s k = Some e -> nth_error (p_eps s) e = Some u -> u_failed u = false -> stale s u = false ->
      let r := pstep s (PGoc k d g out) in
      snd r = mkER (Some e) false 0 /\ p_dials (fst r) = p_dials s /\ p_pool (fst r) = p_pool s)
  /\ (forall s o, p_dials (fst (pstep s o)) <= S (p_dials s)).
Proof. exact (conj C13_endpoint_stable_proof C13_single_dial_proof). Qed.
Print Assumptions C13_endpoint_stable_single_dial.

(* Remove(key, handle) from any flow at any time (C13_close_once, C13_never_resurrect,
   C13_endpoint_stable_single_dial and C13_endpoint_tuples above quantify over histories that contain such
   calls): a Remove whose handle is not the pool's entry of its key — a stale handle: the endpoint was retired
   and perhaps replaced meanwhile — changes nothing at all; any Remove leaves the entries of other keys alone.
   Together with C13_close_once (clause 3: an endpoint that is not the pool's entry of its key is closed) this
   is the reachability invariant: every dialled endpoint is either pooled and alive or closed. *)
Theorem C13_remove_stale_handle :
  forall ops h e u,
    nth_error (p_handles (prun ops)) h = Some e -> nth_error (p_eps (prun ops)) e = Some u ->
    (p_pool (prun ops) (u_key u) <> Some e -> fst (pstep (prun ops) (PRemove h)) = prun ops)
    /\ (forall k, k <> u_key u -> p_pool (fst (pstep (prun ops) (PRemove h))) k = p_pool (prun ops) k).
Proof. exact C13_remove_stale_handle_proof. Qed.
Print Assumptions C13_remove_stale_handle.

(* The identity check in Remove is necessary: without it (ep_remove false) a late Remove(key, E1) after E1 was
   retired and E2 dialled evicts E2 unclosed — E2 is neither pooled nor closed, the next call dials a third
   endpoint while E2 is alive, and a pool Reset never closes E2. *)
Theorem C13_remove_without_identity_refuted :
  let s := ep_remove false (prun remove_noid_ops) 0 in
  (exists u, nth_error (p_eps s) 1 = Some u /\ u_failed u = false /\ u_closed u = false /\ u_dead u = false
             /\ p_pool s (u_key u) = None)
  /\ p_dials (fst (pstep s (PGoc 0 0 0 0))) = 3
  /\ (let s2 := fst (pstep (fst (pstep s (PGoc 0 0 0 0))) PReset) in
      exists u, nth_error (p_eps s2) 1 = Some u /\ u_conn_closes u = 0).
Proof. exact C13_remove_without_identity_refuted_proof. Qed.
Print Assumptions C13_remove_without_identity_refuted.

(* Kernel flow entries follow their endpoints: after any history, generation g's tracker holds tuple t with
   exactly as many references as there are endpoints owned by g (creator, or the last generation that
   adopted them on reuse) that registered t and have not released their conn state; an endpoint that has
   released owns nothing.  Together with C13_tuple_refcount: the kernel entry is deleted exactly when its last
   owning endpoint is closed, and a reload hand-over (adoption) moves the reference without a delete. *)
Theorem C13_endpoint_tuples :
  forall ops g t,
    p_tr (prun ops) g t = enc (cnt (p_eps (prun ops)) g t)
    /\ (forall e u, nth_error (p_eps (prun ops)) e = Some u -> u_cs_closed u = true -> owns g t u = false).
Proof. exact C13_endpoint_tuples_proof. Qed.
Print Assumptions C13_endpoint_tuples.

(* ---- finer endpoint model (C13_EpFine.v: GetOrCreate callers as threads stepping between the verif yield
   points and the creation mutex) ---- *)

(* On the unchanged code the creator returns the endpoint it built without re-examining it: a health
   invalidation between generation capture and registration is lost (the endpoint is handed out, not dead,
   not closed, generation-stale) ... *)
Theorem C13_fine_handout_invalidated_refuted :
  In 0 (f_inval (frun fine_w1_thr fine_w1_pre)) /\ f_hand (frun fine_w1_thr fine_w1_pre) = []
  /\ f_hand (frun fine_w1_thr fine_w1) = [(0, 0)]
  /\ (exists u, nth_error (p_eps (f_p (frun fine_w1_thr fine_w1))) 0 = Some u
                /\ u_dead u = false /\ u_closed u = false /\ gen_current (f_p (frun fine_w1_thr fine_w1)) u = false).
Proof. exact C13_fine_handout_invalidated_proof. Qed.
Print Assumptions C13_fine_handout_invalidated_refuted.

(* ... and an endpoint retired (write error of a second caller) between publish and register is returned dead. *)
Theorem C13_fine_handout_dead_refuted :
  f_hand (frun fine_w2_thr fine_w2) = [(1, 0); (0, 0)]
  /\ f_hand (frun fine_w2_thr (removelast fine_w2)) = [(1, 0)]
  /\ (exists u, nth_error (p_eps (f_p (frun fine_w2_thr (removelast fine_w2)))) 0 = Some u /\ u_dead u = true /\ u_conn_closes u = 1).
Proof. exact C13_fine_handout_dead_proof. Qed.
Print Assumptions C13_fine_handout_dead_refuted.

Example C13_endpoint_nonvacuous :
  let ops := [PGoc 0 0 0 0; PWrite 0 0; PInval 0; PGoc 1 0 0 1; PGoc 1 0 0 0; PGoc 0 0 1 0; PWrite 0 1; PGoc 0 0 1 0; PReset] in
  let s := prun ops in
  map u_conn_closes (p_eps s) = [1; 0; 1] /\ map u_failed (p_eps s) = [false; true; false] /\ p_dials s = 3
  /\ snd (pstep (prun (firstn 4 ops)) (PGoc 1 0 0 0)) = mkER None false 1.
Proof. vm_compute. repeat split. Qed.

Example C13_nonvacuous :
  (let s := run 2 [7; 7; 8] witness_cross in
   started_tasks (st_log s) = [0; 1] /\ accepted_tasks (st_log s) = [0; 1; 2])
  /\ (let h := [TRetain 0 5; TRetain 0 5; TRetain 1 5; TForget 0 5; TRelease 0 5] in
      must_delete h (TRelease 1 5) = [5] /\ snd (tstep (trun h) (TRelease 1 5)) = [5]
      /\ must_delete [TRetain 0 5; TRetain 0 5] (TRelease 0 5) = []).
Proof. vm_compute. repeat split. Qed.
