(* C13 — property theorems only.  Each is closed by `exact` of a lemma of C13_Proofs.v.
   Model: C13_Model.v (every atomic operation of udp_task_pool.go is one step; schedules are arbitrary
   lists of thread choices, any number of producers, any flow keys, any channel capacity, sync.Pool
   handing back any channel that was put). *)
From Coq Require Import List Arith Bool ZArith.
From Dae Require Import C13_Spec C13_Model C13_Proofs.
Import ListNotations.

(* The full statement: for every schedule the history satisfies the spec's safety clause (per flow the
   started tasks are the accepted ones in order, each once, by the flow's own worker, one at a time), and
   at rest nothing accepted is left unstarted. *)
Definition C13_exactly_once_in_order_full : Prop :=
  forall cap keys sched, 0 < cap ->
    let s := run cap keys sched in
    spec_safe (st_log s) = true /\ (quiescent s = true -> spec_complete (st_log s) = true).

(* It is FALSE of the faithful model of the current code: the convoy's idle check precedes the claiming
   CAS with no re-check, so a complete EmitTask in between is accepted and its task is never run ... *)
Theorem C13_exactly_once_in_order_refuted :
  exists cap keys sched, 0 < cap /\
    let s := run cap keys sched in quiescent s = true /\ spec_complete (st_log s) = false.
Proof. exact C13_exactly_once_in_order_refuted_proof. Qed.
Print Assumptions C13_exactly_once_in_order_refuted.

(* ... and the channel is recycled non-empty, so the task later runs on another flow's worker. *)
Theorem C13_cross_flow_refuted :
  exists cap keys sched, 0 < cap /\ spec_safe (st_log (run cap keys sched)) = false.
Proof. exact C13_cross_flow_refuted_proof. Qed.
Print Assumptions C13_cross_flow_refuted.

(* The second window found by this check (popReadyTask polled the channel, then popped the overflow list
   although capacity+1 enqueues had happened in between) is repaired in /repo 0813a51; the model follows
   the source (extracted constant pop_overflow_rechecks_channel).  On the witness schedule the repaired code
   now starts the channel task before the overflow task. *)
Theorem C13_overflow_overtake_fixed :
  let s := run 1 [1; 1; 1] witness_overtake in
  spec_safe (st_log s) = true /\ started_tasks (st_log s) = [0; 1] /\ accepted_tasks (st_log s) = [0; 1; 2]
  /\ (exists Q, nth_error (st_qs s) 0 = Some Q /\ q_over Q = [2]).
Proof. exact C13_overflow_overtake_fixed_proof. Qed.
Print Assumptions C13_overflow_overtake_fixed.

Theorem C13_exactly_once_in_order_full_is_false : ~ C13_exactly_once_in_order_full.
Proof. exact C13_full_is_false. Qed.
Print Assumptions C13_exactly_once_in_order_full_is_false.

(* What does hold of every schedule (partial): no task is ever started twice and none is started that
   was not accepted before — tasks move between channels, overflow lists and workers, they are never
   copied or invented, whatever the interleaving, capacity, number of producers and pool behaviour. *)
Theorem C13_no_dup_no_invent_partial :
  forall cap keys sched, spec_no_dup_no_invent (st_log (run cap keys sched)).
Proof. exact C13_no_dup_no_invent_proof. Qed.
Print Assumptions C13_no_dup_no_invent_partial.

(* Kernel flow entries: for every history of retain / release / forget operations over any trackers
   (generations) and tuples, the kernel delete issued by an operation is exactly the spec's (the tuple,
   iff that operation is a release that takes the owner count from one to zero; a hand-over = retain in
   the next generation + forget in this one deletes nothing), and an entry exists iff owners remain. *)
Theorem C13_tuple_refcount :
  forall (h : list tuple_op) (o : tuple_op),
    snd (tstep (trun h) o) = must_delete h o
    /\ (forall g k, (exists e, ts_tr (trun h) g k = Some e) <-> 0 < owners_after h g k).
Proof. exact C13_tuple_refcount_proof. Qed.
Print Assumptions C13_tuple_refcount.

Example C13_nonvacuous :
  (let s := run 2 [7; 7; 8] witness_cross in
   started_tasks (st_log s) = [0; 1] /\ accepted_tasks (st_log s) = [0; 1; 2])
  /\ (let h := [TRetain 0 5; TRetain 0 5; TRetain 1 5; TForget 0 5; TRelease 0 5] in
      must_delete h (TRelease 1 5) = [5] /\ snd (tstep (trun h) (TRelease 1 5)) = [5]
      /\ must_delete [TRetain 0 5; TRetain 0 5] (TRelease 0 5) = []).
Proof. vm_compute. repeat split. Qed.
