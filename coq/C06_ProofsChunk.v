(* C06 — chunking invariance of the TCP sniffer, derived from the whole-stream round trip. *)
From Coq Require Import List NArith Bool Arith Lia ZifyBool ZifyN ZifyNat.
From Dae.gen Require Import C06_Extracted.
From Dae Require Import C06_Spec C06_Model C06_Statements.
Import ListNotations.
Open Scope N_scope.

(* ------------------------------------------------------------------ small list facts *)
Lemma chunk_bytes_eqb_eq : forall a b : bytes, bytes_eqb a b = true -> a = b.
Proof.
  unfold bytes_eqb. induction a as [|x a IH]; intros [|y b] H; try reflexivity.
  - apply andb_true_iff in H. destruct H as [H _]. discriminate H.
  - apply andb_true_iff in H. destruct H as [H _]. discriminate H.
  - apply andb_true_iff in H. destruct H as [Hl Hf].
    cbn [length] in Hl. cbn [combine forallb fst snd] in Hf.
    apply andb_true_iff in Hf. destruct Hf as [Hxy Hf].
    apply N.eqb_eq in Hxy. subst y. f_equal. apply IH.
    apply andb_true_iff. split; [exact Hl | exact Hf].
Qed.

Lemma chunk_prefix_split : forall (a b c d : bytes),
  a ++ b = c ++ d -> (length c <= length a)%nat -> a = c ++ skipn (length c) a.
Proof.
  intros a b c d H Hl.
  assert (Hc : c = firstn (length c) a).
  { assert (E : firstn (length c) (a ++ b) = firstn (length c) (c ++ d)) by (rewrite H; reflexivity).
    rewrite firstn_app in E.
    replace (length c - length a)%nat with 0%nat in E by lia.
    cbn [firstn] in E. rewrite app_nil_r in E.
    rewrite firstn_app in E. rewrite Nat.sub_diag in E. cbn [firstn] in E.
    rewrite app_nil_r in E. rewrite firstn_all in E. symmetry. exact E. }
  rewrite Hc at 1. rewrite firstn_skipn. reflexivity.
Qed.

Lemma chunk_is_prefix_split : forall p l : bytes,
  is_prefix p l = true -> l = p ++ skipn (length p) l.
Proof.
  intros p l H. unfold is_prefix in H. apply chunk_bytes_eqb_eq in H.
  rewrite H at 1. rewrite firstn_skipn. reflexivity.
Qed.

(* ------------------------------------------------------------------ an incomplete record asks for more *)
Lemma chunk_sniff_tls_cons : forall (m a b : N) (t slack : bytes),
  blen t < a * 256 + b -> sniff_tls (22 :: 3 :: m :: a :: b :: t) slack = NeedMore.
Proof.
  intros m a b t slack Hlt. unfold sniff_tls.
  destruct (blen (22 :: 3 :: m :: a :: b :: t) <? 5) eqn:E1.
  { apply N.ltb_lt in E1. unfold blen in E1. cbn [length] in E1. lia. }
  unfold nthb. cbn [nth skipn]. unfold tls_content_handshake.
  cbn [N.eqb Pos.eqb negb orb].
  destruct (blen t <? a * 256 + b) eqn:E2; [reflexivity|].
  apply N.ltb_ge in E2. lia.
Qed.

Lemma chunk_tls_needmore : forall (m : N) (hs buf y x slack : bytes),
  buf ++ y = ([22; 3; m] ++ be16 (blen hs) ++ hs) ++ x ->
  (5 <= length buf)%nat -> (length buf < 5 + length hs)%nat ->
  sniff_tls buf slack = NeedMore.
Proof.
  intros m hs buf y x slack H H5 Hlt.
  destruct buf as [|c0 [|c1 [|c2 [|c3 [|c4 t]]]]]; cbn [length] in H5; try lia.
  unfold be16 in H. cbn [app] in H.
  injection H as E0 E1 E2 E3 E4 Et. subst c0 c1 c2 c3 c4.
  apply chunk_sniff_tls_cons.
  cbn [length] in Hlt. unfold blen.
  pose proof (N.div_mod (N.of_nat (length hs)) 256 ltac:(lia)) as Hdm.
  lia.
Qed.

Lemma chunk_group_needmore : forall buf slack,
  sniff_tls buf slack = NeedMore -> sniff_group_tcp buf slack = NeedMore.
Proof. intros buf slack H. unfold sniff_group_tcp. rewrite H. reflexivity. Qed.

(* ------------------------------------------------------------------ the read loop *)
Definition chunk_dflt : rd := {| rd_window := 0; rd_data := []; rd_status := RsOk |}.

Lemma chunk_loop : forall (R : bytes) (r0 : outcome),
  (5 <= length R)%nat ->
  r0 <> NeedMore ->
  (forall x slack, sniff_group_tcp (R ++ x) slack = r0) ->
  (forall buf y x slack, buf ++ y = R ++ x -> (5 <= length buf)%nat -> (length buf < length R)%nat ->
                         sniff_group_tcp buf slack = NeedMore) ->
  forall (script : list rd) (st : sstate) (x : bytes),
    s_buf st ++ concat (map rd_data script) = R ++ x ->
    forallb benign script = true ->
    ((s_buf st = [] /\ (5 <= length (rd_data (hd chunk_dflt script)))%nat)
     \/ ((5 <= length (s_buf st))%nat /\ (length (s_buf st) < length R)%nat)) ->
    fst (fst (sniff_tcp_loop script st)) = r0.
Proof.
  intros R r0 HR Hr0 Hfull Hpart.
  induction script as [|e rest IH]; intros st x Heq Hben Hinv.
  - exfalso. cbn [map concat] in Heq. rewrite app_nil_r in Heq.
    assert (L : length (s_buf st) = (length R + length x)%nat)
      by (rewrite Heq; apply app_length).
    destruct Hinv as [[Hnil _]|[_ Hlt]].
    + rewrite Hnil in L. cbn [length] in L. lia.
    + lia.
  - cbn [map concat] in Heq. rewrite app_assoc in Heq.
    cbn [forallb] in Hben. apply andb_true_iff in Hben. destruct Hben as [Hbe Hben].
    assert (Hlen : (5 <= length (s_buf st ++ rd_data e))%nat).
    { rewrite app_length. destruct Hinv as [[_ H5]|[H5 _]]; [cbn [hd] in H5|]; lia. }
    assert (Hstep :
      fst (fst (let st' := {| s_buf := s_buf st ++ rd_data e;
                              s_cap := blen (s_buf st) + rd_window e; s_dataerr := None |} in
                if (length (s_buf st ++ rd_data e) =? 0)%nat then (NotApplicable, st', rest) else
                match sniff_group_tcp (s_buf st ++ rd_data e)
                        (zeros (blen (s_buf st) + rd_window e - blen (s_buf st ++ rd_data e))) with
                | NeedMore => sniff_tcp_loop rest st'
                | r => (r, st', rest)
                end)) = r0).
    { cbv zeta.
      destruct (length (s_buf st ++ rd_data e) =? 0)%nat eqn:E0.
      { apply Nat.eqb_eq in E0. lia. }
      destruct (Nat.lt_ge_cases (length (s_buf st ++ rd_data e)) (length R)) as [Hlt|Hge].
      - rewrite (Hpart _ _ _ _ Heq Hlen Hlt).
        apply (IH _ x).
        + cbn [s_buf]. exact Heq.
        + exact Hben.
        + right. cbn [s_buf]. split; assumption.
      - rewrite (chunk_prefix_split _ _ _ _ Heq Hge) at 1.
        rewrite Hfull.
        destruct r0; try reflexivity. exfalso. apply Hr0. reflexivity. }
    cbn [sniff_tcp_loop].
    unfold benign in Hbe.
    destruct (rd_status e); try discriminate Hbe; exact Hstep.
Qed.

(* ------------------------------------------------------------------ the theorem *)
Lemma chunk_name_of_not_needmore : forall h, name_of h <> NeedMore.
Proof. intro h. unfold name_of. destruct (carried_name (h_exts h)); discriminate. Qed.

Lemma chunk_record_length : forall m h,
  length (enc_record m h) = (5 + length (enc_handshake h))%nat.
Proof.
  intros m h. unfold enc_record. cbv zeta. unfold be16.
  rewrite !app_length. cbn [length]. lia.
Qed.

Lemma C06_chunking_from_stream : C06_tls_stream_roundtrip_stmt -> C06_chunking_invariant_stmt.
Proof.
  intros Hstream h m script Hwf Hnames Hsz Hben H5 Hpre.
  apply chunk_is_prefix_split in Hpre.
  split.
  - unfold sniff_tcp.
    apply (chunk_loop (enc_record m h) (name_of h)) with (x := skipn (length (enc_record m h)) (concat (map rd_data script))).
    + rewrite chunk_record_length. lia.
    + apply chunk_name_of_not_needmore.
    + intros x slack. apply Hstream; assumption.
    + intros buf y x slack Heq Hl5 Hlt. apply chunk_group_needmore.
      unfold enc_record in Heq. cbv zeta in Heq.
      apply (chunk_tls_needmore m (enc_handshake h) buf y x slack Heq Hl5).
      rewrite chunk_record_length in Hlt. exact Hlt.
    + cbn [new_stream s_buf app]. exact Hpre.
    + exact Hben.
    + left. split; [reflexivity|].
      unfold chunk_dflt. unfold blen in H5. lia.
  - rewrite Hpre. unfold sniff_whole. apply Hstream; assumption.
Qed.

Print Assumptions C06_chunking_from_stream.
