(* C03 — the hook models refine the executable specification. *)
From Coq Require Import List NArith ZArith Bool Lia.
From Dae Require Import C03_Spec C03_Model.
From Dae.gen Require Import C03_Consts.
From Coq Require Import ZifyBool ZifyN ZifyNat.
Import ListNotations.
Open Scope N_scope.

(* ---------------------------------------------------------------------------------------------- *)
(* 1. association maps                                                                             *)
(* ---------------------------------------------------------------------------------------------- *)
Lemma hp_fkey_eqb_refl : forall k, fkey_eqb k k = true.
Proof. intro k. unfold fkey_eqb. rewrite !N.eqb_refl. reflexivity. Qed.

Lemma fkey_eqb_eq : forall a b, fkey_eqb a b = true <-> a = b.
Proof.
  intros [a1 a2 a3 a4 a5] [b1 b2 b3 b4 b5]. unfold fkey_eqb. cbn [k_sip k_dip k_sport k_dport k_proto].
  rewrite !andb_true_iff, !N.eqb_eq. split.
  - intros [[[[-> ->] ->] ->] ->]. reflexivity.
  - intros H. injection H as -> -> -> -> ->. auto.
Qed.

Section Tab.
  Context {V : Type}.
  Implicit Types (m : list (fkey * V)) (k : fkey) (v : V).

  Lemma tab_get_set_eq : forall m k v, tab_get (tab_set m k v) k = Some v.
  Proof.
    intros m k v. induction m as [| [a w] r IH]; cbn [tab_set tab_get].
    - rewrite hp_fkey_eqb_refl. reflexivity.
    - destruct (fkey_eqb a k) eqn:E; cbn [tab_get]; rewrite E; [reflexivity | exact IH].
  Qed.

  Lemma tab_get_set_other : forall m k k' v, fkey_eqb k k' = false -> tab_get (tab_set m k v) k' = tab_get m k'.
  Proof.
    intros m k k' v Hne. induction m as [| [a w] r IH]; cbn [tab_set tab_get].
    - rewrite Hne. reflexivity.
    - destruct (fkey_eqb a k) eqn:E; cbn [tab_get].
      + apply fkey_eqb_eq in E. subst a. rewrite Hne. reflexivity.
      + destruct (fkey_eqb a k'); [reflexivity | exact IH].
  Qed.

  Lemma tab_get_del_eq : forall m k, tab_get (tab_del m k) k = None.
  Proof.
    intros m k. induction m as [| [a w] r IH]; cbn [tab_del tab_get]; [reflexivity|].
    destruct (fkey_eqb a k) eqn:E; [exact IH|]. cbn [tab_get]. rewrite E. exact IH.
  Qed.

  Lemma tab_get_del_none : forall m k k', tab_get m k' = None -> tab_get (tab_del m k) k' = None.
  Proof.
    intros m k k'. induction m as [| [a w] r IH]; cbn [tab_del tab_get]; [reflexivity|].
    destruct (fkey_eqb a k') eqn:E'; [discriminate|]. intro H.
    destruct (fkey_eqb a k); [exact (IH H)|]. cbn [tab_get]. rewrite E'. exact (IH H).
  Qed.

  Lemma tab_del_none : forall m k, tab_get m k = None -> tab_del m k = m.
  Proof.
    intros m k. induction m as [| [a w] r IH]; cbn [tab_del tab_get]; [reflexivity|].
    destruct (fkey_eqb a k); [discriminate|]. intro H. rewrite (IH H). reflexivity.
  Qed.
End Tab.

Lemma get_abs : forall m k, tab_get (abs_conn m) k = option_map abs_cs (tab_get m k).
Proof.
  intros m k. unfold abs_conn. induction m as [| [a v] r IH]; cbn [map tab_get fst snd option_map]; [reflexivity|].
  destruct (fkey_eqb a k); [reflexivity | exact IH].
Qed.
Lemma set_abs : forall m k v, abs_conn (tab_set m k v) = tab_set (abs_conn m) k (abs_cs v).
Proof.
  intros m k v. unfold abs_conn. induction m as [| [a w] r IH]; cbn [map tab_set fst snd]; [reflexivity|].
  destruct (fkey_eqb a k); cbn [map fst snd]; [reflexivity | rewrite IH; reflexivity].
Qed.
Lemma del_abs : forall m k, abs_conn (tab_del m k) = tab_del (abs_conn m) k.
Proof.
  intros m k. unfold abs_conn. induction m as [| [a w] r IH]; cbn [map tab_del fst snd]; [reflexivity|].
  destruct (fkey_eqb a k); cbn [map fst snd]; [exact IH | rewrite IH; reflexivity].
Qed.

(* the invariant, on the connection map alone *)
Definition inv_conn (m : list (fkey * cstate)) : Prop :=
  forall k, is_short_lived_udp_traffic k = true -> tab_get m k = None.
Lemma inv_is_inv_conn : forall st, inv st <-> inv_conn (ks_conn st).
Proof. intro st. unfold inv, inv_conn. tauto. Qed.
Lemma inv_conn_set : forall m k v, inv_conn m -> is_short_lived_udp_traffic k = false -> inv_conn (tab_set m k v).
Proof.
  intros m k v Hi Hk k' Hk'. rewrite tab_get_set_other; [exact (Hi k' Hk')|].
  destruct (fkey_eqb k k') eqn:E; [|reflexivity]. apply fkey_eqb_eq in E. subst k'. congruence.
Qed.
Lemma inv_conn_del : forall m k, inv_conn m -> inv_conn (tab_del m k).
Proof. intros m k Hi k' Hk'. apply tab_get_del_none. exact (Hi k' Hk'). Qed.

(* ---------------------------------------------------------------------------------------------- *)
(* 2. the tracking functions                                                                       *)
(* ---------------------------------------------------------------------------------------------- *)
Lemma tcp_expired_abs : forall s now, tcp_expired (abs_cs s) now = tcp_conn_state_expired s now.
Proof. reflexivity. Qed.
Lemma udp_expired_abs : forall s now, udp_expired (abs_cs s) now = udp_conn_state_expired s now.
Proof. reflexivity. Qed.
Lemma refreshed_abs : forall s now,
  refreshed (abs_cs s) now = abs_cs (if gt (sub64 now (cs_last s)) DOC_REFRESH_NS then set_last s now else s).
Proof.
  intros s now. unfold refreshed.
  change (exceeds (age now (fe_last (abs_cs s))) DOC_REFRESH_NS) with (gt (sub64 now (cs_last s)) DOC_REFRESH_NS).
  destruct (gt (sub64 now (cs_last s)) DOC_REFRESH_NS); reflexivity.
Qed.
Lemma closing_abs : forall s, closing (abs_cs s) = abs_cs (set_state s TCP_STATE_CLOSING).
Proof. reflexivity. Qed.
Lemma touched_abs : forall s now, touched_now (abs_cs s) now = abs_cs (set_last s now).
Proof. reflexivity. Qed.
Lemma fresh_abs : forall w now a, a_rt a = None -> abs_cs (new_state w now a) = fresh_entry w now (a_dscp a) (a_pid a).
Proof. intros w now a H. unfold new_state. rewrite H. reflexivity. Qed.

Lemma mark_tcp_new : forall m k w fin a now,
  mark_tcp_seen m k w true fin a now = (Some (new_state w now a), tab_set (tab_del m k) k (new_state w now a)).
Proof.
  intros. unfold mark_tcp_seen. destruct (tab_get m k) eqn:E; [reflexivity|].
  rewrite (tab_del_none _ _ E). reflexivity.
Qed.

Definition tcp_touch (s : cstate) (fin : bool) (now : N) : cstate :=
  let s1 := if gt (sub64 now (cs_last s)) DOC_REFRESH_NS then set_last s now else s in
  if fin then set_state s1 TCP_STATE_CLOSING else s1.

Lemma mark_tcp_old : forall m k w fin a now, a_rt a = None ->
  mark_tcp_seen m k w false fin a now =
  match tab_get m k with
  | None => (None, m)
  | Some s => if tcp_conn_state_expired s now then (None, tab_del m k)
              else (Some (tcp_touch s fin now), tab_set m k (tcp_touch s fin now))
  end.
Proof.
  intros m k w fin a now Ha. unfold mark_tcp_seen, apply_routing. rewrite Ha.
  destruct (tab_get m k) as [s|]; [|reflexivity].
  destruct (tcp_conn_state_expired s now); reflexivity.
Qed.

Lemma tcp_track_abs : forall m k p w now a,
  a_rt a = None ->
  tcp_track (abs_conn m) k p w now (a_dscp a) (a_pid a) =
  (option_map abs_cs (fst (mark_tcp_seen m k w (p_new p) (p_finrst p) a now)),
   abs_conn (snd (mark_tcp_seen m k w (p_new p) (p_finrst p) a now))).
Proof.
  intros m k p w now a Ha. unfold tcp_track. destruct (p_new p).
  - rewrite mark_tcp_new. cbn [fst snd option_map]. rewrite set_abs, del_abs, (fresh_abs _ _ _ Ha). reflexivity.
  - rewrite (mark_tcp_old _ _ _ _ _ _ Ha), get_abs. destruct (tab_get m k) as [s|]; cbn [option_map fst snd]; [|reflexivity].
    rewrite tcp_expired_abs. destruct (tcp_conn_state_expired s now); cbn [option_map fst snd].
    + rewrite del_abs. reflexivity.
    + rewrite refreshed_abs, set_abs. unfold tcp_touch.
      destruct (p_finrst p); [rewrite closing_abs|]; reflexivity.
Qed.

Definition udp_touch (s : cstate) (now : N) : cstate :=
  if gt (sub64 now (cs_last s)) DOC_REFRESH_NS then set_last s now else s.

Lemma mark_udp_eq : forall m k w a now, a_rt a = None ->
  mark_udp_seen m k w a now =
  match tab_get m k with
  | Some s => if udp_conn_state_expired s now
              then (new_state w now a, tab_set (tab_del m k) k (new_state w now a))
              else (udp_touch s now, tab_set m k (udp_touch s now))
  | None => (new_state w now a, tab_set m k (new_state w now a))
  end.
Proof.
  intros m k w a now Ha. unfold mark_udp_seen, apply_routing. rewrite Ha.
  destruct (tab_get m k) as [s|]; [|reflexivity].
  destruct (udp_conn_state_expired s now); reflexivity.
Qed.

Lemma udp_track_abs : forall m k w now a,
  a_rt a = None -> a_pid a = 0 ->
  udp_track (abs_conn m) k w now (a_dscp a) =
  (abs_cs (fst (mark_udp_seen m k w a now)), abs_conn (snd (mark_udp_seen m k w a now))).
Proof.
  intros m k w now a Ha Hp. unfold udp_track. rewrite (mark_udp_eq _ _ _ _ _ Ha), get_abs.
  destruct (tab_get m k) as [s|]; cbn [option_map fst snd].
  - rewrite udp_expired_abs. destruct (udp_conn_state_expired s now); cbn [fst snd].
    + rewrite set_abs, del_abs, (fresh_abs _ _ _ Ha), Hp. reflexivity.
    + rewrite refreshed_abs, set_abs. reflexivity.
  - rewrite set_abs, (fresh_abs _ _ _ Ha), Hp. reflexivity.
Qed.

(* the entry returned is the entry stored *)
Lemma mark_tcp_get : forall m k w new fin a now s m1,
  mark_tcp_seen m k w new fin a now = (Some s, m1) -> tab_get m1 k = Some s.
Proof.
  intros m k w new fin a now s m1. unfold mark_tcp_seen.
  destruct (tab_get m k) as [s0|]; [destruct new; [| destruct (tcp_conn_state_expired s0 now)]| destruct new];
    cbn [fst snd]; intro H; inversion H; subst; try apply tab_get_set_eq; try discriminate.
Qed.
Lemma mark_udp_get : forall m k w a now us m1,
  mark_udp_seen m k w a now = (us, m1) -> tab_get m1 k = Some us.
Proof.
  intros m k w a now us m1. unfold mark_udp_seen.
  destruct (tab_get m k) as [s0|]; [destruct (udp_conn_state_expired s0 now)|];
    intro H; inversion H; subst; apply tab_get_set_eq.
Qed.
Lemma mark_tcp_inv : forall m k w new fin a now,
  inv_conn m -> is_short_lived_udp_traffic k = false -> inv_conn (snd (mark_tcp_seen m k w new fin a now)).
Proof.
  intros m k w new fin a now Hi Hk. unfold mark_tcp_seen.
  destruct (tab_get m k) as [s0|]; [destruct new; [| destruct (tcp_conn_state_expired s0 now)]| destruct new];
    cbn [fst snd]; auto using inv_conn_set, inv_conn_del.
Qed.
Lemma mark_udp_inv : forall m k w a now,
  inv_conn m -> is_short_lived_udp_traffic k = false -> inv_conn (snd (mark_udp_seen m k w a now)).
Proof.
  intros m k w a now Hi Hk. unfold mark_udp_seen.
  destruct (tab_get m k) as [s0|]; [destruct (udp_conn_state_expired s0 now)|];
    cbn [fst snd]; auto using inv_conn_set, inv_conn_del.
Qed.

(* ---------------------------------------------------------------------------------------------- *)
(* 3. observation                                                                                  *)
(* ---------------------------------------------------------------------------------------------- *)
Definition refines (h : hres) (k : fkey) (now : N) (s : verdict * ftab) : Prop :=
  observe h k now = fst s /\ abs_conn (ks_conn (h_st h)) = snd s /\ inv (h_st h).

Lemma refines_ok : forall mk q st k now t,
  abs_conn (ks_conn st) = t -> inv_conn (ks_conn st) -> refines (ret_act TC_ACT_OK mk q st) k now (Pass mk, t).
Proof. intros. split; [reflexivity|]. split; assumption. Qed.
Lemma refines_shot : forall mk q st k now t,
  abs_conn (ks_conn st) = t -> inv_conn (ks_conn st) -> refines (ret_act TC_ACT_SHOT mk q st) k now (Drop, t).
Proof. intros. split; [reflexivity|]. split; assumption. Qed.

Definition rec_of_cs (s : cstate) : frec :=
  mk_frec (mk_dec (cs_out s) (cs_mark s) (cs_must s)) (cs_dscp s) (cs_mac s) (cs_pname s) (cs_pid s).
Lemma retrieve_conn : forall s he now, (cs_has s =? 0) = false -> go_retrieve_rec (Some s) he now = Some (rec_of_cs s).
Proof. intros s he now H. unfold go_retrieve_rec. rewrite H. reflexivity. Qed.
Lemma retrieve_hand : forall now r, 0 < now ->
  go_retrieve_rec None (Some (mk_he now r)) now =
  Some (mk_frec (mk_dec (rr_out r) (rr_mark r) (rr_must r)) (rr_dscp r) (rr_mac r) (rr_pname r) (rr_pid r)).
Proof.
  intros now r H. unfold go_retrieve_rec, routing_handoff_expired. cbn [he_last he_res].
  assert (now =? 0 = false) as -> by (apply N.eqb_neq; lia).
  rewrite N.leb_refl. reflexivity.
Qed.

Lemma refines_redirect : forall mk peer l q conn hand k he now rec t,
  go_retrieve_rec (tab_get conn k) (Some he) now = Some rec ->
  abs_conn conn = t -> inv_conn conn ->
  refines (mk_hres TC_ACT_REDIRECT mk (Some (TPROXY_MARK, l)) peer q (mk_ks conn (tab_set hand k he))) k now
          (ToDae peer l rec, t).
Proof.
  intros mk peer l q conn hand k he now rec t Hr Ha Hi. split; [|split; assumption].
  unfold observe. cbn [h_act h_cb h_peer h_st].
  change (TC_ACT_REDIRECT =? TC_ACT_SHOT) with false. change (TC_ACT_REDIRECT =? TC_ACT_REDIRECT) with true. cbv iota.
  unfold go_retrieve. cbn [ks_conn ks_hand]. rewrite tab_get_set_eq, Hr. reflexivity.
Qed.

Lemma alive_eq : forall e o l4 d, group_alive e o (l4 =? IPPROTO_UDP) d = wan_outbound_is_alive e o l4 d.
Proof.
  intros e o l4 d. unfold group_alive, wan_outbound_is_alive. destruct (d =? 53); [reflexivity|].
  cbv zeta. unfold CONNECTIVITY_ENTRIES.
  assert (o * 6 + (if l4 =? IPPROTO_UDP then 4 else 0) + (if e_v4 e then 0 else 1) =
          o * 6 + (if l4 =? IPPROTO_UDP then 2 else 0) * 2 + (if e_v4 e then 0 else 1)) as ->
    by (destruct (l4 =? IPPROTO_UDP); lia).
  reflexivity.
Qed.

Lemma lan_verdict_eq : forall P e p o m mu r,
  lan_verdict P e p (mk_dec o m mu) r =
  if o =? OUTBOUND_DIRECT then Pass (Some m)
  else if o =? OUTBOUND_BLOCK then Drop
  else if negb (wan_outbound_is_alive e o (k_proto (p_key p)) (k_dport (p_key p))) then Drop
  else ToDae (P_peer P) (p_listener p) r.
Proof. intros. unfold lan_verdict. cbn [d_out d_mark]. rewrite alive_eq. reflexivity. Qed.

Definition lan_tail (P : param) (e : env) (pk : ppkt) (o m mu dscp : N) (q : option rquery) (st st' : kstate) : hres :=
  if o =? OUTBOUND_DIRECT then ret_act TC_ACT_OK (Some m) q st
  else if o =? OUTBOUND_BLOCK then ret_act TC_ACT_SHOT None q st
  else if negb (wan_outbound_is_alive e o (pp_l4 pk) (k_dport (pp_key pk))) then ret_act TC_ACT_SHOT None q st
  else redirect_lan P e pk (o, m, mu, dscp) None q st'.

Lemma lan_tail_refines : forall P e pk p o m mu dscp q st st' rec t t',
  k_proto (p_key p) = pp_l4 pk -> p_key p = pp_key pk -> p_listener p = pp_listener pk ->
  abs_conn (ks_conn st) = t -> inv_conn (ks_conn st) -> abs_conn (ks_conn st') = t' -> inv_conn (ks_conn st') ->
  go_retrieve_rec (tab_get (ks_conn st') (pp_key pk))
                  (Some (mk_he (e_now e) (mk_rr m mu (pp_hsource pk) o 0 0 dscp))) (e_now e) = Some rec ->
  refines (lan_tail P e pk o m mu dscp q st st') (pp_key pk) (e_now e)
          (let v := lan_verdict P e p (mk_dec o m mu) rec in (v, match v with ToDae _ _ _ => t' | _ => t end)).
Proof.
  intros P e pk p o m mu dscp q st st' rec t t' Hpr Hk Hl Ha Hi Ha' Hi' Hr.
  cbv zeta. rewrite lan_verdict_eq, Hpr, Hk, Hl. unfold lan_tail.
  destruct (o =? OUTBOUND_DIRECT); [apply refines_ok; assumption|].
  destruct (o =? OUTBOUND_BLOCK); [apply refines_shot; assumption|].
  destruct (negb (wan_outbound_is_alive e o (pp_l4 pk) (k_dport (pp_key pk)))); [apply refines_shot; assumption|].
  unfold redirect_lan. apply refines_redirect; assumption.
Qed.

Lemma lan_tail_refines_same : forall P e pk p o m mu dscp q st rec t,
  k_proto (p_key p) = pp_l4 pk -> p_key p = pp_key pk -> p_listener p = pp_listener pk ->
  abs_conn (ks_conn st) = t -> inv_conn (ks_conn st) ->
  go_retrieve_rec (tab_get (ks_conn st) (pp_key pk))
                  (Some (mk_he (e_now e) (mk_rr m mu (pp_hsource pk) o 0 0 dscp))) (e_now e) = Some rec ->
  refines (lan_tail P e pk o m mu dscp q st st) (pp_key pk) (e_now e) (lan_verdict P e p (mk_dec o m mu) rec, t).
Proof.
  intros P e pk p o m mu dscp q st rec t Hpr Hk Hl Ha Hi Hr.
  pose proof (lan_tail_refines P e pk p o m mu dscp q st st rec t t Hpr Hk Hl Ha Hi Ha Hi Hr) as H.
  cbv zeta in H. destruct (lan_verdict P e p (mk_dec o m mu) rec); exact H.
Qed.
