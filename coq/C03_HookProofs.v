(* C03 — the hook models refine the executable specification. *)
From Coq Require Import List NArith ZArith Bool Lia.
From Dae Require Import C03_Spec C03_Model.
From Dae.gen Require Import C03_Consts.
From Coq Require Import ZifyBool ZifyN ZifyNat.
Import ListNotations.
Open Scope N_scope.

(* ---------------------------------------------------------------------------------------------- *)
(* 1. association maps                                                                             *)
(* ---------------------------------------------------------------------------------------------- *)
Lemma hp_fkey_eqb_refl : forall k, fkey_eqb k k = true.
Proof. intro k. unfold fkey_eqb. rewrite !N.eqb_refl. reflexivity. Qed.

Lemma fkey_eqb_eq : forall a b, fkey_eqb a b = true <-> a = b.
Proof.
  intros [a1 a2 a3 a4 a5] [b1 b2 b3 b4 b5]. unfold fkey_eqb. cbn [k_sip k_dip k_sport k_dport k_proto].
  rewrite !andb_true_iff, !N.eqb_eq. split.
  - intros [[[[-> ->] ->] ->] ->]. reflexivity.
  - intros H. injection H as -> -> -> -> ->. auto.
Qed.

Section Tab.
  Context {V : Type}.
  Implicit Types (m : list (fkey * V)) (k : fkey) (v : V).

  Lemma tab_get_set_eq : forall m k v, tab_get (tab_set m k v) k = Some v.
  Proof.
    intros m k v. induction m as [| [a w] r IH]; cbn [tab_set tab_get].
    - rewrite hp_fkey_eqb_refl. reflexivity.
    - destruct (fkey_eqb a k) eqn:E; cbn [tab_get]; rewrite E; [reflexivity | exact IH].
  Qed.

  Lemma tab_get_set_other : forall m k k' v, fkey_eqb k k' = false -> tab_get (tab_set m k v) k' = tab_get m k'.
  Proof.
    intros m k k' v Hne. induction m as [| [a w] r IH]; cbn [tab_set tab_get].
    - rewrite Hne. reflexivity.
    - destruct (fkey_eqb a k) eqn:E; cbn [tab_get].
      + apply fkey_eqb_eq in E. subst a. rewrite Hne. reflexivity.
      + destruct (fkey_eqb a k'); [reflexivity | exact IH].
  Qed.

  Lemma tab_get_del_eq : forall m k, tab_get (tab_del m k) k = None.
  Proof.
    intros m k. induction m as [| [a w] r IH]; cbn [tab_del tab_get]; [reflexivity|].
    destruct (fkey_eqb a k) eqn:E; [exact IH|]. cbn [tab_get]. rewrite E. exact IH.
  Qed.

  Lemma tab_get_del_none : forall m k k', tab_get m k' = None -> tab_get (tab_del m k) k' = None.
  Proof.
    intros m k k'. induction m as [| [a w] r IH]; cbn [tab_del tab_get]; [reflexivity|].
    destruct (fkey_eqb a k') eqn:E'; [discriminate|]. intro H.
    destruct (fkey_eqb a k); [exact (IH H)|]. cbn [tab_get]. rewrite E'. exact (IH H).
  Qed.

  Lemma tab_del_none : forall m k, tab_get m k = None -> tab_del m k = m.
  Proof.
    intros m k. induction m as [| [a w] r IH]; cbn [tab_del tab_get]; [reflexivity|].
    destruct (fkey_eqb a k); [discriminate|]. intro H. rewrite (IH H). reflexivity.
  Qed.
End Tab.

Lemma get_abs : forall m k, tab_get (abs_conn m) k = option_map abs_cs (tab_get m k).
Proof.
  intros m k. unfold abs_conn. induction m as [| [a v] r IH]; cbn [map tab_get fst snd option_map]; [reflexivity|].
  destruct (fkey_eqb a k); [reflexivity | exact IH].
Qed.
Lemma set_abs : forall m k v, abs_conn (tab_set m k v) = tab_set (abs_conn m) k (abs_cs v).
Proof.
  intros m k v. unfold abs_conn. induction m as [| [a w] r IH]; cbn [map tab_set fst snd]; [reflexivity|].
  destruct (fkey_eqb a k); cbn [map fst snd]; [reflexivity | rewrite IH; reflexivity].
Qed.
Lemma del_abs : forall m k, abs_conn (tab_del m k) = tab_del (abs_conn m) k.
Proof.
  intros m k. unfold abs_conn. induction m as [| [a w] r IH]; cbn [map tab_del fst snd]; [reflexivity|].
  destruct (fkey_eqb a k); cbn [map fst snd]; [exact IH | rewrite IH; reflexivity].
Qed.

(* the invariant, on the connection map alone *)
Definition inv_conn (m : list (fkey * cstate)) : Prop :=
  forall k, is_short_lived_udp_traffic k = true -> tab_get m k = None.
Lemma inv_is_inv_conn : forall st, inv st <-> inv_conn (ks_conn st).
Proof. intro st. unfold inv, inv_conn. tauto. Qed.
Lemma inv_conn_set : forall m k v, inv_conn m -> is_short_lived_udp_traffic k = false -> inv_conn (tab_set m k v).
Proof.
  intros m k v Hi Hk k' Hk'. rewrite tab_get_set_other; [exact (Hi k' Hk')|].
  destruct (fkey_eqb k k') eqn:E; [|reflexivity]. apply fkey_eqb_eq in E. subst k'. congruence.
Qed.
Lemma inv_conn_del : forall m k, inv_conn m -> inv_conn (tab_del m k).
Proof. intros m k Hi k' Hk'. apply tab_get_del_none. exact (Hi k' Hk'). Qed.

(* ---------------------------------------------------------------------------------------------- *)
(* 2. the tracking functions                                                                       *)
(* ---------------------------------------------------------------------------------------------- *)
Lemma tcp_expired_abs : forall s now, tcp_expired (abs_cs s) now = tcp_conn_state_expired s now.
Proof. reflexivity. Qed.
Lemma udp_expired_abs : forall s now, udp_expired (abs_cs s) now = udp_conn_state_expired s now.
Proof. reflexivity. Qed.
Lemma refreshed_abs : forall s now,
  refreshed (abs_cs s) now = abs_cs (if gt (sub64 now (cs_last s)) DOC_REFRESH_NS then set_last s now else s).
Proof.
  intros s now. unfold refreshed.
  change (exceeds (age now (fe_last (abs_cs s))) DOC_REFRESH_NS) with (gt (sub64 now (cs_last s)) DOC_REFRESH_NS).
  destruct (gt (sub64 now (cs_last s)) DOC_REFRESH_NS); reflexivity.
Qed.
Lemma closing_abs : forall s, closing (abs_cs s) = abs_cs (set_state s TCP_STATE_CLOSING).
Proof. reflexivity. Qed.
Lemma touched_abs : forall s now, touched_now (abs_cs s) now = abs_cs (set_last s now).
Proof. reflexivity. Qed.
Lemma fresh_abs : forall w now a, a_rt a = None -> abs_cs (new_state w now a) = fresh_entry w now (a_dscp a) (a_pid a).
Proof. intros w now a H. unfold new_state. rewrite H. reflexivity. Qed.

Lemma mark_tcp_new : forall m k w fin a now,
  mark_tcp_seen m k w true fin a now = (Some (new_state w now a), tab_set (tab_del m k) k (new_state w now a)).
Proof.
  intros. unfold mark_tcp_seen. destruct (tab_get m k) eqn:E; [reflexivity|].
  rewrite (tab_del_none _ _ E). reflexivity.
Qed.

Definition tcp_touch (s : cstate) (fin : bool) (now : N) : cstate :=
  let s1 := if gt (sub64 now (cs_last s)) DOC_REFRESH_NS then set_last s now else s in
  if fin then set_state s1 TCP_STATE_CLOSING else s1.

Lemma mark_tcp_old : forall m k w fin a now, a_rt a = None ->
  mark_tcp_seen m k w false fin a now =
  match tab_get m k with
  | None => (None, m)
  | Some s => if tcp_conn_state_expired s now then (None, tab_del m k)
              else (Some (tcp_touch s fin now), tab_set m k (tcp_touch s fin now))
  end.
Proof.
  intros m k w fin a now Ha. unfold mark_tcp_seen, apply_routing. rewrite Ha.
  destruct (tab_get m k) as [s|]; [|reflexivity].
  destruct (tcp_conn_state_expired s now); reflexivity.
Qed.

Lemma tcp_track_abs : forall m k p w now a,
  a_rt a = None ->
  tcp_track (abs_conn m) k p w now (a_dscp a) (a_pid a) =
  (option_map abs_cs (fst (mark_tcp_seen m k w (p_new p) (p_finrst p) a now)),
   abs_conn (snd (mark_tcp_seen m k w (p_new p) (p_finrst p) a now))).
Proof.
  intros m k p w now a Ha. unfold tcp_track. destruct (p_new p).
  - rewrite mark_tcp_new. cbn [fst snd option_map]. rewrite set_abs, del_abs, (fresh_abs _ _ _ Ha). reflexivity.
  - rewrite (mark_tcp_old _ _ _ _ _ _ Ha), get_abs. destruct (tab_get m k) as [s|]; cbn [option_map fst snd]; [|reflexivity].
    rewrite tcp_expired_abs. destruct (tcp_conn_state_expired s now); cbn [option_map fst snd].
    + rewrite del_abs. reflexivity.
    + rewrite refreshed_abs, set_abs. unfold tcp_touch.
      destruct (p_finrst p); [rewrite closing_abs|]; reflexivity.
Qed.

Definition udp_touch (s : cstate) (now : N) : cstate :=
  if gt (sub64 now (cs_last s)) DOC_REFRESH_NS then set_last s now else s.

Lemma mark_udp_eq : forall m k w a now, a_rt a = None ->
  mark_udp_seen m k w a now =
  match tab_get m k with
  | Some s => if udp_conn_state_expired s now
              then (new_state w now a, tab_set (tab_del m k) k (new_state w now a))
              else (udp_touch s now, tab_set m k (udp_touch s now))
  | None => (new_state w now a, tab_set m k (new_state w now a))
  end.
Proof.
  intros m k w a now Ha. unfold mark_udp_seen, apply_routing. rewrite Ha.
  destruct (tab_get m k) as [s|]; [|reflexivity].
  destruct (udp_conn_state_expired s now); reflexivity.
Qed.

Lemma udp_track_abs : forall m k w now a,
  a_rt a = None -> a_pid a = 0 ->
  udp_track (abs_conn m) k w now (a_dscp a) =
  (abs_cs (fst (mark_udp_seen m k w a now)), abs_conn (snd (mark_udp_seen m k w a now))).
Proof.
  intros m k w now a Ha Hp. unfold udp_track. rewrite (mark_udp_eq _ _ _ _ _ Ha), get_abs.
  destruct (tab_get m k) as [s|]; cbn [option_map fst snd].
  - rewrite udp_expired_abs. destruct (udp_conn_state_expired s now); cbn [fst snd].
    + rewrite set_abs, del_abs, (fresh_abs _ _ _ Ha), Hp. reflexivity.
    + rewrite refreshed_abs, set_abs. reflexivity.
  - rewrite set_abs, (fresh_abs _ _ _ Ha), Hp. reflexivity.
Qed.

(* the entry returned is the entry stored *)
Lemma mark_tcp_get : forall m k w new fin a now s m1,
  mark_tcp_seen m k w new fin a now = (Some s, m1) -> tab_get m1 k = Some s.
Proof.
  intros m k w new fin a now s m1. unfold mark_tcp_seen.
  destruct (tab_get m k) as [s0|]; [destruct new; [| destruct (tcp_conn_state_expired s0 now)]| destruct new];
    cbn [fst snd]; intro H; inversion H; subst; try apply tab_get_set_eq; try discriminate.
Qed.
Lemma mark_udp_get : forall m k w a now us m1,
  mark_udp_seen m k w a now = (us, m1) -> tab_get m1 k = Some us.
Proof.
  intros m k w a now us m1. unfold mark_udp_seen.
  destruct (tab_get m k) as [s0|]; [destruct (udp_conn_state_expired s0 now)|];
    intro H; inversion H; subst; apply tab_get_set_eq.
Qed.
Lemma mark_tcp_inv : forall m k w new fin a now,
  inv_conn m -> is_short_lived_udp_traffic k = false -> inv_conn (snd (mark_tcp_seen m k w new fin a now)).
Proof.
  intros m k w new fin a now Hi Hk. unfold mark_tcp_seen.
  destruct (tab_get m k) as [s0|]; [destruct new; [| destruct (tcp_conn_state_expired s0 now)]| destruct new];
    cbn [fst snd]; auto using inv_conn_set, inv_conn_del.
Qed.
Lemma mark_udp_inv : forall m k w a now,
  inv_conn m -> is_short_lived_udp_traffic k = false -> inv_conn (snd (mark_udp_seen m k w a now)).
Proof.
  intros m k w a now Hi Hk. unfold mark_udp_seen.
  destruct (tab_get m k) as [s0|]; [destruct (udp_conn_state_expired s0 now)|];
    cbn [fst snd]; auto using inv_conn_set, inv_conn_del.
Qed.

(* ---------------------------------------------------------------------------------------------- *)
(* 3. observation                                                                                  *)
(* ---------------------------------------------------------------------------------------------- *)
Definition refines (h : hres) (k : fkey) (now : N) (s : verdict * ftab) : Prop :=
  observe h k now = fst s /\ abs_conn (ks_conn (h_st h)) = snd s /\ inv (h_st h).

Lemma refines_ok : forall mk q st k now t,
  abs_conn (ks_conn st) = t -> inv_conn (ks_conn st) -> refines (ret_act TC_ACT_OK mk q st) k now (Pass mk, t).
Proof. intros. split; [reflexivity|]. split; assumption. Qed.
Lemma refines_shot : forall mk q st k now t,
  abs_conn (ks_conn st) = t -> inv_conn (ks_conn st) -> refines (ret_act TC_ACT_SHOT mk q st) k now (Drop, t).
Proof. intros. split; [reflexivity|]. split; assumption. Qed.

Definition rec_of_cs (s : cstate) : frec :=
  mk_frec (mk_dec (cs_out s) (cs_mark s) (cs_must s)) (cs_dscp s) (cs_mac s) (cs_pname s) (cs_pid s).
Lemma retrieve_conn : forall s he now, (cs_has s =? 0) = false -> go_retrieve_rec (Some s) he now = Some (rec_of_cs s).
Proof. intros s he now H. unfold go_retrieve_rec. rewrite H. reflexivity. Qed.
Lemma retrieve_hand : forall now r, 0 < now ->
  go_retrieve_rec None (Some (mk_he now r)) now =
  Some (mk_frec (mk_dec (rr_out r) (rr_mark r) (rr_must r)) (rr_dscp r) (rr_mac r) (rr_pname r) (rr_pid r)).
Proof.
  intros now r H. unfold go_retrieve_rec, routing_handoff_expired. cbn [he_last he_res].
  assert (now =? 0 = false) as -> by (apply N.eqb_neq; lia).
  rewrite N.leb_refl. reflexivity.
Qed.

Lemma refines_redirect : forall mk peer l q conn hand k he now rec t,
  go_retrieve_rec (tab_get conn k) (Some he) now = Some rec ->
  abs_conn conn = t -> inv_conn conn ->
  refines (mk_hres TC_ACT_REDIRECT mk (Some (TPROXY_MARK, l)) peer q (mk_ks conn (tab_set hand k he))) k now
          (ToDae peer l rec, t).
Proof.
  intros mk peer l q conn hand k he now rec t Hr Ha Hi. split; [|split; assumption].
  unfold observe. cbn [h_act h_cb h_peer h_st].
  change (TC_ACT_REDIRECT =? TC_ACT_SHOT) with false. change (TC_ACT_REDIRECT =? TC_ACT_REDIRECT) with true. cbv iota.
  unfold go_retrieve. cbn [ks_conn ks_hand]. rewrite tab_get_set_eq, Hr. reflexivity.
Qed.

Lemma alive_eq : forall e o l4 d, group_alive e o (l4 =? IPPROTO_UDP) d = wan_outbound_is_alive e o l4 d.
Proof.
  intros e o l4 d. unfold group_alive, wan_outbound_is_alive. destruct (d =? 53); [reflexivity|].
  cbv zeta. unfold CONNECTIVITY_ENTRIES.
  assert (o * 6 + (if l4 =? IPPROTO_UDP then 4 else 0) + (if e_v4 e then 0 else 1) =
          o * 6 + (if l4 =? IPPROTO_UDP then 2 else 0) * 2 + (if e_v4 e then 0 else 1)) as ->
    by (destruct (l4 =? IPPROTO_UDP); lia).
  reflexivity.
Qed.

Lemma lan_verdict_eq : forall P e p o m mu r,
  lan_verdict P e p (mk_dec o m mu) r =
  if o =? OUTBOUND_DIRECT then Pass (Some m)
  else if o =? OUTBOUND_BLOCK then Drop
  else if negb (wan_outbound_is_alive e o (k_proto (p_key p)) (k_dport (p_key p))) then Drop
  else ToDae (P_peer P) (p_listener p) r.
Proof. intros. unfold lan_verdict. cbn [d_out d_mark]. rewrite alive_eq. reflexivity. Qed.

Definition lan_tail (P : param) (e : env) (pk : ppkt) (o m mu dscp : N) (q : option rquery) (st st' : kstate) : hres :=
  if o =? OUTBOUND_DIRECT then ret_act TC_ACT_OK (Some m) q st
  else if o =? OUTBOUND_BLOCK then ret_act TC_ACT_SHOT None q st
  else if negb (wan_outbound_is_alive e o (pp_l4 pk) (k_dport (pp_key pk))) then ret_act TC_ACT_SHOT None q st
  else redirect_lan P e pk (o, m, mu, dscp) None q st'.

Lemma lan_tail_refines : forall P e pk p o m mu dscp q st st' rec t t',
  k_proto (p_key p) = pp_l4 pk -> p_key p = pp_key pk -> p_listener p = pp_listener pk ->
  abs_conn (ks_conn st) = t -> inv_conn (ks_conn st) -> abs_conn (ks_conn st') = t' -> inv_conn (ks_conn st') ->
  go_retrieve_rec (tab_get (ks_conn st') (pp_key pk))
                  (Some (mk_he (e_now e) (mk_rr m mu (pp_hsource pk) o 0 0 dscp))) (e_now e) = Some rec ->
  refines (lan_tail P e pk o m mu dscp q st st') (pp_key pk) (e_now e)
          (let v := lan_verdict P e p (mk_dec o m mu) rec in (v, match v with ToDae _ _ _ => t' | _ => t end)).
Proof.
  intros P e pk p o m mu dscp q st st' rec t t' Hpr Hk Hl Ha Hi Ha' Hi' Hr.
  cbv zeta. rewrite lan_verdict_eq, Hpr, Hk, Hl. unfold lan_tail.
  destruct (o =? OUTBOUND_DIRECT); [apply refines_ok; assumption|].
  destruct (o =? OUTBOUND_BLOCK); [apply refines_shot; assumption|].
  destruct (negb (wan_outbound_is_alive e o (pp_l4 pk) (k_dport (pp_key pk)))); [apply refines_shot; assumption|].
  unfold redirect_lan. apply refines_redirect; assumption.
Qed.

Lemma lan_tail_refines_same : forall P e pk p o m mu dscp q st rec t,
  k_proto (p_key p) = pp_l4 pk -> p_key p = pp_key pk -> p_listener p = pp_listener pk ->
  abs_conn (ks_conn st) = t -> inv_conn (ks_conn st) ->
  go_retrieve_rec (tab_get (ks_conn st) (pp_key pk))
                  (Some (mk_he (e_now e) (mk_rr m mu (pp_hsource pk) o 0 0 dscp))) (e_now e) = Some rec ->
  refines (lan_tail P e pk o m mu dscp q st st) (pp_key pk) (e_now e) (lan_verdict P e p (mk_dec o m mu) rec, t).
Proof.
  intros P e pk p o m mu dscp q st rec t Hpr Hk Hl Ha Hi Hr.
  pose proof (lan_tail_refines P e pk p o m mu dscp q st st rec t t Hpr Hk Hl Ha Hi Ha Hi Hr) as H.
  cbv zeta in H. destruct (lan_verdict P e p (mk_dec o m mu) rec); exact H.
Qed.

(* ---------------------------------------------------------------------------------------------- *)
(* 4. LAN ingress                                                                                  *)
(* ---------------------------------------------------------------------------------------------- *)
Definition tcp_pkt (pk : ppkt) : packet :=
  mk_packet PTcp (pp_key pk) (pp_dscp pk) (pp_hsource pk) (t_syn (pp_tcp pk)) (t_ack (pp_tcp pk)) (t_fin (pp_tcp pk)) (t_rst (pp_tcp pk)).
Definition udp_pkt (pk : ppkt) : packet :=
  mk_packet PUdp (pp_key pk) (pp_dscp pk) (pp_hsource pk) false false false false.


Lemma tcp_track_old_args : forall t k p w now d pid,
  p_new p = false -> tcp_track t k p w now d pid = tcp_track t k p w now 0 0.
Proof. intros t k p w now d pid H. unfold tcp_track. rewrite H. reflexivity. Qed.

Lemma lan_tcp_old : forall P e st pk,
  inv_conn (ks_conn st) ->
  pp_l4 pk = IPPROTO_TCP -> k_proto (pp_key pk) = IPPROTO_TCP ->
  tcp_flags_new (pp_tcp pk) = false -> pp_listener pk = 0 ->
  refines (lan_ingress P e st (0%Z, Some pk)) (pp_key pk) (e_now e)
          (spec_lan_ingress P e (abs_conn (ks_conn st)) (tcp_pkt pk)).
Proof.
  intros P e st pk Hi Hl4 Hkp Hnew Hlis.
  assert (Ht : (pp_l4 pk =? IPPROTO_TCP) = true) by (rewrite Hl4; reflexivity).
  assert (Hpn : p_new (tcp_pkt pk) = false) by exact Hnew.
  assert (Hsl : is_short_lived_udp_traffic (pp_key pk) = false) by (unfold is_short_lived_udp_traffic; rewrite Hkp; reflexivity).
  unfold lan_ingress. cbn [Z.eqb negb]. rewrite Ht, Hnew. cbn [negb andb].
  unfold spec_lan_ingress. cbn [p_class tcp_pkt].
  rewrite Hpn, (tcp_track_old_args _ _ _ _ _ _ _ Hpn), (tcp_track_abs _ _ _ _ _ no_args eq_refl), Hpn.
  change (p_finrst (tcp_pkt pk)) with (tcp_flags_finrst (pp_tcp pk)).
  change (p_key (tcp_pkt pk)) with (pp_key pk).
  pose proof (mark_tcp_get (ks_conn st) (pp_key pk) false false (tcp_flags_finrst (pp_tcp pk)) no_args (e_now e)) as Hget.
  pose proof (mark_tcp_inv (ks_conn st) (pp_key pk) false false (tcp_flags_finrst (pp_tcp pk)) no_args (e_now e) Hi Hsl) as Hinv.
  destruct (mark_tcp_seen (ks_conn st) (pp_key pk) false false (tcp_flags_finrst (pp_tcp pk)) no_args (e_now e)) as [ts conn1].
  cbn [fst snd option_map] in *.
  destruct ts as [s|]; cbn [option_map]; [| apply refines_ok; [reflexivity | exact Hinv]].
  specialize (Hget s conn1 eq_refl).
  change (fe_dec (abs_cs s)) with (if cs_has s =? 0 then None else Some (mk_dec (cs_out s) (cs_mark s) (cs_must s))).
  destruct (cs_has s =? 0) eqn:Hhas; [apply refines_ok; [reflexivity | exact Hinv]|].
  apply (lan_tail_refines_same P e pk (tcp_pkt pk)); cbn [ks_conn]; try assumption; try reflexivity.
  - rewrite Hl4; exact Hkp.
  - unfold p_listener; cbn [p_class tcp_pkt]; rewrite Hpn, Hlis; reflexivity.
  - rewrite Hget; apply retrieve_conn; exact Hhas.
Qed.


(* the routing step of do_tproxy_lan_ingress (a literal copy of the model text after step1) *)
Definition lan_local (P : param) (e : env) (pk : ppkt) : bool :=
  if pp_l4 pk =? IPPROTO_TCP then
    if negb (t_syn (pp_tcp pk) && negb (t_ack (pp_tcp pk))) then
      match e_sock e with
      | Some (smark, sstate) => negb (bpf_sock_is_dae_socket P smark) && (sstate =? 10)
      | None => false
      end
    else false
  else match e_sock e with
       | Some (smark, _) => negb (bpf_sock_is_dae_socket P smark)
       | None => false
       end.
Definition lan_conn2 (pk : ppkt) (cur : option cstate) (conn1 : list (fkey * cstate)) (outbound mark must : N) :=
  if (pp_l4 pk =? IPPROTO_UDP) && is_short_lived_udp_traffic (pp_key pk) then conn1
  else match cur with
       | Some s =>
           tab_set conn1 (pp_key pk) (mk_cs (cs_wan_in s) (cs_state s) (cs_last s) mark outbound must (pp_dscp pk) 1
                                  (pp_hsource pk) (cs_pname s) (cs_pid s))
       | None => conn1
       end.
Definition lan_route (P : param) (e : env) (st : kstate) (pk : ppkt) (cur : option cstate) (conn1 : list (fkey * cstate)) : hres :=
  let st1 := mk_ks conn1 (ks_hand st) in
  if lan_local P e pk then ret_act TC_ACT_OK None None st1
  else
    let q := rquery_of e pk false 0 in
    let w := e_route e q in
    if (w <? 0)%Z then ret_act TC_ACT_SHOT None (Some q) st1
    else
      let '(outbound, mark, must) := unpack w in
      let st2 := mk_ks (lan_conn2 pk cur conn1 outbound mark must) (ks_hand st) in
      if (pp_l4 pk =? IPPROTO_TCP) && (match cur with None => true | Some _ => false end) then
        if (outbound =? OUTBOUND_DIRECT) && (mark =? 0) then ret_act TC_ACT_OK (Some mark) (Some q) st2
        else ret_act TC_ACT_SHOT None (Some q) st2
      else lan_tail P e pk outbound mark must (pp_dscp pk) (Some q) st2 st2.

Lemma decide_unpack : forall w o m mu, (w <? 0)%Z = false -> unpack w = (o, m, mu) -> decide w = Some (mk_dec o m mu).
Proof.
  intros w o m mu Hw Hu.
  assert (H : decide w = Some (mk_dec (fst (fst (unpack w))) (snd (fst (unpack w))) (snd (unpack w))))
    by (unfold decide; rewrite Hw; reflexivity).
  rewrite H, Hu. reflexivity.
Qed.
Lemma decide_neg : forall w, (w <? 0)%Z = true -> decide w = None.
Proof. intros w Hw. unfold decide. rewrite Hw. reflexivity. Qed.

Lemma query_eq : forall e pk p wan,
  p_key p = pp_key pk -> p_dscp p = pp_dscp pk -> p_mac p = pp_hsource pk -> k_proto (pp_key pk) = pp_l4 pk ->
  query e p wan = rquery_of e pk wan (if wan then match e_proc e with Some (_, nm) => nm | None => 0 end else 0).
Proof. intros e pk p wan Hk Hd Hm Hp. unfold query, rquery_of. rewrite Hk, Hd, Hm, Hp. reflexivity. Qed.

Lemma lan_route_refines : forall P e st pk p cur conn1 (recf : decision -> frec) (t2f : decision -> ftab),
  p_key p = pp_key pk -> p_dscp p = pp_dscp pk -> p_mac p = pp_hsource pk -> k_proto (pp_key pk) = pp_l4 pk ->
  p_listener p = pp_listener pk ->
  (pp_l4 pk =? IPPROTO_TCP) && (match cur with None => true | Some _ => false end) = false ->
  inv_conn conn1 ->
  (forall o m mu,
     abs_conn (lan_conn2 pk cur conn1 o m mu) = t2f (mk_dec o m mu) /\ inv_conn (lan_conn2 pk cur conn1 o m mu) /\
     go_retrieve_rec (tab_get (lan_conn2 pk cur conn1 o m mu) (pp_key pk))
                     (Some (mk_he (e_now e) (mk_rr m mu (pp_hsource pk) o 0 0 (pp_dscp pk)))) (e_now e)
     = Some (recf (mk_dec o m mu))) ->
  refines (lan_route P e st pk cur conn1) (pp_key pk) (e_now e)
    (if lan_local P e pk then (Pass None, abs_conn conn1)
     else match decide (e_route e (query e p false)) with
          | None => (Drop, abs_conn conn1)
          | Some d => (lan_verdict P e p d (recf d), t2f d)
          end).
Proof.
  intros P e st pk p cur conn1 recf t2f Hk Hd Hm Hp Hl Hcur Hi H.
  unfold lan_route. cbv zeta.
  destruct (lan_local P e pk); [apply refines_ok; [reflexivity | exact Hi]|].
  rewrite (query_eq e pk p false Hk Hd Hm Hp).
  destruct (e_route e (rquery_of e pk false 0) <? 0)%Z eqn:Hw.
  - rewrite (decide_neg _ Hw). apply refines_shot; [reflexivity | exact Hi].
  - destruct (unpack (e_route e (rquery_of e pk false 0))) as [[o m] mu] eqn:Hu.
    rewrite (decide_unpack _ _ _ _ Hw Hu), Hcur.
    destruct (H o m mu) as (Ha & Hi2 & Hr).
    apply (lan_tail_refines_same P e pk p); cbn [ks_conn]; try assumption.
    rewrite Hk. exact Hp.
Qed.

Lemma lan_tcp_new : forall P e st pk,
  inv_conn (ks_conn st) ->
  pp_l4 pk = IPPROTO_TCP -> k_proto (pp_key pk) = IPPROTO_TCP ->
  tcp_flags_new (pp_tcp pk) = true -> pp_listener pk = IPPROTO_TCP ->
  refines (lan_ingress P e st (0%Z, Some pk)) (pp_key pk) (e_now e)
          (spec_lan_ingress P e (abs_conn (ks_conn st)) (tcp_pkt pk)).
Proof.
  intros P e st pk Hi Hl4 Hkp Hnew Hlis.
  assert (Ht : (pp_l4 pk =? IPPROTO_TCP) = true) by (rewrite Hl4; reflexivity).
  assert (Hpn : p_new (tcp_pkt pk) = true) by exact Hnew.
  assert (Hsl : is_short_lived_udp_traffic (pp_key pk) = false) by (unfold is_short_lived_udp_traffic; rewrite Hkp; reflexivity).
  assert (Heq : lan_ingress P e st (0%Z, Some pk) =
                lan_route P e st pk (fst (mark_tcp_seen (ks_conn st) (pp_key pk) false true (tcp_flags_finrst (pp_tcp pk)) (mk_args None None None (pp_dscp pk) 0) (e_now e)))
                                    (snd (mark_tcp_seen (ks_conn st) (pp_key pk) false true (tcp_flags_finrst (pp_tcp pk)) (mk_args None None None (pp_dscp pk) 0) (e_now e)))).
  { unfold lan_ingress. cbn [Z.eqb negb]. rewrite Ht, Hnew. cbn [negb andb].
    destruct (mark_tcp_seen (ks_conn st) (pp_key pk) false true (tcp_flags_finrst (pp_tcp pk)) (mk_args None None None (pp_dscp pk) 0) (e_now e)) as [ts conn1].
    unfold lan_route, lan_local, lan_conn2. rewrite Ht. reflexivity. }
  rewrite Heq. clear Heq.
  unfold spec_lan_ingress. cbn [p_class tcp_pkt].
  rewrite Hpn.
  rewrite (tcp_track_abs _ _ _ _ _ (mk_args None None None (pp_dscp pk) 0) eq_refl), Hpn.
  change (p_finrst (tcp_pkt pk)) with (tcp_flags_finrst (pp_tcp pk)).
  change (p_key (tcp_pkt pk)) with (pp_key pk). change (p_dscp (tcp_pkt pk)) with (pp_dscp pk).
  change (p_mac (tcp_pkt pk)) with (pp_hsource pk).
  rewrite mark_tcp_new. cbn [fst snd option_map].
  set (ns := new_state false (e_now e) (mk_args None None None (pp_dscp pk) 0)).
  set (conn1 := tab_set (tab_del (ks_conn st) (pp_key pk)) (pp_key pk) ns).
  assert (Hi1 : inv_conn conn1) by (apply inv_conn_set; [apply inv_conn_del; exact Hi | exact Hsl]).
  assert (Hloc : lan_local P e pk = false).
  { unfold lan_local. rewrite Ht. unfold tcp_flags_new in Hnew. rewrite Hnew. reflexivity. }
  pose proof (lan_route_refines P e st pk (tcp_pkt pk) (Some ns) conn1
                (fun d => rec_of (with_decision (abs_cs ns) d (pp_dscp pk) (pp_hsource pk) None) d)
                (fun d => tab_set (abs_conn conn1) (pp_key pk) (with_decision (abs_cs ns) d (pp_dscp pk) (pp_hsource pk) None))
                eq_refl eq_refl eq_refl) as H.
  rewrite Hloc in H. apply H; clear H.
  - rewrite Hl4; exact Hkp.
  - unfold p_listener; cbn [p_class tcp_pkt]; rewrite Hpn, Hlis; reflexivity.
  - rewrite Ht. reflexivity.
  - exact Hi1.
  - intros o m mu. unfold lan_conn2. rewrite Hl4. cbn [N.eqb IPPROTO_TCP IPPROTO_UDP Pos.eqb andb].
    split; [apply set_abs|]. split; [apply inv_conn_set; assumption|].
    rewrite tab_get_set_eq. apply retrieve_conn. reflexivity.
Qed.

Lemma lan_local_udp : forall P e pk, (pp_l4 pk =? IPPROTO_TCP) = false -> lan_local P e pk = local_service P e.
Proof.
  intros P e pk H. unfold lan_local, local_service. rewrite H.
  destruct (e_sock e) as [[a b]|]; [|reflexivity].
  unfold bpf_sock_is_dae_socket. destruct (P_sock_mark P =? 0); reflexivity.
Qed.

Lemma lan_udp_stateless : forall P e st pk,
  inv_conn (ks_conn st) -> 0 < e_now e ->
  pp_l4 pk = IPPROTO_UDP -> k_proto (pp_key pk) = IPPROTO_UDP ->
  is_short_lived_udp_traffic (pp_key pk) = true -> pp_listener pk = IPPROTO_UDP ->
  refines (lan_ingress P e st (0%Z, Some pk)) (pp_key pk) (e_now e)
          (spec_lan_ingress P e (abs_conn (ks_conn st)) (udp_pkt pk)).
Proof.
  intros P e st pk Hi Hnow Hl4 Hkp Hsl Hlis.
  assert (Ht : (pp_l4 pk =? IPPROTO_TCP) = false) by (rewrite Hl4; reflexivity).
  assert (Heq : lan_ingress P e st (0%Z, Some pk) = lan_route P e st pk None (ks_conn st)).
  { unfold lan_ingress, lan_route, lan_local, lan_conn2. cbn [Z.eqb negb]. rewrite Ht, Hsl. reflexivity. }
  rewrite Heq. clear Heq.
  unfold spec_lan_ingress. cbn [p_class udp_pkt].
  change (p_stateless (udp_pkt pk)) with (is_short_lived_udp_traffic (pp_key pk)). rewrite Hsl.
  rewrite <- (lan_local_udp P e pk Ht).
  change (p_dscp (udp_pkt pk)) with (pp_dscp pk). change (p_mac (udp_pkt pk)) with (pp_hsource pk).
  apply (lan_route_refines P e st pk (udp_pkt pk) None (ks_conn st)
                (fun d => mk_frec d (pp_dscp pk) (pp_hsource pk) 0 0) (fun _ => abs_conn (ks_conn st))); try reflexivity.
  - rewrite Hl4; exact Hkp.
  - rewrite Hlis; reflexivity.
  - rewrite Ht; reflexivity.
  - exact Hi.
  - intros o m mu. unfold lan_conn2. rewrite Hl4, Hsl. cbn [N.eqb IPPROTO_UDP Pos.eqb andb].
    split; [reflexivity|]. split; [exact Hi|].
    rewrite (Hi _ Hsl). apply retrieve_hand. exact Hnow.
Qed.

Lemma lan_udp_tracked : forall P e st pk,
  inv_conn (ks_conn st) ->
  pp_l4 pk = IPPROTO_UDP -> k_proto (pp_key pk) = IPPROTO_UDP ->
  is_short_lived_udp_traffic (pp_key pk) = false -> pp_listener pk = IPPROTO_UDP ->
  refines (lan_ingress P e st (0%Z, Some pk)) (pp_key pk) (e_now e)
          (spec_lan_ingress P e (abs_conn (ks_conn st)) (udp_pkt pk)).
Proof.
  intros P e st pk Hi Hl4 Hkp Hsl Hlis.
  assert (Ht : (pp_l4 pk =? IPPROTO_TCP) = false) by (rewrite Hl4; reflexivity).
  unfold spec_lan_ingress. cbn [p_class udp_pkt].
  change (p_stateless (udp_pkt pk)) with (is_short_lived_udp_traffic (pp_key pk)). rewrite Hsl.
  change (p_key (udp_pkt pk)) with (pp_key pk).
  change (p_dscp (udp_pkt pk)) with (pp_dscp pk). change (p_mac (udp_pkt pk)) with (pp_hsource pk).
  rewrite (udp_track_abs _ _ _ _ (mk_args None None None (pp_dscp pk) 0) eq_refl eq_refl).
  pose proof (mark_udp_get (ks_conn st) (pp_key pk) false (mk_args None None None (pp_dscp pk) 0) (e_now e)) as Hget.
  pose proof (mark_udp_inv (ks_conn st) (pp_key pk) false (mk_args None None None (pp_dscp pk) 0) (e_now e) Hi Hsl) as Hinv.
  assert (Heq : lan_ingress P e st (0%Z, Some pk) =
    let us := fst (mark_udp_seen (ks_conn st) (pp_key pk) false (mk_args None None None (pp_dscp pk) 0) (e_now e)) in
    let conn1 := snd (mark_udp_seen (ks_conn st) (pp_key pk) false (mk_args None None None (pp_dscp pk) 0) (e_now e)) in
    let st1 := mk_ks conn1 (ks_hand st) in
    if cs_wan_in us then ret_act TC_ACT_OK None None st1
    else if negb (cs_has us =? 0)
         then lan_tail P e pk (cs_out us) (cs_mark us) (cs_must us) (cs_dscp us) None st1
                       (mk_ks (tab_set conn1 (pp_key pk) (set_last us (e_now e))) (ks_hand st))
         else lan_route P e st pk (Some us) conn1).
  { unfold lan_ingress. cbn [Z.eqb negb]. rewrite Ht, Hsl. cbn [negb andb].
    destruct (mark_udp_seen (ks_conn st) (pp_key pk) false (mk_args None None None (pp_dscp pk) 0) (e_now e)) as [us conn1].
    cbn [fst snd]. unfold lan_tail.
    destruct (cs_wan_in us); [reflexivity|].
    destruct (cs_has us =? 0); cbn [negb].
    - unfold lan_route, lan_local, lan_conn2. rewrite Ht, ?Hsl. reflexivity.
    - destruct (cs_out us =? OUTBOUND_DIRECT); [reflexivity|].
      destruct (cs_out us =? OUTBOUND_BLOCK); [reflexivity|].
      destruct (negb (wan_outbound_is_alive e (cs_out us) (pp_l4 pk) (k_dport (pp_key pk)))); reflexivity. }
  rewrite Heq. clear Heq.
  destruct (mark_udp_seen (ks_conn st) (pp_key pk) false (mk_args None None None (pp_dscp pk) 0) (e_now e)) as [us conn1].
  cbn [fst snd] in *. specialize (Hget us conn1 eq_refl).
  change (fe_wan_in (abs_cs us)) with (cs_wan_in us).
  destruct (cs_wan_in us); [apply refines_ok; [reflexivity | exact Hinv]|].
  change (fe_dec (abs_cs us)) with (if cs_has us =? 0 then None else Some (mk_dec (cs_out us) (cs_mark us) (cs_must us))).
  destruct (cs_has us =? 0) eqn:Hhas; cbn [negb].
  - rewrite <- (lan_local_udp P e pk Ht).
    apply (lan_route_refines P e st pk (udp_pkt pk) (Some us) conn1
             (fun d => rec_of (with_decision (abs_cs us) d (pp_dscp pk) (pp_hsource pk) None) d)
             (fun d => tab_set (abs_conn conn1) (pp_key pk) (with_decision (abs_cs us) d (pp_dscp pk) (pp_hsource pk) None)));
      try reflexivity.
    + rewrite Hl4; exact Hkp.
    + rewrite Hlis; reflexivity.
    + rewrite Ht; reflexivity.
    + exact Hinv.
    + intros o m mu. unfold lan_conn2. rewrite Hsl, andb_false_r.
      split; [apply set_abs|]. split; [apply inv_conn_set; assumption|].
      rewrite tab_get_set_eq. apply retrieve_conn. reflexivity.
  - rewrite touched_abs, <- set_abs.
    apply (lan_tail_refines P e pk (udp_pkt pk)); cbn [ks_conn]; try reflexivity; try assumption.
    + rewrite Hl4; exact Hkp.
    + rewrite Hlis; reflexivity.
    + apply inv_conn_set; assumption.
    + rewrite tab_get_set_eq. apply retrieve_conn. exact Hhas.
Qed.

(* ----- from parse results to the packets of the two sides ----- *)
Definition pk_of (c : pctx) : ppkt :=
  mk_ppkt (eh_proto (c_eth c)) (eh_source (c_eth c)) (fst (get_tuples c)) (snd (get_tuples c)) (c_tcp c)
          (c_l4proto c) (c_listener c).

Lemma parse_packet_some : forall ret c,
  (ret <? 0)%Z = false -> (c_l4proto c =? IPPROTO_ICMPV6) = false -> parse_packet (ret, c) = (ret, Some (pk_of c)).
Proof. intros ret c H H0. unfold parse_packet. rewrite H, H0. reflexivity. Qed.
Lemma classify_tcp : forall c, c_l4proto c = IPPROTO_TCP -> classify (0%Z, c) = tcp_pkt (pk_of c).
Proof. intros c H. unfold classify. rewrite H. reflexivity. Qed.
Lemma classify_udp : forall c, c_l4proto c = IPPROTO_UDP -> classify (0%Z, c) = udp_pkt (pk_of c).
Proof. intros c H. unfold classify. rewrite H. reflexivity. Qed.
Lemma pk_of_proto : forall c, k_proto (pp_key (pk_of c)) = c_l4proto c.
Proof. reflexivity. Qed.

Lemma lan_ingress_refines_proof : forall P e st r,
  wf_parse r -> inv st -> 0 < e_now e ->
  let h := lan_ingress P e st (parse_packet r) in
  let s := spec_lan_ingress P e (abs_conn (ks_conn st)) (classify r) in
  observe h (p_key (classify r)) (e_now e) = fst s /\ abs_conn (ks_conn (h_st h)) = snd s /\ inv (h_st h).
Proof.
  intros P e st [ret c] Hwf Hinv Hnow. cbv zeta.
  change (refines (lan_ingress P e st (parse_packet (ret, c))) (p_key (classify (ret, c))) (e_now e)
                  (spec_lan_ingress P e (abs_conn (ks_conn st)) (classify (ret, c)))).
  apply inv_is_inv_conn in Hinv.
  destruct (ret <? 0)%Z eqn:Hneg.
  { unfold parse_packet, classify. rewrite Hneg. unfold lan_ingress. rewrite Hneg.
    apply refines_shot; [reflexivity | exact Hinv]. }
  destruct (c_l4proto c =? IPPROTO_ICMPV6) eqn:H58.
  { unfold parse_packet, classify. rewrite Hneg, H58, orb_true_r.
    apply refines_ok; [reflexivity | exact Hinv]. }
  rewrite (parse_packet_some _ _ Hneg H58).
  destruct (ret =? 0)%Z eqn:H0.
  2:{ unfold classify. rewrite Hneg. assert (0 <? ret = true)%Z as -> by lia. cbn [orb].
      unfold lan_ingress. rewrite H0, Hneg. apply refines_ok; [reflexivity | exact Hinv]. }
  apply Z.eqb_eq in H0. subst ret.
  destruct (Hwf eq_refl) as (Hp & Ht & Hu). cbn [snd] in Hp, Ht, Hu.
  destruct Hp as [Hp | [Hp | Hp]].
  - rewrite (classify_tcp _ Hp). specialize (Ht Hp).
    destruct (tcp_flags_new (c_tcp c)) eqn:Hnew.
    + apply lan_tcp_new; try assumption.
    + apply lan_tcp_old; try assumption.
  - rewrite (classify_udp _ Hp). specialize (Hu Hp).
    destruct (is_short_lived_udp_traffic (pp_key (pk_of c))) eqn:Hsl.
    + apply lan_udp_stateless; try assumption.
    + apply lan_udp_tracked; try assumption.
  - rewrite Hp in H58. discriminate H58.
Qed.

(* ---------------------------------------------------------------------------------------------- *)
(* 5. WAN egress                                                                                   *)
(* ---------------------------------------------------------------------------------------------- *)
Lemma from_dae_eq : forall P e, from_dae P e = pid_is_control_plane P e.
Proof.
  intros P e. unfold from_dae, pid_is_control_plane. destruct (e_proc e) as [[a b]|]; [reflexivity|].
  destruct (negb (P_sock_mark P =? 0) && (e_skb_mark e =? P_sock_mark P)); reflexivity.
Qed.

Lemma wan_verdict_eq : forall e p o m mu r,
  wan_verdict e p (mk_dec o m mu) r =
  if negb (needs_control_plane o m) then Pass (if k_proto (p_key p) =? IPPROTO_TCP then Some 0 else None)
  else if o =? OUTBOUND_BLOCK then Drop
  else if negb (wan_outbound_is_alive e o (k_proto (p_key p)) (k_dport (p_key p))) then Drop
  else ToDae false (p_listener p) r.
Proof.
  intros. unfold wan_verdict, needs_control_plane. cbn [d_out d_mark]. rewrite alive_eq, negb_involutive. reflexivity.
Qed.

Lemma wan_tail_refines : forall e pk p listener o m mu hmac hpname hpid set_mark q st rec t,
  p_key p = pp_key pk -> k_proto (pp_key pk) = pp_l4 pk -> p_listener p = listener ->
  set_mark = (pp_l4 pk =? IPPROTO_TCP) ->
  abs_conn (ks_conn st) = t -> inv_conn (ks_conn st) ->
  (needs_control_plane o m = true ->
   go_retrieve_rec (tab_get (ks_conn st) (pp_key pk))
                   (Some (mk_he (e_now e) (mk_rr m mu hmac o hpname hpid (pp_dscp pk)))) (e_now e) = Some rec) ->
  refines (wan_tail e pk listener o m mu hmac hpname hpid set_mark q st) (pp_key pk) (e_now e)
          (wan_verdict e p (mk_dec o m mu) rec, t).
Proof.
  intros e pk p listener o m mu hmac hpname hpid set_mark q st rec t Hk Hp Hl Hs Ha Hi Hr.
  rewrite wan_verdict_eq, Hk, Hp, Hl. unfold wan_tail.
  destruct (needs_control_plane o m) eqn:Hn; cbn [negb].
  2:{ unfold needs_control_plane in Hn. apply negb_false_iff, andb_true_iff in Hn. destruct Hn as [_ Hm].
      apply N.eqb_eq in Hm. subst m set_mark.
      destruct (pp_l4 pk =? IPPROTO_TCP); apply refines_ok; assumption. }
  destruct (o =? OUTBOUND_BLOCK); [apply refines_shot; assumption|].
  destruct (negb (wan_outbound_is_alive e o (pp_l4 pk) (k_dport (pp_key pk)))); [apply refines_shot; assumption|].
  apply refines_redirect; auto.
Qed.

Lemma wan_tcp_old : forall P e st pk,
  inv_conn (ks_conn st) -> e_ingress_if e = 0 ->
  pp_l4 pk = IPPROTO_TCP -> k_proto (pp_key pk) = IPPROTO_TCP -> tcp_flags_new (pp_tcp pk) = false ->
  refines (wan_egress_tcp P e st pk) (pp_key pk) (e_now e)
          (spec_wan_egress false P e (abs_conn (ks_conn st)) (tcp_pkt pk)).
Proof.
  intros P e st pk Hi Hif Hl4 Hkp Hnew.
  assert (Ht : (pp_l4 pk =? IPPROTO_TCP) = true) by (rewrite Hl4; reflexivity).
  assert (Hpn : p_new (tcp_pkt pk) = false) by exact Hnew.
  assert (Hsl : is_short_lived_udp_traffic (pp_key pk) = false) by (unfold is_short_lived_udp_traffic; rewrite Hkp; reflexivity).
  unfold wan_egress_tcp. rewrite Hnew.
  unfold spec_wan_egress. rewrite Hif. cbn [N.eqb negb p_class tcp_pkt].
  rewrite Hpn, (tcp_track_abs _ _ _ _ _ no_args eq_refl), Hpn.
  change (p_finrst (tcp_pkt pk)) with (tcp_flags_finrst (pp_tcp pk)).
  change (p_key (tcp_pkt pk)) with (pp_key pk).
  pose proof (mark_tcp_get (ks_conn st) (pp_key pk) false false (tcp_flags_finrst (pp_tcp pk)) no_args (e_now e)) as Hget.
  pose proof (mark_tcp_inv (ks_conn st) (pp_key pk) false false (tcp_flags_finrst (pp_tcp pk)) no_args (e_now e) Hi Hsl) as Hinv.
  destruct (mark_tcp_seen (ks_conn st) (pp_key pk) false false (tcp_flags_finrst (pp_tcp pk)) no_args (e_now e)) as [ts conn1].
  cbn [fst snd option_map] in *.
  destruct ts as [s|]; cbn [option_map]; [| apply refines_ok; [reflexivity | exact Hinv]].
  specialize (Hget s conn1 eq_refl).
  change (fe_dec (abs_cs s)) with (if cs_has s =? 0 then None else Some (mk_dec (cs_out s) (cs_mark s) (cs_must s))).
  destruct (cs_has s =? 0) eqn:Hhas; [apply refines_ok; [reflexivity | exact Hinv]|].
  apply (wan_tail_refines e pk (tcp_pkt pk)); cbn [ks_conn]; try reflexivity; try assumption.
  - rewrite Hl4; exact Hkp.
  - unfold p_listener; cbn [p_class tcp_pkt]; rewrite Hpn; reflexivity.
  - rewrite Ht; reflexivity.
  - intros _. rewrite Hget. apply retrieve_conn. exact Hhas.
Qed.

Lemma wan_tcp_new : forall P e st pk,
  inv_conn (ks_conn st) -> e_ingress_if e = 0 ->
  pp_l4 pk = IPPROTO_TCP -> k_proto (pp_key pk) = IPPROTO_TCP -> tcp_flags_new (pp_tcp pk) = true ->
  refines (wan_egress_tcp P e st pk) (pp_key pk) (e_now e)
          (spec_wan_egress false P e (abs_conn (ks_conn st)) (tcp_pkt pk)).
Proof.
  intros P e st pk Hi Hif Hl4 Hkp Hnew.
  assert (Ht : (pp_l4 pk =? IPPROTO_TCP) = true) by (rewrite Hl4; reflexivity).
  assert (Hpn : p_new (tcp_pkt pk) = true) by exact Hnew.
  assert (Hsl : is_short_lived_udp_traffic (pp_key pk) = false) by (unfold is_short_lived_udp_traffic; rewrite Hkp; reflexivity).
  unfold wan_egress_tcp. rewrite Hnew.
  unfold spec_wan_egress. rewrite Hif. cbn [N.eqb negb p_class tcp_pkt].
  rewrite Hpn. change (from_dae P e) with (pid_is_control_plane P e).
  destruct (pid_is_control_plane P e); [apply refines_ok; [reflexivity | exact Hi]|].
  rewrite (query_eq e pk (tcp_pkt pk) true eq_refl eq_refl eq_refl) by (rewrite Hl4; exact Hkp).
  cbv zeta.
  set (pname := match e_proc e with Some (_, nm) => nm | None => 0 end).
  set (q := rquery_of e pk true pname).
  destruct (e_route e q <? 0)%Z eqn:Hw.
  { rewrite (decide_neg _ Hw). apply refines_shot; [reflexivity | exact Hi]. }
  destruct (unpack (e_route e q)) as [[o m] mu] eqn:Hu.
  rewrite (decide_unpack _ _ _ _ Hw Hu), mark_tcp_new.
  change (p_key (tcp_pkt pk)) with (pp_key pk). change (p_dscp (tcp_pkt pk)) with (pp_dscp pk).
  change (p_mac (tcp_pkt pk)) with (pp_hsource pk).
  set (pid := match e_proc e with Some (pid, _) => pid | None => 0 end).
  set (a := mk_args (if (o =? OUTBOUND_DIRECT) && (m =? 0) && (mu =? 0) then None else Some (o, m, mu))
                    (Some (pp_hsource pk)) (match e_proc e with Some (_, nm) => Some nm | None => None end)
                    (pp_dscp pk) pid).
  set (ns := new_state false (e_now e) a).
  assert (Habs : (if needs_record (mk_dec o m mu)
                  then mk_fentry false false (e_now e) (Some (mk_dec o m mu)) (pp_dscp pk) (pp_hsource pk) pname pid
                  else fresh_entry false (e_now e) (pp_dscp pk) pid) = abs_cs ns).
  { unfold ns, a, new_state, needs_record, pname. cbn [a_rt a_mac a_pname a_dscp a_pid d_out d_mark d_must].
    change OUT_DIRECT with OUTBOUND_DIRECT.
    destruct ((o =? OUTBOUND_DIRECT) && (m =? 0) && (mu =? 0)); cbn [negb]; [reflexivity|].
    destruct (e_proc e) as [[x y]|]; reflexivity. }
  rewrite Habs, <- del_abs, <- set_abs.
  apply (wan_tail_refines e pk (tcp_pkt pk)); cbn [ks_conn]; try reflexivity.
  - rewrite Hl4; exact Hkp.
  - unfold p_listener; cbn [p_class tcp_pkt]; rewrite Hpn; reflexivity.
  - rewrite Ht; reflexivity.
  - apply inv_conn_set; [apply inv_conn_del; exact Hi | exact Hsl].
  - intros Hn. rewrite tab_get_set_eq.
    unfold needs_control_plane in Hn. apply negb_true_iff in Hn.
    assert (Hns : ns = mk_cs false TCP_STATE_ACTIVE (e_now e) m o mu (pp_dscp pk) 1 (pp_hsource pk) pname pid).
    { unfold ns, a, new_state, pname. cbn [a_rt a_mac a_pname a_dscp a_pid]. rewrite Hn. cbn [andb].
      destruct (e_proc e) as [[x y]|]; reflexivity. }
    rewrite Hns. apply retrieve_conn. reflexivity.
Qed.

Lemma wan_udp_stateless : forall P e st pk,
  inv_conn (ks_conn st) -> 0 < e_now e -> e_ingress_if e = 0 ->
  pp_l4 pk = IPPROTO_UDP -> k_proto (pp_key pk) = IPPROTO_UDP ->
  is_short_lived_udp_traffic (pp_key pk) = true ->
  refines (wan_egress_udp P e st pk) (pp_key pk) (e_now e)
          (spec_wan_egress false P e (abs_conn (ks_conn st)) (udp_pkt pk)).
Proof.
  intros P e st pk Hi Hnow Hif Hl4 Hkp Hsl.
  assert (Ht : (pp_l4 pk =? IPPROTO_TCP) = false) by (rewrite Hl4; reflexivity).
  unfold wan_egress_udp.
  unfold spec_wan_egress. rewrite Hif. cbn [N.eqb negb p_class udp_pkt].
  change (from_dae P e) with (pid_is_control_plane P e).
  destruct (pid_is_control_plane P e); [apply refines_ok; [reflexivity | exact Hi]|].
  change (p_stateless (udp_pkt pk)) with (is_short_lived_udp_traffic (pp_key pk)). rewrite Hsl.
  cbn [negb].
  rewrite (query_eq e pk (udp_pkt pk) true eq_refl eq_refl eq_refl) by (rewrite Hl4; exact Hkp).
  cbv zeta.
  set (pname := match e_proc e with Some (_, nm) => nm | None => 0 end).
  set (pid := match e_proc e with Some (pid, _) => pid | None => 0 end).
  set (q := rquery_of e pk true pname).
  destruct (e_route e q <? 0)%Z eqn:Hw.
  { rewrite (decide_neg _ Hw). apply refines_shot; [reflexivity | exact Hi]. }
  destruct (unpack (e_route e q)) as [[o m] mu] eqn:Hu.
  rewrite (decide_unpack _ _ _ _ Hw Hu).
  apply (wan_tail_refines e pk (udp_pkt pk)); cbn [ks_conn]; try reflexivity; try assumption.
  - rewrite Hl4; exact Hkp.
  - rewrite Ht; reflexivity.
  - intros _. rewrite (Hi _ Hsl). apply retrieve_hand. exact Hnow.
Qed.


Definition wan_us1 (e : env) (pk : ppkt) (us : cstate) (o m mu mac : N) : cstate :=
  if negb (o =? OUTBOUND_DIRECT) || negb (m =? 0) || negb (mu =? 0) then
    mk_cs (cs_wan_in us) (cs_state us) (cs_last us) m o mu (pp_dscp pk) 1 mac
          (match e_proc e with Some (_, nm) => nm | None => cs_pname us end)
          (match e_proc e with Some (pid, _) => pid | None => cs_pid us end)
  else us.
Lemma wan_us1_abs : forall e pk us o m mu mac,
  (if needs_record (mk_dec o m mu) then with_decision (abs_cs us) (mk_dec o m mu) (pp_dscp pk) mac (e_proc e) else abs_cs us)
  = abs_cs (wan_us1 e pk us o m mu mac).
Proof.
  intros. unfold needs_record, wan_us1. cbn [d_out d_mark d_must]. change OUT_DIRECT with OUTBOUND_DIRECT.
  rewrite !negb_andb.
  destruct (negb (o =? OUTBOUND_DIRECT) || negb (m =? 0) || negb (mu =? 0)); [|reflexivity].
  destruct (e_proc e) as [[x y]|]; reflexivity.
Qed.


Lemma wan_udp_tracked : forall P e st pk,
  inv_conn (ks_conn st) -> e_ingress_if e = 0 ->
  pp_l4 pk = IPPROTO_UDP -> k_proto (pp_key pk) = IPPROTO_UDP ->
  is_short_lived_udp_traffic (pp_key pk) = false ->
  refines (wan_egress_udp P e st pk) (pp_key pk) (e_now e)
          (spec_wan_egress false P e (abs_conn (ks_conn st)) (udp_pkt pk)).
Proof.
  intros P e st pk Hi Hif Hl4 Hkp Hsl.
  assert (Ht : (pp_l4 pk =? IPPROTO_TCP) = false) by (rewrite Hl4; reflexivity).
  assert (H53 : (k_dport (pp_key pk) =? 53) = false).
  { unfold is_short_lived_udp_traffic in Hsl. rewrite Hkp in Hsl. cbn [N.eqb IPPROTO_UDP Pos.eqb andb] in Hsl.
    apply orb_false_iff in Hsl. tauto. }
  unfold wan_egress_udp.
  unfold spec_wan_egress. rewrite Hif. cbn [N.eqb negb p_class udp_pkt].
  change (from_dae P e) with (pid_is_control_plane P e).
  destruct (pid_is_control_plane P e); [apply refines_ok; [reflexivity | exact Hi]|].
  change (p_stateless (udp_pkt pk)) with (is_short_lived_udp_traffic (pp_key pk)). rewrite Hsl.
  cbn [negb].
  rewrite (query_eq e pk (udp_pkt pk) true eq_refl eq_refl eq_refl) by (rewrite Hl4; exact Hkp).
  change (p_key (udp_pkt pk)) with (pp_key pk).
  change (p_dscp (udp_pkt pk)) with (pp_dscp pk). change (p_mac (udp_pkt pk)) with (pp_hsource pk).
  rewrite (udp_track_abs _ _ _ _ no_args eq_refl eq_refl).
  pose proof (mark_udp_get (ks_conn st) (pp_key pk) false no_args (e_now e)) as Hget.
  pose proof (mark_udp_inv (ks_conn st) (pp_key pk) false no_args (e_now e) Hi Hsl) as Hinv.
  destruct (mark_udp_seen (ks_conn st) (pp_key pk) false no_args (e_now e)) as [us conn1].
  cbn [fst snd] in *. specialize (Hget us conn1 eq_refl).
  change (fe_wan_in (abs_cs us)) with (cs_wan_in us).
  destruct (cs_wan_in us) eqn:Hwi; [apply refines_ok; [reflexivity | exact Hinv]|].
  rewrite H53. cbn [negb].
  change (fe_dec (abs_cs us)) with (if cs_has us =? 0 then None else Some (mk_dec (cs_out us) (cs_mark us) (cs_must us))).
  set (pname := match e_proc e with Some (_, nm) => nm | None => 0 end).
  set (pid := match e_proc e with Some (pid, _) => pid | None => 0 end).
  set (q := rquery_of e pk true pname).
  destruct (cs_has us =? 0) eqn:Hhas; cbn [negb].
  - destruct (e_route e q <? 0)%Z eqn:Hw.
    { rewrite (decide_neg _ Hw). apply refines_shot; [reflexivity | exact Hinv]. }
    destruct (unpack (e_route e q)) as [[o m] mu] eqn:Hu.
    rewrite (decide_unpack _ _ _ _ Hw Hu). cbn [orb].
    change (if negb (o =? OUTBOUND_DIRECT) || negb (m =? 0) || negb (mu =? 0)
            then mk_cs (cs_wan_in us) (cs_state us) (cs_last us) m o mu (pp_dscp pk) 1 (pp_hsource pk)
                       (match e_proc e with Some (_, nm) => nm | None => cs_pname us end)
                       (match e_proc e with Some (pid, _) => pid | None => cs_pid us end)
            else us) with (wan_us1 e pk us o m mu (pp_hsource pk)).
    rewrite wan_us1_abs, touched_abs, <- set_abs.
    apply (wan_tail_refines e pk (udp_pkt pk)); cbn [ks_conn]; try reflexivity.
    + rewrite Hl4; exact Hkp.
    + rewrite Ht; reflexivity.
    + apply inv_conn_set; assumption.
    + intros Hn. rewrite tab_get_set_eq.
      unfold needs_control_plane in Hn. rewrite negb_andb in Hn.
      unfold wan_us1. rewrite Hn. cbn [orb]. apply retrieve_conn. reflexivity.
  - change (0 <? 0)%Z with false. cbv iota. cbn [orb].
    change (fe_mac (abs_cs us)) with (cs_mac us).
    change (if negb (cs_out us =? OUTBOUND_DIRECT) || negb (cs_mark us =? 0) || negb (cs_must us =? 0)
            then mk_cs (cs_wan_in us) (cs_state us) (cs_last us) (cs_mark us) (cs_out us) (cs_must us) (pp_dscp pk) 1 (cs_mac us)
                       (match e_proc e with Some (_, nm) => nm | None => cs_pname us end)
                       (match e_proc e with Some (pid, _) => pid | None => cs_pid us end)
            else us) with (wan_us1 e pk us (cs_out us) (cs_mark us) (cs_must us) (cs_mac us)).
    rewrite wan_us1_abs, touched_abs, <- set_abs.
    apply (wan_tail_refines e pk (udp_pkt pk)); cbn [ks_conn]; try reflexivity.
    + rewrite Hl4; exact Hkp.
    + rewrite Ht; reflexivity.
    + apply inv_conn_set; assumption.
    + intros _. rewrite tab_get_set_eq. unfold wan_us1.
      destruct (negb (cs_out us =? OUTBOUND_DIRECT) || negb (cs_mark us =? 0) || negb (cs_must us =? 0));
        apply retrieve_conn; [reflexivity | exact Hhas].
Qed.

Lemma wan_egress_refines_proof : forall P e st r,
  wf_parse r -> inv st -> 0 < e_now e ->
  let h := wan_egress P e st (parse_packet r) in
  let s := spec_wan_egress false P e (abs_conn (ks_conn st)) (classify r) in
  observe h (p_key (classify r)) (e_now e) = fst s /\ abs_conn (ks_conn (h_st h)) = snd s /\ inv (h_st h).
Proof.
  intros P e st [ret c] Hwf Hinv Hnow. cbv zeta.
  change (refines (wan_egress P e st (parse_packet (ret, c))) (p_key (classify (ret, c))) (e_now e)
                  (spec_wan_egress false P e (abs_conn (ks_conn st)) (classify (ret, c)))).
  apply inv_is_inv_conn in Hinv.
  destruct (e_ingress_if e =? 0) eqn:Hif.
  2:{ unfold wan_egress, spec_wan_egress. rewrite Hif. apply refines_ok; [reflexivity | exact Hinv]. }
  apply N.eqb_eq in Hif.
  assert (Hsp : forall p, p_class p = PMalformed \/ p_class p = PIgnored ->
                 spec_wan_egress false P e (abs_conn (ks_conn st)) p =
                 (match p_class p with PMalformed => Drop | _ => Pass None end, abs_conn (ks_conn st))).
  { intros p Hp. unfold spec_wan_egress. rewrite Hif. destruct Hp as [-> | ->]; reflexivity. }
  destruct (ret <? 0)%Z eqn:Hneg.
  { rewrite Hsp by (unfold classify; rewrite Hneg; left; reflexivity).
    unfold parse_packet, classify. rewrite Hneg. unfold wan_egress. rewrite Hif, Hneg.
    apply refines_shot; [reflexivity | exact Hinv]. }
  destruct (c_l4proto c =? IPPROTO_ICMPV6) eqn:H58.
  { rewrite Hsp by (unfold classify; rewrite Hneg, H58, orb_true_r; right; reflexivity).
    unfold parse_packet, classify. rewrite Hneg, H58, orb_true_r. unfold wan_egress. rewrite Hif.
    apply refines_ok; [reflexivity | exact Hinv]. }
  rewrite (parse_packet_some _ _ Hneg H58).
  destruct (ret =? 0)%Z eqn:H0.
  2:{ assert (0 <? ret = true)%Z as Hpos by lia.
      rewrite Hsp by (unfold classify; rewrite Hneg, Hpos; right; reflexivity).
      unfold classify. rewrite Hneg, Hpos. cbn [orb].
      unfold wan_egress. rewrite Hif, H0, Hneg. apply refines_ok; [reflexivity | exact Hinv]. }
  apply Z.eqb_eq in H0. subst ret.
  destruct (Hwf eq_refl) as (Hp & _ & _). cbn [snd] in Hp.
  assert (Hweq : forall pk, wan_egress P e st (0%Z, Some pk) =
                   if pp_l4 pk =? IPPROTO_TCP then wan_egress_tcp P e st pk
                   else if pp_l4 pk =? IPPROTO_UDP then wan_egress_udp P e st pk
                   else ret_act TC_ACT_OK None None st).
  { intro pk. unfold wan_egress. rewrite Hif. reflexivity. }
  rewrite Hweq. change (pp_l4 (pk_of c)) with (c_l4proto c).
  destruct Hp as [Hp | [Hp | Hp]].
  - rewrite (classify_tcp _ Hp), Hp. cbn [N.eqb IPPROTO_TCP Pos.eqb].
    destruct (tcp_flags_new (c_tcp c)) eqn:Hnew.
    + apply wan_tcp_new; try assumption.
    + apply wan_tcp_old; try assumption.
  - rewrite (classify_udp _ Hp), Hp. cbn [N.eqb IPPROTO_TCP IPPROTO_UDP Pos.eqb].
    destruct (is_short_lived_udp_traffic (pp_key (pk_of c))) eqn:Hsl.
    + apply wan_udp_stateless; try assumption.
    + apply wan_udp_tracked; try assumption.
  - rewrite Hp in H58. discriminate H58.
Qed.

(* ---------------------------------------------------------------------------------------------- *)
(* 6. the reverse-direction hooks                                                                  *)
(* ---------------------------------------------------------------------------------------------- *)
Lemma short_lived_rev : forall k, is_short_lived_udp_traffic (rev_key k) = is_short_lived_udp_traffic k.
Proof.
  intro k. unfold is_short_lived_udp_traffic. cbn [rev_key k_proto k_dport k_sport].
  rewrite (orb_comm (k_sport k =? 53)). reflexivity.
Qed.

Lemma reverse_refines_proof : forall le e st r,
  wf_parse r -> inv st ->
  let h := reverse_hook le e st r in
  abs_conn (ks_conn (h_st h)) = spec_reverse_hook e (abs_conn (ks_conn st)) (classify r) /\ inv (h_st h) /\
  ks_hand (h_st h) = ks_hand st.
Proof.
  intros le e st [ret c] Hwf Hinv. cbv zeta. apply inv_is_inv_conn in Hinv.
  unfold reverse_hook.
  destruct (ret =? 0)%Z eqn:H0; cbn [negb].
  2:{ destruct (ret <? 0)%Z eqn:Hneg.
      - unfold classify. rewrite Hneg. repeat split; assumption.
      - assert (0 <? ret = true)%Z as Hpos by lia. unfold classify. rewrite Hneg, Hpos. repeat split; assumption. }
  apply Z.eqb_eq in H0. subst ret.
  destruct (Hwf eq_refl) as (Hp & _ & _). cbn [snd] in Hp.
  destruct Hp as [Hp | [Hp | Hp]].
  - rewrite (classify_tcp _ Hp), Hp. cbn [N.eqb IPPROTO_TCP IPPROTO_ICMPV6 Pos.eqb]. rewrite andb_false_r. cbn [andb].
    unfold spec_reverse_hook. cbn [p_class tcp_pkt].
    rewrite (tcp_track_abs _ _ _ _ _ no_args eq_refl).
    change (p_new (tcp_pkt (pk_of c))) with (tcp_flags_new (c_tcp c)).
    change (p_finrst (tcp_pkt (pk_of c))) with (tcp_flags_finrst (c_tcp c)).
    change (p_key (tcp_pkt (pk_of c))) with (fst (get_tuples c)).
    cbn [snd].
    assert (Hsl : is_short_lived_udp_traffic (rev_key (fst (get_tuples c))) = false).
    { rewrite short_lived_rev. unfold is_short_lived_udp_traffic.
      change (k_proto (fst (get_tuples c))) with (c_l4proto c). rewrite Hp. reflexivity. }
    pose proof (mark_tcp_inv (ks_conn st) (rev_key (fst (get_tuples c))) true (tcp_flags_new (c_tcp c))
                  (tcp_flags_finrst (c_tcp c)) no_args (e_now e) Hinv Hsl) as Hi1.
    destruct (mark_tcp_seen (ks_conn st) (rev_key (fst (get_tuples c))) true (tcp_flags_new (c_tcp c))
                  (tcp_flags_finrst (c_tcp c)) no_args (e_now e)) as [ts conn1].
    cbn [snd] in *. repeat split. exact Hi1.
  - rewrite (classify_udp _ Hp), Hp. cbn [N.eqb IPPROTO_TCP IPPROTO_UDP IPPROTO_ICMPV6 Pos.eqb]. rewrite andb_false_r. cbn [andb].
    unfold spec_reverse_hook. cbn [p_class udp_pkt].
    assert (Hst : p_stateless (udp_pkt (pk_of c)) = (u_sport (c_udp c) =? 53) || (u_dport (c_udp c) =? 53)).
    { unfold p_stateless, udp_pkt, pk_of, get_tuples.
      cbn [p_key pp_key fst k_proto k_sport k_dport]. rewrite Hp. cbn [N.eqb IPPROTO_TCP IPPROTO_UDP Pos.eqb andb].
      apply orb_comm. }
    rewrite Hst.
    destruct ((u_sport (c_udp c) =? 53) || (u_dport (c_udp c) =? 53)) eqn:H53.
    + repeat split; assumption.
    + rewrite (udp_track_abs _ _ _ _ no_args eq_refl eq_refl).
      change (p_key (udp_pkt (pk_of c))) with (fst (get_tuples c)).
      cbn [snd].
      assert (Hsl : is_short_lived_udp_traffic (rev_key (fst (get_tuples c))) = false).
      { rewrite short_lived_rev. change (is_short_lived_udp_traffic (fst (get_tuples c))) with (p_stateless (udp_pkt (pk_of c))).
        rewrite Hst. reflexivity. }
      pose proof (mark_udp_inv (ks_conn st) (rev_key (fst (get_tuples c))) true no_args (e_now e) Hinv Hsl) as Hi1.
      destruct (mark_udp_seen (ks_conn st) (rev_key (fst (get_tuples c))) true no_args (e_now e)) as [us conn1].
      cbn [snd] in *. repeat split. exact Hi1.
  - assert (Hc : classify (0%Z, c) = mk_packet PIgnored z_key 0 0 false false false false).
    { unfold classify. rewrite Hp. reflexivity. }
    rewrite Hc, Hp. cbn [N.eqb IPPROTO_TCP IPPROTO_UDP IPPROTO_ICMPV6 Pos.eqb].
    destruct (le && (e_ingress_if e =? 0) && true && (c_icmp_type c =? NDP_REDIRECT)); repeat split; assumption.
Qed.
