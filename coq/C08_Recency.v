(* C08 — lastAccess of a cached entry is the instant of its last use, across reloads (lemmas). *)
From Coq Require Import List ZArith NArith Bool Lia.
From Dae Require Import C08_Spec C08_Model C08_Proofs.
Import ListNotations.
Open Scope Z_scope.

Definition lt_ok (key : bytes) (acc : option Z) (p : bytes * entry) : Prop :=
  bytes_eqb (fst p) key = true -> acc = Some (e_last (snd p)).

Lemma lt_mremove_same : forall key acc st, Forall (lt_ok key acc) (mremove key st).
Proof.
  intros. unfold mremove. apply Forall_forall. intros [k e] Hin. apply filter_In in Hin. destruct Hin as [_ Hk].
  unfold lt_ok. cbn in *. intros Hk2. rewrite Hk2 in Hk. discriminate.
Qed.

Lemma get_packed_last : forall e now, e_last (fst (get_packed_approx e now)) = e_last e.
Proof.
  intros. unfold get_packed_approx. destruct (e_dnano e <=? now); [reflexivity|].
  match goal with |- context [if ?c then (e, Some ?x) else _] => destruct c end; [reflexivity|].
  destruct (_ >? sec); reflexivity.
Qed.

(* a lookup of k leaves, under k, nothing or an entry stamped with the instant of the lookup *)
Lemma lookup_same_key : forall s now k acc,
    Forall (lt_ok k acc) (m_store s) -> Forall (lt_ok k (Some now)) (m_store (fst (m_lookup s now k))).
Proof.
  intros s now k acc HF. unfold m_lookup. destruct (mfind k (m_store s)) as [e0|] eqn:F.
  2:{ cbn [fst]. apply Forall_forall. intros [k' e'] Hin Hk. cbn [fst] in Hk. apply bytes_eqb_eq in Hk. subst k'.
      exfalso. unfold mfind in F. destruct (find _ (m_store s)) eqn:Ff; [discriminate|].
      apply (find_none _ _ Ff) in Hin. cbn in Hin. rewrite bytes_eqb_refl in Hin. discriminate. }
  cbv zeta.
  assert (Hput : forall e', e_last e' = now -> Forall (lt_ok k (Some now)) (mput k e' (m_store s))).
  { intros e' He. unfold mput. constructor; [unfold lt_ok; cbn; intros _; rewrite He; reflexivity | apply lt_mremove_same]. }
  destruct (now <? e_deadline (with_last e0 now)).
  - pose proof (get_packed_last (with_last e0 now) now) as L.
    destruct (get_packed_approx (with_last e0 now) now) as [e' [t|]]; cbn [fst] in *; cbn [m_store]; apply Hput; exact L.
  - destruct (c_opt (m_cfg s)); [|cbn [fst m_store]; apply lt_mremove_same].
    destruct (get_stale (with_last e0 now) now (c_window (m_cfg s))); [|cbn [fst m_store]; apply lt_mremove_same].
    destruct (e_refreshing (with_last e0 now)); cbn [fst m_store]; apply Hput; reflexivity.
Qed.

(* a lookup of another key does not touch the entries under `key` *)
Lemma lookup_other_key : forall s now k key acc,
    bytes_eqb k key = false ->
    Forall (lt_ok key acc) (m_store s) -> Forall (lt_ok key acc) (m_store (fst (m_lookup s now k))).
Proof.
  intros s now k key acc Hne HF. destruct (m_lookup_shape s now k) as [E _ | _ E | e e' _ _ _ E]; rewrite E.
  - assumption.
  - apply Forall_mremove. assumption.
  - apply Forall_mput; [|assumption]. unfold lt_ok. cbn [fst]. intros Hk. rewrite Hk in Hne. discriminate.
Qed.

Definition touch_acc (o : op) (now : Z) (key : bytes) (acc : option Z) : option Z :=
  match o with
  | Insert name qt sc _ is_ip resp_ok _ _ _ => if resp_ok && negb is_ip && bytes_eqb (key_of name qt sc) key then Some now else acc
  | Lookup name qt sc => if bytes_eqb (key_of name qt sc) key then Some now else acc
  | _ => acc
  end.

Lemma last_touch_cons : forall now o rest key acc, last_touch ((now, o) :: rest) key acc = last_touch rest key (touch_acc o now key acc).
Proof.
  intros. destruct o; cbn [last_touch touch_acc]; try reflexivity.
  - destruct (resp_ok && negb is_ip && bytes_eqb (key_of name qt sc) key); reflexivity.
  - destruct (bytes_eqb (key_of name qt sc) key); reflexivity.
Qed.

Lemma lt_step : forall key u s now o acc,
    Forall (lt_ok key acc) (m_store s) -> Forall (lt_ok key (touch_acc o now key acc)) (m_store (fst (m_step u s now o))).
Proof.
  intros key u s now o acc HF. destruct o; cbn [m_step fst touch_acc].
  - unfold m_insert. destruct (resp_ok && negb is_ip) eqn:Ec; cbn [andb]; [|assumption]. cbn [m_store].
    destruct (bytes_eqb (key_of name qt sc) key) eqn:Ek.
    + apply bytes_eqb_eq in Ek. rewrite Ek. unfold mput. constructor; [unfold lt_ok; cbn; auto | apply lt_mremove_same].
    + apply Forall_mput; [|assumption]. unfold lt_ok. cbn [fst]. intros Hk. rewrite Hk in Ek. discriminate.
  - destruct (bytes_eqb (key_of name qt sc) key) eqn:Ek.
    + apply bytes_eqb_eq in Ek. rewrite Ek. eapply lookup_same_key. rewrite <- Ek. rewrite Ek. exact HF.
    + apply lookup_other_key; assumption.
  - apply Forall_janitor. assumption.
  - cbn [m_store]. apply Forall_forall. intros [k e] Hin. apply in_map_iff in Hin. destruct Hin as [[k0 e0] [Heq Hin]].
    inversion Heq; subst. rewrite Forall_forall in HF. specialize (HF _ Hin). unfold lt_ok in *. cbn in *. exact HF.
  - assumption.
  - apply Forall_refresh_done; [|assumption]. intros k e H. exact H.
  - assumption.
Qed.

Lemma lt_run : forall key u h s acc,
    Forall (lt_ok key acc) (m_store s) -> Forall (lt_ok key (last_touch h key acc)) (m_store (fst (m_run_from u s h))).
Proof.
  intros key u. induction h as [|[now o] rest IH]; intros s acc HF; [assumption|].
  rewrite last_touch_cons, run_from_cons_fst. apply IH. apply lt_step. assumption.
Qed.

Lemma last_access_is_last_use_proof : forall c h key e,
    mfind key (m_store (fst (m_run c h))) = Some e -> last_touch h key None = Some (e_last e).
Proof.
  intros c h key e F. unfold m_run in F.
  pose proof (lt_run key (universe h) h (m_init c) None (Forall_nil _)) as HL.
  destruct (mfind_Forall _ key _ e HL F) as [k' [Hli Hk]]. unfold lt_ok in Hli. cbn [fst snd] in Hli. exact (Hli Hk).
Qed.
