(* C09 — executable comparison functions used by the generated cases file (no proofs).
   error codes:  1 impl<>model   2 impl<>spec   3 model<>spec although the environment satisfied the
   hypothesis of the corresponding _partial theorem (i.e. a proved theorem contradicted: never expected) *)
From Coq Require Import List NArith ZArith Bool.
From Dae Require Import C09_Spec C09_Model.
From Dae.gen Require Import C09_Route C09_TcpOwn C09_Pref.
Import ListNotations.
Open Scope N_scope.

Fixpoint list_eqb {A B} (eqb : A -> B -> bool) (a : list A) (b : list B) : bool :=
  match a, b with
  | [], [] => true
  | x :: a', y :: b' => eqb x y && list_eqb eqb a' b'
  | _, _ => false
  end.
Definition opt_eqb {A} (eqb : A -> A -> bool) (a b : option A) : bool :=
  match a, b with Some x, Some y => eqb x y | None, None => true | _, _ => false end.

Definition question_eqb (a b : question) : bool :=
  (q_name a =? q_name b) && (q_case a =? q_case b) && (q_type a =? q_type b) && (q_class a =? q_class b).
Definition rr_eqb (a b : rr) : bool :=
  (rr_name a =? rr_name b) && (rr_type a =? rr_type b) && (rr_serial a =? rr_serial b).
Definition message_eqb (a b : message) : bool :=
  (m_id a =? m_id b) && opt_eqb question_eqb (m_q a) (m_q b) && (m_rcode a =? m_rcode b)
  && Bool.eqb (m_tc a) (m_tc b) && list_eqb rr_eqb (m_ans a) (m_ans b).

(* what the property demands of a message handed to the client that asked q under id *)
Definition answers_own (id : N) (q : question) (m : message) : bool :=
  reply_ok {| cq_id := id; cq_q := q |} m.

(* ------------------------------------------------------------------------------------------- *)
(* forwarder lifecycle                                                                          *)
(* ------------------------------------------------------------------------------------------- *)
Record fwd_case := {
  fc_events : list fev;
  fc_trace : list N;        (* where the stepped goroutine parked after each FU/FR event *)
  fc_users : list bool;     (* beginUse result per user *)
  fc_closes : N;
  fc_cif : bool;            (* forwarder.Close() observed while a query was inside ForwardDNS *)
  fc_inflight : Z;
  fc_retired : bool;
  fc_retire_ran : bool
}.

Definition upc_code (p : upc) : N :=
  match p with UIdle => 0 | UB1 => 1 | UB2 => 2 | UB3 => 3 | UUsing => 4 | UE1 => 5 | UE2 => 6 | UOk | UFail => 7 end.
Definition rpc_code (r : rpc) : N := match r with RIdle => 0 | RStored => 8 | RDone => 7 end.

Fixpoint fwd_trace (s : fstate) (evs : list fev) : list N :=
  match evs with
  | [] => []
  | e :: rest =>
      let s' := fstep s e in
      match e with
      | FU i => upc_code (nth i (f_users s') UIdle) :: fwd_trace s' rest
      | FR j => rpc_code (nth j (f_rets s') RIdle) :: fwd_trace s' rest
      | _ => fwd_trace s' rest
      end
  end.

Definition user_ok (p : upc) : bool := match p with UOk => true | _ => false end.

Definition fwd_impl_obs (c : fwd_case) : fwd_obs :=
  {| fo_closes := fc_closes c; fo_close_in_flight := fc_cif c; fo_retired := fc_retired c;
     fo_retire_done := fc_retire_ran c; fo_quiescent := true |}.

Definition check_fwd (c : fwd_case) : list N :=
  let s := frun (fc_events c) in
  (if list_eqb N.eqb (fwd_trace finit (fc_events c)) (fc_trace c)
      && list_eqb Bool.eqb (map user_ok (f_users s)) (fc_users c)
      && ((if f_closed s then 1 else 0) =? fc_closes c)
      && Bool.eqb (f_bad s) (fc_cif c)
      && (f_inflight s =? fc_inflight c)%Z
      && Bool.eqb (f_retired s) (fc_retired c)
   then [] else [1])
  ++ (if fwd_ok (fwd_impl_obs c) then [] else [2])
  ++ (if fwd_ok (fwd_obs_of s) then [] else [3]).

Definition sig_fwd (c : fwd_case) : N * N * N * N :=
  let s := frun (fc_events c) in
  (100 + N.of_nat (length (f_users s)), N.of_nat (length (f_rets s)),
   (if f_retired s then 1 else 0) + (if f_bad s then 2 else 0) + (if f_closed s then 4 else 0),
   N.of_nat (length (filter user_ok (f_users s)))).

(* ------------------------------------------------------------------------------------------- *)
(* pipelined connection                                                                         *)
(* ------------------------------------------------------------------------------------------- *)
Record pipe_case := {
  pc_events : list pev;
  pc_questions : list (N * question);                 (* client -> its question *)
  pc_clients : list (N * (N * option message));       (* client -> observed wire id (65536 = none), result *)
  pc_closed : bool
}.

Definition qof (qs : list (N * question)) (c : N) : question :=
  match lookup c qs with Some q => q | None => {| q_name := 0; q_case := 0; q_type := 0; q_class := 0 |} end.

Definition wire_of (s : pstate) (c : N) : N :=
  match lookup c (p_log s) with Some id => id | None => 65536 end.

Definition pipe_client_matches (s : pstate) (obs : N * (N * option message)) : bool :=
  let '(c, (wid, r)) := obs in
  (wire_of s c =? wid) &&
  match lookup c (p_clients s), r with
  | Some (CDoneOk _ m), Some m' => message_eqb m m'
  | Some CDoneErr, None => true
  | _, _ => false
  end.

(* hypothesis of the partial theorem: whenever the upstream sends a message whose id is pending, the
   message is an answer to the query pending under that id *)
Fixpoint pipe_honest (qs : list (N * question)) (s : pstate) (evs : list pev) : bool :=
  match evs with
  | [] => true
  | e :: rest =>
      (match e with
       | PResp m => if p_closed s then true
                    else match lookup (m_id m) (p_pending s) with
                         | Some c => answers_own (m_id m) (qof qs c) m
                         | None => true
                         end
       | _ => true
       end) && pipe_honest qs (pstep s e) rest
  end.

Definition pipe_model_ok (qs : list (N * question)) (s : pstate) : bool :=
  forallb (fun kc => match snd kc with
                     | CDoneOk id m | CGot id m => answers_own id (qof qs (fst kc)) m
                     | _ => true
                     end) (p_clients s).

Definition check_pipe (c : pipe_case) : list N :=
  let s := prun (pc_events c) in
  (if forallb (pipe_client_matches s) (pc_clients c) && Bool.eqb (p_closed s) (pc_closed c) then [] else [1])
  ++ (if forallb (fun o => match snd (snd o) with
                           | Some m => m_id m =? fst (snd o)
                           | None => true
                           end) (pc_clients c) then [] else [2])
  ++ (if pipe_model_ok (pc_questions c) s || negb (pipe_honest (pc_questions c) pinit (pc_events c)) then [] else [3]).

Definition sig_pipe (c : pipe_case) : N * N * N * N :=
  let s := prun (pc_events c) in
  (200 + N.of_nat (length (p_clients s)),
   N.of_nat (length (filter (fun kc => match snd kc with CDoneOk _ _ => true | _ => false end) (p_clients s))),
   (if p_closed s then 1 else 0) + (if pipe_honest (pc_questions c) pinit (pc_events c) then 0 else 2)
   + (if pipe_model_ok (pc_questions c) s then 0 else 4),
   N.of_nat (length (nodup N.eq_dec (map snd (p_log s))))).

(* ------------------------------------------------------------------------------------------- *)
(* UDP receive loop                                                                             *)
(* ------------------------------------------------------------------------------------------- *)
Record udp_case := {
  uc_events : list uev;
  uc_questions : list question;     (* question of the i-th UQ event *)
  uc_results : list ures
}.

Definition ures_eqb (a b : ures) : bool :=
  match a, b with
  | UOkMsg m, UOkMsg m' | UTrunc m, UTrunc m' => message_eqb m m'
  | UTimeout, UTimeout | UStale, UStale | UUnpack, UUnpack => true
  | _, _ => false
  end.

Fixpoint uq_ids (evs : list uev) : list N :=
  match evs with [] => [] | UQ id _ :: r => id :: uq_ids r | _ :: r => uq_ids r end.

Definition ures_id_ok (id : N) (r : ures) : bool :=
  match r with UOkMsg m | UTrunc m => m_id m =? id | _ => true end.

Definition ures_ok (idq : N * question) (r : ures) : bool :=
  match r with
  | UOkMsg m => answers_own (fst idq) (snd idq) m
  | UTrunc m => reply_id_ok {| cq_id := fst idq; cq_q := snd idq |} m
  | _ => true
  end.

Fixpoint all_dgrams (evs : list uev) : list dgram :=
  match evs with
  | [] => []
  | UQ _ sc :: r => sc ++ all_dgrams r
  | ULate d :: r => d :: all_dgrams r
  end.

(* hypothesis of the partial theorem: a datagram carrying ID x answers every query sent under ID x *)
Definition udp_honest (idqs : list (N * question)) (ds : list dgram) : bool :=
  forallb (fun d => match d with
                    | DMsg m => forallb (fun iq => if fst iq =? m_id m then m_tc m || answers_own (fst iq) (snd iq) m else true) idqs
                    | _ => true
                    end) ds.

Fixpoint zip {A B} (a : list A) (b : list B) : list (A * B) :=
  match a, b with x :: a', y :: b' => (x, y) :: zip a' b' | _, _ => [] end.

Definition check_udp (c : udp_case) : list N :=
  let rs := urun (uc_events c) in
  let idqs := zip (uq_ids (uc_events c)) (uc_questions c) in
  (if list_eqb ures_eqb rs (uc_results c) then [] else [1])
  ++ (if forallb (fun p => ures_id_ok (fst (fst p)) (snd p)) (zip idqs (uc_results c)) then [] else [2])
  ++ (if forallb (fun p => ures_ok (fst p) (snd p)) (zip idqs rs) || negb (udp_honest idqs (all_dgrams (uc_events c)))
      then [] else [3]).

Definition ures_code (r : ures) : N :=
  match r with UOkMsg _ => 1 | UTrunc _ => 2 | UTimeout => 4 | UStale => 8 | UUnpack => 16 end.

Definition sig_udp (c : udp_case) : N * N * N * N :=
  let rs := urun (uc_events c) in
  let idqs := zip (uq_ids (uc_events c)) (uc_questions c) in
  (300 + N.of_nat (length rs),
   fold_left N.lor (map ures_code rs) 0,
   (if udp_honest idqs (all_dgrams (uc_events c)) then 0 else 1)
   + (if forallb (fun p => ures_ok (fst p) (snd p)) (zip idqs rs) then 0 else 2),
   N.of_nat (length (all_dgrams (uc_events c)))).

(* ------------------------------------------------------------------------------------------- *)
(* controller                                                                                   *)
(* ------------------------------------------------------------------------------------------- *)
Inductive obs_outcome := BReply (m : message) | BError | BNone.

Record ctl_case := {
  cc_packed : bool;
  cc_pnew : bool;
  cc_fallback : bool;
  cc_rounds : list (list client_query);
  cc_udp : list (ckey * list fres);
  cc_tcp : list (ckey * list fres);
  cc_obs : list (list obs_outcome);
  cc_calls : list (list ckey);            (* per round: primary-forwarder invocations *)
  cc_cache : list (ckey * list rr);       (* cache dump after the run *)
  cc_shared : bool                        (* two waiters of a round were handed the same message object *)
}.

Definition outcome_matches (o : outcome) (b : obs_outcome) : bool :=
  match o, b with
  | OReply m, BReply m' => message_eqb m m'
  | OError, BError => true
  | _, _ => false
  end.

Definition cinit (c : ctl_case) : cstate :=
  {| c_cache := []; c_udp := cc_udp c; c_tcp := cc_tcp c; c_calls := [] |}.

(* per-round call logs of the model *)
Fixpoint model_calls (packed pnew fallback : bool) (s : cstate) (rounds : list (list client_query)) : list (list ckey) :=
  match rounds with
  | [] => []
  | r :: rest =>
      let s0 := {| c_cache := c_cache s; c_udp := c_udp s; c_tcp := c_tcp s; c_calls := [] |} in
      let '(_, s1) := run_round packed pnew fallback s0 r in
      c_calls s1 :: model_calls packed pnew fallback s1 rest
  end.

Definition count_key (k : ckey) (l : list ckey) : nat := length (filter (ckey_eqb k) l).
Definition same_keys (a b : list ckey) : bool :=
  Nat.eqb (length a) (length b) && forallb (fun k => Nat.eqb (count_key k a) (count_key k b)) a.

Definition cache_matches (m : list (ckey * centry)) (obs : list (ckey * list rr)) : bool :=
  Nat.eqb (length m) (length obs)
  && forallb (fun e => match klookup (fst e) m with
                       | Some ce => list_eqb rr_eqb (ce_ans ce) (snd e)
                       | None => false
                       end) obs.

Definition obs_ok (c : client_query) (b : obs_outcome) : bool :=
  match b with BReply m => reply_ok c m | BError => true | BNone => false end.
Definition out_ok (c : client_query) (o : outcome) : bool :=
  match o with OReply m => reply_ok c m | OError => true end.

Definition round_calls_ok (r : list client_query) (calls : list ckey) : bool :=
  forallb (fun k => Nat.leb (count_key k calls) 1) calls
  && forallb (fun k => existsb (fun c => ckey_eqb (key_of (cq_q c)) k) r) calls.

(* every record is labelled by the question of the message that carries it (what "an answer to q" means:
   the answer section of an upstream response whose question section is q) *)
Definition fres_tagged (r : fres) : bool :=
  match r with
  | FMsg m => match m_q m with Some q => forallb (rr_answers q) (m_ans m) | None => true end
  | _ => true
  end.
Definition scripts_tagged (l : list (ckey * list fres)) : bool :=
  forallb (fun e => forallb fres_tagged (snd e)) l.
Definition clients_in (cs : list client_query) : bool := forallb (fun c => q_class (cq_q c) =? 1) cs.

(* upstream behaved: every scripted response answers the question it is scripted for (statistics only) *)
Definition fres_honest (k : ckey) (r : fres) : bool :=
  match r with
  | FMsg m => match m_q m with
              | Some q => ckey_eqb (key_of q) k && (q_class q =? 1) && forallb (rr_for_key k) (m_ans m)
              | None => false
              end
  | _ => true
  end.
Definition scripts_honest (l : list (ckey * list fres)) : bool :=
  forallb (fun e => forallb (fres_honest (fst e)) (snd e)) l.

Definition check_ctl (c : ctl_case) : list N :=
  let '(outs, s) := run_rounds (cc_packed c) (cc_pnew c) (cc_fallback c) (cinit c) (cc_rounds c) in
  let mcalls := model_calls (cc_packed c) (cc_pnew c) (cc_fallback c) (cinit c) (cc_rounds c) in
  (if list_eqb (list_eqb outcome_matches) outs (cc_obs c)
      && list_eqb same_keys mcalls (cc_calls c)
      && cache_matches (c_cache s) (cc_cache c)
      && negb (cc_shared c)   (* C09_waiter_reply_private: the model never shares a message between waiters *)
   then [] else [1])
  ++ (if forallb (fun p => forallb (fun q => obs_ok (fst q) (snd q)) (zip (fst p) (snd p))) (zip (cc_rounds c) (cc_obs c))
         && cache_ok (cc_cache c)
         && negb (cc_shared c)
         && forallb (fun p => round_calls_ok (fst p) (snd p)) (zip (cc_rounds c) (cc_calls c))
         && list_eqb (fun (a : list client_query) (b : list obs_outcome) => Nat.eqb (length a) (length b)) (cc_rounds c) (cc_obs c)
      then [] else [2])
  ++ (if (forallb (fun p => forallb (fun q => out_ok (fst q) (snd q)) (zip (fst p) (snd p))) (zip (cc_rounds c) outs)
          && cache_ok (map (fun e => (fst e, ce_ans (snd e))) (c_cache s))
          && forallb (fun p => round_calls_ok (fst p) (snd p)) (zip (cc_rounds c) mcalls))
         || negb (scripts_tagged (cc_udp c) && scripts_tagged (cc_tcp c) && forallb clients_in (cc_rounds c))
      then [] else [3]).

Definition sig_ctl (c : ctl_case) : N * N * N * N :=
  let '(outs, s) := run_rounds (cc_packed c) (cc_pnew c) (cc_fallback c) (cinit c) (cc_rounds c) in
  let flat := concat outs in
  (400 + N.of_nat (length flat),
   N.of_nat (length (filter (fun o => match o with OError => true | _ => false end) flat)),
   (if cc_fallback c then 1 else 0) + (if scripts_honest (cc_udp c) && scripts_honest (cc_tcp c) then 0 else 2)
   + (if cc_packed c then 4 else 0),
   N.of_nat (length (c_cache s)) * 16 + N.of_nat (length (concat (model_calls (cc_packed c) (cc_pnew c) (cc_fallback c) (cinit c) (cc_rounds c))))).

(* ------------------------------------------------------------------------------------------- *)
(* forwarder cache                                                                              *)
(* ------------------------------------------------------------------------------------------- *)
Record fcache_case := {
  kc_events : list kev;                 (* executed schedule: ends with the drain and a final closeAll *)
  kc_trace : list N;                    (* where the stepped query parked after each KQ event *)
  kc_results : list N;
  kc_closes : list (N * bool);          (* per instance in creation order: Close() count, closed in flight *)
  kc_cached : N                         (* entries left in the cache at the end *)
}.

Definition qpc_code (p : qpc) : N :=
  match p with QIdle => 0 | QCreating _ => 1 | QHold _ _ => 2 | QUsing _ => 3 | QEnded _ => 4 | QRetiring _ => 5 | QDone _ => 7 end.

Fixpoint fcache_trace (s : kstate) (evs : list kev) : list N :=
  match evs with
  | [] => []
  | e :: rest =>
      let s' := kstep true s e in
      match e with
      | KQ t => qpc_code (snd (nth t (k_qs s') (false, QIdle))) :: fcache_trace s' rest
      | _ => fcache_trace s' rest
      end
  end.

Definition q_result (q : bool * qpc) : N := match snd q with QDone r => r | _ => 9 end.

Definition check_fcache (c : fcache_case) : list N :=
  let s := krun true (kc_events c) in
  (if list_eqb N.eqb (fcache_trace kinit (kc_events c)) (kc_trace c)
      && list_eqb N.eqb (map q_result (k_qs s)) (kc_results c)
      && list_eqb N.eqb (map (fun en => if fe_closed en then 1 else 0) (k_ents s)) (map fst (kc_closes c))
      && Bool.eqb (k_bad s) (existsb snd (kc_closes c))
      && ((match k_cache s with Some _ => 1 | None => 0 end) =? kc_cached c)
   then [] else [1])
  ++ (if fcache_ok (kc_closes c) && (kc_cached c =? 0) then [] else [2])
  ++ (if k_quiescent s && forallb fe_closed (k_ents s) && negb (k_bad s)
         && match k_cache s with None => true | Some _ => false end then [] else [3]).

Definition sig_fcache (c : fcache_case) : N * N * N * N :=
  let s := krun true (kc_events c) in
  (500 + N.of_nat (length (k_qs s)), N.of_nat (length (k_ents s)),
   N.of_nat (length (filter (fun q => q_result q =? 1) (k_qs s))) * 4
   + N.of_nat (length (filter (fun q => q_result q =? 2) (k_qs s))),
   N.of_nat (length (filter (fun e => match e with KReload => true | _ => false end) (kc_events c)))).

(* ------------------------------------------------------------------------------------------- *)
(* one singleflight flight with clients of mixed kinds                                          *)
(* ------------------------------------------------------------------------------------------- *)
Fixpoint forallb2 {A B} (f : A -> B -> bool) (a : list A) (b : list B) : bool :=
  match a, b with
  | [], [] => true
  | x :: a', y :: b' => f x y && forallb2 f a' b'
  | _, _ => false
  end.

Definition flight_ok (wc nc : bool -> bool -> bool -> bool) (p : bool) (L : fclient) (Ws : list fclient)
           (pb : pubpoint) (up : fres) : bool :=
  forallb2 (flight_client_ok (flight_rcode L pb up)) (L :: Ws) (flight wc nc p L Ws pb up).

Record flight_case := {
  lc_p : bool;                       (* cached answers are served from pre-packed bytes *)
  lc_leader : fclient;
  lc_waiters : list fclient;
  lc_pub : pubpoint;
  lc_up : fres;
  lc_obs : list (list message)       (* per client (leader first): every reply it received, in order *)
}.

Definition flight_hyp (c : flight_case) : bool :=
  let k := key_of (cq_q (fc_q (lc_leader c))) in
  forallb (fun x => ckey_eqb (key_of (cq_q (fc_q x))) k && (q_class (cq_q (fc_q x)) =? 1) && (fc_w x || fc_lc x))
          (lc_leader c :: lc_waiters c)
  && match lc_pub c with
     | PNever => true
     | PWindow e | PBefore e => (ce_name e =? fst k) && (ce_type e =? snd k) && forallb (rr_for_key k) (ce_ans e)
     end
  && fres_tagged (lc_up c).

Definition check_flight (c : flight_case) : list N :=
  let model := flight wcr_writer_cond wcr_noconn_cond (lc_p c) (lc_leader c) (lc_waiters c) (lc_pub c) (lc_up c) in
  let rc := flight_rcode (lc_leader c) (lc_pub c) (lc_up c) in
  (if list_eqb (list_eqb message_eqb) model (lc_obs c) then [] else [1])
  ++ (if forallb2 (flight_client_ok rc) (lc_leader c :: lc_waiters c) (lc_obs c) then [] else [2])
  ++ (if forallb2 (flight_client_ok rc) (lc_leader c :: lc_waiters c) model || negb (flight_hyp c) then [] else [3]).

Definition sig_flight (c : flight_case) : N * N * N * N :=
  (600 + N.of_nat (length (lc_waiters c)),
   (if fc_lc (lc_leader c) then 1 else 0) + 2 * N.of_nat (length (filter fc_lc (lc_waiters c))),
   match lc_pub c with PNever => 1 | PWindow _ => 2 | PBefore _ => 3 end,
   flight_rcode (lc_leader c) (lc_pub c) (lc_up c)).

(* ------------------------------------------------------------------------------------------- *)
(* pipelined DNS-over-TCP fast path with a background refresh                                   *)
(* ------------------------------------------------------------------------------------------- *)
Record tcp_case := {
  tc_queries : list tq;               (* the queries of one connection, in order; the first one's key is seeded *)
  tc_ids : list N;
  tc_sched : list tev;                (* the driven schedule *)
  tc_serials : list (N * N);          (* canonical name -> serial of the upstream's answer *)
  tc_seed_serial : N;                 (* serial of the entry seeded for the first query *)
  tc_replies : list message;          (* replies read from the connection *)
  tc_later : client_query;            (* another client asks afterwards *)
  tc_later_reply : option message;
  tc_cache_a : option (question * list rr)   (* entry under the first query's key at the end *)
}.

Definition is_trdone (r : trpc) : bool := match r with TRDone => true | _ => false end.

Definition tcp_first (c : tcp_case) : question :=
  match tc_queries c with x :: _ => tq_q x | [] => {| q_name := 0; q_case := 0; q_type := 0; q_class := 1 |} end.

(* what the model expects under the first query's key: the question its entry answers and the records *)
Definition tcp_expected_entry (c : tcp_case) : question * list rr :=
  let qa := tcp_first c in
  let s := trun tcp_fresh_msg_per_query qa (tc_queries c) [(key_of qa, qa)] (tc_sched c) in
  let q := match klookup (key_of qa) (t_cache s) with Some q => q | None => qa end in
  let serial := if existsb is_trdone (t_refresh s)
                then match lookup (q_name q) (tc_serials c) with Some n => n | None => 0 end
                else tc_seed_serial c in
  ({| q_name := q_name q; q_case := 0; q_type := q_type q; q_class := 1 |},
   [{| rr_name := q_name q; rr_type := q_type q; rr_serial := serial |}]).

Definition entry_eqb (a b : question * list rr) : bool :=
  question_eqb (fst a) (fst b) && list_eqb rr_eqb (snd a) (snd b).

Definition check_tcp (c : tcp_case) : list N :=
  let qa := tcp_first c in
  let exp := tcp_expected_entry c in
  let s := trun tcp_fresh_msg_per_query qa (tc_queries c) [(key_of qa, qa)] (tc_sched c) in
  (if opt_eqb entry_eqb (Some exp) (tc_cache_a c)
      && opt_eqb message_eqb
           (Some {| m_id := cq_id (tc_later c); m_q := Some (fst exp); m_rcode := 0; m_tc := false; m_ans := snd exp |})
           (tc_later_reply c)
   then [] else [1])
  ++ (if forallb2 (fun iq m => reply_ok {| cq_id := fst iq; cq_q := tq_q (snd iq) |} m)
                  (zip (tc_ids c) (tc_queries c)) (tc_replies c)
         && match tc_later_reply c with Some m => reply_ok (tc_later c) m | None => false end
         && match tc_cache_a c with
            | Some (q, ans) => question_equiv q qa && forallb (rr_answers qa) ans
            | None => false
            end
      then [] else [2])
  ++ (if tcache_ok (t_cache s) then [] else [3]).

(* number of reads that happened before the refresh copied its message *)
Fixpoint reads_before_copy (evs : list tev) : N :=
  match evs with
  | [] => 0
  | TRefresh _ :: _ => 0
  | TRead :: r => 1 + reads_before_copy r
  | _ :: r => reads_before_copy r
  end.

Definition sig_tcp (c : tcp_case) : N * N * N * N :=
  let qa := tcp_first c in
  let s := trun tcp_fresh_msg_per_query qa (tc_queries c) [(key_of qa, qa)] (tc_sched c) in
  (700 + N.of_nat (length (tc_queries c)),
   N.of_nat (length (filter is_trdone (t_refresh s))),
   reads_before_copy (tc_sched c),
   if tcache_ok (t_cache s) then 0 else 1).

(* ------------------------------------------------------------------------------------------- *)
(* ip_version_prefer: the two resolutions of one name                                            *)
(* ------------------------------------------------------------------------------------------- *)
Record pref_case := {
  pf_order : pref_order;
  pf_cN : client_query; pf_cP : client_query;     (* the client of the non-preferred / preferred type *)
  pf_mN : message; pf_mP : message;               (* the upstream's answers *)
  pf_lN : client_query; pf_lP : client_query;     (* clients asking the same two questions afterwards *)
  pf_obs : list obs_outcome                       (* replies to cN, cP, lN, lP *)
}.

Definition pref_expected (c : pref_case) : list message :=
  let rN := pref_release pref_returns_own (pf_order c) (pf_mN c) (pf_mP c) in
  [pref_reply (pf_cN c) rN; pref_reply (pf_cP c) (pf_mP c); pref_reply (pf_lN c) rN; pref_reply (pf_lP c) (pf_mP c)].

Definition check_pref (c : pref_case) : list N :=
  let cls := [pf_cN c; pf_cP c; pf_lN c; pf_lP c] in
  let rcs := [m_rcode (pf_mN c); m_rcode (pf_mP c); m_rcode (pf_mN c); m_rcode (pf_mP c)] in
  (if list_eqb (fun m b => match b with BReply m' => message_eqb m m' | _ => false end) (pref_expected c) (pf_obs c)
   then [] else [1])
  ++ (if forallb2 (fun cr b => match b with BReply m => reply_ok (fst cr) m && (m_rcode m =? snd cr) | _ => false end)
                  (zip cls rcs) (pf_obs c) then [] else [2])
  ++ (if forallb2 (fun cr m => reply_ok (fst cr) m && (m_rcode m =? snd cr)) (zip cls rcs) (pref_expected c)
         || negb (fres_tagged (FMsg (pf_mN c)) && fres_tagged (FMsg (pf_mP c))
                  && question_checked (cq_q (pf_cN c)) (pf_mN c) && question_checked (cq_q (pf_cP c)) (pf_mP c)
                  && forallb (fun x => q_class (cq_q x) =? 1) cls
                  && question_equiv (cq_q (pf_lN c)) (cq_q (pf_cN c)) && question_equiv (cq_q (pf_lP c)) (cq_q (pf_cP c)))
      then [] else [3]).

Definition sig_pref (c : pref_case) : N * N * N * N :=
  (800 + q_type (cq_q (pf_cP c)),
   match pf_order c with NFirstInTime => 1 | NFirstTimeout => 2 | PFirst => 3 end,
   (if match m_ans (pf_mN c) with [] => true | _ => false end then 0 else 1)
   + (if match m_ans (pf_mP c) with [] => true | _ => false end then 0 else 2),
   m_rcode (pf_mN c) * 16 + m_rcode (pf_mP c)).

(* ------------------------------------------------------------------------------------------- *)
Inductive acase := AFwd (c : fwd_case) | APipe (c : pipe_case) | AUdp (c : udp_case) | ACtl (c : ctl_case)
                 | AFcache (c : fcache_case) | AFlight (c : flight_case) | ATcp (c : tcp_case) | APref (c : pref_case).

Definition check_case (a : acase) : list N :=
  match a with AFwd c => check_fwd c | APipe c => check_pipe c | AUdp c => check_udp c | ACtl c => check_ctl c
          | AFcache c => check_fcache c | AFlight c => check_flight c | ATcp c => check_tcp c | APref c => check_pref c end.

Definition case_signature (a : acase) : N * N * N * N :=
  match a with AFwd c => sig_fwd c | APipe c => sig_pipe c | AUdp c => sig_udp c | ACtl c => sig_ctl c
          | AFcache c => sig_fcache c | AFlight c => sig_flight c | ATcp c => sig_tcp c | APref c => sig_pref c end.
