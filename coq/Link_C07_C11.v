(* Link C07 + C11 — DNS request / response routing by the first matching rule, with the REAL domain matcher.

   C07_request_first_match, C07_response_first_match and C07_answer_refines assume [C07_domain_oracle_agrees b bm q]:
   bit i of the bitmap the domain matcher returned for the question name is readable and is the meaning of the
   domain set the builder registered under index i.  Here the bitmap is C11's model of AhocorasickSlimtrie fed
   with exactly the sets RequestMatcherBuilder / ResponseMatcherBuilder register ([b_domsets]) and queried with the
   RAW question name (MatchDomainBitmap normalises itself, C07's spec normalises with norm_name: the adapter
   [bytes_norm_name] shows the two normalisations are the same function).  The oracle hypothesis is DISCHARGED
   from C11_matcher_packed_partial.  See the end of the file for what remains and the mismatch found. *)
From Coq Require Import List Arith NArith Bool String Ascii Lia ZifyBool ZifyN ZifyNat.
From Dae Require Import C11_Spec C11_Model C11_Louds C11_Proofs C11_Layer3 C11_Props.
From Dae.gen Require Import C11_Extracted.
From Dae Require Import Link_DomainAdapter.
From Dae Require Import C07_Spec C07_Model C07_Proofs C07_Props.
From Dae.gen Require Import C07_Consts.
Import ListNotations.
Open Scope N_scope.

(* ---------- adapters: kinds, sets, normalisation ---------- *)
Definition kind_of_dkind (k : dkind) : C11_Spec.kind :=
  match k with DFull => C11_Spec.KFull | DSuffix => C11_Spec.KSuffix | DKeyword => C11_Spec.KKeyword | DRegex => C11_Spec.KRegex end.

Lemma domain_holds_s : forall k s d hits,
  C07_Spec.domain_holds k s d hits = s_domain_holds_rx (kind_of_dkind k) s d hits.
Proof. intros [] s d hits; reflexivity. Qed.

Definition pset_of (ds : domset) : pset := (ds_index ds, kind_of_dkind (ds_key ds), map bytes (ds_domains ds)).
Definition c07_sets (b : builder) : list pset := map pset_of (b_domsets b).

Lemma norm_name_s : forall s, norm_name s = s_norm s.
Proof.
  intros s. unfold norm_name, s_norm.
  assert (L : forall t, lower_str t = s_lower t) by (induction t as [|c t IH]; cbn; [reflexivity | now rewrite IH]).
  assert (S : forall t, C07_Spec.strip_dot t = s_strip_dot t).
  { induction t as [|c t IH]; [reflexivity|]. destruct t as [|c' t']; [reflexivity|].
    change (C07_Spec.strip_dot (String c (String c' t'))) with (String c (C07_Spec.strip_dot (String c' t'))).
    change (s_strip_dot (String c (String c' t'))) with (String c (s_strip_dot (String c' t'))). now rewrite IH. }
  now rewrite S, L.
Qed.

(* C07's normalisation of a question name IS C11's *)
Lemma bytes_norm_name : forall s, bytes (norm_name s) = normalize (bytes s).
Proof. intros s. rewrite norm_name_s. apply bytes_s_norm. Qed.

(* the only names that normalise to the empty name: "" and the root "." *)
Lemma norm_name_empty : forall s, norm_name s = ""%string -> s = ""%string \/ s = "."%string.
Proof. intros s. rewrite norm_name_s. apply s_norm_empty. Qed.

(* ---------- the builders register each domain set under a fresh index ---------- *)
Definition dinv (b : builder) : Prop :=
  NoDup (map ds_index (b_domsets b)) /\
  forall i, In i (map ds_index (b_domsets b)) -> i < N.of_nat (List.length (b_rules b)).

Definition grows (b b' : builder) : Prop :=
  (List.length (b_rules b) <= List.length (b_rules b'))%nat /\ b_domsets b' = b_domsets b.

Lemma grows_refl b : grows b b.
Proof. split; [lia | reflexivity]. Qed.
Lemma grows_trans b1 b2 b3 : grows b1 b2 -> grows b2 b3 -> grows b1 b3.
Proof. intros [L1 D1] [L2 D2]. split; [lia | congruence]. Qed.
Lemma grows_append b m : grows b (append_rule b m).
Proof. split; [cbn; rewrite app_length; cbn; lia | reflexivity]. Qed.
Lemma grows_dinv b b' : grows b b' -> dinv b -> dinv b'.
Proof.
  intros [L D] [N1 N2]. split; rewrite D; [exact N1|]. intros i Hi. specialize (N2 i Hi). lia.
Qed.

Lemma NoDup_snoc {A} (l : list A) x : NoDup l -> ~ In x l -> NoDup (l ++ [x]).
Proof.
  induction l as [|a l IH]; intros Hn Hx; cbn; [constructor; [intros []|constructor]|].
  inversion Hn as [|? ? Ha Hl]; subst. constructor.
  - intro H. apply in_app_or in H as [H|[H|[]]]; [now apply Ha | subst; apply Hx; now left].
  - apply IH; [exact Hl | intro H; apply Hx; now right].
Qed.

Lemma add_qname_dinv sd ups b neg key vals upname b' :
  add_qname sd ups b neg key vals upname = Ok b' -> dinv b -> dinv b'.
Proof.
  unfold add_qname. destruct (upstream_to_id sd ups upname); [|discriminate].
  intros H [N1 N2]. inversion H; subst. clear H. unfold dinv. cbn [append_rule b_domsets b_rules].
  rewrite map_app, app_length. cbn [map ds_index List.length]. split.
  - apply NoDup_snoc; [exact N1|]. intro Hin. specialize (N2 _ Hin). lia.
  - intros i Hi. apply in_app_or in Hi as [Hi|[<-|[]]]; [specialize (N2 i Hi)|]; lia.
Qed.

Lemma add_qtype_grows : forall vals sd ups b neg upname b', add_qtype sd ups b neg vals upname = Ok b' -> grows b b'.
Proof.
  induction vals as [|v vals IH]; intros sd ups b neg upname b' H; cbn [add_qtype] in H.
  - inversion H; subst. apply grows_refl.
  - destruct (upstream_to_id sd ups _); [|discriminate].
    apply IH in H. eapply grows_trans; [apply grows_append | exact H].
Qed.
Lemma add_upstream_grows : forall vals ups b neg upname b', add_upstream ups b neg vals upname = Ok b' -> grows b b'.
Proof.
  induction vals as [|v vals IH]; intros ups b neg upname b' H; cbn [add_upstream] in H.
  - inversion H; subst. apply grows_refl.
  - destruct (upstream_to_id Response ups _); [|discriminate].
    destruct (upstream_to_id Response ups v); [|discriminate].
    apply IH in H. eapply grows_trans; [apply grows_append | exact H].
Qed.
Lemma add_ip_grows ups b neg ps upname b' : add_ip ups b neg ps upname = Ok b' -> grows b b'.
Proof.
  unfold add_ip. destruct (upstream_to_id Response ups upname); [|discriminate].
  intro H. inversion H; subst. split; [cbn; rewrite app_length; cbn; lia | reflexivity].
Qed.

Lemma apply_qname_groups_dinv : forall gs sd ups b neg lf target b',
  apply_qname_groups sd ups b neg gs lf target = Ok b' -> dinv b -> dinv b'.
Proof.
  induction gs as [|[k vals] gs IH]; intros sd ups b neg lf target b' H Hd; cbn [apply_qname_groups] in H.
  - now inversion H; subst.
  - match type of H with match ?c with Ok _ => _ | Err _ => _ end = _ => destruct c as [b1|] eqn:E; [|discriminate] end.
    apply add_qname_dinv in E; [|exact Hd]. exact (IH _ _ _ _ _ _ _ H E).
Qed.

Lemma apply_func_dinv sd ups b c lf target b' : apply_func sd ups b c lf target = Ok b' -> dinv b -> dinv b'.
Proof.
  unfold apply_func. intros H Hd. destruct (c_body c) as [ps|ts|ps|ns].
  - exact (apply_qname_groups_dinv _ _ _ _ _ _ _ _ H Hd).
  - destruct ts; [now inversion H; subst|]. apply add_qtype_grows in H. exact (grows_dinv _ _ H Hd).
  - destruct sd; [discriminate|]. destruct ps; [now inversion H; subst|]. apply add_ip_grows in H. exact (grows_dinv _ _ H Hd).
  - destruct sd; [discriminate|]. destruct ns; [now inversion H; subst|]. apply add_upstream_grows in H. exact (grows_dinv _ _ H Hd).
Qed.

Lemma apply_funcs_dinv : forall cs sd ups b target b', apply_funcs sd ups b cs target = Ok b' -> dinv b -> dinv b'.
Proof.
  induction cs as [|c cs IH]; intros sd ups b target b' H Hd; cbn [apply_funcs] in H.
  - now inversion H; subst.
  - match type of H with match ?c with Ok _ => _ | Err _ => _ end = _ => destruct c as [b1|] eqn:E; [|discriminate] end.
    apply apply_func_dinv in E; [|exact Hd]. exact (IH _ _ _ _ _ H E).
Qed.

Lemma apply_rules_dinv : forall rs sd ups b b', apply_rules sd ups b rs = Ok b' -> dinv b -> dinv b'.
Proof.
  induction rs as [|r rs IH]; intros sd ups b b' H Hd; cbn [apply_rules] in H.
  - now inversion H; subst.
  - match type of H with match ?c with Ok _ => _ | Err _ => _ end = _ => destruct c as [b1|] eqn:E; [|discriminate] end.
    apply apply_funcs_dinv in E; [|exact Hd]. exact (IH _ _ _ _ H E).
Qed.

Lemma build_matcher_dinv sd ups rt b : build_matcher sd ups rt = Ok b -> dinv b.
Proof.
  unfold build_matcher.
  destruct (apply_rules sd ups empty_builder (rt_rules rt)) as [b1|] eqn:E; [|discriminate].
  apply apply_rules_dinv in E; [|split; [constructor | intros i []]].
  unfold add_fallback. destruct (upstream_to_id sd ups (rt_fallback rt)); [|discriminate].
  match goal with |- match ?c with Some _ => _ | None => _ end = _ -> _ => destruct c as [m|]; [|discriminate] end.
  destruct (m_type m =? MatchType_Fallback); [|discriminate].
  intro H. inversion H; subst. exact (grows_dinv _ _ (grows_append _ _) E).
Qed.

Lemma dns_new_dinv cfg d : dns_new cfg = Ok d -> dinv (d_req d) /\ dinv (d_resp d).
Proof.
  unfold dns_new. destruct (_ <? _); [discriminate|].
  destruct (build_matcher Request _ _) as [rq|] eqn:E1; [|discriminate].
  destruct (build_matcher Response _ _) as [rp|] eqn:E2; [|discriminate].
  intro H. inversion H; subst. cbn [d_req d_resp].
  split; [exact (build_matcher_dinv _ _ _ _ E1) | exact (build_matcher_dinv _ _ _ _ E2)].
Qed.

Lemma c07_sets_nodup b : dinv b -> NoDup (map ps_idx (c07_sets b)).
Proof. intros [H _]. unfold c07_sets. rewrite map_map. exact H. Qed.

(* ---------- side conditions of the composition ---------- *)
(* every domain set sits below the bit length the matcher is created with (consts.MaxMatchSetLen = 1024).  The Go
   builders refuse more than 1024 match-sets ("too many dns ... routing match sets"); C07's build_matcher does not
   model that check, hence the explicit premise *)
Definition c07_idx_ok (b : builder) : bool := forallb (fun ds => ds_index ds <? c11_nbits) (b_domsets b).

Lemma c07_idx_ok_of_rule_count : forall b,
  dinv b -> N.of_nat (List.length (b_rules b)) <= MaxMatchSetLen -> c07_idx_ok b = true.
Proof.
  intros b [_ H] Hle. apply forallb_forall. intros ds Hin. apply N.ltb_lt.
  pose proof (H (ds_index ds) (in_map ds_index _ _ Hin)). unfold MaxMatchSetLen in Hle. unfold c11_nbits. lia.
Qed.

(* one regexp engine behind both oracles: q_regex_hits lists the regex patterns of the rules that match the
   normalised name; rx is C11's MatchString oracle (called on the normalised name) *)
Definition c07_regex_oracles_agree (b : builder) (rx : str -> str -> bool) (q : question) : Prop :=
  forall ds s, In ds (b_domsets b) -> ds_key ds = DRegex -> In s (ds_domains ds) ->
    existsb (String.eqb s) (q_regex_hits q) = rx (bytes s) (bytes (norm_name (q_name q))).

(* no EMPTY full / suffix / keyword pattern.  Needed for the root question "." only: MatchDomainBitmap then runs on
   the empty name, which C11 (and the Go code) let `full: ""` and `suffix: ""` match, while C07_Spec guards these
   kinds against the empty name (residual mismatch, Link_C07_C11_root_empty_pattern_mismatch) *)
Definition c07_no_empty_pattern (b : builder) : bool :=
  forallb (fun ds => match ds_key ds with
                     | DRegex => true
                     | _ => forallb (fun s => negb (String.eqb s "")) (ds_domains ds)
                     end) (b_domsets b).

(* all the premises one matcher (request or response side) needs *)
Record c07_side_ok (b : builder) (rx_ok : str -> bool) (rx : str -> str -> bool) (q : question) : Prop := {
  so_kw : kw_nonempty (c07_sets b) = true;        (* no empty keyword (open finding C11/keyword-empty) *)
  so_size : sets_size_ok (c07_sets b);            (* key bytes per index < 2^63 *)
  so_rx : sets_ok rx_ok (c07_sets b) = true;      (* every regexp compiles *)
  so_idx : c07_idx_ok b = true;                   (* domain sets below bit 1024 *)
  so_root : q_name q = "."%string -> c07_no_empty_pattern b = true;   (* root question: no empty pattern *)
  so_oracle : c07_regex_oracles_agree b rx q }.

(* reqMatcher/respMatcher.domainMatcher.MatchDomainBitmap(qName) *)
Definition c07_bm (rx : str -> str -> bool) (m : C11_Model.matcher ptrie) (q : question) : list N :=
  c11_bitmap rx m (bytes (q_name q)).

(* ---------- the oracle hypothesis of C07, discharged ---------- *)
Lemma c07_oracle_discharged : forall b q rx_ok rx m,
  dinv b -> c07_side_ok b rx_ok rx q ->
  c11_build rx_ok (c07_sets b) = Some m ->
  name_ok (bytes (q_name q)) = true ->
  q_name q <> ""%string ->
  C07_domain_oracle_agrees b (c07_bm rx m q) q.
Proof.
  intros b q rx_ok rx m Hd [Hk Hs Ho Hidx Hroot Hrx] Hb Hn Hne ds Hin.
  destruct (c11_build_bit rx_ok rx (c07_sets b) Hk Hs Ho) as [m' [Hb' Hbit]].
  rewrite Hb in Hb'. inversion Hb'; subst m'. clear Hb'.
  assert (Hlt : ds_index ds < c11_nbits).
  { unfold c07_idx_ok in Hidx. rewrite forallb_forall in Hidx. apply N.ltb_lt. now apply Hidx. }
  unfold bm_read, c07_bm. rewrite c11_bitmap_nth.
  replace (ds_index ds <? c11_nbits) with true by (symmetry; now apply N.ltb_lt).
  f_equal. rewrite word_of_read, (Hbit _ _ Hn).
  assert (Hin' : In (pset_of ds) (c07_sets b)) by (unfold c07_sets; now apply in_map).
  pose proof (bit_nodup rx (c07_sets b) (bytes (q_name q)) _ (c07_sets_nodup b Hd) Hin') as Hb1.
  change (ps_idx (pset_of ds)) with (ds_index ds) in Hb1. rewrite Hb1. clear Hb1.
  unfold set_matches, pset_of, ps_kind, ps_pats. cbn [fst snd].
  rewrite <- bytes_norm_name.
  rewrite existsb_map_c. apply existsb_ext_in. intros s Hs'.
  rewrite domain_holds_s. symmetry.
  apply s_domain_holds_rx_pat_matches; [rewrite bytes_norm_name; now apply normalize_pat_ok | |].
  - (* the normalised name is empty: the question is the root, and no pattern of these kinds is empty *)
    intros He Hk' ->. destruct (norm_name_empty _ He) as [E|E]; [contradiction|].
    specialize (Hroot E). unfold c07_no_empty_pattern in Hroot. rewrite forallb_forall in Hroot. specialize (Hroot ds Hin).
    destruct (ds_key ds); try (now apply Hk');
      (rewrite forallb_forall in Hroot; specialize (Hroot _ Hs'); discriminate Hroot).
  - intro Hk'. apply (Hrx ds s Hin); [|exact Hs']. destruct (ds_key ds); try discriminate Hk'. reflexivity.
Qed.

Lemma dns_new_raw_dinv rc d : dns_new_raw rc = Ok d -> dinv (d_req d) /\ dinv (d_resp d).
Proof.
  unfold dns_new_raw. destruct (_ <? _); [discriminate|].
  destruct (split_request_rules (rc_request rc)) as [sp|]; [|discriminate]. apply dns_new_dinv.
Qed.

(* ---------- the composed theorems ---------- *)
(* REQUEST ROUTING = FIRST MATCH with the real matcher.  Any name: any case, trailing dot, the root name ".", also a
   message without question name *)
Theorem Link_request_with_real_domain_matcher :
  forall (cfg : config) (d : dns) (q : question) (rx_ok : str -> bool) (rx : str -> str -> bool),
    wf_config cfg = true -> dns_new cfg = Ok d ->
    c07_side_ok (d_req d) rx_ok rx q ->
    name_ok (bytes (q_name q)) = true ->
    (q_name q = ""%string -> q_regex_hits q = []) ->     (* C07's own: no name, no regex hits *)
    exists m, c11_build rx_ok (c07_sets (d_req d)) = Some m /\
      exists v, request_route cfg q = Some v /\ request_select d (c07_bm rx m q) q = Ok v.
Proof.
  intros cfg d q rx_ok rx Hwf Hnew Hside Hn Hhits.
  destruct (c11_build_bit rx_ok rx _ (so_kw _ _ _ _ Hside) (so_size _ _ _ _ Hside) (so_rx _ _ _ _ Hside)) as [m [Hb _]].
  exists m. split; [exact Hb|].
  apply (C07_request_first_match cfg d _ q Hwf Hnew Hhits). intro Hne.
  exact (c07_oracle_discharged _ q rx_ok rx m (proj1 (dns_new_dinv cfg d Hnew)) Hside Hb Hn Hne).
Qed.
Print Assumptions Link_request_with_real_domain_matcher.

(* the same on the request list AS WRITTEN (with the internal sub / node / subnode selector rules split off) *)
Theorem Link_request_raw_with_real_domain_matcher :
  forall (rc : rconfig) (d : dns) (q : question) (rx_ok : str -> bool) (rx : str -> str -> bool),
    wf_rconfig rc = true -> dns_new_raw rc = Ok d ->
    c07_side_ok (d_req d) rx_ok rx q ->
    name_ok (bytes (q_name q)) = true ->
    (q_name q = ""%string -> q_regex_hits q = []) ->
    exists m, c11_build rx_ok (c07_sets (d_req d)) = Some m /\
      exists v, request_route_raw rc q = Some v /\ request_select d (c07_bm rx m q) q = Ok v.
Proof.
  intros rc d q rx_ok rx Hwf Hnew Hside Hn Hhits.
  destruct (c11_build_bit rx_ok rx _ (so_kw _ _ _ _ Hside) (so_size _ _ _ _ Hside) (so_rx _ _ _ _ Hside)) as [m [Hb _]].
  exists m. split; [exact Hb|].
  apply (C07_request_first_match_raw rc d _ q Hwf Hnew Hhits). intro Hne.
  exact (c07_oracle_discharged _ q rx_ok rx m (proj1 (dns_new_raw_dinv rc d Hnew)) Hside Hb Hn Hne).
Qed.
Print Assumptions Link_request_raw_with_real_domain_matcher.

(* RESPONSE ROUTING = FIRST MATCH with the real matcher *)
Theorem Link_response_with_real_domain_matcher :
  forall (cfg : config) (d : dns) (q : question) (ans : list rr) (from : src) (rx_ok : str -> bool) (rx : str -> str -> bool),
    wf_config cfg = true -> dns_new cfg = Ok d ->
    c07_side_ok (d_resp d) rx_ok rx q ->
    name_ok (bytes (q_name q)) = true ->
    q_name q <> ""%string ->
    exists m, c11_build rx_ok (c07_sets (d_resp d)) = Some m /\
      exists v, response_route cfg q ans from = Some v /\ response_select d (c07_bm rx m q) q ans from = Ok v.
Proof.
  intros cfg d q ans from rx_ok rx Hwf Hnew Hside Hn Hne.
  destruct (c11_build_bit rx_ok rx _ (so_kw _ _ _ _ Hside) (so_size _ _ _ _ Hside) (so_rx _ _ _ _ Hside)) as [m [Hb _]].
  exists m. split; [exact Hb|].
  apply (C07_response_first_match cfg d _ q ans from Hwf Hnew Hne).
  exact (c07_oracle_discharged _ q rx_ok rx m (proj2 (dns_new_dinv cfg d Hnew)) Hside Hb Hn Hne).
Qed.
Print Assumptions Link_response_with_real_domain_matcher.

(* THE CONTROLLER FOLLOWS THE RULES with both real matchers: HandleWithResponseWriter_/dialSend produce the
   spec's outcome, upstream queries and cache *)
Theorem Link_answer_with_real_domain_matcher :
  forall (cfg : config) (d : dns) (c : cache) (q : question) (a : answers) (fuel : nat)
         (rx_ok : str -> bool) (rx : str -> str -> bool),
    wf_config cfg = true -> dns_new cfg = Ok d ->
    c07_side_ok (d_req d) rx_ok rx q -> c07_side_ok (d_resp d) rx_ok rx q ->
    name_ok (bytes (q_name q)) = true ->
    q_name q <> ""%string ->
    (N.to_nat MaxDnsLookupDepth < fuel)%nat ->
    exists mq mr, c11_build rx_ok (c07_sets (d_req d)) = Some mq /\ c11_build rx_ok (c07_sets (d_resp d)) = Some mr /\
      handle fuel d (c07_bm rx mq q) (c07_bm rx mr q) c q a
      = (let '(o, l, c') := answer_question (N.to_nat MaxDnsLookupDepth) cfg c q a in (res_of_outcome o, l, c')).
Proof.
  intros cfg d c q a fuel rx_ok rx Hwf Hnew Hsq Hsr Hn Hne Hfuel.
  destruct (c11_build_bit rx_ok rx _ (so_kw _ _ _ _ Hsq) (so_size _ _ _ _ Hsq) (so_rx _ _ _ _ Hsq)) as [mq [Hbq _]].
  destruct (c11_build_bit rx_ok rx _ (so_kw _ _ _ _ Hsr) (so_size _ _ _ _ Hsr) (so_rx _ _ _ _ Hsr)) as [mr [Hbr _]].
  exists mq, mr. split; [exact Hbq|]. split; [exact Hbr|].
  destruct (dns_new_dinv cfg d Hnew) as [Dq Dr].
  apply (C07_answer_refines cfg d _ _ c q a fuel Hwf Hnew Hne); [| |exact Hfuel].
  - exact (c07_oracle_discharged _ q rx_ok rx mq Dq Hsq Hbq Hn Hne).
  - exact (c07_oracle_discharged _ q rx_ok rx mr Dr Hsr Hbr Hn Hne).
Qed.
Print Assumptions Link_answer_with_real_domain_matcher.

(* ---------- non-vacuity, the root question, and the residual mismatch, on concrete sections ---------- *)
Lemma with_build : forall rx_ok sets (P : C11_Model.matcher ptrie -> Prop),
  match c11_build rx_ok sets with Some m => P m | None => False end ->
  exists m, c11_build rx_ok sets = Some m /\ P m.
Proof. intros rx_ok sets P H. destruct (c11_build rx_ok sets) as [m|]; [now exists m | destruct H]. Qed.

Ltac lk_c := vm_compute; reflexivity.
Ltac lk_size :=
  match goal with
  | |- sets_size_ok ?s =>
      let v := eval vm_compute in s in change s with v;
      let j := fresh "j" in
      intro j; unfold size_ok, at_idx; cbn [flat_map ps_idx fst snd];
      repeat match goal with |- context [N.eqb ?a j] => destruct (N.eqb a j) end; vm_compute; reflexivity
  end.
Ltac lk_norx :=
  let ds := fresh "ds" in let s := fresh "s" in let Hin := fresh "Hin" in let Hk := fresh "Hk" in let Hs := fresh "Hs" in
  intros ds s Hin Hk Hs; exfalso; vm_compute in Hin;
  repeat (destruct Hin as [Hin|Hin]; [subst ds; cbn in Hk; discriminate Hk|]); destruct Hin.

Definition lk_rx_ok : str -> bool := fun _ => true.
Definition lk_rx0 : str -> str -> bool := fun _ _ => false.

(* C07's own example section (suffix / full patterns, negation, qtype; response rules on upstream and ip) and its
   question "WWW.Example.COM." (upper case, trailing dot): every premise holds, and the pipeline with the real
   matcher sends it to upstream 1, as request_route says *)
Example Link_C07_C11_nonvacuous :
  exists d, dns_new ex_cfg = Ok d /\
    c07_side_ok (d_req d) lk_rx_ok lk_rx0 (ex_q 1) /\ c07_side_ok (d_resp d) lk_rx_ok lk_rx0 (ex_q 1) /\
    name_ok (bytes (q_name (ex_q 1))) = true /\ q_name (ex_q 1) <> ""%string /\ q_name (ex_q 1) <> "."%string /\
    request_route ex_cfg (ex_q 1) = Some (QUp 1) /\
    exists m, c11_build lk_rx_ok (c07_sets (d_req d)) = Some m /\
      request_select d (c07_bm lk_rx0 m (ex_q 1)) (ex_q 1) = Ok (QUp 1).
Proof.
  eexists. split; [vm_compute; reflexivity|].
  split; [constructor; [lk_c | lk_size | lk_c | lk_c | discriminate | lk_norx]|].
  split; [constructor; [lk_c | intro j; vm_compute; reflexivity | lk_c | lk_c | discriminate | lk_norx]|].
  split; [lk_c|]. split; [discriminate|]. split; [discriminate|]. split; [lk_c|].
  apply with_build. lk_c.
Qed.

(* REPAIRED MISMATCH (was Link_C07_C11_root_name_mismatch).  C07_Spec.domain_holds used to guard every kind against
   the empty normalised name; it no longer guards regexps.  The former witness — request rule
   `qname(regex: ".*") -> reject`, fallback asis, the root question "." (regexp oracle: ".*" matches "") — now
   satisfies every premise of the composed theorem, and request_route and the pipeline agree on reject. *)
Definition root_cfg : config :=
  {| cf_upstreams := [];
     cf_request := {| rt_rules := [ {| r_conds := [ {| c_neg := false; c_body := BQName [(DRegex, ".*"%string)] |} ];
                                       r_target := "reject" |} ];
                      rt_fallback := "asis" |};
     cf_response := {| rt_rules := []; rt_fallback := "accept" |} |}.
Definition root_q : question := {| q_name := "."; q_type := 1; q_regex_hits := [".*"%string] |}.
Definition root_rx : str -> str -> bool := fun pat _ => str_eqb pat (bytes ".*").

Theorem Link_C07_C11_root_name_agrees :
  wf_config root_cfg = true /\
  exists d, dns_new root_cfg = Ok d /\
    c07_side_ok (d_req d) lk_rx_ok root_rx root_q /\
    name_ok (bytes (q_name root_q)) = true /\ q_name root_q = "."%string /\
    (q_name root_q = ""%string -> q_regex_hits root_q = []) /\
    request_route root_cfg root_q = Some QReject /\
    exists m, c11_build lk_rx_ok (c07_sets (d_req d)) = Some m /\
      request_select d (c07_bm root_rx m root_q) root_q = Ok QReject.
Proof.
  split; [lk_c|]. eexists. split; [vm_compute; reflexivity|].
  split.
  { constructor; [lk_c | lk_size | lk_c | lk_c | intros _; lk_c |].
    intros ds s Hin Hk Hs. vm_compute in Hin. destruct Hin as [<-|[]]. cbn in Hs. destruct Hs as [<-|[]]. lk_c. }
  split; [lk_c|]. split; [reflexivity|]. split; [discriminate|]. split; [lk_c|].
  apply with_build. lk_c.
Qed.
Print Assumptions Link_C07_C11_root_name_agrees.

(* RESIDUAL MISMATCH (finding, narrower than the repaired one).  For the root question the matcher runs on the empty
   name, and C11 (spec, model, Go: the key "^$" / the keys "." and "^") lets the EMPTY pattern of kind full or suffix
   match it, while C07_Spec guards full / suffix / keyword against the empty name.  Witness: request rule
   `qname(full: "") -> reject`, fallback asis, question ".": every premise except so_root (no empty pattern) holds;
   request_route says asis, the pipeline rejects.  (C01 has the same corner: Link_C01_C11_root_name_needed.) *)
Definition root_cfg_empty_full : config :=
  {| cf_upstreams := [];
     cf_request := {| rt_rules := [ {| r_conds := [ {| c_neg := false; c_body := BQName [(DFull, ""%string)] |} ];
                                       r_target := "reject" |} ];
                      rt_fallback := "asis" |};
     cf_response := {| rt_rules := []; rt_fallback := "accept" |} |}.
Definition root_q0 : question := {| q_name := "."; q_type := 1; q_regex_hits := [] |}.

Theorem Link_C07_C11_root_empty_pattern_mismatch :
  wf_config root_cfg_empty_full = true /\
  exists d, dns_new root_cfg_empty_full = Ok d /\
    kw_nonempty (c07_sets (d_req d)) = true /\ sets_size_ok (c07_sets (d_req d)) /\
    sets_ok lk_rx_ok (c07_sets (d_req d)) = true /\ c07_idx_ok (d_req d) = true /\
    c07_regex_oracles_agree (d_req d) lk_rx0 root_q0 /\
    c07_no_empty_pattern (d_req d) = false /\
    name_ok (bytes (q_name root_q0)) = true /\
    request_route root_cfg_empty_full root_q0 = Some QAsIs /\
    exists m, c11_build lk_rx_ok (c07_sets (d_req d)) = Some m /\
      request_select d (c07_bm lk_rx0 m root_q0) root_q0 = Ok QReject.
Proof.
  split; [lk_c|]. eexists. split; [vm_compute; reflexivity|].
  split; [lk_c|]. split; [lk_size|]. split; [lk_c|]. split; [lk_c|]. split; [lk_norx|].
  split; [lk_c|]. split; [lk_c|]. split; [lk_c|].
  apply with_build. lk_c.
Qed.
Print Assumptions Link_C07_C11_root_empty_pattern_mismatch.

(* DISCHARGED: C07_domain_oracle_agrees for the request and for the response matcher (the C11 interface hypothesis
     of C07_request_first_match, C07_request_first_match_raw, C07_response_first_match, C07_answer_refines), from
     C11_matcher_packed_partial + the fresh-index invariant of the two builders (build_matcher_dinv, proved here) +
     the adapters of Link_DomainAdapter.v + bytes_norm_name (norm_name = C11's normalize: any case, trailing dot).
   REMAINING (record c07_side_ok and the theorem premises):
     - C11's side conditions: kw_nonempty, sets_size_ok, sets_ok (regexps compile), name_ok of the question name;
     - c07_idx_ok: domain sets below bit 1024 (implied by <= MaxMatchSetLen match-sets, c07_idx_ok_of_rule_count;
       the Go builders check this, C07's build_matcher does not model the check);
     - so_root: for the root question ".", no EMPTY full / suffix / keyword pattern in the rules (residual mismatch);
     - c07_regex_oracles_agree: q_regex_hits (C07) and rx (C11) are answers of the same regexp engine;
     - C07's own `q_name q = "" -> q_regex_hits q = []` on the request side.
   The composed statements hold for the root name and (request side) for a message without name, as C07's do.
   The CIDR trie behind ip() response rules is still C07's direct model (px_covers). *)
