(* C09 — every DNS client gets an answer to its own question under its own ID.
   Spec: the property in its own terms, executable.

   Names are numbered by the orchestrator: [q_name] is the number of the lower-cased (canonical) name,
   [q_case] the number of the exact spelling; DNS names compare case-insensitively, so only [q_name]
   takes part in question equivalence.  A resource record of an answer section is abstracted to the
   question the (fake) upstream generated it for, plus a serial number: the upstream oracle is a function
   of the question, and [rr_answers q r] says "r is (part of) the oracle's answer to q". *)
From Coq Require Import List NArith Bool.
Import ListNotations.
Open Scope N_scope.

Record question := { q_name : N; q_case : N; q_type : N; q_class : N }.

Definition question_equiv (a b : question) : bool :=
  (q_name a =? q_name b) && (q_type a =? q_type b) && (q_class a =? q_class b).

Record rr := { rr_name : N; rr_type : N; rr_serial : N }.

Definition rr_answers (q : question) (r : rr) : bool :=
  (rr_name r =? q_name q) && (rr_type r =? q_type q).

Record message := { m_id : N; m_q : option question; m_rcode : N; m_tc : bool; m_ans : list rr }.

Record client_query := { cq_id : N; cq_q : question }.

(* --- what a reply written to a client must satisfy ------------------------------------------- *)
Definition reply_id_ok (c : client_query) (m : message) : bool := m_id m =? cq_id c.

Definition reply_question_ok (c : client_query) (m : message) : bool :=
  match m_q m with Some q => question_equiv q (cq_q c) | None => false end.

Definition reply_answers_ok (c : client_query) (m : message) : bool :=
  forallb (rr_answers (cq_q c)) (m_ans m).

Definition reply_ok (c : client_query) (m : message) : bool :=
  reply_id_ok c m && reply_question_ok c m && reply_answers_ok c m.

(* --- the cache: an entry stored under (name, type) holds only answers to (name, type) --------- *)
Definition cache_key := (N * N)%type.
Definition key_of (q : question) : cache_key := (q_name q, q_type q).

Definition rr_for_key (k : cache_key) (r : rr) : bool :=
  (rr_name r =? fst k) && (rr_type r =? snd k).

Definition cache_entry_ok (k : cache_key) (ans : list rr) : bool := forallb (rr_for_key k) ans.

Definition cache_ok (entries : list (cache_key * list rr)) : bool :=
  forallb (fun e => cache_entry_ok (fst e) (snd e)) entries.

(* --- concurrent identical questions: one upstream resolution, everybody served ---------------- *)
Definition one_resolution (upstream_calls : N) (waiters answered : N) : bool :=
  (upstream_calls <=? 1) && (answered =? waiters).

(* --- a retired upstream connection is closed exactly once, after its last in-flight query ----- *)
Record fwd_obs := {
  fo_closes : N;              (* how often the underlying forwarder's Close ran *)
  fo_close_in_flight : bool;  (* Close ran while a query was inside ForwardDNS *)
  fo_retired : bool;
  fo_retire_done : bool;      (* some retire() call has returned *)
  fo_quiescent : bool         (* no user or retirer is in the middle of a call *)
}.

Definition fwd_ok (o : fwd_obs) : bool :=
  (fo_closes o <=? 1)
  && negb (fo_close_in_flight o)
  && (if 0 <? fo_closes o then fo_retired o else true)
  && (if fo_quiescent o && fo_retire_done o then fo_closes o =? 1 else true).

(* --- the forwarder cache: every forwarder instance ever created is closed exactly once by the time the
   controller is quiescent and closeAll has run, and never while a query that obtained it is in flight --- *)
Definition fcache_ok (instances : list (N * bool)) : bool :=
  forallb (fun i => (fst i =? 1) && negb (snd i)) instances.
