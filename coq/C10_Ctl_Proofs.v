(* C10 — lemmas about the controller glue model (C10_Ctl_Model.v). *)
From Coq Require Import List NArith Bool Lia ZifyBool ZifyN ZifyNat.
From Dae Require Import C10_Spec C10_Model C10_Cache C10_CacheProofs C10_Proofs C10_Ctl_Model.
Import ListNotations.
Open Scope N_scope.

(* ------------------------------------------------------------------------------------------ *)
(* keys                                                                                       *)
(* ------------------------------------------------------------------------------------------ *)
Lemma ckey_eqb_eq (a b : ckey) : ckey_eqb a b = true <-> a = b.
Proof.
  unfold ckey_eqb. destruct a as [ab asc], b as [bb bsc]. cbn [k_base k_scope].
  rewrite andb_true_iff, !N.eqb_eq. split.
  - intros [H1 H2]. subst. reflexivity.
  - intros H. inversion H. split; reflexivity.
Qed.

Lemma ckey_eqb_refl (a : ckey) : ckey_eqb a a = true.
Proof. apply ckey_eqb_eq. reflexivity. Qed.

Lemma ckey_eqb_neq (a b : ckey) : ckey_eqb a b = false <-> a <> b.
Proof.
  split.
  - intros H E. apply ckey_eqb_eq in E. rewrite E in H. discriminate.
  - intros H. destruct (ckey_eqb a b) eqn:E; [|reflexivity]. apply ckey_eqb_eq in E. contradiction.
Qed.

Lemma odd_pow2_shift_absurd (a d s t : N) :
  0 < d -> (2 * s + 1) * 2 ^ a = (2 * t + 1) * 2 ^ (a + d) -> False.
Proof.
  intros Hd H. rewrite N.pow_add_r in H.
  replace ((2 * t + 1) * (2 ^ a * 2 ^ d)) with (((2 * t + 1) * 2 ^ d) * 2 ^ a) in H by ring.
  apply N.mul_cancel_r in H; [|apply N.pow_nonzero; lia].
  destruct (N.eq_dec d 0) as [->|Hnz]; [lia|].
  replace d with (N.succ (N.pred d)) in H by (apply N.succ_pred; exact Hnz).
  rewrite N.pow_succ_r' in H.
  replace ((2 * t + 1) * (2 * 2 ^ N.pred d)) with (2 * ((2 * t + 1) * 2 ^ N.pred d)) in H by ring.
  generalize dependent ((2 * t + 1) * 2 ^ N.pred d). intros q H. lia.
Qed.

Lemma odd_pow2_inj (a b s t : N) :
  (2 * s + 1) * 2 ^ a = (2 * t + 1) * 2 ^ b -> a = b /\ s = t.
Proof.
  intros H. destruct (N.lt_trichotomy a b) as [Hlt|[Heq|Hgt]].
  - exfalso. apply (odd_pow2_shift_absurd a (b - a) s t); [lia|].
    replace (a + (b - a)) with b by lia. exact H.
  - subst b. split; [reflexivity|].
    apply N.mul_cancel_r in H; [lia|apply N.pow_nonzero; lia].
  - exfalso. apply (odd_pow2_shift_absurd b (a - b) t s); [lia|].
    replace (b + (a - b)) with a by lia. symmetry. exact H.
Qed.

Lemma key_id_inj (a b : ckey) : key_id a = key_id b -> a = b.
Proof.
  unfold key_id. intros H. apply odd_pow2_inj in H. destruct H as [H1 H2].
  destruct a as [ab asc], b as [bb bsc]. cbn [k_base k_scope] in *. subst. reflexivity.
Qed.

Lemma key_id_nonzero (k : ckey) : key_id k <> 0.
Proof.
  unfold key_id. intros H. apply N.eq_mul_0 in H. destruct H as [H|H]; [lia|].
  revert H. apply N.pow_nonzero. lia.
Qed.

Lemma key_id_eqb (a b : ckey) : (key_id a =? key_id b) = ckey_eqb a b.
Proof.
  destruct (ckey_eqb a b) eqn:E.
  - apply ckey_eqb_eq in E. subst. apply N.eqb_refl.
  - apply N.eqb_neq. intros H. apply key_id_inj in H. apply ckey_eqb_neq in E. contradiction.
Qed.

(* ------------------------------------------------------------------------------------------ *)
(* the association-list cache                                                                 *)
(* ------------------------------------------------------------------------------------------ *)
Lemma c_load_app (c1 c2 : cache) (k : ckey) :
  c_load (c1 ++ c2) k = match c_load c1 k with Some e => Some e | None => c_load c2 k end.
Proof.
  induction c1 as [|[k' e] r IH]; cbn [c_load app]; [reflexivity|].
  destruct (ckey_eqb k' k); [reflexivity|exact IH].
Qed.

Lemma c_load_delete (c : cache) (k k' : ckey) :
  c_load (c_delete c k) k' = if ckey_eqb k k' then None else c_load c k'.
Proof.
  unfold c_delete. induction c as [|[k0 e] r IH]; cbn [filter c_load fst].
  - destruct (ckey_eqb k k'); reflexivity.
  - destruct (ckey_eqb k0 k) eqn:E0; cbn [negb].
    + apply ckey_eqb_eq in E0. subst k0. rewrite IH.
      destruct (ckey_eqb k k'); reflexivity.
    + cbn [c_load]. rewrite IH. destruct (ckey_eqb k0 k') eqn:E1; [|reflexivity].
      apply ckey_eqb_eq in E1. subst k0.
      destruct (ckey_eqb k k') eqn:E2; [|reflexivity].
      apply ckey_eqb_eq in E2. subst k'. rewrite ckey_eqb_refl in E0. discriminate.
Qed.

Lemma c_load_store (c : cache) (k : ckey) (e : centry) (k' : ckey) :
  c_load (c_store c k e) k' = if ckey_eqb k k' then Some e else c_load c k'.
Proof.
  unfold c_store. rewrite c_load_app, c_load_delete. cbn [c_load].
  destruct (ckey_eqb k k'); [reflexivity|]. destruct (c_load c k'); reflexivity.
Qed.

Lemma c_load_in (c : cache) (k : ckey) (e : centry) : c_load c k = Some e -> In (k, e) c.
Proof.
  induction c as [|[k' e'] r IH]; cbn [c_load]; [discriminate|].
  destruct (ckey_eqb k' k) eqn:E.
  - intros H. inversion H. subst. apply ckey_eqb_eq in E. subst. left. reflexivity.
  - intros H. right. apply IH. exact H.
Qed.

Lemma c_load_none_notin (c : cache) (k : ckey) : c_load c k = None -> ~ In k (map fst c).
Proof.
  induction c as [|[k' e'] r IH]; cbn [c_load map fst]; [intros _ []|].
  destruct (ckey_eqb k' k) eqn:E; [discriminate|].
  intros H [H1|H1].
  - subst. rewrite ckey_eqb_refl in E. discriminate.
  - exact (IH H H1).
Qed.

Lemma in_c_load (c : cache) (k : ckey) (e : centry) :
  NoDup (map fst c) -> In (k, e) c -> c_load c k = Some e.
Proof.
  induction c as [|[k' e'] r IH]; cbn [c_load map fst]; [intros _ []|].
  intros Hnd [H|H].
  - inversion H. subst. rewrite ckey_eqb_refl. reflexivity.
  - inversion Hnd as [|? ? Hnotin Hnd']. subst.
    destruct (ckey_eqb k' k) eqn:E.
    + apply ckey_eqb_eq in E. subst k'. exfalso. apply Hnotin.
      apply in_map_iff. exists (k, e). split; [reflexivity|exact H].
    + apply IH; assumption.
Qed.

Lemma map_fst_filter_nodup (c : cache) (f : ckey * centry -> bool) :
  NoDup (map fst c) -> NoDup (map fst (filter f c)).
Proof.
  induction c as [|x r IH]; cbn [filter map]; [intros; constructor|].
  intros Hnd. inversion Hnd as [|? ? Hnotin Hnd']. subst.
  destruct (f x); cbn [map].
  - constructor; [|apply IH; exact Hnd'].
    intros Hin. apply Hnotin. apply in_map_iff in Hin. destruct Hin as [y [Hy Hin]].
    apply filter_In in Hin. apply in_map_iff. exists y. split; [exact Hy|apply Hin].
  - apply IH. exact Hnd'.
Qed.

Lemma c_delete_nodup (c : cache) (k : ckey) : NoDup (map fst c) -> NoDup (map fst (c_delete c k)).
Proof. apply map_fst_filter_nodup. Qed.

Lemma c_delete_notin (c : cache) (k : ckey) : ~ In k (map fst (c_delete c k)).
Proof.
  apply c_load_none_notin. rewrite c_load_delete, ckey_eqb_refl. reflexivity.
Qed.

Lemma NoDup_app_single {A} (l : list A) (x : A) : NoDup l -> ~ In x l -> NoDup (l ++ [x]).
Proof.
  induction l as [|y r IH]; cbn [app]; intros Hnd Hx.
  - constructor; [intros []|constructor].
  - inversion Hnd as [|? ? Hy Hr]. subst. constructor.
    + intros Hin. apply in_app_or in Hin. destruct Hin as [Hin|[Hin|[]]]; [exact (Hy Hin)|].
      subst. apply Hx. left. reflexivity.
    + apply IH; [exact Hr|]. intros Hin. apply Hx. right. exact Hin.
Qed.

Lemma c_store_nodup (c : cache) (k : ckey) (e : centry) :
  NoDup (map fst c) -> NoDup (map fst (c_store c k e)).
Proof.
  intros Hnd. unfold c_store. rewrite map_app. cbn [map fst].
  apply NoDup_app_single; [apply c_delete_nodup; exact Hnd|apply c_delete_notin].
Qed.

(* ------------------------------------------------------------------------------------------ *)
(* cache_live over an appended call                                                           *)
(* ------------------------------------------------------------------------------------------ *)
Lemma cache_live_snoc (h : list cache_op) (c : cache_op) (o : N) :
  cache_live (h ++ [c]) o
  = if cache_owner c =? o
    then match c with CInsert _ e => Some e | CRemove _ => None end
    else cache_live h o.
Proof.
  unfold cache_live. rewrite rev_app_distr. cbn [rev app find].
  destruct c as [o' e|o']; cbn [cache_owner]; destruct (o' =? o); reflexivity.
Qed.

Lemma cache_live_some_in (h : list cache_op) (o : N) (e : cache_entry) :
  cache_live h o = Some e -> In o (map cache_owner h).
Proof.
  unfold cache_live. destruct (find _ (rev h)) as [c|] eqn:Hf; [|discriminate].
  intros _. apply find_some in Hf. destruct Hf as [Hin Ho].
  apply in_rev in Hin. apply in_map_iff. exists c. split; [|exact Hin].
  destruct c; cbn [cache_owner]; apply N.eqb_eq; exact Ho.
Qed.

(* ------------------------------------------------------------------------------------------ *)
(* the invariant: the calls issued so far describe exactly the cache                          *)
(* ------------------------------------------------------------------------------------------ *)
Definition tracks (c : cache) (h : list cache_op) : Prop :=
  NoDup (map fst c) /\
  (forall k e, c_load c k = Some e -> ce_owner e = key_id k) /\
  (forall k, cache_live h (key_id k) = option_map ce_e (c_load c k)) /\
  (forall o e, cache_live h o = Some e -> exists k, o = key_id k).

Lemma tracks_nil : tracks [] [].
Proof.
  repeat split.
  - constructor.
  - intros k e H. discriminate H.
  - intros o e H. discriminate H.
Qed.

Lemma sync_call_key (k : ckey) (c : cache_op) : sync_call (key_id k) c = [c].
Proof.
  unfold sync_call. destruct (key_id k =? 0) eqn:E; [|reflexivity].
  apply N.eqb_eq in E. exfalso. exact (key_id_nonzero k E).
Qed.

Lemma delete_callback_owned (k : ckey) (e : centry) :
  ce_owner e = key_id k -> delete_callback k e = [CRemove (key_id k)].
Proof.
  intros H. unfold delete_callback. rewrite H.
  destruct (key_id k =? 0); apply sync_call_key.
Qed.

Lemma access_callback_owned (k : ckey) (e : centry) :
  ce_owner e = key_id k -> access_callback e = [CInsert (key_id k) (ce_e e)].
Proof. intros H. unfold access_callback. rewrite H. apply sync_call_key. Qed.

Lemma tracks_delete (c : cache) (h : list cache_op) (k : ckey) (e : centry) :
  tracks c h -> c_load c k = Some e -> tracks (c_delete c k) (h ++ delete_callback k e).
Proof.
  intros [Hnd [Hown [Hlive Himg]]] Hl.
  rewrite (delete_callback_owned k e (Hown k e Hl)).
  split; [apply c_delete_nodup; exact Hnd|]. split; [|split].
  - intros k' e'. rewrite c_load_delete. destruct (ckey_eqb k k'); [discriminate|]. apply Hown.
  - intros k'. rewrite cache_live_snoc, c_load_delete. cbn [cache_owner].
    rewrite key_id_eqb. destruct (ckey_eqb k k'); [reflexivity|apply Hlive].
  - intros o e'. rewrite cache_live_snoc. cbn [cache_owner].
    destruct (key_id k =? o); [discriminate|]. apply Himg.
Qed.

Lemma tracks_store (c : cache) (h : list cache_op) (k : ckey) (e : centry) :
  tracks c h -> ce_owner e = key_id k -> tracks (c_store c k e) (h ++ access_callback e).
Proof.
  intros [Hnd [Hown [Hlive Himg]]] Ho.
  rewrite (access_callback_owned k e Ho).
  split; [apply c_store_nodup; exact Hnd|]. split; [|split].
  - intros k' e'. rewrite c_load_store. destruct (ckey_eqb k k') eqn:E.
    + intros H. inversion H. subst e'. apply ckey_eqb_eq in E. subst k'. exact Ho.
    + apply Hown.
  - intros k'. rewrite cache_live_snoc, c_load_store. cbn [cache_owner].
    rewrite key_id_eqb. destruct (ckey_eqb k k'); [reflexivity|apply Hlive].
  - intros o e'. rewrite cache_live_snoc. cbn [cache_owner].
    destruct (key_id k =? o) eqn:E.
    + intros _. exists k. apply N.eqb_eq in E. symmetry. exact E.
    + apply Himg.
Qed.

Lemma tracks_resync (c : cache) (h : list cache_op) (k : ckey) (e : centry) :
  tracks c h -> c_load c k = Some e -> tracks c (h ++ access_callback e).
Proof.
  intros [Hnd [Hown [Hlive Himg]]] Hl.
  rewrite (access_callback_owned k e (Hown k e Hl)).
  split; [exact Hnd|]. split; [exact Hown|]. split.
  - intros k'. rewrite cache_live_snoc. cbn [cache_owner]. rewrite key_id_eqb.
    destruct (ckey_eqb k k') eqn:E; [|apply Hlive].
    apply ckey_eqb_eq in E. subst k'. rewrite Hl. reflexivity.
  - intros o e'. rewrite cache_live_snoc. cbn [cache_owner].
    destruct (key_id k =? o) eqn:E.
    + intros _. exists k. apply N.eqb_eq in E. symmetry. exact E.
    + apply Himg.
Qed.

(* ------------------------------------------------------------------------------------------ *)
(* every operation preserves the invariant                                                    *)
(* ------------------------------------------------------------------------------------------ *)
Definition wtracks (h : list cache_op) (w : work) : Prop := tracks (fst w) (h ++ snd w).

Lemma wtracks_start (h : list cache_op) (c : cache) : tracks c h -> wtracks h (c, []).
Proof. unfold wtracks. cbn [fst snd]. rewrite app_nil_r. exact (fun H => H). Qed.

Lemma evict_if_same_tracks (h : list cache_op) (w : work) (k : ckey) (id : N) :
  wtracks h w -> wtracks h (evict_if_same w k id).
Proof.
  unfold wtracks, evict_if_same. intros H.
  destruct (c_load (fst w) k) as [e|] eqn:Hl; [|exact H].
  destruct (ce_id e =? id); [|exact H].
  cbn [fst snd]. rewrite app_assoc. apply tracks_delete; assumption.
Qed.

Lemma fold_left_inv {A B} (P : A -> Prop) (f : A -> B -> A) (l : list B) (a : A) :
  (forall a b, In b l -> P a -> P (f a b)) -> P a -> P (fold_left f l a).
Proof.
  revert a. induction l as [|b r IH]; intros a Hstep Ha; cbn [fold_left]; [exact Ha|].
  apply IH.
  - intros a' b' Hin. apply Hstep. right. exact Hin.
  - apply Hstep; [left; reflexivity|exact Ha].
Qed.

Lemma lru_loop_tracks (h : list cache_op) (victims : list ckey) (num evicted : N) (w : work) :
  wtracks h w -> wtracks h (lru_loop victims num evicted w).
Proof.
  revert evicted w. induction victims as [|k r IH]; intros evicted w H; cbn [lru_loop]; [exact H|].
  destruct (num <=? evicted); [exact H|].
  destruct (c_load (fst w) k) as [e|].
  - apply IH. apply evict_if_same_tracks. exact H.
  - apply IH. exact H.
Qed.

Lemma ctl_insert_tracks h rules tick c k fqdn answers now ttl :
  tracks c h -> wtracks h (ctl_insert rules tick c k fqdn answers now ttl).
Proof.
  intros H. unfold wtracks, ctl_insert. cbn [fst snd]. apply tracks_store; [exact H|reflexivity].
Qed.

Lemma ctl_remove_tracks h c k : tracks c h -> wtracks h (ctl_remove c k).
Proof.
  intros H. unfold ctl_remove. destruct (c_load c k) as [e|] eqn:Hl.
  - unfold wtracks. cbn [fst snd]. apply tracks_delete; assumption.
  - apply wtracks_start. exact H.
Qed.

Lemma ctl_family_tracks h c base : tracks c h -> wtracks h (ctl_family c base).
Proof.
  intros H. unfold ctl_family. apply fold_left_inv; [|apply wtracks_start; exact H].
  intros w ke _ Hw. destruct (k_base (fst ke) =? base); [apply evict_if_same_tracks|]; exact Hw.
Qed.

Lemma ctl_lookup_tracks h c k now resync : tracks c h -> wtracks h (ctl_lookup c k now resync).
Proof.
  intros H. unfold ctl_lookup. destruct (c_load c k) as [e|] eqn:Hl; [|apply wtracks_start; exact H].
  destruct (now <? ce_deadline e).
  - destruct resync; [|apply wtracks_start; exact H].
    unfold wtracks. cbn [fst snd]. apply (tracks_resync c h k e); assumption.
  - apply evict_if_same_tracks. apply wtracks_start. exact H.
Qed.

Lemma janitor_time_pass_tracks h cfg c now : tracks c h -> wtracks h (janitor_time_pass cfg c now).
Proof.
  intros H. unfold janitor_time_pass.
  destruct ((0 <? cf_opt_ttl (normalize cfg)) || ((cf_opt_ttl (normalize cfg) =? 0) && (cf_max (normalize cfg) =? 0))).
  - apply fold_left_inv; [|apply wtracks_start; exact H].
    intros w ke _ Hw. destruct (now <? _); [exact Hw|apply evict_if_same_tracks; exact Hw].
  - apply wtracks_start. exact H.
Qed.

Lemma ctl_janitor_tracks h cfg c now victims : tracks c h -> wtracks h (ctl_janitor cfg c now victims).
Proof.
  intros H. unfold ctl_janitor.
  pose proof (janitor_time_pass_tracks h cfg c now H) as Hw1.
  destruct (0 <? cf_max (normalize cfg)); [|exact Hw1].
  unfold evict_lru. destruct (_ <=? cf_max (normalize cfg)); [exact Hw1|].
  apply lru_loop_tracks. exact Hw1.
Qed.

Lemma ctl_reload_tracks rules' sent tick c :
  (forall k, sent k = true) ->
  NoDup (map fst c) -> (forall k e, c_load c k = Some e -> ce_owner e = key_id k) ->
  wtracks [] (ctl_reload rules' sent tick c).
Proof.
  intros Hsent Hnd Hown. unfold ctl_reload. apply fold_left_inv.
  - intros w [k e] Hin Hw. unfold wtracks in *. cbn [fst snd app] in *. rewrite Hsent.
    apply tracks_store; [exact Hw|].
    cbn [clone_for_reload ce_owner]. apply Hown. apply in_c_load; assumption.
  - unfold wtracks. cbn [fst snd app]. exact tracks_nil.
Qed.

(* ------------------------------------------------------------------------------------------ *)
(* controller level                                                                           *)
(* ------------------------------------------------------------------------------------------ *)
Definition ctl_inv (st : ctl) : Prop :=
  tracks (c_cache st) (c_calls st) /\
  (c_tracker st, c_kmap st) = run (map op_of_cache_op (c_calls st)).

Lemma ctl_init_inv rules : ctl_inv (ctl_init rules).
Proof. split; [exact tracks_nil|reflexivity]. Qed.

Lemma run_app (h1 h2 : list op) : run (h1 ++ h2) = fold_left step h2 (run h1).
Proof. unfold run. apply fold_left_app. Qed.

Lemma ctl_step_inv cfg st o : resync_delivered o -> ctl_inv st -> ctl_inv (ctl_step cfg st o).
Proof.
  intros Hd [Ht Hr].
  assert (Hw : wtracks (if ef_new_generation (ctl_effect cfg st o) then [] else c_calls st)
                       (ef_work (ctl_effect cfg st o))).
  { destruct o; cbn [ctl_effect ef_new_generation ef_work].
    - apply ctl_insert_tracks; exact Ht.
    - apply ctl_remove_tracks; exact Ht.
    - apply ctl_family_tracks; exact Ht.
    - apply evict_if_same_tracks. apply wtracks_start. exact Ht.
    - apply ctl_lookup_tracks; exact Ht.
    - apply ctl_janitor_tracks; exact Ht.
    - destruct Ht as [Hnd [Hown _]]. apply ctl_reload_tracks; assumption. }
  split.
  - unfold ctl_step. cbn [c_cache c_calls]. exact Hw.
  - unfold ctl_step. cbn [c_tracker c_kmap c_calls].
    rewrite map_app, run_app.
    destruct (ef_new_generation (ctl_effect cfg st o)).
    + cbn [map]. rewrite <- surjective_pairing. reflexivity.
    + rewrite <- Hr. rewrite <- surjective_pairing. reflexivity.
Qed.

Lemma ctl_run_inv cfg rules ops : Forall resync_delivered ops -> ctl_inv (ctl_run cfg rules ops).
Proof.
  intros Hd. unfold ctl_run. apply fold_left_inv; [|apply ctl_init_inv].
  intros st o Hin. apply ctl_step_inv. rewrite Forall_forall in Hd. apply Hd. exact Hin.
Qed.

(* ------------------------------------------------------------------------------------------ *)
(* the cache itself does not depend on which re-sync tasks were delivered                     *)
(* ------------------------------------------------------------------------------------------ *)
Definition deliver (o : ctl_op) : ctl_op :=
  match o with OReload r _ => OReload r (fun _ => true) | _ => o end.

Lemma deliver_delivered ops : Forall resync_delivered (map deliver ops).
Proof.
  apply Forall_forall. intros o Hin. apply in_map_iff in Hin. destruct Hin as [o' [Ho _]]. subst o.
  destruct o'; cbn [deliver resync_delivered]; try exact I. intros k. reflexivity.
Qed.

Lemma fold_fst_indep {A} (f : cache -> A -> cache) (g1 g2 : work -> A -> list cache_op)
      (l : list A) (w1 w2 : work) :
  fst w1 = fst w2 ->
  fst (fold_left (fun w x => (f (fst w) x, g1 w x)) l w1)
  = fst (fold_left (fun w x => (f (fst w) x, g2 w x)) l w2).
Proof.
  revert w1 w2. induction l as [|x r IH]; intros w1 w2 H; cbn [fold_left]; [exact H|].
  apply IH. cbn [fst]. rewrite H. reflexivity.
Qed.

Lemma ctl_reload_cache_indep (rules' : N -> N) (sent1 sent2 : ckey -> bool) (tick : N) (c : cache) :
  fst (ctl_reload rules' sent1 tick c) = fst (ctl_reload rules' sent2 tick c).
Proof.
  unfold ctl_reload.
  exact (fold_fst_indep
           (fun c0 ke => c_store c0 (fst ke) (clone_for_reload rules' tick (snd ke)))
           (fun w ke => snd w ++ (if sent1 (fst ke) then access_callback (clone_for_reload rules' tick (snd ke)) else []))
           (fun w ke => snd w ++ (if sent2 (fst ke) then access_callback (clone_for_reload rules' tick (snd ke)) else []))
           c ([], []) ([], []) eq_refl).
Qed.

Definition same_core (a b : ctl) : Prop :=
  c_cache a = c_cache b /\ c_rules a = c_rules b /\ c_tick a = c_tick b.

Lemma ctl_step_core cfg a b o : same_core a b -> same_core (ctl_step cfg a o) (ctl_step cfg b (deliver o)).
Proof.
  intros [Hc [Hr Ht]]. destruct a as [ca ra ta tra ka ha], b as [cb rb tb trb kb hb].
  cbn [c_cache c_rules c_tick] in *. subst cb rb tb.
  unfold same_core, ctl_step. cbn [c_cache c_rules c_tick].
  destruct o; cbn [deliver ctl_effect ef_work ef_rules c_cache c_rules c_tick];
    try (repeat split; reflexivity).
  split; [|split; reflexivity].
  apply ctl_reload_cache_indep.
Qed.

Lemma ctl_run_core cfg rules ops :
  same_core (ctl_run cfg rules ops) (ctl_run cfg rules (map deliver ops)).
Proof.
  unfold ctl_run.
  assert (H : forall a b, same_core a b ->
                same_core (fold_left (ctl_step cfg) ops a) (fold_left (ctl_step cfg) (map deliver ops) b)).
  { induction ops as [|o r IH]; intros a b Hab; cbn [fold_left map]; [exact Hab|].
    apply IH. apply ctl_step_core. exact Hab. }
  apply H. repeat split; reflexivity.
Qed.

(* ------------------------------------------------------------------------------------------ *)
(* the table of the call history = the table of the live cache                                *)
(* ------------------------------------------------------------------------------------------ *)
Lemma testbit_fold_lor {A} (f : A -> N) (l : list A) (n : N) :
  N.testbit (fold_right (fun x acc => N.lor (f x) acc) 0 l) n = existsb (fun x => N.testbit (f x) n) l.
Proof.
  induction l as [|x r IH]; cbn [fold_right existsb]; [apply N.bits_0|].
  rewrite N.lor_spec, IH. reflexivity.
Qed.

Definition contrib (e : cache_entry) (ip : N) : N := if lists e ip then e_bitmap e else 0.

Lemma tracks_table (c : cache) (h : list cache_op) (ip : N) :
  tracks c h -> cache_table h ip = ctl_table c ip.
Proof.
  intros [Hnd [Hown [Hlive Himg]]]. apply N.bits_inj. intros n.
  unfold cache_table, ctl_table.
  rewrite (testbit_fold_lor (fun o => match cache_live h o with
                                      | Some e => if lists e ip then e_bitmap e else 0
                                      | None => 0 end)).
  rewrite (testbit_fold_lor (fun ke : ckey * centry =>
                               if lists (ce_e (snd ke)) ip then e_bitmap (ce_e (snd ke)) else 0)).
  apply eq_true_iff_eq. rewrite !existsb_exists. split.
  - intros [o [Hin Hb]]. destruct (cache_live h o) as [e'|] eqn:Hl.
    + destruct (Himg o e' Hl) as [k Hk]. subst o. rewrite Hlive in Hl.
      destruct (c_load c k) as [e|] eqn:Hc; [|discriminate]. cbn [option_map] in Hl.
      inversion Hl. subst e'. exists (k, e). split; [apply c_load_in; exact Hc|exact Hb].
    + rewrite N.bits_0 in Hb. discriminate.
  - intros [[k e] [Hin Hb]]. cbn [snd] in Hb.
    pose proof (in_c_load c k e Hnd Hin) as Hc.
    pose proof (Hlive k) as Hl. rewrite Hc in Hl. cbn [option_map] in Hl.
    exists (key_id k). split; [apply (cache_live_some_in h _ _ Hl)|].
    rewrite Hl. exact Hb.
Qed.

(* ------------------------------------------------------------------------------------------ *)
(* the property lemmas                                                                        *)
(* ------------------------------------------------------------------------------------------ *)
Lemma C10_ctl_calls_track_cache_proof :
  forall (cfg : config) (rules : N -> N) (ops : list ctl_op),
    Forall resync_delivered ops ->
    let st := ctl_run cfg rules ops in
    (forall k, cache_live (c_calls st) (key_id k) = option_map ce_e (c_load (c_cache st) k)) /\
    (forall o, (forall k, key_id k <> o) -> cache_live (c_calls st) o = None) /\
    NoDup (map fst (c_cache st)) /\
    (c_tracker st, c_kmap st) = run (map op_of_cache_op (c_calls st)).
Proof.
  intros cfg rules ops Hd st. destruct (ctl_run_inv cfg rules ops Hd) as [[Hnd [Hown [Hlive Himg]]] Hr].
  fold st in Hnd, Hown, Hlive, Himg, Hr.
  split; [exact Hlive|]. split; [|split; [exact Hnd|exact Hr]].
  intros o Hno. destruct (cache_live (c_calls st) o) as [e|] eqn:Hl; [|reflexivity].
  destruct (Himg o e Hl) as [k Hk]. exfalso. apply (Hno k). symmetry. exact Hk.
Qed.

Lemma C10_ctl_mirror_proof :
  forall (cfg : config) (rules : N -> N) (ops : list ctl_op) (ip : N),
    Forall resync_delivered ops ->
    let st := ctl_run cfg rules ops in
    c_kmap st ip = ctl_table_entry (c_cache st) ip.
Proof.
  intros cfg rules ops ip Hd st. destruct (ctl_run_inv cfg rules ops Hd) as [Ht Hr]. fold st in Ht, Hr.
  replace (c_kmap st) with (snd (run (map op_of_cache_op (c_calls st)))) by (rewrite <- Hr; reflexivity).
  rewrite C10_cache_mirror_proof. unfold cache_table_entry, ctl_table_entry.
  rewrite (tracks_table _ _ ip Ht). reflexivity.
Qed.

Lemma C10_ctl_owner_key_scoped_proof :
  forall (cfg : config) (rules : N -> N) (ops : list ctl_op) (k1 k2 : ckey) (e1 e2 : centry),
    let st := ctl_run cfg rules ops in
    c_load (c_cache st) k1 = Some e1 -> c_load (c_cache st) k2 = Some e2 ->
    k_base k1 = k_base k2 -> k_scope k1 <> k_scope k2 ->
    ce_owner e1 <> ce_owner e2 /\ ce_owner e1 = key_id k1 /\ ce_owner e2 = key_id k2.
Proof.
  intros cfg rules ops k1 k2 e1 e2 st H1 H2 _ Hs.
  destruct (ctl_run_core cfg rules ops) as [Hcore _]. fold st in Hcore. rewrite Hcore in H1, H2.
  destruct (ctl_run_inv cfg rules (map deliver ops) (deliver_delivered ops)) as [[_ [Hown _]] _].
  rewrite (Hown k1 e1 H1), (Hown k2 e2 H2). split; [|split; reflexivity].
  intros E. apply key_id_inj in E. subst k2. apply Hs. reflexivity.
Qed.

(* The unconditional statement is false in the model: a reload whose re-sync task found the bounded
   queue full leaves a live cache entry without its kernel table entry. *)
Definition C10_ctl_mirror_full : Prop :=
  forall (cfg : config) (rules : N -> N) (ops : list ctl_op) (ip : N),
    let st := ctl_run cfg rules ops in
    c_kmap st ip = ctl_table_entry (c_cache st) ip.

Lemma C10_ctl_mirror_full_refuted_proof : ~ C10_ctl_mirror_full.
Proof.
  intros H.
  specialize (H {| cf_optimistic := false; cf_opt_ttl := 0; cf_max := 0 |} (fun _ => 1)
                [OInsert (response_cache_key 1 0) 1 [(true, 0xffff01020304)] 10 60;
                 OReload (fun _ => 1) (fun _ => false)] 0xffff01020304).
  vm_compute in H. discriminate H.
Qed.
