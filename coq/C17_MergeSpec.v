(* C17 — statements about include resolution shared by the proofs and the property file. *)
From Coq Require Import List NArith Bool Relations.
From Dae Require Import C17_Spec C17_Model.
Import ListNotations.
Open Scope N_scope.

Definition tree_root (t : inc_tree) : str := match t with IncNode p _ _ => p end.

(* t is the include tree the file system spells: every node is a usable file with exactly the sections it
   contains, and its children are the expansions of its include patterns, in listed order *)
Fixpoint resolves (fs : filesys) (expand : str -> list str) (t : inc_tree) : Prop :=
  match t with
  | IncNode p own ch =>
      fs p = FFile own /\
      (exists pats, include_patterns (own_items own include_name) = Some pats /\
                    map tree_root ch = flat_map expand pats) /\
      (fix all (l : list inc_tree) : Prop :=
         match l with [] => True | c :: r => resolves fs expand c /\ all r end) ch
  end.

(* file f includes file g *)
Definition includes (fs : filesys) (expand : str -> list str) (f g : str) : Prop :=
  exists ss pats, fs f = FFile ss /\ include_patterns (own_items ss include_name) = Some pats /\
                  In g (flat_map expand pats).
