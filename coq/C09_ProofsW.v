(* C09 — proofs about the per-waiter tail after singleflight (Part W of C09_Model.v). *)
From Coq Require Import List NArith Bool Lia Arith.
From Dae Require Import C09_Spec C09_Model C09_ProofsF.
Import ListNotations.

Definition good (m0 : message) (h : nat -> message) (n : nat) (id : N) (pc : wpc) : Prop :=
  match pc with
  | WStart => True
  | WCopied o => (1 <= o < n)%nat /\ h o = m0
  | WStamped o | WInWrite o => (1 <= o < n)%nat /\ h o = with_id m0 id
  | WDone o p => (1 <= o < n)%nat /\ p = with_id m0 id
  end.

Definition WInv (m0 : message) (s : wstate) : Prop :=
  w_heap s 0%nat = m0 /\ (1 <= w_next s)%nat /\
  (forall i id pc, nth_error (w_ws s) i = Some (id, pc) -> good m0 (w_heap s) (w_next s) id pc) /\
  (forall i j idi idj pci pcj o, i <> j ->
     nth_error (w_ws s) i = Some (idi, pci) -> nth_error (w_ws s) j = Some (idj, pcj) ->
     wobj pci = Some o -> wobj pcj = Some o -> False).

Lemma good_keep : forall m0 h h' n n' id pc,
  good m0 h n id pc -> (forall o, wobj pc = Some o -> h' o = h o) -> (n <= n')%nat -> good m0 h' n' id pc.
Proof.
  intros m0 h h' n n' id pc G H L. destruct pc; cbn in *; auto;
    destruct G as [G1 G2]; (split; [lia|]); try (rewrite H; auto); auto.
Qed.

Lemma good_range : forall m0 h n id pc o, good m0 h n id pc -> wobj pc = Some o -> (1 <= o < n)%nat.
Proof. intros m0 h n id pc o G W. destruct pc; cbn in *; inversion W; subst; tauto. Qed.

Lemma with_id_idem : forall m id, with_id (with_id m id) id = with_id m id.
Proof. reflexivity. Qed.

Lemma hupd_eq : forall h o m, hupd h o m o = m.
Proof. intros. unfold hupd. rewrite Nat.eqb_refl. auto. Qed.
Lemma hupd_neq : forall h o m o', o' <> o -> hupd h o m o' = h o'.
Proof. intros. unfold hupd. destruct (Nat.eqb o' o) eqn:E; auto. apply Nat.eqb_eq in E. congruence. Qed.

(* generic preservation: waiter i moves from pc to pc', the heap changes only at object ochg *)
Lemma winv_step : forall m0 s i id pc pc' h' n' ochg,
  WInv m0 s -> nth_error (w_ws s) i = Some (id, pc) ->
  (w_next s <= n')%nat ->
  (forall o, o <> ochg -> h' o = w_heap s o) ->
  (1 <= ochg)%nat ->
  (* the changed object is i's own, or fresh *)
  (wobj pc = Some ochg \/ (w_next s <= ochg)%nat) ->
  good m0 h' n' id pc' ->
  (* i's object afterwards is its old one, or fresh *)
  (forall o, wobj pc' = Some o -> wobj pc = Some o \/ (w_next s <= o)%nat) ->
  WInv m0 {| w_heap := h'; w_next := n'; w_ws := set_nth (w_ws s) i (id, pc') |}.
Proof.
  intros m0 s i id pc pc' h' n' ochg (H0 & Hn & HG & HD) Hi Ln Hh Hc Hown Gnew Hobj.
  unfold WInv; cbn [w_heap w_next w_ws].
  split; [rewrite Hh by lia; auto|]. split; [lia|]. split.
  - intros j idj pcj Hj. destruct (Nat.eq_dec j i) as [->|Nji].
    + rewrite (nth_error_set_nth_eq _ _ _ _ Hi) in Hj. inversion Hj; subst; auto.
    + rewrite nth_error_set_nth_neq in Hj by auto.
      eapply good_keep; eauto. intros o Ho. apply Hh. intro; subst o.
      destruct Hown as [Hown|Hown].
      * eapply (HD j i); eauto.
      * pose proof (good_range _ _ _ _ _ _ (HG _ _ _ Hj) Ho). lia.
  - intros a b ida idb pca pcb o Nab Ha Hb Oa Ob.
    destruct (Nat.eq_dec a i) as [->|Nai]; destruct (Nat.eq_dec b i) as [->|Nbi]; try congruence.
    + rewrite (nth_error_set_nth_eq _ _ _ _ Hi) in Ha. inversion Ha; subst.
      rewrite nth_error_set_nth_neq in Hb by auto.
      destruct (Hobj _ Oa) as [Old|Fresh].
      * eapply (HD i b); eauto.
      * pose proof (good_range _ _ _ _ _ _ (HG _ _ _ Hb) Ob). lia.
    + rewrite (nth_error_set_nth_eq _ _ _ _ Hi) in Hb. inversion Hb; subst.
      rewrite nth_error_set_nth_neq in Ha by auto.
      destruct (Hobj _ Ob) as [Old|Fresh].
      * eapply (HD a i); eauto.
      * pose proof (good_range _ _ _ _ _ _ (HG _ _ _ Ha) Oa). lia.
    + rewrite nth_error_set_nth_neq in Ha, Hb by auto. eapply (HD a b); eauto.
Qed.

Lemma wstep_inv : forall m0 s i, WInv m0 s -> WInv m0 (wstep true s i).
Proof.
  intros m0 s i I. pose proof I as (H0 & Hn & HG & HD). unfold wstep.
  destruct (nth_error (w_ws s) i) as [[id pc]|] eqn:Hi; auto.
  pose proof (HG _ _ _ Hi) as G.
  destruct pc as [|o|o|o|o p]; auto.
  - (* copy *)
    eapply (winv_step m0 s i id WStart (WCopied (w_next s)) _ _ (w_next s)); eauto.
    + intros o Ho. apply hupd_neq; auto.
    + cbn. split; [lia|]. rewrite hupd_eq. auto.
    + intros o Ho. inversion Ho; subst. right; lia.
  - (* stamp *)
    destruct G as [G1 G2].
    eapply (winv_step m0 s i id (WCopied o) (WStamped o) _ _ o); eauto.
    + intros o' Ho. apply hupd_neq; auto.
    + lia.
    + cbn. split; [lia|]. rewrite hupd_eq, G2. auto.
  - (* enter WriteMsg *)
    destruct G as [G1 G2].
    eapply (winv_step m0 s i id (WStamped o) (WInWrite o) _ _ o); eauto; cbn; auto; lia.
  - (* pack *)
    destruct G as [G1 G2].
    eapply (winv_step m0 s i id (WInWrite o) (WDone o (w_heap s o)) _ _ o); eauto; cbn; auto; try lia.
Qed.

Lemma winv_init : forall m0 ids, WInv m0 (winit m0 ids).
Proof.
  intros m0 ids. unfold WInv, winit; cbn [w_heap w_next w_ws].
  assert (S : forall i id pc, nth_error (map (fun id0 : N => (id0, WStart)) ids) i = Some (id, pc) -> pc = WStart).
  { intros i id pc H. rewrite nth_error_map in H. destruct (nth_error ids i); inversion H; auto. }
  repeat split; auto.
  - intros i id pc H. rewrite (S _ _ _ H). exact I.
  - intros i j idi idj pci pcj o _ Hi _ Oi. rewrite (S _ _ _ Hi) in Oi. discriminate.
Qed.

Lemma wfold_inv : forall m0 sched s, WInv m0 s -> WInv m0 (fold_left (wstep true) sched s).
Proof. induction sched; cbn; intros; auto. apply IHsched, wstep_inv; auto. Qed.

Lemma C09_waiter_reply_private_proof : forall m0 ids sched,
  let s := wrun true m0 ids sched in
  (forall i id o p, nth_error (w_ws s) i = Some (id, WDone o p) -> p = with_id m0 id) /\
  (forall i j idi idj pci pcj o, i <> j ->
     nth_error (w_ws s) i = Some (idi, pci) -> nth_error (w_ws s) j = Some (idj, pcj) ->
     wobj pci = Some o -> wobj pcj = Some o -> False) /\
  (forall i id pc o, nth_error (w_ws s) i = Some (id, pc) -> wobj pc = Some o -> o <> 0%nat).
Proof.
  intros m0 ids sched s.
  destruct (wfold_inv m0 sched _ (winv_init m0 ids)) as (H0 & Hn & HG & HD). fold (wrun true m0 ids sched) in *. fold s in H0, Hn, HG, HD.
  split; [|split; [exact HD|]].
  - intros i id o p H. destruct (HG _ _ _ H) as [_ E]. exact E.
  - intros i id pc o H W. pose proof (good_range _ _ _ _ _ _ (HG _ _ _ H) W). lia.
Qed.

(* without the copy two waiters stamp one object: the first to be packed late carries the other's ID *)
Lemma C09_waiter_reply_shared_refuted_proof :
  exists m0 ids sched i id o p,
    nth_error (w_ws (wrun false m0 ids sched)) i = Some (id, WDone o p) /\ m_id p <> id.
Proof.
  exists {| m_id := 9; m_q := None; m_rcode := 3; m_tc := false; m_ans := [] |}, [1%N; 2%N],
         [0; 0; 1; 1; 0; 0]%nat, 0%nat, 1%N, 0%nat,
         {| m_id := 2; m_q := None; m_rcode := 3; m_tc := false; m_ans := [] |}.
  split; [vm_compute; reflexivity|cbn; discriminate].
Qed.

Print Assumptions C09_waiter_reply_private_proof.
