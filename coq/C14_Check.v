(* C14 — executable comparison functions used by the generated cases file (no proofs). *)
From Coq Require Import List String Ascii ZArith NArith Bool.
From Dae Require Import C14_Spec C14_Model.
Import ListNotations.
Open Scope string_scope.
Open Scope list_scope.

(* byte list -> string, for strings that are not printable ASCII *)
Fixpoint bs (l : list N) : string :=
  match l with [] => EmptyString | b :: r => String (ascii_of_N b) (bs r) end.

Fixpoint assoc {V} (k : string) (l : list (string * V)) : option V :=
  match l with
  | [] => None
  | (k', v) :: r => if k =? k' then Some v else assoc k r
  end.

Record obs_case := mkCase {
  oc_pool : list node;
  oc_lines : list line;
  oc_annos : list annotation;
  oc_policy : policy_raw;
  (* oracle data measured on the implementation's own libraries *)
  oc_re : list (string * (bool * list (string * bool)));  (* pattern -> compiles, subject -> matches *)
  oc_dur : list (string * option Z);                      (* time.ParseDuration *)
  (* what the implementation answered: member ids with offsets / error class; policy *)
  oc_impl : result (list (N * Z));
  oc_impl_policy : result (policy_kind * Z);
  (* for a fixed policy on a successfully built group: what DialerGroup.Select returned (member id) *)
  oc_impl_fixed : option (result N);
  (* pool built from tagged links (NewDialerSetFromLinks): the map entries in the iteration order the
     implementation took, the link oracle (name / rejected), and the pool the implementation built as
     (tag, name) in s.dialers order.  oc_from_links = false: the pool was given directly (oc_pool). *)
  oc_from_links : bool;
  oc_tagged : tagged;
  oc_links : list (string * option string);
  oc_impl_pool : list (string * string)
}.

Definition c_re_ok (c : obs_case) (p : string) : bool :=
  match assoc p (oc_re c) with Some (ok, _) => ok | None => false end.
Definition c_re_match (c : obs_case) (p s : string) : bool :=
  match assoc p (oc_re c) with
  | Some (_, m) => match assoc s m with Some b => b | None => false end
  | None => false
  end.
Definition c_dur (c : obs_case) (s : string) : option Z :=
  match assoc s (oc_dur c) with Some o => o | None => None end.

(* every oracle question the model/spec can ask has an answer in the case *)
Definition oracle_complete (c : obs_case) : bool :=
  forallb (fun l => forallb (fun f => forallb (fun p =>
     if p_key p =? "regex" then
       match assoc (p_val p) (oc_re c) with
       | Some (ok, m) =>
           negb ok || forallb (fun n => match assoc (n_name n) m, assoc (n_tag n) m with
                                        | Some _, Some _ => true | _, _ => false end) (oc_pool c)
       | None => false
       end
     else true) (f_params f)) l) (oc_lines c)
  && forallb (fun a => forallb (fun p => match assoc (p_val p) (oc_dur c) with Some _ => true | None => false end) a)
             (oc_annos c).

Definition pairNZ_eqb (a b : N * Z) : bool := (N.eqb (fst a) (fst b) && Z.eqb (snd a) (snd b))%bool.
Fixpoint list_eqb {A} (eqb : A -> A -> bool) (l1 l2 : list A) : bool :=
  match l1, l2 with
  | [], [] => true
  | a :: r1, b :: r2 => eqb a b && list_eqb eqb r1 r2
  | _, _ => false
  end.

Definition c_link (c : obs_case) (l : string) : option string :=
  match assoc l (oc_links c) with Some o => o | None => None end.

Definition node_eqb (a b : node) : bool :=
  (N.eqb (n_id a) (n_id b) && (n_name a =? n_name b) && (n_tag a =? n_tag b))%bool.
Definition pair_str_eqb (a b : string * string) : bool := ((fst a =? fst b) && (snd a =? snd b))%bool.

(* codes 13 impl pool not one-per-occurrence (spec)  14 impl pool <> model pool  15 model pool not
   faithful  16 the pool handed to the filter checks is not the model's pool  7 link oracle incomplete *)
Definition check_pool (c : obs_case) : list N :=
  if negb (oc_from_links c) then [] else
  let mp := new_dialer_set (c_link c) (oc_tagged c) in
  let ip := map (fun tn => mkNode 0 (snd tn) (fst tn)) (oc_impl_pool c) in
  (if pool_faithful_b (c_link c) (oc_tagged c) ip then [] else [13%N])
  ++ (if list_eqb pair_str_eqb (map (fun n => (n_tag n, n_name n)) mp) (oc_impl_pool c) then [] else [14%N])
  ++ (if pool_faithful_b (c_link c) (oc_tagged c) mp then [] else [15%N])
  ++ (if list_eqb node_eqb mp (oc_pool c) then [] else [16%N])
  ++ (if forallb (fun e => forallb (fun l => match assoc l (oc_links c) with Some _ => true | None => false end) (snd e))
                 (oc_tagged c) then [] else [7%N]).

Definition proj (l : list (node * Z)) : list (N * Z) := map (fun x => (n_id (fst x), snd x)) l.

Definition err_code (e : err) : N :=
  match e with
  | EBadRegex => 1 | EUnknownKey => 2 | EUnknownInput => 3 | EAnnoFormat => 4 | EAnnoKey => 5
  | ELenMismatch => 6 | EPolType => 7 | EPolCount => 8 | EPolNot => 9 | EPolFormat => 10
  | EPolAtoi => 11 | EPolUnknown => 12 | ESelEmpty => 13 | ESelRange => 14
  end%N.

Definition group_result_eqb (a b : result (list (N * Z))) : bool :=
  match a, b with
  | Ok x, Ok y => list_eqb pairNZ_eqb x y
  | Err e1, Err e2 => N.eqb (err_code e1) (err_code e2)
  | _, _ => false
  end.

Definition kind_code (k : policy_kind) : N :=
  match k with PRandom => 1 | PFixed => 2 | PMinAvg10 => 3 | PMinMovingAvg => 4 | PMinLast => 5 end%N.

Definition policy_result_eqb (a b : result (policy_kind * Z)) : bool :=
  match a, b with
  | Ok (k1, i1), Ok (k2, i2) => N.eqb (kind_code k1) (kind_code k2) && Z.eqb i1 i2
  | Err e1, Err e2 => N.eqb (err_code e1) (err_code e2)
  | _, _ => false
  end.

(* spec_allows, executably: Members must equal the group under the two extreme readings (which then
   agree with each other); ConfigError needs an invalid definition. *)
Definition spec_allows_b (c : obs_case) (r : result (list (N * Z))) : bool :=
  let g rp rf ra := proj (spec_group (c_re_ok c) (c_re_match c) (c_dur c) rp rf ra (oc_pool c) (oc_lines c) (oc_annos c)) in
  match r with
  | Ok l => list_eqb pairNZ_eqb l (g rd_lo_p rd_lo_f rd_lo_a) && list_eqb pairNZ_eqb l (g rd_hi_p rd_hi_f rd_hi_a)
  | Err _ => negb (def_valid (c_re_ok c) (c_dur c) (oc_lines c) (oc_annos c))
  end.

Definition spec_policy_allows_b (c : obs_case) (r : result (policy_kind * Z)) : bool :=
  match r, spec_policy_raw (oc_policy c) with
  | Ok (k1, i1), Some (k2, i2) => N.eqb (kind_code k1) (kind_code k2) && Z.eqb i1 i2
  | Err _, None => true
  | _, _ => false
  end.

Definition model_group (c : obs_case) : result (list (N * Z)) :=
  match filter_and_annotate (c_re_ok c) (c_re_match c) (c_dur c) (oc_pool c) (oc_lines c) (oc_annos c) with
  | Ok l => Ok (proj l)
  | Err e => Err e
  end.

Definition optres_eqb (a b : option (result N)) : bool :=
  match a, b with
  | None, None => true
  | Some (Ok x), Some (Ok y) => N.eqb x y
  | Some (Err e1), Some (Err e2) => N.eqb (err_code e1) (err_code e2)
  | _, _ => false
  end.

Definition model_fixed (c : obs_case) : option (result N) :=
  match model_group c, new_policy (oc_policy c) with
  | Ok g, Ok (PFixed, i) => Some (match select_fixed g i with Ok d => Ok (fst d) | Err e => Err e end)
  | _, _ => None
  end.

(* what the spec says about the observed selection: only defined when the group exists (the
   implementation's group answer is checked separately, code 2) *)
Definition spec_fixed_allows_b (c : obs_case) : bool :=
  let g := proj (spec_group (c_re_ok c) (c_re_match c) (c_dur c) rd_lo_p rd_lo_f rd_lo_a (oc_pool c) (oc_lines c) (oc_annos c)) in
  match oc_impl c, spec_policy_raw (oc_policy c), oc_impl_fixed c with
  | Ok _, Some (PFixed, i), Some (Ok x) =>
      match fixed_choice g i with Some d => N.eqb (fst d) x | None => false end
  | Ok _, Some (PFixed, i), Some (Err _) =>
      match fixed_choice g i with Some _ => false | None => true end
  | Ok _, Some (PFixed, i), None => false
  | _, _, None => true
  | _, _, Some _ => false
  end.

(* error codes: 1 impl<>model (group)  2 impl not allowed by spec (group)  3 model not allowed by spec
   4 impl<>model (policy)  5 impl not allowed by spec (policy)  6 model not allowed by spec (policy)
   7 oracle data incomplete  11 impl<>model (fixed selection)  12 impl fixed selection not allowed by spec *)
Definition check_case (c : obs_case) : list N :=
  let m := model_group c in
  let mp := new_policy (oc_policy c) in
  ((if group_result_eqb (oc_impl c) m then [] else [1%N])
   ++ (if spec_allows_b c (oc_impl c) then [] else [2%N])
   ++ (if spec_allows_b c m then [] else [3%N])
   ++ (if policy_result_eqb (oc_impl_policy c) mp then [] else [4%N])
   ++ (if spec_policy_allows_b c (oc_impl_policy c) then [] else [5%N])
   ++ (if spec_policy_allows_b c mp then [] else [6%N])
   ++ (if oracle_complete c then [] else [7%N])
   ++ (if optres_eqb (oc_impl_fixed c) (model_fixed c) then [] else [11%N])
   ++ (if spec_fixed_allows_b c then [] else [12%N])
   ++ check_pool c).

Definition bucket (n : nat) : N := N.of_nat (Nat.min n 3).

(* branch signature for the evidence:
   (definition valid?, model outcome (0 ok / error code), #lines bucket, #members bucket,
    #distinct lines that are some member's first hit (bucket), policy outcome (kind / 20+error)) *)
Definition case_signature (c : obs_case) : N * N * N * N * N * N :=
  let m := filter_and_annotate (c_re_ok c) (c_re_match c) (c_dur c) (oc_pool c) (oc_lines c) (oc_annos c) in
  let v := if def_valid (c_re_ok c) (c_dur c) (oc_lines c) (oc_annos c) then 1%N else 0%N in
  let hits (l : line) := existsb (fun n =>
        match first_hit (c_re_ok c) (c_re_match c) rd_lo_p rd_lo_f n (oc_lines c) (map (fun _ => []) (oc_lines c)) with
        | Some _ => true | None => false end
        && line_hits (c_re_ok c) (c_re_match c) rd_lo_p rd_lo_f n l) (oc_pool c) in
  let used := List.length (filter hits (oc_lines c)) in
  let pol := match new_policy (oc_policy c) with Ok (k, _) => kind_code k | Err e => (20 + err_code e)%N end in
  match m with
  | Ok l => (v, 0%N, bucket (List.length (oc_lines c)), bucket (List.length l), bucket used, pol)
  | Err e => (v, err_code e, bucket (List.length (oc_lines c)), 0%N, 0%N, pol)
  end.

(* ---- several groups in one configuration text: what config.New decoded vs model vs spec ---- *)
Definition param_eqb (a b : param) : bool := ((p_key a =? p_key b) && (p_val a =? p_val b))%bool.
Definition func_eqb (a b : func) : bool :=
  ((f_name a =? f_name b) && Bool.eqb (f_not a) (f_not b) && list_eqb param_eqb (f_params a) (f_params b))%bool.
Definition policy_raw_eqb (a b : policy_raw) : bool :=
  match a, b with
  | PRString x, PRString y => x =? y
  | PRFunc x, PRFunc y => func_eqb x y
  | PRFuncs x, PRFuncs y => list_eqb func_eqb x y
  | PROther, PROther => true
  | _, _ => false
  end.
Definition group_decl_eqb (a b : group_decl) : bool :=
  ((g_name a =? g_name b)
   && list_eqb (list_eqb func_eqb) (g_filter a) (g_filter b)
   && list_eqb (list_eqb param_eqb) (g_anno a) (g_anno b)
   && match g_policy a, g_policy b with
      | Some x, Some y => policy_raw_eqb x y
      | None, None => true
      | _, _ => false
      end)%bool.

Record multi_case := mkMulti {
  mc_sections : list (string * list group_item);   (* the group sections as written, in order *)
  mc_impl : list group_decl                        (* conf.Group as decoded by config.New *)
}.

(* codes 17 impl decode <> model decode  18 impl decode <> spec (each group = its own items)
         19 model decode <> spec *)
Definition check_multi (m : multi_case) : list N :=
  let md := decode_groups (mc_sections m) in
  let sd := map spec_group_decl (mc_sections m) in
  (if list_eqb group_decl_eqb md (mc_impl m) then [] else [17%N])
  ++ (if list_eqb group_decl_eqb sd (mc_impl m) then [] else [18%N])
  ++ (if list_eqb group_decl_eqb md sd then [] else [19%N]).
