(* C17 — executable comparison functions used by the generated cases files (no proofs). *)
From Coq Require Import List NArith Bool String Ascii.
From Dae Require Import C17_Spec C17_Model.
From Dae.gen Require Import Extracted_C17.
Import ListNotations.
Open Scope N_scope.

Definition B (s : string) : str := map N_of_ascii (list_ascii_of_string s).
(* texts of the cases files: one string literal per text; bytes outside printable ASCII, the backslash and
   the double quote are written as a backslash followed by two hex digits *)
Definition hexval (c : N) : N := if c <? 58 then c - 48 else c - 87.
Fixpoint unesc (l : list N) : list N :=
  match l with
  | [] => []
  | c :: r =>
      match r with
      | a :: b :: r' => if c =? 92 then (16 * hexval a + hexval b) :: unesc r' else c :: unesc r
      | _ => c :: unesc r
      end
  end.
Definition D (s : string) : str := unesc (B s).

(* ------------------------------------------------------------------ equality on observed trees *)
Fixpoint list_eqb {A} (e : A -> A -> bool) (a b : list A) : bool :=
  match a, b with
  | [], [] => true
  | x :: a', y :: b' => e x y && list_eqb e a' b'
  | _, _ => false
  end.
Definition kv_eqb (a b : kv) : bool := str_eqb (kv_key a) (kv_key b) && str_eqb (kv_val a) (kv_val b).
Definition gfunc_eqb (a b : gfunc) : bool :=
  str_eqb (gf_name a) (gf_name b) && Bool.eqb (gf_not a) (gf_not b) && list_eqb kv_eqb (gf_params a) (gf_params b).
Definition gparam_eqb (a b : gparam) : bool :=
  str_eqb (gp_key a) (gp_key b) && str_eqb (gp_val a) (gp_val b) &&
  list_eqb gfunc_eqb (gp_funcs a) (gp_funcs b) && list_eqb kv_eqb (gp_annot a) (gp_annot b).
Fixpoint gitem_eqb (a b : gitem) : bool :=
  match a, b with
  | GRule c o, GRule c' o' => list_eqb gfunc_eqb c c' && gfunc_eqb o o'
  | GParamI p, GParamI p' => gparam_eqb p p'
  | GSection n i, GSection n' i' =>
      str_eqb n n' && (fix go (x y : list gitem) : bool :=
                         match x, y with
                         | [], [] => true
                         | u :: x', v :: y' => gitem_eqb u v && go x' y'
                         | _, _ => false
                         end) i i'
  | _, _ => false
  end.
Definition gsection_eqb (a b : gsection) : bool := str_eqb (fst a) (fst b) && list_eqb gitem_eqb (snd a) (snd b).
Definition gsections_eqb := list_eqb gsection_eqb.

(* ------------------------------------------------------------------ parse cases *)
Inductive impl_parse := IOk (ss : list gsection) | IErr | IPanic.

Record parse_case := {
  pc_text : str;
  pc_impl : impl_parse;
  pc_ast : option sconfig;      (* the tree the text was printed from (grammar stream) *)
  pc_canon : bool               (* the text is claimed to be exactly [show ast] *)
}.

(* error codes:  1 impl<>model   2 impl<>spec (wrong answer)   9 impl<>spec (crash)   3 model<>spec
                 5 the orchestrator's printer disagrees with [show]   6 generated tree not well formed *)
Definition check_parse (c : parse_case) : list N :=
  let m := parse (pc_text c) in
  let e_im :=
      match m, pc_impl c with
      | POk x, IOk y => if gsections_eqb x y then [] else [1]
      | PErr, IErr => []
      | PCrash, IPanic => []
      | PErr, IPanic => []          (* reported as 9; on malformed text the walker runs on a recovered tree *)
      | _, _ => [1]
      end in
  let e_crash := match pc_impl c with IPanic => [9] | _ => [] end in
  let e_fuel := match m with PFuel => [3] | _ => [] end in
  match pc_ast c with
  | None => e_im ++ e_crash ++ e_fuel
  | Some ast =>
      if negb (wf_config ast) then [6]
      else
        let want := denote ast in
        let e_is := match pc_impl c with
                    | IOk y => if gsections_eqb want y then [] else [2]
                    | IErr => [2]
                    | IPanic => []
                    end in
        let e_ms := match m with POk x => if gsections_eqb want x then [] else [3] | _ => [3] end in
        let e_roundtrip := match parse (show ast) with POk x => if gsections_eqb want x then [] else [3] | _ => [3] end in
        let e_canon := if pc_canon c then (if str_eqb (show ast) (pc_text c) then [] else [5]) else [] in
        e_im ++ e_is ++ e_crash ++ e_ms ++ e_roundtrip ++ e_canon
  end.

(* signature for coverage: (answer class of the model, number of tokens (capped), feature mask of the tree) *)
Fixpoint item_features (i : gitem) : N :=
  match i with
  | GRule c o => N.lor 1 (N.lor (if existsb gf_not c then 2 else 0)
                          (N.lor (if Nat.ltb 1 (List.length c) then 4 else 0)
                          (N.lor (match gf_params o with [] => 0 | _ => 8 end)
                                 (if existsb (fun f => existsb (fun p => negb (str_eqb (kv_key p) [])) (gf_params f)) c then 16 else 0))))
  | GParamI p => N.lor (match gp_key p with [] => 32 | _ => 64 end)
                       (N.lor (match gp_funcs p with [] => 0 | _ => 128 end)
                              (match gp_annot p with [] => 0 | _ => 256 end))
  | GSection _ items => fold_left (fun a x => N.lor a (item_features x)) items 512
  end.
Definition parse_signature (c : parse_case) : N * N * N :=
  let toks := match lex (S (List.length (pc_text c))) (pc_text c) with Ok ts => N.of_nat (List.length ts) | _ => 0 end in
  match parse (pc_text c) with
  | POk ss => (0, N.min toks 40, fold_left (fun a s => fold_left (fun a x => N.lor a (item_features x)) (snd s) a) ss 0)
  | PErr => (1, N.min toks 40, 0)
  | PCrash => (2, N.min toks 40, 0)
  | PFuel => (3, 0, 0)
  end.

(* ------------------------------------------------------------------ merge cases *)
Record merge_file := { mf_path : str; mf_usable : bool; mf_text : str }.
Inductive impl_merge := MOk (sections : list gsection) (entries : list str) | MErr | MPanic.
Record merge_case := {
  mc_files : list merge_file;
  mc_expand : list (str * list str);      (* include pattern (as written) -> files, in glob order *)
  mc_entry : str;
  mc_impl : impl_merge
}.

Definition mk_fs (files : list merge_file) : filesys :=
  fun p => match find (fun f => str_eqb (mf_path f) p) files with
           | Some f => if mf_usable f then match parse (mf_text f) with POk ss => FFile ss | _ => FBad end else FBad
           | None => FBad
           end.
Definition mk_expand (tab : list (str * list str)) : str -> list str :=
  fun p => match find (fun e => str_eqb (fst e) p) tab with Some e => snd e | None => [] end.

(* the specification's own reading of the directory: the include tree, without any bookkeeping *)
Fixpoint spec_tree (fuel : nat) (fs : filesys) (expand : str -> list str) (p : str) : option inc_tree :=
  match fuel with
  | O => None
  | S f =>
      match fs p with
      | FBad => None
      | FFile own =>
          match include_patterns (own_items own include_name) with
          | None => None
          | Some pats =>
              match (fix go (cs : list str) : option (list inc_tree) :=
                       match cs with
                       | [] => Some []
                       | c :: r => match spec_tree f fs expand c, go r with
                                   | Some t, Some ts => Some (t :: ts)
                                   | _, _ => None
                                   end
                       end) (flat_map expand pats) with
              | Some ch => Some (IncNode p own ch)
              | None => None
              end
          end
      end
  end.

Fixpoint nodup_str (l : list str) : bool :=
  match l with [] => true | x :: r => negb (mem_str x r) && nodup_str r end.

Definition spec_merge (fuel : nat) (fs : filesys) (expand : str -> list str) (entry : str) : option inc_tree :=
  match spec_tree fuel fs expand entry with
  | Some t => if nodup_str (tree_paths t) then Some t else None     (* a file met twice: refused *)
  | None => None
  end.

Fixpoint dedup_str (l : list str) : list str :=
  match l with [] => [] | x :: r => if mem_str x r then dedup_str r else x :: dedup_str r end.
Definition same_strs (a b : list str) : bool :=
  forallb (fun x => mem_str x b) a && forallb (fun x => mem_str x a) b.

(* codes as above: 1 impl<>model, 2 impl<>spec, 9 crash, 3 model<>spec *)
Definition check_merge (c : merge_case) : list N :=
  let fs := mk_fs (mc_files c) in
  let ex := mk_expand (mc_expand c) in
  let fuel := S (S (List.length (mc_files c))) in
  let m := dfs_merge fuel fs ex [] (mc_entry c) in
  let s := spec_merge fuel fs ex (mc_entry c) in
  let names_of (l : list gsection) := map fst l in
  let e_im :=
      match m, mc_impl c with
      | Ok (sm, vis), MOk secs ents =>
          if forallb (fun n => list_eqb gitem_eqb (sm_get sm n) (sm_get secs n)) (names_of sm ++ names_of secs)
             && same_strs vis ents && same_strs (names_of sm) (names_of secs) then [] else [1]
      | Err, MErr => []
      | _, _ => [1]
      end in
  let e_is :=
      match s, mc_impl c with
      | Some t, MOk secs ents =>
          if forallb (fun n => list_eqb gitem_eqb (merged_items t n) (sm_get secs n)) (tree_names t ++ names_of secs)
             && same_strs (tree_paths t) ents
             && forallb (fun p => match fs p with FFile _ => true | FBad => false end) ents then [] else [2]
      | None, MErr => []
      | _, MPanic => [9]
      | _, _ => [2]
      end in
  let e_ms :=
      match s, m with
      | Some t, Ok (sm, vis) =>
          if forallb (fun n => list_eqb gitem_eqb (merged_items t n) (sm_get sm n)) (tree_names t ++ names_of sm)
             && same_strs (tree_paths t) vis then [] else [3]
      | None, Err => []
      | _, _ => [3]
      end in
  e_im ++ e_is ++ e_ms.

(* (answer class, files in the tree, depth-ish: number of files with children, number of merged sections) *)
Definition merge_signature (c : merge_case) : N * N * N :=
  let fs := mk_fs (mc_files c) in
  let ex := mk_expand (mc_expand c) in
  let fuel := S (S (List.length (mc_files c))) in
  match dfs_merge fuel fs ex [] (mc_entry c) with
  | Ok (sm, vis) => (0, N.of_nat (List.length vis), N.of_nat (List.length sm))
  | Err => (1, N.of_nat (List.length (mc_files c)), 0)
  | OutOfFuel => (3, 0, 0)
  end.

(* ------------------------------------------------------------------ capacity cases *)
(* impl class: 0 ok, 1 error, 2 crash *)
Record cap_case := { cc_match_sets : N; cc_domain_sets : list N; cc_impl : N }.
Definition check_cap (c : cap_case) : list N :=
  let m := build_userspace (cc_match_sets c) (cc_domain_sets c) in
  let over := max_match_set_len <? cc_match_sets c in
  let e_im := match m, cc_impl c with
              | WOk _, 0 | WErr, 1 | WCrashed, 2 => []
              | _, _ => [1]
              end in
  (* the spec: never a crash; a program over the limit is answered with an error *)
  let e_is := if cc_impl c =? 2 then [9] else if over && (cc_impl c =? 0) then [2] else [] in
  let e_ms := match m with
              | WCrashed => [3]
              | WOk _ => if over then [3] else []
              | WErr => []
              end in
  e_im ++ e_is ++ e_ms.
