(* C06 — lemmas about the virtual-clock model of SniffTcp (C06_Clock.v). *)
From Coq Require Import List NArith Bool Arith Lia ZifyBool ZifyN ZifyNat.
From Dae.gen Require Import C06_Extracted.
From Dae Require Import C06_Spec C06_Clock.
Import ListNotations.
Open Scope N_scope.

Lemma clock_loop_fixed :
  forall (origin timeout : N) (parse : bytes -> outcome) (sched : list arrival) (now last : N) (buf : bytes)
         r t b rs ds,
    now <= origin + timeout ->
    clock_loop FixedAtConstruction origin timeout parse sched now last buf = (r, t, b, rs, ds) ->
    t <= origin + timeout
    /\ Forall (fun d => d = origin + timeout) ds
    /\ exists n : nat, rs = skipn n sched /\ b = buf ++ concat (map ar_data (firstn n sched)).
Proof.
  intros origin timeout parse.
  induction sched as [|a rest IH]; intros now last buf r t b rs ds Hnow Hrun.
  - cbn in Hrun. inversion Hrun; subst. split; [lia|]. split; [repeat constructor|].
    exists 0%nat. cbn. rewrite app_nil_r. auto.
  - cbn [clock_loop armed] in Hrun.
    destruct (origin + timeout <=? now) eqn:E1.
    { inversion Hrun; subst. split; [lia|]. split; [repeat constructor|]. exists 0%nat. cbn. rewrite app_nil_r. auto. }
    destruct (origin + timeout <=? last + ar_delay a) eqn:E2.
    { inversion Hrun; subst. split; [lia|]. split; [repeat constructor|]. exists 0%nat. cbn. rewrite app_nil_r. auto. }
    assert (Hn' : N.max now (last + ar_delay a) <= origin + timeout) by lia.
    destruct (parse (buf ++ ar_data a)) eqn:Ep;
      try (inversion Hrun; subst; split; [lia|]; split; [repeat constructor|];
           exists 1%nat; cbn; rewrite app_nil_r; auto; fail).
    destruct (clock_loop FixedAtConstruction origin timeout parse rest (N.max now (last + ar_delay a)) (last + ar_delay a) (buf ++ ar_data a))
      as [[[[r1 t1] b1] rs1] ds1] eqn:Hrec.
    inversion Hrun; subst.
    destruct (IH _ _ _ _ _ _ _ _ Hn' Hrec) as [Ht [Hd [n [Hr Hb]]]].
    split; [exact Ht|]. split; [constructor; [reflexivity|exact Hd]|].
    exists (S n). cbn [skipn firstn map concat]. split; [exact Hr|]. rewrite Hb, <- app_assoc. reflexivity.
Qed.

Lemma extracted_policy_fixed : extracted_policy = FixedAtConstruction.
Proof. reflexivity. Qed.

Definition C06_sniff_wait_bounded_stmt' : Prop :=
  forall (origin timeout : N) (parse : bytes -> outcome) (sched : list arrival),
    let '(r, t, buf, rest, ds) := clock_sniff extracted_policy origin timeout parse sched in
    t <= origin + timeout
    /\ Forall (fun d => d = origin + timeout) ds
    /\ exists n : nat, rest = skipn n sched /\ buf = concat (map ar_data (firstn n sched)).

Lemma C06_sniff_wait_bounded_proof : C06_sniff_wait_bounded_stmt'.
Proof.
  unfold C06_sniff_wait_bounded_stmt'. intros origin timeout parse sched.
  rewrite extracted_policy_fixed. unfold clock_sniff.
  destruct (clock_loop FixedAtConstruction origin timeout parse sched origin origin [])
    as [[[[r t] b] rs] ds] eqn:Hrun.
  assert (H0 : origin <= origin + timeout) by lia.
  destruct (clock_loop_fixed _ _ _ _ _ _ _ _ _ _ _ _ H0 Hrun) as [Ht [Hd [n [Hr Hb]]]].
  split; [exact Ht|]. split; [exact Hd|]. exists n. split; [exact Hr|]. exact Hb.
Qed.

(* five chunks, each 90 ticks after the previous one, timeout 100, the record never completes *)
Lemma C06_sniff_wait_rearmed_refuted_proof :
  exists (timeout : N) (parse : bytes -> outcome) (sched : list arrival),
    let '(r, t, buf, rest, ds) := clock_sniff RearmedPerRead 0 timeout parse sched in
    4 * timeout < t.
Proof.
  exists 100, (fun _ => NeedMore),
    (repeat {| ar_delay := 90; ar_data := [1] |} 5).
  vm_compute. reflexivity.
Qed.
