(* C10 — cache-entry layer: what a DNS cache entry "lists" (spec) and how the control plane turns an
   entry into an owner snapshot (model of buildDomainRoutingOwnerSnapshot / extractIPsFromDnsCache).
   Addresses are the 128-bit (IPv4-mapped) values. *)
From Coq Require Import List NArith Bool.
From Dae Require Import C10_Spec.
Import ListNotations.
Open Scope N_scope.

(* an answer record: (is it an A record?, 128-bit value of the address; A records in mapped form).
   An AAAA record may itself carry an IPv4-mapped address. *)
Definition answer := (bool * N)%type.

Record cache_entry := { e_bitmap : N; e_answers : list answer }.

(* spec: unspecified answers - an A record 0.0.0.0 or an AAAA record :: - are not listed.
   (An AAAA record ::ffff:0.0.0.0 is not "unspecified" in Go's netip sense and is listed.) *)
Definition unspecified (a : answer) : bool :=
  if fst a then snd a =? 0xffff00000000 else snd a =? 0.

Definition lists (e : cache_entry) (ip : N) : bool :=
  existsb (fun a => (ip =? snd a) && negb (unspecified a)) (e_answers e).

(* model: extractIPsFromDnsCache skips non-address records (already absent here) and unspecified ones *)
Definition extract_ips (answers : list answer) : list N :=
  map snd (filter (fun a => negb (unspecified a)) answers).

Definition snapshot_of_entry (e : cache_entry) : snapshot :=
  {| s_bitmap := e_bitmap e; s_ips := extract_ips (e_answers e) |}.

(* cache-level operations as the control plane issues them *)
Inductive cache_op :=
| CInsert (owner : N) (e : cache_entry)      (* BatchUpdateDomainRouting(cache) *)
| CRemove (owner : N).                       (* BatchRemoveDomainRouting(cache) *)

Definition op_of_cache_op (c : cache_op) : op :=
  match c with
  | CInsert o e => (o, snapshot_of_entry e)
  | CRemove o => (o, empty_snapshot)
  end.

(* spec at cache level: live entries, and the table as the OR over live entries listing the address *)
Definition cache_live (h : list cache_op) (o : N) : option cache_entry :=
  match find (fun c => match c with CInsert o' _ | CRemove o' => o' =? o end) (rev h) with
  | Some (CInsert _ e) => Some e
  | _ => None
  end.

Definition cache_owner (c : cache_op) : N := match c with CInsert o _ | CRemove o => o end.

Definition cache_table (h : list cache_op) (ip : N) : N :=
  fold_right (fun o acc =>
                N.lor (match cache_live h o with
                       | Some e => if lists e ip then e_bitmap e else 0
                       | None => 0 end) acc) 0 (map cache_owner h).

Definition cache_table_entry (h : list cache_op) (ip : N) : option N :=
  let v := cache_table h ip in if v =? 0 then None else Some v.
