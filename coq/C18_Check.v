(* C18 — executable comparison functions used by the generated cases file (no proofs). *)
From Coq Require Import List NArith ZArith Bool.
From Dae Require Import C18_GoStrings C18_ParseAddr C18_Spec C18_Model.
From Dae.gen Require Import C18_Consts.
Import ListNotations.
Open Scope N_scope.

(* what Go's library said about one string *)
Record str_fact := { sf_s : str; sf_is_ip : bool; sf_split : option (str * str) }.

Record obs_choose := {
  oc_now : Z;
  oc_outbound : N; oc_dst : dest; oc_raw : str; oc_normalize : bool; oc_lt : str; oc_domain : str;
  oc_key_a : str; oc_key_aaaa : str; oc_has_resolvers : bool; oc_answer : probe_answer;
  (* observed on the implementation *)
  oc_dst_str : str; oc_reserved : bool; oc_itoa : str;
  oc_target : str; oc_reroute : bool; oc_dial_ip : bool;
  oc_probed : bool;                         (* the resolver was asked (for exactly this name) *)
  oc_target_split : option (str * str);     (* net.SplitHostPort(target) *)
  oc_real_hit : bool; oc_neg : option Z;    (* verification caches after the step (absolute expiry) *)
  oc_facts : list str_fact
}.

(* what is observed when a DNS answer enters the cache *)
Record obs_store := {
  os_qname : str; os_qtype : N; os_scope : str;
  os_full_path : bool;             (* true: through NormalizeAndCacheDnsResp_ (TTL in seconds; IP-literal names bypassed);
                                      false: rememberDnsKnowledge directly with an exact deadline *)
  os_host_is_ip : bool;            (* netip.ParseAddr(qname without trailing dot) succeeds *)
  os_expires : Z;                  (* original deadline (absolute) for the direct form *)
  os_ttl_s : Z;                    (* TTL in seconds of the answer for the full path *)
  os_impl_key : str;               (* base key the implementation computed for the answer *)
  os_impl_known : option Z         (* dnsKnowledge[base key] after the step *)
}.

Definition store_bypassed (s : obs_store) : bool := os_full_path s && os_host_is_ip s.

Inductive obs_op :=
| OStore (s : obs_store)
| OAdvance (dt : Z)
| OChoose (c : obs_choose)
(* chooseProxyDialer: c holds the arguments and the final target / dialIp (oc_reroute unused);
   route_to = outbound the routing rules answer; n_groups = len(c.outbounds);
   final = Some index of the chosen group | None = error *)
| ODial (c : obs_choose) (route_to n_groups : N) (final : option N).

Record obs_case := { ob_mode : dial_mode; ob_now0 : Z; ob_ops : list obs_op }.

Definition opt_split_eqb (a b : option (str * str)) : bool :=
  match a, b with
  | Some (h, p), Some (h', p') => str_eqb h h' && str_eqb p p'
  | None, None => true
  | _, _ => false
  end.
Definition optZ_eqb (a b : option Z) : bool :=
  match a, b with Some x, Some y => Z.eqb x y | None, None => true | _, _ => false end.

(* the oracle netip.ParseAddr as answered by Go for the strings of this step *)
Definition oracle_ip (facts : list str_fact) (s : str) : bool :=
  existsb (fun f => str_eqb (sf_s f) s && sf_is_ip f) facts.

(* the keys the model uses for a ChooseDialTarget call: its own key function on the name *)
Definition mkey_a (c : obs_choose) : str := lookup_key (oc_domain c) qtype_a.
Definition mkey_aaaa (c : obs_choose) : str := lookup_key (oc_domain c) qtype_aaaa.

Definition spec_domain (is_ip : str -> bool) (c : obs_choose) : str :=
  if oc_normalize c then
    match spec_sniffed_host is_ip (oc_lt c) with Some h => h | None => oc_domain c end
  else oc_domain c.

Definition events_of_probe (c : obs_choose) (asked : bool) : list event :=
  if asked then
    match oc_answer c with
    | PFound => [EvVerified (oc_domain c) (oc_now c) true]
    | PNoRecord => [EvVerified (oc_domain c) (oc_now c) false]
    | PFail => []
    end
  else [].

(* error codes  (step, code, sub):
     1 impl<>model   sub: 1 target 2 reroute 3 dial_ip 4 probe 5 real set 6 neg set 7 clock 8 normalize
     2 impl<>spec    sub: 1 reroute 2 endpoint
     3 model<>spec   sub: 1 use_name 2 reroute 3 endpoint (under the side conditions of C18_table)
     4 library/constant model <> Go   sub: 1 SplitHostPort 2 dst.String 3 IsReserved 4 Itoa 5 ascii lower/trim 6 ParseAddr 7 cacheKey *)
Definition err (b : bool) (n code sub : N) : list (N * N * N) := if b then [] else [(n, code, sub)].

Definition check_choose (mode : dial_mode) (st : cp_state) (ievs mevs : list event) (n : N) (c : obs_choose)
  : list (N * N * N) * cp_state * list event * list event :=
  let is_ip := oracle_ip (oc_facts c) in
  let dst := oc_dst c in
  let dom := oc_domain c in
  let '(o, asked, st') := choose_step is_ip mode st (oc_outbound c) dst dom (mkey_a c) (mkey_aaaa c)
                                      (oc_has_resolvers c) (oc_answer c) in
  let key := if d_is4 dst then mkey_a c else mkey_aaaa c in
  let cls := classify is_ip dom in
  let reserved := is_reserved (oc_outbound c) in
  (* impl vs model *)
  let e1 :=
      err (str_eqb (o_target o) (oc_target c)) n 1 1 ++
      err (eqb (o_reroute o) (oc_reroute c)) n 1 2 ++
      err (eqb (o_dial_ip o) (oc_dial_ip c)) n 1 3 ++
      err (eqb asked (oc_probed c)) n 1 4 ++
      err (eqb (existsb (str_eqb dom) (s_real st')) (oc_real_hit c)) n 1 5 ++
      err (optZ_eqb (assoc_get dom (s_neg st')) (oc_neg c)) n 1 6 ++
      err (Z.eqb (s_now st) (oc_now c)) n 1 7 ++
      err (if oc_normalize c then str_eqb (normalize_lowered (oc_lt c)) dom else str_eqb (oc_raw c) dom) n 1 8 in
  (* library and constants *)
  let e4 :=
      err (forallb (fun f => opt_split_eqb (split_host_port (sf_s f)) (sf_split f)) (oc_facts c)) n 4 1 ++
      err (str_eqb (dst_string dst) (oc_dst_str c)) n 4 2 ++
      err (eqb reserved (oc_reserved c)) n 4 3 ++
      err (str_eqb (itoa (d_port dst)) (oc_itoa c)) n 4 4 ++
      err (if is_ascii (oc_raw c) then str_eqb (ascii_lower (ascii_trim_space (oc_raw c))) (oc_lt c) else true) n 4 5 ++
      err (forallb (fun f => eqb (go_parse_addr (sf_s f)) (sf_is_ip f)) (oc_facts c)) n 4 6 ++
      err (if is_ascii dom then str_eqb (mkey_a c) (oc_key_a c) && str_eqb (mkey_aaaa c) (oc_key_aaaa c) else true) n 4 7 in
  (* the spec's notion of a built-in outbound: outside the user-defined range *)
  let builtin := builtin_outbound (oc_outbound c) in
  (* spec, once with what the implementation did before (ievs), once with what the model did (mevs) *)
  (* the name the spec works with: for a value that went through the sniffers' normaliser, the host the
     spec itself reads out of the raw value (where it names one); else the value as passed *)
  let sdom := spec_domain is_ip c in
  let scls := classify is_ip sdom in
  let skey := spec_key sdom (if d_is4 dst then qtype_a else qtype_aaaa) in
  let ik := knowledge_now neg_ttl ievs skey sdom (oc_now c) in
  let mk := knowledge_now neg_ttl mevs key dom (s_now st) in
  let e2 :=
      err (eqb (oc_reroute c) (spec_reroute is_ip mode builtin scls ik)) n 2 1 ++
      err (if endpoint_constrained is_ip mode builtin scls ik
           then opt_split_eqb (oc_target_split c) (Some (spec_endpoint is_ip mode builtin (d_ip dst) (d_port dst) scls ik))
           else true) n 2 2 in
  let e3 :=
      err (eqb (o_use_name o) (spec_use_name is_ip mode builtin cls mk)) n 3 1 ++
      err (eqb (o_reroute o) (spec_reroute is_ip mode builtin cls mk)) n 3 2 ++
      err (if endpoint_constrained is_ip mode builtin cls mk && literal_clean cls && dest_wf dst
           then denotes (o_target o) (spec_endpoint is_ip mode builtin (d_ip dst) (d_port dst) cls mk)
           else true) n 3 3 in
  (e1 ++ e4 ++ e2 ++ e3, st', ievs ++ events_of_probe c (oc_probed c), mevs ++ events_of_probe c asked).

Definition optN_eqb (a b : option N) : bool :=
  match a, b with Some x, Some y => N.eqb x y | None, None => true | _, _ => false end.

(* error sub-codes for a dial: 1.1 target 1.3 dial_ip 1.4 probe 1.5/1.6 caches 1.9 final outbound;
   2.2 endpoint 2.3 final outbound;  3.x as for choose *)
Definition check_dial (mode : dial_mode) (st : cp_state) (ievs mevs : list event) (n : N) (c : obs_choose)
           (route_to n_groups : N) (final : option N)
  : list (N * N * N) * cp_state * list event * list event :=
  let is_ip := oracle_ip (oc_facts c) in
  let dst := oc_dst c in
  let dom := oc_domain c in
  let '(o, fin, asked, st') := choose_proxy_dialer is_ip mode st (oc_outbound c) route_to dst dom (mkey_a c)
                                                   (mkey_aaaa c) (oc_has_resolvers c) (oc_answer c) in
  let in_range := fin <? n_groups in
  let key := if d_is4 dst then mkey_a c else mkey_aaaa c in
  let cls := classify is_ip dom in
  let e1 :=
      err (optN_eqb (if in_range then Some fin else None) final) n 1 9 ++
      (if in_range then
         err (str_eqb (o_target o) (oc_target c)) n 1 1 ++
         err (eqb (o_dial_ip o) (oc_dial_ip c)) n 1 3
       else []) ++
      err (eqb asked (oc_probed c)) n 1 4 ++
      err (eqb (existsb (str_eqb dom) (s_real st')) (oc_real_hit c)) n 1 5 ++
      err (optZ_eqb (assoc_get dom (s_neg st')) (oc_neg c)) n 1 6 ++
      err (Z.eqb (s_now st) (oc_now c)) n 1 7 in
  let sdom := spec_domain is_ip c in
  let scls := classify is_ip sdom in
  let skey := spec_key sdom (if d_is4 dst then qtype_a else qtype_aaaa) in
  let ik := knowledge_now neg_ttl ievs skey sdom (oc_now c) in
  let mk := knowledge_now neg_ttl mevs key dom (s_now st) in
  let sfin_i := spec_final_outbound is_ip mode (builtin_outbound (oc_outbound c)) (oc_outbound c) route_to scls ik in
  let sfin (k : knowledge) := spec_final_outbound is_ip mode (builtin_outbound (oc_outbound c)) (oc_outbound c) route_to cls k in
  let e2 :=
      match final with
      | Some f =>
          err (f =? sfin_i) n 2 3 ++
          err (if endpoint_constrained is_ip mode (builtin_outbound sfin_i) scls ik
               then opt_split_eqb (oc_target_split c)
                                  (Some (spec_endpoint is_ip mode (builtin_outbound sfin_i) (d_ip dst) (d_port dst) scls ik))
               else true) n 2 2
      | None => err (negb (sfin_i <? n_groups)) n 2 3
      end in
  let e3 :=
      err (fin =? sfin mk) n 3 4 ++
      err (eqb (o_use_name o) (spec_use_name is_ip mode (builtin_outbound fin) cls mk)) n 3 1 ++
      err (if endpoint_constrained is_ip mode (builtin_outbound fin) cls mk && literal_clean cls && dest_wf dst
           then denotes (o_target o) (spec_endpoint is_ip mode (builtin_outbound fin) (d_ip dst) (d_port dst) cls mk)
           else true) n 3 3 in
  (e1 ++ e2 ++ e3, st', ievs ++ events_of_probe c (oc_probed c), mevs ++ events_of_probe c asked).

(* a DNS answer enters the cache.  Model: its own store key (cacheKey + "|" scope, cut again) and
   rememberDnsKnowledge / the bypass of IP-literal names; spec: "name (normal form), type resolved until e".
   1.10: dnsKnowledge entry after the step  4.7: key  4.6: ParseAddr *)
Definition store_apply (st : cp_state) (s : obs_store) : cp_state * str * Z :=
  let mk := store_key (os_qname s) (os_qtype s) (os_scope s) in
  if os_full_path s then
    (cache_response (fun _ => os_host_is_ip s) st (os_qname s) (os_qtype s) (os_scope s) (os_ttl_s s), mk,
     (s_now st + os_ttl_s s * 1000000000)%Z)
  else (remember_dns_knowledge st mk (os_expires s), mk, os_expires s).

Definition check_store (st : cp_state) (ievs mevs : list event) (n : N) (s : obs_store)
  : list (N * N * N) * cp_state * list event * list event :=
  let '(st', mk, e) := store_apply st s in
  let es :=
      err (if is_ascii (os_qname s) then str_eqb mk (os_impl_key s) else true) n 4 7 ++
      err (eqb (go_parse_addr (trim_suffix_dot (os_qname s))) (os_host_is_ip s)) n 4 6 ++
      err (optZ_eqb (assoc_get mk (s_dns st')) (os_impl_known s)) n 1 10 in
  if store_bypassed s then (es, st', ievs, mevs)
  else (es, st', ievs ++ [EvResolved (spec_key (os_qname s) (os_qtype s)) e], mevs ++ [EvResolved mk e]).

Fixpoint check_ops (mode : dial_mode) (ops : list obs_op) (st : cp_state) (ievs mevs : list event) (n : N)
  : list (N * N * N) :=
  match ops with
  | [] => []
  | OStore s :: r =>
      let '(es, st', ievs', mevs') := check_store st ievs mevs n s in
      es ++ check_ops mode r st' ievs' mevs' (n + 1)
  | OAdvance dt :: r => check_ops mode r (advance st dt) ievs mevs (n + 1)
  | OChoose c :: r =>
      let '(es, st', ievs', mevs') := check_choose mode st ievs mevs n c in
      es ++ check_ops mode r st' ievs' mevs' (n + 1)
  | ODial c rt ng fin :: r =>
      let '(es, st', ievs', mevs') := check_dial mode st ievs mevs n c rt ng fin in
      es ++ check_ops mode r st' ievs' mevs' (n + 1)
  end.

Definition check_case (c : obs_case) : list (N * N * N) :=
  check_ops (ob_mode c) (ob_ops c) (init_state (ob_now0 c)) [] [] 0.

(* coverage signature of one decision: (mode, reserved, class, ip-like, knowledge cell, use_name, reroute,
   dial_ip, probe asked) *)
Definition mode_code (m : dial_mode) : N :=
  match m with ModeIp => 0 | ModeDomain => 1 | ModeDomainPlus => 2 | ModeDomainCao => 3 end.
Definition class_code (c : sniff_class) : N :=
  match c with CEmpty => 0 | CIpLit _ => 1 | CHostPort _ _ => 2 | CName _ => 3 end.
Definition b2n (b : bool) : N := if b then 1 else 0.

Definition sig_choose (mode : dial_mode) (st : cp_state) (c : obs_choose) : list N * cp_state :=
  let is_ip := oracle_ip (oc_facts c) in
  let '(o, asked, st') := choose_step is_ip mode st (oc_outbound c) (oc_dst c) (oc_domain c) (mkey_a c)
                                      (mkey_aaaa c) (oc_has_resolvers c) (oc_answer c) in
  let cls := classify is_ip (oc_domain c) in
  let key := if d_is4 (oc_dst c) then mkey_a c else mkey_aaaa c in
  let '(dns, _) := has_dns_knowledge st key in
  let '(known, real, _) := lookup_real_domain_cache st (oc_domain c) in
  ([mode_code mode; b2n (is_reserved (oc_outbound c)); class_code cls; b2n (ip_like is_ip cls);
    b2n (d_is4 (oc_dst c)); b2n dns; b2n known; b2n real;
    b2n (o_use_name o); b2n (o_reroute o); b2n (o_dial_ip o); b2n asked;
    b2n (has_prefix1 c_lbr (oc_domain c)); b2n (negb (str_eqb (oc_raw c) (oc_domain c)))], st').

Fixpoint sig_ops (mode : dial_mode) (ops : list obs_op) (st : cp_state) : list (list N) :=
  match ops with
  | [] => []
  | OStore s :: r => let '(st', _, _) := store_apply st s in sig_ops mode r st'
  | OAdvance dt :: r => sig_ops mode r (advance st dt)
  | OChoose c :: r => let '(s, st') := sig_choose mode st c in s :: sig_ops mode r st'
  | ODial c rt ng fin :: r =>
      let '(s, _) := sig_choose mode st c in
      let '(_, f, _, st') := choose_proxy_dialer (oracle_ip (oc_facts c)) mode st (oc_outbound c) rt (oc_dst c) (oc_domain c)
                                                 (mkey_a c) (mkey_aaaa c) (oc_has_resolvers c) (oc_answer c) in
      (s ++ [1 + b2n (negb (f =? oc_outbound c)) + 2 * b2n (is_reserved f)]) :: sig_ops mode r st'
  end.

Definition case_signature (c : obs_case) : list (list N) :=
  sig_ops (ob_mode c) (ob_ops c) (init_state (ob_now0 c)).
