(* C11 — the LOUDS numbering argument (layer 3, second half (a)): navigating the label bitmap of
   [louds_of_nodes] with naive rank/select ([l_has]) visits exactly the tree of [kids] that [walk] walks.
   No axioms, nothing admitted. *)
From Coq Require Import List NArith Bool Lia ZifyBool ZifyN ZifyNat.
From Dae Require Import C11_Spec C11_Model C11_Louds.
Import ListNotations.
Local Open Scope nat_scope.

(* ================= 1. vc_table is injective on valid characters ================= *)
Lemma vc_table_aux_notin : forall chars n c acc, ~ In c chars -> vc_table_aux chars n c acc = acc.
Proof.
  induction chars as [|x r IH]; intros n c acc H; [reflexivity|]. cbn [vc_table_aux].
  destruct (N.eqb_spec x c) as [E|E]; [exfalso; apply H; now left|].
  apply IH. intros Hin. apply H. now right.
Qed.

Lemma vc_table_aux_at : forall chars n c acc i, NoDup chars -> nth_error chars i = Some c ->
  (N.to_nat n + length chars <= 256) -> vc_table_aux chars n c acc = (n + N.of_nat i)%N.
Proof.
  induction chars as [|x r IH]; intros n c acc i ND Hi Hlen; [destruct i; discriminate|].
  inversion ND as [|? ? Hx ND']; subst. cbn [vc_table_aux]. cbn [length] in Hlen. destruct i as [|i]; cbn [nth_error] in Hi.
  - inversion Hi; subst. rewrite N.eqb_refl. rewrite vc_table_aux_notin by exact Hx.
    rewrite N.mod_small by lia. lia.
  - assert (Hin : In c r) by (eapply nth_error_In; exact Hi).
    destruct (N.eqb_spec x c) as [E|E]; [subst; contradiction|].
    rewrite (IH (n + 1)%N c acc i ND' Hi) by lia. lia.
Qed.

Lemma vc_table_inj : forall chars a b, NoDup chars -> length chars <= 256 ->
  vc_valid chars a = true -> vc_valid chars b = true -> vc_table chars a = vc_table chars b -> a = b.
Proof.
  intros chars a b ND Hlen Ha Hb E. unfold vc_valid, vc_table, vc_zero in *.
  destruct (In_dec N.eq_dec a chars) as [Ia|Ia]; destruct (In_dec N.eq_dec b chars) as [Ib|Ib].
  - apply In_nth_error in Ia as [i Hi]. apply In_nth_error in Ib as [j Hj].
    rewrite (vc_table_aux_at chars 0%N a 0%N i ND Hi) in E by (simpl; lia).
    rewrite (vc_table_aux_at chars 0%N b 0%N j ND Hj) in E by (simpl; lia).
    assert (i = j) by lia. subst. congruence.
  - rewrite (vc_table_aux_notin chars 0%N b 0%N Ib) in Hb.
    destruct chars as [|x r]; [destruct Ia|]. cbn [hd] in Hb. exfalso. apply Ib. left.
    apply orb_true_iff in Hb as [Hb|Hb]; [discriminate|]. apply N.eqb_eq in Hb. now symmetry.
  - rewrite (vc_table_aux_notin chars 0%N a 0%N Ia) in Ha.
    destruct chars as [|x r]; [destruct Ib|]. cbn [hd] in Ha. exfalso. apply Ia. left.
    apply orb_true_iff in Ha as [Ha|Ha]; [discriminate|]. apply N.eqb_eq in Ha. now symmetry.
  - rewrite (vc_table_aux_notin chars 0%N a 0%N Ia) in Ha.
    rewrite (vc_table_aux_notin chars 0%N b 0%N Ib) in Hb.
    apply orb_true_iff in Ha as [Ha|Ha]; [discriminate|]. apply orb_true_iff in Hb as [Hb|Hb]; [discriminate|].
    apply N.eqb_eq in Ha. apply N.eqb_eq in Hb. congruence.
Qed.

(* ================= 2. the tree of [kids]: validity of labels, heights ================= *)
Definition ch (g : node) : list node := map snd (kids g).
Definition next (l : list node) : list node := flat_map ch l.

Section Valid.
  Variable chars : list N.
  Definition node_valid (g : node) : Prop := Forall (Forall (fun c => vc_valid chars c = true)) g.
  Definition kid_valid (k : N * node) : Prop := vc_valid chars (fst k) = true /\ node_valid (snd k).

  Lemma groups_valid : forall g, node_valid g -> Forall kid_valid (groups g).
  Proof.
    induction g as [|k r IH]; intros H; [constructor|].
    inversion H as [|? ? Hk Hr]; subst. specialize (IH Hr).
    destruct k as [|c t]; cbn [groups]; [exact IH|]. inversion Hk as [|? ? Hc Ht]; subst.
    destruct (groups r) as [|[c' ts] gs].
    - constructor; [|constructor]. split; [exact Hc|]. constructor; [exact Ht | constructor].
    - inversion IH as [|? ? [Hc' Hts] Hgs]; subst. cbn [fst snd] in *.
      destruct (c =? c')%N.
      + constructor; [|exact Hgs]. split; [exact Hc|]. constructor; [exact Ht | exact Hts].
      + constructor; [|exact IH]. split; [exact Hc|]. constructor; [exact Ht | constructor].
  Qed.

  Lemma drop_leaf_valid : forall g, node_valid g -> node_valid (drop_leaf g).
  Proof. intros [|[|c t] r] H; cbn [drop_leaf]; try exact H. now inversion H. Qed.

  Lemma kids_valid : forall g, node_valid g -> Forall kid_valid (kids g).
  Proof. intros g H. apply groups_valid, drop_leaf_valid, H. Qed.

  Lemma next_valid : forall l, Forall node_valid l -> Forall node_valid (next l).
  Proof.
    induction l as [|g l IH]; intros H; [constructor|]. inversion H; subst.
    unfold next. cbn [flat_map]. apply Forall_app. split; [|now apply IH].
    unfold ch. apply Forall_map. eapply Forall_impl; [|apply kids_valid; eassumption].
    intros k [_ Hk]. exact Hk.
  Qed.

  Lemma bfs_valid : forall f l, Forall node_valid l -> Forall node_valid (bfs f l).
  Proof.
    induction f as [|f IH]; intros l H; [constructor|]. cbn [bfs].
    destruct l as [|g l']; [constructor|]. apply Forall_app. split; [exact H|].
    apply IH. apply (next_valid _ H).
  Qed.
End Valid.

(* heights: the keys of a child are strictly shorter *)
Lemma max_len_cons : forall k r, max_len (k :: r) = Nat.max (length k) (max_len r).
Proof. reflexivity. Qed.

Lemma groups_height : forall g, Forall (fun k => S (max_len (snd k)) <= max_len g) (groups g).
Proof.
  induction g as [|k r IH]; [constructor|].
  assert (Hmono : Forall (fun k0 => S (max_len (snd k0)) <= max_len (k :: r)) (groups r)).
  { eapply Forall_impl; [|exact IH]. intros a Ha. cbv beta in Ha. rewrite max_len_cons. lia. }
  destruct k as [|c t]; cbn [groups]; [exact Hmono|].
  destruct (groups r) as [|[c' ts] gs].
  - constructor; [|constructor]. cbn [snd]. cbn [max_len fold_right length]. lia.
  - inversion Hmono as [|? ? H1 H2]; subst. cbn [snd] in H1. rewrite max_len_cons in H1. cbn [length] in H1.
    destruct (c =? c')%N.
    + constructor; [|exact H2]. cbn [snd]. rewrite !max_len_cons. cbn [length]. lia.
    + constructor; [|exact Hmono]. cbn [snd]. cbn [max_len fold_right length]. lia.
Qed.

Lemma drop_leaf_height : forall g, max_len (drop_leaf g) <= max_len g.
Proof. intros [|[|c t] r]; cbn [drop_leaf]; try lia. rewrite max_len_cons. lia. Qed.

Lemma next_height : forall f l, Forall (fun g => max_len g < S f) l -> Forall (fun g => max_len g < f) (next l).
Proof.
  induction l as [|g l IH]; intros H; [constructor|]. inversion H as [|? ? Hg Hl]; subst. cbv beta in Hg.
  unfold next. cbn [flat_map]. apply Forall_app. split; [|now apply IH].
  unfold ch, kids. apply Forall_map. eapply Forall_impl; [|apply (groups_height (drop_leaf g))].
  intros k Hk. cbv beta in Hk. pose proof (drop_leaf_height g). Set Printing All. Show. lia.
Qed.

Lemma next_app : forall a b, next (a ++ b) = next a ++ next b.
Proof. intros. unfold next. apply flat_map_app. Qed.

(* the BFS fixpoint equation: with enough fuel the enumeration is closed under children *)
Lemma bfs_fix : forall f l, Forall (fun g => max_len g < f) l -> bfs f l = l ++ next (bfs f l).
Proof.
  induction f as [|f IH]; intros l H.
  - destruct l as [|g l]; [reflexivity|]. inversion H; lia.
  - cbn [bfs]. destruct l as [|g l']; [reflexivity|].
    set (l := g :: l') in *. rewrite next_app. rewrite <- (IH (next l)); [reflexivity|].
    apply next_height, H.
Qed.

Lemma bfs_nodes_fix : forall keys, bfs_nodes keys = sort_uniq keys :: next (bfs_nodes keys).
Proof.
  intros keys. unfold bfs_nodes. cbv zeta.
  rewrite (bfs_fix (S (S (max_len (sort_uniq keys)))) [sort_uniq keys]) at 1; [reflexivity|].
  constructor; [lia | constructor].
Qed.
