(* C11 — the LOUDS numbering argument (layer 3, second half (a)): navigating the label bitmap of
   [louds_of_nodes] with naive rank/select ([l_has]) visits exactly the tree of [kids] that [walk] walks.
   No axioms, nothing admitted. *)
From Coq Require Import List Arith NArith Bool Lia ZifyBool ZifyN ZifyNat Sorting.Permutation.
From Dae Require Import C11_Spec C11_Model C11_Louds.
Import ListNotations.
Local Open Scope nat_scope.

(* ================= 1. vc_table is injective on valid characters ================= *)
Lemma vc_table_aux_notin : forall chars n c acc, ~ In c chars -> vc_table_aux chars n c acc = acc.
Proof.
  induction chars as [|x r IH]; intros n c acc H; [reflexivity|]. cbn [vc_table_aux].
  destruct (N.eqb_spec x c) as [E|E]; [exfalso; apply H; now left|].
  apply IH. intros Hin. apply H. now right.
Qed.

Lemma vc_table_aux_at : forall chars n c acc i, NoDup chars -> nth_error chars i = Some c ->
  (N.to_nat n + length chars <= 256) -> vc_table_aux chars n c acc = (n + N.of_nat i)%N.
Proof.
  induction chars as [|x r IH]; intros n c acc i ND Hi Hlen; [destruct i; discriminate|].
  inversion ND as [|? ? Hx ND']; subst. cbn [vc_table_aux]. cbn [length] in Hlen. destruct i as [|i]; cbn [nth_error] in Hi.
  - inversion Hi; subst. rewrite N.eqb_refl. rewrite vc_table_aux_notin by exact Hx.
    rewrite N.mod_small by lia. lia.
  - assert (Hin : In c r) by (eapply nth_error_In; exact Hi).
    destruct (N.eqb_spec x c) as [E|E]; [subst; contradiction|].
    rewrite (IH (n + 1)%N c acc i ND' Hi) by lia. lia.
Qed.

Lemma vc_table_inj : forall chars a b, NoDup chars -> length chars <= 256 ->
  vc_valid chars a = true -> vc_valid chars b = true -> vc_table chars a = vc_table chars b -> a = b.
Proof.
  intros chars a b ND Hlen Ha Hb E. unfold vc_valid, vc_table, vc_zero in *.
  destruct (In_dec N.eq_dec a chars) as [Ia|Ia]; destruct (In_dec N.eq_dec b chars) as [Ib|Ib].
  - apply In_nth_error in Ia as [i Hi]. apply In_nth_error in Ib as [j Hj].
    rewrite (vc_table_aux_at chars 0%N a 0%N i ND Hi) in E by (simpl; lia).
    rewrite (vc_table_aux_at chars 0%N b 0%N j ND Hj) in E by (simpl; lia).
    assert (i = j) by lia. subst. congruence.
  - rewrite (vc_table_aux_notin chars 0%N b 0%N Ib) in Hb.
    destruct chars as [|x r]; [destruct Ia|]. cbn [hd] in Hb. exfalso. apply Ib. left.
    apply orb_true_iff in Hb as [Hb|Hb]; [discriminate|]. apply N.eqb_eq in Hb. now symmetry.
  - rewrite (vc_table_aux_notin chars 0%N a 0%N Ia) in Ha.
    destruct chars as [|x r]; [destruct Ib|]. cbn [hd] in Ha. exfalso. apply Ia. left.
    apply orb_true_iff in Ha as [Ha|Ha]; [discriminate|]. apply N.eqb_eq in Ha. now symmetry.
  - rewrite (vc_table_aux_notin chars 0%N a 0%N Ia) in Ha.
    rewrite (vc_table_aux_notin chars 0%N b 0%N Ib) in Hb.
    apply orb_true_iff in Ha as [Ha|Ha]; [discriminate|]. apply orb_true_iff in Hb as [Hb|Hb]; [discriminate|].
    apply N.eqb_eq in Ha. apply N.eqb_eq in Hb. congruence.
Qed.

(* ================= 2. the tree of [kids]: validity of labels, heights ================= *)
Definition ch (g : node) : list node := map snd (kids g).
Definition next (l : list node) : list node := flat_map ch l.

Section Valid.
  Variable chars : list N.
  Definition node_valid (g : node) : Prop := Forall (Forall (fun c => vc_valid chars c = true)) g.
  Definition kid_valid (k : N * node) : Prop := vc_valid chars (fst k) = true /\ node_valid (snd k).

  Lemma groups_valid : forall g, node_valid g -> Forall kid_valid (groups g).
  Proof.
    induction g as [|k r IH]; intros H; [constructor|].
    inversion H as [|? ? Hk Hr]; subst. specialize (IH Hr).
    destruct k as [|c t]; cbn [groups]; [exact IH|]. inversion Hk as [|? ? Hc Ht]; subst.
    destruct (groups r) as [|[c' ts] gs].
    - constructor; [|constructor]. split; [exact Hc|]. constructor; [exact Ht | constructor].
    - inversion IH as [|? ? [Hc' Hts] Hgs]; subst. cbn [fst snd] in *.
      destruct (c =? c')%N.
      + constructor; [|exact Hgs]. split; [exact Hc|]. constructor; [exact Ht | exact Hts].
      + constructor; [|exact IH]. split; [exact Hc|]. constructor; [exact Ht | constructor].
  Qed.

  Lemma drop_leaf_valid : forall g, node_valid g -> node_valid (drop_leaf g).
  Proof. intros [|[|c t] r] H; cbn [drop_leaf]; try exact H. now inversion H. Qed.

  Lemma kids_valid : forall g, node_valid g -> Forall kid_valid (kids g).
  Proof. intros g H. apply groups_valid, drop_leaf_valid, H. Qed.

  Lemma next_valid : forall l, Forall node_valid l -> Forall node_valid (next l).
  Proof.
    induction l as [|g l IH]; intros H; [constructor|]. inversion H; subst.
    unfold next. cbn [flat_map]. apply Forall_app. split; [|now apply IH].
    unfold ch. apply Forall_map. eapply Forall_impl; [|apply kids_valid; eassumption].
    intros k [_ Hk]. exact Hk.
  Qed.

  Lemma bfs_valid : forall f l, Forall node_valid l -> Forall node_valid (bfs f l).
  Proof.
    induction f as [|f IH]; intros l H; [constructor|]. cbn [bfs].
    destruct l as [|g l']; [constructor|]. apply Forall_app. split; [exact H|].
    apply IH. apply (next_valid _ H).
  Qed.
End Valid.

(* heights: the keys of a child are strictly shorter *)
Lemma max_len_cons : forall k r, max_len (k :: r) = Nat.max (length k) (max_len r).
Proof. reflexivity. Qed.

Lemma groups_height : forall g, Forall (fun k => S (max_len (snd k)) <= max_len g) (groups g).
Proof.
  induction g as [|k r IH]; [constructor|].
  assert (Hmono : Forall (fun k0 => S (max_len (snd k0)) <= max_len (k :: r)) (groups r)).
  { eapply Forall_impl; [|exact IH]. intros a Ha. cbv beta in Ha. rewrite max_len_cons. lia. }
  destruct k as [|c t]; cbn [groups]; [exact Hmono|].
  destruct (groups r) as [|[c' ts] gs].
  - constructor; [|constructor]. cbn [snd]. cbn [max_len fold_right length]. lia.
  - inversion Hmono as [|? ? H1 H2]; subst. cbn [snd] in H1. rewrite max_len_cons in H1. cbn [length] in H1.
    destruct (c =? c')%N.
    + constructor; [|exact H2]. cbn [snd]. rewrite !max_len_cons. cbn [length]. lia.
    + constructor; [|exact Hmono]. cbn [snd]. cbn [max_len fold_right length]. lia.
Qed.

Lemma drop_leaf_height : forall g, max_len (drop_leaf g) <= max_len g.
Proof. intros [|[|c t] r]; cbn [drop_leaf]; try lia. rewrite max_len_cons. lia. Qed.

Lemma next_height : forall f l, Forall (fun g => max_len g < S f) l -> Forall (fun g => max_len g < f) (next l).
Proof.
  induction l as [|g l IH]; intros H; [constructor|]. inversion H as [|? ? Hg Hl]; subst. cbv beta in Hg.
  unfold next. cbn [flat_map]. apply Forall_app. split; [|now apply IH].
  unfold ch, kids. apply Forall_map. eapply Forall_impl; [|apply (groups_height (drop_leaf g))].
  intros k Hk. cbv beta in Hk. pose proof (drop_leaf_height g). unfold node in *. lia.
Qed.

Lemma next_app : forall a b, next (a ++ b) = next a ++ next b.
Proof. intros. unfold next. apply flat_map_app. Qed.

(* the BFS fixpoint equation: with enough fuel the enumeration is closed under children *)
Lemma bfs_fix : forall f l, Forall (fun g => max_len g < f) l -> bfs f l = l ++ next (bfs f l).
Proof.
  induction f as [|f IH]; intros l H.
  - destruct l as [|g l]; [reflexivity|]. inversion H; lia.
  - cbn [bfs]. destruct l as [|g l']; [reflexivity|].
    set (l := g :: l') in *. change (flat_map (fun g0 : node => map snd (kids g0)) l) with (next l).
    rewrite next_app. f_equal. apply IH. apply next_height, H.
Qed.

Lemma bfs_nodes_fix : forall keys, bfs_nodes keys = sort_uniq keys :: next (bfs_nodes keys).
Proof.
  intros keys. unfold bfs_nodes. cbv zeta.
  rewrite (bfs_fix (S (S (max_len (sort_uniq keys)))) [sort_uniq keys]) at 1; [reflexivity|].
  constructor; [lia | constructor].
Qed.

(* ================= 3. rank / select on a concatenation of unary-coded degrees ================= *)
Definition lbm_of (nodes : list node) : list bool :=
  flat_map (fun g => repeat false (length (kids g)) ++ [true]) nodes.
Definition lab_of (lab : N * node -> N) (nodes : list node) : list N :=
  flat_map (fun g => map lab (kids g)) nodes.

Lemma lbm_of_app : forall a b, lbm_of (a ++ b) = lbm_of a ++ lbm_of b.
Proof. intros. apply flat_map_app. Qed.
Lemma lab_of_app : forall lab a b, lab_of lab (a ++ b) = lab_of lab a ++ lab_of lab b.
Proof. intros. apply flat_map_app. Qed.

Lemma lab_of_length : forall lab l, length (lab_of lab l) = length (next l).
Proof.
  induction l as [|g l IH]; [reflexivity|]. unfold lab_of, next in *. cbn [flat_map].
  rewrite !app_length, IH. unfold ch. now rewrite !map_length.
Qed.

Lemma lbm_of_length : forall l, length (lbm_of l) = length l + length (next l).
Proof.
  induction l as [|g l IH]; [reflexivity|]. unfold lbm_of, next in *. cbn [flat_map length].
  rewrite !app_length, IH, repeat_length. unfold ch. rewrite map_length. cbn [length]. lia.
Qed.

Lemma filter_negb_repeat : forall k, filter negb (repeat false k) = repeat false k.
Proof. induction k as [|k IH]; [reflexivity|]. cbn [repeat filter negb]. now rewrite IH. Qed.

Lemma lbm_of_zeros : forall l, length (filter negb (lbm_of l)) = length (next l).
Proof.
  induction l as [|g l IH]; [reflexivity|]. unfold lbm_of, next in *. cbn [flat_map].
  rewrite !filter_app, !app_length, IH, filter_negb_repeat, repeat_length. unfold ch. rewrite map_length.
  cbn [filter negb length]. lia.
Qed.

Lemma nth_mid : forall (A : Type) (X : list A) y Z d k, k = length X -> nth k (X ++ y :: Z) d = y.
Proof. intros; subst. apply nth_middle. Qed.

(* rank: the zeros up to and including the i-th edge of the node after [pre] *)
Lemma count_zeros_edge : forall pre d i rest, i < d ->
  count_zeros_l (lbm_of pre ++ repeat false d ++ true :: rest) (S (length (lbm_of pre) + i))
  = length (next pre) + S i.
Proof.
  intros pre d i rest Hi. unfold count_zeros_l.
  replace (S (length (lbm_of pre) + i)) with (length (lbm_of pre) + S i) by lia.
  rewrite firstn_app_2, filter_app, app_length, lbm_of_zeros. f_equal.
  replace d with (S i + (d - S i)) by lia. rewrite repeat_app, <- app_assoc.
  replace (S i) with (length (repeat false (S i)) + 0) at 1 by (rewrite repeat_length; lia).
  rewrite firstn_app_2. cbn [firstn]. rewrite app_nil_r, filter_negb_repeat, repeat_length. reflexivity.
Qed.

Lemma select_skip_zeros : forall k rest i pos,
  select_one_l (repeat false k ++ rest) i pos = select_one_l rest i (pos + k).
Proof.
  induction k as [|k IH]; intros rest i pos; cbn [repeat app select_one_l]; [f_equal; lia|].
  rewrite IH. f_equal. lia.
Qed.

(* select: one past the one that closes node m is the start of node m+1 *)
Lemma select_close : forall nodes m pos, m < length nodes ->
  S (select_one_l (lbm_of nodes) m pos) = pos + length (lbm_of (firstn (S m) nodes)).
Proof.
  induction nodes as [|g r IH]; intros m pos Hm; [cbn [length] in Hm; lia|].
  change (lbm_of (g :: r)) with ((repeat false (length (kids g)) ++ [true]) ++ lbm_of r).
  rewrite <- app_assoc, select_skip_zeros. cbn [app select_one_l]. destruct m as [|m].
  - cbn [firstn]. change (lbm_of [g]) with ((repeat false (length (kids g)) ++ [true]) ++ []).
    rewrite !app_length, repeat_length. cbn [length]. lia.
  - cbn [length] in Hm. rewrite IH by lia.
    change (firstn (S (S m)) (g :: r)) with (g :: firstn (S m) r).
    change (lbm_of (g :: firstn (S m) r)) with ((repeat false (length (kids g)) ++ [true]) ++ lbm_of (firstn (S m) r)).
    rewrite !app_length, repeat_length. cbn [length]. lia.
Qed.

(* ================= 4. the label scan ================= *)
Fixpoint fidx {A : Type} (f : A -> bool) (l : list A) : option nat :=
  match l with
  | [] => None
  | x :: r => if f x then Some 0 else option_map S (fidx f r)
  end.

Lemma fidx_find : forall (A : Type) (f : A -> bool) l,
  find f l = match fidx f l with Some i => nth_error l i | None => None end.
Proof.
  induction l as [|x r IH]; [reflexivity|]. cbn [find fidx]. destruct (f x); [reflexivity|].
  rewrite IH. destruct (fidx f r); reflexivity.
Qed.

Lemma fidx_lt : forall (A : Type) (f : A -> bool) l i, fidx f l = Some i -> i < length l.
Proof.
  induction l as [|x r IH]; intros i H; [discriminate|]. cbn [fidx] in H. cbn [length].
  destruct (f x); [inversion H; lia|]. destruct (fidx f r) as [j|]; [|discriminate].
  inversion H; subst. specialize (IH j eq_refl). lia.
Qed.

Lemma fidx_ext : forall (A : Type) (f g : A -> bool) l, Forall (fun x => f x = g x) l -> fidx f l = fidx g l.
Proof.
  induction l as [|x r IH]; intros H; [reflexivity|]. inversion H; subst. cbn [fidx].
  rewrite IH by assumption. now replace (g x) with (f x).
Qed.

Lemma scan_from : forall (lab : N * node -> N) L n tc A B LA LB rest done fuel,
  l_lbm L = A ++ repeat false (length done + length rest) ++ true :: B ->
  l_labels L = LA ++ map lab (done ++ rest) ++ LB ->
  length A = n + length LA ->
  length rest < fuel ->
  l_scan fuel L n (length A + length done) tc
  = option_map (fun i => length A + length done + i) (fidx (fun k => (lab k =? tc)%N) rest).
Proof.
  intros lab L n tc A B LA LB. induction rest as [|k rest IH]; intros done fuel Hb Hl HA Hf;
    (destruct fuel as [|fuel]; [cbn [length] in Hf; lia|]); cbn [l_scan fidx option_map].
  - rewrite Hb, app_assoc, nth_mid; [reflexivity|]. rewrite app_length, repeat_length. cbn [length]. lia.
  - assert (Hbit : nth (length A + length done) (l_lbm L) true = false).
    { rewrite Hb. cbn [length]. replace (length done + S (length rest)) with (length done + (1 + length rest)) by lia.
      rewrite repeat_app. cbn [repeat app]. rewrite <- app_assoc. cbn [app]. rewrite app_assoc.
      apply nth_mid. rewrite app_length, repeat_length. reflexivity. }
    assert (Hlab : nth (length A + length done - n) (l_labels L) 0%N = lab k).
    { rewrite Hl, map_app. cbn [map]. rewrite <- app_assoc. cbn [app]. rewrite app_assoc.
      apply nth_mid. rewrite app_length, map_length. lia. }
    rewrite Hbit, Hlab. destruct (lab k =? tc)%N.
    + cbn [option_map]. f_equal. lia.
    + replace (S (length A + length done)) with (length A + length (done ++ [k])) by (rewrite app_length; cbn [length]; lia).
      rewrite (IH (done ++ [k]) fuel).
      * destruct (fidx _ rest) as [i|]; cbn [option_map]; [|reflexivity]. f_equal. rewrite app_length. cbn [length]. lia.
      * rewrite Hb. do 3 f_equal. rewrite app_length. cbn [length]. lia.
      * rewrite Hl. do 3 f_equal. rewrite <- app_assoc. reflexivity.
      * exact HA.
      * cbn [length] in Hf. lia.
Qed.

(* ================= 5. navigating the arrays = walking the tree ================= *)
Lemma l_has_from_cons : forall chars L c w n b,
  l_has_from chars L (c :: w) n b =
  if nth n (l_leaves L) false then true
  else if negb (vc_valid chars c) then false
  else match l_scan (length (l_lbm L)) L n b (vc_table chars c) with
       | None => false
       | Some bm =>
           l_has_from chars L w (count_zeros_l (l_lbm L) (S bm))
             (S (select_one_l (l_lbm L) (count_zeros_l (l_lbm L) (S bm) - 1) 0))
       end.
Proof. reflexivity. Qed.

Lemma next_split : forall pre g post, next (pre ++ g :: post) = next pre ++ ch g ++ next post.
Proof. intros. rewrite next_app. reflexivity. Qed.

Section Main.
  Variable chars : list N.
  Variable nodes : list node.
  Variable root : node.
  Hypothesis Hinj : forall a b, vc_valid chars a = true -> vc_valid chars b = true ->
    vc_table chars a = vc_table chars b -> a = b.
  Hypothesis Hfix : nodes = root :: next nodes.
  Hypothesis Hval : Forall (node_valid chars) nodes.

  Let lab (k : N * node) : N := vc_table chars (fst k).
  Let L := louds_of_nodes chars nodes.

  Lemma child_index : forall pre g post i h, nodes = pre ++ g :: post ->
    nth_error (ch g) i = Some h -> nth_error nodes (S (length (next pre) + i)) = Some h.
  Proof.
    intros pre g post i h H Hi.
    assert (E : next nodes = next pre ++ ch g ++ next post) by (rewrite H at 1; apply next_split).
    rewrite Hfix. cbn [nth_error]. rewrite E.
    rewrite nth_error_app2 by lia. replace (length (next pre) + i - length (next pre)) with i by lia.
    rewrite nth_error_app1; [exact Hi|]. apply nth_error_Some. congruence.
  Qed.

  Lemma numbering_invariant : forall w pre g post, nodes = pre ++ g :: post ->
    l_has_from chars L w (length pre) (length (lbm_of pre)) = walk g w.
  Proof.
    induction w as [|c w IH]; intros pre g post H.
    - cbn [l_has_from walk]. change (l_leaves L) with (map is_leaf nodes).
      rewrite H, map_app. cbn [map]. apply nth_mid. now rewrite map_length.
    - rewrite l_has_from_cons. cbn [walk].
      assert (Hleaf : nth (length pre) (l_leaves L) false = is_leaf g).
      { change (l_leaves L) with (map is_leaf nodes).
        rewrite H, map_app. cbn [map]. apply nth_mid. now rewrite map_length. }
      rewrite Hleaf. destruct (is_leaf g); [reflexivity|]. cbn [orb].
      assert (Hg : node_valid chars g).
      { rewrite Forall_forall in Hval. apply Hval. rewrite H. apply in_or_app. right. now left. }
      pose proof (kids_valid chars g Hg) as Hk.
      destruct (vc_valid chars c) eqn:Hc; cbn [negb].
      + (* the scan *)
        assert (Hlbm : l_lbm L = lbm_of pre ++ repeat false (length (kids g)) ++ true :: lbm_of post).
        { change (l_lbm L) with (lbm_of nodes). rewrite H at 1. rewrite lbm_of_app.
          change (lbm_of (g :: post)) with ((repeat false (length (kids g)) ++ [true]) ++ lbm_of post).
          now rewrite <- app_assoc. }
        assert (Hlabs : l_labels L = lab_of lab pre ++ map lab (kids g) ++ lab_of lab post).
        { change (l_labels L) with (lab_of lab nodes). rewrite H at 1. rewrite lab_of_app. reflexivity. }
        assert (Hscan := scan_from lab L (length pre) (vc_table chars c) (lbm_of pre) (lbm_of post)
                           (lab_of lab pre) (lab_of lab post) (kids g) [] (length (l_lbm L))).
        cbn [length app Nat.add] in Hscan. rewrite Nat.add_0_r in Hscan.
        rewrite Hscan; clear Hscan.
        2: exact Hlbm. 2: exact Hlabs.
        2: { rewrite lbm_of_length, lab_of_length. reflexivity. }
        2: { change (l_lbm L) with (lbm_of nodes). rewrite lbm_of_length. rewrite H at 2. rewrite next_split.
             rewrite H, !app_length. unfold ch. rewrite map_length. cbn [length]. lia. }
        assert (Hext : fidx (fun k => (lab k =? vc_table chars c)%N) (kids g) = fidx (fun k => (fst k =? c)%N) (kids g)).
        { apply fidx_ext. eapply Forall_impl; [|exact Hk]. intros k [Hv _]. unfold lab.
          destruct (N.eqb_spec (fst k) c) as [E|E]; [subst; apply N.eqb_refl|].
          apply N.eqb_neq. intros E'. apply E. now apply Hinj. }
        rewrite Hext, fidx_find. destruct (fidx (fun k => (fst k =? c)%N) (kids g)) as [i|] eqn:Ei; cbn [option_map]; [|reflexivity].
        pose proof (fidx_lt _ _ _ _ Ei) as Hi.
        destruct (nth_error (kids g) i) as [k|] eqn:Ek; [|apply nth_error_None in Ek; lia].
        assert (Hch : nth_error (ch g) i = Some (snd k)) by (unfold ch; rewrite nth_error_map, Ek; reflexivity).
        pose proof (child_index pre g post i (snd k) H Hch) as Hn.
        assert (Hcz : count_zeros_l (l_lbm L) (S (length (lbm_of pre) + i)) = length (next pre) + S i)
          by (rewrite Hlbm; apply count_zeros_edge; exact Hi).
        rewrite !Hcz.
        replace (length (next pre) + S i - 1) with (length (next pre) + i) by lia.
        replace (length (next pre) + S i) with (S (length (next pre) + i)) by lia.
        assert (Hm : length (next pre) + i < length nodes).
        { assert (S (length (next pre) + i) < length nodes) by (apply nth_error_Some; congruence). lia. }
        change (l_lbm L) with (lbm_of nodes). rewrite (select_close nodes _ 0 Hm). cbn [Nat.add].
        destruct (nth_error_split _ _ Hn) as [pre' [post' [Hsplit Hlen]]].
        assert (Hfirst : firstn (S (length (next pre) + i)) nodes = pre').
        { rewrite Hsplit, <- Hlen. replace (length pre') with (length pre' + 0) by lia.
          rewrite firstn_app_2. cbn [firstn]. apply app_nil_r. }
        rewrite Hfirst, <- Hlen. apply (IH pre' (snd k) post' Hsplit).
      + destruct (find (fun k => (fst k =? c)%N) (kids g)) as [k|] eqn:Ef; [|reflexivity]. exfalso.
        apply find_some in Ef as [Hin Heq]. apply N.eqb_eq in Heq. rewrite Forall_forall in Hk.
        destruct (Hk k Hin) as [Hv _]. congruence.
  Qed.

  Lemma numbering_root : forall w, l_has chars L w = walk root w.
  Proof.
    intros w. unfold l_has. apply (numbering_invariant w [] root (next nodes)). exact Hfix.
  Qed.
End Main.

(* ================= 6. the nodes of NewTrie ================= *)
Lemma uniq_cons2' : forall a b l, uniq (a :: b :: l) = if str_eqb a b then uniq (b :: l) else a :: uniq (b :: l).
Proof. reflexivity. Qed.

Lemma uniq_incl : forall l k, In k (uniq l) -> In k l.
Proof.
  induction l as [|a l IH]; intros k H; [exact H|]. destruct l as [|b l']; [exact H|].
  rewrite uniq_cons2' in H. destruct (str_eqb a b).
  - right. now apply IH.
  - destruct H as [H|H]; [now left | right; now apply IH].
Qed.

Lemma sort_uniq_incl : forall keys k, In k (sort_uniq keys) -> In k keys.
Proof.
  intros keys k H. unfold sort_uniq in H. apply uniq_incl in H.
  eapply Permutation_in; [apply Permutation_sym, StrSort.Permuted_sort | exact H].
Qed.

Lemma keys_valid_nodes : forall chars keys, keys_valid chars keys = true ->
  Forall (node_valid chars) (bfs_nodes keys).
Proof.
  intros chars keys H. unfold bfs_nodes. cbv zeta. apply bfs_valid. constructor; [|constructor].
  unfold node_valid. rewrite Forall_forall. intros k Hk. apply sort_uniq_incl in Hk.
  unfold keys_valid in H. rewrite forallb_forall in H. specialize (H k Hk).
  rewrite forallb_forall in H. rewrite Forall_forall. exact H.
Qed.

(* ================= 7. the theorem ================= *)
Lemma louds_correct_gen :
  forall chars keys w L, NoDup chars -> length chars <= 256 ->
    l_new chars keys = Some L -> l_has chars L w = t_walk keys w.
Proof.
  intros chars keys w L ND Hlen Hnew. unfold l_new in Hnew.
  destruct (keys_valid chars keys) eqn:Hv; [|discriminate]. inversion Hnew; subst. unfold t_walk.
  apply (numbering_root chars (bfs_nodes keys) (sort_uniq keys)).
  - intros a b. now apply vc_table_inj.
  - apply bfs_nodes_fix.
  - now apply keys_valid_nodes.
Qed.

Lemma louds_correct :
  forall chars keys w L, NoDup chars -> (length chars <= 256)%nat -> keys <> [] ->
    l_new chars keys = Some L -> l_has chars L w = t_walk keys w.
Proof. intros chars keys w L ND Hlen _ Hnew. now apply louds_correct_gen. Qed.

Print Assumptions louds_correct.

(* non-vacuity: the hypotheses are satisfiable and both sides take both truth values *)
Example louds_nonvacuous :
  let chars := [97; 98; 99; 100]%N in
  let keys := [[97;98]; [97]; [97;98;99]; [98;99]; [97;98]]%N in
  NoDup chars /\ (length chars <= 256) /\ (keys <> []) /\
  match l_new chars keys with
  | Some L => map (l_has chars L) [[97]; [98]; [98;99;100]; [97;120]; []; [99]]%N
              = [true; false; true; true; false; false]
  | None => False
  end.
Proof.
  cbv zeta. split; [|split; [|split]].
  - repeat constructor; cbn; intuition discriminate.
  - cbn. lia.
  - discriminate.
  - vm_compute. reflexivity.
Qed.
