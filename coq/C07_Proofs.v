(* C07 — lemmas. *)
From Coq Require Import List NArith Bool String Ascii Arith Lia ZifyBool ZifyN ZifyNat.
From Dae Require Import C07_Spec C07_Model.
From Dae.gen Require Import C07_Consts.
From Dae.common Require RuleScan.
Import ListNotations.
Open Scope N_scope.

(* ------------------------------------------------------------------------------------------------ *)
(* Part 0: the controller — bounded re-asks, reject ignores the cache                                 *)
(* ------------------------------------------------------------------------------------------------ *)

Lemma eval_mset_err sd ipsets a bm i m e :
  eval_mset sd ipsets a bm i m = Err e -> e = E_PANIC_INDEX \/ e = E_UNKNOWN_TYPE.
Proof.
  unfold eval_mset. intros H.
  destruct (m_type m =? MatchType_DomainSet).
  { destruct bm as [w|]; [|discriminate]. destruct (bm_read w i); [discriminate|]. inversion H. now left. }
  destruct (m_type m =? MatchType_QType); [discriminate|].
  destruct (m_type m =? MatchType_Fallback); [discriminate|].
  destruct sd; [inversion H; now right|].
  destruct (m_type m =? MatchType_IpSet).
  { destruct (nth_error ipsets (N.to_nat (m_value m))); [discriminate|]. inversion H. now left. }
  destruct (m_type m =? MatchType_Upstream); [discriminate|]. inversion H. now right.
Qed.

Lemma match_loop_err sd ipsets a bm : forall ms i good bad e,
  match_loop sd ipsets a bm ms i good bad = Err e -> e = E_PANIC_INDEX \/ e = E_UNKNOWN_TYPE \/ e = E_NO_HIT.
Proof.
  induction ms as [|m ms IH]; intros i good bad e H; cbn [match_loop] in H.
  - inversion H. auto.
  - destruct (if bad || good then Ok good else eval_mset sd ipsets a bm i m) as [g1|e1] eqn:E.
    + destruct (negb (N.land (m_up m) (s_mask sd) =? s_mask sd)).
      * destruct (negb (if negb (m_up m =? s_or sd) then if Bool.eqb g1 (m_not m) then true else bad else bad)); [discriminate|].
        eapply IH; eauto.
      * eapply IH; eauto.
    + inversion H; subst. destruct (bad || good); [discriminate|].
      apply eval_mset_err in E. tauto.
Qed.

Lemma response_select_not_deep d bm q ans s : response_select d bm q ans s <> Err E_TOO_DEEP.
Proof.
  unfold response_select. destruct (String.eqb (q_name q) ""); [discriminate|].
  destruct (match_loop _ _ _ _ _ _ _ _) as [up|e] eqn:E.
  - destruct (negb (is_reserved up)).
    + destruct (N.of_nat (List.length (d_ups d)) <=? up); discriminate.
    + destruct (up =? DnsResponseOutboundIndex_Accept); [discriminate|].
      destruct (up =? DnsResponseOutboundIndex_Reject); discriminate.
  - apply match_loop_err in E. intros H. inversion H; subst. unfold E_TOO_DEEP, E_PANIC_INDEX, E_UNKNOWN_TYPE, E_NO_HIT in *. lia.
Qed.

Lemma response_select_not_fuel d bm q ans s : response_select d bm q ans s <> Err E_FUEL.
Proof.
  unfold response_select. destruct (String.eqb (q_name q) ""); [discriminate|].
  destruct (match_loop _ _ _ _ _ _ _ _) as [up|e] eqn:E.
  - destruct (negb (is_reserved up)).
    + destruct (N.of_nat (List.length (d_ups d)) <=? up); discriminate.
    + destruct (up =? DnsResponseOutboundIndex_Accept); [discriminate|].
      destruct (up =? DnsResponseOutboundIndex_Reject); discriminate.
  - apply match_loop_err in E. intros H. inversion H; subst. unfold E_FUEL, E_PANIC_INDEX, E_UNKNOWN_TYPE, E_NO_HIT in *. lia.
Qed.

(* the response rules send the question on, n times in a row, starting with query number k at s *)
Fixpoint bounces (d : dns) (bm : list N) (q : question) (a : answers) (n k : nat) (s : src) : bool :=
  match n with
  | O => true
  | S n' =>
    match a s k with
    | UFail => false
    | UAnswer ans =>
      match response_select d bm q ans s with
      | Ok (PUp j) => bounces d bm q a n' (S k) (SUp j)
      | _ => false
      end
    end
  end.

Definition max_depth : nat := N.to_nat MaxDnsLookupDepth.

Lemma dial_send_gen d bm q a : forall fuel depth s,
  (depth <= max_depth)%nat -> (max_depth - depth < fuel)%nat ->
  (List.length (snd (dial_send fuel d bm q a (N.of_nat depth) s)) <= max_depth - depth)%nat /\
  fst (dial_send fuel d bm q a (N.of_nat depth) s) <> Err E_FUEL /\
  (fst (dial_send fuel d bm q a (N.of_nat depth) s) = Err E_TOO_DEEP <-> bounces d bm q a (max_depth - depth) depth s = true) /\
  (forall fuel', (max_depth - depth < fuel')%nat ->
     dial_send fuel' d bm q a (N.of_nat depth) s = dial_send fuel d bm q a (N.of_nat depth) s).
Proof.
  induction fuel as [|f IH]; intros depth s Hd Hf; [lia|].
  cbn [dial_send].
  destruct (MaxDnsLookupDepth <=? N.of_nat depth) eqn:Edeep.
  - assert (depth = max_depth) by (unfold max_depth in *; lia). subst depth.
    replace (max_depth - max_depth)%nat with 0%nat by lia. cbn [fst snd List.length bounces].
    split; [lia|]. split; [discriminate|]. split; [tauto|].
    intros [|f'] Hf'; [lia|]. cbn [dial_send]. now rewrite Edeep.
  - assert (Hlt : (depth < max_depth)%nat) by (unfold max_depth in *; lia).
    replace (max_depth - depth)%nat with (S (max_depth - S depth)) by lia.
    rewrite Nat2N.id. cbn [bounces].
    assert (Hfuel' : forall fuel', (S (max_depth - S depth) < fuel')%nat -> exists f', fuel' = S f' /\ (max_depth - S depth < f')%nat).
    { intros [|f'] H; [lia|]. exists f'. split; [reflexivity|lia]. }
    destruct (a s depth) as [ans|] eqn:Ea.
    + destruct (response_select d bm q ans s) as [[| |j]|e] eqn:Er.
      * cbn [fst snd List.length]. split; [lia|]. split; [discriminate|]. split; [split; discriminate|].
        intros fuel' H'. destruct (Hfuel' _ H') as [f' [-> _]]. cbn [dial_send]. now rewrite Edeep, Nat2N.id, Ea, Er.
      * cbn [fst snd List.length]. split; [lia|]. split; [discriminate|]. split; [split; discriminate|].
        intros fuel' H'. destruct (Hfuel' _ H') as [f' [-> _]]. cbn [dial_send]. now rewrite Edeep, Nat2N.id, Ea, Er.
      * replace (N.of_nat depth + 1) with (N.of_nat (S depth)) by lia.
        destruct (IH (S depth) (SUp j)) as [H1 [H2 [H3 H4]]]; [lia|lia|].
        destruct (dial_send f d bm q a (N.of_nat (S depth)) (SUp j)) as [r l] eqn:Eds.
        cbn [fst snd List.length] in *. split; [lia|]. split; [exact H2|]. split; [exact H3|].
        intros fuel' H'. destruct (Hfuel' _ H') as [f' [-> Hf']]. cbn [dial_send].
        rewrite Edeep, Nat2N.id, Ea, Er. replace (N.of_nat depth + 1) with (N.of_nat (S depth)) by lia.
        now rewrite (H4 f' Hf').
      * cbn [fst snd List.length]. split; [lia|]. split.
        { intros H. inversion H; subst. now apply (response_select_not_fuel d bm q ans s). }
        split. { split; [|discriminate]. intros H. inversion H; subst. exfalso. now apply (response_select_not_deep d bm q ans s). }
        intros fuel' H'. destruct (Hfuel' _ H') as [f' [-> _]]. cbn [dial_send]. now rewrite Edeep, Nat2N.id, Ea, Er.
    + cbn [fst snd List.length]. split; [lia|]. split; [discriminate|]. split; [split; discriminate|].
      intros fuel' H'. destruct (Hfuel' _ H') as [f' [-> _]]. cbn [dial_send]. now rewrite Edeep, Nat2N.id, Ea.
Qed.

Lemma C07_reask_bounded_proof (d : dns) (bm : list N) (q : question) (a : answers) (s : src) (fuel : nat) :
  (N.to_nat MaxDnsLookupDepth < fuel)%nat ->
  (List.length (snd (dial_send fuel d bm q a 0 s)) <= N.to_nat MaxDnsLookupDepth)%nat /\
  fst (dial_send fuel d bm q a 0 s) <> Err E_FUEL /\
  (fst (dial_send fuel d bm q a 0 s) = Err E_TOO_DEEP <-> bounces d bm q a (N.to_nat MaxDnsLookupDepth) 0 s = true) /\
  dial_send fuel d bm q a 0 s = dial_send (S (N.to_nat MaxDnsLookupDepth)) d bm q a 0 s.
Proof.
  intros Hf. destruct (dial_send_gen d bm q a fuel 0%nat s) as [H1 [H2 [H3 H4]]]; [lia|unfold max_depth; lia|].
  change (N.of_nat 0) with 0 in *. unfold max_depth in *. rewrite Nat.sub_0_r in *.
  split; [exact H1|]. split; [exact H2|]. split; [exact H3|].
  symmetry. apply H4. lia.
Qed.

(* --- reject ignores the cache --- *)
Lemma find_filter_none {A} (p f : A -> bool) l : (forall x, p x = true -> f x = false) -> find p (filter f l) = None.
Proof.
  intros H. induction l as [|x l IH]; [reflexivity|]. cbn [filter]. destruct (f x) eqn:Ef; [|exact IH].
  cbn [find]. destruct (p x) eqn:Ep; [|exact IH]. rewrite (H x Ep) in Ef. discriminate.
Qed.

Lemma C07_reject_model (fuel : nat) (d : dns) (bmq bmr : list N) (c : cache) (q : question) (a : answers) :
  request_select d bmq q = Ok QReject ->
  handle fuel d bmq bmr c q a = (Ok [], [], cache_remove_family c q) /\
  (forall scope, cache_lookup (cache_remove_family c q) q scope = None) /\
  (forall e, In e (cache_remove_family c q) <-> In e c /\ same_family q e = false).
Proof.
  intros H. unfold handle. rewrite H. split; [reflexivity|]. split.
  - intros scope. unfold cache_lookup, cache_remove_family. rewrite find_filter_none; [reflexivity|].
    intros x Hx. apply andb_true_iff in Hx. destruct Hx as [Hx _]. now rewrite Hx.
  - intros e. unfold cache_remove_family. rewrite filter_In. split; intros [H1 H2]; split; auto.
    + now apply negb_true_iff in H2.
    + now apply negb_true_iff.
Qed.
