(* C07 — lemmas. *)
From Coq Require Import List NArith Bool String Ascii Arith Lia ZifyBool ZifyN ZifyNat.
From Dae Require Import C07_Spec C07_Model.
From Dae.gen Require Import C07_Consts.
From Dae.common Require RuleScan.
Import ListNotations.
Open Scope N_scope.

(* ------------------------------------------------------------------------------------------------ *)
(* Part 0: the controller — bounded re-asks, reject ignores the cache                                 *)
(* ------------------------------------------------------------------------------------------------ *)

Lemma eval_mset_err sd ipsets a bm i m e :
  eval_mset sd ipsets a bm i m = Err e -> e = E_PANIC_INDEX \/ e = E_UNKNOWN_TYPE.
Proof.
  unfold eval_mset. intros H.
  destruct (m_type m =? MatchType_DomainSet).
  { destruct bm as [w|]; [|discriminate]. destruct (bm_read w i); [discriminate|]. inversion H. now left. }
  destruct (m_type m =? MatchType_QType); [discriminate|].
  destruct (m_type m =? MatchType_Fallback); [discriminate|].
  destruct sd; [inversion H; now right|].
  destruct (m_type m =? MatchType_IpSet).
  { destruct (nth_error ipsets (N.to_nat (m_value m))); [discriminate|]. inversion H. now left. }
  destruct (m_type m =? MatchType_Upstream); [discriminate|]. inversion H. now right.
Qed.

Lemma match_loop_err sd ipsets a bm : forall ms i good bad e,
  match_loop sd ipsets a bm ms i good bad = Err e -> e = E_PANIC_INDEX \/ e = E_UNKNOWN_TYPE \/ e = E_NO_HIT.
Proof.
  induction ms as [|m ms IH]; intros i good bad e H; cbn [match_loop] in H.
  - inversion H. auto.
  - destruct (if bad || good then Ok good else eval_mset sd ipsets a bm i m) as [g1|e1] eqn:E.
    + destruct (negb (N.land (m_up m) (s_mask sd) =? s_mask sd)).
      * destruct (negb (if negb (m_up m =? s_or sd) then if Bool.eqb g1 (m_not m) then true else bad else bad)); [discriminate|].
        eapply IH; eauto.
      * eapply IH; eauto.
    + inversion H; subst. destruct (bad || good); [discriminate|].
      apply eval_mset_err in E. tauto.
Qed.

Lemma response_select_not_deep d bm q ans s : response_select d bm q ans s <> Err E_TOO_DEEP.
Proof.
  unfold response_select. destruct (String.eqb (q_name q) ""); [discriminate|].
  destruct (match_loop _ _ _ _ _ _ _ _) as [up|e] eqn:E.
  - destruct (negb (is_reserved up)).
    + destruct (N.of_nat (List.length (d_ups d)) <=? up); discriminate.
    + destruct (up =? DnsResponseOutboundIndex_Accept); [discriminate|].
      destruct (up =? DnsResponseOutboundIndex_Reject); discriminate.
  - apply match_loop_err in E. intros H. inversion H; subst. unfold E_TOO_DEEP, E_PANIC_INDEX, E_UNKNOWN_TYPE, E_NO_HIT in *. lia.
Qed.

Lemma response_select_not_fuel d bm q ans s : response_select d bm q ans s <> Err E_FUEL.
Proof.
  unfold response_select. destruct (String.eqb (q_name q) ""); [discriminate|].
  destruct (match_loop _ _ _ _ _ _ _ _) as [up|e] eqn:E.
  - destruct (negb (is_reserved up)).
    + destruct (N.of_nat (List.length (d_ups d)) <=? up); discriminate.
    + destruct (up =? DnsResponseOutboundIndex_Accept); [discriminate|].
      destruct (up =? DnsResponseOutboundIndex_Reject); discriminate.
  - apply match_loop_err in E. intros H. inversion H; subst. unfold E_FUEL, E_PANIC_INDEX, E_UNKNOWN_TYPE, E_NO_HIT in *. lia.
Qed.

(* the response rules send the question on, n times in a row, starting with query number k at s *)
Fixpoint bounces (d : dns) (bm : list N) (q : question) (a : answers) (n k : nat) (s : src) : bool :=
  match n with
  | O => true
  | S n' =>
    match a s k with
    | UFail => false
    | UAnswer ans =>
      match response_select d bm q ans s with
      | Ok (PUp j) => bounces d bm q a n' (S k) (SUp j)
      | _ => false
      end
    end
  end.

Definition max_depth : nat := N.to_nat MaxDnsLookupDepth.

Lemma dial_send_gen d bm q a : forall fuel depth s,
  (depth <= max_depth)%nat -> (max_depth - depth < fuel)%nat ->
  (List.length (snd (dial_send fuel d bm q a (N.of_nat depth) s)) <= max_depth - depth)%nat /\
  fst (dial_send fuel d bm q a (N.of_nat depth) s) <> Err E_FUEL /\
  (fst (dial_send fuel d bm q a (N.of_nat depth) s) = Err E_TOO_DEEP <-> bounces d bm q a (max_depth - depth) depth s = true) /\
  (forall fuel', (max_depth - depth < fuel')%nat ->
     dial_send fuel' d bm q a (N.of_nat depth) s = dial_send fuel d bm q a (N.of_nat depth) s).
Proof.
  induction fuel as [|f IH]; intros depth s Hd Hf; [lia|].
  cbn [dial_send].
  destruct (MaxDnsLookupDepth <=? N.of_nat depth) eqn:Edeep.
  - assert (depth = max_depth) by (unfold max_depth in *; lia). subst depth.
    replace (max_depth - max_depth)%nat with 0%nat by lia. cbn [fst snd List.length bounces].
    split; [lia|]. split; [discriminate|]. split; [tauto|].
    intros [|f'] Hf'; [lia|]. cbn [dial_send]. now rewrite Edeep.
  - assert (Hlt : (depth < max_depth)%nat) by (unfold max_depth in *; lia).
    replace (max_depth - depth)%nat with (S (max_depth - S depth)) by lia.
    rewrite Nat2N.id. cbn [bounces].
    assert (Hfuel' : forall fuel', (S (max_depth - S depth) < fuel')%nat -> exists f', fuel' = S f' /\ (max_depth - S depth < f')%nat).
    { intros [|f'] H; [lia|]. exists f'. split; [reflexivity|lia]. }
    destruct (a s depth) as [ans|] eqn:Ea.
    + destruct (response_select d bm q ans s) as [[| |j]|e] eqn:Er.
      * cbn [fst snd List.length]. split; [lia|]. split; [discriminate|]. split; [split; discriminate|].
        intros fuel' H'. destruct (Hfuel' _ H') as [f' [-> _]]. cbn [dial_send]. now rewrite Edeep, Nat2N.id, Ea, Er.
      * cbn [fst snd List.length]. split; [lia|]. split; [discriminate|]. split; [split; discriminate|].
        intros fuel' H'. destruct (Hfuel' _ H') as [f' [-> _]]. cbn [dial_send]. now rewrite Edeep, Nat2N.id, Ea, Er.
      * replace (N.of_nat depth + 1) with (N.of_nat (S depth)) by lia.
        destruct (IH (S depth) (SUp j)) as [H1 [H2 [H3 H4]]]; [lia|lia|].
        destruct (dial_send f d bm q a (N.of_nat (S depth)) (SUp j)) as [r l] eqn:Eds.
        cbn [fst snd List.length] in *. split; [lia|]. split; [exact H2|]. split; [exact H3|].
        intros fuel' H'. destruct (Hfuel' _ H') as [f' [-> Hf']]. cbn [dial_send].
        rewrite Edeep, Nat2N.id, Ea, Er. replace (N.of_nat depth + 1) with (N.of_nat (S depth)) by lia.
        now rewrite (H4 f' Hf').
      * cbn [fst snd List.length]. split; [lia|]. split.
        { intros H. inversion H; subst. now apply (response_select_not_fuel d bm q ans s). }
        split. { split; [|discriminate]. intros H. inversion H; subst. exfalso. now apply (response_select_not_deep d bm q ans s). }
        intros fuel' H'. destruct (Hfuel' _ H') as [f' [-> _]]. cbn [dial_send]. now rewrite Edeep, Nat2N.id, Ea, Er.
    + cbn [fst snd List.length]. split; [lia|]. split; [discriminate|]. split; [split; discriminate|].
      intros fuel' H'. destruct (Hfuel' _ H') as [f' [-> _]]. cbn [dial_send]. now rewrite Edeep, Nat2N.id, Ea.
Qed.

Lemma C07_reask_bounded_proof (d : dns) (bm : list N) (q : question) (a : answers) (s : src) (fuel : nat) :
  (N.to_nat MaxDnsLookupDepth < fuel)%nat ->
  (List.length (snd (dial_send fuel d bm q a 0 s)) <= N.to_nat MaxDnsLookupDepth)%nat /\
  fst (dial_send fuel d bm q a 0 s) <> Err E_FUEL /\
  (fst (dial_send fuel d bm q a 0 s) = Err E_TOO_DEEP <-> bounces d bm q a (N.to_nat MaxDnsLookupDepth) 0 s = true) /\
  dial_send fuel d bm q a 0 s = dial_send (S (N.to_nat MaxDnsLookupDepth)) d bm q a 0 s.
Proof.
  intros Hf. destruct (dial_send_gen d bm q a fuel 0%nat s) as [H1 [H2 [H3 H4]]]; [lia|unfold max_depth; lia|].
  change (N.of_nat 0) with 0 in *. unfold max_depth in *. rewrite Nat.sub_0_r in *.
  split; [exact H1|]. split; [exact H2|]. split; [exact H3|].
  symmetry. apply H4. lia.
Qed.

(* --- reject ignores the cache --- *)
Lemma find_filter_none {A} (p f : A -> bool) l : (forall x, p x = true -> f x = false) -> find p (filter f l) = None.
Proof.
  intros H. induction l as [|x l IH]; [reflexivity|]. cbn [filter]. destruct (f x) eqn:Ef; [|exact IH].
  cbn [find]. destruct (p x) eqn:Ep; [|exact IH]. rewrite (H x Ep) in Ef. discriminate.
Qed.

Lemma C07_reject_model (fuel : nat) (d : dns) (bmq bmr : list N) (c : cache) (q : question) (a : answers) :
  request_select d bmq q = Ok QReject ->
  handle fuel d bmq bmr c q a = (Ok [], [], cache_remove_family c q) /\
  (forall scope, cache_lookup (cache_remove_family c q) q scope = None) /\
  (forall e, In e (cache_remove_family c q) <-> In e c /\ same_family q e = false).
Proof.
  intros H. unfold handle. rewrite H. split; [reflexivity|]. split.
  - intros scope. unfold cache_lookup, cache_remove_family. rewrite find_filter_none; [reflexivity|].
    intros x Hx. apply andb_true_iff in Hx. destruct Hx as [Hx _]. now rewrite Hx.
  - intros e. unfold cache_remove_family. rewrite filter_In. split; intros [H1 H2]; split; auto.
    + now apply negb_true_iff in H2.
    + now apply negb_true_iff.
Qed.

(* ------------------------------------------------------------------------------------------------ *)
(* Part 1: the loop of Match (both matchers) is the generic scan                                      *)
(* ------------------------------------------------------------------------------------------------ *)

Definition R := N.                            (* the upstream byte of the deciding match-set *)
Definition atom := (N * mset)%type.           (* array index, match-set *)

Definition unres (r : res bool) : bool := match r with Ok g => g | Err _ => false end.
Definition res_of (o : option (R * bool)) : res N :=
  match o with Some (r, _) => Ok r | None => Err E_NO_HIT end.

Fixpoint tag (i : N) (ms : list mset) : list atom :=
  match ms with [] => [] | m :: r => (i, m) :: tag (N.succ i) r end.

Lemma tag_app i l1 l2 : tag i (l1 ++ l2) = tag i l1 ++ tag (i + N.of_nat (List.length l1)) l2.
Proof.
  revert i. induction l1 as [|m l1 IH]; intros i; cbn [tag app List.length].
  - now rewrite N.add_0_r.
  - rewrite IH. replace (N.succ i + N.of_nat (List.length l1)) with (i + N.of_nat (S (List.length l1))) by lia.
    reflexivity.
Qed.
Lemma tag_length i l : List.length (tag i l) = List.length l.
Proof. revert i. induction l; intros; cbn; auto. Qed.
Lemma tag_nonempty i seg : seg <> [] -> tag i seg <> [].
Proof. destruct seg; [congruence|discriminate]. Qed.
Lemma tag_nth : forall l i k x, nth_error (tag i l) k = Some x -> fst x = i + N.of_nat k /\ nth_error l k = Some (snd x).
Proof.
  induction l as [|m l IH]; intros i k x H; destruct k; cbn in H; try discriminate.
  - inversion H; subst. cbn. split; [lia|reflexivity].
  - destruct (IH _ _ _ H) as [H1 H2]. split; [lia|exact H2].
Qed.
Lemma tag_in : forall l i k m, nth_error l k = Some m -> In (i + N.of_nat k, m) (tag i l).
Proof.
  induction l as [|m' l IH]; intros i k m Hk; destruct k; cbn in Hk; try discriminate.
  - inversion Hk; subst. left. f_equal. lia.
  - right. specialize (IH (N.succ i) k m Hk). replace (N.succ i + N.of_nat k) with (i + N.of_nat (S k)) in IH by lia. exact IH.
Qed.

Section Side.
Variable sd : side.

Definition tgt_of_id (up : N) : RuleScan.tgt R :=
  if up =? s_or sd then RuleScan.TOr
  else if up =? s_and sd then RuleScan.TAnd
  else RuleScan.TOut up false.
Definition tgt_of (m : mset) : RuleScan.tgt R := tgt_of_id (m_up m).
Definition abs_atom (x : atom) : RuleScan.mset atom R := RuleScan.MS x (m_not (snd x)) (tgt_of (snd x)).
Definition abs_arr (i : N) (ms : list mset) : list (RuleScan.mset atom R) := map abs_atom (tag i ms).

Lemma abs_arr_app i l1 l2 : abs_arr i (l1 ++ l2) = abs_arr i l1 ++ abs_arr (i + N.of_nat (List.length l1)) l2.
Proof. unfold abs_arr. now rewrite tag_app, map_app. Qed.

Lemma mask_small : forall o, o < 256 ->
  (N.land o (s_mask sd) =? s_mask sd) = ((o =? s_or sd) || (o =? s_and sd)).
Proof.
  assert (H : forallb (fun o => Bool.eqb (N.land o (s_mask sd) =? s_mask sd) ((o =? s_or sd) || (o =? s_and sd)))
                      (map N.of_nat (seq 0 256)) = true) by (destruct sd; vm_compute; reflexivity).
  rewrite forallb_forall in H. intros o Ho.
  specialize (H o). apply eqb_prop. apply H.
  apply in_map_iff. exists (N.to_nat o). split; [lia|]. apply in_seq. lia.
Qed.

Section Loop.
Variable ipsets : list (list prefix).
Variable a : margs.
Variable bm : option (list N).

Definition evx (i : N) (x : atom) : bool := unres (eval_mset sd ipsets a bm i (snd x)).
Definition entry_fine (i : N) (m : mset) : Prop :=
  m_up m < 256 /\ exists g, eval_mset sd ipsets a bm i m = Ok g.

Lemma match_loop_scan : forall ms i good bad,
  (forall k m, nth_error ms k = Some m -> entry_fine (i + N.of_nat k) m) ->
  match_loop sd ipsets a bm ms i good bad = res_of (RuleScan.scan atom R evx i (abs_arr i ms) good bad false).
Proof.
  induction ms as [|m ms IH]; intros i good bad H; [reflexivity|].
  assert (Hm : entry_fine i m) by (specialize (H 0%nat m eq_refl); now rewrite N.add_0_r in H).
  assert (H' : forall k m', nth_error ms k = Some m' -> entry_fine (N.succ i + N.of_nat k) m').
  { intros k m' Hk. specialize (H (S k) m' Hk).
    replace (N.succ i + N.of_nat k) with (i + N.of_nat (S k)) by lia. exact H. }
  destruct Hm as [Ho [g Hg]].
  cbn [match_loop abs_arr tag map abs_atom RuleScan.scan RuleScan.ma RuleScan.mneg RuleScan.mt snd].
  replace (i + 1) with (N.succ i) by lia.
  assert (Hev : (if bad || good then Ok good else eval_mset sd ipsets a bm i m)
                = Ok (if bad || good then good else evx i (i, m))).
  { destruct (bad || good); [reflexivity|]. unfold evx. cbn [snd]. now rewrite Hg. }
  rewrite Hev. clear Hev.
  set (g1 := if bad || good then good else evx i (i, m)).
  rewrite (mask_small _ Ho).
  unfold tgt_of, tgt_of_id. fold (abs_arr (N.succ i) ms).
  destruct (m_up m =? s_or sd) eqn:E1.
  - cbn [negb orb]. now rewrite IH.
  - cbn [negb orb]. destruct (m_up m =? s_and sd) eqn:E2.
    + cbn [negb]. rewrite IH by exact H'. unfold RuleScan.upd_bad. reflexivity.
    + cbn [negb]. unfold RuleScan.upd_bad.
      destruct (if Bool.eqb g1 (m_not m) then true else bad); cbn [negb]; [now rewrite IH | reflexivity].
Qed.
End Loop.

(* --- chains of match-sets: the array layout of one condition --- *)
Inductive chain (neg : bool) (oid : N) : list mset -> Prop :=
| chain_last m : m_not m = neg -> m_up m = oid -> chain neg oid [m]
| chain_cons m rest : m_not m = neg -> m_up m = s_or sd -> chain neg oid rest -> chain neg oid (m :: rest).

Lemma chain_nonempty neg oid seg : chain neg oid seg -> seg <> [].
Proof. intros H; inversion H; discriminate. Qed.

Lemma chain_app neg oid s1 s2 : chain neg (s_or sd) s1 -> chain neg oid s2 -> chain neg oid (s1 ++ s2).
Proof.
  induction 1 as [m Hh Ho|m rest Hh Ho Hc IH]; intros H2; cbn [app].
  - now apply chain_cons.
  - apply chain_cons; auto.
Qed.

Lemma s_or_refl : (s_or sd =? s_or sd) = true.
Proof. apply N.eqb_refl. Qed.

Lemma chain_lower neg oid seg :
  chain neg oid seg -> forall i,
  abs_arr i seg = RuleScan.lower_atoms atom R neg (tgt_of_id oid) (tag i seg).
Proof.
  induction 1 as [m Hn Ho|m rest Hn Ho Hc IH]; intros i.
  - cbn. unfold abs_atom, tgt_of. cbn [snd]. now rewrite Hn, Ho.
  - unfold abs_arr in *. cbn [tag map RuleScan.lower_atoms].
    destruct rest as [|m' rest']; [inversion Hc|].
    cbn [tag]. cbn [tag] in IH. rewrite <- IH. cbn [map].
    unfold abs_atom at 1, tgt_of, tgt_of_id. cbn [snd]. rewrite Hn, Ho, s_or_refl. reflexivity.
Qed.

Lemma s_or_small : s_or sd < 256.
Proof. destruct sd; reflexivity. Qed.

Lemma chain_up_small neg oid seg : chain neg oid seg -> oid < 256 -> Forall (fun m => m_up m < 256) seg.
Proof.
  induction 1 as [m _ Ho|m rest _ Ho _ IH]; intros Hlt; constructor; auto.
  - now rewrite Ho.
  - rewrite Ho. apply s_or_small.
Qed.
End Side.

(* ------------------------------------------------------------------------------------------------ *)
(* Part 2: names, groupParamValuesByKey                                                               *)
(* ------------------------------------------------------------------------------------------------ *)

Lemma index_of_none : forall l s i, existsb (String.eqb s) l = false -> index_of l s i = None.
Proof.
  induction l as [|t r IH]; intros s i H; [reflexivity|]. cbn [existsb index_of] in *.
  apply orb_false_iff in H. destruct H as [H1 H2]. rewrite String.eqb_sym in H1. rewrite H1. now apply IH.
Qed.

Lemma name2id_go_spec : forall l s i acc, nodup_str l = true ->
  name2id_go l s i acc = match index_of l s i with Some k => Some k | None => acc end.
Proof.
  induction l as [|t r IH]; intros s i acc H; [reflexivity|]. cbn [nodup_str] in H.
  apply andb_true_iff in H. destruct H as [H1 H2]. apply negb_true_iff in H1.
  cbn [name2id_go index_of]. destruct (String.eqb t s) eqn:E.
  - apply String.eqb_eq in E. subst t. rewrite IH by exact H2. now rewrite (index_of_none r s (i + 1) H1).
  - now rewrite IH by exact H2.
Qed.

Lemma index_of_bound : forall l s i k, index_of l s i = Some k -> i <= k < i + N.of_nat (List.length l).
Proof.
  induction l as [|t r IH]; intros s i k H; [discriminate|]. cbn [index_of List.length] in *.
  destruct (String.eqb t s).
  - inversion H; subst. lia.
  - apply IH in H. lia.
Qed.

Definition groups_sound (params : list (dkind * string)) (gsx : list (dkind * list string)) : Prop :=
  forall k vs, In (k, vs) gsx -> vs <> [] /\ forall x, In x vs -> In (k, x) params.
Definition groups_complete (params : list (dkind * string)) (gsx : list (dkind * list string)) : Prop :=
  forall k x, In (k, x) params -> exists vs, In (k, vs) gsx /\ In x vs.

Lemma dkind_eqb_eq a b : dkind_eqb a b = true -> a = b.
Proof. destruct a, b; cbn; congruence. Qed.
Lemma dkind_eqb_refl a : dkind_eqb a a = true.
Proof. destruct a; reflexivity. Qed.

Lemma add_to_group_sound key v gsx k vs :
  (forall k vs, In (k, vs) gsx -> vs <> []) ->
  In (k, vs) (add_to_group key v gsx) ->
  vs <> [] /\ forall x, In x vs -> (k = key /\ x = v) \/ exists vs0, In (k, vs0) gsx /\ In x vs0.
Proof.
  induction gsx as [|[k0 vs0] rest IH]; intros Hne Hin; cbn [add_to_group] in Hin.
  - destruct Hin as [E|[]]. inversion E; subst. split; [discriminate|].
    intros x [->|[]]. now left.
  - destruct (dkind_eqb k0 key) eqn:E.
    + apply dkind_eqb_eq in E. subst k0. destruct Hin as [E|Hin].
      * inversion E; subst. split.
        { intro H. apply app_eq_nil in H. destruct H; discriminate. }
        intros x Hx. apply in_app_or in Hx. destruct Hx as [Hx|[->|[]]]; [right|now left].
        exists vs0. split; [now left|assumption].
      * split; [apply (Hne k vs); now right|]. intros x Hx. right. exists vs. split; [now right|assumption].
    + destruct Hin as [E'|Hin].
      * inversion E'; subst. split; [apply (Hne k vs); now left|]. intros x Hx. right. exists vs. split; [now left|assumption].
      * destruct (IH (fun k vs H => Hne k vs (or_intror H)) Hin) as [H1 H2]. split; [assumption|].
        intros x Hx. destruct (H2 x Hx) as [H|[vs1 [Ha Hb]]]; [now left|right].
        exists vs1. split; [now right|assumption].
Qed.

Lemma add_to_group_new key v gsx : exists vs, In (key, vs) (add_to_group key v gsx) /\ In v vs.
Proof.
  induction gsx as [|[k0 vs0] rest IH]; cbn [add_to_group].
  - exists [v]. split; now left.
  - destruct (dkind_eqb k0 key) eqn:E.
    + apply dkind_eqb_eq in E. subst. exists (vs0 ++ [v]). split; [now left|]. apply in_or_app. right. now left.
    + destruct IH as [vs [Ha Hb]]. exists vs. split; [now right|assumption].
Qed.

Lemma add_to_group_old key v gsx k vs0 x :
  In (k, vs0) gsx -> In x vs0 -> exists vs, In (k, vs) (add_to_group key v gsx) /\ In x vs.
Proof.
  induction gsx as [|[k1 vs1] rest IH]; intros Hin Hx; [destruct Hin|]. cbn [add_to_group].
  destruct (dkind_eqb k1 key) eqn:E.
  - destruct Hin as [E'|Hin].
    + inversion E'; subst. exists (vs0 ++ [v]). split; [now left|]. apply in_or_app. now left.
    + exists vs0. split; [now right|assumption].
  - destruct Hin as [E'|Hin].
    + inversion E'; subst. exists vs0. split; [now left|assumption].
    + destruct (IH Hin Hx) as [vs [Ha Hb]]. exists vs. split; [now right|assumption].
Qed.

Lemma group_by_key_gen : forall params done acc,
  groups_sound done acc -> groups_complete done acc ->
  groups_sound (done ++ params) (fold_left (fun gsx kv => add_to_group (fst kv) (snd kv) gsx) params acc) /\
  groups_complete (done ++ params) (fold_left (fun gsx kv => add_to_group (fst kv) (snd kv) gsx) params acc).
Proof.
  induction params as [|[key v] params IH]; intros done acc Hs Hc.
  - rewrite app_nil_r. now split.
  - cbn [fold_left fst snd].
    replace (done ++ (key, v) :: params) with ((done ++ [(key, v)]) ++ params) by (now rewrite <- app_assoc).
    apply IH.
    + intros k vs Hin.
      destruct (add_to_group_sound key v acc k vs (fun k vs H => proj1 (Hs k vs H)) Hin) as [H1 H2].
      split; [assumption|]. intros x Hx. apply in_or_app.
      destruct (H2 x Hx) as [[-> ->]|[vs0 [Ha Hb]]]; [right; now left|left].
      now apply (proj2 (Hs k vs0 Ha)).
    + intros k x Hin. apply in_app_or in Hin. destruct Hin as [Hin|[E|[]]].
      * destruct (Hc k x Hin) as [vs0 [Ha Hb]]. now apply (add_to_group_old key v acc k vs0 x).
      * inversion E; subst. apply add_to_group_new.
Qed.

Lemma group_by_key_ok params :
  groups_sound params (group_by_key params) /\ groups_complete params (group_by_key params).
Proof.
  unfold group_by_key. apply (group_by_key_gen params [] []).
  - intros k vs [].
  - intros k x [].
Qed.

Lemma group_by_key_nonempty params : params <> [] -> group_by_key params <> [].
Proof.
  intros Hne. destruct params as [|[k x] rest]; [congruence|].
  destruct (group_by_key_ok ((k, x) :: rest)) as [_ Hc].
  destruct (Hc k x (or_introl eq_refl)) as [vs [Hin _]]. intro E. rewrite E in Hin. destruct Hin.
Qed.

Lemma groups_existsb (f : dkind -> string -> bool) params :
  existsb (fun g => existsb (f (fst g)) (snd g)) (group_by_key params) = existsb (fun kv => f (fst kv) (snd kv)) params.
Proof.
  destruct (group_by_key_ok params) as [Hs Hc].
  apply eq_true_iff_eq. rewrite !existsb_exists. split.
  - intros [[k vs] [Hin Hex]]. cbn [fst snd] in Hex. apply existsb_exists in Hex. destruct Hex as [x [Hx Hfx]].
    exists (k, x). split; [|exact Hfx]. now apply (proj2 (Hs k vs Hin)).
  - intros [[k x] [Hin Hfx]]. cbn [fst snd] in Hfx. destruct (Hc k x Hin) as [vs [Hg Hx]].
    exists (k, vs). split; [exact Hg|]. cbn [fst snd]. apply existsb_exists. now exists x.
Qed.

(* ------------------------------------------------------------------------------------------------ *)
(* Part 3: what every builder callback emits                                                          *)
(* ------------------------------------------------------------------------------------------------ *)
Section Emit.
Variable sd : side.
Variable ups : list string.
Hypothesis Hups : wf_upstreams ups = true.
Variable x : ctx.
Variable bm : option (list N).
Let a : margs := {| a_qtype := q_type (x_q x); a_ips := x_ips x; a_from := from_index (x_from x) |}.

Definition bmr (i : N) : option bool := match bm with None => Some false | Some w => bm_read w i end.
Definition dom_holds (k : dkind) (vals : list string) : bool :=
  existsb (fun s => domain_holds k s (norm_name (q_name (x_q x))) (q_regex_hits (x_q x))) vals.
(* the interface to C11: bit i of the bitmap is readable and is the meaning of the domain set registered for index i *)
Definition dom_agree (F : builder) : Prop :=
  forall ds, In ds (b_domsets F) -> bmr (ds_index ds) = Some (dom_holds (ds_key ds) (ds_domains ds)).
Definition ext (b F : builder) : Prop :=
  (exists t, b_ipsets F = b_ipsets b ++ t) /\ (exists d, b_domsets F = b_domsets b ++ d).

Lemma ext_refl b : ext b b.
Proof. split; exists []; now rewrite app_nil_r. Qed.
Lemma ext_trans b1 b2 b3 : ext b1 b2 -> ext b2 b3 -> ext b1 b3.
Proof.
  intros [[t1 H1] [d1 H1']] [[t2 H2] [d2 H2']]. split.
  - exists (t1 ++ t2). now rewrite H2, H1, app_assoc.
  - exists (d1 ++ d2). now rewrite H2', H1', app_assoc.
Qed.
Lemma ext_ip b F i ps : ext b F -> nth_error (b_ipsets b) i = Some ps -> nth_error (b_ipsets F) i = Some ps.
Proof.
  intros [[t Ht] _] H. rewrite Ht, nth_error_app1; [assumption|]. apply nth_error_Some. congruence.
Qed.
Lemma ext_dom b F y : ext b F -> In y (b_domsets b) -> In y (b_domsets F).
Proof. intros [_ [d Hd]] H. rewrite Hd. apply in_or_app. now left. Qed.

Definition semx (F : builder) (y : atom) : bool := unres (eval_mset sd (b_ipsets F) a bm (fst y) (snd y)).
Definition fine (F : builder) (y : atom) : Prop := exists g, eval_mset sd (b_ipsets F) a bm (fst y) (snd y) = Ok g.

Definition emitted (b b' : builder) (seg : list mset) (neg : bool) (oid : N) (s : bool) : Prop :=
  b_rules b' = b_rules b ++ seg /\ ext b b' /\ chain sd neg oid seg /\
  forall F, ext b' F -> dom_agree F ->
    Forall (fine F) (tag (N.of_nat (List.length (b_rules b))) seg) /\
    existsb (semx F) (tag (N.of_nat (List.length (b_rules b))) seg) = s.

Lemma append_rule_ext b m : ext b (append_rule b m).
Proof. split; exists []; cbn; now rewrite app_nil_r. Qed.

Lemma emitted_single b b1 m neg oid s :
  b_rules b1 = b_rules b -> ext b b1 -> m_not m = neg -> m_up m = oid ->
  (forall F, ext (append_rule b1 m) F -> dom_agree F ->
     eval_mset sd (b_ipsets F) a bm (N.of_nat (List.length (b_rules b))) m = Ok s) ->
  emitted b (append_rule b1 m) [m] neg oid s.
Proof.
  intros Hr He Hn Ho Hs. unfold emitted. cbn [append_rule b_rules]. rewrite Hr.
  split; [reflexivity|]. split; [exact (ext_trans _ _ _ He (append_rule_ext b1 m))|].
  split; [now apply chain_last|].
  intros F HF Hd. specialize (Hs F HF Hd). cbn [tag existsb]. unfold semx, fine. cbn [fst snd]. rewrite Hs.
  split; [constructor; [now exists s|constructor]|]. cbn [unres]. now rewrite orb_false_r.
Qed.

Lemma emitted_app b b1 b' s1 s2 neg oid x1 x2 :
  emitted b b1 s1 neg (s_or sd) x1 -> emitted b1 b' s2 neg oid x2 ->
  emitted b b' (s1 ++ s2) neg oid (x1 || x2).
Proof.
  intros [Hr1 [He1 [Hc1 Hs1]]] [Hr2 [He2 [Hc2 Hs2]]]. unfold emitted.
  split; [now rewrite Hr2, Hr1, app_assoc|]. split; [now apply (ext_trans b b1 b')|].
  split; [now apply chain_app|].
  intros F HF Hd. destruct (Hs1 F (ext_trans _ _ _ He2 HF) Hd) as [Hf1 Hx1]. destruct (Hs2 F HF Hd) as [Hf2 Hx2].
  rewrite Hr1, app_length, Nat2N.inj_add in Hf2, Hx2. rewrite tag_app.
  split; [apply Forall_app; now split|]. now rewrite existsb_app, Hx1, Hx2.
Qed.

Lemma or_id : upstream_to_id sd ups "<OR>" = Ok (s_or sd).
Proof. destruct sd; reflexivity. Qed.
Lemma and_id : upstream_to_id sd ups "<AND>" = Ok (s_and sd).
Proof. destruct sd; reflexivity. Qed.

(* --- qname: one match-set per key group --- *)
Lemma add_qname_emitted b neg key vals upname oid :
  upstream_to_id sd ups upname = Ok oid ->
  exists b', add_qname sd ups b neg key vals upname = Ok b' /\
    emitted b b' [{| m_type := MatchType_DomainSet; m_value := 0; m_not := neg; m_up := oid |}] neg oid (dom_holds key vals).
Proof.
  intros Hoid. unfold add_qname. rewrite Hoid. eexists. split; [reflexivity|].
  apply emitted_single; [reflexivity| |reflexivity|reflexivity|].
  - split; cbn; [exists []; now rewrite app_nil_r|eexists; reflexivity].
  - intros F HF Hd. unfold eval_mset. cbn [m_type]. rewrite N.eqb_refl.
    assert (Hin : In {| ds_key := key; ds_index := N.of_nat (List.length (b_rules b)); ds_domains := vals |} (b_domsets F)).
    { apply (ext_dom _ F _ HF). cbn [append_rule b_domsets]. apply in_or_app. right. now left. }
    specialize (Hd _ Hin). cbn [ds_index ds_key ds_domains] in Hd. unfold bmr in Hd.
    destruct bm as [w|].
    + now rewrite Hd.
    + now inversion Hd.
Qed.

(* --- qtype: one match-set per value --- *)
Lemma add_qtype_emitted : forall vals b neg upname oid,
  vals <> [] -> upstream_to_id sd ups upname = Ok oid ->
  exists b' seg, add_qtype sd ups b neg vals upname = Ok b' /\
    emitted b b' seg neg oid (existsb (fun t => q_type (x_q x) =? t) vals).
Proof.
  induction vals as [|v vals IH]; intros b neg upname oid Hne Hoid; [congruence|].
  cbn [add_qtype existsb].
  set (mk := fun o => {| m_type := MatchType_QType; m_value := v; m_not := neg; m_up := o |}).
  assert (Hev : forall o F i, eval_mset sd (b_ipsets F) a bm i (mk o) = Ok (q_type (x_q x) =? v)) by reflexivity.
  destruct vals as [|v2 vals'].
  - rewrite Hoid. eexists. exists [mk oid]. split; [reflexivity|]. cbn [existsb]. rewrite orb_false_r.
    apply emitted_single; [reflexivity|apply ext_refl|reflexivity|reflexivity|intros F _ _; apply Hev].
  - rewrite or_id.
    destruct (IH (append_rule b (mk (s_or sd))) neg upname oid) as [b' [seg [Hrun Hem]]]; [discriminate|assumption|].
    exists b', (mk (s_or sd) :: seg). split; [exact Hrun|].
    change (mk (s_or sd) :: seg) with ([mk (s_or sd)] ++ seg).
    eapply emitted_app; [|exact Hem].
    apply emitted_single; [reflexivity|apply ext_refl|reflexivity|reflexivity|intros F _ _; apply Hev].
Qed.
End Emit.

(* --- names of upstreams and targets under well-formedness --- *)
Definition is_resp_of (sd : side) : bool := match sd with Request => false | Response => true end.

Lemma name2id_index ups n : wf_upstreams ups = true -> name2id ups n = index_of ups n 0.
Proof.
  intros H. unfold wf_upstreams in H. apply andb_true_iff in H. destruct H as [H _].
  apply andb_true_iff in H. destruct H as [H _].
  unfold name2id. rewrite name2id_go_spec by exact H. destruct (index_of ups n 0); reflexivity.
Qed.

Lemma reserved_false n : reserved n = false ->
  String.eqb n "reject" = false /\ String.eqb n "asis" = false /\ String.eqb n "accept" = false /\
  String.eqb n "<OR>" = false /\ String.eqb n "<AND>" = false.
Proof.
  unfold reserved. intros H. repeat (apply orb_false_iff in H; destruct H as [H ?]). auto.
Qed.

Lemma upstream_to_id_defined sd ups n i :
  wf_upstreams ups = true -> reserved n = false -> index_of ups n 0 = Some i ->
  upstream_to_id sd ups n = Ok i /\ i < 251.
Proof.
  intros Hw Hr Hi. destruct (reserved_false n Hr) as [H1 [H2 [H3 [H4 H5]]]].
  split.
  - unfold upstream_to_id. rewrite (name2id_index ups n Hw), Hi. destruct sd; now rewrite ?H1, ?H2, ?H3, ?H4, ?H5.
  - apply index_of_bound in Hi. unfold wf_upstreams in Hw. apply andb_true_iff in Hw. destruct Hw as [_ Hl]. lia.
Qed.

Lemma target_resolved sd ups t :
  wf_upstreams ups = true -> target_ok (is_resp_of sd) ups t = true ->
  exists oid, upstream_to_id sd ups t = Ok oid /\ oid <= 253.
Proof.
  intros Hw Ht. unfold target_ok in Ht. apply orb_true_iff in Ht. destruct Ht as [Ht|Ht].
  - destruct sd; cbn [is_resp_of] in Ht; apply orb_true_iff in Ht; destruct Ht as [Ht|Ht];
      apply String.eqb_eq in Ht; subst t; eexists; (split; [reflexivity|]); vm_compute; discriminate.
  - apply andb_true_iff in Ht. destruct Ht as [Hr Hd]. apply negb_true_iff in Hr.
    unfold defined in Hd. destruct (index_of ups t 0) as [i|] eqn:Ei; [|discriminate].
    destruct (upstream_to_id_defined sd ups t i Hw Hr Ei) as [H1 H2]. exists i. split; [exact H1|lia].
Qed.

Lemma eval_ipset ipsets a bm i m :
  m_type m = MatchType_IpSet ->
  eval_mset Response ipsets a bm i m =
  match nth_error ipsets (N.to_nat (m_value m)) with
  | Some ps => Ok (existsb (fun ip => existsb (fun p => px_covers p ip) ps) (a_ips a))
  | None => Err E_PANIC_INDEX
  end.
Proof. intros H. unfold eval_mset. rewrite H. reflexivity. Qed.

Lemma eval_upstream ipsets a bm i m :
  m_type m = MatchType_Upstream -> eval_mset Response ipsets a bm i m = Ok (a_from a =? m_value m).
Proof. intros H. unfold eval_mset. rewrite H. reflexivity. Qed.

Lemma add_ip_emitted ups x bm b neg ps upname oid :
  N.of_nat (List.length (b_ipsets b)) < 65536 ->
  upstream_to_id Response ups upname = Ok oid ->
  exists b' seg, add_ip ups b neg ps upname = Ok b' /\
    emitted Response x bm b b' seg neg oid (existsb (fun ip => existsb (fun p => px_covers p ip) ps) (x_ips x)).
Proof.
  intros Hlen Hoid. unfold add_ip. rewrite Hoid. eexists. eexists. split; [reflexivity|].
  apply (emitted_single Response x bm b {| b_rules := b_rules b; b_domsets := b_domsets b; b_ipsets := b_ipsets b ++ [ps] |});
    [reflexivity| |reflexivity|reflexivity|].
  - split; cbn; [eexists; reflexivity|exists []; now rewrite app_nil_r].
  - intros F HF _. rewrite eval_ipset by reflexivity. cbn [m_value a_ips]. rewrite N.mod_small by lia. rewrite Nat2N.id.
    destruct HF as [[t Ht] _]. cbn [append_rule b_ipsets] in Ht.
    rewrite Ht, <- app_assoc, nth_error_app2 by lia. rewrite Nat.sub_diag. reflexivity.
Qed.

Lemma add_upstream_emitted ups x bm : wf_upstreams ups = true -> forall vals b neg upname oid,
  vals <> [] -> upstream_to_id Response ups upname = Ok oid ->
  Forall (fun n => reserved n = false /\ defined ups n = true) vals ->
  exists b' seg, add_upstream ups b neg vals upname = Ok b' /\
    emitted Response x bm b b' seg neg oid (existsb (fun n => src_is ups n (x_from x)) vals).
Proof.
  intros Hw. induction vals as [|v vals IH]; intros b neg upname oid Hne Hoid Hall; [congruence|].
  inversion Hall as [|? ? [Hr Hd] Hall']; subst.
  unfold defined in Hd. destruct (index_of ups v 0) as [i|] eqn:Ei; [|discriminate].
  destruct (upstream_to_id_defined Response ups v i Hw Hr Ei) as [Hv Hlt].
  cbn [add_upstream existsb].
  set (mk := fun o => {| m_type := MatchType_Upstream; m_value := i; m_not := neg; m_up := o |}).
  assert (Hev : forall o F k, eval_mset Response (b_ipsets F)
                  {| a_qtype := q_type (x_q x); a_ips := x_ips x; a_from := from_index (x_from x) |} bm k (mk o)
                = Ok (src_is ups v (x_from x))).
  { intros o F k. rewrite eval_upstream by reflexivity. cbn [a_from m_value mk]. f_equal.
    unfold src_is. rewrite Ei. destruct (x_from x) as [|j]; cbn [from_index].
    - apply N.eqb_neq. unfold DnsRequestOutboundIndex_AsIs. lia.
    - apply N.eqb_sym. }
  destruct vals as [|v2 vals'].
  - rewrite Hoid, Hv. eexists. exists [mk oid]. split; [reflexivity|]. cbn [existsb]. rewrite orb_false_r.
    apply emitted_single; [reflexivity|apply ext_refl|reflexivity|reflexivity|intros F _ _; apply Hev].
  - rewrite (or_id Response ups), Hv.
    destruct (IH (append_rule b (mk (s_or Response))) neg upname oid) as [b' [seg [Hrun Hem]]]; [discriminate|assumption|assumption|].
    exists b', (mk (s_or Response) :: seg). split; [exact Hrun|].
    change (mk (s_or Response) :: seg) with ([mk (s_or Response)] ++ seg).
    eapply emitted_app; [|exact Hem].
    apply emitted_single; [reflexivity|apply ext_refl|reflexivity|reflexivity|intros F _ _; apply Hev].
Qed.

(* --- how many address sets a builder run adds (read off the model, independent of what the sets mean) --- *)
Definition ipc (sd : side) (c : cond) : nat := match sd with Request => 0%nat | Response => ip_count_cond c end.
Definition ipc_conds (sd : side) (cs : list cond) : nat := fold_right (fun c n => (ipc sd c + n)%nat) 0%nat cs.
Definition ipc_rules (sd : side) (rs : list rule) : nat := fold_right (fun r n => (ipc_conds sd (r_conds r) + n)%nat) 0%nat rs.

Lemma ipc_conds_cons sd c cs : ipc_conds sd (c :: cs) = (ipc sd c + ipc_conds sd cs)%nat.
Proof. reflexivity. Qed.
Lemma ipc_rules_cons sd r rs : ipc_rules sd (r :: rs) = (ipc_conds sd (r_conds r) + ipc_rules sd rs)%nat.
Proof. reflexivity. Qed.

Lemma add_qtype_ipsets sd ups : forall vals b neg upname b',
  add_qtype sd ups b neg vals upname = Ok b' -> b_ipsets b' = b_ipsets b.
Proof.
  induction vals as [|v vals IH]; intros b neg upname b' H; cbn [add_qtype] in H; [now inversion H|].
  destruct (upstream_to_id sd ups _); [|discriminate]. apply IH in H. exact H.
Qed.
Lemma add_upstream_ipsets ups : forall vals b neg upname b',
  add_upstream ups b neg vals upname = Ok b' -> b_ipsets b' = b_ipsets b.
Proof.
  induction vals as [|v vals IH]; intros b neg upname b' H; cbn [add_upstream] in H; [now inversion H|].
  destruct (upstream_to_id Response ups (match vals with [] => upname | _ => _ end)); [|discriminate].
  destruct (upstream_to_id Response ups v); [|discriminate]. apply IH in H. exact H.
Qed.
Lemma apply_qname_groups_ipsets sd ups : forall gs b neg lf target b',
  apply_qname_groups sd ups b neg gs lf target = Ok b' -> b_ipsets b' = b_ipsets b.
Proof.
  induction gs as [|[k vals] gs IH]; intros b neg lf target b' H; cbn [apply_qname_groups] in H; [now inversion H|].
  destruct (add_qname sd ups b neg k vals _) as [b1|] eqn:E; [|discriminate]. apply IH in H. rewrite H.
  unfold add_qname in E. destruct (upstream_to_id sd ups _); [|discriminate]. now inversion E.
Qed.
Lemma apply_func_ipsets sd ups b c lf target b' :
  apply_func sd ups b c lf target = Ok b' -> List.length (b_ipsets b') = (List.length (b_ipsets b) + ipc sd c)%nat.
Proof.
  unfold apply_func, ipc, ip_count_cond. destruct (c_body c) as [ps|ts|ps|ns]; intros H.
  - apply apply_qname_groups_ipsets in H. rewrite H. destruct sd; lia.
  - destruct ts; [inversion H; destruct sd; lia|]. apply add_qtype_ipsets in H. rewrite H. destruct sd; lia.
  - destruct sd; [discriminate|]. destruct ps; [inversion H; lia|].
    unfold add_ip in H. destruct (upstream_to_id Response ups _); [|discriminate]. inversion H. cbn [b_ipsets]. rewrite app_length. cbn. lia.
  - destruct sd; [discriminate|]. destruct ns; [inversion H; lia|]. apply add_upstream_ipsets in H. rewrite H. lia.
Qed.
Lemma apply_funcs_ipsets sd ups : forall cs b target b',
  apply_funcs sd ups b cs target = Ok b' -> List.length (b_ipsets b') = (List.length (b_ipsets b) + ipc_conds sd cs)%nat.
Proof.
  induction cs as [|c cs IH]; intros b target b' H; cbn [apply_funcs] in H; [inversion H; cbn; lia|].
  destruct (apply_func sd ups b c _ target) as [b1|] eqn:E; [|discriminate].
  apply apply_func_ipsets in E. apply IH in H. rewrite ipc_conds_cons. lia.
Qed.

Lemma ipc_conds_request_zero cs : ipc_conds Request cs = 0%nat.
Proof. induction cs as [|c cs IH]; [reflexivity|]. rewrite ipc_conds_cons, IH. reflexivity. Qed.
Lemma ipc_request_zero rs : ipc_rules Request rs = 0%nat.
Proof. induction rs as [|r rs IH]; [reflexivity|]. now rewrite ipc_rules_cons, IH, ipc_conds_request_zero. Qed.
Lemma ipc_conds_response_eq cs : ipc_conds Response cs = ip_count_conds cs.
Proof.
  induction cs as [|c cs IH]; [reflexivity|]. rewrite ipc_conds_cons, IH. reflexivity.
Qed.
Lemma ipc_response_eq rs : ipc_rules Response rs = ip_count_rules rs.
Proof.
  induction rs as [|r rs IH]; [reflexivity|]. rewrite ipc_rules_cons, IH, ipc_conds_response_eq. reflexivity.
Qed.

(* --- one function call (all its key groups) --- *)
Lemma apply_qname_groups_emit sd ups x bm : forall gs b neg (last_func : bool) target oid,
  gs <> [] ->
  upstream_to_id sd ups (if last_func then target else "<AND>"%string) = Ok oid ->
  exists b' seg, apply_qname_groups sd ups b neg gs last_func target = Ok b' /\
    emitted sd x bm b b' seg neg oid (existsb (fun g => dom_holds x (fst g) (snd g)) gs).
Proof.
  induction gs as [|[key vals] gs IH]; intros b neg last_func target oid Hne Hoid; [congruence|].
  cbn [apply_qname_groups existsb fst snd]. destruct gs as [|g2 gs'].
  - cbn [override_name].
    destruct (add_qname_emitted sd ups x bm b neg key vals _ oid Hoid) as [b' [Hrun Hem]].
    rewrite Hrun. exists b'. eexists. split; [reflexivity|]. cbn [existsb]. rewrite orb_false_r. exact Hem.
  - cbn [override_name].
    destruct (add_qname_emitted sd ups x bm b neg key vals _ (s_or sd) (or_id sd ups)) as [b1 [Hrun1 Hem1]].
    rewrite Hrun1.
    destruct (IH b1 neg last_func target oid) as [b' [seg2 [Hrun2 Hem2]]]; [discriminate|exact Hoid|].
    exists b'. eexists. split; [exact Hrun2|].
    exact (emitted_app _ _ _ _ _ _ _ _ _ _ _ _ Hem1 Hem2).
Qed.

Lemma cond_emit sd ups x bm c b (last_func : bool) target oid :
  N.of_nat (List.length (b_ipsets b) + ipc sd c) <= 65536 ->
  wf_upstreams ups = true -> cond_ok (is_resp_of sd) ups c = true ->
  upstream_to_id sd ups (if last_func then target else "<AND>"%string) = Ok oid ->
  exists b' seg, apply_func sd ups b c last_func target = Ok b' /\
    emitted sd x bm b b' seg (c_neg c) oid (body_holds ups (c_body c) x).
Proof.
  intros Hcap Hw Hc Hoid. unfold cond_ok in Hc. unfold ipc, ip_count_cond in Hcap. unfold apply_func. destruct (c_body c) as [ps|ts|ps|ns]; cbn [body_holds].
  - assert (Hne : ps <> []) by (destruct ps; [discriminate|congruence]).
    destruct (apply_qname_groups_emit sd ups x bm (group_by_key ps) b (c_neg c) last_func target oid
                (group_by_key_nonempty ps Hne) Hoid) as [b' [seg [Hrun Hem]]].
    exists b', seg. split; [exact Hrun|].
    replace (existsb (fun p => domain_holds (fst p) (snd p) (norm_name (q_name (x_q x))) (q_regex_hits (x_q x))) ps)
      with (existsb (fun g => dom_holds x (fst g) (snd g)) (group_by_key ps)); [exact Hem|].
    unfold dom_holds.
    exact (groups_existsb (fun k s => domain_holds k s (norm_name (q_name (x_q x))) (q_regex_hits (x_q x))) ps).
  - apply andb_true_iff in Hc. destruct Hc as [Hne _].
    assert (Hne' : ts <> []) by (destruct ts; [discriminate|congruence]).
    destruct (add_qtype_emitted sd ups x bm ts b (c_neg c) _ oid Hne' Hoid) as [b' [seg [Hrun Hem]]].
    exists b', seg. split; [|exact Hem]. destruct ts; [congruence|exact Hrun].
  - apply andb_true_iff in Hc. destruct Hc as [Hc _]. apply andb_true_iff in Hc. destruct Hc as [Hr Hne].
    destruct sd; [discriminate|].
    assert (Hne' : ps <> []) by (destruct ps; [discriminate|congruence]).
    assert (Hlen : N.of_nat (List.length (b_ipsets b)) < 65536) by (destruct ps; [congruence|lia]).
    destruct (add_ip_emitted ups x bm b (c_neg c) ps _ oid Hlen Hoid) as [b' [seg [Hrun Hem]]].
    exists b', seg. split; [|exact Hem]. destruct ps; [congruence|exact Hrun].
  - apply andb_true_iff in Hc. destruct Hc as [Hc Hall]. apply andb_true_iff in Hc. destruct Hc as [Hr Hne].
    destruct sd; [discriminate|].
    assert (Hne' : ns <> []) by (destruct ns; [discriminate|congruence]).
    assert (Hall' : Forall (fun n => reserved n = false /\ defined ups n = true) ns).
    { apply Forall_forall. intros n Hn. rewrite forallb_forall in Hall. specialize (Hall n Hn).
      apply andb_true_iff in Hall. destruct Hall as [H1 H2]. split; [now apply negb_true_iff in H1|exact H2]. }
    destruct (add_upstream_emitted ups x bm Hw ns b (c_neg c) _ oid Hne' Hoid Hall') as [b' [seg [Hrun Hem]]].
    exists b', seg. split; [|exact Hem]. destruct ns; [congruence|exact Hrun].
Qed.

(* --- one rule --- *)
Lemma tgt_and sd : tgt_of_id sd (s_and sd) = RuleScan.TAnd.
Proof. destruct sd; reflexivity. Qed.
Lemma tgt_out sd oid : oid <= 253 -> tgt_of_id sd oid = RuleScan.TOut oid false.
Proof.
  intros H. unfold tgt_of_id.
  replace (oid =? s_or sd) with false by (symmetry; apply N.eqb_neq; destruct sd; unfold s_or, DnsRequestOutboundIndex_LogicalOr, DnsResponseOutboundIndex_LogicalOr; lia).
  replace (oid =? s_and sd) with false by (symmetry; apply N.eqb_neq; destruct sd; unfold s_and, DnsRequestOutboundIndex_LogicalAnd, DnsResponseOutboundIndex_LogicalAnd; lia).
  reflexivity.
Qed.
Lemma s_and_small sd : s_and sd < 256.
Proof. destruct sd; reflexivity. Qed.

Lemma lower_conds_cons t (c : RuleScan.cond atom) acs : acs <> [] ->
  RuleScan.lower_conds atom R t (c :: acs)
  = RuleScan.lower_atoms atom R (RuleScan.cneg c) RuleScan.TAnd (RuleScan.catoms c) ++ RuleScan.lower_conds atom R t acs.
Proof. destruct acs; [congruence|reflexivity]. Qed.

Lemma apply_funcs_emit sd ups x bm : wf_upstreams ups = true -> forall cs b target oid,
  N.of_nat (List.length (b_ipsets b) + ipc_conds sd cs) <= 65536 ->
  cs <> [] -> Forall (fun c => cond_ok (is_resp_of sd) ups c = true) cs ->
  upstream_to_id sd ups target = Ok oid -> oid <= 253 ->
  exists b' seg acs, apply_funcs sd ups b cs target = Ok b' /\ b_rules b' = b_rules b ++ seg /\ ext b b' /\
    abs_arr sd (N.of_nat (List.length (b_rules b))) seg
      = RuleScan.lower_conds atom R (RuleScan.ROut oid false) acs /\
    acs <> [] /\ Forall (RuleScan.wf_cond atom) acs /\ Forall (fun m => m_up m < 256) seg /\
    forall F, ext b' F -> dom_agree x bm F ->
      Forall (fine sd x bm F) (tag (N.of_nat (List.length (b_rules b))) seg) /\
      forallb (RuleScan.cond_holds atom (semx sd x bm F)) acs = forallb (fun c => cond_holds ups c x) cs.
Proof.
  intros Hw. induction cs as [|c cs IH]; intros b target oid Hcap Hne Hok Hoid Hle; [congruence|].
  inversion Hok as [|? ? Hc Hok']; subst. cbn [apply_funcs]. rewrite ipc_conds_cons in Hcap.
  destruct cs as [|c2 cs'].
  - destruct (cond_emit sd ups x bm c b true target oid ltac:(lia) Hw Hc Hoid) as [b' [seg [Hrun [Hr [He [Hch Hs]]]]]].
    rewrite Hrun. exists b', seg, [RuleScan.C (c_neg c) (tag (N.of_nat (List.length (b_rules b))) seg)].
    split; [reflexivity|]. split; [exact Hr|]. split; [exact He|].
    split. { rewrite (chain_lower sd _ _ _ Hch), (tgt_out sd oid Hle). reflexivity. }
    split; [discriminate|].
    split. { constructor; [|constructor]. unfold RuleScan.wf_cond. cbn. apply tag_nonempty. eapply chain_nonempty; eauto. }
    split. { eapply chain_up_small; eauto. lia. }
    intros F HF Hd. destruct (Hs F HF Hd) as [Hf Hx]. split; [exact Hf|].
    cbn [forallb]. unfold RuleScan.cond_holds. cbn [RuleScan.cneg RuleScan.catoms]. rewrite Hx.
    rewrite !andb_true_r. reflexivity.
  - destruct (cond_emit sd ups x bm c b false target (s_and sd) ltac:(lia) Hw Hc (and_id sd ups)) as [b1 [seg1 [Hrun1 [Hr1 [He1 [Hch1 Hs1]]]]]].
    rewrite Hrun1. pose proof (apply_func_ipsets _ _ _ _ _ _ _ Hrun1) as Hlen1.
    destruct (IH b1 target oid) as [b' [seg2 [acs2 [Hrun2 [Hr2 [He2 [Hl2 [Hne2 [Hwf2 [Ho2 Hs2]]]]]]]]]];
      [lia|discriminate|exact Hok'|exact Hoid|exact Hle|].
    exists b', (seg1 ++ seg2), (RuleScan.C (c_neg c) (tag (N.of_nat (List.length (b_rules b))) seg1) :: acs2).
    split; [exact Hrun2|]. split; [now rewrite Hr2, Hr1, app_assoc|]. split; [now apply (ext_trans b b1 b')|].
    rewrite Hr1, app_length, Nat2N.inj_add in Hl2, Hs2.
    split.
    { rewrite abs_arr_app, Hl2, lower_conds_cons by exact Hne2. cbn [RuleScan.cneg RuleScan.catoms]. f_equal.
      rewrite (chain_lower sd _ _ _ Hch1). now rewrite tgt_and. }
    split; [discriminate|].
    split. { constructor; [|exact Hwf2]. unfold RuleScan.wf_cond. cbn. apply tag_nonempty. eapply chain_nonempty; eauto. }
    split. { apply Forall_app. split; [|exact Ho2]. eapply chain_up_small; eauto. apply s_and_small. }
    intros F HF Hd. destruct (Hs1 F (ext_trans _ _ _ He2 HF) Hd) as [Hf1 Hx1]. destruct (Hs2 F HF Hd) as [Hf2 Hx2].
    split. { rewrite tag_app. apply Forall_app. now split. }
    cbn [forallb]. rewrite Hx2. f_equal.
    unfold RuleScan.cond_holds. cbn [RuleScan.cneg RuleScan.catoms]. rewrite Hx1. reflexivity.
Qed.

(* --- all rules --- *)
Definition tid (sd : side) (ups : list string) (t : string) : N :=
  match upstream_to_id sd ups t with Ok i => i | Err _ => 0 end.

Fixpoint drk (sd : side) (ups : list string) (x : ctx) (rs : list rule) (k : option (R * bool)) : option (R * bool) :=
  match rs with
  | [] => k
  | r :: rest => if rule_holds ups r x then Some (tid sd ups (r_target r), false) else drk sd ups x rest k
  end.

Lemma apply_rules_emit sd ups x bm : wf_upstreams ups = true -> forall rs b,
  N.of_nat (List.length (b_ipsets b) + ipc_rules sd rs) <= 65536 ->
  Forall (fun r => rule_ok (is_resp_of sd) ups r = true) rs ->
  exists b' seg ars, apply_rules sd ups b rs = Ok b' /\ b_rules b' = b_rules b ++ seg /\ ext b b' /\
    abs_arr sd (N.of_nat (List.length (b_rules b))) seg = RuleScan.lower atom R ars /\
    Forall (RuleScan.wf_rule atom R) ars /\ Forall (fun m => m_up m < 256) seg /\
    forall F, ext b' F -> dom_agree x bm F ->
      Forall (fine sd x bm F) (tag (N.of_nat (List.length (b_rules b))) seg) /\
      forall more, RuleScan.decide atom R (semx sd x bm F) (ars ++ more) false
                   = drk sd ups x rs (RuleScan.decide atom R (semx sd x bm F) more false).
Proof.
  intros Hw. induction rs as [|r rs IH]; intros b Hcap Hok.
  - exists b, [], []. cbn [apply_rules]. rewrite app_nil_r.
    repeat split; auto using ext_refl; try apply ext_refl; constructor.
  - inversion Hok as [|? ? Hr Hok']; subst.
    unfold rule_ok in Hr. apply andb_true_iff in Hr. destruct Hr as [Hr Hout]. apply andb_true_iff in Hr. destruct Hr as [Hne Hconds].
    assert (Hne' : r_conds r <> []) by (destruct (r_conds r); [discriminate|congruence]).
    assert (Hconds' : Forall (fun c => cond_ok (is_resp_of sd) ups c = true) (r_conds r)) by (apply Forall_forall; now rewrite forallb_forall in Hconds).
    destruct (target_resolved sd ups (r_target r) Hw Hout) as [oid [Hoid Hle]].
    rewrite ipc_rules_cons in Hcap.
    destruct (apply_funcs_emit sd ups x bm Hw (r_conds r) b (r_target r) oid ltac:(lia) Hne' Hconds' Hoid Hle)
      as [b1 [seg1 [acs [Hrun1 [Hr1 [He1 [Hl1 [Hne1 [Hwf1 [Ho1 Hs1]]]]]]]]]].
    pose proof (apply_funcs_ipsets _ _ _ _ _ _ Hrun1) as Hlen1.
    destruct (IH b1 ltac:(lia) Hok') as [b' [seg2 [ars2 [Hrun2 [Hr2 [He2 [Hl2 [Hwf2 [Ho2 Hs2]]]]]]]]].
    exists b', (seg1 ++ seg2), (RuleScan.Rl acs (RuleScan.ROut oid false) :: ars2).
    cbn [apply_rules]. rewrite Hrun1.
    split; [exact Hrun2|]. split; [now rewrite Hr2, Hr1, app_assoc|]. split; [now apply (ext_trans b b1 b')|].
    rewrite Hr1, app_length, Nat2N.inj_add in Hl2, Hs2.
    split. { rewrite abs_arr_app. cbn [RuleScan.lower flat_map]. unfold RuleScan.lower_rule. cbn [RuleScan.rt RuleScan.rconds].
             rewrite <- Hl1. f_equal. exact Hl2. }
    split. { constructor; [|exact Hwf2]. split; cbn; assumption. }
    split. { apply Forall_app. now split. }
    intros F HF Hd. destruct (Hs1 F (ext_trans _ _ _ He2 HF) Hd) as [Hf1 Hx1]. destruct (Hs2 F HF Hd) as [Hf2 Hx2].
    split. { rewrite tag_app. apply Forall_app. now split. }
    intros more. cbn [app RuleScan.decide drk]. unfold RuleScan.rule_holds at 1. cbn [RuleScan.rconds RuleScan.rt].
    rewrite Hx1. unfold rule_holds. destruct (forallb (fun c => cond_holds ups c x) (r_conds r)); [|apply Hx2].
    unfold tid. rewrite Hoid. reflexivity.
Qed.

Lemma drk_spec sd ups x fb : forall rs,
  drk sd ups x rs (Some (tid sd ups fb, false)) = Some (tid sd ups (first_target ups rs fb x), false).
Proof.
  induction rs as [|r rs IH]; cbn [drk first_target]; [reflexivity|].
  destruct (rule_holds ups r x); [reflexivity|apply IH].
Qed.

Lemma first_target_ok sd ups x fb : forall rs,
  Forall (fun r => rule_ok (is_resp_of sd) ups r = true) rs -> target_ok (is_resp_of sd) ups fb = true ->
  target_ok (is_resp_of sd) ups (first_target ups rs fb x) = true.
Proof.
  induction rs as [|r rs IH]; intros Hok Hfb; cbn [first_target]; [exact Hfb|].
  inversion Hok as [|? ? Hr Hok']; subst. destruct (rule_holds ups r x); [|now apply IH].
  unfold rule_ok in Hr. apply andb_true_iff in Hr. now destruct Hr.
Qed.

(* ------------------------------------------------------------------------------------------------ *)
(* Part 4: the refinement theorem (both matchers)                                                     *)
(* ------------------------------------------------------------------------------------------------ *)
Definition args_of (x : ctx) : margs :=
  {| a_qtype := q_type (x_q x); a_ips := x_ips x; a_from := from_index (x_from x) |}.

Lemma refinement_core sd ups rt x bm :
  wf_upstreams ups = true -> routing_ok (is_resp_of sd) ups rt = true ->
  exists b, build_matcher sd ups rt = Ok b /\
    (dom_agree x bm b ->
     match_loop sd (b_ipsets b) (args_of x) bm (b_rules b) 0 false false
     = upstream_to_id sd ups (first_target ups (rt_rules rt) (rt_fallback rt) x)).
Proof.
  intros Hw Hrt. unfold routing_ok in Hrt. apply andb_true_iff in Hrt. destruct Hrt as [Hrt Hcount].
  apply andb_true_iff in Hrt. destruct Hrt as [Hrules Hfb].
  assert (Hrules' : Forall (fun r => rule_ok (is_resp_of sd) ups r = true) (rt_rules rt)) by (apply Forall_forall; now rewrite forallb_forall in Hrules).
  assert (Hcap : N.of_nat (List.length (b_ipsets empty_builder) + ipc_rules sd (rt_rules rt)) <= 65536).
  { cbn [empty_builder b_ipsets List.length]. destruct sd; cbn [is_resp_of negb orb] in Hcount.
    - rewrite ipc_request_zero. cbn. lia.
    - rewrite ipc_response_eq. lia. }
  destruct (apply_rules_emit sd ups x bm Hw (rt_rules rt) empty_builder Hcap Hrules')
    as [b' [seg [ars [Hrun [Hr [He [Hl [Hwf [Ho Hs]]]]]]]]].
  cbn [empty_builder b_rules app List.length] in Hr, Hl, Hs. change (N.of_nat 0) with 0 in Hl, Hs.
  destruct (target_resolved sd ups (rt_fallback rt) Hw Hfb) as [id [Hid Hle]].
  set (fbm := {| m_type := MatchType_Fallback; m_value := 0; m_not := false; m_up := id |}).
  exists (append_rule b' fbm).
  split.
  { unfold build_matcher. rewrite Hrun. unfold add_fallback. rewrite Hid. fold fbm.
    cbn [append_rule b_rules]. rewrite map_app. cbn [map]. rewrite last_last. reflexivity. }
  intros Hd. cbn [append_rule b_rules b_ipsets].
  set (F := append_rule b' fbm) in *.
  assert (HF : ext b' F) by apply append_rule_ext.
  destruct (Hs F HF Hd) as [Hfine Hdec].
  set (n := N.of_nat (List.length seg)).
  set (fr := RuleScan.Rl [RuleScan.C false [(n, fbm)]] (RuleScan.ROut id false) : RuleScan.rule atom R).
  assert (Harr : abs_arr sd 0 (b_rules b' ++ [fbm]) = RuleScan.lower atom R (ars ++ [fr])).
  { rewrite Hr, abs_arr_app, Hl. unfold RuleScan.lower. rewrite flat_map_app. f_equal.
    cbn. unfold abs_atom, tgt_of. cbn [snd fbm m_not m_up]. rewrite (tgt_out sd id Hle). try rewrite N.add_0_l. fold n. reflexivity. }
  assert (Hfall : eval_mset sd (b_ipsets b') (args_of x) bm n fbm = Ok true) by (destruct sd; reflexivity).
  change (b_ipsets b') with (b_ipsets F) in *.
  rewrite (match_loop_scan sd (b_ipsets F) (args_of x) bm).
  2:{ intros k m Hk. rewrite N.add_0_l. rewrite Hr in Hk.
      destruct (Nat.ltb k (List.length seg)) eqn:E.
      - apply Nat.ltb_lt in E. rewrite nth_error_app1 in Hk by exact E. split.
        + rewrite Forall_forall in Ho. apply Ho. eapply nth_error_In; eauto.
        + rewrite Forall_forall in Hfine.
          pose proof (tag_in seg 0 k m Hk) as Hin.
          rewrite N.add_0_l in Hin. destruct (Hfine _ Hin) as [g Hg']. cbn [fst snd] in Hg'. exists g. exact Hg'.
      - apply Nat.ltb_ge in E. rewrite nth_error_app2 in Hk by exact E.
        destruct (k - List.length seg)%nat as [|k'] eqn:Ek; cbn in Hk; [|destruct k'; discriminate].
        inversion Hk; subst m. split; [cbn; lia|].
        replace (N.of_nat k) with n by (unfold n; lia). exists true. exact Hfall. }
  rewrite Harr.
  rewrite (RuleScan.scan_lower atom R (semx sd x bm F)).
  - rewrite Hdec. unfold fr. cbn [RuleScan.decide]. unfold RuleScan.rule_holds, RuleScan.cond_holds.
    cbn [RuleScan.rconds RuleScan.rt forallb RuleScan.cneg RuleScan.catoms existsb].
    unfold semx at 1. cbn [fst snd]. fold (args_of x). rewrite Hfall. cbn [unres orb xorb andb].
    replace id with (tid sd ups (rt_fallback rt)) by (unfold tid; now rewrite Hid).
    rewrite drk_spec. cbn [res_of].
    destruct (target_resolved sd ups _ Hw (first_target_ok sd ups x (rt_fallback rt) (rt_rules rt) Hrules' Hfb)) as [oid [Hoid _]].
    unfold tid. now rewrite Hoid.
  - apply Forall_app. split; [exact Hwf|]. constructor; [|constructor]. split; [discriminate|].
    constructor; [|constructor]. discriminate.
  - intros k m Hk. rewrite <- Harr in Hk. unfold abs_arr in Hk. rewrite nth_error_map in Hk.
    destruct (nth_error (tag 0 (b_rules b' ++ [fbm])) k) as [y|] eqn:Ex; [|discriminate]. cbn in Hk. inversion Hk; subst m.
    cbn [RuleScan.ma abs_atom]. destruct (tag_nth _ _ _ _ Ex) as [Hfst _]. unfold evx, semx. rewrite Hfst. reflexivity.
Qed.

(* --- the two Select functions --- *)
Definition oracle_agrees (b : builder) (bm : list N) (q : question) : Prop :=
  forall ds, In ds (b_domsets b) ->
    bm_read bm (ds_index ds)
    = Some (existsb (fun s => domain_holds (ds_key ds) s (norm_name (q_name q)) (q_regex_hits q)) (ds_domains ds)).

Lemma wf_config_parts cfg : wf_config cfg = true ->
  wf_upstreams (cf_upstreams cfg) = true /\ routing_ok false (cf_upstreams cfg) (cf_request cfg) = true /\
  routing_ok true (cf_upstreams cfg) (cf_response cfg) = true.
Proof. unfold wf_config. intros H. apply andb_true_iff in H. destruct H as [H H3]. apply andb_true_iff in H. tauto. Qed.

Lemma dns_new_total cfg : wf_config cfg = true ->
  exists rq rp, build_matcher Request (cf_upstreams cfg) (cf_request cfg) = Ok rq /\
                build_matcher Response (cf_upstreams cfg) (cf_response cfg) = Ok rp /\
                dns_new cfg = Ok {| d_ups := cf_upstreams cfg; d_req := rq; d_resp := rp |}.
Proof.
  intros Hwf. destruct (wf_config_parts cfg Hwf) as [Hw [Hq Hp]].
  set (x0 := {| x_q := {| q_name := ""; q_type := 0; q_regex_hits := [] |}; x_ips := []; x_from := SAsIs |}).
  destruct (refinement_core Request _ _ x0 None Hw Hq) as [rq [Hrq _]].
  destruct (refinement_core Response _ _ x0 None Hw Hp) as [rp [Hrp _]].
  exists rq, rp. split; [exact Hrq|]. split; [exact Hrp|].
  unfold dns_new. rewrite Hrq, Hrp.
  replace (DnsRequestOutboundIndex_UserDefinedMax <? N.of_nat (List.length (cf_upstreams cfg))) with false; [reflexivity|].
  unfold wf_upstreams in Hw. apply andb_true_iff in Hw. destruct Hw as [_ Hl].
  unfold DnsRequestOutboundIndex_UserDefinedMax. lia.
Qed.

Lemma domain_holds_empty k s : domain_holds k s "" [] = false.
Proof. destruct k; reflexivity. Qed.

Lemma verdict_req ups t :
  wf_upstreams ups = true -> target_ok false ups t = true ->
  exists oid v, upstream_to_id Request ups t = Ok oid /\ req_verdict_of ups t = Some v /\
    (if (oid =? DnsRequestOutboundIndex_AsIs) || (oid =? DnsRequestOutboundIndex_Reject)
     then Ok (if oid =? DnsRequestOutboundIndex_AsIs then QAsIs else QReject)
     else if N.of_nat (List.length ups) <=? oid then Err E_BAD_INDEX else Ok (QUp oid)) = Ok v.
Proof.
  intros Hw Ht. unfold target_ok in Ht. apply orb_true_iff in Ht. destruct Ht as [Ht|Ht].
  - apply orb_true_iff in Ht. destruct Ht as [Ht|Ht]; apply String.eqb_eq in Ht; subst t.
    + exists DnsRequestOutboundIndex_Reject, QReject. repeat split.
    + exists DnsRequestOutboundIndex_AsIs, QAsIs. repeat split.
  - apply andb_true_iff in Ht. destruct Ht as [Hr Hd]. apply negb_true_iff in Hr.
    unfold defined in Hd. destruct (index_of ups t 0) as [i|] eqn:Ei; [|discriminate].
    destruct (upstream_to_id_defined Request ups t i Hw Hr Ei) as [H1 H2].
    destruct (reserved_false t Hr) as [E1 [E2 _]].
    exists i, (QUp i). split; [exact H1|]. split.
    + unfold req_verdict_of. now rewrite E1, E2, Ei.
    + apply index_of_bound in Ei.
      replace (i =? DnsRequestOutboundIndex_AsIs) with false by (symmetry; apply N.eqb_neq; unfold DnsRequestOutboundIndex_AsIs; lia).
      replace (i =? DnsRequestOutboundIndex_Reject) with false by (symmetry; apply N.eqb_neq; unfold DnsRequestOutboundIndex_Reject; lia).
      cbn [orb]. replace (N.of_nat (List.length ups) <=? i) with false by lia. reflexivity.
Qed.

Lemma verdict_resp ups t :
  wf_upstreams ups = true -> target_ok true ups t = true ->
  exists oid v, upstream_to_id Response ups t = Ok oid /\ resp_verdict_of ups t = Some v /\
    (if negb (is_reserved oid) then (if N.of_nat (List.length ups) <=? oid then Err E_BAD_INDEX else Ok (PUp oid))
     else if oid =? DnsResponseOutboundIndex_Accept then Ok PAccept
     else if oid =? DnsResponseOutboundIndex_Reject then Ok PReject else Err E_BAD_INDEX) = Ok v.
Proof.
  intros Hw Ht. unfold target_ok in Ht. apply orb_true_iff in Ht. destruct Ht as [Ht|Ht].
  - apply orb_true_iff in Ht. destruct Ht as [Ht|Ht]; apply String.eqb_eq in Ht; subst t.
    + exists DnsResponseOutboundIndex_Accept, PAccept. repeat split.
    + exists DnsResponseOutboundIndex_Reject, PReject. repeat split.
  - apply andb_true_iff in Ht. destruct Ht as [Hr Hd]. apply negb_true_iff in Hr.
    unfold defined in Hd. destruct (index_of ups t 0) as [i|] eqn:Ei; [|discriminate].
    destruct (upstream_to_id_defined Response ups t i Hw Hr Ei) as [H1 H2].
    destruct (reserved_false t Hr) as [E1 [_ [E3 _]]].
    exists i, (PUp i). split; [exact H1|]. split.
    + unfold resp_verdict_of. now rewrite E3, E1, Ei.
    + apply index_of_bound in Ei. unfold is_reserved.
      replace (i =? DnsResponseOutboundIndex_Accept) with false by (symmetry; apply N.eqb_neq; unfold DnsResponseOutboundIndex_Accept; lia).
      replace (i =? DnsResponseOutboundIndex_Reject) with false by (symmetry; apply N.eqb_neq; unfold DnsResponseOutboundIndex_Reject; lia).
      replace (i =? DnsResponseOutboundIndex_LogicalOr) with false by (symmetry; apply N.eqb_neq; unfold DnsResponseOutboundIndex_LogicalOr; lia).
      replace (i =? DnsResponseOutboundIndex_LogicalAnd) with false by (symmetry; apply N.eqb_neq; unfold DnsResponseOutboundIndex_LogicalAnd; lia).
      cbn [orb negb]. replace (N.of_nat (List.length ups) <=? i) with false by lia. reflexivity.
Qed.

Lemma routing_ok_first_target sd ups rt x :
  routing_ok (is_resp_of sd) ups rt = true ->
  target_ok (is_resp_of sd) ups (first_target ups (rt_rules rt) (rt_fallback rt) x) = true.
Proof.
  intros Hrt. unfold routing_ok in Hrt. apply andb_true_iff in Hrt. destruct Hrt as [Hrt _].
  apply andb_true_iff in Hrt. destruct Hrt as [Hrules Hfb].
  apply first_target_ok; [|exact Hfb]. apply Forall_forall. now rewrite forallb_forall in Hrules.
Qed.

Lemma request_select_refines cfg d bm q :
  wf_config cfg = true -> dns_new cfg = Ok d ->
  (q_name q = ""%string -> q_regex_hits q = []) ->
  (q_name q <> ""%string -> oracle_agrees (d_req d) bm q) ->
  exists v, request_route cfg q = Some v /\ request_select d bm q = Ok v.
Proof.
  intros Hwf Hd Hnohit Hor. destruct (wf_config_parts cfg Hwf) as [Hw [Hq Hp]].
  destruct (dns_new_total cfg Hwf) as [rq [rp [Hrq [Hrp Hnew]]]]. rewrite Hnew in Hd. inversion Hd; subst d. clear Hd.
  cbn [d_req] in Hor.
  set (x := {| x_q := q; x_ips := []; x_from := SAsIs |}).
  set (bmo := if String.eqb (q_name q) "" then None else Some bm).
  destruct (refinement_core Request _ _ x bmo Hw Hq) as [rq' [Hrq' Href]]. rewrite Hrq in Hrq'. inversion Hrq'; subst rq'. clear Hrq'.
  assert (Hagree : dom_agree x bmo rq).
  { intros ds Hin. unfold bmr, dom_holds, bmo. cbn [x x_q]. destruct (String.eqb (q_name q) "") eqn:E.
    - apply String.eqb_eq in E. rewrite E, (Hnohit E). f_equal. symmetry.
      induction (ds_domains ds) as [|s0 l IHl]; [reflexivity|]. cbn [existsb]. change (norm_name "") with ""%string.
      rewrite domain_holds_empty. exact IHl.
    - apply Hor; [|exact Hin]. intros E'. rewrite E' in E. discriminate. }
  specialize (Href Hagree).
  destruct (verdict_req _ _ Hw (routing_ok_first_target Request _ _ x Hq)) as [oid [v [Hoid [Hv Hpost]]]].
  exists v. split; [exact Hv|].
  unfold request_select. cbn [d_req d_ups]. fold bmo.
  change {| a_qtype := q_type q; a_ips := []; a_from := from_index SAsIs |} with (args_of x).
  rewrite Href, Hoid. exact Hpost.
Qed.

Lemma response_select_refines cfg d bm q ans from :
  wf_config cfg = true -> dns_new cfg = Ok d -> q_name q <> ""%string ->
  oracle_agrees (d_resp d) bm q ->
  exists v, response_route cfg q ans from = Some v /\ response_select d bm q ans from = Ok v.
Proof.
  intros Hwf Hd Hne Hor. destruct (wf_config_parts cfg Hwf) as [Hw [Hq Hp]].
  destruct (dns_new_total cfg Hwf) as [rq [rp [Hrq [Hrp Hnew]]]]. rewrite Hnew in Hd. inversion Hd; subst d. clear Hd.
  cbn [d_resp] in Hor.
  set (x := {| x_q := q; x_ips := answer_ips ans; x_from := from |}).
  destruct (refinement_core Response _ _ x (Some bm) Hw Hp) as [rp' [Hrp' Href]]. rewrite Hrp in Hrp'. inversion Hrp'; subst rp'. clear Hrp'.
  assert (Hagree : dom_agree x (Some bm) rp) by (intros ds Hin; apply Hor; exact Hin).
  specialize (Href Hagree).
  destruct (verdict_resp _ _ Hw (routing_ok_first_target Response _ _ x Hp)) as [oid [v [Hoid [Hv Hpost]]]].
  exists v. split; [exact Hv|].
  unfold response_select. cbn [d_resp d_ups].
  replace (String.eqb (q_name q) "") with false by (symmetry; apply String.eqb_neq; exact Hne).
  change {| a_qtype := q_type q; a_ips := answer_ips ans; a_from := from_index from |} with (args_of x).
  rewrite Href, Hoid. exact Hpost.
Qed.

(* ------------------------------------------------------------------------------------------------ *)
(* Part 5: the controller follows the spec                                                            *)
(* ------------------------------------------------------------------------------------------------ *)
Definition res_of_outcome (o : outcome) : res (list rr) :=
  match o with
  | Replied ans => Ok ans
  | TooDeep => Err E_TOO_DEEP
  | UpstreamFailed => Err E_UPSTREAM_FAIL
  | RouteError => Err 0
  end.

Lemma dial_send_refines cfg d bm q a :
  wf_config cfg = true -> dns_new cfg = Ok d -> q_name q <> ""%string -> oracle_agrees (d_resp d) bm q ->
  forall fuel depth s, (depth <= max_depth)%nat -> (max_depth - depth < fuel)%nat ->
  dial_send fuel d bm q a (N.of_nat depth) s
  = (res_of_outcome (fst (chase cfg q a (max_depth - depth) depth s)), snd (chase cfg q a (max_depth - depth) depth s)).
Proof.
  intros Hwf Hd Hne Hor. induction fuel as [|f IH]; intros depth s Hle Hf; [lia|].
  cbn [dial_send]. destruct (MaxDnsLookupDepth <=? N.of_nat depth) eqn:Edeep.
  - assert (depth = max_depth) by (unfold max_depth in *; lia). subst depth.
    replace (max_depth - max_depth)%nat with 0%nat by lia. reflexivity.
  - assert (Hlt : (depth < max_depth)%nat) by (unfold max_depth in *; lia).
    replace (max_depth - depth)%nat with (S (max_depth - S depth)) by lia.
    cbn [chase]. rewrite Nat2N.id. destruct (a s depth) as [ans|]; [|reflexivity].
    destruct (response_select_refines cfg d bm q ans s Hwf Hd Hne Hor) as [v [Hv Hs]].
    rewrite Hs, Hv. destruct v as [| |j]; [reflexivity|reflexivity|].
    replace (N.of_nat depth + 1) with (N.of_nat (S depth)) by lia.
    rewrite IH by lia. destruct (chase cfg q a (max_depth - S depth) (S depth) (SUp j)) as [o l]. reflexivity.
Qed.

Lemma handle_refines cfg d bmq bmr c q a fuel :
  wf_config cfg = true -> dns_new cfg = Ok d -> q_name q <> ""%string ->
  oracle_agrees (d_req d) bmq q -> oracle_agrees (d_resp d) bmr q -> (max_depth < fuel)%nat ->
  handle fuel d bmq bmr c q a
  = (let '(o, l, c') := answer_question max_depth cfg c q a in (res_of_outcome o, l, c')).
Proof.
  intros Hwf Hd Hne Horq Horr Hf.
  destruct (request_select_refines cfg d bmq q Hwf Hd (fun E => match Hne E with end) (fun _ => Horq)) as [v [Hv Hs]].
  unfold handle, answer_question. rewrite Hs, Hv.
  assert (Hds : forall s, dial_send fuel d bmr q a 0 s
                = (res_of_outcome (fst (chase cfg q a max_depth 0 s)), snd (chase cfg q a max_depth 0 s))).
  { intros s. pose proof (dial_send_refines cfg d bmr q a Hwf Hd Hne Horr fuel 0%nat s) as H.
    rewrite Nat.sub_0_r in H. change (N.of_nat 0) with 0 in H. apply H; lia. }
  destruct v as [| |i].
  - reflexivity.
  - destruct (cache_lookup c q (src_code SAsIs)); [reflexivity|]. rewrite Hds.
    destruct (chase cfg q a max_depth 0 SAsIs) as [o l]. destruct o; reflexivity.
  - destruct (cache_lookup c q (src_code (SUp i))); [reflexivity|]. rewrite Hds.
    destruct (chase cfg q a max_depth 0 (SUp i)) as [o l]. destruct o; reflexivity.
Qed.

Lemma C07_reject_ignores_cache_proof cfg d bmq bmr c q a fuel :
  wf_config cfg = true -> dns_new cfg = Ok d ->
  (q_name q = ""%string -> q_regex_hits q = []) ->
  (q_name q <> ""%string -> oracle_agrees (d_req d) bmq q) ->
  request_route cfg q = Some QReject ->
  handle fuel d bmq bmr c q a = (Ok [], [], cache_remove_family c q) /\
  (forall scope, cache_lookup (cache_remove_family c q) q scope = None) /\
  (forall e, In e (cache_remove_family c q) <-> In e c /\ same_family q e = false).
Proof.
  intros Hwf Hd Hnohit Hor Hrej. destruct (request_select_refines cfg d bmq q Hwf Hd Hnohit Hor) as [v [Hv Hs]].
  rewrite Hrej in Hv. inversion Hv; subst v. now apply C07_reject_model.
Qed.

(* accept / empty / re-ask, one step, read off the spec *)
Lemma C07_accept_reject_reask_proof cfg q a n k s ans :
  a s k = UAnswer ans ->
  match response_route cfg q ans s with
  | Some PAccept => chase cfg q a (S n) k s = (Replied ans, [s])
  | Some PReject => chase cfg q a (S n) k s = (Replied [], [s])
  | Some (PUp j) => chase cfg q a (S n) k s
                    = (fst (chase cfg q a n (S k) (SUp j)), s :: snd (chase cfg q a n (S k) (SUp j)))
  | None => chase cfg q a (S n) k s = (RouteError, [s])
  end.
Proof.
  intros Ha. cbn [chase]. rewrite Ha. destruct (response_route cfg q ans s) as [[| |j]|]; try reflexivity.
  destruct (chase cfg q a n (S k) (SUp j)); reflexivity.
Qed.

(* --- non-vacuity --- *)
Definition ex_cfg : config :=
  {| cf_upstreams := ["u0"; "u1"]%string;
     cf_request := {| rt_rules := [ {| r_conds := [ {| c_neg := false; c_body := BQName [(DSuffix, "example.com"); (DFull, "a.b"); (DSuffix, "org")]%string |};
                                                    {| c_neg := true; c_body := BQType [28; 65] |} ];
                                       r_target := "u1" |};
                                    {| r_conds := [ {| c_neg := false; c_body := BQType [28] |} ]; r_target := "reject" |} ];
                      rt_fallback := "asis" |};
     cf_response := {| rt_rules := [ {| r_conds := [ {| c_neg := false; c_body := BUpstream ["u0"]%string |} ]; r_target := "u1" |};
                                     {| r_conds := [ {| c_neg := false; c_body := BUpstream ["u1"]%string |};
                                                     {| c_neg := false; c_body := BIp [ {| px_v4 := true; px_addr := 0xffff0a000000; px_bits := 8 |} ] |} ];
                                        r_target := "u0" |};
                                     {| r_conds := [ {| c_neg := true; c_body := BIp [ {| px_v4 := false; px_addr := 0; px_bits := 1 |} ] |} ]; r_target := "reject" |} ];
                       rt_fallback := "accept" |} |}.
Definition ex_q (t : N) : question := {| q_name := "WWW.Example.COM."; q_type := t; q_regex_hits := [] |}.
Definition ex_answers : answers := fun s k => UAnswer [RA 0x0a010203].

Lemma C07_nonvacuous_proof :
  wf_config ex_cfg = true /\
  request_route ex_cfg (ex_q 1) = Some (QUp 1) /\
  request_route ex_cfg (ex_q 28) = Some QReject /\
  request_route ex_cfg {| q_name := "x.net"; q_type := 1; q_regex_hits := [] |} = Some QAsIs /\
  chase ex_cfg (ex_q 1) ex_answers 3 0 (SUp 1) = (TooDeep, [SUp 1; SUp 0; SUp 1]) /\
  chase ex_cfg (ex_q 1) (fun s k => UAnswer [RA 0x08080808]) 3 0 (SUp 0) = (Replied [RA 0x08080808], [SUp 0; SUp 1]) /\
  chase ex_cfg (ex_q 1) (fun s k => UAnswer [RAAAA (2 ^ 127)]) 3 0 SAsIs = (Replied [], [SAsIs]) /\
  (exists d, dns_new ex_cfg = Ok d /\ List.length (b_rules (d_req d)) = 6%nat /\ List.length (b_rules (d_resp d)) = 5%nat /\
     handle 10 d (repeat 0 32) (repeat 0 32)
            [{| ce_name := "www.example.com"; ce_type := 28; ce_scope := 1; ce_answer := [RAAAA 1] |}] (ex_q 28) ex_answers
     = (Ok [], [], [])).
Proof.
  repeat split; try (vm_compute; reflexivity).
  eexists. split; [vm_compute; reflexivity|]. repeat split; vm_compute; reflexivity.
Qed.
