(* C11 — property theorems only.  Each is closed by `exact` of a lemma of C11_Proofs.v / C11_LoudsProofs.v. *)
From Coq Require Import List NArith Bool Sorting.Permutation.
From Dae Require Import C11_Spec C11_Model C11_Louds C11_Proofs C11_LoudsProofs C11_BitlistProofs C11_PackedProofs C11_Layer3 C11_RegexProofs C11_Build C11_BuildProofs.
From Dae.gen Require Import C11_Extracted.
Import ListNotations.
Open Scope N_scope.

(* Layers 1-2, key construction and query string.  For EVERY pattern (any bytes) and every name over the
   alphabet (any letter case, with or without trailing dot): the keys AddSet derives from a full / suffix
   pattern, looked up by "some key is a prefix of the query string MatchDomainBitmap builds", answer
   exactly what the kind describes (identical name; the name itself or a name ending in "."+pattern;
   proper sub-names only for a leading-dot pattern; nothing for a pattern with a byte outside the
   alphabet, '^' included). *)
Theorem C11_keys_correct_full : forall d raw, name_ok raw = true ->
  has_prefix (map to_suffix_trie_string (full_keys valid_domain_chars d)) (query raw)
  = pat_matches (fun _ _ => false) KFull d (normalize raw).
Proof. exact full_keys_correct. Qed.
Print Assumptions C11_keys_correct_full.

Theorem C11_keys_correct_suffix : forall d raw, name_ok raw = true ->
  has_prefix (map to_suffix_trie_string (suffix_keys valid_domain_chars d)) (query raw)
  = pat_matches (fun _ _ => false) KSuffix d (normalize raw).
Proof. exact suffix_keys_correct. Qed.
Print Assumptions C11_keys_correct_suffix.

Example C11_keys_nonvacuous :
  name_ok [87;87;87;46;69;88;46;67;79;77;46] = true /\
  has_prefix (map to_suffix_trie_string (suffix_keys valid_domain_chars [101;120;46;99;111;109]))
             (query [87;87;87;46;69;88;46;67;79;77;46]) = true /\
  has_prefix (map to_suffix_trie_string (suffix_keys valid_domain_chars [101;120;46;99;111;109]))
             (query [120;101;120;46;99;111;109]) = false.
Proof. exact keys_nonvacuous. Qed.

(* A pattern with a byte outside ValidDomainChars contributes no key, and removing such patterns from any
   collection of sets leaves the whole AddSet state (hence every answer for every set) unchanged. *)
Theorem C11_skip_invalid :
  (forall d, valid_pat valid_domain_chars d = false ->
     full_keys valid_domain_chars d = [] /\ suffix_keys valid_domain_chars d = [])
  /\ (forall rx_ok sets,
        add_sets valid_domain_chars rx_ok (map drop_invalid sets) = add_sets valid_domain_chars rx_ok sets).
Proof. exact (conj invalid_no_key skip_invalid). Qed.
Print Assumptions C11_skip_invalid.

(* The whole matcher (AddSet* with its validation of full, suffix and keyword patterns, Build with its
   error paths, MatchDomainBitmap over the abstract trie, the keyword automaton and any regexp oracle)
   against the spec, for all collections of sets on any bit indices, all names over the alphabet, all
   probed indices.  The automaton is taken as the library behaves: a substring matcher that never reports
   an empty pattern.  Full statement: *)
Definition C11_matcher_full : Prop :=
  forall rx_ok rx sets names idxs, forallb name_ok names = true ->
    model_answer rx_ok rx sets names idxs = spec_answer rx_ok rx sets names idxs.

(* ... which the faithful model falsifies in exactly one way (recorded as the open finding
   C11/keyword-empty): the empty keyword is contained in every name but is never matched. *)
Theorem C11_matcher_refuted :
  exists sets names idxs, forallb name_ok names = true /\
    model_answer (fun _ => true) (fun _ _ => false) sets names idxs
    <> spec_answer (fun _ => true) (fun _ _ => false) sets names idxs.
Proof. exact matcher_full_refuted. Qed.
Print Assumptions C11_matcher_refuted.

(* Proved: the same statement for every collection in which no keyword pattern is the empty string —
   patterns of every kind may contain any bytes (invalid ones are skipped), any number of sets, several
   sets per bit index, regular expressions that do not compile. *)
Theorem C11_matcher_partial : forall rx_ok rx sets names idxs,
  kw_nonempty sets = true -> forallb name_ok names = true ->
  model_answer rx_ok rx sets names idxs = spec_answer rx_ok rx sets names idxs.
Proof. exact matcher_partial. Qed.
Print Assumptions C11_matcher_partial.

Example C11_matcher_nonvacuous :
  kw_nonempty ex_sets = true /\ forallb name_ok ex_names = true /\
  model_answer (fun _ => true) (fun _ _ => false) ex_sets ex_names [3; 32; 1023; 5]
  = Some [[3; 32; 1023]; [3; 1023]; [1023]; [3; 1023]; [3; 1023]; [3]; []].
Proof. exact matcher_nonvacuous. Qed.

(* Bit i depends only on the sets attached to i. *)
Theorem C11_sets_independent : forall rx_ok rx sets sets' raw i,
  filter (fun x => ps_idx x =? i) sets = filter (fun x => ps_idx x =? i) sets' ->
  kw_nonempty sets = true -> kw_nonempty sets' = true -> name_ok raw = true ->
  sets_ok rx_ok sets = true -> sets_ok rx_ok sets' = true ->
  model_answer rx_ok rx sets [raw] [i] = model_answer rx_ok rx sets' [raw] [i].
Proof. exact sets_independent. Qed.
Print Assumptions C11_sets_independent.

(* Layer 3, first half (proved): the tree that NewTrie's BFS enumerates — keys sorted, de-duplicated, split
   at every level into runs by next byte, a node being a leaf when its first key ends there — represents
   exactly the key set: walking it along a word answers "some key is a prefix of the word".
   For all key lists (duplicates, empty key, keys that are prefixes of one another) and all words. *)
Theorem C11_tree_correct : forall keys w, t_walk keys w = has_prefix keys w.
Proof. exact tree_correct. Qed.
Print Assumptions C11_tree_correct.

Example C11_tree_nonvacuous :
  map (t_walk [[97;98]; [97]; [97;98;99]; [98;99]; [97;98]]) [[97]; [98]; [98;99;100]; [97;120]; []; [99]]
  = [true; false; true; true; false; false].
Proof. exact tree_nonvacuous. Qed.

(* Layer 3, LOUDS numbering (proved): for every alphabet without repetition, every key list and every
   word, the structure NewTrie builds — labels in BFS order, unary-coded label bitmap, leaf flags —
   navigated as HasPrefix does (scan the node's labels, child = rank0, its first label = select1 + 1)
   answers exactly "some key is a prefix of the word".  Logical level: plain lists, naive rank/select. *)
Theorem C11_louds_correct :
  forall chars keys w L, NoDup chars -> (length chars <= 256)%nat ->
    l_new chars keys = Some L -> l_has chars L w = has_prefix keys w.
Proof. exact louds_has_prefix. Qed.
Print Assumptions C11_louds_correct.

Example C11_louds_nonvacuous :
  match l_new [48;49] [[48]; [48;49]; [49;49;48]; [48]] with
  | Some L => map (l_has [48;49] L) [[48;49;49]; [49]; [49;49]; [49;49;48;49]; []; [49;50]]
  | None => []
  end = [true; false; false; true; false; false].
Proof. exact louds_has_prefix_nonvacuous. Qed.

(* CompactBitList (16-bit storage units, any unit width 1..64, any index, any buffer).
   Full statement as first posed — Get after Set returns the value and every other unit is untouched,
   for ANY buffer of 16-bit words: *)
Definition C11_compact_bitlist_get_set_full : Prop :=
  forall m i v m', 1 <= c_unit m <= 64 -> Forall (fun x => x < 65536) (c_buf m) -> v < 2 ^ c_unit m ->
    cbl_set m i v = Some m' ->
    cbl_get m' i = v /\ (forall j, j <> i -> cbl_get m' j = cbl_get m j)
    /\ c_unit m' = c_unit m /\ Forall (fun x => x < 65536) (c_buf m').
(* It is false of the faithful model, but only in states no sequence of Set/Append can produce: a buffer
   with stale bits after its last whole unit (unit 3, buffer [0x8000]: unit 5 straddles the end and reads 0;
   after Set 6 the buffer has grown and unit 5 reads 1). *)
Theorem C11_compact_bitlist_get_set_refuted : ~ C11_compact_bitlist_get_set_full.
Proof. exact compact_bitlist_get_set_as_stated_false. Qed.
Print Assumptions C11_compact_bitlist_get_set_refuted.

(* Proved: the same law for every buffer whose bits beyond the last whole unit are zero ... *)
Theorem C11_compact_bitlist_get_set_partial :
  forall m i v m', 1 <= c_unit m <= 64 -> Forall (fun x => x < 65536) (c_buf m) -> tail_clean m ->
    v < 2 ^ c_unit m -> cbl_set m i v = Some m' ->
    cbl_get m' i = v /\ (forall j, j <> i -> cbl_get m' j = cbl_get m j)
    /\ c_unit m' = c_unit m /\ Forall (fun x => x < 65536) (c_buf m') /\ tail_clean m'.
Proof. exact compact_bitlist_get_set. Qed.
Print Assumptions C11_compact_bitlist_get_set_partial.

(* ... which is an invariant of every list reachable from NewCompactBitList by Set / Append, so the law
   holds along every history the code can produce. *)
Theorem C11_compact_bitlist_reachable :
  (forall u, 1 <= u <= 64 -> cbl_inv (cbl_new u))
  /\ (forall m i v m', cbl_inv m -> cbl_set m i v = Some m' ->
        cbl_inv m' /\ cbl_get m' i = v /\ forall j, j <> i -> cbl_get m' j = cbl_get m j).
Proof. exact bitlist_reachable_get_set. Qed.
Print Assumptions C11_compact_bitlist_reachable.

Example C11_compact_bitlist_nonvacuous :
  match cbl_set (cbl_of_list 6 [63; 1; 42]) 5 21 with
  | Some m => map (cbl_get m) [0; 1; 2; 3; 5; 6]
  | None => []
  end = [63; 1; 42; 0; 21; 0].
Proof. exact bitlist_nonvacuous. Qed.

(* Layer 3, packed representation (proved): the trie exactly as pkg/trie stores it — bitmaps in 64-bit
   words, rank samples per word, select samples per 64 ones, labels and both sample arrays inside
   CompactBitLists, HasPrefix with countZeros / selectIthOne — answers "some key is a prefix of the word",
   for every alphabet without repetition, every non-empty key list and every word.  The one premise is a
   size bound: total key bytes below 2^63, so that the label bitmap has fewer than 2^64 bits and the
   sample arrays fit the 64-bit unit width (the model's integers are unbounded; Go's int32 samples impose
   a smaller limit that is outside the model). *)
Theorem C11_packed_correct :
  forall chars keys w t, NoDup chars -> (length chars <= 256)%nat -> keys <> [] ->
    (2 * N.of_nat (wt keys) + 1 < 2 ^ 64) ->
    p_new chars keys = Some t -> p_has chars t w = has_prefix keys w.
Proof. exact packed_has_prefix. Qed.
Print Assumptions C11_packed_correct.

Example C11_packed_nonvacuous :
  match p_new [48;49] [[48]; [48;49]; [49;49;48]; [48]] with
  | Some t => map (p_has [48;49] t) [[48;49;49]; [49]; [49;49]; [49;49;48;49]; []; [49;50]]
  | None => []
  end = [true; false; false; true; false; false].
Proof. exact packed_has_prefix_nonvacuous. Qed.

(* End to end: the matcher over the packed trie (every layer of the model that the harness compares with
   the Go code) equals the spec, for all collections of sets without an empty keyword whose keys per bit
   index respect the size bound. *)
Theorem C11_matcher_packed_partial : forall rx_ok rx sets names idxs,
  kw_nonempty sets = true -> forallb name_ok names = true -> sets_size_ok sets ->
  model_answer_packed rx_ok rx sets names idxs = spec_answer rx_ok rx sets names idxs.
Proof. exact matcher_packed_partial. Qed.
Print Assumptions C11_matcher_packed_partial.

Example C11_matcher_packed_nonvacuous :
  kw_nonempty ex_sets = true /\ forallb name_ok ex_names = true /\
  model_answer_packed (fun _ => true) (fun _ _ => false) ex_sets ex_names [3; 32; 1023; 5]
  = Some [[3; 32; 1023]; [3; 1023]; [1023]; [3; 1023]; [3; 1023]; [3]; []].
Proof. exact matcher_packed_nonvacuous. Qed.

Example C11_matcher_packed_size_nonvacuous : sets_size_ok ex_sets.
Proof. exact ex_sets_size_ok. Qed.

(* Stage routing.  AddSet routes every pattern by its written kind and by nothing else: after any sequence
   of AddSet calls that compiled, for every bit index the trie keys come from the full/suffix sets attached
   to it, the automaton's keywords from its keyword sets, and the regexp list is exactly the written regex
   patterns of its regex sets, in order.  (The harness reports these three counts per index after the last
   AddSet and every run compares them with this model: a regex handed to the keyword automaton, or a
   keyword compiled as a regex, breaks the tie even where answers happen to agree.) *)
Theorem C11_stage_routing : forall rx_ok sets,
  sets_ok rx_ok sets = true ->
  let s := add_sets valid_domain_chars rx_ok sets in
  err s = false
  /\ (forall i, to_trie s i = at_idx trie_keys sets i)
  /\ (forall i, to_ac s i = at_idx kw_pats sets i)
  /\ (forall i, regexps s i = at_idx rx_pats sets i).
Proof. exact stage_routing. Qed.
Print Assumptions C11_stage_routing.

(* The regex bit: when only regex sets are attached to index i, bit i of the answer is set iff SOME regex
   of SOME of those sets matches the lower-cased, dot-stripped name per the regexp oracle — for every
   collection of sets (the other indices may carry sets of any kind), every name over the alphabet. *)
Theorem C11_regex_bit : forall rx_ok rx sets raw i,
  kw_nonempty sets = true -> name_ok raw = true -> sets_ok rx_ok sets = true ->
  (forall x, In x sets -> ps_idx x = i -> ps_kind x = KRegex) ->
  exists b : bool,
    model_answer rx_ok rx sets [raw] [i] = Some [if b then [i] else []]
    /\ (b = true <-> exists x p, In x sets /\ ps_idx x = i /\ In p (ps_pats x) /\ rx p (normalize raw) = true).
Proof. exact regex_bit. Qed.
Print Assumptions C11_regex_bit.

Example C11_regex_bit_nonvacuous :
  let lit := [108;111;99;97;108;104;111;115;116] in
  let pat := [94] ++ lit ++ [36] in
  let rx := fun p n => str_eqb p pat && str_eqb n lit in
  let sets := [(65, KRegex, [pat]); (64, KKeyword, [[111;99;97]]); (1, KFull, [lit])] in
  model_answer (fun _ => true) rx sets
    [lit; [109;121;46] ++ lit ++ [46;108;97;110]; [76;79;67;65;76;72;79;83;84;46]] [65; 64; 1]
  = Some [[65; 64; 1]; [64]; [65; 64; 1]].
Proof. exact regex_bit_nonvacuous. Qed.

(* Build's parallel workers.  Each non-empty set is built by a worker that then publishes its bit index by
   appending it to the shared valid-index list MatchDomainBitmap ranges over.  Full statement: for every
   lock discipline, every number of workers, every interleaving (schedule) that lets all of them finish, and
   every per-index matching result, bit i of the answer is set iff i is the index of some worker and its
   structure matches — i.e. no set is lost and sets do not influence each other through Build: *)
Definition C11_build_full : Prop :=
  forall d idxs sched has i, bdone (brun d idxs sched) = true ->
    N.testbit (loop_bits (b_valid (brun d idxs sched)) has) i = existsb (fun j => (j =? i) && has j) idxs.

(* False when the append is not atomic: two workers read length 0, both write slot 0, one index is lost and
   the set attached to it never matches. *)
Theorem C11_build_refuted :
  exists idxs sched has i,
    bdone (brun Racy idxs sched) = true /\ In i idxs /\ has i = true
    /\ N.testbit (loop_bits (b_valid (brun Racy idxs sched)) has) i = false.
Proof. exact build_racy_refuted. Qed.
Print Assumptions C11_build_refuted.

(* Proved for the discipline the source has (every append to a shared slice under the mutex — extracted from
   the source text of Build on every run and evaluated with [shape_disc]): all interleavings, any workers. *)
Theorem C11_build_partial : forall sh idxs sched has i,
  shape_disc sh = Locked -> bdone (brun (shape_disc sh) idxs sched) = true ->
  N.testbit (loop_bits (b_valid (brun (shape_disc sh) idxs sched)) has) i = existsb (fun j => (j =? i) && has j) idxs.
Proof. exact build_shape_answer. Qed.
Print Assumptions C11_build_partial.

(* The lookup loops are insensitive to the order in which the workers published. *)
Theorem C11_build_order_insensitive : forall v v' has, Permutation v v' -> loop_bits v has = loop_bits v' has.
Proof. exact loop_bits_perm. Qed.
Print Assumptions C11_build_order_insensitive.

Example C11_build_nonvacuous :
  let idxs := [5; 0; 1023; 64] in
  let sched := [Start 2; Start 0; Finish 0; Start 1; Start 0] in
  bdone (brun Locked idxs sched) = true /\ b_valid (brun Locked idxs sched) = [1023; 5; 64; 0]
  /\ map (N.testbit (loop_bits (b_valid (brun Locked idxs sched)) (fun i => negb (i =? 64)))) [0; 5; 64; 1023; 7]
     = [true; true; false; true; false].
Proof. exact build_nonvacuous. Qed.
