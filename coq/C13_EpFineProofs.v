(* C13 — proofs about the finer endpoint model (C13_EpFine.v): GetOrCreate callers as threads. *)
From Coq Require Import List Arith Bool Lia.
From Dae Require Import C13_Spec C13_Model C13_Proofs C13_EpModel C13_EpProofs C13_EpFine C13_EpFineWit.
Import ListNotations.

(* ------------------------------------------------------------------------------------------ *)
(* list facts                                                                                   *)
(* ------------------------------------------------------------------------------------------ *)
Lemma upd_length {A} (l : list A) i x : length (upd l i x) = length l.
Proof. revert i; induction l as [|y r IH]; intros [|i]; cbn; auto. Qed.

Lemma upd_same {A} (l : list A) i x : nth_error l i = Some x -> upd l i x = l.
Proof.
  revert i; induction l as [|y r IH]; intros [|i] H; cbn in *; try discriminate; auto.
  - inversion H; reflexivity.
  - f_equal; auto.
Qed.

Lemma upd_upd {A} (l : list A) i x y : upd (upd l i x) i y = upd l i y.
Proof. revert i; induction l as [|z r IH]; intros [|i]; cbn; auto. f_equal; auto. Qed.

Lemma nth_upd_cases {A} (l : list A) i x j y :
  nth_error (upd l i x) j = Some y -> (j = i /\ y = x) \/ (j <> i /\ nth_error l j = Some y).
Proof.
  rewrite nth_error_upd. destruct (j =? i) eqn:E.
  - apply Nat.eqb_eq in E. destruct (nth_error l i); [|discriminate]. intros H; inversion H; auto.
  - apply Nat.eqb_neq in E. auto.
Qed.

Lemma nth_upd_other {A} (l : list A) i x j : j <> i -> nth_error (upd l i x) j = nth_error l j.
Proof. intros H. rewrite nth_error_upd. apply Nat.eqb_neq in H. now rewrite H. Qed.

Lemma nth_upd_this {A} (l : list A) i x y : nth_error l i = Some y -> nth_error (upd l i x) i = Some x.
Proof. intros H. rewrite nth_error_upd, Nat.eqb_refl, H. reflexivity. Qed.

(* ------------------------------------------------------------------------------------------ *)
(* the invariant                                                                                *)
(* ------------------------------------------------------------------------------------------ *)
Definition prot_t (t : gthread) (e : nat) : Prop := g_pc t = GHaveGen e \/ g_pc t = GBeforePublish e.
Definition holds_e (t : gthread) (e : nat) : Prop := prot_t t e \/ g_pc t = GSlow (Some e).
Definition prot (thr : list gthread) (e : nat) : Prop := exists i t, nth_error thr i = Some t /\ prot_t t e.
Definition hd (thr : list gthread) (e : nat) : Prop := exists i t, nth_error thr i = Some t /\ holds_e t e.

(* the endpoint a creator has built and not yet published *)
Definition fresh_ok (eps : list uep) (hand : list (nat * nat)) (k e : nat) : Prop :=
  exists u, nth_error eps e = Some u /\ u_key u = k /\ u_failed u = false /\ u_closed u = false /\ u_dead u = false
            /\ u_registered u = false /\ (forall x, In x hand -> snd x <> e).

Definition tc (pl : nat -> option nat) (eps : list uep) (lock : nat -> option nat) (hand : list (nat * nat))
           (i : nat) (t : gthread) : Prop :=
  match g_pc t with
  | GSlow oe => lock (g_k t) = Some i /\ pl (g_k t) = None
                /\ match oe with Some e => exists u, nth_error eps e = Some u /\ u_key u = g_k t | None => True end
  | GHaveGen e | GBeforePublish e => lock (g_k t) = Some i /\ pl (g_k t) = None /\ fresh_ok eps hand (g_k t) e
  | GBeforeRegister e => lock (g_k t) = Some i
                         /\ exists u, nth_error eps e = Some u /\ u_key u = g_k t /\ u_failed u = false
  | _ => True
  end.

Definition FIc (pl : nat -> option nat) (eps : list uep) (thr : list gthread) (lock : nat -> option nat)
           (hand : list (nat * nat)) : Prop :=
  (forall k e, pl k = Some e ->
     exists u, nth_error eps e = Some u /\ u_key u = k /\ u_closed u = false /\ u_dead u = false)
  /\ (forall e u, nth_error eps e = Some u ->
        u_conn_closes u = (if u_failed u then 0 else if u_closed u then 1 else 0))
  /\ (forall e u, nth_error eps e = Some u -> u_closed u = false -> pl (u_key u) = Some e \/ hd thr e)
  /\ (forall i t, nth_error thr i = Some t -> tc pl eps lock hand i t)
  /\ (forall x, In x hand -> snd x < length eps).

Definition FI (s : fstate) : Prop := FIc (p_pool (f_p s)) (p_eps (f_p s)) (f_thr s) (f_lock s) (f_hand s).

Definition locked (t : gthread) : Prop :=
  match g_pc t with GSlow _ | GHaveGen _ | GBeforePublish _ | GBeforeRegister _ => True | _ => False end.

Lemma tc_lock pl eps lock hand i t : tc pl eps lock hand i t -> locked t -> lock (g_k t) = Some i.
Proof. unfold tc, locked. destruct (g_pc t); intros H L; try contradiction; apply H. Qed.

Lemma prot_facts pl eps thr lock hand e :
  FIc pl eps thr lock hand -> prot thr e ->
  exists i t, nth_error thr i = Some t /\ prot_t t e /\ lock (g_k t) = Some i /\ pl (g_k t) = None
              /\ fresh_ok eps hand (g_k t) e.
Proof.
  intros (_ & _ & _ & T & _) (i & t & Ht & Hp). exists i, t. specialize (T i t Ht). unfold tc in T.
  destruct Hp as [Hp|Hp]; rewrite Hp in T; destruct T as (T1 & T2 & T3); repeat split; auto; [left|right]; auto.
Qed.

Lemma not_prot_pool pl eps thr lock hand e u :
  FIc pl eps thr lock hand -> nth_error eps e = Some u -> pl (u_key u) = Some e -> ~ prot thr e.
Proof.
  intros H Hn Hp Hpr. destruct (prot_facts _ _ _ _ _ _ H Hpr) as (i & t & _ & _ & _ & Hpl & (u0 & H0 & K & _)).
  rewrite Hn in H0; inversion H0; subst u0. congruence.
Qed.

Lemma not_prot_hand pl eps thr lock hand x :
  FIc pl eps thr lock hand -> In x hand -> ~ prot thr (snd x).
Proof.
  intros H Hin Hpr. destruct (prot_facts _ _ _ _ _ _ H Hpr) as (i & t & _ & _ & _ & _ & (u0 & _ & _ & _ & _ & _ & _ & Hh)).
  exact (Hh x Hin eq_refl).
Qed.

Lemma not_prot_reg pl eps thr lock hand e u :
  FIc pl eps thr lock hand -> nth_error eps e = Some u -> u_registered u = true -> ~ prot thr e.
Proof.
  intros H Hn Hr Hpr. destruct (prot_facts _ _ _ _ _ _ H Hpr) as (i & t & _ & _ & _ & _ & (u0 & H0 & _ & _ & _ & _ & R & _)).
  rewrite Hn in H0; inversion H0; subst u0. congruence.
Qed.

(* an endpoint of key k is not protected by anybody else while thread i holds the creation lock of k *)
Lemma not_prot_lock pl eps thr lock hand i t e u :
  FIc pl eps thr lock hand -> nth_error thr i = Some t -> lock (g_k t) = Some i -> ~ prot_t t e ->
  nth_error eps e = Some u -> u_key u = g_k t -> ~ prot thr e.
Proof.
  intros H Ht Hl Hnp Hn K Hpr.
  destruct (prot_facts _ _ _ _ _ _ H Hpr) as (j & tj & Hj & Hp & Lj & _ & (u0 & H0 & K0 & _)).
  rewrite Hn in H0; inversion H0; subst u0. rewrite K in K0. rewrite <- K0 in Lj. rewrite Hl in Lj.
  inversion Lj; subst j. rewrite Ht in Hj; inversion Hj; subst tj. contradiction.
Qed.

(* ------------------------------------------------------------------------------------------ *)
(* one endpoint record changes, threads fixed                                                   *)
(* ------------------------------------------------------------------------------------------ *)
Lemma FI_upd1 pl pl' eps thr lock hand e u u' :
  FIc pl eps thr lock hand ->
  nth_error eps e = Some u ->
  u_key u' = u_key u -> u_failed u' = u_failed u ->
  u_conn_closes u' = (if u_failed u' then 0 else if u_closed u' then 1 else 0) ->
  (forall k, pl' k = pl k \/ (pl k = Some e /\ pl' k = None /\ u_closed u' = true)) ->
  ((u_closed u' = u_closed u /\ u_dead u' = u_dead u) \/ (u_closed u' = true /\ pl' (u_key u) <> Some e)) ->
  (prot thr e -> u_closed u' = u_closed u /\ u_dead u' = u_dead u /\ u_registered u' = u_registered u) ->
  FIc pl' (upd eps e u') thr lock hand.
Proof.
  intros H Hn K F C P Q1 Q2. pose proof H as (A & B1 & B2 & T & Hh).
  assert (N : forall e0, nth_error (upd eps e u') e0 = if e0 =? e then Some u' else nth_error eps e0).
  { intros e0. rewrite nth_error_upd, Hn. reflexivity. }
  split; [|split; [|split; [|split]]].
  - intros k e0 Hk. destruct (P k) as [Pk|(Pk&Pk'&_)]; [|congruence].
    assert (Hk0 : pl k = Some e0) by congruence.
    destruct (A k e0 Hk0) as (u0&H0&H1&H2&H3). rewrite N.
    destruct (e0 =? e) eqn:E; [|exists u0; auto].
    apply Nat.eqb_eq in E; subst e0. rewrite Hn in H0; inversion H0; subst u0.
    exists u'. split; [reflexivity|]. destruct Q1 as [(Qc&Qd)|(Qc&Qp)].
    + repeat split; congruence.
    + exfalso. apply Qp. congruence.
  - intros e0 u0. rewrite N. destruct (e0 =? e) eqn:E; [|apply B1].
    intros H0; inversion H0; subst u0. exact C.
  - intros e0 u0. rewrite N. destruct (e0 =? e) eqn:E.
    + apply Nat.eqb_eq in E; subst e0. intros H0 Hc; inversion H0; subst u0.
      destruct Q1 as [(Qc&Qd)|(Qc&Qp)]; [|congruence].
      destruct (B2 e u Hn) as [Hp|Hd]; [congruence| |right; exact Hd].
      rewrite K. destruct (P (u_key u)) as [Pk|(_&_&Pk)]; [left; congruence|congruence].
    + apply Nat.eqb_neq in E. intros H0 Hc. destruct (B2 e0 u0 H0 Hc) as [Hp|Hd]; [|right; exact Hd].
      destruct (P (u_key u0)) as [Pk|(Pk&_)]; [left; congruence|]. rewrite Hp in Pk; inversion Pk; contradiction.
  - intros j tj Hj. specialize (T j tj Hj). unfold tc in *.
    assert (PN : pl (g_k tj) = None -> pl' (g_k tj) = None).
    { intros X. destruct (P (g_k tj)) as [Pk|(_&Pk&_)]; congruence. }
    assert (FR : forall e0, prot_t tj e0 -> fresh_ok eps hand (g_k tj) e0 -> fresh_ok (upd eps e u') hand (g_k tj) e0).
    { intros e0 Hp (u0 & H0 & X1 & X2 & X3 & X4 & X5 & X6). unfold fresh_ok. rewrite N.
      destruct (e0 =? e) eqn:E; [|exists u0; repeat split; auto].
      apply Nat.eqb_eq in E; subst e0. rewrite Hn in H0; inversion H0; subst u0.
      destruct Q2 as (Y1 & Y2 & Y3); [exists j, tj; auto|].
      exists u'. repeat split; auto; congruence. }
    destruct (g_pc tj) as [| |oe|e0|e0|e0|r] eqn:Epc; auto.
    + destruct T as (T1 & T2 & T3). repeat split; auto. destruct oe as [e0|]; auto.
      destruct T3 as (u0 & H0 & X1). rewrite N. destruct (e0 =? e) eqn:E; [|exists u0; auto].
      apply Nat.eqb_eq in E; subst e0. rewrite Hn in H0; inversion H0; subst u0. exists u'. split; congruence.
    + destruct T as (T1 & T2 & T3). repeat split; auto. apply FR; auto. left; exact Epc.
    + destruct T as (T1 & T2 & T3). repeat split; auto. apply FR; auto. right; exact Epc.
    + destruct T as (T1 & u0 & H0 & X1 & X2). split; auto. rewrite N. destruct (e0 =? e) eqn:E; [|exists u0; auto].
      apply Nat.eqb_eq in E; subst e0. rewrite Hn in H0; inversion H0; subst u0. exists u'. repeat split; congruence.
  - intros x Hx. rewrite upd_length. auto.
Qed.

Lemma FI_ext pl pl' eps thr lock hand :
  (forall k, pl' k = pl k) -> FIc pl eps thr lock hand -> FIc pl' eps thr lock hand.
Proof.
  intros E H. destruct eps as [|u0 r] eqn:Eeps.
  - destruct H as (A & B1 & B2 & T & Hh). split; [|split; [|split; [|split]]].
    + intros k e Hk. rewrite E in Hk. destruct (A k e Hk) as (u & Hu & _). destruct e; discriminate.
    + intros [|e] u Hu; discriminate.
    + intros [|e] u Hu; discriminate.
    + intros i t Ht. specialize (T i t Ht). unfold tc, fresh_ok in *. rewrite E.
      destruct (g_pc t); auto.
    + exact Hh.
  - rewrite <- Eeps in *. assert (Hn : nth_error eps 0 = Some u0) by (rewrite Eeps; reflexivity).
    rewrite <- (upd_same eps 0 u0 Hn).
    destruct H as (A & B1 & B2 & T & Hh).
    eapply FI_upd1 with (u := u0) (pl := pl); eauto.
    split; [|split; [|split; [|split]]]; auto.
Qed.

Lemma FI_shape pl eps thr lock hand e u u' :
  FIc pl eps thr lock hand -> nth_error eps e = Some u -> same_shape u u' ->
  (prot thr e -> u_registered u' = u_registered u) ->
  FIc pl (upd eps e u') thr lock hand.
Proof.
  intros H Hn (K&F&C&D&N) R. pose proof H as (_ & B1 & _).
  apply (FI_upd1 pl pl eps thr lock hand e u u' H Hn); auto.
  rewrite N, F, C. apply (B1 e u Hn).
Qed.

(* Close *)
Definition closed_eps (eps : list uep) (e : nat) : list uep :=
  match nth_error eps e with
  | Some u => if u_closed u then eps
              else upd eps e (u_with_close u (if u_failed u then u_conn_closes u else S (u_conn_closes u)))
  | None => eps
  end.

Lemma ep_close_spec p e :
  p_pool (ep_close p e) = p_pool p /\ p_eps (ep_close p e) = closed_eps (p_eps p) e
  /\ p_epoch (ep_close p e) = p_epoch p /\ p_handles (ep_close p e) = p_handles p /\ p_now (ep_close p e) = p_now p.
Proof.
  unfold ep_close, closed_eps. destruct (nth_error (p_eps p) e) as [u|]; [|repeat split].
  destruct (u_closed u); [repeat split|].
  destruct (close_tail_core p u) as (P1&P2&P3&P4&P5&P6).
  unfold set_ep, set_eps. cbn [p_pool p_eps p_epoch p_handles p_now]. rewrite P1, P2, P3, P4, P6. repeat split.
Qed.

Lemma closed_eps_closed eps e u :
  nth_error eps e = Some u -> exists u', nth_error (closed_eps eps e) e = Some u' /\ u_closed u' = true.
Proof.
  intros Hn. unfold closed_eps. rewrite Hn. destruct (u_closed u) eqn:Hc.
  - exists u; auto.
  - eexists. rewrite (nth_upd_this _ _ _ _ Hn). split; reflexivity.
Qed.

Lemma FI_close_gen pl pl' eps thr lock hand e u :
  FIc pl eps thr lock hand -> nth_error eps e = Some u -> ~ prot thr e ->
  (forall k, pl' k = pl k \/ (pl k = Some e /\ pl' k = None)) -> pl' (u_key u) <> Some e ->
  FIc pl' (closed_eps eps e) thr lock hand.
Proof.
  intros H Hn Np P Hp. pose proof H as (A & B1 & _). unfold closed_eps. rewrite Hn.
  destruct (u_closed u) eqn:Hc.
  - rewrite <- (upd_same eps e u Hn).
    apply (FI_upd1 pl pl' eps thr lock hand e u u H Hn); auto.
    + apply (B1 e u Hn).
    + intros k. destruct (P k) as [X|(X&Y)]; auto.
  - apply (FI_upd1 pl pl' eps thr lock hand e u _ H Hn); auto.
    + cbn. rewrite (B1 e u Hn), Hc. destruct (u_failed u); reflexivity.
    + intros k. destruct (P k) as [X|(X&Y)]; auto.
    + intros X; contradiction.
Qed.

(* retire *)
Definition retire_pool (pl : nat -> option nat) (u : uep) (e : nat) : nat -> option nat :=
  if opt_is (pl (u_key u)) e then fset pl (u_key u) None else pl.

Lemma retire_pool_facts pl u e :
  (forall k, retire_pool pl u e k = pl k \/ (pl k = Some e /\ retire_pool pl u e k = None))
  /\ retire_pool pl u e (u_key u) <> Some e.
Proof.
  unfold retire_pool, opt_is. destruct (pl (u_key u)) as [e0|] eqn:Hk.
  - destruct (e0 =? e) eqn:E.
    + apply Nat.eqb_eq in E; subst e0. split.
      * intros k. unfold fset. destruct (k =? u_key u) eqn:Ek; auto. apply Nat.eqb_eq in Ek; subst k. auto.
      * unfold fset. rewrite Nat.eqb_refl. discriminate.
    + apply Nat.eqb_neq in E. split; auto. rewrite Hk. intros X; inversion X; contradiction.
  - split; auto. rewrite Hk; discriminate.
Qed.

Lemma ep_retire_spec p e u :
  nth_error (p_eps p) e = Some u ->
  p_pool (ep_retire p e) = retire_pool (p_pool p) u e
  /\ p_eps (ep_retire p e) = upd (p_eps p) e (if u_closed u then u_with_dead u
                                              else u_with_close (u_with_dead u) (if u_failed u then u_conn_closes u else S (u_conn_closes u)))
  /\ p_epoch (ep_retire p e) = p_epoch p /\ p_handles (ep_retire p e) = p_handles p /\ p_now (ep_retire p e) = p_now p.
Proof.
  intros Hn. unfold ep_retire. rewrite Hn.
  set (s1 := set_ep p e (u_with_dead u)).
  set (s2 := if opt_is (p_pool s1 (u_key u)) e then set_pool s1 (fset (p_pool s1) (u_key u) None) else s1).
  destruct (ep_close_spec s2 e) as (C1 & C2 & C3 & C4 & C5). rewrite C1, C2, C3, C4, C5.
  assert (E2 : p_eps s2 = upd (p_eps p) e (u_with_dead u)).
  { unfold s2. destruct (opt_is (p_pool s1 (u_key u)) e); reflexivity. }
  assert (P2 : p_pool s2 = retire_pool (p_pool p) u e).
  { unfold s2, retire_pool. change (p_pool s1) with (p_pool p). destruct (opt_is (p_pool p (u_key u)) e); reflexivity. }
  assert (O2 : p_epoch s2 = p_epoch p /\ p_handles s2 = p_handles p /\ p_now s2 = p_now p).
  { unfold s2. destruct (opt_is (p_pool s1 (u_key u)) e); repeat split. }
  destruct O2 as (O1 & O2 & O3). rewrite E2, P2, O1, O2, O3. repeat split.
  unfold closed_eps. rewrite (nth_upd_this _ _ _ _ Hn). cbn [u_closed u_with_dead u_failed u_conn_closes].
  destruct (u_closed u); [reflexivity|]. apply upd_upd.
Qed.

Lemma FI_retire p thr lock hand e :
  FIc (p_pool p) (p_eps p) thr lock hand -> ~ prot thr e ->
  FIc (p_pool (ep_retire p e)) (p_eps (ep_retire p e)) thr lock hand.
Proof.
  intros H Np. destruct (nth_error (p_eps p) e) as [u|] eqn:Hn.
  2:{ unfold ep_retire. rewrite Hn. exact H. }
  destruct (ep_retire_spec p e u Hn) as (P & E & _). rewrite P, E.
  destruct (retire_pool_facts (p_pool p) u e) as (R1 & R2).
  pose proof H as (A & B1 & _).
  destruct (u_closed u) eqn:Hc.
  - apply (FI_upd1 _ _ _ _ _ _ e u _ H Hn); auto.
    + cbn. rewrite Hc. rewrite (B1 e u Hn), Hc. reflexivity.
    + intros k. destruct (R1 k) as [X|(X&Y)]; auto.
    + intros X; contradiction.
  - apply (FI_upd1 _ _ _ _ _ _ e u _ H Hn); auto.
    + cbn. rewrite (B1 e u Hn), Hc. destruct (u_failed u); reflexivity.
    + intros k. destruct (R1 k) as [X|(X&Y)]; auto.
    + intros X; contradiction.
Qed.

(* ------------------------------------------------------------------------------------------ *)
(* the atomic calls of other goroutines (FOp)                                                   *)
(* ------------------------------------------------------------------------------------------ *)
Lemma FI_fold thr lock hand (f : pstate -> nat -> pstate) :
  (forall s e, FIc (p_pool s) (p_eps s) thr lock hand -> FIc (p_pool (f s e)) (p_eps (f s e)) thr lock hand) ->
  forall l s, FIc (p_pool s) (p_eps s) thr lock hand ->
              FIc (p_pool (fold_left f l s)) (p_eps (fold_left f l s)) thr lock hand.
Proof. intros Hf l. induction l as [|x r IH]; intros s H; cbn; auto. Qed.

Lemma FI_remove_close p thr lock hand e u :
  FIc (p_pool p) (p_eps p) thr lock hand -> nth_error (p_eps p) e = Some u -> opt_is (p_pool p (u_key u)) e = true ->
  FIc (p_pool (ep_close (set_pool p (fset (p_pool p) (u_key u) None)) e))
      (p_eps (ep_close (set_pool p (fset (p_pool p) (u_key u) None)) e)) thr lock hand.
Proof.
  intros H Hn Ho. destruct (ep_close_spec (set_pool p (fset (p_pool p) (u_key u) None)) e) as (C1 & C2 & _).
  rewrite C1, C2. cbn [p_pool p_eps set_pool].
  assert (Hp : p_pool p (u_key u) = Some e).
  { unfold opt_is in Ho. destruct (p_pool p (u_key u)) as [e0|]; [|discriminate]. apply Nat.eqb_eq in Ho. congruence. }
  apply (FI_close_gen (p_pool p) _ _ _ _ _ e u H Hn).
  - eapply not_prot_pool; eauto.
  - intros k. unfold fset. destruct (k =? u_key u) eqn:Ek; auto. apply Nat.eqb_eq in Ek; subst k. right; auto.
  - unfold fset. rewrite Nat.eqb_refl. discriminate.
Qed.

Lemma FI_map pl eps thr lock hand (f : uep -> uep) :
  (forall u, u_key (f u) = u_key u /\ u_failed (f u) = u_failed u /\ u_closed (f u) = u_closed u /\ u_dead (f u) = u_dead u
             /\ u_conn_closes (f u) = u_conn_closes u /\ (u_registered u = false -> u_registered (f u) = false)) ->
  FIc pl eps thr lock hand -> FIc pl (map f eps) thr lock hand.
Proof.
  intros Hf (A & B1 & B2 & T & Hh).
  assert (N : forall e u', nth_error (map f eps) e = Some u' -> exists u, nth_error eps e = Some u /\ u' = f u).
  { intros e u'. rewrite nth_error_map. destruct (nth_error eps e) as [u|]; cbn; [|discriminate].
    intros X; inversion X. eauto. }
  assert (N2 : forall e u, nth_error eps e = Some u -> nth_error (map f eps) e = Some (f u)).
  { intros e u X. rewrite nth_error_map, X. reflexivity. }
  split; [|split; [|split; [|split]]].
  - intros k e Hk. destruct (A k e Hk) as (u & H0 & H1 & H2 & H3). exists (f u).
    destruct (Hf u) as (F1&F2&F3&F4&F5&F6). rewrite (N2 _ _ H0). repeat split; congruence.
  - intros e u' Hu. destruct (N e u' Hu) as (u & H0 & ->). destruct (Hf u) as (F1&F2&F3&F4&F5&F6).
    rewrite F5, F2, F3. eapply B1; eauto.
  - intros e u' Hu Hc. destruct (N e u' Hu) as (u & H0 & ->). destruct (Hf u) as (F1&F2&F3&F4&F5&F6).
    rewrite F1. apply (B2 e u H0). congruence.
  - intros j tj Hj. specialize (T j tj Hj). unfold tc in *.
    assert (FR : forall e0, fresh_ok eps hand (g_k tj) e0 -> fresh_ok (map f eps) hand (g_k tj) e0).
    { intros e0 (u0 & H0 & X1 & X2 & X3 & X4 & X5 & X6). destruct (Hf u0) as (F1&F2&F3&F4&F5&F6).
      exists (f u0). rewrite (N2 _ _ H0). repeat split; auto; congruence. }
    destruct (g_pc tj) as [| |oe|e0|e0|e0|r]; auto.
    + destruct T as (T1&T2&T3). repeat split; auto. destruct oe as [e0|]; auto.
      destruct T3 as (u0&H0&X1). exists (f u0). destruct (Hf u0) as (F1&_). rewrite (N2 _ _ H0). split; congruence.
    + destruct T as (T1&T2&T3). repeat split; auto.
    + destruct T as (T1&T2&T3). repeat split; auto.
    + destruct T as (T1 & u0 & H0 & X1 & X2). split; auto. exists (f u0). destruct (Hf u0) as (F1&F2&_).
      rewrite (N2 _ _ H0). repeat split; congruence.
  - intros x Hx. rewrite map_length. auto.
Qed.

Lemma FI_fop s o : FI s -> FI (fstep s (FOp o)).
Proof.
  intros H. destruct s as [p thr lock hand inv]. unfold FI in *. cbn [f_p f_thr f_lock f_hand] in H.
  destruct o as [k d g out|h out|h t|d| | |dt]; cbn [fstep].
  - exact H.
  - cbn [f_p f_hand f_thr f_lock f_inval]. destruct (nth_error (p_handles p) h) as [e|] eqn:Hh; [|exact H].
    destruct (existsb (fun x => snd x =? e) hand) eqn:Hex; [|exact H].
    apply existsb_exists in Hex. destruct Hex as (x & Hin & Hx). apply Nat.eqb_eq in Hx.
    assert (Np : ~ prot thr e). { rewrite <- Hx. eapply not_prot_hand; eauto. }
    cbn [f_p f_thr f_lock f_hand pstep]. rewrite Hh.
    destruct (nth_error (p_eps p) e) as [u|] eqn:Hn; [|exact H].
    destruct (u_dead u); [exact H|].
    assert (H1 : FIc (p_pool p) (upd (p_eps p) e (u_with_exp u (p_now p + nat_timeout))) thr lock hand).
    { eapply FI_shape; eauto. repeat split. }
    destruct ((0 <? u_conn_closes u) || (out =? 1)); cbn [fst].
    + apply FI_retire; [exact H1|exact Np].
    + cbn [set_ep set_eps p_pool p_eps]. eapply FI_shape; eauto. repeat split.
  - cbn [f_p f_hand f_thr f_lock f_inval]. destruct (nth_error (p_handles p) h) as [e|] eqn:Hh; [|exact H].
    destruct (existsb (fun x => snd x =? e) hand) eqn:Hex; [|exact H].
    cbn [f_p f_thr f_lock f_hand pstep]. rewrite Hh.
    destruct (nth_error (p_eps p) e) as [u|] eqn:Hn; [|exact H].
    destruct (u_cs_closed u); [exact H|]. cbn [fst retain_all set_tr set_ep set_eps p_pool p_eps].
    eapply FI_shape; eauto. repeat split.
  - cbn [f_p f_hand f_thr f_lock f_inval pstep fst]. apply FI_fold.
    + intros s0 e H0. destruct (nth_error (p_eps s0) e) as [u|] eqn:Hn; auto.
      destruct (u_registered u && (u_dialer u =? d) && negb (survives u)) eqn:Hc; auto.
      apply FI_retire; auto. apply andb_true_iff in Hc. destruct Hc as (Hc & _). apply andb_true_iff in Hc.
      destruct Hc as (Hc & _). eapply not_prot_reg; eauto.
    + exact H.
  - cbn [f_p f_hand f_thr f_lock f_inval pstep fst].
    set (s1 := fold_left _ _ p).
    assert (H1 : FIc (p_pool s1) (p_eps s1) thr lock hand).
    { unfold s1. apply FI_fold; auto.
      intros s0 e H0. destruct (nth_error (p_eps s0) e) as [u|] eqn:Hn; auto.
      destruct (opt_is (p_pool s0 (u_key u)) e) eqn:Ho; auto.
      apply FI_remove_close; auto. }
    cbn [p_pool p_eps]. apply FI_map; auto.
    intros u. cbn. repeat split.
  - cbn [f_p f_hand f_thr f_lock f_inval pstep fst]. apply FI_fold; auto.
    intros s0 e H0. destruct (nth_error (p_eps s0) e) as [u|] eqn:Hn; auto.
    destruct (opt_is (p_pool s0 (u_key u)) e) eqn:Ho; cbn [andb]; auto.
    destruct (is_expired u (p_now s0) || negb (gen_current s0 u) && negb (survives u)); auto.
    apply FI_remove_close; auto.
  - exact H.
Qed.
