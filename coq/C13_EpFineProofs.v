(* C13 — proofs about the finer endpoint model (C13_EpFine.v): GetOrCreate callers as threads. *)
From Coq Require Import List Arith Bool Lia.
From Dae Require Import C13_Spec C13_Model C13_Proofs C13_EpModel C13_EpProofs C13_EpFine C13_EpFineWit.
Import ListNotations.

(* ------------------------------------------------------------------------------------------ *)
(* list facts                                                                                   *)
(* ------------------------------------------------------------------------------------------ *)
Lemma upd_length {A} (l : list A) i x : length (upd l i x) = length l.
Proof. revert i; induction l as [|y r IH]; intros [|i]; cbn; auto. Qed.

Lemma upd_same {A} (l : list A) i x : nth_error l i = Some x -> upd l i x = l.
Proof.
  revert i; induction l as [|y r IH]; intros [|i] H; cbn in *; try discriminate; auto.
  - inversion H; reflexivity.
  - f_equal; auto.
Qed.

Lemma upd_upd {A} (l : list A) i x y : upd (upd l i x) i y = upd l i y.
Proof. revert i; induction l as [|z r IH]; intros [|i]; cbn; auto. f_equal; auto. Qed.

Lemma nth_upd_cases {A} (l : list A) i x j y :
  nth_error (upd l i x) j = Some y -> (j = i /\ y = x) \/ (j <> i /\ nth_error l j = Some y).
Proof.
  rewrite nth_error_upd. destruct (j =? i) eqn:E.
  - apply Nat.eqb_eq in E. destruct (nth_error l i); [|discriminate]. intros H; inversion H; auto.
  - apply Nat.eqb_neq in E. auto.
Qed.

Lemma nth_upd_other {A} (l : list A) i x j : j <> i -> nth_error (upd l i x) j = nth_error l j.
Proof. intros H. rewrite nth_error_upd. apply Nat.eqb_neq in H. now rewrite H. Qed.

Lemma nth_upd_this {A} (l : list A) i x y : nth_error l i = Some y -> nth_error (upd l i x) i = Some x.
Proof. intros H. rewrite nth_error_upd, Nat.eqb_refl, H. reflexivity. Qed.

(* ------------------------------------------------------------------------------------------ *)
(* the invariant                                                                                *)
(* ------------------------------------------------------------------------------------------ *)
Definition prot_t (t : gthread) (e : nat) : Prop := g_pc t = GHaveGen e \/ g_pc t = GBeforePublish e.
Definition holds_e (t : gthread) (e : nat) : Prop := prot_t t e \/ g_pc t = GSlow (Some e).
Definition prot (thr : list gthread) (e : nat) : Prop := exists i t, nth_error thr i = Some t /\ prot_t t e.
Definition hd (thr : list gthread) (e : nat) : Prop := exists i t, nth_error thr i = Some t /\ holds_e t e.

(* the endpoint a creator has built and not yet published *)
Definition fresh_ok (eps : list uep) (hand : list (nat * nat)) (k e : nat) : Prop :=
  exists u, nth_error eps e = Some u /\ u_key u = k /\ u_failed u = false /\ u_closed u = false /\ u_dead u = false
            /\ u_registered u = false /\ (forall x, In x hand -> snd x <> e).

Definition tc (pl : nat -> option nat) (eps : list uep) (lock : nat -> option nat) (hand : list (nat * nat))
           (i : nat) (t : gthread) : Prop :=
  match g_pc t with
  | GSlow oe => lock (g_k t) = Some i /\ pl (g_k t) = None
                /\ match oe with Some e => exists u, nth_error eps e = Some u /\ u_key u = g_k t | None => True end
  | GHaveGen e | GBeforePublish e => lock (g_k t) = Some i /\ pl (g_k t) = None /\ fresh_ok eps hand (g_k t) e
  | GBeforeRegister e => lock (g_k t) = Some i
                         /\ exists u, nth_error eps e = Some u /\ u_key u = g_k t /\ u_failed u = false
  | _ => True
  end.

Definition FIc (pl : nat -> option nat) (eps : list uep) (thr : list gthread) (lock : nat -> option nat)
           (hand : list (nat * nat)) : Prop :=
  (forall k e, pl k = Some e ->
     exists u, nth_error eps e = Some u /\ u_key u = k /\ u_closed u = false /\ u_dead u = false)
  /\ (forall e u, nth_error eps e = Some u ->
        u_conn_closes u = (if u_failed u then 0 else if u_closed u then 1 else 0))
  /\ (forall e u, nth_error eps e = Some u -> u_closed u = false -> pl (u_key u) = Some e \/ hd thr e)
  /\ (forall i t, nth_error thr i = Some t -> tc pl eps lock hand i t)
  /\ (forall x, In x hand -> snd x < length eps).

Definition FI (s : fstate) : Prop := FIc (p_pool (f_p s)) (p_eps (f_p s)) (f_thr s) (f_lock s) (f_hand s).

Definition locked (t : gthread) : Prop :=
  match g_pc t with GSlow _ | GHaveGen _ | GBeforePublish _ | GBeforeRegister _ => True | _ => False end.

Lemma tc_lock pl eps lock hand i t : tc pl eps lock hand i t -> locked t -> lock (g_k t) = Some i.
Proof. unfold tc, locked. destruct (g_pc t); intros H L; try contradiction; apply H. Qed.

Lemma prot_facts pl eps thr lock hand e :
  FIc pl eps thr lock hand -> prot thr e ->
  exists i t, nth_error thr i = Some t /\ prot_t t e /\ lock (g_k t) = Some i /\ pl (g_k t) = None
              /\ fresh_ok eps hand (g_k t) e.
Proof.
  intros (_ & _ & _ & T & _) (i & t & Ht & Hp). exists i, t. specialize (T i t Ht). unfold tc in T.
  destruct Hp as [Hp|Hp]; rewrite Hp in T; destruct T as (T1 & T2 & T3); repeat split; auto; [left|right]; auto.
Qed.

Lemma not_prot_pool pl eps thr lock hand e u :
  FIc pl eps thr lock hand -> nth_error eps e = Some u -> pl (u_key u) = Some e -> ~ prot thr e.
Proof.
  intros H Hn Hp Hpr. destruct (prot_facts _ _ _ _ _ _ H Hpr) as (i & t & _ & _ & _ & Hpl & (u0 & H0 & K & _)).
  rewrite Hn in H0; inversion H0; subst u0. congruence.
Qed.

Lemma not_prot_hand pl eps thr lock hand x :
  FIc pl eps thr lock hand -> In x hand -> ~ prot thr (snd x).
Proof.
  intros H Hin Hpr. destruct (prot_facts _ _ _ _ _ _ H Hpr) as (i & t & _ & _ & _ & _ & (u0 & _ & _ & _ & _ & _ & _ & Hh)).
  exact (Hh x Hin eq_refl).
Qed.

Lemma not_prot_reg pl eps thr lock hand e u :
  FIc pl eps thr lock hand -> nth_error eps e = Some u -> u_registered u = true -> ~ prot thr e.
Proof.
  intros H Hn Hr Hpr. destruct (prot_facts _ _ _ _ _ _ H Hpr) as (i & t & _ & _ & _ & _ & (u0 & H0 & _ & _ & _ & _ & R & _)).
  rewrite Hn in H0; inversion H0; subst u0. congruence.
Qed.

(* an endpoint of key k is not protected by anybody else while thread i holds the creation lock of k *)
Lemma not_prot_lock pl eps thr lock hand i t e u :
  FIc pl eps thr lock hand -> nth_error thr i = Some t -> lock (g_k t) = Some i -> ~ prot_t t e ->
  nth_error eps e = Some u -> u_key u = g_k t -> ~ prot thr e.
Proof.
  intros H Ht Hl Hnp Hn K Hpr.
  destruct (prot_facts _ _ _ _ _ _ H Hpr) as (j & tj & Hj & Hp & Lj & _ & (u0 & H0 & K0 & _)).
  rewrite Hn in H0; inversion H0; subst u0. rewrite K in K0. rewrite <- K0 in Lj. rewrite Hl in Lj.
  inversion Lj; subst j. rewrite Ht in Hj; inversion Hj; subst tj. contradiction.
Qed.

(* ------------------------------------------------------------------------------------------ *)
(* one endpoint record changes, threads fixed                                                   *)
(* ------------------------------------------------------------------------------------------ *)
Lemma FI_upd1 pl pl' eps thr lock hand e u u' :
  FIc pl eps thr lock hand ->
  nth_error eps e = Some u ->
  u_key u' = u_key u -> u_failed u' = u_failed u ->
  u_conn_closes u' = (if u_failed u' then 0 else if u_closed u' then 1 else 0) ->
  (forall k, pl' k = pl k \/ (pl k = Some e /\ pl' k = None /\ u_closed u' = true)) ->
  ((u_closed u' = u_closed u /\ u_dead u' = u_dead u) \/ (u_closed u' = true /\ pl' (u_key u) <> Some e)) ->
  (prot thr e -> u_closed u' = u_closed u /\ u_dead u' = u_dead u /\ u_registered u' = u_registered u) ->
  FIc pl' (upd eps e u') thr lock hand.
Proof.
  intros H Hn K F C P Q1 Q2. pose proof H as (A & B1 & B2 & T & Hh).
  assert (N : forall e0, nth_error (upd eps e u') e0 = if e0 =? e then Some u' else nth_error eps e0).
  { intros e0. rewrite nth_error_upd, Hn. reflexivity. }
  split; [|split; [|split; [|split]]].
  - intros k e0 Hk. destruct (P k) as [Pk|(Pk&Pk'&_)]; [|congruence].
    assert (Hk0 : pl k = Some e0) by congruence.
    destruct (A k e0 Hk0) as (u0&H0&H1&H2&H3). rewrite N.
    destruct (e0 =? e) eqn:E; [|exists u0; auto].
    apply Nat.eqb_eq in E; subst e0. rewrite Hn in H0; inversion H0; subst u0.
    exists u'. split; [reflexivity|]. destruct Q1 as [(Qc&Qd)|(Qc&Qp)].
    + repeat split; congruence.
    + exfalso. apply Qp. congruence.
  - intros e0 u0. rewrite N. destruct (e0 =? e) eqn:E; [|apply B1].
    intros H0; inversion H0; subst u0. exact C.
  - intros e0 u0. rewrite N. destruct (e0 =? e) eqn:E.
    + apply Nat.eqb_eq in E; subst e0. intros H0 Hc; inversion H0; subst u0.
      destruct Q1 as [(Qc&Qd)|(Qc&Qp)]; [|congruence].
      destruct (B2 e u Hn) as [Hp|Hd]; [congruence| |right; exact Hd].
      rewrite K. destruct (P (u_key u)) as [Pk|(_&_&Pk)]; [left; congruence|congruence].
    + apply Nat.eqb_neq in E. intros H0 Hc. destruct (B2 e0 u0 H0 Hc) as [Hp|Hd]; [|right; exact Hd].
      destruct (P (u_key u0)) as [Pk|(Pk&_)]; [left; congruence|]. rewrite Hp in Pk; inversion Pk; contradiction.
  - intros j tj Hj. specialize (T j tj Hj). unfold tc in *.
    assert (PN : pl (g_k tj) = None -> pl' (g_k tj) = None).
    { intros X. destruct (P (g_k tj)) as [Pk|(_&Pk&_)]; congruence. }
    assert (FR : forall e0, prot_t tj e0 -> fresh_ok eps hand (g_k tj) e0 -> fresh_ok (upd eps e u') hand (g_k tj) e0).
    { intros e0 Hp (u0 & H0 & X1 & X2 & X3 & X4 & X5 & X6). unfold fresh_ok. rewrite N.
      destruct (e0 =? e) eqn:E; [|exists u0; repeat split; auto].
      apply Nat.eqb_eq in E; subst e0. rewrite Hn in H0; inversion H0; subst u0.
      destruct Q2 as (Y1 & Y2 & Y3); [exists j, tj; auto|].
      exists u'. repeat split; auto; congruence. }
    destruct (g_pc tj) as [| |oe|e0|e0|e0|r] eqn:Epc; auto.
    + destruct T as (T1 & T2 & T3). repeat split; auto. destruct oe as [e0|]; auto.
      destruct T3 as (u0 & H0 & X1). rewrite N. destruct (e0 =? e) eqn:E; [|exists u0; auto].
      apply Nat.eqb_eq in E; subst e0. rewrite Hn in H0; inversion H0; subst u0. exists u'. split; congruence.
    + destruct T as (T1 & T2 & T3). repeat split; auto. apply FR; auto. left; exact Epc.
    + destruct T as (T1 & T2 & T3). repeat split; auto. apply FR; auto. right; exact Epc.
    + destruct T as (T1 & u0 & H0 & X1 & X2). split; auto. rewrite N. destruct (e0 =? e) eqn:E; [|exists u0; auto].
      apply Nat.eqb_eq in E; subst e0. rewrite Hn in H0; inversion H0; subst u0. exists u'. repeat split; congruence.
  - intros x Hx. rewrite upd_length. auto.
Qed.

Lemma FI_ext pl pl' eps thr lock hand :
  (forall k, pl' k = pl k) -> FIc pl eps thr lock hand -> FIc pl' eps thr lock hand.
Proof.
  intros E H. destruct eps as [|u0 r] eqn:Eeps.
  - destruct H as (A & B1 & B2 & T & Hh). split; [|split; [|split; [|split]]].
    + intros k e Hk. rewrite E in Hk. destruct (A k e Hk) as (u & Hu & _). destruct e; discriminate.
    + intros [|e] u Hu; discriminate.
    + intros [|e] u Hu; discriminate.
    + intros i t Ht. specialize (T i t Ht). unfold tc, fresh_ok in *. rewrite E.
      destruct (g_pc t); auto.
    + exact Hh.
  - rewrite <- Eeps in *. assert (Hn : nth_error eps 0 = Some u0) by (rewrite Eeps; reflexivity).
    rewrite <- (upd_same eps 0 u0 Hn).
    destruct H as (A & B1 & B2 & T & Hh).
    eapply FI_upd1 with (u := u0) (pl := pl); eauto.
    split; [|split; [|split; [|split]]]; auto.
Qed.

Lemma FI_shape pl eps thr lock hand e u u' :
  FIc pl eps thr lock hand -> nth_error eps e = Some u -> same_shape u u' ->
  (prot thr e -> u_registered u' = u_registered u) ->
  FIc pl (upd eps e u') thr lock hand.
Proof.
  intros H Hn (K&F&C&D&N) R. pose proof H as (_ & B1 & _).
  apply (FI_upd1 pl pl eps thr lock hand e u u' H Hn); auto.
  rewrite N, F, C. apply (B1 e u Hn).
Qed.

(* Close *)
Definition closed_eps (eps : list uep) (e : nat) : list uep :=
  match nth_error eps e with
  | Some u => if u_closed u then eps
              else upd eps e (u_with_close u (if u_failed u then u_conn_closes u else S (u_conn_closes u)))
  | None => eps
  end.

Lemma ep_close_spec p e :
  p_pool (ep_close p e) = p_pool p /\ p_eps (ep_close p e) = closed_eps (p_eps p) e
  /\ p_epoch (ep_close p e) = p_epoch p /\ p_handles (ep_close p e) = p_handles p /\ p_now (ep_close p e) = p_now p.
Proof.
  unfold ep_close, closed_eps. destruct (nth_error (p_eps p) e) as [u|]; [|repeat split].
  destruct (u_closed u); [repeat split|].
  destruct (close_tail_core p u) as (P1&P2&P3&P4&P5&P6).
  unfold set_ep, set_eps. cbn [p_pool p_eps p_epoch p_handles p_now]. rewrite P1, P2, P3, P4, P6. repeat split.
Qed.

Lemma closed_eps_closed eps e u :
  nth_error eps e = Some u -> exists u', nth_error (closed_eps eps e) e = Some u' /\ u_closed u' = true.
Proof.
  intros Hn. unfold closed_eps. rewrite Hn. destruct (u_closed u) eqn:Hc.
  - exists u; auto.
  - eexists. rewrite (nth_upd_this _ _ _ _ Hn). split; reflexivity.
Qed.

Lemma FI_close_gen pl pl' eps thr lock hand e u :
  FIc pl eps thr lock hand -> nth_error eps e = Some u -> ~ prot thr e ->
  (forall k, pl' k = pl k \/ (pl k = Some e /\ pl' k = None)) -> pl' (u_key u) <> Some e ->
  FIc pl' (closed_eps eps e) thr lock hand.
Proof.
  intros H Hn Np P Hp. pose proof H as (A & B1 & _). unfold closed_eps. rewrite Hn.
  destruct (u_closed u) eqn:Hc.
  - rewrite <- (upd_same eps e u Hn).
    apply (FI_upd1 pl pl' eps thr lock hand e u u H Hn); auto.
    + apply (B1 e u Hn).
    + intros k. destruct (P k) as [X|(X&Y)]; auto.
  - apply (FI_upd1 pl pl' eps thr lock hand e u _ H Hn); auto.
    + cbn. rewrite (B1 e u Hn), Hc. destruct (u_failed u); reflexivity.
    + intros k. destruct (P k) as [X|(X&Y)]; auto.
    + intros X; contradiction.
Qed.

(* retire *)
Definition retire_pool (pl : nat -> option nat) (u : uep) (e : nat) : nat -> option nat :=
  if opt_is (pl (u_key u)) e then fset pl (u_key u) None else pl.

Lemma retire_pool_facts pl u e :
  (forall k, retire_pool pl u e k = pl k \/ (pl k = Some e /\ retire_pool pl u e k = None))
  /\ retire_pool pl u e (u_key u) <> Some e.
Proof.
  unfold retire_pool, opt_is. destruct (pl (u_key u)) as [e0|] eqn:Hk.
  - destruct (e0 =? e) eqn:E.
    + apply Nat.eqb_eq in E; subst e0. split.
      * intros k. unfold fset. destruct (k =? u_key u) eqn:Ek; auto. apply Nat.eqb_eq in Ek; subst k. auto.
      * unfold fset. rewrite Nat.eqb_refl. discriminate.
    + apply Nat.eqb_neq in E. split; auto. rewrite Hk. intros X; inversion X; contradiction.
  - split; auto. rewrite Hk; discriminate.
Qed.

Lemma ep_retire_spec p e u :
  nth_error (p_eps p) e = Some u ->
  p_pool (ep_retire p e) = retire_pool (p_pool p) u e
  /\ p_eps (ep_retire p e) = upd (p_eps p) e (if u_closed u then u_with_dead u
                                              else u_with_close (u_with_dead u) (if u_failed u then u_conn_closes u else S (u_conn_closes u)))
  /\ p_epoch (ep_retire p e) = p_epoch p /\ p_handles (ep_retire p e) = p_handles p /\ p_now (ep_retire p e) = p_now p.
Proof.
  intros Hn. unfold ep_retire. rewrite Hn.
  set (s1 := set_ep p e (u_with_dead u)).
  set (s2 := if opt_is (p_pool s1 (u_key u)) e then set_pool s1 (fset (p_pool s1) (u_key u) None) else s1).
  destruct (ep_close_spec s2 e) as (C1 & C2 & C3 & C4 & C5). rewrite C1, C2, C3, C4, C5.
  assert (E2 : p_eps s2 = upd (p_eps p) e (u_with_dead u)).
  { unfold s2. destruct (opt_is (p_pool s1 (u_key u)) e); reflexivity. }
  assert (P2 : p_pool s2 = retire_pool (p_pool p) u e).
  { unfold s2, retire_pool. change (p_pool s1) with (p_pool p). destruct (opt_is (p_pool p (u_key u)) e); reflexivity. }
  assert (O2 : p_epoch s2 = p_epoch p /\ p_handles s2 = p_handles p /\ p_now s2 = p_now p).
  { unfold s2. destruct (opt_is (p_pool s1 (u_key u)) e); repeat split. }
  destruct O2 as (O1 & O2 & O3). rewrite E2, P2, O1, O2, O3. repeat split.
  unfold closed_eps. rewrite (nth_upd_this _ _ _ _ Hn). cbn [u_closed u_with_dead u_failed u_conn_closes].
  destruct (u_closed u); [reflexivity|]. apply upd_upd.
Qed.

Lemma FI_retire p thr lock hand e :
  FIc (p_pool p) (p_eps p) thr lock hand -> ~ prot thr e ->
  FIc (p_pool (ep_retire p e)) (p_eps (ep_retire p e)) thr lock hand.
Proof.
  intros H Np. destruct (nth_error (p_eps p) e) as [u|] eqn:Hn.
  2:{ unfold ep_retire. rewrite Hn. exact H. }
  destruct (ep_retire_spec p e u Hn) as (P & E & _). rewrite P, E.
  destruct (retire_pool_facts (p_pool p) u e) as (R1 & R2).
  pose proof H as (A & B1 & _).
  destruct (u_closed u) eqn:Hc.
  - apply (FI_upd1 _ _ _ _ _ _ e u _ H Hn); auto.
    + cbn. rewrite Hc. rewrite (B1 e u Hn), Hc. reflexivity.
    + intros k. destruct (R1 k) as [X|(X&Y)]; auto.
    + intros X; contradiction.
  - apply (FI_upd1 _ _ _ _ _ _ e u _ H Hn); auto.
    + cbn. rewrite (B1 e u Hn), Hc. destruct (u_failed u); reflexivity.
    + intros k. destruct (R1 k) as [X|(X&Y)]; auto.
    + intros X; contradiction.
Qed.

(* ------------------------------------------------------------------------------------------ *)
(* the atomic calls of other goroutines (FOp)                                                   *)
(* ------------------------------------------------------------------------------------------ *)
Lemma FI_fold thr lock hand (f : pstate -> nat -> pstate) :
  (forall s e, FIc (p_pool s) (p_eps s) thr lock hand -> FIc (p_pool (f s e)) (p_eps (f s e)) thr lock hand) ->
  forall l s, FIc (p_pool s) (p_eps s) thr lock hand ->
              FIc (p_pool (fold_left f l s)) (p_eps (fold_left f l s)) thr lock hand.
Proof. intros Hf l. induction l as [|x r IH]; intros s H; cbn; auto. Qed.

Lemma FI_remove_close p thr lock hand e u :
  FIc (p_pool p) (p_eps p) thr lock hand -> nth_error (p_eps p) e = Some u -> opt_is (p_pool p (u_key u)) e = true ->
  FIc (p_pool (ep_close (set_pool p (fset (p_pool p) (u_key u) None)) e))
      (p_eps (ep_close (set_pool p (fset (p_pool p) (u_key u) None)) e)) thr lock hand.
Proof.
  intros H Hn Ho. destruct (ep_close_spec (set_pool p (fset (p_pool p) (u_key u) None)) e) as (C1 & C2 & _).
  rewrite C1, C2. cbn [p_pool p_eps set_pool].
  assert (Hp : p_pool p (u_key u) = Some e).
  { unfold opt_is in Ho. destruct (p_pool p (u_key u)) as [e0|]; [|discriminate]. apply Nat.eqb_eq in Ho. congruence. }
  apply (FI_close_gen (p_pool p) _ _ _ _ _ e u H Hn).
  - eapply not_prot_pool; eauto.
  - intros k. unfold fset. destruct (k =? u_key u) eqn:Ek; auto. apply Nat.eqb_eq in Ek; subst k. right; auto.
  - unfold fset. rewrite Nat.eqb_refl. discriminate.
Qed.

Lemma FI_map pl eps thr lock hand (f : uep -> uep) :
  (forall u, u_key (f u) = u_key u /\ u_failed (f u) = u_failed u /\ u_closed (f u) = u_closed u /\ u_dead (f u) = u_dead u
             /\ u_conn_closes (f u) = u_conn_closes u /\ (u_registered u = false -> u_registered (f u) = false)) ->
  FIc pl eps thr lock hand -> FIc pl (map f eps) thr lock hand.
Proof.
  intros Hf (A & B1 & B2 & T & Hh).
  assert (N : forall e u', nth_error (map f eps) e = Some u' -> exists u, nth_error eps e = Some u /\ u' = f u).
  { intros e u'. rewrite nth_error_map. destruct (nth_error eps e) as [u|]; cbn; [|discriminate].
    intros X; inversion X. eauto. }
  assert (N2 : forall e u, nth_error eps e = Some u -> nth_error (map f eps) e = Some (f u)).
  { intros e u X. rewrite nth_error_map, X. reflexivity. }
  split; [|split; [|split; [|split]]].
  - intros k e Hk. destruct (A k e Hk) as (u & H0 & H1 & H2 & H3). exists (f u).
    destruct (Hf u) as (F1&F2&F3&F4&F5&F6). rewrite (N2 _ _ H0). repeat split; congruence.
  - intros e u' Hu. destruct (N e u' Hu) as (u & H0 & ->). destruct (Hf u) as (F1&F2&F3&F4&F5&F6).
    rewrite F5, F2, F3. eapply B1; eauto.
  - intros e u' Hu Hc. destruct (N e u' Hu) as (u & H0 & ->). destruct (Hf u) as (F1&F2&F3&F4&F5&F6).
    rewrite F1. apply (B2 e u H0). congruence.
  - intros j tj Hj. specialize (T j tj Hj). unfold tc in *.
    assert (FR : forall e0, fresh_ok eps hand (g_k tj) e0 -> fresh_ok (map f eps) hand (g_k tj) e0).
    { intros e0 (u0 & H0 & X1 & X2 & X3 & X4 & X5 & X6). destruct (Hf u0) as (F1&F2&F3&F4&F5&F6).
      exists (f u0). rewrite (N2 _ _ H0). repeat split; auto; congruence. }
    destruct (g_pc tj) as [| |oe|e0|e0|e0|r]; auto.
    + destruct T as (T1&T2&T3). repeat split; auto. destruct oe as [e0|]; auto.
      destruct T3 as (u0&H0&X1). exists (f u0). destruct (Hf u0) as (F1&_). rewrite (N2 _ _ H0). split; congruence.
    + destruct T as (T1&T2&T3). repeat split; auto.
    + destruct T as (T1&T2&T3). repeat split; auto.
    + destruct T as (T1 & u0 & H0 & X1 & X2). split; auto. exists (f u0). destruct (Hf u0) as (F1&F2&_).
      rewrite (N2 _ _ H0). repeat split; congruence.
  - intros x Hx. rewrite map_length. auto.
Qed.

Lemma FI_fop s o : FI s -> FI (fstep s (FOp o)).
Proof.
  intros H. destruct s as [p thr lock hand inv]. unfold FI in *. cbn [f_p f_thr f_lock f_hand] in H.
  destruct o as [k d g out|h out|h t|d| | |dt|h]; cbn [fstep].
  - exact H.
  - cbn [f_p f_hand f_thr f_lock f_inval]. destruct (nth_error (p_handles p) h) as [e|] eqn:Hh; [|exact H].
    destruct (existsb (fun x => snd x =? e) hand) eqn:Hex; [|exact H].
    apply existsb_exists in Hex. destruct Hex as (x & Hin & Hx). apply Nat.eqb_eq in Hx.
    assert (Np : ~ prot thr e). { rewrite <- Hx. eapply not_prot_hand; eauto. }
    cbn [f_p f_thr f_lock f_hand pstep]. rewrite Hh.
    destruct (nth_error (p_eps p) e) as [u|] eqn:Hn; [|exact H].
    destruct (u_dead u); [exact H|].
    assert (H1 : FIc (p_pool p) (upd (p_eps p) e (u_with_exp u (p_now p + nat_timeout))) thr lock hand).
    { eapply FI_shape; eauto. repeat split. }
    destruct ((0 <? u_conn_closes u) || (out =? 1)); cbn [fst].
    + apply FI_retire; [exact H1|exact Np].
    + cbn [set_ep set_eps p_pool p_eps]. eapply FI_shape; eauto. repeat split.
  - cbn [f_p f_hand f_thr f_lock f_inval]. destruct (nth_error (p_handles p) h) as [e|] eqn:Hh; [|exact H].
    destruct (existsb (fun x => snd x =? e) hand) eqn:Hex; [|exact H].
    cbn [f_p f_thr f_lock f_hand pstep]. rewrite Hh.
    destruct (nth_error (p_eps p) e) as [u|] eqn:Hn; [|exact H].
    destruct (u_cs_closed u); [exact H|]. cbn [fst retain_all set_tr set_ep set_eps p_pool p_eps].
    eapply FI_shape; eauto. repeat split.
  - cbn [f_p f_hand f_thr f_lock f_inval pstep fst]. apply FI_fold.
    + intros s0 e H0. destruct (nth_error (p_eps s0) e) as [u|] eqn:Hn; auto.
      destruct (u_registered u && (u_dialer u =? d) && negb (survives u)) eqn:Hc; auto.
      apply FI_retire; auto. apply andb_true_iff in Hc. destruct Hc as (Hc & _). apply andb_true_iff in Hc.
      destruct Hc as (Hc & _). eapply not_prot_reg; eauto.
    + exact H.
  - cbn [f_p f_hand f_thr f_lock f_inval pstep fst].
    set (s1 := fold_left _ _ p).
    assert (H1 : FIc (p_pool s1) (p_eps s1) thr lock hand).
    { unfold s1. apply FI_fold; auto.
      intros s0 e H0. destruct (nth_error (p_eps s0) e) as [u|] eqn:Hn; auto.
      destruct (opt_is (p_pool s0 (u_key u)) e) eqn:Ho; auto.
      apply FI_remove_close; auto. }
    cbn [p_pool p_eps]. apply FI_map; auto.
    intros u. cbn. repeat split.
  - cbn [f_p f_hand f_thr f_lock f_inval pstep fst]. apply FI_fold; auto.
    intros s0 e H0. destruct (nth_error (p_eps s0) e) as [u|] eqn:Hn; auto.
    destruct (opt_is (p_pool s0 (u_key u)) e) eqn:Ho; cbn [andb]; auto.
    destruct (is_expired u (p_now s0) || negb (gen_current s0 u) && negb (survives u)); auto.
    apply FI_remove_close; auto.
  - exact H.
  - (* Remove(own key, handle) by a caller that holds the handle *)
    cbn [f_p f_hand f_thr f_lock f_inval]. destruct (nth_error (p_handles p) h) as [e|] eqn:Hh; [|exact H].
    destruct (existsb (fun x => snd x =? e) hand) eqn:Hex; [|exact H].
    apply existsb_exists in Hex. destruct Hex as (x & Hin & Hx). apply Nat.eqb_eq in Hx.
    assert (Np : ~ prot thr e). { rewrite <- Hx. eapply not_prot_hand; eauto. }
    cbn [f_p f_thr f_lock f_hand pstep fst]. change C13_Consts.remove_checks_identity with true.
    unfold ep_remove. rewrite Hh.
    destruct (nth_error (p_eps p) e) as [u|] eqn:Hn; [|exact H].
    destruct (opt_is (p_pool p (u_key u)) e) eqn:Ho.
    + apply FI_remove_close; auto.
    + destruct (ep_close_spec p e) as (C1 & C2 & _). rewrite C1, C2.
      eapply FI_close_gen; eauto.
      intros Hp. unfold opt_is in Ho. rewrite Hp, Nat.eqb_refl in Ho. discriminate.
Qed.

(* ------------------------------------------------------------------------------------------ *)
(* steps of a GetOrCreate caller                                                                *)
(* ------------------------------------------------------------------------------------------ *)
Lemma hd_upd thr i t t' e :
  nth_error thr i = Some t -> hd thr e -> (holds_e t e -> holds_e t' e) -> hd (upd thr i t') e.
Proof.
  intros Ht (j & tj & Hj & Hh) Hk. destruct (Nat.eq_dec j i) as [->|Ne].
  - rewrite Ht in Hj; inversion Hj; subst tj. exists i, t'. split; auto. eapply nth_upd_this; eauto.
  - exists j, tj. split; auto. rewrite nth_upd_other; auto.
Qed.

Lemma hd_new thr i t t' e : nth_error thr i = Some t -> holds_e t' e -> hd (upd thr i t') e.
Proof. intros Ht Hh. exists i, t'. split; auto. eapply nth_upd_this; eauto. Qed.

Lemma hd_facts pl eps thr lock hand e :
  FIc pl eps thr lock hand -> hd thr e ->
  exists j tj, nth_error thr j = Some tj /\ holds_e tj e /\ lock (g_k tj) = Some j /\ pl (g_k tj) = None
               /\ exists u, nth_error eps e = Some u /\ u_key u = g_k tj.
Proof.
  intros (_ & _ & _ & T & _) (j & tj & Hj & Hh). exists j, tj. specialize (T j tj Hj). unfold tc in T.
  destruct Hh as [[Hp|Hp]|Hp]; rewrite Hp in T.
  - destruct T as (T1 & T2 & (u & H0 & K & _)). repeat split; auto; [left; left; auto|eauto].
  - destruct T as (T1 & T2 & (u & H0 & K & _)). repeat split; auto; [left; right; auto|eauto].
  - destruct T as (T1 & T2 & (u & H0 & K)). repeat split; auto; [right; auto|eauto].
Qed.

Lemma tc_frame pl pl' eps eps' lock lock' hand hand' j tj :
  tc pl eps lock hand j tj ->
  (forall e u, nth_error eps e = Some u -> nth_error eps' e = Some u) ->
  (lock (g_k tj) = Some j -> lock' (g_k tj) = Some j) ->
  (lock (g_k tj) = Some j -> pl (g_k tj) = None -> pl' (g_k tj) = None) ->
  (forall e x, prot_t tj e -> In x hand' -> In x hand \/ snd x <> e) ->
  tc pl' eps' lock' hand' j tj.
Proof.
  unfold tc. intros T N L P Hd.
  assert (FR: forall e0, prot_t tj e0 -> fresh_ok eps hand (g_k tj) e0 -> fresh_ok eps' hand' (g_k tj) e0).
  { intros e0 Hp (u0 & H0 & X1 & X2 & X3 & X4 & X5 & X6). exists u0. repeat split; auto.
    intros x Hx. destruct (Hd e0 x Hp Hx) as [Y|Y]; auto. }
  destruct (g_pc tj) as [| |oe|e0|e0|e0|r] eqn:Epc; auto.
  - destruct T as (T1&T2&T3). repeat split; auto. destruct oe as [e0|]; auto.
    destruct T3 as (u0 & H0 & X). exists u0; auto.
  - destruct T as (T1&T2&T3). repeat split; auto. apply FR; auto. left; exact Epc.
  - destruct T as (T1&T2&T3). repeat split; auto. apply FR; auto. right; exact Epc.
  - destruct T as (T1&u0&H0&X). split; auto. exists u0. split; auto.
Qed.

Definition nolock (t : gthread) : Prop := match g_pc t with GStart | GWaitLock | GDone _ => True | _ => False end.

Lemma nolock_holds t e : nolock t -> ~ holds_e t e.
Proof. unfold nolock, holds_e, prot_t. intros N [[X|X]|X]; rewrite X in N; exact N. Qed.

(* the caller returns (or moves to a pc without the creation lock) *)
Lemma FI_done pl eps thr lock lock' hand hand' i t t' :
  FIc pl eps thr lock hand -> nth_error thr i = Some t -> nolock t' ->
  (forall e u, holds_e t e -> nth_error eps e = Some u -> u_closed u = true) ->
  (forall k0, lock' k0 = lock k0 \/ lock k0 = Some i) ->
  (forall x, In x hand' -> In x hand \/ (~ prot thr (snd x) /\ snd x < length eps)) ->
  FIc pl eps (upd thr i t') lock' hand'.
Proof.
  intros H Ht Nl Hc Hl Hd. pose proof H as (A & B1 & B2 & T & Hh).
  split; [|split; [|split; [|split]]]; auto.
  - intros e u Hn Hcl. destruct (B2 e u Hn Hcl) as [X|X]; auto. right. eapply hd_upd; eauto.
    intros Hh'. specialize (Hc e u Hh' Hn). congruence.
  - intros j tj Hj. apply nth_upd_cases in Hj. destruct Hj as [(-> & ->)|(Ne & Hj)].
    + unfold tc, nolock in *. destruct (g_pc t'); auto; contradiction.
    + specialize (T j tj Hj). eapply tc_frame; eauto.
      * intros L. destruct (Hl (g_k tj)) as [X|X]; congruence.
      * intros e x Hp Hx. destruct (Hd x Hx) as [Y|(Y&_)]; auto. right. intros E. apply Y. rewrite E. exists j, tj. auto.
  - intros x Hx. destruct (Hd x Hx) as [Y|(_&Y)]; auto.
Qed.

Lemma FI_step_nolock pl eps thr lock hand i t t' :
  FIc pl eps thr lock hand -> nth_error thr i = Some t -> nolock t -> nolock t' ->
  FIc pl eps (upd thr i t') lock hand.
Proof.
  intros H Ht N N'. eapply FI_done; eauto.
  intros e u Hh. destruct (nolock_holds t e N Hh).
Qed.

(* createMu acquired, the stale entry (if any) leaves the map *)
Lemma FI_lock pl pl' eps thr lock hand i t t' oe :
  FIc pl eps thr lock hand -> nth_error thr i = Some t -> nolock t -> lock (g_k t) = None ->
  g_k t' = g_k t -> g_pc t' = GSlow oe ->
  (forall k0, k0 <> g_k t -> pl' k0 = pl k0) -> pl' (g_k t) = None ->
  match oe with Some e => pl (g_k t) = Some e | None => pl (g_k t) = None end ->
  FIc pl' eps (upd thr i t') (fset lock (g_k t) (Some i)) hand.
Proof.
  intros H Ht Nl Hl Hk Hpc Po Pk Hoe. pose proof H as (A & B1 & B2 & T & Hh).
  split; [|split; [|split; [|split]]]; auto.
  - intros k e Hke. destruct (Nat.eq_dec k (g_k t)) as [->|Ne]; [congruence|]. rewrite Po in Hke by auto. auto.
  - intros e u Hn Hcl. destruct (B2 e u Hn Hcl) as [X|X].
    + destruct (Nat.eq_dec (u_key u) (g_k t)) as [Ek|Ne].
      * right. rewrite Ek in X. destruct oe as [e0|]; [|congruence]. assert (e0 = e) by congruence. subst e0.
        eapply hd_new; eauto. right. exact Hpc.
      * left. rewrite Po; auto.
    + right. eapply hd_upd; eauto. intros Y. destruct (nolock_holds t e Nl Y).
  - intros j tj Hj. apply nth_upd_cases in Hj. destruct Hj as [(-> & ->)|(Ne & Hj)].
    + unfold tc. rewrite Hpc, Hk. unfold fset. rewrite Nat.eqb_refl. repeat split; auto.
      destruct oe as [e|]; auto. destruct (A _ _ Hoe) as (u & H0 & H1 & _). exists u; auto.
    + specialize (T j tj Hj). eapply tc_frame; eauto.
      * intros L. unfold fset. destruct (g_k tj =? g_k t) eqn:E; auto. apply Nat.eqb_eq in E. congruence.
      * intros L Pn. destruct (Nat.eq_dec (g_k tj) (g_k t)) as [E|E]; [congruence|]. rewrite Po; auto.
Qed.

(* shard.pool[key] = ue *)
Lemma FI_publish pl eps thr lock hand i t t' e :
  FIc pl eps thr lock hand -> nth_error thr i = Some t -> g_pc t = GBeforePublish e ->
  g_k t' = g_k t -> g_pc t' = GBeforeRegister e ->
  FIc (fset pl (g_k t) (Some e)) eps (upd thr i t') lock hand.
Proof.
  intros H Ht Hpc Hk Hpc'. pose proof H as (A & B1 & B2 & T & Hh).
  pose proof (T i t Ht) as Ti. unfold tc in Ti. rewrite Hpc in Ti.
  destruct Ti as (L & Pn & (u & Hn & K & F & C & D & R & Hd)).
  split; [|split; [|split; [|split]]]; auto.
  - intros k e0. unfold fset. destruct (k =? g_k t) eqn:E; [|apply A].
    apply Nat.eqb_eq in E; subst k. intros X; inversion X; subst e0. exists u; auto.
  - intros e0 u0 Hn0 Hc0. unfold fset. destruct (u_key u0 =? g_k t) eqn:E.
    + apply Nat.eqb_eq in E. destruct (B2 e0 u0 Hn0 Hc0) as [X|X]; [congruence|].
      destruct (hd_facts _ _ _ _ _ _ H X) as (j & tj & Hj & Hhj & Lj & _ & (u1 & H1 & K1)).
      rewrite Hn0 in H1; inversion H1; subst u1. rewrite <- K1, E, L in Lj. inversion Lj; subst j.
      rewrite Ht in Hj; inversion Hj; subst tj. left. f_equal.
      destruct Hhj as [[Y|Y]|Y]; rewrite Hpc in Y; congruence.
    + destruct (B2 e0 u0 Hn0 Hc0) as [X|X]; auto. right. eapply hd_upd; eauto.
      intros [[Y|Y]|Y]; rewrite Hpc in Y; try discriminate. inversion Y; subst e0.
      rewrite Hn in Hn0; inversion Hn0; subst u0. rewrite K, Nat.eqb_refl in E. discriminate.
  - intros j tj Hj. apply nth_upd_cases in Hj. destruct Hj as [(-> & ->)|(Ne & Hj)].
    + unfold tc. rewrite Hpc', Hk. split; auto. exists u; auto.
    + specialize (T j tj Hj). eapply tc_frame; eauto.
      intros Lj Pj. unfold fset. destruct (g_k tj =? g_k t) eqn:E; auto. apply Nat.eqb_eq in E. congruence.
Qed.

Lemma FI_pc_same pl eps thr lock hand i t t' e :
  FIc pl eps thr lock hand -> nth_error thr i = Some t -> g_pc t = GHaveGen e ->
  g_k t' = g_k t -> g_pc t' = GBeforePublish e ->
  FIc pl eps (upd thr i t') lock hand.
Proof.
  intros H Ht Hpc Hk Hpc'. pose proof H as (A & B1 & B2 & T & Hh).
  split; [|split; [|split; [|split]]]; auto.
  - intros e0 u0 Hn0 Hc0. destruct (B2 e0 u0 Hn0 Hc0) as [X|X]; auto. right. eapply hd_upd; eauto.
    intros [[Y|Y]|Y]; rewrite Hpc in Y; try discriminate. inversion Y; subst e0. left; right; exact Hpc'.
  - intros j tj Hj. apply nth_upd_cases in Hj. destruct Hj as [(-> & ->)|(Ne & Hj)].
    + pose proof (T i t Ht) as Ti. unfold tc in *. rewrite Hpc in Ti. rewrite Hpc', Hk. exact Ti.
    + specialize (T j tj Hj). eapply tc_frame; eauto.
Qed.

Lemma nth_app_old {A} (l : list A) x e y : nth_error l e = Some y -> nth_error (l ++ [x]) e = Some y.
Proof. intros H. rewrite nth_error_app1; auto. apply nth_error_Some. congruence. Qed.

Lemma nth_app_cases {A} (l : list A) x e y :
  nth_error (l ++ [x]) e = Some y -> nth_error l e = Some y \/ (e = length l /\ y = x).
Proof.
  intros H. destruct (Nat.lt_ge_cases e (length l)) as [Hlt|Hge].
  - rewrite nth_error_app1 in H by auto. auto.
  - rewrite nth_error_app2 in H by auto. destruct (e - length l) as [|n] eqn:En; cbn in H.
    + inversion H. right. split; auto. lia.
    + destruct n; discriminate.
Qed.

Lemma nth_app_new {A} (l : list A) x : nth_error (l ++ [x]) (length l) = Some x.
Proof. rewrite nth_error_app2 by lia. rewrite Nat.sub_diag. reflexivity. Qed.

(* dial ok: the endpoint object exists, the creator holds it *)
Lemma FI_build pl eps thr lock hand i t t' oe u :
  FIc pl eps thr lock hand -> nth_error thr i = Some t -> g_pc t = GSlow oe ->
  (forall e u, holds_e t e -> nth_error eps e = Some u -> u_closed u = true) ->
  g_k t' = g_k t -> g_pc t' = GHaveGen (length eps) ->
  u_key u = g_k t -> u_failed u = false -> u_closed u = false -> u_dead u = false -> u_registered u = false ->
  u_conn_closes u = 0 ->
  FIc pl (eps ++ [u]) (upd thr i t') lock hand.
Proof.
  intros H Ht Hpc Hcl Hk Hpc' K F C D R N. pose proof H as (A & B1 & B2 & T & Hh).
  pose proof (T i t Ht) as Ti. unfold tc in Ti. rewrite Hpc in Ti. destruct Ti as (L & Pn & _).
  split; [|split; [|split; [|split]]].
  - intros k e Hke. destruct (A k e Hke) as (u0 & H0 & X). exists u0. split; auto. apply nth_app_old; auto.
  - intros e u0 H0. apply nth_app_cases in H0. destruct H0 as [H0|(-> & ->)]; [eapply B1; eauto|].
    rewrite N, F, C. reflexivity.
  - intros e u0 H0 Hc0. apply nth_app_cases in H0. destruct H0 as [H0|(-> & ->)].
    + destruct (B2 e u0 H0 Hc0) as [X|X]; auto. right. eapply hd_upd; eauto.
      intros Y. specialize (Hcl e u0 Y H0). congruence.
    + right. eapply hd_new; eauto. left; left; exact Hpc'.
  - intros j tj Hj. apply nth_upd_cases in Hj. destruct Hj as [(-> & ->)|(Ne & Hj)].
    + unfold tc. rewrite Hpc', Hk. repeat split; auto. exists u. rewrite nth_app_new. repeat split; auto.
      intros x Hx E. specialize (Hh x Hx). lia.
    + specialize (T j tj Hj). eapply tc_frame; eauto. intros e u0. apply nth_app_old.
  - intros x Hx. rewrite app_length. specialize (Hh x Hx). lia.
Qed.

(* dial error: cacheFailureLocked stores a marker, createMu released *)
Lemma FI_fail pl eps thr lock hand i t t' oe m :
  FIc pl eps thr lock hand -> nth_error thr i = Some t -> g_pc t = GSlow oe ->
  (forall e u, holds_e t e -> nth_error eps e = Some u -> u_closed u = true) ->
  nolock t' ->
  u_key m = g_k t -> u_failed m = true -> u_closed m = false -> u_dead m = false -> u_conn_closes m = 0 ->
  FIc (fset pl (g_k t) (Some (length eps))) (eps ++ [m]) (upd thr i t') (fset lock (g_k t) None) hand.
Proof.
  intros H Ht Hpc Hcl Nl K F C D N. pose proof H as (A & B1 & B2 & T & Hh).
  pose proof (T i t Ht) as Ti. unfold tc in Ti. rewrite Hpc in Ti. destruct Ti as (L & Pn & _).
  split; [|split; [|split; [|split]]].
  - intros k e. unfold fset. destruct (k =? g_k t) eqn:E.
    + apply Nat.eqb_eq in E; subst k. intros X; inversion X; subst e. exists m. rewrite nth_app_new. auto.
    + intros Hke. destruct (A k e Hke) as (u0 & H0 & X). exists u0. split; auto. apply nth_app_old; auto.
  - intros e u0 H0. apply nth_app_cases in H0. destruct H0 as [H0|(-> & ->)]; [eapply B1; eauto|].
    rewrite N, F. reflexivity.
  - intros e u0 H0 Hc0. apply nth_app_cases in H0. destruct H0 as [H0|(-> & ->)].
    + destruct (B2 e u0 H0 Hc0) as [X|X].
      * left. unfold fset. destruct (u_key u0 =? g_k t) eqn:E; auto. apply Nat.eqb_eq in E. congruence.
      * right. eapply hd_upd; eauto. intros Y. specialize (Hcl e u0 Y H0). congruence.
    + left. unfold fset. rewrite K, Nat.eqb_refl. reflexivity.
  - intros j tj Hj. apply nth_upd_cases in Hj. destruct Hj as [(-> & ->)|(Ne & Hj)].
    + unfold tc, nolock in *. destruct (g_pc t'); auto; contradiction.
    + specialize (T j tj Hj). eapply tc_frame; eauto.
      * intros e u0. apply nth_app_old.
      * intros Lj. unfold fset. destruct (g_k tj =? g_k t) eqn:E; auto. apply Nat.eqb_eq in E. congruence.
      * intros Lj Pj. unfold fset. destruct (g_k tj =? g_k t) eqn:E; auto. apply Nat.eqb_eq in E. congruence.
  - intros x Hx. rewrite app_length. specialize (Hh x Hx). lia.
Qed.

(* staleToClose.Close() *)
Lemma FI_close_stale p thr lock hand i t oe :
  FIc (p_pool p) (p_eps p) thr lock hand -> nth_error thr i = Some t -> g_pc t = GSlow oe ->
  let p1 := match oe with Some e => ep_close p e | None => p end in
  FIc (p_pool p1) (p_eps p1) thr lock hand
  /\ (forall e u, holds_e t e -> nth_error (p_eps p1) e = Some u -> u_closed u = true).
Proof.
  intros H Ht Hpc. pose proof H as (A & B1 & B2 & T & Hh).
  pose proof (T i t Ht) as Ti. unfold tc in Ti. rewrite Hpc in Ti. destruct Ti as (L & Pn & Ho).
  destruct oe as [e|]; cbn zeta.
  - destruct Ho as (u & Hn & K). destruct (ep_close_spec p e) as (C1 & C2 & _). rewrite C1, C2. split.
    + apply (FI_close_gen (p_pool p) _ _ _ _ _ e u H Hn); auto.
      * eapply not_prot_lock; eauto. intros [Y|Y]; rewrite Hpc in Y; discriminate.
      * congruence.
    + intros e0 u0 [[Y|Y]|Y]; rewrite Hpc in Y; try discriminate. inversion Y; subst e0.
      destruct (closed_eps_closed _ _ _ Hn) as (u' & H1 & H2). congruence.
  - split; auto. intros e0 u0 [[Y|Y]|Y]; rewrite Hpc in Y; discriminate.
Qed.

Lemma FI_reuse_stage p thr lock hand k e g u :
  FIc (p_pool p) (p_eps p) thr lock hand -> p_pool p k = Some e -> nth_error (p_eps p) e = Some u ->
  FIc (p_pool (fst (ep_reuse p e g u))) (p_eps (fst (ep_reuse p e g u))) thr lock hand
  /\ ~ prot thr e /\ e < length (p_eps (fst (ep_reuse p e g u))).
Proof.
  intros H Hk Hn. pose proof H as (A & _).
  destruct (A k e Hk) as (u0 & H0 & K & _). rewrite Hn in H0; inversion H0; subst u0.
  assert (Np : ~ prot thr e). { eapply not_prot_pool; eauto. congruence. }
  unfold ep_reuse. cbn [fst].
  set (s1 := set_ep p e (u_with_exp u (p_now p + nat_timeout))).
  assert (Hn1 : nth_error (p_eps s1) e = Some (u_with_exp u (p_now p + nat_timeout))).
  { unfold s1, set_ep, set_eps; cbn [p_eps]. eapply nth_upd_this; eauto. }
  assert (H1 : FIc (p_pool s1) (p_eps s1) thr lock hand).
  { unfold s1, set_ep, set_eps; cbn [p_pool p_eps]. eapply FI_shape; eauto. repeat split. }
  destruct (adopt_core_eps s1 e g) as (P & _ & _ & _ & _ & E).
  destruct (E _ Hn1) as (u' & Hs & _ & _ & _ & Eq). rewrite P, Eq. split; [|split; auto].
  - eapply FI_shape; eauto. intros X; contradiction.
  - rewrite upd_length. apply nth_error_Some. congruence.
Qed.

Lemma FI_fthr s i : FI s -> FI (fstep_thr s i).
Proof.
  intros H. destruct s as [p thr lock hnd inv]. unfold FI in *. cbn [f_p f_thr f_lock f_hand] in H.
  unfold fstep_thr. cbn [f_p f_thr f_lock f_hand f_inval].
  destruct (nth_error thr i) as [t|] eqn:Ht; [|exact H].
  pose proof H as (A & B1 & B2 & T & Hh).
  destruct t as [k d g out pc]. unfold set_gpc, hand, unlock. cbn [g_k g_d g_g g_out g_pc f_thr f_hand f_lock r_ret].
  assert (Reuse : forall e u, p_pool p k = Some e -> nth_error (p_eps p) e = Some u -> (pc = GStart \/ pc = GWaitLock) ->
            FIc (p_pool (fst (ep_reuse p e g u))) (p_eps (fst (ep_reuse p e g u)))
                (upd thr i (mkG k d g out (GDone (snd (ep_reuse p e g u))))) lock (hnd ++ [(i, e)])).
  { intros e u Hk Hn Hpc. destruct (FI_reuse_stage p thr lock hnd k e g u H Hk Hn) as (H1 & Np & Hl).
    eapply FI_done; eauto.
    - exact I.
    - intros e0 u0 Y. exfalso. revert Y. apply nolock_holds. unfold nolock; cbn. destruct Hpc as [-> | ->]; exact I.
    - intros x Hx. apply in_app_or in Hx. destruct Hx as [Hx|[<-|[]]]; auto. }
  destruct pc as [| |oe|e|e|e|r].
  - (* GStart *)
    destruct (p_pool p k) as [e|] eqn:Hk; [|eapply FI_step_nolock; eauto; exact I].
    destruct (nth_error (p_eps p) e) as [u|] eqn:Hn; [|eapply FI_step_nolock; eauto; exact I].
    destruct (u_failed u).
    + destruct (is_expired u (p_now p)); cbn [f_p f_thr f_lock f_hand]; eapply FI_step_nolock; eauto; exact I.
    + destruct (stale p u); [eapply FI_step_nolock; eauto; exact I|].
      specialize (Reuse e u eq_refl Hn (or_introl eq_refl)). exact Reuse.
  - (* GWaitLock *)
    destruct (lock k) as [j|] eqn:Hl; [exact H|].
    assert (Lk : forall e oe, p_pool p k = Some e -> oe = Some e ->
                 FIc (fset (p_pool p) k None) (p_eps p) (upd thr i (mkG k d g out (GSlow oe))) (fset lock k (Some i)) hnd).
    { intros e oe Hk ->. eapply (FI_lock (p_pool p) _ _ _ _ _ i (mkG k d g out GWaitLock) _ (Some e)); eauto; cbn [g_k g_pc];
        try exact I; try reflexivity; try exact Hk.
      - intros k0 Hne. unfold fset. apply Nat.eqb_neq in Hne. now rewrite Hne.
      - unfold fset. now rewrite Nat.eqb_refl. }
    destruct (p_pool p k) as [e|] eqn:Hk.
    + destruct (nth_error (p_eps p) e) as [u|] eqn:Hn.
      2:{ destruct (A k e Hk) as (u & H0 & _). congruence. }
      destruct (u_failed u).
      * destruct (is_expired u (p_now p)); cbn [f_p f_thr f_lock f_hand set_pool p_pool p_eps].
        -- eapply Lk; eauto.
        -- eapply FI_step_nolock; eauto; exact I.
      * destruct (stale p u); cbn [f_p f_thr f_lock f_hand set_pool p_pool p_eps].
        -- eapply Lk; eauto.
        -- specialize (Reuse e u eq_refl Hn (or_intror eq_refl)). exact Reuse.
    + cbn [f_p f_thr f_lock f_hand].
      eapply (FI_lock (p_pool p) _ _ _ _ _ i (mkG k d g out GWaitLock) _ None); eauto; cbn [g_k g_pc]; auto; exact I.
  - (* GSlow *)
    destruct (FI_close_stale p thr lock hnd i _ oe H Ht eq_refl) as (H1 & Hcl). cbn zeta in H1, Hcl.
    set (p1 := match oe with Some e => ep_close p e | None => p end) in *.
    pose proof (T i _ Ht) as Ti. unfold tc in Ti. cbn [g_pc g_k] in Ti. destruct Ti as (L & Pn & _).
    assert (Build : FIc (p_pool (fst (build_endpoint p1 k d g))) (p_eps (fst (build_endpoint p1 k d g)))
                        (upd thr i (mkG k d g out (GHaveGen (snd (build_endpoint p1 k d g))))) lock hnd).
    { unfold build_endpoint. cbn [fst snd p_pool p_eps].
      eapply (FI_build _ _ _ _ _ i (mkG k d g out (GSlow oe)) _ oe); eauto; try reflexivity. }
    destruct out as [|[|[|n]]]; cbn [f_p f_thr f_lock f_hand].
    + exact Build.
    + unfold cache_failure. cbn [p_pool p_eps].
      eapply (FI_fail _ _ _ _ _ i (mkG k d g 1 (GSlow oe)) _ oe); eauto; try reflexivity; exact I.
    + eapply FI_done; eauto.
      * exact I.
      * intros k0. unfold fset. destruct (k0 =? k) eqn:E; auto. apply Nat.eqb_eq in E; subst k0. auto.
    + exact Build.
  - (* GHaveGen *)
    destruct (nth_error (p_eps p) e) as [u|] eqn:Hn; [|exact H].
    cbn [f_p f_thr f_lock f_hand set_ep set_eps p_pool p_eps].
    eapply (FI_pc_same _ _ _ _ _ i (mkG k d g out (GHaveGen e)) _ e); try reflexivity; eauto.
    eapply FI_shape; eauto. repeat split.
  - (* GBeforePublish *)
    cbn [f_p f_thr f_lock f_hand set_pool p_pool p_eps].
    eapply (FI_publish _ _ _ _ _ i (mkG k d g out (GBeforePublish e)) _ e); try reflexivity; eauto.
  - (* GBeforeRegister *)
    destruct (nth_error (p_eps p) e) as [u|] eqn:Hn; [|exact H].
    cbn [f_p f_thr f_lock f_hand set_ep set_eps p_pool p_eps].
    pose proof (T i _ Ht) as Ti. unfold tc in Ti. cbn [g_pc g_k] in Ti. destruct Ti as (L & (u0 & H0 & K & F)).
    rewrite Hn in H0; inversion H0; subst u0.
    assert (Np : ~ prot thr e).
    { eapply (not_prot_lock _ _ _ _ _ i (mkG k d g out (GBeforeRegister e))); eauto.
      intros [Y|Y]; discriminate. }
    assert (H1 : FIc (p_pool p) (upd (p_eps p) e (u_with_registered u)) thr lock hnd).
    { apply (FI_upd1 _ _ _ _ _ _ e u _ H Hn); auto.
      - cbn. apply (B1 e u Hn).
      - intros X; contradiction. }
    eapply FI_done; eauto.
    + exact I.
    + intros e0 u0 [[Y|Y]|Y]; discriminate.
    + intros k0. unfold fset. destruct (k0 =? k) eqn:E; auto. apply Nat.eqb_eq in E; subst k0. auto.
    + intros x Hx. apply in_app_or in Hx. destruct Hx as [Hx|[<-|[]]]; auto. right. split; auto.
      cbn [snd]. rewrite upd_length. apply nth_error_Some. congruence.
  - exact H.
Qed.

(* ------------------------------------------------------------------------------------------ *)
(* every reachable state                                                                        *)
(* ------------------------------------------------------------------------------------------ *)
Lemma FI_finit thr : FI (finit thr).
Proof.
  unfold FI, finit. cbn [f_p f_thr f_lock f_hand p0 p_pool p_eps].
  split; [|split; [|split; [|split]]].
  - intros k e X; discriminate.
  - intros [|e] u X; discriminate.
  - intros [|e] u X; discriminate.
  - intros i t. rewrite nth_error_map. destruct (nth_error thr i) as [[[[k d] g] out]|]; cbn; [|discriminate].
    intros X; inversion X; subst t. exact I.
  - intros x [].
Qed.

Lemma FI_fstep s l : FI s -> FI (fstep s l).
Proof. destruct l as [i|o]; [apply FI_fthr|apply FI_fop]. Qed.

Lemma FI_frun thr sched : FI (frun thr sched).
Proof.
  unfold frun. generalize (FI_finit thr). generalize (finit thr).
  induction sched as [|l r IH]; intros s H; cbn; auto. apply IH. now apply FI_fstep.
Qed.

Lemma quiescent_no_hd s e : fquiescent s = true -> ~ hd (f_thr s) e.
Proof.
  unfold fquiescent. intros Q (i & t & Ht & Hh). rewrite forallb_forall in Q.
  specialize (Q t (nth_error_In _ _ Ht)). unfold gdone in Q.
  destruct Hh as [[Y|Y]|Y]; rewrite Y in Q; discriminate.
Qed.

(* (1) every dialled endpoint: transport closed at most once, exactly when the endpoint is closed; once all
   callers have returned, an endpoint that is not the pool's entry for its key has been closed *)
Lemma C13_fine_close_once_proof :
  forall thr sched e u,
    let s := frun thr sched in
    nth_error (p_eps (f_p s)) e = Some u -> u_failed u = false ->
    u_conn_closes u <= 1
    /\ (u_conn_closes u = 1 <-> u_closed u = true)
    /\ (fquiescent s = true -> p_pool (f_p s) (u_key u) <> Some e -> u_conn_closes u = 1).
Proof.
  intros thr sched e u s Hn Hf. destruct (FI_frun thr sched) as (_ & B1 & B2 & _). fold s in B1, B2.
  pose proof (B1 e u Hn) as C. rewrite Hf in C. destruct (u_closed u) eqn:Hc; rewrite C.
  - repeat split; auto.
  - repeat split; try lia; try discriminate. intros Q Hp. exfalso.
    destruct (B2 e u Hn Hc) as [X|X]; [contradiction|]. exact (quiescent_no_hd s e Q X).
Qed.

(* the same without the quiescence premise: an unclosed endpoint outside the map is in the hands of exactly
   the creator that built it (not yet published) or of the slow-path caller that is about to close it *)
Lemma C13_fine_unclosed_held_proof :
  forall thr sched e u,
    let s := frun thr sched in
    nth_error (p_eps (f_p s)) e = Some u -> u_closed u = false ->
    p_pool (f_p s) (u_key u) = Some e
    \/ exists i t, nth_error (f_thr s) i = Some t /\ f_lock s (g_k t) = Some i /\ g_k t = u_key u
                   /\ (g_pc t = GHaveGen e \/ g_pc t = GBeforePublish e \/ g_pc t = GSlow (Some e)).
Proof.
  intros thr sched e u s Hn Hc. pose proof (FI_frun thr sched) as H. fold s in H.
  pose proof H as (_ & _ & B2 & _). destruct (B2 e u Hn Hc) as [X|X]; auto. right.
  destruct (hd_facts _ _ _ _ _ _ H X) as (j & tj & Hj & Hh & L & _ & (u1 & H1 & K)).
  rewrite Hn in H1; inversion H1; subst u1. exists j, tj. repeat split; auto.
  destruct Hh as [[Y|Y]|Y]; auto.
Qed.

(* ------------------------------------------------------------------------------------------ *)
(* (2) never-resurrect                                                                          *)
(* ------------------------------------------------------------------------------------------ *)
Definition fine_never_resurrect_full : Prop :=
  forall thr sched l i e, let s := frun thr sched in let s' := fstep s l in
    f_hand s' = f_hand s ++ [(i, e)] ->
    exists u, nth_error (p_eps (f_p s')) e = Some u /\ u_failed u = false /\ u_dead u = false /\ ~ In e (f_inval s').

Lemma C13_fine_handout_invalidated_refuted_proof :
  exists thr sched i e,
    In (i, e) (f_hand (frun thr sched)) /\ In e (f_inval (frun thr sched))
    /\ exists sched1 l sched2, sched = sched1 ++ l :: sched2 /\ In e (f_inval (frun thr sched1))
                               /\ ~ In (i, e) (f_hand (frun thr sched1)).
Proof.
  exists fine_w1_thr, fine_w1, 0, 0. split; [vm_compute; auto|]. split; [vm_compute; auto|].
  exists fine_w1_pre, (FThr 0), [FThr 0; FThr 0]. split; [reflexivity|].
  destruct C13_fine_handout_invalidated_proof as (W1 & W2 & _). split; [exact W1|]. rewrite W2. intros [].
Qed.

Lemma C13_fine_handout_dead_refuted_proof :
  exists thr sched l i e,
    let s := frun thr sched in let s' := fstep s l in
    f_hand s' = f_hand s ++ [(i, e)]
    /\ exists u, nth_error (p_eps (f_p s')) e = Some u /\ u_failed u = false /\ u_dead u = true /\ u_closed u = true.
Proof.
  exists fine_w2_thr, (removelast fine_w2), (FThr 0), 0, 0. cbn zeta. split; [vm_compute; reflexivity|].
  vm_compute. eexists. repeat split.
Qed.

Lemma C13_fine_never_resurrect_full_refuted_proof : ~ fine_never_resurrect_full.
Proof.
  intros F. specialize (F fine_w1_thr (removelast fine_w1) (FThr 0) 0 0). cbn zeta in F.
  destruct F as (u & _ & _ & _ & N); [vm_compute; reflexivity|]. apply N. vm_compute. auto.
Qed.

Lemma app_self_neq {A} (l : list A) x : l = l ++ [x] -> False.
Proof. intros H. apply (f_equal (@length A)) in H. rewrite app_length in H. cbn in H. lia. Qed.

Lemma fop_hand s o : f_hand (fstep s (FOp o)) = f_hand s.
Proof.
  destruct o as [k d g out|h out|h t|d| | |dt|h]; cbn [fstep]; try reflexivity;
    (destruct (nth_error (p_handles (f_p s)) h) as [e|]; [|reflexivity];
     destruct (existsb (fun x => snd x =? e) (f_hand s)); reflexivity).
Qed.

Lemma reuse_handed' s e g u :
  nth_error (p_eps s) e = Some u -> p_pool s (u_key u) = Some e -> u_failed u = false -> stale s u = false ->
  u_closed u = false -> u_dead u = false -> u_conn_closes u = 0 ->
  handed_ok (fst (ep_reuse s e g u)) e.
Proof.
  intros Hn Hp Hf Hst Hc Hd B1. unfold ep_reuse. cbn [fst].
  set (s1 := set_ep s e (u_with_exp u (p_now s + nat_timeout))).
  assert (Hn1 : nth_error (p_eps s1) e = Some (u_with_exp u (p_now s + nat_timeout))).
  { unfold s1, set_ep, set_eps; cbn. rewrite nth_error_upd, Nat.eqb_refl, Hn. reflexivity. }
  destruct (adopt_core_eps s1 e g) as (P&_&Ep&_&_&E).
  destruct (E _ Hn1) as (u'&(K&F&C&D&N)&Se&Ge&Di&Eq).
  exists u'. rewrite Eq, nth_error_upd, Nat.eqb_refl, Hn1. split; [reflexivity|].
  cbn in K, F, C, D, N, Se, Ge, Di. rewrite F, D, C, N, K, P. repeat split; auto.
  unfold stale in Hst. rewrite Hd in Hst. cbn in Hst.
  unfold gen_current, survives in *. rewrite Ep, Ge, Di, Se. unfold s1; cbn.
  destruct (match u_gen u with 0 => false | 1 => true | S (S n) => n =? p_epoch s (u_dialer u) end); cbn in *; auto.
  destruct (u_sent u); cbn in *; auto.
Qed.

Definition handout_ok (s s' : fstate) (i e : nat) : Prop :=
  exists u, nth_error (p_eps (f_p s')) e = Some u /\ u_failed u = false
    /\ ((exists t, nth_error (f_thr s) i = Some t /\ (g_pc t = GStart \/ g_pc t = GWaitLock)) ->
        u_dead u = false /\ (gen_current (f_p s') u || survives u) = true /\ p_pool (f_p s') (u_key u) = Some e).

Lemma handout_step s l i e :
  FI s -> f_hand (fstep s l) = f_hand s ++ [(i, e)] -> handout_ok s (fstep s l) i e.
Proof.
  intros H. destruct l as [j|o].
  2:{ rewrite fop_hand. intros X. destruct (app_self_neq _ _ X). }
  cbn [fstep]. unfold handout_ok. destruct s as [p thr lock hnd inv]. unfold FI in H. cbn [f_p f_thr f_lock f_hand] in *.
  pose proof H as (A & B1 & B2 & T & Hh).
  unfold fstep_thr. cbn [f_p f_thr f_lock f_hand f_inval].
  destruct (nth_error thr j) as [t|] eqn:Ht; [|intros X; destruct (app_self_neq _ _ X)].
  destruct t as [k d g out pc]. unfold set_gpc, hand, unlock. cbn [g_k g_d g_g g_out g_pc f_thr f_hand f_lock r_ret].
  assert (Reuse : forall e0 u, p_pool p k = Some e0 -> nth_error (p_eps p) e0 = Some u -> u_failed u = false ->
                               stale p u = false -> hnd ++ [(j, e0)] = hnd ++ [(i, e)] ->
            exists u', nth_error (p_eps (fst (ep_reuse p e0 g u))) e = Some u' /\ u_failed u' = false
              /\ ((exists t, nth_error thr i = Some t /\ (g_pc t = GStart \/ g_pc t = GWaitLock)) ->
                  u_dead u' = false /\ (gen_current (fst (ep_reuse p e0 g u)) u' || survives u') = true
                  /\ p_pool (fst (ep_reuse p e0 g u)) (u_key u') = Some e)).
  { intros e0 u Hk Hn Hf Hst X. apply app_inv_head in X. inversion X; subst j e0.
    destruct (A k e Hk) as (u0 & H0 & K & C & D). rewrite Hn in H0; inversion H0; subst u0.
    destruct (reuse_handed' p e g u) as (u' & N1 & F1 & D1 & C1 & CC1 & G1 & P1); auto.
    - congruence.
    - rewrite (B1 e u Hn), Hf, C. reflexivity.
    - exists u'. repeat split; auto. }
  destruct pc as [| |oe|e0|e0|e0|r]; cbn [f_p f_hand f_thr].
  - destruct (p_pool p k) as [e0|] eqn:Hk; [|intros X; destruct (app_self_neq _ _ X)].
    destruct (nth_error (p_eps p) e0) as [u|] eqn:Hn; [|intros X; destruct (app_self_neq _ _ X)].
    destruct (u_failed u) eqn:Hf.
    + destruct (is_expired u (p_now p)); intros X; destruct (app_self_neq _ _ X).
    + destruct (stale p u) eqn:Hst; [intros X; destruct (app_self_neq _ _ X)|].
      apply (Reuse e0 u); auto.
  - destruct (lock k) as [j0|]; [intros X; destruct (app_self_neq _ _ X)|].
    destruct (p_pool p k) as [e0|] eqn:Hk; [|intros X; destruct (app_self_neq _ _ X)].
    destruct (nth_error (p_eps p) e0) as [u|] eqn:Hn; [|intros X; destruct (app_self_neq _ _ X)].
    destruct (u_failed u) eqn:Hf.
    + destruct (is_expired u (p_now p)); intros X; destruct (app_self_neq _ _ X).
    + destruct (stale p u) eqn:Hst; [intros X; destruct (app_self_neq _ _ X)|].
      apply (Reuse e0 u); auto.
  - destruct out as [|[|[|n]]]; cbn [f_hand]; try (intros X; destruct (app_self_neq _ _ X)).
  - destruct (nth_error (p_eps p) e0) as [u|]; intros X; destruct (app_self_neq _ _ X).
  - intros X; destruct (app_self_neq _ _ X).
  - destruct (nth_error (p_eps p) e0) as [u|] eqn:Hn; [|intros X; destruct (app_self_neq _ _ X)].
    cbn [f_p f_hand set_ep set_eps p_eps p_pool]. intros X. apply app_inv_head in X. inversion X; subst j e0.
    pose proof (T i _ Ht) as Ti. unfold tc in Ti. cbn [g_pc g_k] in Ti. destruct Ti as (L & (u0 & H0 & K & F)).
    rewrite Hn in H0; inversion H0; subst u0.
    exists (u_with_registered u). rewrite (nth_upd_this _ _ _ _ Hn). repeat split; auto.
    all: destruct H1 as (t & Ht' & Hpc); rewrite Ht in Ht'; inversion Ht'; subst t; cbn in Hpc; destruct Hpc; discriminate.
  - intros X; destruct (app_self_neq _ _ X).
Qed.

(* the strongest true part of never-resurrect: a hand-out is never a failure marker; a hand-out that is a
   reuse (fast path or re-check under createMu) is the live, current pool entry of its key.  The creator's
   own return (pc GBeforeRegister) is unconditional — see the two refutations above. *)
Lemma C13_fine_never_resurrect_partial_proof :
  forall thr sched l i e, let s := frun thr sched in let s' := fstep s l in
    f_hand s' = f_hand s ++ [(i, e)] ->
    exists u, nth_error (p_eps (f_p s')) e = Some u /\ u_failed u = false
      /\ ((exists t, nth_error (f_thr s) i = Some t /\ (g_pc t = GStart \/ g_pc t = GWaitLock)) ->
          u_dead u = false /\ (gen_current (f_p s') u || survives u) = true /\ p_pool (f_p s') (u_key u) = Some e).
Proof. intros thr sched l i e s s' X. apply (handout_step s l i e); auto. apply FI_frun. Qed.

Print Assumptions C13_fine_close_once_proof.
Print Assumptions C13_fine_unclosed_held_proof.
Print Assumptions C13_fine_handout_invalidated_refuted_proof.
Print Assumptions C13_fine_handout_dead_refuted_proof.
Print Assumptions C13_fine_never_resurrect_full_refuted_proof.
Print Assumptions C13_fine_never_resurrect_partial_proof.
