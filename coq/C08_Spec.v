(* C08 — the DNS cache serves only live, correctly scoped answers with truthful TTLs.
   Spec: the property in its own terms, executable.

   A cache entry belongs to a *scoped question*: the name compared case-insensitively (as a fully
   qualified name), the query type and the upstream scope.  An answer obtained at instant t with TTL
   ttl lives until  t + ttl  - or  t + fixed  when the configuration fixes a TTL for that name (names
   compared case-insensitively).  A lookup at instant `now` may be answered from the cache
     * Fresh  iff now < deadline;
     * Stale  iff optimistic caching is on and deadline <= now <= deadline + window (window 0 = no limit),
              and then exactly one lookup per refresh cycle is told to start a refresh;
     * not at all otherwise.
   The TTL shown on a fresh answer is at most  max 1 (floor remaining seconds) + slack  (slack = the
   documented 15 s approximation).  With a size limit the janitor evicts least-recently-used entries.
   Times are integer nanoseconds (Z), TTLs and windows are seconds. *)
From Coq Require Import List ZArith NArith Bool.
Import ListNotations.
Open Scope Z_scope.

Definition bytes := list N.

Fixpoint bytes_eqb (a b : bytes) : bool :=
  match a, b with
  | [], [] => true
  | x :: a', y :: b' => N.eqb x y && bytes_eqb a' b'
  | _, _ => false
  end.

Definition lower_byte (b : N) : N := if (N.leb 65 b && N.leb b 90)%bool then (b + 32)%N else b.
Definition lower (s : bytes) : bytes := map lower_byte s.

Definition dot : N := 46%N.
Definition ends_with_dot (s : bytes) : bool := match rev s with x :: _ => N.eqb x dot | [] => false end.
Definition fqdn (s : bytes) : bytes := if ends_with_dot s then s else s ++ [dot].
Definition strip_dot (s : bytes) : bytes := if ends_with_dot s then removelast s else s.

(* upstream scope of a question *)
Inductive scope :=
| ScNone                          (* no upstream decided *)
| ScAsIs (dst : option bytes)     (* sent on to the original destination (text of addr:port) *)
| ScReject
| ScUpstream (u : bytes)          (* text form of the upstream *)
| ScIndex (n : N).                (* upstream known by index only *)

Definition optbytes_eqb (a b : option bytes) : bool :=
  match a, b with Some x, Some y => bytes_eqb x y | None, None => true | _, _ => false end.

Definition scope_eqb (a b : scope) : bool :=
  match a, b with
  | ScNone, ScNone => true
  | ScAsIs x, ScAsIs y => optbytes_eqb x y
  | ScReject, ScReject => true
  | ScUpstream x, ScUpstream y => bytes_eqb x y
  | ScIndex x, ScIndex y => N.eqb x y
  | _, _ => false
  end.

Record skey := { k_name : bytes; k_qtype : N; k_scope : scope }.
(* "known by index 0" is how the code says "no upstream decided" *)
Definition norm_scope (sc : scope) : scope := match sc with ScIndex 0%N => ScNone | _ => sc end.
Definition skey_of (name : bytes) (qt : N) (sc : scope) : skey :=
  {| k_name := lower (fqdn name); k_qtype := qt; k_scope := norm_scope sc |}.
Definition skey_eqb (a b : skey) : bool :=
  bytes_eqb (k_name a) (k_name b) && N.eqb (k_qtype a) (k_qtype b) && scope_eqb (k_scope a) (k_scope b).

(* configuration as written by the user *)
Record cfg := { c_opt : bool; c_window : Z; c_max : Z; c_fixed : list (bytes * Z) }.

(* "optimistic_cache_ttl 0 = never expire, rely on the size limit": without a size limit the window
   falls back to the default 60 s (normalizeDnsRuntimeBehavior; recorded as a fact of the code). *)
Definition default_window : Z := 60.
Definition effective (c : cfg) : cfg :=
  if (c_window c =? 0) && (c_max c =? 0)
  then {| c_opt := c_opt c; c_window := default_window; c_max := c_max c; c_fixed := c_fixed c |} else c.

Definition sec : Z := 1000000000.

(* the fixed TTL configured for a name, names compared case-insensitively; when the configuration names it
   more than once the last line counts *)
Definition fixed_ttl_ci (fixed : list (bytes * Z)) (host : bytes) : option Z :=
  match find (fun p => bytes_eqb (lower (fst p)) (lower host)) (rev fixed) with
  | Some p => Some (snd p) | None => None end.

Definition spec_deadline (fixed : list (bytes * Z)) (host : bytes) (ttl now : Z) : Z :=
  now + (match fixed_ttl_ci fixed (strip_dot host) with Some f => f | None => ttl end) * sec.

Inductive kind := Fresh | Stale.

Definition in_window (c : cfg) (deadline now : Z) : bool :=
  c_opt c && ((c_window c =? 0) || (now <=? deadline + c_window c * sec)).

Definition servable (c : cfg) (deadline now : Z) : option kind :=
  if now <? deadline then Some Fresh else if in_window c deadline now then Some Stale else None.

Definition slack : Z := 15.
Definition ttl_bound (deadline now : Z) : Z := Z.max 1 ((deadline - now) / sec) + slack.
Definition ttl_ok (deadline now shown : Z) : bool := shown <=? ttl_bound deadline now.

(* ---------------------------------------------------------------------------------------------- *)
(* Histories.  Every operation carries the instant at which it happens.                            *)
Inductive op :=
| Insert (name : bytes) (qt : N) (sc : scope)      (* the question asked (cache key) *)
         (rname : bytes)                           (* the name echoed in the upstream's reply *)
         (is_ip resp_ok : bool) (nans : N)         (* reply facts: name is a literal address; reply is a success reply *)
         (ans : Z) (ttl : Z)
| Lookup (name : bytes) (qt : N) (sc : scope)
| Janitor (order : list bytes)                     (* iteration order of the implementation's map: oracle for ties *)
| Reload (c : cfg)                                 (* new generation: cloned cache, new configuration *)
| Reuse (c : cfg)                                  (* configuration replaced in place *)
| RefreshDone (name : bytes) (qt : N) (sc : scope) (* a background refresh has ended (with or without a new answer) *)
| Probe (name : bytes) (qt : N) (sc : scope) (window : Z). (* entry-level reads at an explicit instant; no effect *)

Definition timed := (Z * op)%type.

(* what an observer sees of one operation *)
Inductive obs :=
| ObNone
| ObLook (served : bool) (ans ttl : Z) (refresh : bool)
| ObJan (evicted : list skey)
| ObProbe (stale packed fill : option Z).         (* TTL carried by each reply, None = no reply *)

(* ---------------------------------------------------------------------------------------------- *)
(* The reference cache, as a checker: it follows a history, says what each observation violates     *)
(* (error codes), and then continues from what was observed.                                        *)
Record srec := { s_ans : Z; s_deadline : Z; s_last : Z; s_refreshing : bool; s_known : bool }.
Definition sstore := list (skey * srec).

Definition sfind (k : skey) (st : sstore) : option srec :=
  match find (fun p => skey_eqb (fst p) k) st with Some p => Some (snd p) | None => None end.
Definition sremove (k : skey) (st : sstore) : sstore := filter (fun p => negb (skey_eqb (fst p) k)) st.
Definition sput (k : skey) (r : srec) (st : sstore) : sstore := (k, r) :: sremove k st.

Definition set_unknown (r : srec) : srec :=
  {| s_ans := s_ans r; s_deadline := s_deadline r; s_last := s_last r; s_refreshing := s_refreshing r; s_known := false |}.

(* error codes (N):
   10 answered though nothing is cached under this scoped question
   11 answered with an answer that was not the one cached for this scoped question
   12 a fresh entry was not served          13 shown TTL above remaining + slack
   14 refresh requested on a fresh answer   15 an expired entry inside the stale window was not served
   16 refresh flag wrong (not exactly one per refresh cycle)
   17 served after its lifetime (expired and optimistic off, or beyond the stale window)
   20 janitor evicted an unknown key        21 janitor evicted a more recently used live entry than one it kept
   22 size limit not enforced               23 more live entries evicted than the limit requires
   24 live entry evicted although no size limit is set
   30 stale read wrong (inside/outside window)   31 packed read: TTL above bound or served when expired
   32 in-place fill: TTL above bound *)
Definition err (b : bool) (code : N) : list N := if b then [] else [code].

Definition spec_lookup (c : cfg) (st : sstore) (now : Z) (k : skey) (o : obs) : list N * sstore :=
  match o with
  | ObLook served ans ttl refresh =>
      match sfind k st with
      | None => (err (negb served) 10, st)
      | Some r =>
          if negb (s_known r) then ([], if served then st else sremove k st)
          else
            let touch (refr : bool) :=
                sput k {| s_ans := s_ans r; s_deadline := s_deadline r; s_last := now; s_refreshing := refr; s_known := true |} st in
            match servable c (s_deadline r) now with
            | Some Fresh =>
                if served then
                  (err (ans =? s_ans r) 11 ++ err (ttl_ok (s_deadline r) now ttl) 13 ++ err (negb refresh) 14,
                   touch (s_refreshing r))
                else ([12%N], sremove k st)
            | Some Stale =>
                if served then
                  (err (ans =? s_ans r) 11 ++ err (Bool.eqb refresh (negb (s_refreshing r))) 16, touch true)
                else ([15%N], sremove k st)
            | None =>
                if served then ([17%N], sput k (set_unknown r) st) else ([], sremove k st)
            end
      end
  | _ => ([1000%N], st)
  end.

(* for the janitor an entry is dead when it is expired now and can be served at no later instant (the last
   instant of the stale window itself is left to the janitor's discretion) *)
Definition dead (c : cfg) (now : Z) (r : srec) : bool :=
  s_known r && (s_deadline r <=? now)
  && match servable c (s_deadline r) (now + 1) with None => true | Some _ => false end.

Definition spec_janitor (c : cfg) (st : sstore) (now : Z) (ev : list skey) : list N * sstore :=
  let is_ev (k : skey) := existsb (skey_eqb k) ev in
  let surv := filter (fun p => negb (is_ev (fst p))) st in
  let evd := filter (fun p => is_ev (fst p)) st in
  let ev_live := filter (fun p => s_known (snd p) && negb (dead c now (snd p))) evd in
  let e20 := err (forallb (fun k => match sfind k st with Some _ => true | None => false end) ev) 20 in
  let e_lru :=
      if c_max c >? 0 then
        err (forallb (fun e => forallb (fun s => negb (s_known (snd s)) || (s_last (snd e) <=? s_last (snd s))) surv) ev_live) 21
        ++ err (Z.of_nat (length surv) <=? c_max c) 22
        ++ err (match ev_live with [] => true | _ => c_max c <=? Z.of_nat (length surv) end) 23
      else err (match ev_live with [] => true | _ => false end) 24 in
  (e20 ++ e_lru, surv).

Definition spec_probe (st : sstore) (now : Z) (k : skey) (window : Z) (o : obs) : list N :=
  match o, sfind k st with
  | ObProbe stale packed fill, Some r =>
      if negb (s_known r) then [] else
      let d := s_deadline r in
      let want_stale := (d <=? now) && ((window =? 0) || (now <=? d + window * sec)) in
      err (Bool.eqb (match stale with Some _ => true | None => false end) want_stale) 30
      ++ err (match packed with Some t => (now <? d) && ttl_ok d now t | None => true end) 31
      ++ err (match fill with Some t => negb (now <? d) || ttl_ok d now t | None => true end) 32
  | _, _ => []
  end.

(* one step of the reference cache. c is the configuration as written; `effective c` is what counts. *)
Definition spec_step (c : cfg) (st : sstore) (now : Z) (o : op) (ob : obs) : list N * cfg * sstore :=
  let ec := effective c in
  match o with
  | Insert name qt sc rname is_ip resp_ok nans ans ttl =>
      if resp_ok && negb is_ip then
        let k := skey_of name qt sc in
        ([], c, sput k {| s_ans := ans; s_deadline := spec_deadline (c_fixed ec) rname ttl now;
                          s_last := now;            (* a use = an insert or a lookup that is answered *)
                          s_refreshing := false; s_known := true |} st)
      else ([], c, st)
  | Lookup name qt sc => let '(e, st') := spec_lookup ec st now (skey_of name qt sc) ob in (e, c, st')
  | Janitor _ =>
      match ob with
      | ObJan ev => let '(e, st') := spec_janitor ec st now ev in (e, c, st')
      | _ => ([1000%N], c, st)
      end
  | Reload c' =>
      ([], c', map (fun p => (fst p, let r := snd p in
                               {| s_ans := s_ans r; s_deadline := s_deadline r; s_last := s_last r;
                                  s_refreshing := false; s_known := s_known r |})) st)
  | Reuse c' => ([], c', st)
  | RefreshDone name qt sc =>
      let k := skey_of name qt sc in
      match sfind k st with
      | Some r => ([], c, sput k {| s_ans := s_ans r; s_deadline := s_deadline r; s_last := s_last r;
                                    s_refreshing := false; s_known := s_known r |} st)
      | None => ([], c, st)
      end
  | Probe name qt sc window => (spec_probe st now (skey_of name qt sc) window ob, c, st)
  end.
