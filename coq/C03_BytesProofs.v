(* C03 — the stored records as bytes: what the C side writes is what the Go side reads. *)
From Coq Require Import List NArith ZArith Bool Lia.
From Coq Require Import ZifyBool ZifyN ZifyNat.
From Dae Require Import C03_Spec C03_Model.
From Dae.gen Require Import C03_Consts.
Import ListNotations.
Open Scope N_scope.

(* ---------------------------------------------------------------------------------------------- *)
(* 1. the encoders: lengths and values                                                             *)
(* ---------------------------------------------------------------------------------------------- *)
Lemma le_bytes_length : forall w n, length (le_bytes w n) = w.
Proof. induction w as [|w IH]; intros n; cbn [le_bytes length]; [reflexivity | now rewrite IH]. Qed.

Lemma be_bytes_length : forall w n, length (be_bytes w n) = w.
Proof. induction w as [|w IH]; intros n; cbn [be_bytes length]; [reflexivity | now rewrite IH]. Qed.

Lemma zeros_length : forall n, length (zeros n) = n.
Proof. intros n. unfold zeros. apply repeat_length. Qed.

Lemma pow256_nz : forall w, 256 ^ N.of_nat w <> 0.
Proof. intros w. apply N.pow_nonzero. discriminate. Qed.

Lemma pow256_succ : forall w, 256 ^ N.of_nat (S w) = 256 * 256 ^ N.of_nat w.
Proof. intros w. rewrite Nat2N.inj_succ. apply N.pow_succ_r'. Qed.

Lemma le_val_le_bytes : forall w n, le_val (le_bytes w n) = n mod 256 ^ N.of_nat w.
Proof.
  induction w as [|w IH]; intros n.
  - cbn [le_bytes le_val]. change (256 ^ N.of_nat 0) with 1. now rewrite N.mod_1_r.
  - cbn [le_bytes le_val]. rewrite IH, pow256_succ.
    rewrite N.mod_mul_r; [reflexivity | discriminate | apply pow256_nz].
Qed.

Definition be_step (acc b : N) : N := acc * 256 + b.

Lemma be_fold_acc : forall l acc,
  fold_left be_step l acc = acc * 256 ^ N.of_nat (length l) + fold_left be_step l 0.
Proof.
  induction l as [|b l IH]; intros acc.
  - cbn [fold_left length]. change (256 ^ N.of_nat 0) with 1. lia.
  - cbn [fold_left length]. rewrite IH. rewrite (IH (be_step 0 b)).
    rewrite pow256_succ. unfold be_step. lia.
Qed.

Lemma be_val_cons : forall b l, be_val (b :: l) = b * 256 ^ N.of_nat (length l) + be_val l.
Proof.
  intros b l. unfold be_val. change (fun acc b0 : N => acc * 256 + b0) with be_step.
  cbn [fold_left]. rewrite be_fold_acc.
  replace (be_step 0 b) with b by (unfold be_step; lia). reflexivity.
Qed.

Lemma be_val_be_bytes : forall w n, be_val (be_bytes w n) = n mod 256 ^ N.of_nat w.
Proof.
  induction w as [|w IH]; intros n.
  - cbn [be_bytes]. change (256 ^ N.of_nat 0) with 1. now rewrite N.mod_1_r.
  - cbn [be_bytes]. rewrite be_val_cons, be_bytes_length, IH, pow256_succ.
    rewrite (N.mul_comm 256 (256 ^ N.of_nat w)).
    rewrite N.mod_mul_r; [lia | apply pow256_nz | discriminate].
Qed.

Lemma pow256_1 : 256 ^ N.of_nat 1 = 256. Proof. vm_compute. reflexivity. Qed.
Lemma pow256_2 : 256 ^ N.of_nat 2 = 65536. Proof. vm_compute. reflexivity. Qed.
Lemma pow256_4 : 256 ^ N.of_nat 4 = 0x100000000. Proof. vm_compute. reflexivity. Qed.
Lemma pow256_6 : 256 ^ N.of_nat 6 = 0x1000000000000. Proof. vm_compute. reflexivity. Qed.
Lemma pow256_8 : 256 ^ N.of_nat 8 = TWO64. Proof. vm_compute. reflexivity. Qed.
Lemma pow256_16 : 256 ^ N.of_nat 16 = 2 ^ 128. Proof. vm_compute. reflexivity. Qed.

Lemma le4_small : forall n, n < 0x100000000 -> le_val (le_bytes 4 n) = n.
Proof. intros n H. rewrite le_val_le_bytes, pow256_4. now apply N.mod_small. Qed.
Lemma le8_small : forall n, n < TWO64 -> le_val (le_bytes 8 n) = n.
Proof. intros n H. rewrite le_val_le_bytes, pow256_8. now apply N.mod_small. Qed.
Lemma be2_small : forall n, n < 65536 -> be_val (be_bytes 2 n) = n.
Proof. intros n H. rewrite be_val_be_bytes, pow256_2. now apply N.mod_small. Qed.
Lemma be6_small : forall n, n < 0x1000000000000 -> be_val (be_bytes 6 n) = n.
Proof. intros n H. rewrite be_val_be_bytes, pow256_6. now apply N.mod_small. Qed.
Lemma be16_small : forall n, n < 2 ^ 128 -> be_val (be_bytes 16 n) = n.
Proof. intros n H. rewrite be_val_be_bytes, pow256_16. now apply N.mod_small. Qed.

(* ---------------------------------------------------------------------------------------------- *)
(* 2. the fields of the serialised records, read at the Go offsets                                 *)
(* ---------------------------------------------------------------------------------------------- *)
Lemma c_conn_bytes_length : forall s, length (c_conn_bytes s) = 56%nat.
Proof.
  intros s. unfold c_conn_bytes.
  repeat rewrite ?app_length, ?le_bytes_length, ?be_bytes_length, ?zeros_length. reflexivity.
Qed.

Lemma c_hand_bytes_length : forall h, length (c_hand_bytes h) = 48%nat.
Proof.
  intros h. unfold c_hand_bytes, c_rr_bytes.
  repeat rewrite ?app_length, ?le_bytes_length, ?be_bytes_length, ?zeros_length. reflexivity.
Qed.

Lemma c_key_bytes_length : forall k, length (c_key_bytes k) = 40%nat.
Proof.
  intros k. unfold c_key_bytes.
  repeat rewrite ?app_length, ?le_bytes_length, ?be_bytes_length, ?zeros_length. reflexivity.
Qed.

Section ConnFields.
  Variable s : cstate.
  Let b := c_conn_bytes s.
  Lemma conn_f0 : byte b 0 = b2n (cs_wan_in s). Proof. reflexivity. Qed.
  Lemma conn_f1 : byte b 1 = cs_state s. Proof. reflexivity. Qed.
  Lemma conn_f8 : slice b 8 8 = le_bytes 8 (cs_last s). Proof. reflexivity. Qed.
  Lemma conn_f16 : slice b 16 4 = le_bytes 4 (cs_mark s). Proof. reflexivity. Qed.
  Lemma conn_f20 : byte b 20 = cs_out s. Proof. reflexivity. Qed.
  Lemma conn_f21 : byte b 21 = cs_must s. Proof. reflexivity. Qed.
  Lemma conn_f22 : byte b 22 = cs_dscp s. Proof. reflexivity. Qed.
  Lemma conn_f23 : byte b 23 = cs_has s. Proof. reflexivity. Qed.
  Lemma conn_f24 : slice b 24 6 = be_bytes 6 (cs_mac s). Proof. reflexivity. Qed.
  Lemma conn_f32 : slice b 32 16 = be_bytes 16 (cs_pname s). Proof. reflexivity. Qed.
  Lemma conn_f48 : slice b 48 4 = le_bytes 4 (cs_pid s). Proof. reflexivity. Qed.
End ConnFields.

Section HandFields.
  Variable h : hentry.
  Let b := c_hand_bytes h.
  Let r := he_res h.
  Lemma hand_f0 : slice b 0 8 = le_bytes 8 (he_last h). Proof. reflexivity. Qed.
  Lemma hand_f8 : slice b 8 4 = le_bytes 4 (rr_mark r). Proof. reflexivity. Qed.
  Lemma hand_f12 : byte b 12 = rr_must r. Proof. reflexivity. Qed.
  Lemma hand_f13 : slice b 13 6 = be_bytes 6 (rr_mac r). Proof. reflexivity. Qed.
  Lemma hand_f19 : byte b 19 = rr_out r. Proof. reflexivity. Qed.
  Lemma hand_f20 : slice b 20 16 = be_bytes 16 (rr_pname r). Proof. reflexivity. Qed.
  Lemma hand_f36 : slice b 36 4 = le_bytes 4 (rr_pid r). Proof. reflexivity. Qed.
  Lemma hand_f40 : byte b 40 = rr_dscp r. Proof. reflexivity. Qed.
End HandFields.

Section KeyFields.
  Variable k : fkey.
  Let b := c_key_bytes k.
  Lemma key_f0 : slice b 0 16 = be_bytes 16 (k_sip k). Proof. reflexivity. Qed.
  Lemma key_f16 : slice b 16 16 = be_bytes 16 (k_dip k). Proof. reflexivity. Qed.
  Lemma key_f32 : slice b 32 2 = be_bytes 2 (k_sport k). Proof. reflexivity. Qed.
  Lemma key_f34 : slice b 34 2 = be_bytes 2 (k_dport k). Proof. reflexivity. Qed.
  Lemma key_f36 : byte b 36 = k_proto k. Proof. reflexivity. Qed.
End KeyFields.

(* ---------------------------------------------------------------------------------------------- *)
(* 3. round trips                                                                                  *)
(* ---------------------------------------------------------------------------------------------- *)
Lemma b2n_roundtrip : forall x, negb (b2n x =? 0) = x.
Proof. intros [|]; reflexivity. Qed.

Lemma conn_roundtrip_proof : forall s, wf_cstate s -> go_conn_decode (c_conn_bytes s) = s.
Proof.
  intros s (Hst & Hlast & Hmark & Hout & Hmust & Hdscp & Hhas & Hmac & Hpn & Hpid).
  unfold go_conn_decode.
  rewrite conn_f0, conn_f1, conn_f8, conn_f16, conn_f20, conn_f21, conn_f22, conn_f23, conn_f24, conn_f32, conn_f48.
  rewrite b2n_roundtrip, le8_small, !le4_small, be6_small, be16_small by assumption.
  destruct s; reflexivity.
Qed.

Lemma hand_roundtrip_proof : forall h, wf_hentry h -> go_hand_decode (c_hand_bytes h) = h.
Proof.
  intros h (Hlast & Hmark & Hmust & Hmac & Hout & Hpn & Hpid & Hdscp).
  unfold go_hand_decode.
  rewrite hand_f0, hand_f8, hand_f12, hand_f13, hand_f19, hand_f20, hand_f36, hand_f40.
  rewrite le8_small, !le4_small, be6_small, be16_small by assumption.
  destruct h as [l r]; destruct r; reflexivity.
Qed.

(* the single-byte fields are stored as they are, so only the multi-byte fields need their bounds *)
Definition wf_cstate_wide (s : cstate) : Prop :=
  cs_last s < TWO64 /\ cs_mark s < 0x100000000 /\ cs_mac s < 0x1000000000000 /\ cs_pname s < 2 ^ 128 /\
  cs_pid s < 0x100000000.

Lemma conn_roundtrip_iff : forall s, go_conn_decode (c_conn_bytes s) = s <-> wf_cstate_wide s.
Proof.
  intros s. split.
  - intros H. unfold go_conn_decode in H.
    rewrite conn_f0, conn_f1, conn_f8, conn_f16, conn_f20, conn_f21, conn_f22, conn_f23, conn_f24, conn_f32, conn_f48 in H.
    rewrite !le_val_le_bytes, !be_val_be_bytes, pow256_4, pow256_6, pow256_8, pow256_16 in H.
    destruct s as [wi st la mk ou mu ds ha mc pn pd]. cbn [cs_wan_in cs_state cs_last cs_mark cs_out cs_must cs_dscp cs_has cs_mac cs_pname cs_pid] in *.
    injection H as _ Hla Hmk Hmc Hpn Hpd.
    unfold wf_cstate_wide. cbn [cs_last cs_mark cs_mac cs_pname cs_pid].
    repeat split.
    + rewrite <- Hla at 1. apply N.mod_lt. discriminate.
    + rewrite <- Hmk at 1. apply N.mod_lt. discriminate.
    + rewrite <- Hmc at 1. apply N.mod_lt. discriminate.
    + rewrite <- Hpn at 1. apply N.mod_lt. apply N.pow_nonzero. discriminate.
    + rewrite <- Hpd at 1. apply N.mod_lt. discriminate.
  - intros (Hlast & Hmark & Hmac & Hpn & Hpid).
    unfold go_conn_decode.
    rewrite conn_f0, conn_f1, conn_f8, conn_f16, conn_f20, conn_f21, conn_f22, conn_f23, conn_f24, conn_f32, conn_f48.
    rewrite b2n_roundtrip, le8_small, !le4_small, be6_small, be16_small by assumption.
    destruct s; reflexivity.
Qed.

(* ---------------------------------------------------------------------------------------------- *)
(* 4. the key                                                                                      *)
(* ---------------------------------------------------------------------------------------------- *)
Lemma key_bytes_proof : forall k,
  go_key_bytes (k_sip k) (k_dip k) (k_sport k) (k_dport k) (k_proto k) = c_key_bytes k.
Proof. reflexivity. Qed.

Definition wf_key (k : fkey) : Prop :=
  k_sip k < 2^128 /\ k_dip k < 2^128 /\ k_sport k < 65536 /\ k_dport k < 65536 /\ k_proto k < 256.

Definition key_decode (b : list N) : fkey :=
  mk_fkey (be_val (slice b 0 16)) (be_val (slice b 16 16)) (be_val (slice b 32 2)) (be_val (slice b 34 2)) (byte b 36).

Lemma key_roundtrip : forall k, wf_key k -> key_decode (c_key_bytes k) = k.
Proof.
  intros k (Hs & Hd & Hsp & Hdp & _).
  unfold key_decode. rewrite key_f0, key_f16, key_f32, key_f34, key_f36.
  rewrite !be16_small, !be2_small by assumption.
  destruct k; reflexivity.
Qed.

Lemma key_bytes_injective_proof : forall a b, wf_key a -> wf_key b -> c_key_bytes a = c_key_bytes b -> a = b.
Proof.
  intros a b Ha Hb H.
  rewrite <- (key_roundtrip a Ha), <- (key_roundtrip b Hb). now rewrite H.
Qed.

(* ---------------------------------------------------------------------------------------------- *)
(* 5. RetrieveRoutingResult through the bytes                                                      *)
(* ---------------------------------------------------------------------------------------------- *)
Lemma retrieve_bytes_proof : forall st k now,
  (forall s, tab_get (ks_conn st) k = Some s -> wf_cstate s) ->
  (forall h, tab_get (ks_hand st) k = Some h -> wf_hentry h) ->
  go_retrieve_bytes st k now = go_retrieve st k now.
Proof.
  intros st k now Hc Hh. unfold go_retrieve_bytes, go_retrieve.
  destruct (tab_get (ks_conn st) k) as [s|]; destruct (tab_get (ks_hand st) k) as [h|]; cbn [option_map];
    rewrite ?(conn_roundtrip_proof s) by (apply Hc; reflexivity);
    rewrite ?(hand_roundtrip_proof h) by (apply Hh; reflexivity); reflexivity.
Qed.

Print Assumptions conn_roundtrip_proof.
Print Assumptions hand_roundtrip_proof.
Print Assumptions key_bytes_injective_proof.
Print Assumptions retrieve_bytes_proof.
