(* RuleScan — the single-pass scan over a flat array of match-sets that dae uses for traffic routing
   (control/routing_matcher_userspace.go `Match`, control/kern/tproxy.c `route`) and for DNS routing, the
   first-match semantics over structured rules it has to implement, the lowering from rules to the flat array,
   and the refinement theorem `scan_lower`.

   Parametric in
     atom : what one match-set tests (owner: C01 = a key group or a single value; C02 = the 16 value bytes; ...)
     R    : payload of a deciding entry (C01/C02: outbound index and mark; C07: upstream/verdict)
     sem  : the meaning of an atom (a boolean, for the packet at hand)
     ev   : how the scanner evaluates the atom stored at array index i (the index matters: domain sets are
            decided by bit i of a bitmap).  `agrees ev i ms` ties the two.
   Shared by C01, C02 and C07: keep it free of anything specific to one of them. *)
From Coq Require Import List Bool Arith NArith Lia ZifyBool ZifyN ZifyNat.
Import ListNotations.
Open Scope N_scope.

Section Scan.
Variable atom : Type.
Variable R : Type.
Variable sem : atom -> bool.

(* what the `outbound` byte of a match-set says *)
Inductive tgt :=
| TOr                         (* more alternatives of the same condition follow *)
| TAnd                        (* end of a condition; another condition of the same rule follows *)
| TMust                       (* end of a rule whose target is must_rules *)
| TOut (r : R) (mu : bool).   (* end of a rule: payload and the rule's own must flag *)

Record mset := MS { ma : atom; mneg : bool; mt : tgt }.

(* `if goodSubrule == match.not { badRule = true }` *)
Definition upd_bad (g n bad : bool) : bool := if Bool.eqb g n then true else bad.

(* The scan loop.  State: goodSubrule, badRule, must.  None = fell off the end ("no match set hit"). *)
Fixpoint scan (ev : N -> atom -> bool) (i : N) (ms : list mset) (good bad must : bool) : option (R * bool) :=
  match ms with
  | [] => None
  | m :: rest =>
    let good1 := if bad || good then good else ev i (ma m) in
    match mt m with
    | TOr => scan ev (N.succ i) rest good1 bad must
    | TAnd => scan ev (N.succ i) rest false (upd_bad good1 (mneg m) bad) must
    | TMust =>
      if negb (upd_bad good1 (mneg m) bad) then scan ev (N.succ i) rest false false true
      else scan ev (N.succ i) rest false false must
    | TOut r mu =>
      if negb (upd_bad good1 (mneg m) bad) then Some (r, mu || must)
      else scan ev (N.succ i) rest false false must
    end
  end.

(* Structured rules and their first-match meaning. *)
Record cond := C { cneg : bool; catoms : list atom }.
Inductive rtgt := RMust | ROut (r : R) (mu : bool).
Record rule := Rl { rconds : list cond; rt : rtgt }.

Definition cond_holds (c : cond) : bool := xorb (cneg c) (existsb sem (catoms c)).
Definition rule_holds (r : rule) : bool := forallb cond_holds (rconds r).

Fixpoint decide (rs : list rule) (must : bool) : option (R * bool) :=
  match rs with
  | [] => None
  | r :: rest =>
    if rule_holds r then
      match rt r with
      | RMust => decide rest true
      | ROut o mu => Some (o, mu || must)
      end
    else decide rest must
  end.

(* The lowering: alternatives are chained with OR, conditions with AND, the last entry of a rule carries the
   target.  The negation flag is copied on every entry of the condition (only the closing one is read). *)
Definition tail_tgt (t : rtgt) : tgt :=
  match t with RMust => TMust | ROut o mu => TOut o mu end.

Fixpoint lower_atoms (n : bool) (last : tgt) (ats : list atom) : list mset :=
  match ats with
  | [] => []
  | x :: rest =>
    match rest with
    | [] => [MS x n last]
    | _ => MS x n TOr :: lower_atoms n last rest
    end
  end.

Fixpoint lower_conds (t : rtgt) (cs : list cond) : list mset :=
  match cs with
  | [] => []
  | c :: rest =>
    match rest with
    | [] => lower_atoms (cneg c) (tail_tgt t) (catoms c)
    | _ => lower_atoms (cneg c) TAnd (catoms c) ++ lower_conds t rest
    end
  end.

Definition lower_rule (r : rule) : list mset := lower_conds (rt r) (rconds r).
Definition lower (rs : list rule) : list mset := flat_map lower_rule rs.

Definition wf_cond (c : cond) : Prop := catoms c <> [].
Definition wf_rule (r : rule) : Prop := rconds r <> [] /\ Forall wf_cond (rconds r).

(* the evaluator is right about every entry of the array ms that starts at index i *)
Definition agrees (ev : N -> atom -> bool) (i : N) (ms : list mset) : Prop :=
  forall k m, nth_error ms k = Some m -> ev (i + N.of_nat k) (ma m) = sem (ma m).

Lemma agrees_cons ev i m ms :
  agrees ev i (m :: ms) -> ev i (ma m) = sem (ma m) /\ agrees ev (N.succ i) ms.
Proof.
  intros H. split.
  - specialize (H 0%nat m eq_refl). now rewrite N.add_0_r in H.
  - intros k m' Hk. specialize (H (S k) m' Hk).
    replace (N.succ i + N.of_nat k) with (i + N.of_nat (S k)) by lia. exact H.
Qed.

Lemma agrees_app ev i l1 l2 :
  agrees ev i (l1 ++ l2) -> agrees ev i l1 /\ agrees ev (i + N.of_nat (length l1)) l2.
Proof.
  intros H. split.
  - intros k m Hk. apply H. rewrite nth_error_app1; auto. apply nth_error_Some. congruence.
  - intros k m Hk.
    replace (i + N.of_nat (length l1) + N.of_nat k) with (i + N.of_nat (length l1 + k)) by lia.
    apply H. rewrite nth_error_app2 by lia.
    replace (length l1 + k - length l1)%nat with k by lia. exact Hk.
Qed.

Lemma agrees_app_inv ev i l1 l2 :
  agrees ev i l1 -> agrees ev (i + N.of_nat (length l1)) l2 -> agrees ev i (l1 ++ l2).
Proof.
  intros H1 H2 k m Hk. destruct (Nat.ltb k (length l1)) eqn:E.
  - apply Nat.ltb_lt in E. rewrite nth_error_app1 in Hk by exact E. now apply H1.
  - apply Nat.ltb_ge in E. rewrite nth_error_app2 in Hk by exact E.
    specialize (H2 _ _ Hk).
    replace (i + N.of_nat k) with (i + N.of_nat (length l1) + N.of_nat (k - length l1)) by lia. exact H2.
Qed.

Lemma length_lower_atoms n last ats : length (lower_atoms n last ats) = length ats.
Proof.
  induction ats as [|x [|y ys] IH]; cbn [lower_atoms length] in *; auto.
Qed.

(* effect of the closing entry of a condition, given the accumulated goodSubrule g *)
Definition fin (ev : N -> atom -> bool) (last : tgt) (n g bad must : bool) (i : N) (rest : list mset) :=
  match last with
  | TOr => None (* excluded *)
  | TAnd => scan ev i rest false (upd_bad g n bad) must
  | TMust => if negb (upd_bad g n bad) then scan ev i rest false false true
             else scan ev i rest false false must
  | TOut o mu => if negb (upd_bad g n bad) then Some (o, mu || must)
                 else scan ev i rest false false must
  end.

Lemma scan_chain ev n last rest : last <> TOr ->
  forall ats i good bad must, ats <> [] ->
  agrees ev i (lower_atoms n last ats) ->
  scan ev i (lower_atoms n last ats ++ rest) good bad must =
  fin ev last n (if bad then good else good || existsb sem ats) bad must (i + N.of_nat (length ats)) rest.
Proof.
  intros Hl. induction ats as [|x [|y ys] IH]; intros i good bad must Hne Hag; [congruence| |].
  - cbn [lower_atoms app scan ma mneg mt existsb length].
    apply agrees_cons in Hag as [Hx _]. cbn [ma] in Hx. rewrite Hx.
    replace (i + N.of_nat 1) with (N.succ i) by lia.
    destruct last; try congruence; cbn [fin];
      destruct bad, good; cbn [orb]; rewrite ?orb_false_r; reflexivity.
  - cbn [lower_atoms] in Hag |- *. cbn [app scan ma mneg mt].
    apply agrees_cons in Hag as [Hx Hag]. cbn [ma] in Hx. rewrite Hx.
    rewrite IH by (congruence || exact Hag).
    replace (N.succ i + N.of_nat (length (y :: ys))) with (i + N.of_nat (length (x :: y :: ys)))
      by (cbn [length]; lia).
    f_equal. cbn [existsb]. destruct bad, good; cbn [orb]; try reflexivity.
Qed.

Lemma upd_bad_holds (c : cond) (bad : bool) :
  upd_bad (if bad then false else false || existsb sem (catoms c)) (cneg c) bad
  = bad || negb (cond_holds c).
Proof.
  unfold upd_bad, cond_holds. destruct bad, (cneg c), (existsb sem (catoms c)); reflexivity.
Qed.

Definition fin_rule (ev : N -> atom -> bool) (t : rtgt) (bad must : bool) (i : N) (rest : list mset) :=
  match t with
  | RMust => if negb bad then scan ev i rest false false true else scan ev i rest false false must
  | ROut o mu => if negb bad then Some (o, mu || must) else scan ev i rest false false must
  end.

Lemma scan_conds ev t rest :
  forall cs i bad must, cs <> [] -> Forall wf_cond cs ->
  agrees ev i (lower_conds t cs) ->
  scan ev i (lower_conds t cs ++ rest) false bad must =
  fin_rule ev t (bad || negb (forallb cond_holds cs)) must (i + N.of_nat (length (lower_conds t cs))) rest.
Proof.
  induction cs as [|c [|d ds] IH]; intros i bad must Hne Hwf Hag; [congruence| |].
  - cbn [lower_conds] in *. inversion Hwf as [|? ? Hc _]; subst.
    rewrite scan_chain; auto; [| destruct t; discriminate].
    rewrite length_lower_atoms. cbn [forallb]. rewrite andb_true_r.
    destruct t; cbn [tail_tgt fin fin_rule]; rewrite upd_bad_holds; reflexivity.
  - cbn [lower_conds] in Hag |- *. inversion Hwf as [|? ? Hc Hwf']; subst.
    apply agrees_app in Hag as [Hag1 Hag2].
    rewrite <- app_assoc. rewrite scan_chain; auto; [| discriminate].
    cbn [fin]. rewrite upd_bad_holds. rewrite length_lower_atoms in Hag2.
    rewrite IH; auto; [| congruence].
    rewrite app_length, length_lower_atoms.
    replace (i + N.of_nat (length (catoms c)) + N.of_nat (length (lower_conds t (d :: ds))))
      with (i + N.of_nat (length (catoms c) + length (lower_conds t (d :: ds)))) by lia.
    f_equal. cbn [forallb]. destruct bad, (cond_holds c); reflexivity.
Qed.

(* The refinement: on the lowering of well-formed rules, with an evaluator that is right about every entry,
   the scan computes the first-match decision.  Stated with a continuation `rest` so that users can append
   a tail (C01: the fallback entry). *)
Theorem scan_lower_app ev rest : forall rs i must,
  Forall wf_rule rs -> agrees ev i (lower rs) ->
  scan ev i (lower rs ++ rest) false false must =
  match decide rs must with
  | Some d => Some d
  | None => scan ev (i + N.of_nat (length (lower rs))) rest false false
                 (must || existsb (fun r => rule_holds r && match rt r with RMust => true | _ => false end) rs)
  end.
Proof.
  induction rs as [|r rs IH]; intros i must Hwf Hag.
  - cbn. rewrite N.add_0_r, orb_false_r. reflexivity.
  - inversion Hwf as [|? ? [Hne Hc] Hwf']; subst.
    cbn [lower flat_map] in Hag |- *. fold (lower rs) in *.
    apply agrees_app in Hag as [Hag1 Hag2]. unfold lower_rule in *.
    rewrite <- app_assoc, scan_conds; auto. cbn [orb decide existsb]. unfold rule_holds.
    rewrite app_length.
    replace (i + N.of_nat (length (lower_conds (rt r) (rconds r)) + length (lower rs)))
      with (i + N.of_nat (length (lower_conds (rt r) (rconds r))) + N.of_nat (length (lower rs))) by lia.
    destruct (rt r), (forallb cond_holds (rconds r)); cbn [fin_rule negb andb orb];
      rewrite ?IH by auto; try reflexivity.
    + destruct (decide rs true); [reflexivity|]. now rewrite orb_true_r.
Qed.

Theorem scan_lower ev : forall rs i must,
  Forall wf_rule rs -> agrees ev i (lower rs) ->
  scan ev i (lower rs) false false must = decide rs must.
Proof.
  intros rs i must Hwf Hag. pose proof (scan_lower_app ev [] rs i must Hwf Hag) as H.
  rewrite app_nil_r in H. rewrite H. destruct (decide rs must); reflexivity.
Qed.

(* The scan only reads the evaluator at the indices of the array. *)
Lemma scan_ext ev1 ev2 : forall ms i good bad must,
  (forall k m, nth_error ms k = Some m -> ev1 (i + N.of_nat k) (ma m) = ev2 (i + N.of_nat k) (ma m)) ->
  scan ev1 i ms good bad must = scan ev2 i ms good bad must.
Proof.
  induction ms as [|m ms IH]; intros i good bad must H; [reflexivity|].
  cbn [scan]. pose proof (H 0%nat m eq_refl) as H0. rewrite N.add_0_r in H0. rewrite H0.
  assert (H' : forall k m', nth_error ms k = Some m' ->
                ev1 (N.succ i + N.of_nat k) (ma m') = ev2 (N.succ i + N.of_nat k) (ma m')).
  { intros k m' Hk. specialize (H (S k) m' Hk).
    replace (N.succ i + N.of_nat k) with (i + N.of_nat (S k)) by lia. exact H. }
  destruct (mt m); rewrite ?(IH (N.succ i)) by exact H'; reflexivity.
Qed.

End Scan.

Arguments TOr {R}.
Arguments TAnd {R}.
Arguments TMust {R}.
Arguments TOut {R} r mu.
Arguments MS {atom R} ma mneg mt.
Arguments ma {atom R} m.
Arguments mneg {atom R} m.
Arguments mt {atom R} m.
Arguments C {atom} cneg catoms.
Arguments cneg {atom} c.
Arguments catoms {atom} c.
Arguments RMust {R}.
Arguments ROut {R} r mu.
Arguments Rl {atom R} rconds rt.
Arguments rconds {atom R} r.
Arguments rt {atom R} r.
