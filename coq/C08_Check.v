(* C08 — executable comparison functions used by the generated cases file (no proofs). *)
From Coq Require Import List ZArith NArith Bool.
From Dae Require Import C08_Spec C08_Model.
Import ListNotations.
Open Scope Z_scope.

(* one observed step of the implementation *)
Record istep := {
  i_now : Z;                        (* the instant the implementation used (read back by the harness) *)
  i_op : op;
  i_key : bytes;                    (* cache key string computed by the production key functions ([] = none) *)
  i_obs : obs;                      (* ObJan [] for a janitor run: the evicted set is derived from the dumps *)
  i_state : list (bytes * entry);   (* dump of the whole cache after the step *)
  i_cfg : bool * Z * Z              (* effective (optimistic, window, max size) after the step *)
}.
Record icase := { ic_cfg : cfg; ic_steps : list istep }.

Definition entry_eqb (a b : entry) : bool :=
  (e_ans a =? e_ans b) && (e_deadline a =? e_deadline b) && (e_odeadline a =? e_odeadline b)
  && (e_pttl a =? e_pttl b) && (e_pat a =? e_pat b) && (e_dnano a =? e_dnano b)
  && Bool.eqb (e_refreshing a) (e_refreshing b) && (e_last a =? e_last b).

Definition store_sub (a b : store) : bool :=
  forallb (fun p => match mfind (fst p) b with Some e => entry_eqb (snd p) e | None => false end) a.
Definition store_eqb (a b : store) : bool := store_sub a b && store_sub b a && Nat.eqb (length a) (length b).

(* a TTL of -1 on the implementation side = the reply carried no record, its TTL cannot be seen *)
Definition ttl_eqb (impl model : Z) : bool := (impl =? model) || (impl <? 0).
Definition optZ_eqb (a b : option Z) : bool :=
  match a, b with Some x, Some y => ttl_eqb x y | None, None => true | _, _ => false end.
Definition skeys_sub (a b : list skey) : bool := forallb (fun k => existsb (skey_eqb k) b) a.

Definition obs_eqb (a b : obs) : bool :=
  match a, b with
  | ObNone, ObNone => true
  | ObLook s1 a1 t1 r1, ObLook s2 a2 t2 r2 =>
      Bool.eqb s1 s2 && (if s1 then (a1 =? a2) && ttl_eqb t1 t2 && Bool.eqb r1 r2 else true)
  | ObJan e1, ObJan e2 => skeys_sub e1 e2 && skeys_sub e2 e1
  | ObProbe s1 p1 f1, ObProbe s2 p2 f2 => optZ_eqb s1 s2 && optZ_eqb p1 p2 && optZ_eqb f1 f2
  | _, _ => false
  end.

Definition op_key (o : op) : option bytes :=
  match o with
  | Insert name qt sc _ _ _ _ _ _ | Lookup name qt sc | RefreshDone name qt sc | Probe name qt sc _ => Some (key_of name qt sc)
  | _ => None
  end.

Definition cfg3_eqb (c : cfg) (x : bool * Z * Z) : bool :=
  let '(o, w, m) := x in Bool.eqb (c_opt c) o && (c_window c =? w) && (c_max c =? m).

(* error codes: 1 key string impl<>model   2 observation impl<>model   3 cache contents impl<>model
                4 effective configuration impl<>model
                10..32  impl <> spec (codes of C08_Spec)      110..132  model <> spec *)
Fixpoint check_steps (univ : list skey) (steps : list istep) (n : N)
         (ms : mstate) (istore : store)
         (cI : cfg) (sI : sstore) (cM : cfg) (sM : sstore) : list (N * N) :=
  match steps with
  | [] => []
  | s :: rest =>
      let now := i_now s in
      let o := i_op s in
      let '(ms', mob) := m_step univ ms now o in
      let iob := match o with
                 | Janitor _ => ObJan (evicted_skeys univ istore (i_state s))
                 | _ => i_obs s
                 end in
      let e1 := match op_key o with
                | Some k => if bytes_eqb k (i_key s) then [] else [(n, 1%N)]
                | None => [] end in
      let e2 := if obs_eqb iob mob then [] else [(n, 2%N)] in
      let e3 := if store_eqb (i_state s) (m_store ms') then [] else [(n, 3%N)] in
      let e4 := if cfg3_eqb (m_cfg ms') (i_cfg s) then [] else [(n, 4%N)] in
      let '(eI, cI', sI') := spec_step cI sI now o iob in
      let '(eM, cM', sM') := spec_step cM sM now o mob in
      e1 ++ e2 ++ e3 ++ e4 ++ map (fun c => (n, c)) eI ++ map (fun c => (n, (100 + c)%N)) eM
      ++ check_steps univ rest (n + 1)%N ms' (i_state s) cI' sI' cM' sM'
  end.

Definition case_universe (c : icase) : list skey := flat_map (fun s => op_skey (i_op s)) (ic_steps c).

Definition check_case (c : icase) : list (N * N) :=
  check_steps (case_universe c) (ic_steps c) 0%N (m_init (ic_cfg c)) [] (ic_cfg c) [] (ic_cfg c) [].

(* branch signature for the evidence, from the model's run of the case:
   (#fresh served, #stale served, #lookups finding an unservable entry, #janitor evictions, #entries cloned by reloads) *)
Fixpoint sig_steps (univ : list skey) (steps : list istep) (ms : mstate) (acc : N * N * N * N * N) : N * N * N * N * N :=
  match steps with
  | [] => acc
  | s :: rest =>
      let '(f, st, ms_, ev, cl) := acc in
      let '(ms', mob) := m_step univ ms (i_now s) (i_op s) in
      let acc' :=
          match i_op s, mob with
          | Lookup name qt sc, ObLook true _ _ _ =>
              match mfind (key_of name qt sc) (m_store ms) with
              | Some e => if i_now s <? e_deadline e then ((f + 1)%N, st, ms_, ev, cl) else (f, (st + 1)%N, ms_, ev, cl)
              | None => acc end
          | Lookup name qt sc, ObLook false _ _ _ =>
              match mfind (key_of name qt sc) (m_store ms) with
              | Some _ => (f, st, (ms_ + 1)%N, ev, cl) | None => acc end
          | Janitor _, ObJan e => (f, st, ms_, (ev + N.of_nat (length e))%N, cl)
          | Reload _, _ => (f, st, ms_, ev, (cl + N.of_nat (length (m_store ms)))%N)
          | _, _ => acc
          end in
      sig_steps univ rest ms' acc'
  end.
Definition case_signature (c : icase) : N * N * N * N * N :=
  sig_steps (case_universe c) (ic_steps c) (m_init (ic_cfg c)) (0, 0, 0, 0, 0)%N.

(* ------------------------------------------------------------------ refresh slot: observed schedules *)
Record robs := {
  ro_thread : nat;             (* which thread was released for one atomic operation *)
  ro_flag : bool;              (* DnsCache.refreshing after the step *)
  ro_done : bool;              (* the thread has returned *)
  ro_res : option bool;        (* needRefresh of a lookup that has returned *)
  ro_ev : option revent           (* what the step did, as seen from outside: a lookup told to refresh / a completion clearing the flag *)
}.
Record rcase := { rc_variant : option rvariant;   (* shape of the claim in the source; None = a shape the model does not have *)
                  rc_flag0 : bool; rc_threads : list rpc; rc_steps : list robs }.

Definition rpc_done (p : rpc) : bool := match p with LDone _ | CDone => true | _ => false end.
Definition rpc_res (p : rpc) : option bool := match p with LDone r => Some r | _ => None end.
Definition optb_eqb (a b : option bool) : bool :=
  match a, b with Some x, Some y => Bool.eqb x y | None, None => true | _, _ => false end.
Definition rev_eqb (a b : option revent) : bool :=
  match a, b with Some EvClaim, Some EvClaim | Some EvClear, Some EvClear | None, None => true | _, _ => false end.

Fixpoint rcheck_steps (v : rvariant) (s : rstate) (steps : list robs) (n : N) : list (N * N) :=
  match steps with
  | [] => []
  | o :: rest =>
      let '(s', e) := rsched_step v s (ro_thread o) in
      let p := nth (ro_thread o) (r_pcs s') CDone in
      (if Bool.eqb (ro_flag o) (r_flag s') && Bool.eqb (ro_done o) (rpc_done p)
          && (if ro_done o then optb_eqb (ro_res o) (rpc_res p) else true) && rev_eqb (ro_ev o) e
       then [] else [(n, 1%N)])
      ++ rcheck_steps v s' rest (n + 1)%N
  end.

Definition rtrace (steps : list robs) : list revent := flat_map (fun o => match ro_ev o with Some e => [e] | None => [] end) steps.

(* codes: 1 impl<>model at a step   2 impl<>spec: two lookups told to refresh with no completion between   3 model<>spec *)
Definition rcheck_case (c : rcase) : list (N * N) :=
  let s0 := {| r_flag := rc_flag0 c; r_pcs := rc_threads c |} in
  (match rc_variant c with
   | Some v =>
       rcheck_steps v s0 (rc_steps c) 0%N
       ++ (if one_claim_per_cycle (rc_flag0 c) (snd (rrun v s0 (map ro_thread (rc_steps c)))) then [] else [(0%N, 3%N)])
   | None => []
   end)
  ++ (if one_claim_per_cycle (rc_flag0 c) (rtrace (rc_steps c)) then [] else [(0%N, 2%N)]).

(* ------------------------------------------------------------------ refresh life cycle with replacement entries: observed schedules *)
Record tobs := {
  to_thread : nat;
  to_cur : nat;                 (* which entry (creation order) the map holds after the step *)
  to_flags : list bool;         (* refreshing flag of every entry created so far *)
  to_inflight : nat;            (* refreshes claimed whose upstream work has not ended *)
  to_done : bool;
  to_res : option bool
}.
Record tcase := { tc_variant : option cvariant;   (* which entry the deferred block releases, as found in the source; None = a shape the model does not have *)
                  tc_outcomes : list outcome; tc_steps : list tobs }.

Fixpoint bools_eqb (a b : list bool) : bool :=
  match a, b with
  | [], [] => true
  | x :: a', y :: b' => Bool.eqb x y && bools_eqb a' b'
  | _, _ => false
  end.
Definition tpc_done (p : tpc) : bool := match p with PDone _ => true | _ => false end.
Definition tpc_res (p : tpc) : option bool := match p with PDone r => Some r | _ => None end.

Fixpoint tcheck_steps (v : cvariant) (s : tstate) (steps : list tobs) (n : N) : list (N * N) :=
  match steps with
  | [] => []
  | o :: rest =>
      let s' := tsched_step v s (to_thread o) in
      let p := fst (nth (to_thread o) (t_pcs s') (PDone false, OFail)) in
      (if Nat.eqb (to_cur o) (t_cur s') && bools_eqb (to_flags o) (map (t_flag s') (seq 0 (t_next s')))
          && Nat.eqb (to_inflight o) (in_flight s') && Bool.eqb (to_done o) (tpc_done p)
          && (if to_done o then optb_eqb (to_res o) (tpc_res p) else true)
       then [] else [(n, 1%N)])
      ++ (if Nat.leb (in_flight s') 1 then [] else [(n, 3%N)])
      ++ tcheck_steps v s' rest (n + 1)%N
  end.

(* codes: 1 impl<>model at a step   2 impl<>spec: two refreshes of the key in flight   3 model<>spec *)
Definition tcheck_case (c : tcase) : list (N * N) :=
  (match tc_variant c with Some v => tcheck_steps v (tinit (tc_outcomes c)) (tc_steps c) 0%N | None => [] end)
  ++ (if forallb (fun o => Nat.leb (to_inflight o) 1) (tc_steps c) then [] else [(0%N, 2%N)]).

(* ------------------------------------------------------------------ the key suffix of every query type *)
(* obs = for qtype start, start+1, ...: the bytes the production cacheKey put after the canonical name, packed
   into one number (1, then the bytes, base 256).  Returns the query types whose suffix is not the model's. *)
Definition pack_bytes (l : bytes) : N := fold_left (fun a b => (a * 256 + b)%N) l 1%N.
Fixpoint ktable_mismatches (obs : list N) (q : N) : list N :=
  match obs with
  | [] => []
  | o :: rest => (if N.eqb o (pack_bytes (digits q)) then [] else [q]) ++ ktable_mismatches rest (q + 1)%N
  end.

(* the same, for a chunk of observations packed into one number: 48 bits per query type, lowest field first *)
Fixpoint kchunk_mismatches (count : nat) (big : N) (q : N) : list N :=
  match count with
  | O => []
  | S c => (if N.eqb (N.land big 0xFFFFFFFFFFFF) (pack_bytes (digits q)) then [] else [q])
           ++ kchunk_mismatches c (N.shiftr big 48) (q + 1)%N
  end.
