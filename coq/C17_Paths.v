(* C17 — model of the path handling of config.Merger (no proofs):
   path splitting and cleaning (path/filepath.Clean/Join/Dir for '.', '..' and repeated slashes),
   common.EnsureFileInSubDir (purely lexical: no symbolic link is resolved by the Go code),
   path/filepath.Glob for patterns made of literals, '*' and '?' (directory names sorted, as Go's glob does
   with sort.Strings; nested wildcard components expand left to right), unsqueezeEntries' filter,
   and readEntry's checks over what the operating system answers for a path (which follows symbolic links). *)
From Coq Require Import List NArith Bool.
From Dae Require Import C17_Spec C17_Model.
Import ListNotations.
Open Scope N_scope.

Definition path := list str.                       (* components of an absolute path *)

(* ------------------------------------------------------------------ splitting, cleaning *)
Fixpoint split_slash (acc : str) (s : str) : list str :=
  match s with
  | [] => [rev acc]
  | c :: r => if c =? 47 then rev acc :: split_slash [] r else split_slash (c :: acc) r
  end.
Definition is_dot (c : str) : bool := match c with [46] => true | _ => false end.
Definition is_dotdot (c : str) : bool := match c with [46; 46] => true | _ => false end.
(* components of a path text, empty components (leading, repeated or trailing slashes) dropped *)
Definition comps (s : str) : path := filter (fun c => negb (match c with [] => true | _ => false end)) (split_slash [] s).
Definition is_abs (s : str) : bool := match s with 47 :: _ => true | _ => false end.
(* Clean on an absolute path: '.' dropped, '..' removes the previous component (and is dropped at the root) *)
Fixpoint clean_rev (acc : path) (p : path) : path :=
  match p with
  | [] => rev acc
  | c :: r => if is_dot c then clean_rev acc r
              else if is_dotdot c then clean_rev (match acc with [] => [] | _ :: a => a end) r
              else clean_rev (c :: acc) r
  end.
Definition clean (p : path) : path := clean_rev [] p.
Definition render (p : path) : str := match p with [] => [47] | _ => flat_map (fun c => 47 :: c) p end.
Definition dir_of (p : path) : path := removelast p.

(* ------------------------------------------------------------------ EnsureFileInSubDir *)
Fixpoint strip_prefix (d f : path) : option path :=
  match d, f with
  | [], _ => Some f
  | x :: d', y :: f' => if str_eqb x y then strip_prefix d' f' else None
  | _ :: _, [] => None
  end.
Definition starts_dotdot (c : str) : bool := match c with 46 :: 46 :: _ => true | _ => false end.
(* filepath.Rel(dir, Dir(file)) does not start with ".." : the cleaned directory of the file is the entry
   directory or below it (and, a quirk, its first component below does not itself begin with "..") *)
Definition inside (entry_dir : path) (file : path) : bool :=
  match strip_prefix (clean entry_dir) (dir_of (clean file)) with
  | Some [] => true
  | Some (c :: _) => negb (starts_dotdot c)
  | None => false
  end.
Definition dae_suffix : str := [46; 100; 97; 101].
Definition has_suffix (suf s : str) : bool :=
  let n := List.length s in let k := List.length suf in
  Nat.leb k n && str_eqb (skipn (n - k) s) suf.

(* ------------------------------------------------------------------ Glob *)
Fixpoint str_ltb (a b : str) : bool :=
  match a, b with
  | _, [] => false
  | [], _ :: _ => true
  | x :: a', y :: b' => if x <? y then true else if y <? x then false else str_ltb a' b'
  end.
Fixpoint insert_sorted (x : str) (l : list str) : list str :=
  match l with [] => [x] | y :: r => if str_ltb y x then y :: insert_sorted x r else x :: l end.
Definition sort_names (l : list str) : list str := fold_right insert_sorted [] l.    (* sort.Strings *)

Definition meta_char (c : N) : bool := (c =? 42) || (c =? 63) || (c =? 91) || (c =? 92).
Definition has_meta (c : str) : bool := existsb meta_char c.
(* filepath.Match for literals, '?' and '*' on one component *)
Fixpoint pmatch (pat : str) : str -> bool :=
  match pat with
  | [] => fun name => match name with [] => true | _ => false end
  | c :: p' =>
      if c =? 42 then
        (fix star (name : str) : bool :=
           pmatch p' name || match name with [] => false | _ :: n' => star n' end)
      else fun name => match name with
                       | [] => false
                       | d :: n' => ((c =? 63) || (c =? d)) && pmatch p' n'
                       end
  end.

Section Glob.
  Variable listing : path -> option (list str).     (* names in a directory (any order); None: not a directory *)
  Variable lexists : path -> bool.                  (* Lstat succeeds *)

  Definition glob_step (cands : list path) (c : str) : list path :=
    flat_map (fun d => match listing d with
                       | Some ns => map (fun n => d ++ [n]) (filter (pmatch c) (sort_names ns))
                       | None => []
                       end) cands.
  Definition glob_comps (lit : path) (rest : list str) : list path := fold_left glob_step rest [lit].
  Fixpoint split_meta (acc : path) (p : path) : path * list str :=
    match p with
    | [] => (rev acc, [])
    | c :: r => if has_meta c then (rev acc, p) else split_meta (c :: acc) r
    end.
  (* a pattern without wildcard is returned as written when it exists; otherwise the directory part is
     cleaned and the remaining components are expanded one after the other *)
  Definition glob (p : path) : list path :=
    if existsb has_meta p
    then let '(lit, rest) := split_meta [] p in glob_comps (clean lit) rest
    else if lexists (clean p) then [p] else [].
End Glob.

(* lexical order on paths, component by component *)
Fixpoint path_ltb (a b : path) : bool :=
  match a, b with
  | _, [] => false
  | [], _ :: _ => true
  | x :: a', y :: b' => if str_ltb x y then true else if str_ltb y x then false else path_ltb a' b'
  end.

(* ------------------------------------------------------------------ the file system as the merger sees it *)
Inductive os_node := OMissing | ODir | OFile (mode : N) (text : str).    (* open+stat, links followed by the OS *)

Section Merger.
  Variable os : path -> os_node.
  Variable listing : path -> option (list str).
  Variable entry_dir : path.

  (* where an include pattern written in a file points: absolute as written, else joined to the entry directory *)
  Definition pattern_path (written : str) : path :=
    if is_abs written then comps written else clean (entry_dir ++ comps written).
  (* unsqueezeEntries: only .dae names that are not directories *)
  Definition keep (p : path) : bool :=
    has_suffix dae_suffix (render p) && negb (match os (clean p) with ODir => true | _ => false end).
  Definition expand_of (written : str) : list str :=
    map render (filter keep (glob listing (fun p => negb (match os p with OMissing => true | _ => false end))
                                  (pattern_path written))).
  (* readEntry *)
  Definition fs_of : filesys :=
    fun f =>
      if has_suffix dae_suffix f && inside entry_dir (comps f) then
        match os (clean (comps f)) with
        | OFile mode text =>
            if N.land mode 31 =? 0 then match parse text with POk ss => FFile ss | _ => FBad end else FBad
        | _ => FBad
        end
      else FBad.
End Merger.
