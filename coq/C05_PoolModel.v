(* C05 - buffer ownership across connections (no proofs in this file).
   prefetchForTcpSniff takes its probe buffer from the process-wide tcpSniffPrefetchBufPool, reads into it, and
   hands the buffer back when it returns (deferred Put).  What it leaves in the prefixedConn must therefore be a
   private copy.  Here the pool is explicit: a heap of buffers and a LIFO free list shared by all connections;
   a prefix is either a value (private copy, the code as it is) or a reference into the heap (the aliasing
   variant `prefetched = buf[:n:n]`), resolved when the relay finally looks at it. *)
From Coq Require Import List NArith Bool.
From Dae Require Import C05_Spec C05_Model.
From Dae.gen Require Import C05_Extracted.
Import ListNotations.
Open Scope N_scope.

Record heap := mkHeap { h_bufs : list (list N); h_free : list nat }.

Definition heap_get (h : heap) : nat * heap :=
  match h_free h with
  | id :: r => (id, mkHeap (h_bufs h) r)
  | [] => (length (h_bufs h), mkHeap (h_bufs h ++ [[]]) [])      (* sync.Pool New *)
  end.
Definition heap_put (h : heap) (id : nat) : heap := mkHeap (h_bufs h) (id :: h_free h).

Fixpoint set_nth (l : list (list N)) (i : nat) (v : list N) : list (list N) :=
  match l, i with
  | [], _ => []
  | _ :: r, O => v :: r
  | x :: r, S j => x :: set_nth r j v
  end.
(* a Read into the buffer overwrites its first bytes *)
Definition heap_store (h : heap) (id : nat) (data : list N) : heap :=
  mkHeap (set_nth (h_bufs h) id (data ++ drop (len data) (nth id (h_bufs h) []))) (h_free h).

Inductive pref := PVal (d : list N) | PRef (id : nat) (n : N).
Definition resolve (h : heap) (p : pref) : list N :=
  match p with PVal d => d | PRef id n => take n (nth id (h_bufs h) []) end.

(* prefetchForTcpSniff over the shared pool.  alias = false: the code (make + copy); alias = true: the variant
   that keeps a slice of the pooled buffer.  The conn returned carries the bytes as they are at this moment
   (the sniffer, if any, consumes them at once); `parked` says how the relay will find them later. *)
Definition prefetch_stage_h (alias : bool) (wait : N) (c : conn) (s : sock) (now : N) (h : heap)
  : (conn * list N * bool * sock * N) * heap * option pref :=
  let '(id, h1) := heap_get h in
  let s1 := set_dl s (Some (now + wait)) in
  let '(r, c2, s2, t) := conn_read c c05_prefetch_bytes s1 now in
  let h2 := heap_store h1 id (r_data r) in
  let s3 := set_dl s2 None in
  let h3 := heap_put h2 id in                     (* deferred Put, on every exit *)
  match r_data r with
  | [] => ((c2, [], false, s3, t), h3, None)
  | d => ((CPrefixed d c2, d, true, s3, t), h3, Some (if alias then PRef id (len d) else PVal d))
  end.

(* handleConn's prologue over the shared pool: same text as C05_Model.prologue, threading the heap *)
Definition prologue_h (alias : bool) (p : pcase) (s0 : sock) (now0 : N) (h : heap) : pstate * heap * option pref :=
  let '(oc, s1, t1, ran_dns) :=
      if p_port53 p then let '(oc, s1, t1) := dns_stage (p_dns p) CSock s0 now0 in (oc, s1, t1, true)
      else (Some CSock, s0, now0, false) in
  match oc with
  | None => (mkPS None s1 t1 ran_dns false false false, h, None)
  | Some c1 =>
      if negb (p_try_sniff p) then (mkPS (Some c1) s1 t1 ran_dns false false false, h, None) else
      let '((c2, pre, ready, s2, t2), h2, parked) := prefetch_stage_h alias (p_sniff_ms p) c1 s1 t1 h in
      if negb ready then (mkPS (Some c2) s2 t2 ran_dns true false false, h2, parked) else
      if negb (is_likely_http_or_tls pre) then (mkPS (Some c2) s2 t2 ran_dns true false false, h2, parked) else
      let '(buf, derr, c3, s3, t3, spin) := sniff_stage (p_answers p) (t2 + p_sniff_ms p) c2 s2 t2 in
      (* the sniffer has read the prefix out of the prefixedConn: nothing stays parked *)
      (mkPS (Some (CSniffer buf derr c3)) s3 t3 ran_dns true true spin, h2, None)
  end.

(* the wrapper stack as the relay finds it when it finally starts, the pool being in state h by then *)
Definition stack_at_relay (h : heap) (ps : pstate) (parked : option pref) : option conn :=
  match parked, ps_conn ps with
  | Some pr, Some (CPrefixed _ c) => Some (CPrefixed (resolve h pr) c)
  | _, sc => sc
  end.

(* k connections, their prologues run one after the other over the shared pool (in this order - any order is a
   list), every relay starting after the last prologue *)
Fixpoint run_prologues (alias : bool) (conns : list (pcase * sock)) (h : heap)
  : list (pstate * option pref) * heap :=
  match conns with
  | [] => ([], h)
  | (p, s0) :: rest =>
      let '(ps, h1, parked) := prologue_h alias p s0 0 h in
      let '(l, h2) := run_prologues alias rest h1 in
      ((ps, parked) :: l, h2)
  end.

Definition stacks_at_relay (alias : bool) (conns : list (pcase * sock)) (h : heap) : list (option conn) :=
  let '(l, hf) := run_prologues alias conns h in map (fun x => stack_at_relay hf (fst x) (snd x)) l.
