(* C06 — TLS extractor round trip, generic over the locator; byte and single-block linear instances;
   stream round trip through SniffTls + NormalizeDomain. *)
From Coq Require Import List NArith Bool Arith Lia ZifyBool ZifyN ZifyNat.
From Dae.gen Require Import C06_Extracted.
From Dae Require Import C06_Spec C06_Model C06_Statements.
Import ListNotations.
Open Scope N_scope.

(* ------------------------------------------------------------------ small list facts *)
Lemma blen_app a b : blen (a ++ b) = blen a + blen b.
Proof. unfold blen. rewrite app_length. lia. Qed.

Lemma blen_cons x a : blen (x :: a) = 1 + blen a.
Proof. unfold blen. cbn [length]. lia. Qed.

Lemma blen_nil : blen [] = 0.
Proof. reflexivity. Qed.

Lemma blen_0 l : blen l = 0 -> l = [].
Proof. destruct l; [reflexivity|]. rewrite blen_cons. lia. Qed.

Lemma be16_dec n : n / 256 * 256 + n mod 256 = n.
Proof. pose proof (N.div_mod n 256). lia. Qed.

Lemma u16_be16 n r : u16 (be16 n ++ r) = n.
Proof. unfold u16, be16, nthb. cbn [app nth]. apply be16_dec. Qed.

Lemma skipn_skipn' : forall (b a : nat) (l : bytes), skipn a (skipn b l) = skipn (b + a) l.
Proof.
  induction b as [|b IH]; intros a l.
  - reflexivity.
  - destruct l as [|x l].
    + cbn [skipn Nat.add]. destruct a; reflexivity.
    + cbn [skipn Nat.add]. apply IH.
Qed.

Lemma nth_skipn' : forall (b a : nat) (l : bytes), nth a (skipn b l) 0 = nth (b + a) l 0.
Proof.
  induction b as [|b IH]; intros a l.
  - reflexivity.
  - destruct l as [|x l].
    + cbn [skipn Nat.add nth]. destruct a; reflexivity.
    + cbn [skipn Nat.add nth]. apply IH.
Qed.

(* X sits in s at position p *)
Definition at_pos (s : bytes) (p : N) (X : bytes) : Prop :=
  exists pre post, s = pre ++ X ++ post /\ blen pre = p.

Lemma at_pos_self s : at_pos s 0 s.
Proof. exists [], []. split; [|reflexivity]. cbn [app]. now rewrite app_nil_r. Qed.

Lemma at_pos_app s p X Y : at_pos s p (X ++ Y) -> at_pos s p X /\ at_pos s (p + blen X) Y.
Proof.
  intros (pre & post & -> & <-). split.
  - exists pre, (Y ++ post). split; [|reflexivity]. now rewrite <- app_assoc.
  - exists (pre ++ X), post. split; [|apply blen_app]. now rewrite <- !app_assoc.
Qed.

Lemma at_pos_bound s p X : at_pos s p X -> p + blen X <= blen s.
Proof. intros (pre & post & -> & <-). rewrite !blen_app. lia. Qed.

Lemma at_pos_sub s p q X : at_pos s p X -> q = p + blen X -> sub s p q = X.
Proof.
  intros (pre & post & -> & <-) ->. unfold sub.
  replace (blen pre + blen X - blen pre) with (blen X) by lia.
  unfold blen. rewrite !Nat2N.id.
  rewrite skipn_app, skipn_all, Nat.sub_diag. cbn [app skipn].
  rewrite firstn_app, firstn_all, Nat.sub_diag, firstn_O. apply app_nil_r.
Qed.

Lemma at_pos_nth s p v : at_pos s p [v] -> nth (N.to_nat p) s 0 = v /\ p < blen s.
Proof.
  intros (pre & post & -> & <-). split.
  - unfold blen. rewrite Nat2N.id. rewrite app_nth2 by lia. now rewrite Nat.sub_diag.
  - rewrite !blen_app, blen_cons. lia.
Qed.

(* ------------------------------------------------------------------ the generic round trip *)
Section Generic.
  Context {L : Type} (ops : loc_ops L) (s : bytes).
  (* R base len l: l is a view of s starting at base, reporting length len *)
  Variable R : N -> N -> L -> Prop.

  Definition reads_closed : Prop :=
    forall base len l, R base len l ->
      op_len ops l = len
      /\ blen s - base < N.of_nat (op_fuel ops l)
      /\ (forall i j, i <= j -> base + j <= blen s ->
            exists l', op_range ops l i j = Ok (sub s (base + i) (base + j), l') /\ R base len l')
      /\ (forall i, base + i < blen s -> i < len ->
            exists l', op_at ops l i = Ok (nth (N.to_nat (base + i)) s 0, l') /\ R base len l')
      /\ (forall i j, i <= j -> base + j <= blen s ->
            exists l' len', op_slice ops l i j = Ok l' /\ j - i <= len' <= j - i + 1
                            /\ R (base + i) len' l').
  Hypothesis HR : reads_closed.

  Lemma R_len base len l : R base len l -> op_len ops l = len.
  Proof. intros H. apply HR in H. tauto. Qed.

  Lemma R_range base len l i j p X :
    R base len l -> at_pos s p X -> p = base + i -> j = i + blen X ->
    exists l', op_range ops l i j = Ok (X, l') /\ R base len l'.
  Proof.
    intros H Hat -> ->. pose proof (at_pos_bound _ _ _ Hat).
    apply HR in H. destruct H as (_ & _ & Hr & _).
    destruct (Hr i (i + blen X)) as (l' & E & Rl'); [lia|lia|].
    exists l'. split; [|exact Rl']. rewrite E.
    rewrite (at_pos_sub _ _ _ _ Hat) by lia. reflexivity.
  Qed.

  Lemma R_at base len l i p v :
    R base len l -> at_pos s p [v] -> p = base + i -> i < len ->
    exists l', op_at ops l i = Ok (v, l') /\ R base len l'.
  Proof.
    intros H Hat -> Hi. destruct (at_pos_nth _ _ _ Hat) as [Hn Hb].
    apply HR in H. destruct H as (_ & _ & _ & Ha & _).
    destruct (Ha i) as (l' & E & Rl'); [lia|lia|].
    exists l'. split; [|exact Rl']. now rewrite E, Hn.
  Qed.

  Lemma first_host_cons e r :
    first_host (e :: r) = if fst e =? 0 then Some (snd e) else first_host r.
  Proof. unfold first_host. cbn [find]. destruct (fst e =? 0); reflexivity. Qed.

  Lemma enc_entry_split e :
    enc_entry e = [fst e; blen (snd e) / 256; blen (snd e) mod 256] ++ snd e.
  Proof. reflexivity. Qed.

  Lemma host_loop_ok : forall es fuel base len l j inext,
    R base len l ->
    at_pos s (base + j) (flat_map enc_entry es) ->
    inext = j + blen (flat_map enc_entry es) ->
    blen (flat_map enc_entry es) < N.of_nat fuel ->
    match first_host es with
    | Some n => host_loop ops fuel l j inext = Err (Found (strip_dot n))
    | None => exists l', host_loop ops fuel l j inext = Ok l' /\ R base len l'
    end.
  Proof.
    induction es as [|e r IH]; intros fuel base len l j inext HRl Hat Hin Hf.
    - cbn [flat_map] in *. rewrite blen_nil in *.
      destruct fuel as [|f]; [lia|]. cbn [host_loop first_host find].
      unfold first_host. cbn [find].
      destruct (N.leb_spec (j + 3) inext); [lia|]. exists l. split; [reflexivity|exact HRl].
    - cbn [flat_map] in *. rewrite blen_app in *.
      apply at_pos_app in Hat. destruct Hat as [He Hr].
      rewrite enc_entry_split in He. apply at_pos_app in He. destruct He as [Hh Hn].
      assert (Hbe : blen (enc_entry e) = 3 + blen (snd e)).
      { rewrite enc_entry_split, blen_app. reflexivity. }
      rewrite Hbe in *.
      change (blen [fst e; blen (snd e) / 256; blen (snd e) mod 256]) with 3 in Hn.
      destruct fuel as [|f]; [lia|]. cbn [host_loop].
      destruct (N.leb_spec (j + 3) inext); [|lia].
      destruct (R_range base len l j (j + 3) _ _ HRl Hh eq_refl) as (l1 & E1 & R1).
      { change (blen [fst e; blen (snd e) / 256; blen (snd e) mod 256]) with 3. lia. }
      rewrite E1. cbv beta iota.
      change (nthb 0 [fst e; blen (snd e) / 256; blen (snd e) mod 256]) with (fst e).
      change (nthb 1 [fst e; blen (snd e) / 256; blen (snd e) mod 256]) with (blen (snd e) / 256).
      change (nthb 2 [fst e; blen (snd e) / 256; blen (snd e) mod 256]) with (blen (snd e) mod 256).
      rewrite be16_dec. change tls_name_type_host with 0.
      rewrite first_host_cons.
      destruct (fst e =? 0); cbn [negb].
      + destruct (N.ltb_spec inext (j + 3 + blen (snd e))); [lia|].
        destruct (R_range base len l1 (j + 3) (j + 3 + blen (snd e)) _ _ R1 Hn) as (l2 & E2 & R2);
          [lia|lia|].
        rewrite E2. reflexivity.
      + apply (IH f base len l1 (j + 3 + blen (snd e)) inext R1).
        * replace (base + (j + 3 + blen (snd e))) with (base + j + (3 + blen (snd e))) by lia.
          exact Hr.
        * lia.
        * lia.
  Qed.

  Definition name_outcome (o : option bytes) : outcome :=
    match o with Some n => Found (strip_dot n) | None => NotFound end.

  Lemma enc_ext_split x :
    enc_ext x = [ext_type x / 256; ext_type x mod 256; blen (ext_body x) / 256; blen (ext_body x) mod 256]
                ++ ext_body x.
  Proof. reflexivity. Qed.

  Lemma enc_exts_nil_carried r : enc_exts r = [] -> carried_name r = None.
  Proof.
    destruct r as [|x r]; [reflexivity|]. unfold enc_exts. cbn [flat_map].
    rewrite enc_ext_split. cbn [app]. discriminate.
  Qed.

  Lemma find_loop_ok : forall xs fuel0 fuel base len l i,
    R base len l ->
    forallb wf_ext xs = true ->
    at_pos s (base + i) (enc_exts xs) ->
    i + blen (enc_exts xs) <= len <= i + blen (enc_exts xs) + 1 ->
    i + blen (enc_exts xs) < N.of_nat fuel0 ->
    blen (enc_exts xs) < N.of_nat fuel ->
    find_loop ops fuel0 fuel l i = name_outcome (carried_name xs).
  Proof.
    induction xs as [|x r IH]; intros fuel0 fuel base len l i HRl Hwf Hat Hlen Hf0 Hf.
    - unfold enc_exts in *. cbn [flat_map] in *. rewrite blen_nil in *.
      destruct fuel as [|f]; [lia|]. cbn [find_loop carried_name name_outcome].
      rewrite (R_len _ _ _ HRl).
      destruct (N.leb_spec len (i + 4)); [reflexivity|lia].
    - cbn [forallb] in Hwf. apply andb_prop in Hwf. destruct Hwf as [Hwx Hwr].
      assert (Hee : enc_exts (x :: r) = enc_ext x ++ enc_exts r) by reflexivity.
      rewrite Hee in *. clear Hee. rewrite blen_app in *.
      apply at_pos_app in Hat. destruct Hat as [Hx Hr].
      rewrite enc_ext_split in Hx. apply at_pos_app in Hx. destruct Hx as [Hh Hb].
      assert (Hbe : blen (enc_ext x) = 4 + blen (ext_body x)).
      { rewrite enc_ext_split, blen_app. reflexivity. }
      rewrite Hbe in *.
      set (hd := [ext_type x / 256; ext_type x mod 256; blen (ext_body x) / 256; blen (ext_body x) mod 256]) in *.
      change (blen hd) with 4 in Hb.
      destruct fuel as [|f]; [lia|]. cbn [find_loop].
      rewrite (R_len _ _ _ HRl).
      destruct (N.leb_spec len (i + 4)) as [Hle|Hgt].
      + (* last extension, empty body *)
        assert (B0 : blen (ext_body x) = 0) by lia.
        assert (R0 : blen (enc_exts r) = 0) by lia.
        apply blen_0 in B0. apply blen_0 in R0. apply enc_exts_nil_carried in R0.
        destruct x as [t b|es].
        * cbn [carried_name]. rewrite R0. reflexivity.
        * cbn [ext_body] in B0. unfold enc_sni_list, be16 in B0. cbn [app] in B0. discriminate.
      + destruct (R_range base len l i (i + 4) _ _ HRl Hh eq_refl) as (l1 & E1 & R1).
        { change (blen hd) with 4. lia. }
        rewrite E1. cbv beta iota zeta.
        rewrite (R_len _ _ _ R1).
        change (u16 hd) with (ext_type x / 256 * 256 + ext_type x mod 256).
        change (nthb 2 hd) with (blen (ext_body x) / 256).
        change (nthb 3 hd) with (blen (ext_body x) mod 256).
        rewrite !be16_dec. change tls_ext_server_name with 0.
        destruct (N.ltb_spec len (i + 4 + blen (ext_body x))); [lia|].
        destruct x as [t b|es].
        * cbn [ext_type ext_body carried_name] in *.
          cbn [wf_ext] in Hwx.
          assert (Ht : (t =? 0) = false) by lia. rewrite Ht.
          apply (IH fuel0 f base len l1 (i + 4 + blen b) R1 Hwr).
          -- replace (base + (i + 4 + blen b)) with (base + i + (4 + blen b)) by lia. exact Hr.
          -- lia.
          -- lia.
          -- lia.
        * cbn [ext_type ext_body carried_name] in *.
          change (0 =? 0) with true. cbv beta iota.
          unfold enc_sni_list in *.
          set (el := flat_map enc_entry es) in *.
          rewrite blen_app in *. change (blen (be16 (blen el))) with 2 in *.
          apply at_pos_app in Hb. destruct Hb as [Hl He].
          change (blen (be16 (blen el))) with 2 in He.
          destruct (N.ltb_spec (2 + blen el) 2); [lia|].
          destruct (R_range base len l1 (i + 4) (i + 6) _ _ R1 Hl) as (l2 & E2 & R2).
          { lia. }
          { change (blen (be16 (blen el))) with 2. lia. }
          rewrite E2. cbv beta iota zeta.
          rewrite <- (app_nil_r (be16 (blen el))), u16_be16.
          destruct (N.ltb_spec (2 + blen el) (blen el + 2)); [lia|].
          pose proof (host_loop_ok es fuel0 base len l2 (i + 6) (i + 4 + (2 + blen el)) R2) as HL.
          fold el in HL.
          assert (HL' := HL ltac:(replace (base + (i + 6)) with (base + i + 4 + 2) by lia; exact He)
                            ltac:(lia) ltac:(lia)).
          clear HL. destruct (first_host es) as [n|].
          -- rewrite HL'. reflexivity.
          -- destruct HL' as (l3 & E3 & R3). rewrite E3.
             apply (IH fuel0 f base len l3 (i + 4 + (2 + blen el)) R3 Hwr).
             ++ replace (base + (i + 4 + (2 + blen el))) with (base + i + (4 + (2 + blen el))) by lia.
                exact Hr.
             ++ lia.
             ++ lia.
             ++ lia.
  Qed.
  Lemma hs_split h :
    enc_handshake h =
      [1; blen (enc_hello_body h) / 65536; (blen (enc_hello_body h) / 256) mod 256;
       blen (enc_hello_body h) mod 256; 3; h_minor h]
      ++ h_random h ++ [blen (h_session h)] ++ h_session h
      ++ be16 (blen (h_suites h)) ++ h_suites h ++ [blen (h_compress h)] ++ h_compress h
      ++ be16 (blen (enc_exts (h_exts h))) ++ enc_exts (h_exts h).
  Proof. reflexivity. Qed.

  Lemma extract_generic h len l :
    wf_hello h = true -> s = enc_handshake h -> R 0 len l -> blen s <= len ->
    extract_sni ops l = raw_name_of h.
  Proof.
    intros Hwf Hs HRl Hlen.
    unfold wf_hello in Hwf.
    repeat match goal with H : _ && _ = true |- _ => apply andb_prop in H; destruct H end.
    assert (A0 : at_pos s 0 (enc_handshake h)) by (rewrite <- Hs; apply at_pos_self).
    assert (Hbl : blen s = 44 + blen (h_session h) + blen (h_suites h) + blen (h_compress h)
                           + blen (enc_exts (h_exts h))).
    { rewrite Hs, hs_split, !blen_app. unfold be16. rewrite !blen_cons, !blen_nil. lia. }
    rewrite hs_split in A0.
    set (hd6 := [1; blen (enc_hello_body h) / 65536; (blen (enc_hello_body h) / 256) mod 256;
                 blen (enc_hello_body h) mod 256; 3; h_minor h]) in *.
    set (sid := blen (h_session h)) in *.
    set (su := blen (h_suites h)) in *.
    set (cm := blen (h_compress h)) in *.
    set (E := blen (enc_exts (h_exts h))) in *.
    apply at_pos_app in A0. destruct A0 as [P1 A0]. change (blen hd6) with 6 in A0.
    apply at_pos_app in A0. destruct A0 as [_ A0].
    apply at_pos_app in A0. destruct A0 as [P2 A0]. change (blen [sid]) with 1 in A0.
    apply at_pos_app in A0. destruct A0 as [_ A0]. fold sid in A0.
    apply at_pos_app in A0. destruct A0 as [P3 A0]. change (blen (be16 su)) with 2 in A0.
    apply at_pos_app in A0. destruct A0 as [_ A0]. fold su in A0.
    apply at_pos_app in A0. destruct A0 as [P4 A0]. change (blen [cm]) with 1 in A0.
    apply at_pos_app in A0. destruct A0 as [_ A0]. fold cm in A0.
    apply at_pos_app in A0. destruct A0 as [P5 P6]. change (blen (be16 E)) with 2 in P6.
    assert (Hr32 : blen (h_random h) = 32) by lia.
    rewrite Hr32 in *.
    unfold extract_sni.
    rewrite (R_len _ _ _ HRl).
    destruct (N.ltb_spec len 39); [lia|].
    destruct (R_range 0 len l 0 6 _ _ HRl P1) as (l1 & E1 & R1);
      [lia|change (blen hd6) with 6; lia|].
    rewrite E1. cbv beta iota zeta.
    change (nthb 0 hd6) with 1. change (nthb 4 hd6) with 3. change (nthb 5 hd6) with (h_minor h).
    change tls_hs_client_hello with 1. change (1 =? 1) with true. change (3 =? 3) with true.
    cbn [negb orb].
    destruct (N.ltb_spec (h_minor h) 1); [lia|]. destruct (N.ltb_spec 3 (h_minor h)); [lia|].
    cbn [orb].
    destruct (R_at 0 len l1 38 _ _ R1 P2) as (l2 & E2 & R2); [lia|lia|].
    rewrite E2. cbv beta iota zeta.
    rewrite (R_len _ _ _ R2).
    destruct (N.ltb_spec len (39 + sid + 2)); [lia|].
    destruct (R_range 0 len l2 (39 + sid + 2 - 2) (39 + sid + 2) _ _ R2 P3) as (l3 & E3 & R3);
      [lia|change (blen (be16 su)) with 2; lia|].
    rewrite E3. cbv beta iota zeta.
    rewrite <- (app_nil_r (be16 su)), u16_be16.
    rewrite (R_len _ _ _ R3).
    destruct (N.ltb_spec len (39 + sid + 2 + su + 1)); [lia|].
    destruct (R_at 0 len l3 (39 + sid + 2 + su + 1 - 1) _ _ R3 P4) as (l4 & E4 & R4); [lia|lia|].
    rewrite E4. cbv beta iota zeta.
    rewrite (R_len _ _ _ R4).
    destruct (N.ltb_spec len (39 + sid + 2 + su + 1 + cm + 2)); [lia|].
    destruct (R_range 0 len l4 (39 + sid + 2 + su + 1 + cm + 2 - 2) (39 + sid + 2 + su + 1 + cm + 2)
                _ _ R4 P5) as (l5 & E5 & R5);
      [lia|change (blen (be16 E)) with 2; lia|].
    rewrite E5. cbv beta iota zeta.
    rewrite <- (app_nil_r (be16 E)), u16_be16.
    rewrite (R_len _ _ _ R5).
    destruct (N.ltb_spec len (39 + sid + 2 + su + 1 + cm + 2 + E)); [lia|].
    pose proof (HR _ _ _ R5) as (_ & _ & _ & _ & Hsl).
    destruct (Hsl (39 + sid + 2 + su + 1 + cm + 2 + E - E) (39 + sid + 2 + su + 1 + cm + 2 + E))
      as (l6 & len6 & E6 & Hl6 & R6); [lia|lia|].
    rewrite E6. unfold find_sni_extension, raw_name_of.
    pose proof (HR _ _ _ R6) as (_ & Hfu & _).
    apply (find_loop_ok (h_exts h) _ _ _ len6 l6 0 R6).
    - assumption.
    - replace (0 + (39 + sid + 2 + su + 1 + cm + 2 + E - E) + 0) with (0 + 6 + 32 + 1 + sid + 2 + su + 1 + cm + 2) by lia.
      exact P6.
    - fold E. lia.
    - fold E. lia.
    - fold E. lia.
  Qed.
End Generic.

(* ------------------------------------------------------------------ instance: the byte locator *)
Definition R_bytes (s slack : bytes) (base len : N) (l : bloc) : Prop :=
  l = {| b_data := skipn (N.to_nat base) (s ++ slack); b_len := len |}.

Lemma sub_skipn_app (s slack : bytes) base i j :
  i <= j -> base + j <= blen s ->
  sub (skipn (N.to_nat base) (s ++ slack)) i j = sub s (base + i) (base + j).
Proof.
  intros Hij Hj. unfold sub. rewrite skipn_skipn'.
  replace (N.to_nat base + N.to_nat i)%nat with (N.to_nat (base + i)) by lia.
  replace (base + j - (base + i)) with (j - i) by lia.
  rewrite skipn_app, firstn_app.
  replace (N.to_nat (j - i) - length (skipn (N.to_nat (base + i)) s))%nat with 0%nat.
  - rewrite firstn_O. apply app_nil_r.
  - rewrite skipn_length. unfold blen in Hj. lia.
Qed.

Lemma bytes_closed s slack : reads_closed bytes_ops s (R_bytes s slack).
Proof.
  intros base len l H. unfold R_bytes in *. subst l.
  cbn [op_len op_range op_at op_slice op_fuel bytes_ops b_len b_data].
  split; [reflexivity|]. split; [|split; [|split]].
  - rewrite skipn_length, app_length. unfold blen. lia.
  - intros i j Hij Hj. eexists. split; [|reflexivity].
    unfold b_range. cbn [b_data].
    assert (Hb : (i <=? j) && (j <=? blen (skipn (N.to_nat base) (s ++ slack))) = true).
    { unfold blen in *. rewrite skipn_length, app_length. lia. }
    rewrite Hb. now rewrite sub_skipn_app.
  - intros i Hi Hl. eexists. split; [|reflexivity].
    unfold b_at. cbn [b_len b_data].
    destruct (N.ltb_spec i len); [|lia].
    rewrite nth_skipn'.
    replace (N.to_nat base + N.to_nat i)%nat with (N.to_nat (base + i)) by lia.
    rewrite app_nth1 by (unfold blen in Hi; lia). reflexivity.
  - intros i j Hij Hj. eexists. exists (j - i). split; [|split; [lia|reflexivity]].
    unfold b_slice. cbn [b_data].
    assert (Hb : (i <=? j) && (j <=? blen (skipn (N.to_nat base) (s ++ slack))) = true).
    { unfold blen in *. rewrite skipn_length, app_length. lia. }
    rewrite Hb. rewrite skipn_skipn'.
    replace (N.to_nat base + N.to_nat i)%nat with (N.to_nat (base + i)) by lia. reflexivity.
Qed.

Lemma C06_tls_roundtrip_proof : C06_tls_roundtrip_stmt.
Proof.
  intros h slack Hwf. unfold extract_sni_bytes.
  apply (extract_generic bytes_ops (enc_handshake h) (R_bytes (enc_handshake h) slack)
           (bytes_closed _ _) h (blen (enc_handshake h))); auto.
  - reflexivity.
  - lia.
Qed.

(* ------------------------------------------------------------------ instance: one-block linear locator *)
Definition R_lin (s : bytes) (base len : N) (l : lloc) : Prop :=
  l = {| l_left := base; l_length := len; l_iouter := 0; l_bend := blen s; l_bstart := 0;
         l_bdata := s; l_o := [(0, s)] |}.

Lemma lin_closed s : reads_closed linear_ops s (R_lin s).
Proof.
  intros base len l H. unfold R_lin in *. subst l.
  cbn [op_len op_range op_at op_slice op_fuel linear_ops l_length l_o map snd concat].
  split; [reflexivity|]. split; [|split; [|split]].
  - rewrite app_nil_r. unfold blen. lia.
  - intros i j Hij Hj. eexists. split; [|reflexivity].
    unfold l_range. cbn [l_o l_left length Nat.eqb].
    destruct (N.eqb_spec i j) as [->|Hne].
    + unfold sub. rewrite N.sub_diag. reflexivity.
    + destruct (N.ltb_spec j i); [lia|].
      unfold relocate, relocate_loop. cbn [l_bend l_o l_iouter length l_bstart].
      destruct (N.leb_spec (blen s) (i + base)); [lia|].
      cbv beta iota. cbn [l_bend l_bstart l_bdata].
      replace (i + base <? 0) with false by lia.
      cbv beta iota. cbn [l_bend l_bstart l_bdata].
      destruct (N.ltb_spec (j + base - 1) (blen s)); [|lia].
      unfold chk_sub. replace (0 <=? i + base) with true by lia. replace (0 <=? j + base - 1 + 1) with true by lia.
      cbv beta iota. unfold chk_slice.
      assert (Hb : (i + base - 0 <=? j + base - 1 + 1 - 0) && (j + base - 1 + 1 - 0 <=? blen s) = true) by lia.
      rewrite Hb. f_equal. f_equal. f_equal; lia.
  - intros i Hi Hl. eexists. split; [|reflexivity].
    unfold l_at. cbn [l_o l_left length Nat.eqb].
    unfold relocate, relocate_loop. cbn [l_bend l_o l_iouter length l_bstart].
    destruct (N.leb_spec (blen s) (i + base)); [lia|].
    cbv beta iota. cbn [l_bend l_bstart l_bdata].
    replace (i + base <? 0) with false by lia.
    cbv beta iota. cbn [l_bend l_bstart l_bdata].
    unfold chk_sub. replace (0 <=? i + base) with true by lia. cbv beta iota.
    destruct (N.ltb_spec (i + base - 0) (blen s)); [|lia].
    f_equal. f_equal. f_equal. lia.
  - intros i j Hij Hj. eexists. exists (j - i + 1). split; [|split; [lia|reflexivity]].
    unfold l_slice. reflexivity.
Qed.

Lemma C06_quic_single_block : forall h, wf_hello h = true ->
  extract_sni_linear [(0, enc_handshake h)] = raw_name_of h.
Proof.
  intros h Hwf. unfold extract_sni_linear.
  apply (extract_generic linear_ops (enc_handshake h) (R_lin (enc_handshake h))
           (lin_closed _) h (blen (enc_handshake h))); auto.
  - reflexivity.
  - lia.
Qed.

(* ------------------------------------------------------------------ NormalizeDomain on a wire name *)
Lemma match46 {A} (b : N) (x y : A) :
  match b with 46 => x | _ => y end = if b =? 46 then x else y.
Proof.
  destruct (N.eqb_spec b 46) as [->|Hne]; [reflexivity|].
  destruct b as [|p]; [reflexivity|].
  do 6 (destruct p as [p|p|]; try reflexivity). congruence.
Qed.

Lemma strip_dot_eq n :
  strip_dot n = match rev n with b :: r => if b =? 46 then rev r else n | [] => n end.
Proof. unfold strip_dot. destruct (rev n) as [|b r]; [reflexivity|]. apply match46. Qed.

Lemma ends_with_dot_eq n :
  ends_with_dot n = match rev n with b :: _ => b =? 46 | [] => false end.
Proof.
  unfold ends_with_dot. destruct (rev n) as [|b r]; [reflexivity|].
  rewrite (match46 b true false). destruct (b =? 46); reflexivity.
Qed.

Lemma lower_46 b : (lower b =? 46) = (b =? 46).
Proof. unfold lower. destruct ((65 <=? b) && (b <=? 90)) eqn:E; lia. Qed.

Lemma strip_dot_map_lower n : strip_dot (map lower n) = map lower (strip_dot n).
Proof.
  rewrite !strip_dot_eq, <- map_rev. destruct (rev n) as [|b r]; cbn [map]; [reflexivity|].
  rewrite lower_46. destruct (b =? 46); [now rewrite map_rev|reflexivity].
Qed.

Lemma forallb_rev (P : N -> bool) l : forallb P (rev l) = forallb P l.
Proof.
  induction l as [|a l IH]; [reflexivity|]. cbn [rev forallb]. rewrite forallb_app, IH.
  cbn [forallb]. destruct (P a), (forallb P l); reflexivity.
Qed.

Lemma forallb_impl (P Q : N -> bool) l :
  (forall b, P b = true -> Q b = true) -> forallb P l = true -> forallb Q l = true.
Proof.
  intros HPQ. induction l as [|a l IH]; [reflexivity|]. cbn [forallb]. intros H.
  apply andb_prop in H. destruct H as [Ha Hl]. rewrite (HPQ _ Ha), (IH Hl). reflexivity.
Qed.

Lemma forallb_map (Q : N -> bool) (f : N -> N) l : forallb Q (map f l) = forallb (fun b => Q (f b)) l.
Proof. induction l as [|a l IH]; [reflexivity|]. cbn [map forallb]. now rewrite IH. Qed.

Lemma strip_dot_forallb P n : forallb P n = true -> forallb P (strip_dot n) = true.
Proof.
  intros H. rewrite strip_dot_eq. destruct (rev n) as [|b r] eqn:Er; [exact H|].
  destruct (b =? 46); [|exact H].
  rewrite <- forallb_rev, Er in H. cbn [forallb] in H. apply andb_prop in H. destruct H as [_ H].
  now rewrite forallb_rev.
Qed.

Lemma strip_dot_id n : ends_with_dot n = false -> strip_dot n = n.
Proof.
  rewrite ends_with_dot_eq, strip_dot_eq. destruct (rev n) as [|b r]; [reflexivity|].
  intros ->. reflexivity.
Qed.

Lemma ltrim_sp_id l : forallb (fun b => negb (is_space b)) l = true -> ltrim_sp l = l.
Proof.
  destruct l as [|a l]; [reflexivity|]. cbn [forallb ltrim_sp]. intros H.
  apply andb_prop in H. destruct H as [Ha _]. destruct (is_space a); [discriminate|reflexivity].
Qed.

Lemma trim_sp_id l : forallb (fun b => negb (is_space b)) l = true -> trim_sp l = l.
Proof.
  intros H. unfold trim_sp. rewrite (ltrim_sp_id l H).
  rewrite ltrim_sp_id by now rewrite forallb_rev. apply rev_involutive.
Qed.

Lemma index_byte_none c l : forallb (fun b => negb (b =? c)) l = true -> index_byte c l = None.
Proof.
  induction l as [|a l IH]; [reflexivity|]. cbn [forallb index_byte]. intros H.
  apply andb_prop in H. destruct H as [Ha Hl]. destruct (a =? c); [discriminate|].
  now rewrite (IH Hl).
Qed.

Lemma last_is_false c l : forallb (fun b => negb (b =? c)) l = true -> last_is c l = false.
Proof.
  intros H. unfold last_is. rewrite <- forallb_rev in H. destruct (rev l) as [|a r]; [reflexivity|].
  cbn [forallb] in H. apply andb_prop in H. destruct H as [Ha _]. destruct (a =? c); [discriminate|reflexivity].
Qed.

Lemma normalize_host m :
  forallb host_char m = true -> ends_with_dot m = false -> normalize_domain m = map lower m.
Proof.
  intros Hc Hd. unfold normalize_domain.
  rewrite trim_sp_id.
  2:{ revert Hc. apply forallb_impl. intros b. unfold host_char, is_space. lia. }
  assert (H93 : forallb (fun b => negb (b =? 93)) (map lower m) = true).
  { rewrite forallb_map. revert Hc. apply forallb_impl. intros b. unfold host_char, lower.
    destruct ((65 <=? b) && (b <=? 90)) eqn:E; lia. }
  assert (H58 : forallb (fun b => negb (b =? 58)) (map lower m) = true).
  { rewrite forallb_map. revert Hc. apply forallb_impl. intros b. unfold host_char, lower.
    destruct ((65 <=? b) && (b <=? 90)) eqn:E; lia. }
  rewrite (last_is_false _ _ H93).
  unfold split_host_port, last_index_byte.
  rewrite index_byte_none by now rewrite forallb_rev.
  rewrite strip_dot_map_lower, (strip_dot_id _ Hd). reflexivity.
Qed.

Lemma normalize_wire_name n : wf_name n = true -> normalize_domain (strip_dot n) = norm_name n.
Proof.
  unfold wf_name. intros H. apply andb_prop in H. destruct H as [Hc Hd].
  rewrite normalize_host.
  - unfold norm_name. now rewrite strip_dot_map_lower.
  - now apply strip_dot_forallb.
  - destruct (ends_with_dot (strip_dot n)); [discriminate|reflexivity].
Qed.

(* ------------------------------------------------------------------ the stream round trip *)
Lemma sniff_tls_record h m rest slack :
  wf_hello h = true -> sniff_tls (enc_record m h ++ rest) slack = raw_name_of h.
Proof.
  intros Hwf. set (msg := enc_handshake h).
  assert (Eb : enc_record m h ++ rest
               = 22 :: 3 :: m :: blen msg / 256 :: blen msg mod 256 :: (msg ++ rest)) by reflexivity.
  rewrite Eb. clear Eb. unfold sniff_tls.
  set (hi := blen msg / 256). set (lo := blen msg mod 256).
  destruct (N.ltb_spec (blen (22 :: 3 :: m :: hi :: lo :: msg ++ rest)) 5) as [Hlt|_].
  { rewrite !blen_cons in Hlt. lia. }
  change (nthb 0 (22 :: 3 :: m :: hi :: lo :: msg ++ rest)) with 22.
  change (nthb 1 (22 :: 3 :: m :: hi :: lo :: msg ++ rest)) with 3.
  change (nthb 3 (22 :: 3 :: m :: hi :: lo :: msg ++ rest)) with hi.
  change (nthb 4 (22 :: 3 :: m :: hi :: lo :: msg ++ rest)) with lo.
  change (skipn 5 (22 :: 3 :: m :: hi :: lo :: msg ++ rest)) with (msg ++ rest).
  change tls_content_handshake with 22. change (22 =? 22) with true. change (3 =? 3) with true.
  cbn [negb orb]. cbv zeta.
  unfold hi, lo. rewrite be16_dec.
  destruct (N.ltb_spec (blen (msg ++ rest)) (blen msg)) as [Hlt|_].
  { rewrite blen_app in Hlt. lia. }
  unfold blen at 1 2. rewrite !Nat2N.id.
  rewrite firstn_app, firstn_all, Nat.sub_diag, firstn_O, app_nil_r.
  rewrite skipn_app, skipn_all, Nat.sub_diag. cbn [skipn app].
  apply C06_tls_roundtrip_proof. exact Hwf.
Qed.

Lemma C06_tls_stream_roundtrip_proof : C06_tls_stream_roundtrip_stmt.
Proof.
  intros h m rest slack Hwf Hn _. unfold sniff_group_tcp.
  rewrite (sniff_tls_record h m rest slack Hwf).
  unfold raw_name_of, name_of, hello_names_wf in *.
  destruct (carried_name (h_exts h)) as [n|]; cbn [norm_outcome]; [|reflexivity].
  f_equal. now apply normalize_wire_name.
Qed.

Print Assumptions extract_generic.
Print Assumptions C06_tls_roundtrip_proof.
Print Assumptions C06_quic_single_block.
Print Assumptions C06_tls_stream_roundtrip_proof.
