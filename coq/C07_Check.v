(* C07 — executable comparison functions used by the generated cases files (no proofs). *)
From Coq Require Import List NArith Bool String Ascii.
From Dae Require Import C07_Spec C07_Model.
From Dae.gen Require Import C07_Consts.
Import ListNotations.
Open Scope N_scope.

Definition req_code (v : req_verdict) : N := match v with QReject => 0xFC | QAsIs => 0xFD | QUp i => i end.
Definition resp_code (v : resp_verdict) : N := match v with PAccept => 0xFC | PReject => 0xFD | PUp i => i end.
Definition res_code {A} (f : A -> N) (r : res A) : N := match r with Ok a => f a | Err e => 1000 + e end.
Definition opt_code {A} (f : A -> N) (o : option A) : N := match o with Some a => f a | None => 2000 end.
(* errors compare by "is an error" between implementation/model and spec *)
Definition cls (c : N) : N := if 1000 <=? c then 1000 else c.

Definition rr_eqb (a b : rr) : bool :=
  match a, b with
  | RA x, RA y => x =? y
  | RAAAA x, RAAAA y => x =? y
  | ROther x, ROther y => x =? y
  | _, _ => false
  end.
Fixpoint list_eqb {A} (eqb : A -> A -> bool) (a b : list A) : bool :=
  match a, b with
  | [], [] => true
  | x :: a', y :: b' => eqb x y && list_eqb eqb a' b'
  | _, _ => false
  end.
Definition subset {A} (eqb : A -> A -> bool) (l1 l2 : list A) : bool := forallb (fun x => existsb (eqb x) l2) l1.
Definition same_set {A} (eqb : A -> A -> bool) (l1 l2 : list A) : bool :=
  subset eqb l1 l2 && subset eqb l2 l1 && Nat.eqb (List.length l1) (List.length l2).

(* ------------------------------------------------------------------------------------------------ *)
(* matcher cases                                                                                     *)
(* ------------------------------------------------------------------------------------------------ *)
Record probe := {
  pr_resp : bool; pr_q : question; pr_ans : list rr; pr_from : src;
  pr_bm : list N;        (* what the implementation's domain matcher returned for the name (32-bit words) *)
  pr_impl : N;           (* verdict code of RequestSelect / ResponseSelect of the Dns made by dns.New; 1000+class for an error *)
  pr_raw : N }.          (* the same through matchers built WITHOUT the optimizers (the lowering the model describes);
                            pr_bm is the bitmap of that matcher *)

Definition mdump := (list (N * N * bool * N) * list (N * N * list string) * list N)%type.
   (* match-sets (type, value, not, upstream); domain sets (key 1..4, RuleIndex, domains); one 0 per ip set *)

Record mcase := {
  mc_cfg : config;
  mc_impl_new : N;                 (* 0 = dns.New succeeded, 1000+class otherwise *)
  mc_req_dump : option mdump;      (* builders run without optimizers *)
  mc_resp_dump : option mdump;
  mc_probes : list probe }.

Definition key_code (k : dkind) : N := match k with DFull => 1 | DSuffix => 2 | DKeyword => 3 | DRegex => 4 end.

Definition dump_of (b : builder) : mdump :=
  (map (fun m => (m_type m, m_value m, m_not m, m_up m)) (b_rules b),
   map (fun d => (key_code (ds_key d), ds_index d, ds_domains d)) (b_domsets b),
   map (fun _ => 0) (b_ipsets b)).

Definition quad_eqb (a b : N * N * bool * N) : bool :=
  let '(t1, v1, n1, u1) := a in let '(t2, v2, n2, u2) := b in (t1 =? t2) && (v1 =? v2) && Bool.eqb n1 n2 && (u1 =? u2).
Definition dset_eqb (a b : N * N * list string) : bool :=
  let '(k1, i1, d1) := a in let '(k2, i2, d2) := b in (k1 =? k2) && (i1 =? i2) && list_eqb String.eqb d1 d2.
Definition dump_eqb (a b : mdump) : bool :=
  let '(r1, d1, s1) := a in let '(r2, d2, s2) := b in
  list_eqb quad_eqb r1 r2 && list_eqb dset_eqb d1 d2 && list_eqb N.eqb s1 s2.

Definition probe_model (d : res dns) (p : probe) : N :=
  match d with
  | Err e => 1000 + e
  | Ok d => if pr_resp p then res_code resp_code (response_select d (pr_bm p) (pr_q p) (pr_ans p) (pr_from p))
            else res_code req_code (request_select d (pr_bm p) (pr_q p))
  end.
Definition probe_spec (cfg : config) (p : probe) : N :=
  if pr_resp p then opt_code resp_code (response_route cfg (pr_q p) (pr_ans p) (pr_from p))
  else opt_code req_code (request_route cfg (pr_q p)).

(* the C11 interface on this probe: every registered domain set's bit equals the meaning of its patterns *)
Definition oracle_ok (b : builder) (p : probe) : bool :=
  String.eqb (q_name (pr_q p)) "" ||       (* no name: the matcher is not consulted *)
  forallb (fun ds => match bm_read (pr_bm p) (ds_index ds) with
                     | Some bit => Bool.eqb bit (existsb (fun s => domain_holds (ds_key ds) s (norm_name (q_name (pr_q p)))
                                                                                (q_regex_hits (pr_q p))) (ds_domains ds))
                     | None => false
                     end) (b_domsets b).

(* error codes (probe index, code): 1 impl (raw lowering) <> model   2 impl (dns.New) <> spec   3 model<>spec
                                    4 lowering dump <> model
                                    5 domain-matcher bitmap <> meaning of the patterns (C11 interface)
                                    6 dns.New outcome impl<>model   7 dns.New path <> raw lowering path (optimizers, C04) *)
Fixpoint check_probes (cfg : config) (wf : bool) (d : res dns) (ps : list probe) (n : N) : list (N * N) :=
  match ps with
  | [] => []
  | p :: rest =>
    let m := probe_model d p in
    let s := probe_spec cfg p in
    let orc := match d with
               | Ok d' => oracle_ok (if pr_resp p then d_resp d' else d_req d') p
               | Err _ => true
               end in
    (if m =? pr_raw p then [] else [(n, 1)])
    ++ (if pr_raw p =? pr_impl p then [] else [(n, 7)])
    ++ (if wf then (if cls s =? cls (pr_impl p) then [] else [(n, 2)]) ++ (if cls m =? cls s then [] else [(n, 3)]) else [])
    ++ (if orc then [] else [(n, 5)])
    ++ check_probes cfg wf d rest (n + 1)
  end.

Definition check_dump (sd : side) (cfg : config) (o : option mdump) : list (N * N) :=
  match o with
  | None => []
  | Some dmp =>
    match build_matcher sd (cf_upstreams cfg) (match sd with Request => cf_request cfg | Response => cf_response cfg end) with
    | Ok b => if dump_eqb (dump_of b) dmp then [] else [(match sd with Request => 0 | Response => 1 end, 4)]
    | Err _ => [(match sd with Request => 0 | Response => 1 end, 4)]
    end
  end.

Definition check_mcase (c : mcase) : list (N * N) :=
  let d := dns_new (mc_cfg c) in
  let wf := wf_config (mc_cfg c) in
  (if res_code (fun _ => 0) d =? mc_impl_new c then [] else [(0, 6)])
  ++ (if wf && negb (mc_impl_new c =? 0) then [(0, 2)] else [])     (* a well-formed section must be accepted *)
  ++ check_dump Request (mc_cfg c) (mc_req_dump c) ++ check_dump Response (mc_cfg c) (mc_resp_dump c)
  ++ check_probes (mc_cfg c) wf d (mc_probes c) 0.

(* index of the first rule that holds (number of rules = fallback) *)
Fixpoint first_index (ups : list string) (rs : list rule) (x : ctx) (i : N) : N :=
  match rs with [] => i | r :: rest => if rule_holds ups r x then i else first_index ups rest x (i + 1) end.
Definition probe_ctx (p : probe) : ctx :=
  if pr_resp p then {| x_q := pr_q p; x_ips := answer_ips (pr_ans p); x_from := pr_from p |}
  else {| x_q := pr_q p; x_ips := []; x_from := SAsIs |}.
Fixpoint count_distinct (l : list N) : N :=
  match l with [] => 0 | x :: r => (if existsb (N.eqb x) r then 0 else 1) + count_distinct r end.

(* signature of a case: (well-formed?, #probes decided by a rule, #probes decided by the fallback,
                         #distinct verdicts, #distinct deciding positions) *)
Definition mcase_signature (c : mcase) : N * N * N * N * N :=
  let cfg := mc_cfg c in
  let ups := cf_upstreams cfg in
  let idx := map (fun p => let rt := if pr_resp p then cf_response cfg else cf_request cfg in
                           (if pr_resp p then 1000 else 0) + first_index ups (rt_rules rt) (probe_ctx p) 0) (mc_probes c) in
  let isfb := map (fun p => let rt := if pr_resp p then cf_response cfg else cf_request cfg in
                            first_index ups (rt_rules rt) (probe_ctx p) 0 =? N.of_nat (List.length (rt_rules rt))) (mc_probes c) in
  ((if wf_config cfg then 1 else 0),
   N.of_nat (List.length (filter negb isfb)), N.of_nat (List.length (filter (fun b => b) isfb)),
   count_distinct (map (probe_spec cfg) (mc_probes c)), count_distinct idx).

(* ------------------------------------------------------------------------------------------------ *)
(* controller cases                                                                                  *)
(* ------------------------------------------------------------------------------------------------ *)
Inductive cstep :=
| CAsk (q : question)
       (script : list (N * list up_reply))      (* per source code (0xFD as-is, i upstream): replies by query number *)
       (impl_out : N) (impl_ans : list rr)      (* 0 + answer section, or 1000+class *)
       (impl_asked : list N)                    (* source codes of the upstreams chosen for the queries (BestDialerChooser calls), in order *)
       (impl_built : list N)                    (* source codes of the upstreams the forwarders that carried the queries were created for *)
       (impl_cache : list centry)               (* cache dump afterwards *)
| CReload (cfg : config).                       (* new rules, same upstreams, cache kept *)

(* identity of the sources (253 as-is, i upstream) and the dial argument the harness's chooser returns for them *)
Record ccase := { cc_cfg : config; cc_ids : list (N * (uid * dialarg)); cc_steps : list cstep }.

Definition id_of (ids : list (N * (uid * dialarg))) (c : N) : option (uid * dialarg) :=
  option_map snd (find (fun e => fst e =? c) ids).
Fixpoint fsteps_of (ids : list (N * (uid * dialarg))) (a : answers) (l : list src) (k : nat) : option (list fstep) :=
  match l with
  | [] => Some []
  | s :: rest =>
    match id_of ids (src_code s), fsteps_of ids a rest (S k) with
    | Some (u, d), Some r => Some ({| fs_u := u; fs_d := d; fs_fail := match a s k with UFail => true | _ => false end |} :: r)
    | _, _ => None
    end
  end.
Fixpoint built_matches (ids : list (N * (uid * dialarg))) (codes : list N) (us : list uid) : bool :=
  match codes, us with
  | [], [] => true
  | c :: cs, u :: r => match id_of ids c with Some (u', _) => uid_same u' u | None => false end && built_matches ids cs r
  | _, _ => false
  end.

(* the bitmap a correct domain matcher returns (C11 interface, as a function): bit i = some set registered under i holds.
   The controller harness cannot reach the matchers' bitmaps (unexported fields of another package). *)
Definition ideal_bm (b : builder) (q : question) : list N :=
  map (fun w => fold_left (fun acc ds =>
                   if (ds_index ds / 32 =? w)
                      && existsb (fun s => domain_holds (ds_key ds) s (norm_name (q_name q)) (q_regex_hits q)) (ds_domains ds)
                   then N.lor acc (N.shiftl 1 (ds_index ds mod 32)) else acc) (b_domsets b) 0)
      (map N.of_nat (seq 0 32)).

Definition answers_of (script : list (N * list up_reply)) : answers :=
  fun s k => match find (fun e => fst e =? src_code s) script with
             | Some e => nth k (snd e) UFail
             | None => UFail
             end.

Definition centry_eqb (a b : centry) : bool :=
  String.eqb (ce_name a) (ce_name b) && (ce_type a =? ce_type b) && (ce_scope a =? ce_scope b)
  && list_eqb rr_eqb (ce_answer a) (ce_answer b).

Definition outcome_code (o : outcome) : N :=
  match o with Replied _ => 0 | TooDeep => 1000 + E_TOO_DEEP | UpstreamFailed => 1000 + E_UPSTREAM_FAIL | RouteError => 2000 end.
Definition outcome_ans (o : outcome) : list rr := match o with Replied a => a | _ => [] end.
Definition mres_code (r : res (list rr)) : N := match r with Ok _ => 0 | Err e => 1000 + e end.
Definition mres_ans (r : res (list rr)) : list rr := match r with Ok a => a | Err _ => [] end.

(* error codes (step, code): 11 outcome impl<>model  12 outcome impl<>spec  13 outcome model<>spec
                             21 asked impl<>model    22 asked impl<>spec
                             31 cache impl<>model    32 cache impl<>spec
                             51 forwarder built-for impl<>model  52 impl<>spec (a query left through a forwarder created for
                                another upstream than the chosen one)  53 model<>spec  50 unknown source
                             41 a rejected question got a non-empty answer or left an entry of its family (impl)
                             42 more upstream queries than MaxDnsLookupDepth (impl)   6 dns.New failed in the model *)
Fixpoint check_steps (ids : list (N * (uid * dialarg))) (cfg : config) (d : res dns) (mc sc : cache) (fc : fcache)
         (steps : list cstep) (n : N) : list (N * N) :=
  match steps with
  | [] => []
  | CReload cfg' :: rest => check_steps ids cfg' (dns_new cfg') mc sc fc rest (n + 1)
  | CAsk q script iout ians iasked ibuilt icache :: rest =>
    match d with
    | Err _ => [(n, 6)]
    | Ok dd =>
      let a := answers_of script in
      let bmq := ideal_bm (d_req dd) q in
      let bmr := ideal_bm (d_resp dd) q in
      let '(mr, ml, mc') := handle 10 dd bmq bmr mc q a in
      let '(so, sl, sc') := answer_question (N.to_nat MaxDnsLookupDepth) cfg sc q a in
      let asked_m := map src_code ml in
      let asked_s := map src_code sl in
      let rejected := match request_route cfg q with Some QReject => true | _ => false end in
      let mf := fsteps_of ids a ml 0 in
      let sf := fsteps_of ids a sl 0 in
      let '(mbuilt, fc') := match mf with Some h => run_forward fc h | None => ([], fc) end in
      (match mf, sf with
       | Some _, Some sh =>
         (if built_matches ids ibuilt mbuilt then [] else [(n, 51)])
         ++ (if built_matches ids ibuilt (map fs_u sh) then [] else [(n, 52)])
         ++ (if carried_ok (map fs_u sh) mbuilt then [] else [(n, 53)])
       | _, _ => [(n, 50)]
       end) ++
      (if (mres_code mr =? iout) && list_eqb rr_eqb (mres_ans mr) ians then [] else [(n, 11)])
      ++ (if (cls (outcome_code so) =? cls iout) && list_eqb rr_eqb (outcome_ans so) ians then [] else [(n, 12)])
      ++ (if (cls (mres_code mr) =? cls (outcome_code so)) && list_eqb rr_eqb (mres_ans mr) (outcome_ans so) then [] else [(n, 13)])
      ++ (if list_eqb N.eqb asked_m iasked then [] else [(n, 21)])
      ++ (if list_eqb N.eqb asked_s iasked then [] else [(n, 22)])
      ++ (if same_set centry_eqb mc' icache then [] else [(n, 31)])
      ++ (if same_set centry_eqb sc' icache then [] else [(n, 32)])
      ++ (if rejected && negb ((iout =? 0) && (Nat.eqb (List.length ians) 0) && (Nat.eqb (List.length iasked) 0)
                               && negb (existsb (same_family q) icache)) then [(n, 41)] else [])
      ++ (if N.of_nat (List.length iasked) <=? MaxDnsLookupDepth then [] else [(n, 42)])
      ++ check_steps ids cfg d mc' sc' fc' rest (n + 1)
    end
  end.

Definition check_ccase (c : ccase) : list (N * N) :=
  (if wf_config (cc_cfg c) then [] else [(0, 7)]) ++ check_steps (cc_ids c) (cc_cfg c) (dns_new (cc_cfg c)) [] [] [] (cc_steps c) 0.

(* signature: (#rejected asks, #cache hits, #asks with 1 query, #with 2, #with 3, #too deep) in the spec's reading *)
Fixpoint csig_steps (cfg : config) (sc : cache) (steps : list cstep) (acc : N * N * N * N * N * N) : N * N * N * N * N * N :=
  match steps with
  | [] => acc
  | CReload cfg' :: rest => csig_steps cfg' sc rest acc
  | CAsk q script _ _ _ _ _ :: rest =>
    let '(so, sl, sc') := answer_question (N.to_nat MaxDnsLookupDepth) cfg sc q (answers_of script) in
    let '(a, b, c1, c2, c3, dd) := acc in
    let rejected := match request_route cfg q with Some QReject => true | _ => false end in
    let nq := List.length sl in
    let deep := match so with TooDeep => true | _ => false end in
    csig_steps cfg sc' rest
      ((if rejected then a + 1 else a),
       (if negb rejected && Nat.eqb nq 0 then b + 1 else b),
       (if Nat.eqb nq 1 then c1 + 1 else c1), (if Nat.eqb nq 2 then c2 + 1 else c2),
       (if Nat.eqb nq 3 && negb deep then c3 + 1 else c3), (if deep then dd + 1 else dd))
  end.
Definition ccase_signature (c : ccase) : N * N * N * N * N * N := csig_steps (cc_cfg c) [] (cc_steps c) (0, 0, 0, 0, 0, 0).

(* ------------------------------------------------------------------------------------------------ *)
(* written request lists with internal selectors: the split, dns.New on them, daedns.Router           *)
(* ------------------------------------------------------------------------------------------------ *)
Definition plan_code (p : plan) : N :=
  match p with PlanUp i => i | PlanBootstrap => 300 | PlanBase => 301 | PlanErr => 2000 end.
Definition opt_str_eqb (a b : option string) : bool :=
  match a, b with Some x, Some y => String.eqb x y | None, None => true | _, _ => false end.

Record rprobe := {
  rp_sub : bool;                    (* a subscription (true) or a node (false) *)
  rp_meta : meta;                   (* m_host: the control host (node: AddressHost; subscription: host of the link) *)
  rp_lookup : string;               (* the host the wrapped dialer resolves *)
  rp_qhits : list string;           (* qname regex patterns matching the lookup host *)
  rp_impl_named : option string;    (* MatchNodeUpstream / MatchSubscriptionUpstream *)
  rp_impl_dname : string;           (* resolvingDialer.upstreamName *)
  rp_impl_dcontrol : string;        (* resolvingDialer.controlHost *)
  rp_impl_plan : N;                 (* observed through LookupIPAddr: plan_code, 302 unwrapped, 1000+class *)
  rp_ver : N;                       (* family the caller asked for: 4, 6, 0 = both *)
  rp_impl_sent : list (N * N);      (* questions that reached an upstream: (qtype, upstream), in order *)
  rp_impl_by : N }.                 (* who produced the result: 0 upstreams, 300 bootstrap, 301 base, 302 unwrapped, 1000+class *)

Record rcase := {
  rk_rc : rconfig;
  rk_impl_new : N;                                            (* dns.New: 0 or 1000+class *)
  rk_impl_split : option (list N * list N * list N * list N); (* positions of the rules of the four lists; None = split error *)
  rk_qprobes : list probe;                                    (* ordinary questions (pr_resp = false) *)
  rk_impl_router : N;                                         (* 0 nil router, 1 router, 1000+class *)
  rk_rprobes : list rprobe }.

Fixpoint positions (f : rrule -> bool) (rs : list rrule) (i : N) : list N :=
  match rs with [] => [] | r :: rest => (if f r then [i] else []) ++ positions f rest (i + 1) end.
Definition cls_is (o : option ikind) (r : rrule) : bool :=
  match classify r, o with
  | Ok None, None => true
  | Ok (Some k), Some k' => ikind_eqb k k'
  | _, _ => false
  end.

Definition cfg_of_rc (rc : rconfig) : config :=
  {| cf_upstreams := rc_upstreams rc;
     cf_request := {| rt_rules := map to_rule (filter (fun r => cls_is None r) (rc_request rc)); rt_fallback := rc_fallback rc |};
     cf_response := rc_response rc |}.

Fixpoint check_qprobes (rc : rconfig) (wf : bool) (d : res dns) (ps : list probe) (n : N) : list (N * N) :=
  match ps with
  | [] => []
  | p :: rest =>
    let m := match d with Err e => 1000 + e | Ok d' => res_code req_code (request_select d' (pr_bm p) (pr_q p)) end in
    let s := opt_code req_code (request_route_raw rc (pr_q p)) in
    let orc := match d with Ok d' => oracle_ok (d_req d') p | Err _ => true end in
    (if m =? pr_raw p then [] else [(n, 1)])
    ++ (if pr_raw p =? pr_impl p then [] else [(n, 7)])
    ++ (if wf then (if cls s =? cls (pr_impl p) then [] else [(n, 2)]) ++ (if cls m =? cls s then [] else [(n, 3)]) else [])
    ++ (if orc then [] else [(n, 5)])
    ++ check_qprobes rc wf d rest (n + 1)
  end.

Definition rprobe_question (p : rprobe) : question :=
  {| q_name := rp_lookup p; q_type := 1; q_regex_hits := rp_qhits p |}.

(* error codes of the selector probes (100 + probe index, code):
   21 named impl<>model  22 named impl<>spec  23 named model<>spec  24 dialer fields do not carry the named upstream / control host
   31 plan impl<>model   32 plan impl<>spec   33 plan model<>spec
   41 questions sent per family impl<>model   42 impl<>spec (a family's question went to another upstream than the first
      match for that (name, qtype) says, or was sent although asis/reject)   43 model<>spec *)
Fixpoint check_rprobes (rc : rconfig) (wf : bool) (r : option router) (ps : list rprobe) (n : N) : list (N * N) :=
  match ps with
  | [] => []
  | p :: rest =>
    let m := rp_meta p in
    let q := rprobe_question p in
    let named_s := if rp_sub p then subscription_upstream (rc_request rc) m else node_upstream (rc_request rc) m in
    let plan_s := plan_code (lookup_plan rc named_s (m_host m) (rp_lookup p) q) in
    (match r with
     | None =>
       (if (rp_impl_plan p =? 302) && opt_str_eqb (rp_impl_named p) None then [] else [(100 + n, 31)])
     | Some ro =>
       let named_m := if rp_sub p then match_subscription_upstream ro m else match_node_upstream ro m in
       let plan_m := res_code plan_code (dialer_plan ro named_m (m_host m) (rp_lookup p) (ideal_bm (ro_req ro) q) q) in
       (if opt_str_eqb named_m (rp_impl_named p) then [] else [(100 + n, 21)])
       ++ (if wf then (if opt_str_eqb named_s (rp_impl_named p) then [] else [(100 + n, 22)])
                      ++ (if opt_str_eqb named_m named_s then [] else [(100 + n, 23)]) else [])
       ++ (if String.eqb (rp_impl_dname p) (match rp_impl_named p with Some u => u | None => ""%string end)
              && String.eqb (rp_impl_dcontrol p) (m_host m) then [] else [(100 + n, 24)])
       ++ (let pair_eqb := fun (a b : N * N) => (fst a =? fst b) && (snd a =? snd b) in
           let '(sent_m, by_m) := dialer_lookup ro named_m (m_host m) (rp_lookup p) (rp_ver p) (ideal_bm (ro_req ro) q) q in
           let '(sent_s, by_s) := lookup_spec rc named_s (m_host m) (rp_lookup p) (rp_ver p) q in
           (if list_eqb pair_eqb sent_m (rp_impl_sent p) && (by_m =? rp_impl_by p) then [] else [(100 + n, 41)])
           ++ (if wf then (if list_eqb pair_eqb sent_s (rp_impl_sent p) && (cls by_s =? cls (rp_impl_by p)) then [] else [(100 + n, 42)])
                          ++ (if list_eqb pair_eqb sent_m sent_s && (cls by_m =? cls by_s) then [] else [(100 + n, 43)]) else []))
       ++ (if plan_m =? rp_impl_plan p then [] else [(100 + n, 31)])
       ++ (if wf then (if cls plan_s =? cls (rp_impl_plan p) then [] else [(100 + n, 32)])
                      ++ (if cls plan_m =? cls plan_s then [] else [(100 + n, 33)]) else [])
     end)
    ++ check_rprobes rc wf r rest (n + 1)
  end.

(* error codes (index, code) of an rcase: 1 2 3 5 7 as for matcher probes; 4 split lists impl<>model;
   6 dns.New outcome impl<>model; 8 a mixed rule was not refused / a clean list was refused (impl vs spec shapes);
   16 router construction outcome impl<>model; 12 a well-formed list refused by the router *)
Definition check_rcase (c : rcase) : list (N * N) :=
  let rc := rk_rc c in
  let rs := rc_request rc in
  let wf := wf_rconfig rc in
  let d := dns_new_raw rc in
  let mixed_m := existsb (fun r => match classify r with Err _ => true | Ok _ => false end) rs in
  let mixed_s := existsb (fun r => shape_eqb (shape_of r) ShMixed) rs in
  let split_m := (positions (cls_is None) rs 0, positions (cls_is (Some ISub)) rs 0,
                  positions (cls_is (Some INode)) rs 0, positions (cls_is (Some ISubNode)) rs 0) in
  let rt := router_new rc in
  let rt_code := match rt with Ok None => 0 | Ok (Some _) => 1 | Err e => 1000 + e end in
  (if res_code (fun _ => 0) d =? rk_impl_new c then [] else [(0, 6)])
  ++ (if wf && negb (rk_impl_new c =? 0) then [(0, 2)] else [])
  ++ (match rk_impl_split c with
      | None => if mixed_m then [] else [(0, 4)]
      | Some (a, b, c1, c2) =>
        let '(ma, mb, mc1, mc2) := split_m in
        if negb mixed_m && list_eqb N.eqb a ma && list_eqb N.eqb b mb && list_eqb N.eqb c1 mc1 && list_eqb N.eqb c2 mc2
        then [] else [(0, 4)]
      end)
  ++ (if Bool.eqb mixed_s (match rk_impl_split c with None => true | Some _ => false end) then [] else [(0, 8)])
  ++ check_qprobes rc wf d (rk_qprobes c) 0
  ++ (if rt_code =? rk_impl_router c then [] else [(0, 16)])
  ++ (if wf && (1000 <=? rk_impl_router c) then [(0, 12)] else [])
  ++ (match rt with
      | Ok r => check_rprobes rc wf r (rk_rprobes c) 0
      | Err _ => []
      end).

(* signature: (well-formed, #dns rules, #internal rules, #selector probes named by a subnode/sub rule or node rule,
               #unnamed, #distinct plans, #ordinary questions decided by a rule) *)
Definition rcase_signature (c : rcase) : N * N * N * N * N * N * N :=
  let rc := rk_rc c in
  let rs := rc_request rc in
  let nd := N.of_nat (List.length (filter (fun r => shape_eqb (shape_of r) ShDns) rs)) in
  let named := map (fun p => if rp_sub p then subscription_upstream rs (rp_meta p) else node_upstream rs (rp_meta p)) (rk_rprobes c) in
  let plans := map (fun p => let named_s := if rp_sub p then subscription_upstream rs (rp_meta p) else node_upstream rs (rp_meta p) in
                             plan_code (lookup_plan rc named_s (m_host (rp_meta p)) (rp_lookup p) (rprobe_question p))) (rk_rprobes c) in
  let ups := rc_upstreams rc in
  let ruled := filter (fun p => negb (first_index ups (map to_rule (filter (fun r => shape_eqb (shape_of r) ShDns) rs))
                                                  {| x_q := pr_q p; x_ips := []; x_from := SAsIs |} 0 =? nd)) (rk_qprobes c) in
  ((if wf_rconfig rc then 1 else 0), nd, N.of_nat (List.length rs) - nd,
   N.of_nat (List.length (filter (fun o => match o with Some _ => true | None => false end) named)),
   N.of_nat (List.length (filter (fun o => match o with Some _ => false | None => true end) named)),
   count_distinct plans, N.of_nat (List.length ruled)).

(* ------------------------------------------------------------------------------------------------ *)
(* concurrent lazy initialisation of an upstream                                                      *)
(* ------------------------------------------------------------------------------------------------ *)
Record icase := {
  ic_n : nat;
  ic_order : list nat;                       (* tickets in the order the callers are let go *)
  ic_impl : list (bool * N * N) }.           (* per caller in completion order (+ the late one): registered, index, verdict *)

(* the harness's schedule: everybody loads and builds (in ticket order), then one caller after the other finishes *)
Definition ic_sched (c : icase) : list nat :=
  flat_map (fun t => [t; t]) (seq 0 (ic_n c)) ++ flat_map (fun t => repeat t 8) (ic_order c) ++ repeat (ic_n c) 8.
Definition ic_registered (g : istate) (t : nat) : bool :=
  match t_done (g_thr g t) with
  | Some (Some w) => existsb (Nat.eqb w) (g_regd g)
  | _ => false
  end.
(* error codes (caller position, code): 61 registered impl<>model   62 impl<>spec: a caller's upstream is not registered
   under the tag's index 1, or an answer from it is not decided by `upstream(u1) -> reject`   63 model<>spec *)
Definition check_icase (prog : list iop) (c : icase) : list (N * N) :=
  let g := irun (iinit prog) (ic_sched c) in
  let callers := ic_order c ++ [ic_n c] in
  let fix go (ts : list nat) (im : list (bool * N * N)) (n : N) : list (N * N) :=
      match ts, im with
      | [], [] => []
      | t :: ts', (reg, idx, verdict) :: im' =>
        (if Bool.eqb (ic_registered g t) reg then [] else [(n, 61)])
        ++ (if reg && (idx =? 1) && (verdict =? 0xFD) then [] else [(n, 62)])
        ++ (if ic_registered g t then [] else [(n, 63)])
        ++ go ts' im' (n + 1)
      | _, _ => [(n, 61)]
      end in
  go callers (ic_impl c) 0.
