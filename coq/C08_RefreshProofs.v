(* C08 — the refresh slot under every interleaving of its atomic operations (lemmas). *)
From Coq Require Import List ZArith Bool Lia.
From Dae Require Import C08_Spec C08_Model.
Import ListNotations.

(* no thread sits between a test and a set: with the CAS there is no such place *)
Definition no_loaded (p : rpc) : Prop := p <> LLoaded.

Lemma Forall_set_pc : forall (P : rpc -> Prop) l i x, Forall P l -> P x -> Forall P (set_pc l i x).
Proof.
  induction l as [|h t IH]; intros i x HF Hx; destruct i; cbn; try constructor; inversion HF; subst; auto.
Qed.

Lemma nth_error_Forall : forall (P : rpc -> Prop) l i p, Forall P l -> nth_error l i = Some p -> P p.
Proof. intros P l i p HF H. apply nth_error_In in H. rewrite Forall_forall in HF. auto. Qed.

(* invariant: an open claim (a claim after the last completion) implies the flag is set *)
Lemma cas_run_inv : forall sched s (open : bool),
    Forall no_loaded (r_pcs s) -> (open = true -> r_flag s = true) ->
    one_claim_per_cycle open (snd (rrun VCas s sched)) = true.
Proof.
  induction sched as [|i rest IH]; intros s open HF Hinv; [reflexivity|].
  cbn [rrun]. unfold rsched_step. destruct (nth_error (r_pcs s) i) as [p|] eqn:E.
  2:{ specialize (IH s open HF Hinv). destruct (rrun VCas s rest) as [s2 tr]. exact IH. }
  pose proof (nth_error_Forall _ _ _ _ HF E) as Hp.
  destruct p; cbn [rstep].
  - (* LStart: the CAS *)
    destruct (r_flag s) eqn:Ef.
    + specialize (IH {| r_flag := true; r_pcs := set_pc (r_pcs s) i (LDone false) |} open).
      cbn [r_flag r_pcs] in IH. destruct (rrun VCas _ rest) as [s2 tr]. cbn [snd]. apply IH; [|auto].
      apply Forall_set_pc; [assumption | discriminate].
    + assert (Ho : open = false) by (destruct open; [specialize (Hinv eq_refl); discriminate | reflexivity]).
      specialize (IH {| r_flag := true; r_pcs := set_pc (r_pcs s) i (LDone true) |} true).
      cbn [r_flag r_pcs] in IH. destruct (rrun VCas _ rest) as [s2 tr]. cbn [snd one_claim_per_cycle]. rewrite Ho.
      apply IH; [|auto]. apply Forall_set_pc; [assumption | discriminate].
  - exfalso. apply Hp. reflexivity.
  - specialize (IH {| r_flag := r_flag s; r_pcs := set_pc (r_pcs s) i (LDone refresh) |} open).
    cbn [r_flag r_pcs] in IH. destruct (rrun VCas _ rest) as [s2 tr]. cbn [snd]. apply IH; [|assumption].
    apply Forall_set_pc; [assumption | discriminate].
  - destruct (r_flag s) eqn:Ef.
    + specialize (IH {| r_flag := true; r_pcs := set_pc (r_pcs s) i CLoaded |} open).
      cbn [r_flag r_pcs] in IH. destruct (rrun VCas _ rest) as [s2 tr]. cbn [snd]. apply IH; [|auto].
      apply Forall_set_pc; [assumption | discriminate].
    + specialize (IH {| r_flag := false; r_pcs := set_pc (r_pcs s) i CDone |} open).
      cbn [r_flag r_pcs] in IH. destruct (rrun VCas _ rest) as [s2 tr]. cbn [snd]. apply IH; [|intros Ho; specialize (Hinv Ho); congruence].
      apply Forall_set_pc; [assumption | discriminate].
  - specialize (IH {| r_flag := false; r_pcs := set_pc (r_pcs s) i CDone |} false).
    cbn [r_flag r_pcs] in IH. destruct (rrun VCas _ rest) as [s2 tr]. cbn [snd one_claim_per_cycle]. apply IH; [|discriminate].
    apply Forall_set_pc; [assumption | discriminate].
  - specialize (IH {| r_flag := r_flag s; r_pcs := set_pc (r_pcs s) i CDone |} open).
    cbn [r_flag r_pcs] in IH. destruct (rrun VCas _ rest) as [s2 tr]. cbn [snd]. apply IH; [|assumption].
    apply Forall_set_pc; [assumption | discriminate].
Qed.

Lemma single_refresh_atomic_proof : forall (flag0 open0 : bool) (threads : list rpc) (sched : list nat),
    forallb rpc_start threads = true -> (open0 = true -> flag0 = true) ->
    one_claim_per_cycle open0 (snd (rrun VCas {| r_flag := flag0; r_pcs := threads |} sched)) = true.
Proof.
  intros flag0 open0 threads sched Hs Ho. apply cas_run_inv; [|exact Ho]. cbn [r_pcs].
  apply Forall_forall. intros p Hp. rewrite forallb_forall in Hs. specialize (Hs p Hp). intros ->. discriminate.
Qed.

(* how many lookups are told to refresh *)
Definition claims (tr : list revent) : nat := length (filter (fun e => match e with EvClaim => true | _ => false end) tr).
Definition no_clear (tr : list revent) : bool := forallb (fun e => match e with EvClear => false | _ => true end) tr.

Lemma one_claim_count : forall tr open, one_claim_per_cycle open tr = true -> no_clear tr = true ->
                                        (claims tr <= (if open then 0 else 1))%nat.
Proof.
  induction tr as [|e t IH]; intros open H Hn; [destruct open; cbn; lia|].
  destruct e; cbn in *; [|discriminate].
  destruct open; [discriminate|]. specialize (IH true H Hn). cbn in IH. unfold claims in *. cbn. lia.
Qed.

(* test-then-set is not enough: two threads, schedule Load1 Load2 Store1 Store2 *)
Lemma loadstore_refuted_proof :
  one_claim_per_cycle false (snd (rrun VLoadStore {| r_flag := false; r_pcs := [LStart; LStart] |} [0; 1; 0; 1]%nat)) = false.
Proof. vm_compute. reflexivity. Qed.
