(* C07 — lemmas about concurrent lazy initialisation of an upstream (UpstreamResolver.GetUpstream). *)
From Coq Require Import List NArith Bool Arith Lia.
From Dae Require Import C07_Spec C07_Model.
From Dae.gen Require C07_InitProg.
Import ListNotations.

(* a sufficient, checkable condition on the straight-line program: own is registered before it is published or returned,
   and "return the published one" only when something is published for sure *)
Fixpoint safe_from (reg pubd : bool) (p : list iop) : bool :=
  match p with
  | [] => true
  | ILoad :: r | IBuild :: r => safe_from reg pubd r
  | IRegister :: r => safe_from true pubd r
  | IStore :: r => reg && safe_from reg true r
  | ICasOrRet k :: r => reg && safe_from reg true r
  | IRet RetOwn :: _ => reg
  | IRet RetPublished :: _ => pubd
  end.

Definition iinv (g : istate) : Prop :=
  (forall v, g_pub g = Some v -> In v (g_regd g)) /\
  forall i, let th := g_thr g i in
    (t_reg th = true -> In i (g_regd g)) /\
    (t_pubd th = true -> g_pub g <> None) /\
    (t_done th = None -> safe_from (t_reg th) (t_pubd th) (t_pc th) = true) /\
    (forall v, t_done th = Some v -> exists w, v = Some w /\ In w (g_regd g)).

Lemma upd_same f i th : upd f i th i = th.
Proof. unfold upd. now rewrite Nat.eqb_refl. Qed.
Lemma upd_other f i th j : j <> i -> upd f i th j = f j.
Proof. intros H. unfold upd. apply Nat.eqb_neq in H. now rewrite H. Qed.

Lemma istep_inv g i : iinv g -> iinv (istep g i).
Proof.
  intros [Hpub Hthr]. unfold istep.
  destruct (Hthr i) as [Hreg [Hpd [Hsafe Hdone]]]. cbn zeta in *.
  destruct (t_done (g_thr g i)) as [d|] eqn:Ed; [split; assumption|].
  destruct (t_pc (g_thr g i)) as [|op rest] eqn:Epc; [split; assumption|].
  specialize (Hsafe eq_refl).
  assert (Hother : forall (P : istate -> Prop) pub regd th',
            (forall v, pub = Some v -> In v regd) -> (forall x, In x (g_regd g) -> In x regd) ->
            (g_pub g <> None -> pub <> None) ->
            ((t_reg th' = true -> In i regd) /\ (t_pubd th' = true -> pub <> None) /\
             (t_done th' = None -> safe_from (t_reg th') (t_pubd th') (t_pc th') = true) /\
             (forall v, t_done th' = Some v -> exists w, v = Some w /\ In w regd)) ->
            iinv {| g_pub := pub; g_regd := regd; g_thr := upd (g_thr g) i th' |}).
  { intros _ pub regd th' H1 Hmono Hp Hi. split; [exact H1|]. intros j. cbn [g_thr g_pub g_regd].
    destruct (Nat.eq_dec j i) as [->|Hne]; [rewrite upd_same; exact Hi|]. rewrite upd_other by exact Hne.
    destruct (Hthr j) as [A [B [C D]]]. cbn zeta in *. repeat split; auto.
    intros v Hv. destruct (D v Hv) as [w [Hw1 Hw2]]. exists w. auto. }
  destruct op as [| | | |k|k]; cbn [safe_from] in Hsafe.
  - (* ILoad *) destruct (g_pub g) as [v|] eqn:Ep.
    + apply (Hother (fun _ => True)); [auto|auto|auto|cbn [t_reg t_pubd t_done t_pc]].
      split; [exact Hreg|]. split; [exact Hpd|]. split; [discriminate|].
      intros v' Hv'. inversion Hv'; subst. exists v. split; [reflexivity|]. now apply Hpub.
    + apply (Hother (fun _ => True)); [auto|auto|auto|cbn [t_reg t_pubd t_done t_pc]].
      split; [exact Hreg|]. split; [exact Hpd|]. split; [intros _; exact Hsafe|discriminate].
  - (* IBuild *) apply (Hother (fun _ => True)); [auto|auto|auto|cbn [t_reg t_pubd t_done t_pc]].
    split; [exact Hreg|]. split; [exact Hpd|]. split; [intros _; exact Hsafe|discriminate].
  - (* IRegister *) apply (Hother (fun _ => True)); [|intros x Hx; now right|auto|cbn [t_reg t_pubd t_done t_pc]].
    + intros v Hv. right. now apply Hpub.
    + split; [intros _; now left|]. split; [exact Hpd|]. split; [intros _; exact Hsafe|discriminate].
  - (* IStore *) apply andb_true_iff in Hsafe. destruct Hsafe as [Hr Hs].
    apply (Hother (fun _ => True)); [|auto|discriminate|cbn [t_reg t_pubd t_done t_pc]].
    + intros v Hv. inversion Hv; subst. now apply Hreg.
    + split; [exact Hreg|]. split; [discriminate|]. split; [intros _; exact Hs|discriminate].
  - (* ICasOrRet *) apply andb_true_iff in Hsafe. destruct Hsafe as [Hr Hs]. destruct (g_pub g) as [v|] eqn:Ep.
    + apply (Hother (fun _ => True)); [auto|auto|auto|cbn [t_reg t_pubd t_done t_pc]].
      split; [exact Hreg|]. split; [exact Hpd|]. split; [discriminate|].
      intros v' Hv'. inversion Hv'; subst. destruct k.
      * exists i. split; [reflexivity|now apply Hreg].
      * exists v. split; [reflexivity|now apply Hpub].
    + apply (Hother (fun _ => True)); [|auto|discriminate|cbn [t_reg t_pubd t_done t_pc]].
      * intros v Hv. inversion Hv; subst. now apply Hreg.
      * split; [exact Hreg|]. split; [discriminate|]. split; [intros _; exact Hs|discriminate].
  - (* IRet *) apply (Hother (fun _ => True)); [auto|auto|auto|cbn [t_reg t_pubd t_done t_pc]].
    split; [exact Hreg|]. split; [exact Hpd|]. split; [discriminate|].
    intros v' Hv'. inversion Hv'; subst. destruct k.
    + exists i. split; [reflexivity|now apply Hreg].
    + destruct (g_pub g) as [v|] eqn:Ep; [exists v; split; [reflexivity|now apply Hpub]|].
      exfalso. now apply (Hpd Hsafe).
Qed.

Lemma irun_inv sched : forall g, iinv g -> iinv (irun g sched).
Proof. induction sched as [|i s IH]; intros g H; [exact H|]. cbn [irun fold_left]. apply IH. now apply istep_inv. Qed.

Lemma iinit_inv p : safe_from false false p = true -> iinv (iinit p).
Proof.
  intros H. split; [discriminate|]. intros i. cbn. repeat split; auto; discriminate.
Qed.

(* for every number of concurrent callers and every interleaving of their atomic steps: whatever a caller gets back is
   registered in upstream2Index (so ResponseSelect finds the tag of the upstream the request router chose), never nil *)
Lemma init_safe_generic p sched i v :
  safe_from false false p = true -> t_done (g_thr (irun (iinit p) sched) i) = Some v ->
  exists w, v = Some w /\ In w (g_regd (irun (iinit p) sched)).
Proof.
  intros Hs Hd. destruct (irun_inv sched _ (iinit_inv p Hs)) as [_ H]. destruct (H i) as [_ [_ [_ D]]]. now apply D.
Qed.

Lemma code_prog_safe : safe_from false false C07_InitProg.GetUpstreamProg = true.
Proof. vm_compute. reflexivity. Qed.

Lemma C07_every_caller_gets_registered_upstream_proof (sched : list nat) (i : nat) (v : option nat) :
  t_done (g_thr (irun (iinit C07_InitProg.GetUpstreamProg) sched) i) = Some v ->
  exists w, v = Some w /\ In w (g_regd (irun (iinit C07_InitProg.GetUpstreamProg) sched)).
Proof. apply init_safe_generic. exact code_prog_safe. Qed.

(* "publish with CAS; only the publisher runs the callback; the loser returns its own build": two callers, the second
   loses the race and gets a build that nobody registered *)
Definition loser_returns_own : list iop := [ILoad; IBuild; ICasOrRet RetOwn; IRegister; IRet RetOwn].
Lemma C07_loser_returns_own_refuted_proof :
  exists sched i w, t_done (g_thr (irun (iinit loser_returns_own) sched) i) = Some (Some w)
                    /\ ~ In w (g_regd (irun (iinit loser_returns_own) sched)).
Proof.
  exists [0; 1; 0; 1; 0; 1; 0; 0]%nat, 1%nat, 1%nat. split; [vm_compute; reflexivity|].
  vm_compute. intros [H|[]]. discriminate.
Qed.
