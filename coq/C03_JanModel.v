(* C03 — executable model of the selection of ControlPlane.cleanupConnStateMapBeforeLocked (control/control_plane.go).
   The integer widths are part of the model: the clock sample is an int64, last_seen_ns a uint64 converted to
   int64, the age their int64 difference (JAN_AGE_SIGNED, regenerated from the source text on every run; the
   unsigned reading is the other branch of jan_age), compared with `>` (JAN_CMP_STRICT).  No proofs here. *)
From Coq Require Import List NArith ZArith Bool.
From Dae Require Import C03_Spec C03_Model.
From Dae.gen Require Import C03_Janitor.
Import ListNotations.
Open Scope N_scope.

Definition TWO63z : Z := 0x8000000000000000%Z.
Definition TWO64z : Z := 0x10000000000000000%Z.
Definition s64 (z : Z) : Z := ((z + TWO63z) mod TWO64z - TWO63z)%Z.   (* wrap into int64 *)
Definition u64 (z : Z) : Z := (z mod TWO64z)%Z.                        (* wrap into uint64 *)
Definition jan_age (signed : bool) (now last : N) : Z :=
  if signed then s64 (s64 (Z.of_N now) - s64 (Z.of_N last))
  else u64 (u64 (Z.of_N now) - u64 (Z.of_N last)).
Definition jan_exceeds (strict : bool) (age t : Z) : bool := if strict then (t <? age)%Z else (t <=? age)%Z.

Definition jan_selected (signed strict aggressive : bool) (stale sample : N) (k : fkey) (s : cstate) : bool :=
  let stale_hit := (0 <? stale) && ((cs_last s =? 0) || (cs_last s <? stale)) in
  let age := jan_age signed sample (cs_last s) in
  if k_proto k =? IPPROTO_UDP then
    let isdns := (k_sport k =? 53) || (k_dport k =? 53) in
    let timeout := if isdns then JAN_UDP_DNS_NS else JAN_UDP_NS in
    let timeout := if aggressive then (if isdns then JAN_UDP_DNS_NS / 2 else JAN_UDP_NS / 2) else timeout in
    jan_exceeds strict age (Z.of_N timeout) || stale_hit
  else if k_proto k =? IPPROTO_TCP then
    let established := if aggressive then JAN_TCP_EST_NS / 2 else JAN_TCP_EST_NS in
    let closing := if aggressive then JAN_TCP_CLOSING_NS / 2 else JAN_TCP_CLOSING_NS in
    let should := if cs_state s =? JAN_CLOSING_STATE then jan_exceeds strict age (Z.of_N closing)
                  else jan_exceeds strict age (Z.of_N established) in
    should || stale_hit
  else false.

(* the code *)
Definition jan_code_selected := jan_selected JAN_AGE_SIGNED JAN_CMP_STRICT.
Definition jan_sweep (aggressive : bool) (stale sample : N) (st : kstate) : kstate :=
  mk_ks (filter (fun kv => negb (jan_code_selected aggressive stale sample (fst kv) (snd kv))) (ks_conn st)) (ks_hand st).

(* histories: datapath packets interleaved with ordinary janitor sweeps *)
Inductive event := EvPkt (s : step) | EvSweep (sample : N).
Definition run_event (P : param) (st : kstate) (ev : event) : kstate :=
  match ev with EvPkt s => h_st (run_hook P st s) | EvSweep t => jan_sweep false 0 t st end.
Fixpoint run_events (P : param) (st : kstate) (evs : list event) : kstate :=
  match evs with [] => st | ev :: r => run_events P (run_event P st ev) r end.
