(* C06 — proof of the HTTP/1 round-trip statement. *)
From Coq Require Import List NArith Bool Arith Lia ZifyBool ZifyN ZifyNat.
From Dae.gen Require Import C06_Extracted.
From Dae Require Import C06_Spec C06_Model C06_Statements.
Import ListNotations.
Open Scope N_scope.

(* ------------------------------------------------------------------ generic list facts *)
Lemma bytes_eqb_eq a : forall b, bytes_eqb a b = true -> a = b.
Proof.
  unfold bytes_eqb. induction a as [|x a IH]; intros [|y b] H; cbn in H; try discriminate; auto.
  apply andb_prop in H. destruct H as [H1 H2]. apply andb_prop in H2. destruct H2 as [H2 H3].
  apply N.eqb_eq in H2. subst. f_equal. apply IH. rewrite H1, H3. reflexivity.
Qed.

Lemma forallb_impl (P Q : N -> bool) l :
  (forall x, P x = true -> Q x = true) -> forallb P l = true -> forallb Q l = true.
Proof.
  intros HPQ H. rewrite forallb_forall in *. intros x Hx. apply HPQ, H, Hx.
Qed.

Lemma forallb_rev (P : N -> bool) l : forallb P l = true -> forallb P (rev l) = true.
Proof.
  intro H. rewrite forallb_forall in *. intros x Hx. apply H. apply in_rev. exact Hx.
Qed.

Lemma forallb_map (P : N -> bool) (f : N -> N) l :
  forallb (fun x => P (f x)) l = true -> forallb P (map f l) = true.
Proof.
  induction l as [|a l IH]; cbn [map forallb]; intro H; [reflexivity|].
  apply andb_prop in H. destruct H as [H1 H2]. rewrite H1, (IH H2). reflexivity.
Qed.

Lemma firstn_len_app (l r : bytes) : firstn (length l) (l ++ r) = l.
Proof. induction l as [|a l IH]; cbn [length firstn app]; [destruct r; reflexivity | rewrite IH; reflexivity]. Qed.

Lemma skipn_len_app (l r : bytes) n : skipn (length l + n) (l ++ r) = skipn n r.
Proof. induction l as [|a l IH]; cbn [length skipn app Nat.add]; [reflexivity | exact IH]. Qed.

(* ------------------------------------------------------------------ index_byte / index_crlf *)
Lemma index_byte_app_here c l r :
  forallb (fun b => negb (b =? c)) l = true -> index_byte c (l ++ c :: r) = Some (length l).
Proof.
  induction l as [|a l IH]; cbn [app index_byte forallb length]; intro H.
  - rewrite N.eqb_refl. reflexivity.
  - apply andb_prop in H. destruct H as [H1 H2]. apply negb_true_iff in H1. rewrite H1.
    rewrite (IH H2). reflexivity.
Qed.

Lemma index_byte_none c l :
  forallb (fun b => negb (b =? c)) l = true -> index_byte c l = None.
Proof.
  induction l as [|a l IH]; cbn [index_byte forallb]; intro H; [reflexivity|].
  apply andb_prop in H. destruct H as [H1 H2]. apply negb_true_iff in H1. rewrite H1.
  rewrite (IH H2). reflexivity.
Qed.

Lemma index_crlf_ne b r : b <> 13 -> index_crlf (b :: r) = option_map S (index_crlf r).
Proof.
  intro H. destruct b as [|p]; [reflexivity|].
  do 4 (try (destruct p as [p|p|]; try reflexivity)).
  exfalso. apply H. reflexivity.
Qed.

Lemma index_crlf_app l r :
  forallb (fun b => negb (b =? 13)) l = true -> index_crlf (l ++ 13 :: 10 :: r) = Some (length l).
Proof.
  induction l as [|a l IH]; cbn [app forallb length]; intro H; [reflexivity|].
  apply andb_prop in H. destruct H as [H1 H2]. apply negb_true_iff in H1. apply N.eqb_neq in H1.
  rewrite (index_crlf_ne _ _ H1), (IH H2). reflexivity.
Qed.

(* ------------------------------------------------------------------ trimming *)
Definition rtrim_sp (l : bytes) : bytes := rev (ltrim_sp (rev l)).

Lemma ltrim_sp_snoc x a : is_space a = false -> ltrim_sp (x ++ [a]) = ltrim_sp x ++ [a].
Proof.
  intro H. induction x as [|b x IH]; cbn [app ltrim_sp].
  - rewrite H. reflexivity.
  - destruct (is_space b); [exact IH | reflexivity].
Qed.

Lemma rtrim_sp_cons a l : is_space a = false -> rtrim_sp (a :: l) = a :: rtrim_sp l.
Proof.
  intro H. unfold rtrim_sp. cbn [rev]. rewrite (ltrim_sp_snoc _ _ H), rev_app_distr. reflexivity.
Qed.

Lemma trim_sp_cons a l : is_space a = false -> trim_sp (a :: l) = a :: rtrim_sp l.
Proof.
  intro H. unfold trim_sp. cbn [ltrim_sp]. rewrite H. apply (rtrim_sp_cons a l H).
Qed.

Definition nosp (b : N) : bool := negb (is_space b).

Lemma rtrim_sp_id l : forallb nosp l = true -> rtrim_sp l = l.
Proof.
  induction l as [|a l IH]; cbn [forallb]; intro H; [reflexivity|].
  apply andb_prop in H. destruct H as [H1 H2]. apply negb_true_iff in H1.
  rewrite (rtrim_sp_cons _ _ H1), (IH H2). reflexivity.
Qed.

Lemma trim_sp_id l : forallb nosp l = true -> trim_sp l = l.
Proof.
  destruct l as [|a l]; cbn [forallb]; intro H; [reflexivity|].
  apply andb_prop in H. destruct H as [H1 H2]. apply negb_true_iff in H1.
  rewrite (trim_sp_cons _ _ H1), (rtrim_sp_id _ H2). reflexivity.
Qed.

(* bytes on which Go's space set and the spec's OWS agree *)
Definition okb (b : N) : bool := negb ((10 <=? b) && (b <=? 13)).

Lemma okb_eq b : okb b = true -> is_space b = is_ows b.
Proof.
  unfold okb, is_space, is_ows. intro H.
  destruct (b =? 32) eqn:E1; [reflexivity|]. cbn [orb].
  destruct (b =? 9) eqn:E2; lia.
Qed.

Lemma ltrim_sp_ltrim l : forallb okb l = true -> ltrim_sp l = ltrim l.
Proof.
  induction l as [|a l IH]; cbn [forallb ltrim_sp ltrim]; intro H; [reflexivity|].
  apply andb_prop in H. destruct H as [H1 H2]. rewrite (okb_eq _ H1), (IH H2). reflexivity.
Qed.

Lemma forallb_ltrim (P : N -> bool) l : forallb P l = true -> forallb P (ltrim l) = true.
Proof.
  induction l as [|a l IH]; cbn [forallb ltrim]; intro H; [reflexivity|].
  destruct (is_ows a); [|exact H].
  apply andb_prop in H. destruct H as [_ H2]. exact (IH H2).
Qed.

Lemma trim_sp_trim l : forallb okb l = true -> trim_sp l = trim l.
Proof.
  intro H. unfold trim_sp, trim. rewrite (ltrim_sp_ltrim _ H).
  rewrite (ltrim_sp_ltrim (rev (ltrim l))); [reflexivity|].
  apply forallb_rev, forallb_ltrim, H.
Qed.

(* ------------------------------------------------------------------ byte classes *)
Definition upper (b : N) : bool := (65 <=? b) && (b <=? 90).
Definition valb (b : N) : bool := ((32 <=? b) && (b <=? 126)) || (b =? 9).

Lemma host_char_nosp b : host_char b = true -> nosp b = true.
Proof. unfold host_char, nosp, is_space. lia. Qed.
Lemma host_char_okb b : host_char b = true -> okb b = true.
Proof. unfold host_char, okb. lia. Qed.
Lemma host_char_no13 b : host_char b = true -> negb (b =? 13) = true.
Proof. unfold host_char. lia. Qed.
Lemma host_char_no58 b : host_char b = true -> negb (b =? 58) = true.
Proof. unfold host_char. lia. Qed.
Lemma valb_okb b : valb b = true -> okb b = true.
Proof. unfold valb, okb. lia. Qed.
Lemma valb_no13 b : valb b = true -> negb (b =? 13) = true.
Proof. unfold valb. lia. Qed.
Lemma visible_no13 b : visible b = true -> negb (b =? 13) = true.
Proof. unfold visible. lia. Qed.
Lemma upper_no13 b : upper b = true -> negb (b =? 13) = true.
Proof. unfold upper. lia. Qed.
Lemma upper_no32 b : upper b = true -> negb (b =? 32) = true.
Proof. unfold upper. lia. Qed.
Lemma host_char_lower_no58 b : host_char b = true -> negb (lower b =? 58) = true.
Proof. unfold host_char, lower. destruct ((65 <=? b) && (b <=? 90)) eqn:E; lia. Qed.
Lemma host_char_lower_no93 b : host_char b = true -> negb (lower b =? 93) = true.
Proof. unfold host_char, lower. destruct ((65 <=? b) && (b <=? 90)) eqn:E; lia. Qed.

(* ------------------------------------------------------------------ methods *)
Definition meth_ok (m : bytes) : bool :=
  match m with
  | m0 :: m1 :: _ => negb ((lower m0 =? 104) && (lower m1 =? 111))
  | _ => false
  end && forallb upper m && (length m <=? 8)%nat.

Lemma methods_ok : forallb meth_ok http_methods = true.
Proof. vm_compute. reflexivity. Qed.

Lemma method_ok m : existsb (bytes_eqb m) http_methods = true -> meth_ok m = true.
Proof.
  intro H. apply existsb_exists in H. destruct H as [x [Hin He]].
  apply bytes_eqb_eq in He. subst x.
  pose proof methods_ok as A. rewrite forallb_forall in A. apply A, Hin.
Qed.

(* ------------------------------------------------------------------ http_lines, one line *)
Lemma http_lines_step f line rest :
  forallb (fun b => negb (b =? 13)) line = true ->
  http_lines (S f) (Some (line ++ 13 :: 10 :: rest)) =
    if (length line =? 0)%nat then NotFound else
    match index_byte 58 line with
    | None => http_lines f (Some rest)
    | Some c =>
        if bytes_eqb (map lower (trim_sp (firstn c line))) host_key then
          if (length (trim_sp (skipn (c + 1) line)) =? 0)%nat then NotFound
          else Found (trim_sp (skipn (c + 1) line))
        else http_lines f (Some rest)
    end.
Proof.
  intro H. cbn [http_lines]. rewrite (index_crlf_app _ _ H).
  cbv beta iota. rewrite firstn_len_app, skipn_len_app. cbn [skipn]. reflexivity.
Qed.

Lemma reqline_skip f m t ver rest :
  meth_ok m = true -> forallb visible t = true -> forallb visible ver = true ->
  http_lines (S f) (Some ((m ++ 32 :: t ++ 32 :: ver) ++ 13 :: 10 :: rest)) = http_lines f (Some rest).
Proof.
  intros Hm Ht Hv. unfold meth_ok in Hm.
  apply andb_prop in Hm. destruct Hm as [Hm Hlen]. apply andb_prop in Hm. destruct Hm as [Hhost Hup].
  rewrite http_lines_step.
  2:{ rewrite forallb_app. rewrite (forallb_impl _ _ _ upper_no13 Hup). cbn [forallb andb].
      change (negb (32 =? 13)) with true. cbn [andb].
      rewrite forallb_app. rewrite (forallb_impl _ _ _ visible_no13 Ht). cbn [forallb andb].
      change (negb (32 =? 13)) with true. cbn [andb].
      exact (forallb_impl _ _ _ visible_no13 Hv). }
  destruct m as [|m0 [|m1 m']]; try discriminate Hhost.
  cbn [forallb] in Hup.
  apply andb_prop in Hup. destruct Hup as [U0 Hup]. apply andb_prop in Hup. destruct Hup as [U1 _].
  cbn [app length Nat.eqb index_byte].
  assert (E0 : (m0 =? 58) = false) by (unfold upper in U0; lia).
  assert (E1 : (m1 =? 58) = false) by (unfold upper in U1; lia).
  assert (S0 : is_space m0 = false) by (unfold upper in U0; unfold is_space; lia).
  assert (S1 : is_space m1 = false) by (unfold upper in U1; unfold is_space; lia).
  rewrite E0, E1.
  destruct (index_byte 58 (m' ++ 32 :: t ++ 32 :: ver)) as [c|]; cbn [option_map]; [|reflexivity].
  cbn [firstn]. rewrite (trim_sp_cons _ _ S0), (rtrim_sp_cons _ _ S1). cbn [map].
  match goal with |- (if ?b then _ else _) = _ => destruct b eqn:E end; [|reflexivity].
  apply bytes_eqb_eq in E. unfold host_key in E. injection E as A0 A1 _.
  rewrite A0, A1 in Hhost. discriminate Hhost.
Qed.

(* ------------------------------------------------------------------ http_lines over the header block *)
Definition hdr_ok (kv : bytes * bytes) : bool :=
  forallb host_char (fst kv) && negb (length (fst kv) =? 0)%nat
  && forallb (fun b => ((32 <=? b) && (b <=? 126)) || (b =? 9)) (snd kv).

Definition res_of (hs : list (bytes * bytes)) : outcome :=
  match first_host_header hs with
  | Some v => if (length v =? 0)%nat then NotFound else Found v
  | None => NotFound
  end.

Lemma header_block body : forall hs fuel,
  forallb hdr_ok hs = true -> (length hs < fuel)%nat ->
  http_lines fuel (Some (flat_map enc_header hs ++ crlf ++ body)) = res_of hs.
Proof.
  induction hs as [|[k v] hs IH]; intros fuel Hok Hf; (destruct fuel as [|f]; [lia|]).
  - reflexivity.
  - cbn [forallb] in Hok. apply andb_prop in Hok. destruct Hok as [Hh Hok].
    unfold hdr_ok in Hh. cbn [fst snd] in Hh.
    apply andb_prop in Hh. destruct Hh as [Hh Hval]. apply andb_prop in Hh. destruct Hh as [Hk Hne].
    change (forallb valb v = true) in Hval.
    cbn [flat_map]. unfold enc_header at 1. cbn [fst snd]. unfold crlf at 1.
    replace (((k ++ [58] ++ v ++ [13; 10]) ++ flat_map enc_header hs) ++ crlf ++ body)
      with ((k ++ 58 :: v) ++ 13 :: 10 :: (flat_map enc_header hs ++ crlf ++ body)).
    2:{ repeat (first [rewrite <- app_assoc | progress cbn [app]]). reflexivity. }
    rewrite http_lines_step.
    2:{ rewrite forallb_app. rewrite (forallb_impl _ _ _ host_char_no13 Hk). cbn [forallb andb].
        change (negb (58 =? 13)) with true. cbn [andb].
        exact (forallb_impl _ _ _ valb_no13 Hval). }
    assert (L : Nat.eqb (length (k ++ 58 :: v)) 0%nat = false).
    { rewrite app_length. cbn [length]. apply Nat.eqb_neq. lia. }
    rewrite L.
    rewrite (index_byte_app_here 58 k v (forallb_impl _ _ _ host_char_no58 Hk)).
    rewrite firstn_len_app, skipn_len_app. cbn [skipn].
    rewrite (trim_sp_id k (forallb_impl _ _ _ host_char_nosp Hk)).
    rewrite (trim_sp_trim v (forallb_impl _ _ _ valb_okb Hval)).
    unfold res_of, first_host_header. cbn [find fst snd].
    unfold is_host_key at 1.
    rewrite <- (trim_sp_trim k (forallb_impl _ _ _ host_char_okb Hk)).
    rewrite (trim_sp_id k (forallb_impl _ _ _ host_char_nosp Hk)).
    change [104; 111; 115; 116] with host_key.
    destruct (bytes_eqb (map lower k) host_key); [reflexivity|].
    apply IH; [exact Hok | cbn [length] in Hf; lia].
Qed.

(* ------------------------------------------------------------------ NormalizeDomain on a Host value *)
Definition noc (c : N) (l : bytes) : bool := forallb (fun b => negb (b =? c)) l.

Lemma last_is_false c l : forallb (fun b => negb (b =? c)) l = true -> last_is c l = false.
Proof.
  intro H. apply forallb_rev in H. unfold last_is. destruct (rev l) as [|b r]; [reflexivity|].
  cbn [forallb] in H. apply andb_prop in H. destruct H as [H1 _]. apply negb_true_iff in H1. exact H1.
Qed.

Lemma last_is_snoc c l : last_is c (l ++ [c]) = true.
Proof. unfold last_is. rewrite rev_unit. apply N.eqb_refl. Qed.

Lemma has_byte_false c l : noc c l = true -> has_byte c l = false.
Proof. intro H. unfold has_byte. rewrite (index_byte_none c l H). reflexivity. Qed.

Lemma last_index_byte_app c l r :
  noc c r = true -> last_index_byte c (l ++ c :: r) = Some (length l).
Proof.
  intro H. unfold last_index_byte. rewrite rev_app_distr. cbn [rev]. rewrite <- app_assoc. cbn [app].
  rewrite (index_byte_app_here c (rev r) (rev l) (forallb_rev _ _ H)).
  f_equal. rewrite app_length, rev_length. cbn [length]. lia.
Qed.

Lemma before_app c l r : noc c l = true -> before c (l ++ c :: r) = l.
Proof.
  unfold noc. induction l as [|a l IH]; cbn [app before forallb]; intro H.
  - rewrite N.eqb_refl. reflexivity.
  - apply andb_prop in H. destruct H as [H1 H2]. apply negb_true_iff in H1. rewrite H1, (IH H2). reflexivity.
Qed.

Lemma after_app c l r : noc c l = true -> after c (l ++ c :: r) = Some r.
Proof.
  unfold noc. induction l as [|a l IH]; cbn [app after forallb]; intro H.
  - rewrite N.eqb_refl. reflexivity.
  - apply andb_prop in H. destruct H as [H1 H2]. apply negb_true_iff in H1. rewrite H1. exact (IH H2).
Qed.

Lemma after_noc c l : noc c l = true -> after c l = None.
Proof.
  unfold noc. induction l as [|a l IH]; cbn [after forallb]; intro H; [reflexivity|].
  apply andb_prop in H. destruct H as [H1 H2]. apply negb_true_iff in H1. rewrite H1. exact (IH H2).
Qed.

Lemma after_none c l : after c l = None -> noc c l = true.
Proof.
  unfold noc. induction l as [|a l IH]; cbn [after forallb]; intro H; [reflexivity|].
  destruct (a =? c); [discriminate H|]. cbn [negb andb]. exact (IH H).
Qed.

Lemma after_some c l : forall r, after c l = Some r -> l = before c l ++ c :: r /\ noc c (before c l) = true.
Proof.
  unfold noc. induction l as [|a l IH]; cbn [after before]; intros r H; [discriminate H|].
  destruct (a =? c) eqn:E.
  - injection H as H. apply N.eqb_eq in E. subst. split; reflexivity.
  - destruct (IH r H) as [A B]. cbn [app forallb]. rewrite E, B. split; [f_equal; exact A | reflexivity].
Qed.

(* the literal matches of the Spec, as tests *)
Lemma wf_host_value_cons b r :
  wf_host_value (b :: r) =
  if b =? 91 then
    forallb v6_char (before 93 r) && negb (length (before 93 r) =? 0)%nat
    && match after 93 r with
       | Some [] => true
       | Some (58 :: port) => forallb is_digit port
       | _ => false
       end
  else match after 58 (b :: r) with
       | None => wf_name (b :: r)
       | Some port => forallb host_char (before 58 (b :: r)) && negb (length (before 58 (b :: r)) =? 0)%nat
                      && forallb is_digit port
       end.
Proof.
  unfold wf_host_value. destruct b as [|p]; [reflexivity|].
  do 8 (try (destruct p as [p|p|]; try reflexivity)).
Qed.

Lemma host_value_name_cons b r :
  host_value_name (b :: r) =
  if lower b =? 91 then before 93 (map lower r)
  else match after 58 (map lower (b :: r)) with
       | None => strip_dot (map lower (b :: r))
       | Some _ => before 58 (map lower (b :: r))
       end.
Proof.
  unfold host_value_name. cbv zeta. cbn [map]. generalize (lower b) as x. generalize (map lower r) as l.
  intros l x. destruct x as [|p]; [reflexivity|].
  do 8 (try (destruct p as [p|p|]; try reflexivity)).
Qed.

Lemma split_host_port_nb x l :
  x <> 91 ->
  split_host_port (x :: l) =
  match last_index_byte 58 (x :: l) with
  | None => None
  | Some i =>
      if has_byte 58 (firstn i (x :: l)) then None
      else if has_byte 91 (x :: l) then None
      else if has_byte 93 (x :: l) then None
      else Some (firstn i (x :: l))
  end.
Proof.
  intro H. unfold split_host_port. destruct (last_index_byte 58 (x :: l)) as [i|]; [|reflexivity].
  destruct x as [|p]; [reflexivity|].
  do 8 (try (destruct p as [p|p|]; try reflexivity)).
  exfalso. apply H. reflexivity.
Qed.

Definition port_ok (t : option bytes) : bool :=
  match t with
  | Some [] => true
  | Some (58 :: port) => forallb is_digit port
  | _ => false
  end.

Lemma port_ok_inv t : port_ok t = true ->
  t = Some [] \/ exists port, t = Some (58 :: port) /\ forallb is_digit port = true.
Proof.
  destruct t as [[|c port]|]; intro H; [left; reflexivity | | discriminate H].
  destruct c as [|p]; [discriminate H|].
  do 8 (try (destruct p as [p|p|]; try discriminate H)).
  right. exists port. split; [reflexivity | exact H].
Qed.

(* byte classes of the Host value shapes *)
Lemma lower_eq91 b : (lower b =? 91) = (b =? 91).
Proof. unfold lower. destruct ((65 <=? b) && (b <=? 90)) eqn:E; lia. Qed.
Lemma host_char_lower_no91 b : host_char b = true -> negb (lower b =? 91) = true.
Proof. unfold host_char, lower. destruct ((65 <=? b) && (b <=? 90)) eqn:E; lia. Qed.
Lemma v6_lower_no91 b : v6_char b = true -> negb (lower b =? 91) = true.
Proof. unfold v6_char, is_digit, lower. destruct ((65 <=? b) && (b <=? 90)) eqn:E; lia. Qed.
Lemma v6_lower_no93 b : v6_char b = true -> negb (lower b =? 93) = true.
Proof. unfold v6_char, is_digit, lower. destruct ((65 <=? b) && (b <=? 90)) eqn:E; lia. Qed.
Lemma v6_no93 b : v6_char b = true -> negb (b =? 93) = true.
Proof. unfold v6_char, is_digit, lower. destruct ((65 <=? b) && (b <=? 90)) eqn:E; lia. Qed.
Lemma v6_nosp b : v6_char b = true -> nosp b = true.
Proof. unfold v6_char, is_digit, lower, nosp, is_space. destruct ((65 <=? b) && (b <=? 90)) eqn:E; lia. Qed.
Lemma v6_lower_nobr b : v6_char b = true -> negb (existsb (N.eqb (lower b)) [91; 93]) = true.
Proof.
  intro H. pose proof (v6_lower_no91 b H) as A. pose proof (v6_lower_no93 b H) as B.
  cbn [existsb]. lia.
Qed.
Lemma digit_nosp b : is_digit b = true -> nosp b = true.
Proof. unfold is_digit, nosp, is_space. lia. Qed.
Lemma digit_no58 b : is_digit b = true -> negb (b =? 58) = true.
Proof. unfold is_digit. lia. Qed.
Lemma digit_no91 b : is_digit b = true -> negb (b =? 91) = true.
Proof. unfold is_digit. lia. Qed.
Lemma digit_no93 b : is_digit b = true -> negb (b =? 93) = true.
Proof. unfold is_digit. lia. Qed.
Lemma digit_lower b : is_digit b = true -> lower b = b.
Proof. unfold is_digit, lower. destruct ((65 <=? b) && (b <=? 90)) eqn:E; lia. Qed.

Lemma map_lower_digits l : forallb is_digit l = true -> map lower l = l.
Proof.
  induction l as [|a l IH]; cbn [forallb map]; intro H; [reflexivity|].
  apply andb_prop in H. destruct H as [H1 H2]. rewrite (digit_lower _ H1), (IH H2). reflexivity.
Qed.

Lemma last_is_false_tail c l r : r <> [] -> noc c r = true -> last_is c (l ++ r) = false.
Proof.
  intros Hne H. unfold last_is. rewrite rev_app_distr.
  pose proof (forallb_rev _ _ H) as H'.
  destruct (rev r) as [|x y] eqn:E.
  - exfalso. apply Hne. rewrite <- (rev_involutive r), E. reflexivity.
  - cbn [app]. cbn [forallb] in H'. apply andb_prop in H'. destruct H' as [H1 _].
    apply negb_true_iff in H1. exact H1.
Qed.

(* strings.Trim(h, "[]") on "[" a "]" *)
Definition nobr (b : N) : bool := negb (existsb (N.eqb b) [91; 93]).

Lemma ltrim_set_keep set l r :
  l <> [] -> forallb (fun b => negb (existsb (N.eqb b) set)) l = true -> ltrim_set set (l ++ r) = l ++ r.
Proof.
  intros Hne H. destruct l as [|a l]; [exfalso; apply Hne; reflexivity|].
  cbn [forallb] in H. apply andb_prop in H. destruct H as [H1 _]. apply negb_true_iff in H1.
  cbn [app ltrim_set]. rewrite H1. reflexivity.
Qed.

Lemma ltrim_set_id set l :
  forallb (fun b => negb (existsb (N.eqb b) set)) l = true -> ltrim_set set l = l.
Proof.
  intro H. destruct l as [|a l]; [reflexivity|].
  cbn [forallb] in H. apply andb_prop in H. destruct H as [H1 _]. apply negb_true_iff in H1.
  cbn [ltrim_set]. rewrite H1. reflexivity.
Qed.

Lemma trim_set_brackets la :
  la <> [] -> forallb nobr la = true -> trim_set [91; 93] (91 :: la ++ [93]) = la.
Proof.
  intros Hne H. unfold trim_set.
  change (ltrim_set [91; 93] (91 :: la ++ [93])) with (ltrim_set [91; 93] (la ++ [93])).
  rewrite (ltrim_set_keep _ _ _ Hne H). rewrite rev_unit.
  change (ltrim_set [91; 93] (93 :: rev la)) with (ltrim_set [91; 93] (rev la)).
  rewrite (ltrim_set_id _ _ (forallb_rev _ _ H)). apply rev_involutive.
Qed.

(* net.SplitHostPort on "[" a "]:" port *)
Lemma split_host_port_br la port :
  noc 93 la = true -> noc 91 la = true ->
  noc 58 port = true -> noc 91 port = true -> noc 93 port = true ->
  split_host_port (91 :: la ++ 93 :: 58 :: port) = Some la.
Proof.
  intros A93 A91 P58 P91 P93. unfold split_host_port.
  replace (91 :: la ++ 93 :: 58 :: port) with ((91 :: la ++ [93]) ++ 58 :: port) at 1.
  2:{ cbn [app]. rewrite <- app_assoc. reflexivity. }
  rewrite (last_index_byte_app 58 _ _ P58).
  cbv iota.
  assert (E : index_byte 93 (91 :: la ++ 93 :: 58 :: port) = Some (S (length la))).
  { cbn [index_byte]. change (91 =? 93) with false. cbv iota.
    rewrite (index_byte_app_here 93 la _ A93). reflexivity. }
  rewrite E.
  assert (L1 : Nat.eqb (S (length la) + 1)%nat (length (91 :: la ++ 93 :: 58 :: port)) = false).
  { apply Nat.eqb_neq. cbn [length]. rewrite app_length. cbn [length]. lia. }
  rewrite L1.
  assert (L2 : Nat.eqb (S (length la) + 1)%nat (length (91 :: la ++ [93])) = true).
  { apply Nat.eqb_eq. cbn [length]. rewrite app_length. cbn [length]. lia. }
  rewrite L2.
  cbv zeta.
  change (skipn 1 (91 :: la ++ 93 :: 58 :: port)) with (la ++ 93 :: 58 :: port).
  rewrite has_byte_false.
  2:{ unfold noc in *. rewrite forallb_app, A91. cbn [forallb]. rewrite P91. reflexivity. }
  replace (skipn (S (length la) + 1) (91 :: la ++ 93 :: 58 :: port)) with (58 :: port).
  2:{ replace (S (length la) + 1)%nat with (S (length la + 1)) by lia. cbn [skipn].
      rewrite skipn_len_app. reflexivity. }
  rewrite has_byte_false.
  2:{ unfold noc in *. cbn [forallb]. rewrite P93. reflexivity. }
  replace (S (length la) - 1)%nat with (length la) by lia.
  rewrite firstn_len_app. reflexivity.
Qed.

Lemma normalize_domain_plain v : wf_name v = true -> normalize_domain v = strip_dot (map lower v).
Proof.
  unfold wf_name. intro H. apply andb_prop in H. destruct H as [H _].
  unfold normalize_domain.
  rewrite (trim_sp_id v (forallb_impl _ _ _ host_char_nosp H)).
  cbv zeta.
  assert (A : forallb (fun b => negb (b =? 93)) (map lower v) = true).
  { apply forallb_map. exact (forallb_impl _ _ _ host_char_lower_no93 H). }
  assert (B : forallb (fun b => negb (b =? 58)) (map lower v) = true).
  { apply forallb_map. exact (forallb_impl _ _ _ host_char_lower_no58 H). }
  rewrite (last_is_false _ _ A).
  unfold split_host_port, last_index_byte.
  rewrite (index_byte_none 58 _ (forallb_rev _ _ B)). reflexivity.
Qed.

Lemma normalize_domain_hostport name port :
  name <> [] -> forallb host_char name = true -> forallb is_digit port = true ->
  normalize_domain (name ++ 58 :: port) = map lower name.
Proof.
  intros Hne Hn Hp. unfold normalize_domain.
  rewrite trim_sp_id.
  2:{ rewrite forallb_app, (forallb_impl _ _ _ host_char_nosp Hn). cbn [forallb].
      rewrite (forallb_impl _ _ _ digit_nosp Hp). reflexivity. }
  cbv zeta. rewrite map_app. cbn [map]. change (lower 58) with 58. rewrite (map_lower_digits _ Hp).
  assert (N58 : noc 58 (map lower name) = true)
    by (apply forallb_map; exact (forallb_impl _ _ _ host_char_lower_no58 Hn)).
  assert (N91 : noc 91 (map lower name) = true)
    by (apply forallb_map; exact (forallb_impl _ _ _ host_char_lower_no91 Hn)).
  assert (N93 : noc 93 (map lower name) = true)
    by (apply forallb_map; exact (forallb_impl _ _ _ host_char_lower_no93 Hn)).
  assert (P58 : noc 58 port = true) by exact (forallb_impl _ _ _ digit_no58 Hp).
  assert (P91 : noc 91 port = true) by exact (forallb_impl _ _ _ digit_no91 Hp).
  assert (P93 : noc 93 port = true) by exact (forallb_impl _ _ _ digit_no93 Hp).
  rewrite last_is_false_tail.
  2:{ discriminate. }
  2:{ unfold noc in *. cbn [forallb]. rewrite P93. reflexivity. }
  assert (S : split_host_port (map lower name ++ 58 :: port) = Some (map lower name)).
  { destruct name as [|n0 name']; [exfalso; apply Hne; reflexivity|].
    assert (X : lower n0 <> 91).
    { cbn [forallb] in Hn. apply andb_prop in Hn. destruct Hn as [Hn _].
      apply host_char_lower_no91 in Hn. lia. }
    cbn [map app]. rewrite (split_host_port_nb _ _ X).
    change (lower n0 :: map lower name' ++ 58 :: port) with (map lower (n0 :: name') ++ 58 :: port).
    rewrite (last_index_byte_app 58 _ _ P58). rewrite firstn_len_app.
    rewrite (has_byte_false _ _ N58).
    rewrite has_byte_false.
    2:{ unfold noc in *. rewrite forallb_app, N91. cbn [forallb]. rewrite P91. reflexivity. }
    rewrite has_byte_false.
    2:{ unfold noc in *. rewrite forallb_app, N93. cbn [forallb]. rewrite P93. reflexivity. }
    reflexivity. }
  rewrite S. reflexivity.
Qed.

Lemma normalize_domain_v6 a :
  a <> [] -> forallb v6_char a = true -> normalize_domain (91 :: a ++ [93]) = map lower a.
Proof.
  intros Hne Ha. unfold normalize_domain.
  rewrite trim_sp_id.
  2:{ cbn [forallb]. rewrite forallb_app, (forallb_impl _ _ _ v6_nosp Ha). reflexivity. }
  cbv zeta. cbn [map]. rewrite map_app. cbn [map]. change (lower 91) with 91. change (lower 93) with 93.
  change (91 :: map lower a ++ [93]) with ((91 :: map lower a) ++ [93]) at 1.
  rewrite last_is_snoc. cbn [app].
  apply trim_set_brackets.
  - destruct a; [exfalso; apply Hne; reflexivity | discriminate].
  - apply forallb_map. exact (forallb_impl _ _ _ v6_lower_nobr Ha).
Qed.

Lemma normalize_domain_v6port a port :
  forallb v6_char a = true -> forallb is_digit port = true ->
  normalize_domain (91 :: a ++ 93 :: 58 :: port) = map lower a.
Proof.
  intros Ha Hp. unfold normalize_domain.
  rewrite trim_sp_id.
  2:{ cbn [forallb]. rewrite forallb_app, (forallb_impl _ _ _ v6_nosp Ha). cbn [forallb].
      rewrite (forallb_impl _ _ _ digit_nosp Hp). reflexivity. }
  cbv zeta. cbn [map]. rewrite map_app. cbn [map].
  change (lower 91) with 91. change (lower 93) with 93. change (lower 58) with 58.
  rewrite (map_lower_digits _ Hp).
  assert (P58 : noc 58 port = true) by exact (forallb_impl _ _ _ digit_no58 Hp).
  assert (P91 : noc 91 port = true) by exact (forallb_impl _ _ _ digit_no91 Hp).
  assert (P93 : noc 93 port = true) by exact (forallb_impl _ _ _ digit_no93 Hp).
  replace (91 :: map lower a ++ 93 :: 58 :: port) with ((91 :: map lower a ++ [93]) ++ 58 :: port) at 1.
  2:{ cbn [app]. rewrite <- app_assoc. reflexivity. }
  rewrite last_is_false_tail.
  2:{ discriminate. }
  2:{ unfold noc in *. cbn [forallb]. rewrite P93. reflexivity. }
  rewrite split_host_port_br; try assumption; [reflexivity | |].
  - apply forallb_map. exact (forallb_impl _ _ _ v6_lower_no93 Ha).
  - apply forallb_map. exact (forallb_impl _ _ _ v6_lower_no91 Ha).
Qed.

Lemma length_nonempty (l : bytes) : negb (length l =? 0)%nat = true -> l <> [].
Proof. destruct l; [discriminate | discriminate]. Qed.

Lemma normalize_domain_wf v : wf_host_value v = true -> normalize_domain v = host_value_name v.
Proof.
  destruct v as [|b r]; [reflexivity|].
  rewrite wf_host_value_cons, host_value_name_cons, lower_eq91.
  destruct (b =? 91) eqn:E.
  - apply N.eqb_eq in E. subst b. intro H.
    apply andb_prop in H. destruct H as [H Hport]. apply andb_prop in H. destruct H as [Ha Hne].
    apply length_nonempty in Hne.
    change (port_ok (after 93 r) = true) in Hport.
    destruct (port_ok_inv _ Hport) as [Et | [port [Et Hp]]];
      destruct (after_some _ _ _ Et) as [Er _]; remember (before 93 r) as a eqn:Q; clear Q; subst r.
    + rewrite (normalize_domain_v6 a Hne Ha).
      rewrite map_app. cbn [map]. change (lower 93) with 93. symmetry. apply before_app.
      apply forallb_map. exact (forallb_impl _ _ _ v6_lower_no93 Ha).
    + rewrite (normalize_domain_v6port a port Ha Hp).
      rewrite map_app. cbn [map]. change (lower 93) with 93. symmetry. apply before_app.
      apply forallb_map. exact (forallb_impl _ _ _ v6_lower_no93 Ha).
  - clear E. generalize (b :: r) as v. clear b r. intros v H.
    destruct (after 58 v) as [port|] eqn:Ea.
    + apply andb_prop in H. destruct H as [H Hp]. apply andb_prop in H. destruct H as [Hn Hne].
      apply length_nonempty in Hne.
      destruct (after_some _ _ _ Ea) as [Ev _]. remember (before 58 v) as name eqn:Q. clear Q. subst v.
      rewrite (normalize_domain_hostport name port Hne Hn Hp).
      assert (N58 : noc 58 (map lower name) = true)
        by (apply forallb_map; exact (forallb_impl _ _ _ host_char_lower_no58 Hn)).
      rewrite map_app. cbn [map]. change (lower 58) with 58.
      rewrite (after_app 58 _ _ N58), (before_app 58 _ _ N58). reflexivity.
    + rewrite (normalize_domain_plain v H).
      assert (N58 : noc 58 (map lower v) = true).
      { unfold wf_name in H. apply andb_prop in H. destruct H as [H _].
        apply forallb_map. exact (forallb_impl _ _ _ host_char_lower_no58 H). }
      rewrite (after_noc 58 _ N58). reflexivity.
Qed.

(* ------------------------------------------------------------------ the front of the sniffer *)
Lemma sniff_tls_na m0 r slack : m0 <> 22 -> sniff_tls (m0 :: r) slack = NotApplicable.
Proof.
  intro H. unfold sniff_tls. destruct (blen (m0 :: r) <? 5); [reflexivity|].
  cbn [nthb nth]. unfold tls_content_handshake. apply N.eqb_neq in H. rewrite H. reflexivity.
Qed.

Lemma sniff_http_method m r :
  meth_ok m = true -> existsb (bytes_eqb m) http_methods = true ->
  sniff_http (m ++ 32 :: r) = http_lines (S (length (m ++ 32 :: r))) (Some (m ++ 32 :: r)).
Proof.
  intros Hm Hex. unfold meth_ok in Hm.
  apply andb_prop in Hm. destruct Hm as [Hm Hlen]. apply andb_prop in Hm. destruct Hm as [Hhost Hup].
  apply Nat.leb_le in Hlen.
  assert (Hs : index_byte 32 (firstn 12 (m ++ 32 :: r)) = Some (length m)
               /\ firstn (length m) (firstn 12 (m ++ 32 :: r)) = m).
  { rewrite firstn_app. rewrite (firstn_all2 m) by lia.
    destruct (12 - length m)%nat as [|n] eqn:En; [lia|]. cbn [firstn].
    split.
    - apply index_byte_app_here. exact (forallb_impl _ _ _ upper_no32 Hup).
    - apply firstn_len_app. }
  destruct Hs as [Hs1 Hs2].
  destruct m as [|m0 m']; [discriminate Hhost|].
  unfold sniff_http. cbn [app]. cbn [app] in Hs1, Hs2.
  cbn [forallb] in Hup. apply andb_prop in Hup. destruct Hup as [U0 _].
  assert (P : is_print m0 = true) by (unfold upper in U0; unfold is_print; lia).
  rewrite P. cbn [negb]. rewrite Hs1, Hs2, Hex. reflexivity.
Qed.

Lemma enc_head_shape q body :
  enc_head q ++ body =
  (q_method q ++ 32 :: q_target q ++ 32 :: q_version q)
    ++ 13 :: 10 :: (flat_map enc_header (q_headers q) ++ crlf ++ body).
Proof.
  unfold enc_head. unfold crlf at 1. repeat (first [rewrite <- app_assoc | progress cbn [app]]). reflexivity.
Qed.

Lemma flat_map_hdr_len hs : (length hs <= length (flat_map enc_header hs))%nat.
Proof.
  induction hs as [|kv hs IH]; cbn [flat_map length]; [lia|].
  rewrite app_length. unfold enc_header at 1. rewrite app_length. cbn [app length]. lia.
Qed.

(* ------------------------------------------------------------------ the theorem *)
Lemma C06_http_roundtrip_proof : C06_http_roundtrip_stmt.
Proof.
  unfold C06_http_roundtrip_stmt. intros q body slack H.
  unfold wf_head in H.
  apply andb_prop in H. destruct H as [H Hwf].
  apply andb_prop in H. destruct H as [H Hhs].
  apply andb_prop in H. destruct H as [H Hver].
  apply andb_prop in H. destruct H as [H Htne].
  apply andb_prop in H. destruct H as [Hex Ht].
  pose proof (method_ok _ Hex) as Hm.
  change (forallb hdr_ok (q_headers q) = true) in Hhs.
  assert (Hres : sniff_group_tcp (enc_head q ++ body) slack = norm_outcome (res_of (q_headers q))).
  { rewrite enc_head_shape. repeat (first [rewrite <- app_assoc | progress cbn [app]]).
    unfold sniff_group_tcp.
    assert (Hm' := Hm). unfold meth_ok in Hm'.
    apply andb_prop in Hm'. destruct Hm' as [Hm' _]. apply andb_prop in Hm'. destruct Hm' as [Hhost Hup].
    destruct (q_method q) as [|m0 m'] eqn:Eq; [discriminate Hhost|].
    cbn [app].
    rewrite sniff_tls_na.
    2:{ cbn [forallb] in Hup. apply andb_prop in Hup. destruct Hup as [U0 _]. unfold upper in U0. lia. }
    f_equal.
    change (m0 :: m' ++ 32 :: q_target q ++ 32 :: q_version q ++ 13 :: 10 :: flat_map enc_header (q_headers q) ++ crlf ++ body)
      with ((m0 :: m') ++ 32 :: q_target q ++ 32 :: q_version q ++ 13 :: 10 :: flat_map enc_header (q_headers q) ++ crlf ++ body).
    rewrite (sniff_http_method _ _ Hm Hex).
    remember (length ((m0 :: m') ++ 32 :: q_target q ++ 32 :: q_version q ++ 13 :: 10 :: flat_map enc_header (q_headers q) ++ crlf ++ body)) as n eqn:En.
    assert (Hn : (length (q_headers q) < n)%nat).
    { subst n. pose proof (flat_map_hdr_len (q_headers q)).
      repeat (rewrite app_length; cbn [length]). lia. }
    replace ((m0 :: m') ++ 32 :: q_target q ++ 32 :: q_version q ++ 13 :: 10 :: flat_map enc_header (q_headers q) ++ crlf ++ body)
      with (((m0 :: m') ++ 32 :: q_target q ++ 32 :: q_version q) ++ 13 :: 10 :: (flat_map enc_header (q_headers q) ++ crlf ++ body)).
    2:{ repeat (first [rewrite <- app_assoc | progress cbn [app]]). reflexivity. }
    rewrite (reqline_skip _ _ _ _ _ Hm Ht Hver).
    apply header_block; assumption. }
  rewrite Hres. unfold res_of, host_of.
  destruct (first_host_header (q_headers q)) as [v|]; [|reflexivity].
  destruct (length v =? 0)%nat; [reflexivity|].
  cbn [norm_outcome]. f_equal. apply normalize_domain_wf. exact Hwf.
Qed.

Print Assumptions C06_http_roundtrip_proof.
