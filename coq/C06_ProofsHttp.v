(* C06 — proof of the HTTP/1 round-trip statement. *)
From Coq Require Import List NArith Bool Arith Lia ZifyBool ZifyN ZifyNat.
From Dae.gen Require Import C06_Extracted.
From Dae Require Import C06_Spec C06_Model C06_Statements.
Import ListNotations.
Open Scope N_scope.

(* ------------------------------------------------------------------ generic list facts *)
Lemma bytes_eqb_eq a : forall b, bytes_eqb a b = true -> a = b.
Proof.
  unfold bytes_eqb. induction a as [|x a IH]; intros [|y b] H; cbn in H; try discriminate; auto.
  apply andb_prop in H. destruct H as [H1 H2]. apply andb_prop in H2. destruct H2 as [H2 H3].
  apply N.eqb_eq in H2. subst. f_equal. apply IH. rewrite H1, H3. reflexivity.
Qed.

Lemma forallb_impl (P Q : N -> bool) l :
  (forall x, P x = true -> Q x = true) -> forallb P l = true -> forallb Q l = true.
Proof.
  intros HPQ H. rewrite forallb_forall in *. intros x Hx. apply HPQ, H, Hx.
Qed.

Lemma forallb_rev (P : N -> bool) l : forallb P l = true -> forallb P (rev l) = true.
Proof.
  intro H. rewrite forallb_forall in *. intros x Hx. apply H. apply in_rev. exact Hx.
Qed.

Lemma forallb_map (P : N -> bool) (f : N -> N) l :
  forallb (fun x => P (f x)) l = true -> forallb P (map f l) = true.
Proof.
  induction l as [|a l IH]; cbn [map forallb]; intro H; [reflexivity|].
  apply andb_prop in H. destruct H as [H1 H2]. rewrite H1, (IH H2). reflexivity.
Qed.

Lemma firstn_len_app (l r : bytes) : firstn (length l) (l ++ r) = l.
Proof. induction l as [|a l IH]; cbn [length firstn app]; [destruct r; reflexivity | rewrite IH; reflexivity]. Qed.

Lemma skipn_len_app (l r : bytes) n : skipn (length l + n) (l ++ r) = skipn n r.
Proof. induction l as [|a l IH]; cbn [length skipn app Nat.add]; [reflexivity | exact IH]. Qed.

(* ------------------------------------------------------------------ index_byte / index_crlf *)
Lemma index_byte_app_here c l r :
  forallb (fun b => negb (b =? c)) l = true -> index_byte c (l ++ c :: r) = Some (length l).
Proof.
  induction l as [|a l IH]; cbn [app index_byte forallb length]; intro H.
  - rewrite N.eqb_refl. reflexivity.
  - apply andb_prop in H. destruct H as [H1 H2]. apply negb_true_iff in H1. rewrite H1.
    rewrite (IH H2). reflexivity.
Qed.

Lemma index_byte_none c l :
  forallb (fun b => negb (b =? c)) l = true -> index_byte c l = None.
Proof.
  induction l as [|a l IH]; cbn [index_byte forallb]; intro H; [reflexivity|].
  apply andb_prop in H. destruct H as [H1 H2]. apply negb_true_iff in H1. rewrite H1.
  rewrite (IH H2). reflexivity.
Qed.

Lemma index_crlf_ne b r : b <> 13 -> index_crlf (b :: r) = option_map S (index_crlf r).
Proof.
  intro H. destruct b as [|p]; [reflexivity|].
  do 4 (try (destruct p as [p|p|]; try reflexivity)).
  exfalso. apply H. reflexivity.
Qed.

Lemma index_crlf_app l r :
  forallb (fun b => negb (b =? 13)) l = true -> index_crlf (l ++ 13 :: 10 :: r) = Some (length l).
Proof.
  induction l as [|a l IH]; cbn [app forallb length]; intro H; [reflexivity|].
  apply andb_prop in H. destruct H as [H1 H2]. apply negb_true_iff in H1. apply N.eqb_neq in H1.
  rewrite (index_crlf_ne _ _ H1), (IH H2). reflexivity.
Qed.

(* ------------------------------------------------------------------ trimming *)
Definition rtrim_sp (l : bytes) : bytes := rev (ltrim_sp (rev l)).

Lemma ltrim_sp_snoc x a : is_space a = false -> ltrim_sp (x ++ [a]) = ltrim_sp x ++ [a].
Proof.
  intro H. induction x as [|b x IH]; cbn [app ltrim_sp].
  - rewrite H. reflexivity.
  - destruct (is_space b); [exact IH | reflexivity].
Qed.

Lemma rtrim_sp_cons a l : is_space a = false -> rtrim_sp (a :: l) = a :: rtrim_sp l.
Proof.
  intro H. unfold rtrim_sp. cbn [rev]. rewrite (ltrim_sp_snoc _ _ H), rev_app_distr. reflexivity.
Qed.

Lemma trim_sp_cons a l : is_space a = false -> trim_sp (a :: l) = a :: rtrim_sp l.
Proof.
  intro H. unfold trim_sp. cbn [ltrim_sp]. rewrite H. apply (rtrim_sp_cons a l H).
Qed.

Definition nosp (b : N) : bool := negb (is_space b).

Lemma rtrim_sp_id l : forallb nosp l = true -> rtrim_sp l = l.
Proof.
  induction l as [|a l IH]; cbn [forallb]; intro H; [reflexivity|].
  apply andb_prop in H. destruct H as [H1 H2]. apply negb_true_iff in H1.
  rewrite (rtrim_sp_cons _ _ H1), (IH H2). reflexivity.
Qed.

Lemma trim_sp_id l : forallb nosp l = true -> trim_sp l = l.
Proof.
  destruct l as [|a l]; cbn [forallb]; intro H; [reflexivity|].
  apply andb_prop in H. destruct H as [H1 H2]. apply negb_true_iff in H1.
  rewrite (trim_sp_cons _ _ H1), (rtrim_sp_id _ H2). reflexivity.
Qed.

(* bytes on which Go's space set and the spec's OWS agree *)
Definition okb (b : N) : bool := negb ((10 <=? b) && (b <=? 13)).

Lemma okb_eq b : okb b = true -> is_space b = is_ows b.
Proof.
  unfold okb, is_space, is_ows. intro H.
  destruct (b =? 32) eqn:E1; [reflexivity|]. cbn [orb].
  destruct (b =? 9) eqn:E2; lia.
Qed.

Lemma ltrim_sp_ltrim l : forallb okb l = true -> ltrim_sp l = ltrim l.
Proof.
  induction l as [|a l IH]; cbn [forallb ltrim_sp ltrim]; intro H; [reflexivity|].
  apply andb_prop in H. destruct H as [H1 H2]. rewrite (okb_eq _ H1), (IH H2). reflexivity.
Qed.

Lemma forallb_ltrim (P : N -> bool) l : forallb P l = true -> forallb P (ltrim l) = true.
Proof.
  induction l as [|a l IH]; cbn [forallb ltrim]; intro H; [reflexivity|].
  destruct (is_ows a); [|exact H].
  apply andb_prop in H. destruct H as [_ H2]. exact (IH H2).
Qed.

Lemma trim_sp_trim l : forallb okb l = true -> trim_sp l = trim l.
Proof.
  intro H. unfold trim_sp, trim. rewrite (ltrim_sp_ltrim _ H).
  rewrite (ltrim_sp_ltrim (rev (ltrim l))); [reflexivity|].
  apply forallb_rev, forallb_ltrim, H.
Qed.

(* ------------------------------------------------------------------ byte classes *)
Definition upper (b : N) : bool := (65 <=? b) && (b <=? 90).
Definition valb (b : N) : bool := ((32 <=? b) && (b <=? 126)) || (b =? 9).

Lemma host_char_nosp b : host_char b = true -> nosp b = true.
Proof. unfold host_char, nosp, is_space. lia. Qed.
Lemma host_char_okb b : host_char b = true -> okb b = true.
Proof. unfold host_char, okb. lia. Qed.
Lemma host_char_no13 b : host_char b = true -> negb (b =? 13) = true.
Proof. unfold host_char. lia. Qed.
Lemma host_char_no58 b : host_char b = true -> negb (b =? 58) = true.
Proof. unfold host_char. lia. Qed.
Lemma valb_okb b : valb b = true -> okb b = true.
Proof. unfold valb, okb. lia. Qed.
Lemma valb_no13 b : valb b = true -> negb (b =? 13) = true.
Proof. unfold valb. lia. Qed.
Lemma visible_no13 b : visible b = true -> negb (b =? 13) = true.
Proof. unfold visible. lia. Qed.
Lemma upper_no13 b : upper b = true -> negb (b =? 13) = true.
Proof. unfold upper. lia. Qed.
Lemma upper_no32 b : upper b = true -> negb (b =? 32) = true.
Proof. unfold upper. lia. Qed.
Lemma host_char_lower_no58 b : host_char b = true -> negb (lower b =? 58) = true.
Proof. unfold host_char, lower. destruct ((65 <=? b) && (b <=? 90)) eqn:E; lia. Qed.
Lemma host_char_lower_no93 b : host_char b = true -> negb (lower b =? 93) = true.
Proof. unfold host_char, lower. destruct ((65 <=? b) && (b <=? 90)) eqn:E; lia. Qed.

(* ------------------------------------------------------------------ methods *)
Definition meth_ok (m : bytes) : bool :=
  match m with
  | m0 :: m1 :: _ => negb ((lower m0 =? 104) && (lower m1 =? 111))
  | _ => false
  end && forallb upper m && (length m <=? 8)%nat.

Lemma methods_ok : forallb meth_ok http_methods = true.
Proof. vm_compute. reflexivity. Qed.

Lemma method_ok m : existsb (bytes_eqb m) http_methods = true -> meth_ok m = true.
Proof.
  intro H. apply existsb_exists in H. destruct H as [x [Hin He]].
  apply bytes_eqb_eq in He. subst x.
  pose proof methods_ok as A. rewrite forallb_forall in A. apply A, Hin.
Qed.

(* ------------------------------------------------------------------ http_lines, one line *)
Lemma http_lines_step f line rest :
  forallb (fun b => negb (b =? 13)) line = true ->
  http_lines (S f) (Some (line ++ 13 :: 10 :: rest)) =
    if (length line =? 0)%nat then NotFound else
    match index_byte 58 line with
    | None => http_lines f (Some rest)
    | Some c =>
        if bytes_eqb (map lower (trim_sp (firstn c line))) host_key then
          if (length (trim_sp (skipn (c + 1) line)) =? 0)%nat then NotFound
          else Found (trim_sp (skipn (c + 1) line))
        else http_lines f (Some rest)
    end.
Proof.
  intro H. cbn [http_lines]. rewrite (index_crlf_app _ _ H).
  cbv beta iota. rewrite firstn_len_app, skipn_len_app. cbn [skipn]. reflexivity.
Qed.

Lemma reqline_skip f m t ver rest :
  meth_ok m = true -> forallb visible t = true -> forallb visible ver = true ->
  http_lines (S f) (Some ((m ++ 32 :: t ++ 32 :: ver) ++ 13 :: 10 :: rest)) = http_lines f (Some rest).
Proof.
  intros Hm Ht Hv. unfold meth_ok in Hm.
  apply andb_prop in Hm. destruct Hm as [Hm Hlen]. apply andb_prop in Hm. destruct Hm as [Hhost Hup].
  rewrite http_lines_step.
  2:{ rewrite forallb_app. rewrite (forallb_impl _ _ _ upper_no13 Hup). cbn [forallb andb].
      change (negb (32 =? 13)) with true. cbn [andb].
      rewrite forallb_app. rewrite (forallb_impl _ _ _ visible_no13 Ht). cbn [forallb andb].
      change (negb (32 =? 13)) with true. cbn [andb].
      exact (forallb_impl _ _ _ visible_no13 Hv). }
  destruct m as [|m0 [|m1 m']]; try discriminate Hhost.
  cbn [forallb] in Hup.
  apply andb_prop in Hup. destruct Hup as [U0 Hup]. apply andb_prop in Hup. destruct Hup as [U1 _].
  cbn [app length Nat.eqb index_byte].
  assert (E0 : (m0 =? 58) = false) by (unfold upper in U0; lia).
  assert (E1 : (m1 =? 58) = false) by (unfold upper in U1; lia).
  assert (S0 : is_space m0 = false) by (unfold upper in U0; unfold is_space; lia).
  assert (S1 : is_space m1 = false) by (unfold upper in U1; unfold is_space; lia).
  rewrite E0, E1.
  destruct (index_byte 58 (m' ++ 32 :: t ++ 32 :: ver)) as [c|]; cbn [option_map]; [|reflexivity].
  cbn [firstn]. rewrite (trim_sp_cons _ _ S0), (rtrim_sp_cons _ _ S1). cbn [map].
  match goal with |- (if ?b then _ else _) = _ => destruct b eqn:E end; [|reflexivity].
  apply bytes_eqb_eq in E. unfold host_key in E. injection E as A0 A1 _.
  rewrite A0, A1 in Hhost. discriminate Hhost.
Qed.

(* ------------------------------------------------------------------ http_lines over the header block *)
Definition hdr_ok (kv : bytes * bytes) : bool :=
  forallb host_char (fst kv) && negb (length (fst kv) =? 0)%nat
  && forallb (fun b => ((32 <=? b) && (b <=? 126)) || (b =? 9)) (snd kv).

Definition res_of (hs : list (bytes * bytes)) : outcome :=
  match first_host_header hs with
  | Some v => if (length v =? 0)%nat then NotFound else Found v
  | None => NotFound
  end.

Lemma header_block body : forall hs fuel,
  forallb hdr_ok hs = true -> (length hs < fuel)%nat ->
  http_lines fuel (Some (flat_map enc_header hs ++ crlf ++ body)) = res_of hs.
Proof.
  induction hs as [|[k v] hs IH]; intros fuel Hok Hf; (destruct fuel as [|f]; [lia|]).
  - reflexivity.
  - cbn [forallb] in Hok. apply andb_prop in Hok. destruct Hok as [Hh Hok].
    unfold hdr_ok in Hh. cbn [fst snd] in Hh.
    apply andb_prop in Hh. destruct Hh as [Hh Hval]. apply andb_prop in Hh. destruct Hh as [Hk Hne].
    change (forallb valb v = true) in Hval.
    cbn [flat_map]. unfold enc_header at 1. cbn [fst snd]. unfold crlf at 1.
    replace (((k ++ [58] ++ v ++ [13; 10]) ++ flat_map enc_header hs) ++ crlf ++ body)
      with ((k ++ 58 :: v) ++ 13 :: 10 :: (flat_map enc_header hs ++ crlf ++ body)).
    2:{ repeat (first [rewrite <- app_assoc | progress cbn [app]]). reflexivity. }
    rewrite http_lines_step.
    2:{ rewrite forallb_app. rewrite (forallb_impl _ _ _ host_char_no13 Hk). cbn [forallb andb].
        change (negb (58 =? 13)) with true. cbn [andb].
        exact (forallb_impl _ _ _ valb_no13 Hval). }
    assert (L : Nat.eqb (length (k ++ 58 :: v)) 0%nat = false).
    { rewrite app_length. cbn [length]. apply Nat.eqb_neq. lia. }
    rewrite L.
    rewrite (index_byte_app_here 58 k v (forallb_impl _ _ _ host_char_no58 Hk)).
    rewrite firstn_len_app, skipn_len_app. cbn [skipn].
    rewrite (trim_sp_id k (forallb_impl _ _ _ host_char_nosp Hk)).
    rewrite (trim_sp_trim v (forallb_impl _ _ _ valb_okb Hval)).
    unfold res_of, first_host_header. cbn [find fst snd].
    unfold is_host_key at 1.
    rewrite <- (trim_sp_trim k (forallb_impl _ _ _ host_char_okb Hk)).
    rewrite (trim_sp_id k (forallb_impl _ _ _ host_char_nosp Hk)).
    change [104; 111; 115; 116] with host_key.
    destruct (bytes_eqb (map lower k) host_key); [reflexivity|].
    apply IH; [exact Hok | cbn [length] in Hf; lia].
Qed.

(* ------------------------------------------------------------------ NormalizeDomain on a plain name *)
Lemma drop_port_ne b r : b <> 58 -> drop_port (b :: r) = b :: drop_port r.
Proof.
  intro H. destruct b as [|p]; [reflexivity|].
  do 6 (try (destruct p as [p|p|]; try reflexivity)).
  exfalso. apply H. reflexivity.
Qed.

Lemma drop_port_id v : forallb (fun b => negb (b =? 58)) v = true -> drop_port v = v.
Proof.
  induction v as [|a v IH]; cbn [forallb]; intro H; [reflexivity|].
  apply andb_prop in H. destruct H as [H1 H2]. apply negb_true_iff in H1. apply N.eqb_neq in H1.
  rewrite (drop_port_ne _ _ H1), (IH H2). reflexivity.
Qed.

Lemma last_is_false c l : forallb (fun b => negb (b =? c)) l = true -> last_is c l = false.
Proof.
  intro H. apply forallb_rev in H. unfold last_is. destruct (rev l) as [|b r]; [reflexivity|].
  cbn [forallb] in H. apply andb_prop in H. destruct H as [H1 _]. apply negb_true_iff in H1. exact H1.
Qed.

Lemma normalize_domain_wf v : wf_name v = true -> normalize_domain v = norm_name (drop_port v).
Proof.
  unfold wf_name. intro H. apply andb_prop in H. destruct H as [H _].
  rewrite (drop_port_id v (forallb_impl _ _ _ host_char_no58 H)).
  unfold normalize_domain, norm_name.
  rewrite (trim_sp_id v (forallb_impl _ _ _ host_char_nosp H)).
  cbv zeta.
  assert (A : forallb (fun b => negb (b =? 93)) (map lower v) = true).
  { apply forallb_map. exact (forallb_impl _ _ _ host_char_lower_no93 H). }
  assert (B : forallb (fun b => negb (b =? 58)) (map lower v) = true).
  { apply forallb_map. exact (forallb_impl _ _ _ host_char_lower_no58 H). }
  rewrite (last_is_false _ _ A).
  unfold split_host_port, last_index_byte.
  rewrite (index_byte_none 58 _ (forallb_rev _ _ B)). reflexivity.
Qed.

(* ------------------------------------------------------------------ the front of the sniffer *)
Lemma sniff_tls_na m0 r slack : m0 <> 22 -> sniff_tls (m0 :: r) slack = NotApplicable.
Proof.
  intro H. unfold sniff_tls. destruct (blen (m0 :: r) <? 5); [reflexivity|].
  cbn [nthb nth]. unfold tls_content_handshake. apply N.eqb_neq in H. rewrite H. reflexivity.
Qed.

Lemma sniff_http_method m r :
  meth_ok m = true -> existsb (bytes_eqb m) http_methods = true ->
  sniff_http (m ++ 32 :: r) = http_lines (S (length (m ++ 32 :: r))) (Some (m ++ 32 :: r)).
Proof.
  intros Hm Hex. unfold meth_ok in Hm.
  apply andb_prop in Hm. destruct Hm as [Hm Hlen]. apply andb_prop in Hm. destruct Hm as [Hhost Hup].
  apply Nat.leb_le in Hlen.
  assert (Hs : index_byte 32 (firstn 12 (m ++ 32 :: r)) = Some (length m)
               /\ firstn (length m) (firstn 12 (m ++ 32 :: r)) = m).
  { rewrite firstn_app. rewrite (firstn_all2 m) by lia.
    destruct (12 - length m)%nat as [|n] eqn:En; [lia|]. cbn [firstn].
    split.
    - apply index_byte_app_here. exact (forallb_impl _ _ _ upper_no32 Hup).
    - apply firstn_len_app. }
  destruct Hs as [Hs1 Hs2].
  destruct m as [|m0 m']; [discriminate Hhost|].
  unfold sniff_http. cbn [app]. cbn [app] in Hs1, Hs2.
  cbn [forallb] in Hup. apply andb_prop in Hup. destruct Hup as [U0 _].
  assert (P : is_print m0 = true) by (unfold upper in U0; unfold is_print; lia).
  rewrite P. cbn [negb]. rewrite Hs1, Hs2, Hex. reflexivity.
Qed.

Lemma enc_head_shape q body :
  enc_head q ++ body =
  (q_method q ++ 32 :: q_target q ++ 32 :: q_version q)
    ++ 13 :: 10 :: (flat_map enc_header (q_headers q) ++ crlf ++ body).
Proof.
  unfold enc_head. unfold crlf at 1. repeat (first [rewrite <- app_assoc | progress cbn [app]]). reflexivity.
Qed.

Lemma flat_map_hdr_len hs : (length hs <= length (flat_map enc_header hs))%nat.
Proof.
  induction hs as [|kv hs IH]; cbn [flat_map length]; [lia|].
  rewrite app_length. unfold enc_header at 1. rewrite app_length. cbn [app length]. lia.
Qed.

(* ------------------------------------------------------------------ the theorem *)
Lemma C06_http_roundtrip_proof : C06_http_roundtrip_stmt.
Proof.
  unfold C06_http_roundtrip_stmt. intros q body slack H.
  unfold wf_head in H.
  apply andb_prop in H. destruct H as [H Hwf].
  apply andb_prop in H. destruct H as [H Hhs].
  apply andb_prop in H. destruct H as [H Hver].
  apply andb_prop in H. destruct H as [H Htne].
  apply andb_prop in H. destruct H as [Hex Ht].
  pose proof (method_ok _ Hex) as Hm.
  change (forallb hdr_ok (q_headers q) = true) in Hhs.
  assert (Hres : sniff_group_tcp (enc_head q ++ body) slack = norm_outcome (res_of (q_headers q))).
  { rewrite enc_head_shape. repeat (first [rewrite <- app_assoc | progress cbn [app]]).
    unfold sniff_group_tcp.
    assert (Hm' := Hm). unfold meth_ok in Hm'.
    apply andb_prop in Hm'. destruct Hm' as [Hm' _]. apply andb_prop in Hm'. destruct Hm' as [Hhost Hup].
    destruct (q_method q) as [|m0 m'] eqn:Eq; [discriminate Hhost|].
    cbn [app].
    rewrite sniff_tls_na.
    2:{ cbn [forallb] in Hup. apply andb_prop in Hup. destruct Hup as [U0 _]. unfold upper in U0. lia. }
    f_equal.
    change (m0 :: m' ++ 32 :: q_target q ++ 32 :: q_version q ++ 13 :: 10 :: flat_map enc_header (q_headers q) ++ crlf ++ body)
      with ((m0 :: m') ++ 32 :: q_target q ++ 32 :: q_version q ++ 13 :: 10 :: flat_map enc_header (q_headers q) ++ crlf ++ body).
    rewrite (sniff_http_method _ _ Hm Hex).
    remember (length ((m0 :: m') ++ 32 :: q_target q ++ 32 :: q_version q ++ 13 :: 10 :: flat_map enc_header (q_headers q) ++ crlf ++ body)) as n eqn:En.
    assert (Hn : (length (q_headers q) < n)%nat).
    { subst n. pose proof (flat_map_hdr_len (q_headers q)).
      repeat (rewrite app_length; cbn [length]). lia. }
    replace ((m0 :: m') ++ 32 :: q_target q ++ 32 :: q_version q ++ 13 :: 10 :: flat_map enc_header (q_headers q) ++ crlf ++ body)
      with (((m0 :: m') ++ 32 :: q_target q ++ 32 :: q_version q) ++ 13 :: 10 :: (flat_map enc_header (q_headers q) ++ crlf ++ body)).
    2:{ repeat (first [rewrite <- app_assoc | progress cbn [app]]). reflexivity. }
    rewrite (reqline_skip _ _ _ _ _ Hm Ht Hver).
    apply header_block; assumption. }
  rewrite Hres. unfold res_of, host_of.
  destruct (first_host_header (q_headers q)) as [v|]; [|reflexivity].
  destruct (length v =? 0)%nat; [reflexivity|].
  cbn [norm_outcome]. f_equal. apply normalize_domain_wf. exact Hwf.
Qed.

Print Assumptions C06_http_roundtrip_proof.
