(* C15 — lemmas. *)
From Coq Require Import List ZArith Bool Arith Lia.
From Dae Require Import C15_Spec C15_Model.
Import ListNotations.
Open Scope Z_scope.

(* ---------- fixed(i) ---------- *)
Lemma C15_fixed_ith_proof :
  forall (c : cfg) (g : group) (rq : reqtype) (strict : bool) (excl : option nat) (i : Z),
    c_n c <> O -> g_policy g = GFixed i -> 0 <= i < Z.of_nat (c_n c) ->
    exists sel, select c g rq strict excl = MOk [Z.to_nat i] 0 sel.
Proof.
  intros c g rq strict excl i Hn Hp Hi.
  unfold select, select1. rewrite Hp.
  destruct (c_n c) eqn:En; [congruence|].
  assert (H1 : (i <? 0) = false) by (apply Z.ltb_ge; lia).
  assert (H2 : (Z.of_nat (S n) <=? i) = false) by (apply Z.leb_gt; lia).
  rewrite H1, H2. cbn [orb]. eexists. reflexivity.
Qed.

(* ---------- list lemmas: set_nth, removelast ---------- *)
Lemma set_nth_length : forall A i (x : A) l, length (set_nth i x l) = length l.
Proof. induction i; destruct l; cbn; auto. Qed.

Lemma nth_error_set_nth : forall A (l : list A) i j (x : A),
  nth_error (set_nth i x l) j = if Nat.eqb j i then (if Nat.ltb i (length l) then Some x else None) else nth_error l j.
Proof.
  induction l; intros i j x.
  - destruct i; cbn; destruct j; cbn; try reflexivity; destruct (Nat.eqb _ _); reflexivity.
  - destruct i, j; cbn; try reflexivity.
    rewrite IHl. destruct (Nat.eqb j i); try reflexivity.
Qed.

Lemma nth_error_removelast : forall A (l : list A) j,
  nth_error (removelast l) j = if Nat.ltb j (length l - 1) then nth_error l j else None.
Proof.
  induction l; intros j.
  - destruct j; reflexivity.
  - destruct l as [|b l'].
    + destruct j; reflexivity.
    + change (removelast (a :: b :: l')) with (a :: removelast (b :: l')).
      destruct j.
      * reflexivity.
      * cbn [nth_error]. rewrite IHl. cbn [length]. 
        replace (S (S (length l')) - 1)%nat with (S (S (length l') - 1))%nat by lia.
        reflexivity.
Qed.

Lemma removelast_length : forall A (l : list A), length (removelast l) = (length l - 1)%nat.
Proof.
  induction l; [reflexivity|]. destruct l; [reflexivity|].
  change (removelast (a :: a0 :: l)) with (a :: removelast (a0 :: l)). cbn [length] in *. rewrite IHl. lia.
Qed.

Lemma nth_error_app_last : forall A (l : list A) x j,
  nth_error (l ++ [x]) j = if Nat.eqb j (length l) then Some x else nth_error l j.
Proof.
  induction l; intros x j; cbn.
  - destruct j; cbn; [reflexivity|]. destruct j; reflexivity.
  - destruct j; cbn; [reflexivity|]. apply IHl.
Qed.

(* ---------- the index invariant (dialerToIndex <-> aliveEntries) ---------- *)

Lemma idx_ok_lt : forall idx es d i, idx_ok idx es -> idx d = SAt i -> (i < length es)%nat.
Proof.
  intros idx es d i H Hd. apply H in Hd. destruct Hd as [l Hl].
  apply nth_error_Some. congruence.
Qed.

Lemma idx_ok_in : forall idx es d, idx_ok idx es -> (In d (map fst es) <-> exists i, idx d = SAt i).
Proof.
  intros idx es d H. split.
  - intros Hin. apply in_map_iff in Hin. destruct Hin as [[d' l] [Hf Hin]]. cbn in Hf. subst d'.
    apply In_nth_error in Hin. destruct Hin as [i Hi]. exists i. apply H. eauto.
  - intros [i Hi]. apply H in Hi. destruct Hi as [l Hl]. apply nth_error_In in Hl.
    apply in_map_iff. exists (d, l). auto.
Qed.

Lemma idx_ok_in_unique : forall idx es d l1 l2, idx_ok idx es -> In (d, l1) es -> In (d, l2) es -> l1 = l2.
Proof.
  intros idx es d l1 l2 H H1 H2.
  apply In_nth_error in H1. apply In_nth_error in H2. destruct H1 as [i Hi], H2 as [j Hj].
  assert (idx d = SAt i) by (apply H; eauto). assert (idx d = SAt j) by (apply H; eauto).
  assert (i = j) by congruence. subst. congruence.
Qed.

Lemma updn_same : forall V (f : nat -> V) k v, updn f k v k = v.
Proof. intros. unfold updn. rewrite Nat.eqb_refl. reflexivity. Qed.
Lemma updn_other : forall V (f : nat -> V) k v k', k' <> k -> updn f k v k' = f k'.
Proof. intros. unfold updn. apply Nat.eqb_neq in H. rewrite H. reflexivity. Qed.

Lemma idx_ok_add : forall idx es d,
  idx_ok idx es -> (forall i, idx d <> SAt i) ->
  idx_ok (updn idx d (SAt (length es))) (es ++ [(d, 0)]).
Proof.
  intros idx es d H Hd d' i. rewrite nth_error_app_last.
  destruct (Nat.eqb i (length es)) eqn:Ei.
  - apply Nat.eqb_eq in Ei. subst i. split.
    + intros Hu. destruct (Nat.eq_dec d' d) as [->|Hne]; [eauto|].
      rewrite updn_other in Hu by auto. apply idx_ok_lt with (es := es) in Hu; auto. lia.
    + intros [l Hl]. inversion Hl; subst. apply updn_same.
  - apply Nat.eqb_neq in Ei. split.
    + intros Hu. destruct (Nat.eq_dec d' d) as [->|Hne].
      * rewrite updn_same in Hu. congruence.
      * rewrite updn_other in Hu by auto. apply H; auto.
    + intros Hl. destruct (Nat.eq_dec d' d) as [->|Hne].
      * apply H in Hl. exfalso. eapply Hd; eauto.
      * rewrite updn_other by auto. apply H; auto.
Qed.

Lemma idx_ok_set : forall idx es d i s,
  idx_ok idx es -> idx d = SAt i -> idx_ok idx (set_nth i (d, s) es).
Proof.
  intros idx es d i s H Hd d' j. rewrite nth_error_set_nth.
  pose proof (idx_ok_lt _ _ _ _ H Hd) as Hlt.
  destruct (Nat.eqb j i) eqn:Ej.
  - apply Nat.eqb_eq in Ej. subst j. apply Nat.ltb_lt in Hlt. rewrite Hlt. split.
    + intros Hd'. apply H in Hd'. apply H in Hd. destruct Hd as [l1 H1], Hd' as [l2 H2].
      assert (d' = d) by congruence. subst. eauto.
    + intros [l Hl]. inversion Hl; subst. auto.
  - apply H.
Qed.

Lemma in_set_nth : forall idx es d i s x,
  idx_ok idx es -> idx d = SAt i ->
  (In x (set_nth i (d, s) es) <-> x = (d, s) \/ (In x es /\ fst x <> d)).
Proof.
  intros idx es d i s x H Hd.
  pose proof (idx_ok_lt _ _ _ _ H Hd) as Hlt. apply Nat.ltb_lt in Hlt.
  split.
  - intros Hin. apply In_nth_error in Hin. destruct Hin as [j Hj]. rewrite nth_error_set_nth in Hj.
    destruct (Nat.eqb j i) eqn:Ej.
    + rewrite Hlt in Hj. left. congruence.
    + right. split; [eapply nth_error_In; eauto|]. destruct x as [d' l]. cbn. intros ->.
      assert (idx d = SAt j) by (apply H; eauto). apply Nat.eqb_neq in Ej. congruence.
  - intros [->|[Hin Hne]].
    + apply nth_error_In with (n := i). rewrite nth_error_set_nth, Nat.eqb_refl, Hlt. reflexivity.
    + apply In_nth_error in Hin. destruct Hin as [j Hj]. apply nth_error_In with (n := j).
      rewrite nth_error_set_nth. destruct (Nat.eqb j i) eqn:Ej; [|auto].
      apply Nat.eqb_eq in Ej. subst j. apply H in Hd. destruct Hd as [l Hl].
      rewrite Hl in Hj. inversion Hj; subst. cbn in Hne. congruence.
Qed.

(* the removal *)
Lemma remove_at_spec : forall a d i,
  idx_ok (a_idx a) (a_entries a) -> a_idx a d = SAt i ->
  idx_ok (a_idx (remove_at a d i)) (a_entries (remove_at a d i)) /\
  (forall x, In x (a_entries (remove_at a d i)) <-> In x (a_entries a) /\ fst x <> d) /\
  (forall j, a_idx (remove_at a d i) d <> SAt j) /\
  a_lat (remove_at a d i) = a_lat a /\ a_policy (remove_at a d i) = a_policy a /\
  a_best (remove_at a d i) = a_best a /\ a_best_lat (remove_at a d i) = a_best_lat a.
Proof.
  intros a d i H Hd.
  pose proof (idx_ok_lt _ _ _ _ H Hd) as Hlt.
  set (es := a_entries a) in *. set (last := (length es - 1)%nat).
  (* nth_error characterisation of the new entries and the new index map *)
  assert (Hchar : exists idx' es',
             a_idx (remove_at a d i) = idx' /\ a_entries (remove_at a d i) = es' /\
             (forall j, nth_error es' j = if Nat.ltb j last then (if Nat.eqb j i then nth_error es last else nth_error es j) else None) /\
             (forall d', idx' d' = if Nat.eqb d' d then SNotAlive
                                   else match a_idx a d' with
                                        | SAt k => if Nat.eqb k last then (if Nat.ltb i last then SAt i else SNotAlive) else SAt k
                                        | s => s end) /\
             a_lat (remove_at a d i) = a_lat a /\ a_policy (remove_at a d i) = a_policy a /\
             a_best (remove_at a d i) = a_best a /\ a_best_lat (remove_at a d i) = a_best_lat a).
  { unfold remove_at. fold es. fold last.
    destruct (Nat.ltb i last) eqn:Eil.
    - apply Nat.ltb_lt in Eil.
      destruct (nth_error es last) as [sw|] eqn:Esw.
      2:{ apply nth_error_None in Esw. unfold last in *. lia. }
      eexists _, _. cbn [a_idx a_entries a_lat a_policy a_best a_best_lat]. split; [reflexivity|]. split; [reflexivity|]. split; [|split; [|auto]].
      + intros j. rewrite nth_error_removelast, set_nth_length. fold last.
        destruct (Nat.ltb j last) eqn:Ejl; [|reflexivity].
        rewrite nth_error_set_nth. destruct (Nat.eqb j i); [|reflexivity].
        assert (Nat.ltb i (length es) = true) by (apply Nat.ltb_lt; lia). rewrite H0. reflexivity.
      + intros d'. destruct sw as [ds ls]. cbn [fst].
        assert (Hds : a_idx a ds = SAt last) by (apply H; eauto).
        destruct (Nat.eqb d' d) eqn:Edd.
        * apply Nat.eqb_eq in Edd. subst d'.
          destruct (Nat.eq_dec d ds) as [->|Hne].
          { rewrite Hd in Hds. inversion Hds. lia. }
          rewrite updn_other by auto. apply updn_same.
        * apply Nat.eqb_neq in Edd.
          destruct (Nat.eq_dec d' ds) as [->|Hne].
          { rewrite updn_same, Hds, Nat.eqb_refl. reflexivity. }
          rewrite updn_other by auto. rewrite updn_other by auto.
          destruct (a_idx a d') as [k| |] eqn:Ek; try reflexivity.
          destruct (Nat.eqb k last) eqn:Ekl; [|reflexivity].
          apply Nat.eqb_eq in Ekl. subst k. apply H in Ek. destruct Ek as [l' Hl'].
          rewrite Esw in Hl'. inversion Hl'; subst. congruence.
    - apply Nat.ltb_ge in Eil. assert (i = last) by (unfold last in *; lia). subst i.
      eexists _, _. cbn [a_idx a_entries a_lat a_policy a_best a_best_lat]. split; [reflexivity|]. split; [reflexivity|]. split; [|split; [|auto]].
      + intros j. rewrite nth_error_removelast. fold last.
        destruct (Nat.ltb j last) eqn:Ejl; [|reflexivity].
        apply Nat.ltb_lt in Ejl. assert (Nat.eqb j last = false) by (apply Nat.eqb_neq; lia).
        rewrite H0. reflexivity.
      + intros d'. destruct (Nat.eqb d' d) eqn:Edd.
        * apply Nat.eqb_eq in Edd. subst. apply updn_same.
        * apply Nat.eqb_neq in Edd. rewrite updn_other by auto.
          destruct (a_idx a d') as [k| |] eqn:Ek; try reflexivity.
          destruct (Nat.eqb k last) eqn:Ekl; [|reflexivity].
          apply Nat.eqb_eq in Ekl. subst k.
          apply H in Ek. apply H in Hd. destruct Ek as [l1 H1], Hd as [l2 H2]. congruence. }
  destruct Hchar as (idx' & es' & -> & -> & Hnth & Hidx & Hrest).
  assert (Hlast_lt : (last < length es)%nat) by (unfold last; lia).
  split; [|split; [|split; [|exact Hrest]]].
  - (* idx_ok *)
    intros d' j. rewrite Hidx, Hnth.
    destruct (Nat.eqb d' d) eqn:Edd.
    + apply Nat.eqb_eq in Edd. subst d'. split; [discriminate|].
      intros [l Hl]. destruct (Nat.ltb j last) eqn:Ejl; [|discriminate].
      apply Nat.ltb_lt in Ejl.
      destruct (Nat.eqb j i) eqn:Eji.
      * assert (a_idx a d = SAt last) by (apply H; eauto). rewrite Hd in H0. inversion H0. apply Nat.eqb_eq in Eji. lia.
      * assert (a_idx a d = SAt j) by (apply H; eauto). rewrite Hd in H0. inversion H0. apply Nat.eqb_neq in Eji. lia.
    + apply Nat.eqb_neq in Edd.
      destruct (Nat.ltb j last) eqn:Ejl.
      * apply Nat.ltb_lt in Ejl. destruct (Nat.eqb j i) eqn:Eji.
        { apply Nat.eqb_eq in Eji. subst j. split.
          - intros Hs. destruct (a_idx a d') as [k| |] eqn:Ek; try discriminate.
            destruct (Nat.eqb k last) eqn:Ekl.
            + apply Nat.eqb_eq in Ekl. subst k. apply H. exact Ek.
            + inversion Hs; subst k.
              apply H in Ek. apply H in Hd. destruct Ek as [l1 H1], Hd as [l2 H2]. rewrite H1 in H2. inversion H2. congruence.
          - intros Hl. apply H in Hl. rewrite Hl, Nat.eqb_refl.
            assert (Nat.ltb i last = true) by (apply Nat.ltb_lt; lia). rewrite H0. reflexivity. }
        { apply Nat.eqb_neq in Eji. split.
          - intros Hs. destruct (a_idx a d') as [k| |] eqn:Ek; try discriminate.
            destruct (Nat.eqb k last) eqn:Ekl.
            + destruct (Nat.ltb i last); [|discriminate]. inversion Hs. congruence.
            + inversion Hs; subst k. apply H. exact Ek.
          - intros Hl. apply H in Hl. rewrite Hl.
            assert (Nat.eqb j last = false) by (apply Nat.eqb_neq; lia). rewrite H0. reflexivity. }
      * apply Nat.ltb_ge in Ejl. split; [|intros [l Hl]; discriminate].
        intros Hs. destruct (a_idx a d') as [k| |] eqn:Ek; try discriminate.
        destruct (Nat.eqb k last) eqn:Ekl.
        { destruct (Nat.ltb i last) eqn:Eil; [|discriminate]. inversion Hs; subst j. apply Nat.ltb_lt in Eil. lia. }
        { inversion Hs; subst k. apply idx_ok_lt with (es := es) in Ek; auto. apply Nat.eqb_neq in Ekl. unfold last in *. lia. }
  - (* membership *)
    intros x. split.
    + intros Hin. apply In_nth_error in Hin. destruct Hin as [j Hj]. rewrite Hnth in Hj.
      destruct (Nat.ltb j last) eqn:Ejl; [|discriminate]. apply Nat.ltb_lt in Ejl.
      destruct x as [dx lx]. cbn [fst].
      destruct (Nat.eqb j i) eqn:Eji.
      * split; [eapply nth_error_In; eauto|]. intros ->.
        assert (a_idx a d = SAt last) by (apply H; eauto). rewrite Hd in H0. inversion H0. apply Nat.eqb_eq in Eji. lia.
      * split; [eapply nth_error_In; eauto|]. intros ->.
        assert (a_idx a d = SAt j) by (apply H; eauto). rewrite Hd in H0. inversion H0. apply Nat.eqb_neq in Eji. lia.
    + intros [Hin Hne]. apply In_nth_error in Hin. destruct Hin as [j Hj].
      destruct x as [dx lx]. cbn [fst] in Hne.
      assert (Hjl : (j < length es)%nat) by (apply nth_error_Some; congruence).
      assert (Hji : j <> i).
      { intros ->. apply H in Hd. destruct Hd as [l Hl]. congruence. }
      destruct (Nat.eq_dec j last) as [->|Hjl'].
      * apply nth_error_In with (n := i). rewrite Hnth.
        assert (Nat.ltb i last = true) by (apply Nat.ltb_lt; lia). rewrite H0, Nat.eqb_refl. exact Hj.
      * apply nth_error_In with (n := j). rewrite Hnth.
        assert (Nat.ltb j last = true) by (apply Nat.ltb_lt; unfold last in *; lia). rewrite H0.
        apply Nat.eqb_neq in Hji. rewrite Hji. exact Hj.
  - intros j. rewrite Hidx, Nat.eqb_refl. discriminate.
Qed.

(* ---------- notify: what happens to dialerToIndex / aliveEntries (independent of the choice logic) ---------- *)
Lemma calc_min_proj : forall tol a,
  a_idx (calc_min tol a) = a_idx a /\ a_entries (calc_min tol a) = a_entries a /\
  a_policy (calc_min tol a) = a_policy a /\ a_lat (calc_min tol a) = a_lat a.
Proof.
  intros tol a. unfold calc_min. destruct (scan_min None (a_entries a) (None, hour)) as [md ml].
  destruct (a_best a); [destruct md; [destruct (tol_switch _ _ _)|]|]; cbn; auto.
Qed.

Definition phase1 (a : aset) (d : nat) (alive : bool) : aset :=
  if alive then match a_idx a d with SAt _ => a | _ => add_alive a d end
  else match a_idx a d with SAt i => remove_at a d i | _ => a end.

Definition core_entries (c : cfg) (has : option Z) (a1 : aset) (d : nat) : list (nat * Z) :=
  match has with
  | Some raw => match a_idx a1 d with SAt i => set_lat_nth i (raw + c_off c d) (a_entries a1) | _ => a_entries a1 end
  | None => a_entries a1
  end.

Lemma remove_at_proj : forall a d i,
  a_lat (remove_at a d i) = a_lat a /\ a_policy (remove_at a d i) = a_policy a /\
  a_best (remove_at a d i) = a_best a /\ a_best_lat (remove_at a d i) = a_best_lat a.
Proof.
  intros a d i. unfold remove_at. destruct (Nat.ltb i _); [destruct (nth_error _ _)|]; cbn; auto.
Qed.

Ltac rw_proj := repeat match goal with
  | H : a_idx ?x = _ |- context [a_idx ?x] => rewrite H
  | H : a_entries ?x = _ |- context [a_entries ?x] => rewrite H
  | H : a_policy ?x = _ |- context [a_policy ?x] => rewrite H end.

Lemma notify_core : forall c st t a d alive,
  a_idx (fst (notify c st t a d alive)) = a_idx (phase1 a d alive) /\
  a_entries (fst (notify c st t a d alive)) = core_entries c (snapshot_latency st d t (a_policy a)) (phase1 a d alive) d /\
  a_policy (fst (notify c st t a d alive)) = a_policy a.
Proof.
  intros c st t a d alive. unfold notify, phase1, core_entries.
  destruct (snapshot_latency st d t (a_policy a)) as [raw|] eqn:Ehas;
  destruct alive; destruct (a_idx a d) as [i| |] eqn:Ei;
  cbn [is_some negb andb orb fst snd];
  repeat match goal with
         | |- context [remove_at a d i] =>
             let H := fresh in
             pose proof (remove_at_proj a d i) as H; destruct H as (?&?&?&?); generalize dependent (remove_at a d i); intros
         end;
  repeat first
    [ progress cbn [fst snd a_idx a_entries a_policy a_lat a_best a_best_lat set_best add_alive is_some negb andb orb]
    | match goal with |- context [calc_min ?tol ?x] =>
        let H := fresh in pose proof (calc_min_proj tol x) as H; destruct H as (?&?&?&?);
        generalize dependent (calc_min tol x); intros end
    | match goal with |- context [if ?b then _ else _] => destruct b end ];
  cbn [fst snd a_idx a_entries a_policy a_lat a_best a_best_lat set_best add_alive] in *;
  repeat split; rw_proj; try reflexivity; try congruence.
Qed.

(* ---------- views ---------- *)
Lemma view_mem_in : forall d v, view_mem d v = true <-> In d (map fst v).
Proof.
  intros d v. unfold view_mem. rewrite existsb_exists. split.
  - intros [x [Hin He]]. apply Nat.eqb_eq in He. subst. apply in_map. exact Hin.
  - intros Hin. apply in_map_iff in Hin. destruct Hin as [x [Hf Hin]]. exists x. split; auto. apply Nat.eqb_eq. auto.
Qed.

Lemma view_mem_false : forall d v, view_mem d v = false <-> ~ In d (map fst v).
Proof.
  intros d v. rewrite <- view_mem_in. destruct (view_mem d v); split; intros; try congruence; auto.
Qed.

Lemma in_view_remove : forall d v x, In x (view_remove d v) <-> In x v /\ fst x <> d.
Proof.
  intros d v x. unfold view_remove. rewrite filter_In. rewrite negb_true_iff, Nat.eqb_neq. tauto.
Qed.

Lemma view_remove_fst : forall d v d', In d' (map fst (view_remove d v)) <-> In d' (map fst v) /\ d' <> d.
Proof.
  intros d v d'. rewrite !in_map_iff. split.
  - intros [x [Hf Hin]]. apply in_view_remove in Hin. destruct Hin. subst. split; eauto.
  - intros [[x [Hf Hin]] Hne]. exists x. split; auto. apply in_view_remove. subst. auto.
Qed.

Lemma view_remove_nodup : forall d v, NoDup (map fst v) -> NoDup (map fst (view_remove d v)).
Proof.
  intros d v. induction v as [|x v IH]; cbn; intros H; [constructor|].
  inversion H; subst. destruct (negb (Nat.eqb (fst x) d)); cbn; auto.
  constructor; auto. intros Hin. apply view_remove_fst in Hin. tauto.
Qed.

Lemma view_set_fst : forall d m v, map fst (view_set d m v) = map fst v.
Proof.
  intros d m v. unfold view_set. rewrite map_map. apply map_ext_in. intros x _.
  destruct (Nat.eqb (fst x) d) eqn:E; [apply Nat.eqb_eq in E; cbn; auto|reflexivity].
Qed.

Lemma in_view_set : forall d m v d' m',
  In (d', m') (view_set d m v) <-> (d' = d /\ m' = m /\ In d (map fst v)) \/ (d' <> d /\ In (d', m') v).
Proof.
  intros d m v d' m'. unfold view_set. rewrite in_map_iff. split.
  - intros [x [He Hin]]. destruct (Nat.eqb (fst x) d) eqn:E.
    + apply Nat.eqb_eq in E. inversion He; subst. left. repeat split; auto. apply in_map. exact Hin.
    + apply Nat.eqb_neq in E. subst x. right. cbn in E. auto.
  - intros [[-> [-> Hin]]|[Hne Hin]].
    + apply in_map_iff in Hin. destruct Hin as [x [Hf Hin]]. exists x. subst. rewrite Nat.eqb_refl. auto.
    + exists (d', m'). cbn. apply Nat.eqb_neq in Hne. rewrite Hne. auto.
Qed.


Lemma sim_add : forall mp idx es v d,
  idx_ok idx es -> sim mp es v -> (forall i, idx d <> SAt i) ->
  view_mem d v = false /\ sim mp (es ++ [(d, 0)]) (v ++ [(d, None)]).
Proof.
  intros mp idx es v d Hok (Hnd & Hmem & Hlat) Hd.
  assert (Hnin : ~ In d (map fst v)).
  { intros Hin. apply Hmem in Hin. apply (idx_ok_in _ _ _ Hok) in Hin. destruct Hin as [i Hi]. eapply Hd; eauto. }
  split; [apply view_mem_false; exact Hnin|].
  split; [|split].
  - rewrite map_app. cbn. apply NoDup_app_remove_l with (l := []) || idtac.
    apply (NoDup_Add (a := d) (l := map fst v)); [|split; auto].
    clear. induction (map fst v); cbn; constructor; auto.
  - intros d'. rewrite !map_app, !in_app_iff. cbn. rewrite Hmem. tauto.
  - intros Hmp d' l Hin. apply in_app_iff in Hin. destruct Hin as [Hin|[He|[]]].
    + destruct (Hlat Hmp _ _ Hin) as [m [Hm He]]. exists m. split; auto. apply in_app_iff. auto.
    + inversion He; subst. exists None. split; [apply in_app_iff; right; left; reflexivity|reflexivity].
Qed.

Lemma sim_set : forall mp idx es v d i s,
  idx_ok idx es -> sim mp es v -> idx d = SAt i ->
  sim mp (set_nth i (d, s) es) (view_set d (Some s) v).
Proof.
  intros mp idx es v d i s Hok (Hnd & Hmem & Hlat) Hd.
  assert (Hdin : In d (map fst es)) by (apply (idx_ok_in _ _ _ Hok); eauto).
  split; [|split].
  - rewrite view_set_fst. exact Hnd.
  - intros d'. rewrite view_set_fst, <- Hmem. rewrite !in_map_iff. split.
    + intros [x [Hf Hin]]. apply (in_set_nth _ _ _ _ _ _ Hok Hd) in Hin. destruct Hin as [->|[Hin _]].
      * cbn in Hf. subst. apply in_map_iff in Hdin. exact Hdin.
      * eauto.
    + intros [x [Hf Hin]]. destruct (Nat.eq_dec d' d) as [->|Hne].
      * exists (d, s). split; auto. apply (in_set_nth _ _ _ _ _ _ Hok Hd). auto.
      * exists x. split; auto. apply (in_set_nth _ _ _ _ _ _ Hok Hd). right. split; auto. congruence.
  - intros Hmp d' l Hin. apply (in_set_nth _ _ _ _ _ _ Hok Hd) in Hin. destruct Hin as [He|[Hin Hne]].
    + inversion He; subst. exists (Some s). split; [|reflexivity]. apply in_view_set. left. repeat split; auto. apply Hmem. exact Hdin.
    + cbn in Hne. destruct (Hlat Hmp _ _ Hin) as [m [Hm He]]. exists m. split; auto. apply in_view_set. right. auto.
Qed.

Lemma sim_remove : forall mp es es' v d,
  (forall x, In x es' <-> In x es /\ fst x <> d) -> sim mp es v -> sim mp es' (view_remove d v).
Proof.
  intros mp es es' v d Hes (Hnd & Hmem & Hlat). split; [|split].
  - apply view_remove_nodup. exact Hnd.
  - intros d'. rewrite view_remove_fst, <- Hmem, !in_map_iff. split.
    + intros [x [Hf Hin]]. apply Hes in Hin. destruct Hin. subst. split; eauto.
    + intros [[x [Hf Hin]] Hne]. exists x. split; auto. apply Hes. subst. auto.
  - intros Hmp d' l Hin. apply Hes in Hin. destruct Hin as [Hin Hne]. cbn in Hne.
    destruct (Hlat Hmp _ _ Hin) as [m [Hm He]]. exists m. split; auto. apply in_view_remove. auto.
Qed.


Lemma set_lat_nth_ok : forall idx es d i s,
  idx_ok idx es -> idx d = SAt i -> set_lat_nth i s es = set_nth i (d, s) es.
Proof.
  intros idx es d i s H Hd. apply H in Hd. destruct Hd as [l Hl]. unfold set_lat_nth. rewrite Hl. reflexivity.
Qed.

Lemma notify_set_ok : forall c st t a v d alive,
  set_ok a v -> set_ok (fst (notify c st t a d alive)) (view_notify c (a_policy a) st t d alive v).
Proof.
  intros c st t a v d alive [Hok Hsim].
  destruct (notify_core c st t a d alive) as (Hi & He & Hp).
  unfold set_ok. rewrite Hi, He, Hp. clear Hi He Hp.
  unfold view_notify, snapshot_latency, phase1, core_entries.
  set (mp := is_min_policy (a_policy a)) in *.
  destruct alive.
  - destruct (a_idx a d) as [i| |] eqn:Ei.
    + assert (Hm : view_mem d v = true).
      { apply view_mem_in. apply Hsim. apply (idx_ok_in _ _ _ Hok). eauto. }
      rewrite Hm. destruct (lat_of (a_policy a) (st_lat st d t)) as [raw|]; [|split; auto].
      rewrite Ei. rewrite (set_lat_nth_ok _ _ _ _ _ Hok Ei). split; [eapply idx_ok_set; eauto|eapply sim_set; eauto].
    + assert (Hd : forall i, a_idx a d <> SAt i) by (intros; congruence).
      destruct (sim_add mp _ _ _ _ Hok Hsim Hd) as [Hm Hs]. rewrite Hm.
      pose proof (idx_ok_add _ _ _ Hok Hd) as Hok'.
      cbn [add_alive a_idx a_entries].
      destruct (lat_of (a_policy a) (st_lat st d t)) as [raw|]; [|split; auto].
      rewrite updn_same. rewrite (set_lat_nth_ok _ _ d _ _ Hok' (updn_same _ _ _ _)).
      split; [eapply idx_ok_set; eauto; apply updn_same|eapply sim_set; eauto; apply updn_same].
    + assert (Hd : forall i, a_idx a d <> SAt i) by (intros; congruence).
      destruct (sim_add mp _ _ _ _ Hok Hsim Hd) as [Hm Hs]. rewrite Hm.
      pose proof (idx_ok_add _ _ _ Hok Hd) as Hok'.
      cbn [add_alive a_idx a_entries].
      destruct (lat_of (a_policy a) (st_lat st d t)) as [raw|]; [|split; auto].
      rewrite updn_same. rewrite (set_lat_nth_ok _ _ d _ _ Hok' (updn_same _ _ _ _)).
      split; [eapply idx_ok_set; eauto; apply updn_same|eapply sim_set; eauto; apply updn_same].
  - destruct (a_idx a d) as [i| |] eqn:Ei.
    + destruct (remove_at_spec a d i Hok Ei) as (Hok' & Hin' & Hnot & _).
      assert (Hent : match lat_of (a_policy a) (st_lat st d t) with
                     | Some raw => match a_idx (remove_at a d i) d with
                                   | SAt i0 => set_lat_nth i0 (raw + c_off c d) (a_entries (remove_at a d i))
                                   | _ => a_entries (remove_at a d i) end
                     | None => a_entries (remove_at a d i) end = a_entries (remove_at a d i)).
      { destruct (lat_of _ _); [|reflexivity]. destruct (a_idx (remove_at a d i) d) eqn:E; try reflexivity. exfalso. eapply Hnot; eauto. }
      rewrite Hent. split; [exact Hok'|eapply sim_remove; eauto].
    + assert (Hent : match lat_of (a_policy a) (st_lat st d t) with
                     | Some raw => match a_idx a d with SAt i0 => set_lat_nth i0 (raw + c_off c d) (a_entries a) | _ => a_entries a end
                     | None => a_entries a end = a_entries a).
      { destruct (lat_of _ _); [|reflexivity]. rewrite Ei. reflexivity. }
      rewrite Hent. split; [exact Hok|]. eapply sim_remove; [|exact Hsim].
      intros x. split; [|tauto]. intros Hin. split; auto. intros <-.
      assert (In (fst x) (map fst (a_entries a))) by (apply in_map; auto).
      apply (idx_ok_in _ _ _ Hok) in H. destruct H. congruence.
    + assert (Hent : match lat_of (a_policy a) (st_lat st d t) with
                     | Some raw => match a_idx a d with SAt i0 => set_lat_nth i0 (raw + c_off c d) (a_entries a) | _ => a_entries a end
                     | None => a_entries a end = a_entries a).
      { destruct (lat_of _ _); [|reflexivity]. rewrite Ei. reflexivity. }
      rewrite Hent. split; [exact Hok|]. eapply sim_remove; [|exact Hsim].
      intros x. split; [|tauto]. intros Hin. split; auto. intros <-.
      assert (In (fst x) (map fst (a_entries a))) by (apply in_map; auto).
      apply (idx_ok_in _ _ _ Hok) in H. destruct H. congruence.
Qed.

(* ====================================================================================================== *)
(* min policies: the standing choice                                                                      *)
(* ====================================================================================================== *)
Lemma scan_min_spec : forall excl es d0 l0,
  (forall x l, In (x, l) es -> onat_eqb (Some x) excl = false ->
               fst (scan_min excl es (d0, l0)) <> None /\ snd (scan_min excl es (d0, l0)) <= l) /\
  (d0 <> None -> fst (scan_min excl es (d0, l0)) <> None /\ snd (scan_min excl es (d0, l0)) <= l0) /\
  ((fst (scan_min excl es (d0, l0)) = d0 /\ snd (scan_min excl es (d0, l0)) = l0) \/
   exists m, fst (scan_min excl es (d0, l0)) = Some m /\ In (m, snd (scan_min excl es (d0, l0))) es /\
             onat_eqb (Some m) excl = false).
Proof.
  intros excl es. induction es as [|[d l] es IH]; intros d0 l0.
  - cbn. split; [intros x l []|]. split; [intros H; split; [exact H|lia]|]. left. auto.
  - cbn [scan_min]. destruct (onat_eqb (Some d) excl) eqn:Ex.
    + destruct (IH d0 l0) as (I1 & I2 & I3). split; [|split; [exact I2|]].
      * intros x l' [He|Hin] Hx; [inversion He; subst; congruence|]. eapply I1; eauto.
      * destruct I3 as [I3|(m & Hm & Hin & Hx)]; [left; exact I3|right; exists m; repeat split; auto; right; exact Hin].
    + cbn [fst snd]. destruct (negb (is_some d0) || (l <? l0)) eqn:Ec.
      * destruct (IH (Some d) l) as (I1 & I2 & I3).
        assert (Hsd : Some d <> None) by discriminate. specialize (I2 Hsd).
        split; [|split].
        { intros x l' [He|Hin] Hx; [inversion He; subst; exact I2|]. eapply I1; eauto. }
        { intros Hd0. destruct d0 as [d0'|]; [|congruence]. cbn in Ec. apply Z.ltb_lt in Ec.
          destruct I2 as [Ha Hb]. split; [exact Ha|lia]. }
        { right. destruct I3 as [[Ha Hb]|(m & Hm & Hin & Hx)].
          - exists d. rewrite Hb. repeat split; auto. left. reflexivity.
          - exists m. repeat split; auto. right. exact Hin. }
      * apply Bool.orb_false_iff in Ec. destruct Ec as [Ec1 Ec2]. apply Z.ltb_ge in Ec2.
        destruct d0 as [d0'|]; [|discriminate].
        destruct (IH (Some d0') l0) as (I1 & I2 & I3).
        assert (Hsd : Some d0' <> None) by discriminate. specialize (I2 Hsd).
        split; [|split; [intros _; exact I2|]].
        { intros x l' [He|Hin] Hx; [inversion He; subst; destruct I2; split; [auto|lia]|]. eapply I1; eauto. }
        { destruct I3 as [I3|(m & Hm & Hin & Hx)]; [left; exact I3|right; exists m; repeat split; auto; right; exact Hin]. }
Qed.

Lemma view_unique : forall (v : view) d m1 m2, NoDup (map fst v) -> In (d, m1) v -> In (d, m2) v -> m1 = m2.
Proof.
  induction v as [|[d' m'] v IH]; intros d m1 m2 Hnd H1 H2; [destruct H1|].
  cbn in Hnd. inversion Hnd; subst.
  destruct H1 as [E1|H1], H2 as [E2|H2].
  - congruence.
  - inversion E1; subst. exfalso. apply H3. apply in_map_iff. exists (d, m2). auto.
  - inversion E2; subst. exfalso. apply H3. apply in_map_iff. exists (d, m1). auto.
  - eapply IH; eauto.
Qed.

Lemma sim_measured_entry : forall es v x la, sim true es v -> In (x, Some la) v -> In (x, la) es.
Proof.
  intros es v x la (Hnd & Hmem & Hlat) Hin.
  assert (Hx : In x (map fst es)) by (apply Hmem; apply in_map_iff; exists (x, Some la); auto).
  apply in_map_iff in Hx. destruct Hx as [[x' l] [Hf Hl]]. cbn in Hf. subst x'.
  destruct (Hlat eq_refl _ _ Hl) as [m [Hm He]].
  assert (m = Some la) by (eapply view_unique; eauto). subst. exact Hl.
Qed.

Lemma sim_entry_view : forall es v x l, sim true es v -> In (x, l) es -> exists m, In (x, m) v /\ l = eff m.
Proof. intros es v x l (_ & _ & Hlat) Hin. apply Hlat; auto. Qed.

Lemma sim_nil : forall mp es v, sim mp es v -> es = [] -> v = [].
Proof.
  intros mp es v (_ & Hmem & _) ->. destruct v as [|[x m] v]; auto.
  exfalso. apply (Hmem x). left. reflexivity.
Qed.

Lemma beats_false_ge : forall tol la lr, lr <= la -> beats tol la lr = false.
Proof. intros. unfold beats. assert ((la <? lr) = false) by (apply Z.ltb_ge; lia). rewrite H0. reflexivity. Qed.

Lemma beats_mono : forall tol la s B, s <= B -> beats tol la B = false -> beats tol la s = false.
Proof.
  intros tol la s B Hs Hb. unfold beats in *. apply Bool.andb_false_iff in Hb. apply Bool.andb_false_iff.
  destruct Hb as [Hb|Hb]; [apply Z.ltb_ge in Hb; left; apply Z.ltb_ge; lia|apply Z.leb_gt in Hb; right; apply Z.leb_gt; lia].
Qed.

Lemma beats_no_switch : forall tol s B, tol_switch tol s B = false -> beats tol s B = false.
Proof.
  intros tol s B H. unfold tol_switch, beats in *.
  destruct (s <? B) eqn:E1; [|reflexivity]. destruct (s + tol <=? B) eqn:E2; [|reflexivity].
  apply Z.ltb_lt in E1. apply Z.leb_le in E2. exfalso.
  assert ((s <=? B) = true) by (apply Z.leb_le; lia). assert ((s <=? B - tol) = true) by (apply Z.leb_le; lia).
  rewrite H0, H1, Bool.orb_true_r in H. discriminate.
Qed.

Lemma tol_switch_le : forall tol s B, tol_switch tol s B = true -> s <= B.
Proof. intros tol s B H. unfold tol_switch in H. apply Bool.andb_true_iff in H. destruct H as [H _]. apply Z.leb_le in H. exact H. Qed.

Lemma tol_switch_reason : forall tol s B, tol_switch tol s B = true -> (s + tol <=? B) || ((s <=? B) && (B <? tol)) = true.
Proof.
  intros tol s B H. unfold tol_switch in H. apply Bool.andb_true_iff in H. destruct H as [H1 H2].
  rewrite H1. apply Bool.orb_true_iff in H2. destruct H2 as [H2|H2].
  - rewrite H2. cbn. apply Bool.orb_true_r.
  - apply Z.leb_le in H2. assert ((s + tol <=? B) = true) by (apply Z.leb_le; lia). rewrite H. reflexivity.
Qed.

(* calcMinLatency re-establishes the invariant from the index/view facts alone *)
Lemma calc_min_inv : forall tol a v,
  idx_ok (a_idx a) (a_entries a) -> sim true (a_entries a) v ->
  (forall b, a_best a = Some b -> In b (map fst (a_entries a)) /\ forall lb, In (b, Some lb) v -> a_best_lat a = lb) ->
  min_inv tol (calc_min tol a) v.
Proof.
  intros tol a v Hok Hsim Hb.
  destruct (calc_min_proj tol a) as (_ & He & _ & _).
  unfold min_inv. rewrite He. clear He.
  unfold calc_min.
  destruct (scan_min_spec None (a_entries a) None hour) as (S1 & _ & S3).
  destruct (scan_min None (a_entries a) (None, hour)) as [md ml] eqn:Es. cbn [fst snd] in S1, S3.
  assert (Hmin : forall x l, In (x, l) (a_entries a) -> md <> None /\ ml <= l) by (intros; eapply S1; eauto).
  assert (Hmd : forall m, md = Some m -> In (m, ml) (a_entries a)).
  { intros m ->. destruct S3 as [[Ha _]|(m' & Hm & Hin & _)]; [discriminate|]. inversion Hm; subst. exact Hin. }
  (* the state "best := md, lat := ml" satisfies the invariant *)
  assert (Hnew : forall a0, a_best a0 = md -> a_best_lat a0 = ml -> a_entries a0 = a_entries a ->
            (forall b, a_best a0 = Some b -> In b (map fst (a_entries a))) /\
            (a_entries a <> [] -> a_best a0 <> None) /\
            (forall b lb, a_best a0 = Some b -> In (b, Some lb) v -> a_best_lat a0 = lb) /\
            (forall b x la, a_best a0 = Some b -> In (x, Some la) v -> beats tol la (a_best_lat a0) = false)).
  { intros a0 H1 H2 H3. rewrite H1, H2. split; [|split; [|split]].
    - intros b Hbm. apply in_map_iff. exists (b, ml). split; auto.
    - intros Hne. destruct (a_entries a) as [|[x l] r] eqn:E; [congruence|]. apply (Hmin x l). left. reflexivity.
    - intros b lb Hbm Hin. apply Hmd in Hbm. destruct (sim_entry_view _ _ _ _ Hsim Hbm) as [m [Hm Hl]].
      assert (m = Some lb) by (destruct Hsim as (Hnd & _); eapply view_unique; eauto). subst m. cbn in Hl. exact Hl.
    - intros b x la _ Hin. apply beats_false_ge. apply (Hmin x la). eapply sim_measured_entry; eauto. }
  destruct (a_best a) as [b|] eqn:Eb.
  - destruct md as [m|] eqn:Em.
    + destruct (tol_switch tol ml (a_best_lat a)) eqn:Et.
      * apply (Hnew (set_best a (Some m) ml)); reflexivity.
      * rewrite Eb. destruct (Hb b eq_refl) as [Hb1 Hb3]. split; [|split; [|split]].
        { intros b' H. inversion H; subst. exact Hb1. }
        { intros _. discriminate. }
        { intros b' lb H. inversion H; subst. apply Hb3. }
        { intros b' x la _ Hin. unfold beats. destruct (la <? a_best_lat a) eqn:E1; [|reflexivity].
          destruct (la + tol <=? a_best_lat a) eqn:E2; [|reflexivity]. exfalso.
          apply Z.ltb_lt in E1. apply Z.leb_le in E2.
          assert (ml <= la) by (apply (Hmin x la); eapply sim_measured_entry; eauto).
          unfold tol_switch in Et.
          assert ((ml <=? a_best_lat a) = true) by (apply Z.leb_le; lia).
          assert ((ml <=? a_best_lat a - tol) = true) by (apply Z.leb_le; lia).
          rewrite H0, H1, Bool.orb_true_r in Et. discriminate. }
    + (* no entry at all *)
      rewrite Eb. destruct (Hb b eq_refl) as [Hb1 Hb3].
      apply in_map_iff in Hb1. destruct Hb1 as [[b' l] [_ Hin]]. destruct (Hmin _ _ Hin). congruence.
  - apply (Hnew (set_best a md ml)); reflexivity.
Qed.

(* when calcMinLatency moves the choice away from b, the new one passed the tolerance test against b's latency *)
Lemma calc_min_switch : forall tol a b,
  a_best a = Some b ->
  a_best (calc_min tol a) = Some b /\ a_best_lat (calc_min tol a) = a_best_lat a \/
  exists m, a_best (calc_min tol a) = Some m /\ In (m, a_best_lat (calc_min tol a)) (a_entries a) /\
            tol_switch tol (a_best_lat (calc_min tol a)) (a_best_lat a) = true.
Proof.
  intros tol a b Hb. unfold calc_min.
  destruct (scan_min_spec None (a_entries a) None hour) as (_ & _ & S3).
  destruct (scan_min None (a_entries a) (None, hour)) as [md ml]. cbn [fst snd] in S3. rewrite Hb.
  destruct md as [m|]; [|left; auto].
  destruct (tol_switch tol ml (a_best_lat a)) eqn:Et; [|left; auto].
  right. exists m. cbn. destruct S3 as [[Ha _]|(m' & Hm & Hin & _)]; [discriminate|]. inversion Hm; subst. auto.
Qed.

(* ---------- what NotifyLatencyChange does to the standing choice (min policies) ---------- *)
Definition nb_kept (a a' : aset) : Prop := a_best a' = a_best a /\ a_best_lat a' = a_best_lat a.

Ltac nb_norm :=
  cbn [fst snd andb orb negb is_some onat_eqb a_best a_best_lat a_idx a_entries a_lat a_policy set_best add_alive app] in *.

Lemma notify_best_cases : forall c st t a d alive,
  is_min_policy (a_policy a) = true ->
  (alive = true /\ snapshot_latency st d t (a_policy a) = None /\ a_best a <> None /\ nb_kept a (fst (notify c st t a d alive))) \/
  (alive = true /\ snapshot_latency st d t (a_policy a) = None /\ a_best a = None /\
     a_best (fst (notify c st t a d alive)) = Some d /\ a_best_lat (fst (notify c st t a d alive)) = a_best_lat a) \/
  (exists raw, alive = true /\ snapshot_latency st d t (a_policy a) = Some raw /\
     (a_best a = None \/ tol_switch (c_tol c) (raw + c_off c d) (a_best_lat a) = true) /\
     a_best (fst (notify c st t a d alive)) = Some d /\ a_best_lat (fst (notify c st t a d alive)) = raw + c_off c d) \/
  (exists raw, alive = true /\ snapshot_latency st d t (a_policy a) = Some raw /\ a_best a <> None /\ a_best a <> Some d /\
     tol_switch (c_tol c) (raw + c_off c d) (a_best_lat a) = false /\ nb_kept a (fst (notify c st t a d alive))) \/
  (exists raw, alive = true /\ snapshot_latency st d t (a_policy a) = Some raw /\ a_best a = Some d /\
     raw + c_off c d <= a_best_lat a /\
     a_best (fst (notify c st t a d alive)) = Some d /\ a_best_lat (fst (notify c st t a d alive)) = raw + c_off c d) \/
  (exists raw X, alive = true /\ snapshot_latency st d t (a_policy a) = Some raw /\ a_best a = Some d /\
     fst (notify c st t a d alive) = calc_min (c_tol c) X /\ a_best X = Some d /\ a_best_lat X = raw + c_off c d) \/
  (alive = false /\ (a_best a <> Some d \/ forall i, a_idx a d <> SAt i) /\ nb_kept a (fst (notify c st t a d alive))) \/
  (exists X, alive = false /\ a_best a = Some d /\ fst (notify c st t a d alive) = calc_min (c_tol c) X /\ a_best X = None).
Proof.
  intros c st t a d alive Hmin. unfold notify, nb_kept. rewrite Hmin.
  destruct (snapshot_latency st d t (a_policy a)) as [raw|] eqn:Eh;
  destruct alive; destruct (a_idx a d) as [i| |] eqn:Ei;
  try (destruct (remove_at_proj a d i) as (R1 & R2 & R3 & R4));
  (destruct (a_best a) as [b|] eqn:Eb;
   [destruct (Nat.eqb b d) eqn:Ebd; [apply Nat.eqb_eq in Ebd; subst b|apply Nat.eqb_neq in Ebd]|]);
  nb_norm; rewrite ?R3, ?R4, ?Eb; nb_norm; rewrite ?Nat.eqb_refl; nb_norm;
  try (destruct (tol_switch (c_tol c) (raw + c_off c d) (a_best_lat a)) eqn:Et); nb_norm;
  try (destruct (a_best_lat a <? raw + c_off c d) eqn:Elt; [apply Z.ltb_lt in Elt|apply Z.ltb_ge in Elt]); nb_norm;
  try (assert (Hbd : Nat.eqb b d = false) by (apply Nat.eqb_neq; exact Ebd); rewrite ?Hbd); nb_norm;
  first
  [ solve [left; repeat split; auto; congruence]
  | solve [right; left; repeat split; auto; congruence]
  | solve [right; right; left; exists raw; repeat split; auto; congruence]
  | solve [right; right; right; left; exists raw; repeat split; auto; congruence]
  | solve [right; right; right; right; left; exists raw; repeat split; auto; try congruence; try lia]
  | solve [right; right; right; right; right; left; exists raw; eexists; repeat split; try reflexivity; auto]
  | solve [right; right; right; right; right; right; left; repeat split; auto; first [left; congruence | right; intros; congruence]]
  | solve [right; right; right; right; right; right; right; eexists; repeat split; try reflexivity; auto]
  ].
Qed.

(* ---------- views after a notification ---------- *)
Lemma view_get_in : forall (v : view) x m, NoDup (map fst v) -> In (x, m) v -> view_get x v = Some m.
Proof.
  induction v as [|[x' m'] v IH]; intros x m Hnd Hin; [destruct Hin|].
  unfold view_get. cbn [find fst]. destruct (Nat.eqb x' x) eqn:E.
  - apply Nat.eqb_eq in E. subst x'. cbn. f_equal. eapply view_unique; eauto. left. reflexivity.
  - apply Nat.eqb_neq in E. destruct Hin as [He|Hin]; [inversion He; congruence|].
    cbn in Hnd. inversion Hnd; subst. apply IH; auto.
Qed.

Lemma view_get_none : forall (v : view) x, ~ In x (map fst v) -> view_get x v = None.
Proof.
  induction v as [|[x' m'] v IH]; intros x Hn; [reflexivity|].
  unfold view_get. cbn [find fst]. destruct (Nat.eqb x' x) eqn:E.
  - apply Nat.eqb_eq in E. subst. exfalso. apply Hn. left. reflexivity.
  - apply IH. intros H. apply Hn. right. exact H.
Qed.

Section ViewNotify.
  Variables (c : cfg) (p : spol) (st : store) (t : ntype) (d : nat) (v : view).
  Let has := lat_of p (st_lat st d t).

  Lemma vn_other : forall alive x m, x <> d -> (In (x, m) (view_notify c p st t d alive v) <-> In (x, m) v).
  Proof.
    intros alive x m Hne. unfold view_notify. destruct alive.
    - assert (H1 : In (x, m) (if view_mem d v then v else v ++ [(d, None)]) <-> In (x, m) v).
      { destruct (view_mem d v); [tauto|]. rewrite in_app_iff. cbn. split; [intros [H|[H|[]]]; auto; inversion H; congruence|auto]. }
      destruct (lat_of p (st_lat st d t)); [|exact H1].
      rewrite in_view_set. rewrite H1. split; [intros [[H _]|[_ H]]; [congruence|auto]|auto].
    - rewrite in_view_remove. cbn. tauto.
  Qed.

  Lemma vn_alive_fst : forall x, In x (map fst (view_notify c p st t d true v)) <-> In x (map fst v) \/ x = d.
  Proof.
    intros x. unfold view_notify.
    assert (H1 : In x (map fst (if view_mem d v then v else v ++ [(d, None)])) <-> In x (map fst v) \/ x = d).
    { destruct (view_mem d v) eqn:E.
      - split; [auto|]. intros [H|H]; auto. subst x. apply view_mem_in. exact E.
      - rewrite map_app, in_app_iff. cbn. split; [intros [H|[H|[]]]; auto|intros [H|H]; auto]. }
    destruct (lat_of p (st_lat st d t)); [rewrite view_set_fst|]; exact H1.
  Qed.

  Lemma vn_dead_fst : forall x, In x (map fst (view_notify c p st t d false v)) <-> In x (map fst v) /\ x <> d.
  Proof. intros x. unfold view_notify. apply view_remove_fst. Qed.

  Lemma vn_alive_has : forall raw m, lat_of p (st_lat st d t) = Some raw ->
    (In (d, m) (view_notify c p st t d true v) <-> m = Some (raw + c_off c d)).
  Proof.
    intros raw m Hh. unfold view_notify. rewrite Hh. rewrite in_view_set. split.
    - intros [[_ [H _]]|[H _]]; [exact H|congruence].
    - intros ->. left. repeat split; auto.
      destruct (view_mem d v) eqn:E; [apply view_mem_in; exact E|]. rewrite map_app, in_app_iff. right. left. reflexivity.
  Qed.

  Lemma vn_alive_nohas : forall m, lat_of p (st_lat st d t) = None ->
    In (d, m) (view_notify c p st t d true v) -> In (d, m) v \/ m = None.
  Proof.
    intros m Hh. unfold view_notify. rewrite Hh. destruct (view_mem d v); [auto|].
    rewrite in_app_iff. cbn. intros [H|[H|[]]]; [auto|inversion H; auto].
  Qed.

  Lemma vn_dead : forall m, ~ In (d, m) (view_notify c p st t d false v).
  Proof. intros m. unfold view_notify. rewrite in_view_remove. cbn. tauto. Qed.
End ViewNotify.

Lemma switch_ok_same : forall tol v b f, switch_ok tol v b b f = true.
Proof. intros tol v [x|] f; cbn; [rewrite Nat.eqb_refl|]; reflexivity. Qed.

Lemma switch_ok_intro : forall tol v' x nb,
  (nb = Some x \/ view_get x v' = None \/ view_get x v' = Some None \/
   exists lx y my, view_get x v' = Some (Some lx) /\ nb = Some y /\ view_get y v' = Some my /\
                   ((eff my + tol <=? lx) || ((eff my <=? lx) && (lx <? tol))) = true) ->
  switch_ok tol v' (Some x) nb false = true.
Proof.
  intros tol v' x nb H. unfold switch_ok.
  destruct (match nb with Some y => Nat.eqb x y | None => false end) eqn:E; [reflexivity|].
  destruct H as [->|[H|[H|(lx & y & my & H1 & -> & H3 & H4)]]].
  - rewrite Nat.eqb_refl in E. discriminate.
  - rewrite H. reflexivity.
  - rewrite H. reflexivity.
  - rewrite H1, H3. exact H4.
Qed.

(* the main step: one notification preserves the invariant of a min-policy set and moves the standing
   choice only for one of the allowed reasons *)
Lemma notify_min_inv : forall c st t a v d alive,
  set_ok a v -> is_min_policy (a_policy a) = true -> min_inv (c_tol c) a v ->
  min_inv (c_tol c) (fst (notify c st t a d alive)) (view_notify c (a_policy a) st t d alive v) /\
  switch_ok (c_tol c) (view_notify c (a_policy a) st t d alive v) (a_best a) (a_best (fst (notify c st t a d alive))) false = true.
Proof.
  intros c st t a v d alive Hset Hminp (B1 & B2 & B3 & B4).
  pose proof (notify_set_ok c st t a v d alive Hset) as [Hok' Hsim'].
  destruct (notify_core c st t a d alive) as (_ & _ & Hpol').
  rewrite Hpol', Hminp in Hsim'.
  destruct Hset as [Hok Hsim]. rewrite Hminp in Hsim.
  pose proof (notify_best_cases c st t a d alive Hminp) as Hcases. unfold snapshot_latency in Hcases.
  set (a' := fst (notify c st t a d alive)) in *.
  set (v' := view_notify c (a_policy a) st t d alive v) in *.
  set (tol := c_tol c) in *.
  assert (Hnd' : NoDup (map fst v')) by (destruct Hsim' as (H & _); exact H).
  assert (Hmem : forall x, In x (map fst (a_entries a)) <-> In x (map fst v)) by (destruct Hsim as (_ & H & _); exact H).
  assert (Hmem' : forall x, In x (map fst (a_entries a')) <-> In x (map fst v')) by (destruct Hsim' as (_ & H & _); exact H).
  assert (Hvnil : a_best a = None -> v = []).
  { intros Hn. destruct (a_entries a) eqn:E; [eapply sim_nil; eauto|]. exfalso. apply B2; [try rewrite E; discriminate|exact Hn]. }
  assert (Hd' : alive = true -> In d (map fst v')) by (intros ->; apply vn_alive_fst; auto).
  destruct Hcases as
    [(Ha & Hh & Hbn & Hk1 & Hk2)|[(Ha & Hh & Hbn & Hb' & Hl')|[(raw & Ha & Hh & Hc & Hb' & Hl')|
    [(raw & Ha & Hh & Hbn & Hbd & Hts & Hk1 & Hk2)|[(raw & Ha & Hh & Hbd & Hle & Hb' & Hl')|
    [(raw & X & Ha & Hh & Hbd & HX & HXb & HXl)|[(Ha & Hbd & Hk1 & Hk2)|(X & Ha & Hbd & HX & HXb)]]]]]]].
  - (* K1: alive, no latency, choice kept *)
    subst alive. split.
    + unfold min_inv. rewrite Hk1, Hk2. split; [|split; [|split]].
      * intros b Hb. apply Hmem'. apply vn_alive_fst. left. apply Hmem. apply B1. exact Hb.
      * intros _. exact Hbn.
      * intros b lb Hb Hin. destruct (Nat.eq_dec b d) as [->|Hne].
        { apply (vn_alive_nohas c _ st t d v _ Hh) in Hin. destruct Hin as [Hin|Hin]; [|discriminate]. eapply B3; eauto. }
        { apply (vn_other c (a_policy a) st t d v true b _ Hne) in Hin. eapply B3; eauto. }
      * intros b x la Hb Hin. destruct (Nat.eq_dec x d) as [->|Hne].
        { apply (vn_alive_nohas c _ st t d v _ Hh) in Hin. destruct Hin as [Hin|Hin]; [|discriminate]. eapply B4; eauto. }
        { apply (vn_other c (a_policy a) st t d v true x _ Hne) in Hin. eapply B4; eauto. }
    + rewrite Hk1. apply switch_ok_same.
  - (* F: first dialer *)
    subst alive. specialize (Hvnil Hbn). split.
    + unfold min_inv. rewrite Hb', Hl'. split; [|split; [|split]].
      * intros b Hb. inversion Hb; subst. apply Hmem'. auto.
      * intros _. discriminate.
      * intros b lb _ Hin. exfalso. inversion_clear Hb'.
        assert (Hx : b = d \/ b <> d) by (destruct (Nat.eq_dec b d); auto). destruct Hx as [->|Hne].
        { apply (vn_alive_nohas c _ st t d v _ Hh) in Hin. destruct Hin as [Hin|Hin]; [rewrite Hvnil in Hin; destruct Hin|discriminate]. }
        { apply (vn_other c (a_policy a) st t d v true b _ Hne) in Hin. rewrite Hvnil in Hin. destruct Hin. }
      * intros b x la _ Hin. exfalso.
        destruct (Nat.eq_dec x d) as [->|Hne].
        { apply (vn_alive_nohas c _ st t d v _ Hh) in Hin. destruct Hin as [Hin|Hin]; [rewrite Hvnil in Hin; destruct Hin|discriminate]. }
        { apply (vn_other c (a_policy a) st t d v true x _ Hne) in Hin. rewrite Hvnil in Hin. destruct Hin. }
    + rewrite Hbn. reflexivity.
  - (* S: the notified dialer becomes the choice *)
    subst alive. set (s := raw + c_off c d) in *. split.
    + unfold min_inv. rewrite Hb', Hl'. split; [|split; [|split]].
      * intros b Hb. inversion Hb; subst. apply Hmem'. auto.
      * intros _. discriminate.
      * intros b lb Hb Hin. inversion Hb; subst b. apply (vn_alive_has c _ st t d v raw _ Hh) in Hin. inversion Hin. reflexivity.
      * intros b x la _ Hin. destruct (Nat.eq_dec x d) as [->|Hne].
        { apply (vn_alive_has c _ st t d v raw _ Hh) in Hin. inversion Hin. apply beats_false_ge. fold s. lia. }
        { apply (vn_other c (a_policy a) st t d v true x _ Hne) in Hin.
          destruct (a_best a) as [b0|] eqn:Eb0.
          - destruct Hc as [Hc|Hc]; [discriminate|]. eapply beats_mono; [eapply tol_switch_le; eauto|]. eapply B4; eauto.
          - rewrite (Hvnil eq_refl) in Hin. destruct Hin. }
    + destruct (a_best a) as [x0|] eqn:Eb0; [|reflexivity]. rewrite Hb'.
      apply switch_ok_intro. destruct (Nat.eq_dec x0 d) as [->|Hne]; [left; reflexivity|].
      destruct Hc as [Hc|Hc]; [discriminate|].
      assert (Hx0 : In x0 (map fst v)) by (apply Hmem; apply B1; reflexivity).
      apply in_map_iff in Hx0. destruct Hx0 as [[x0' m0] [Hf Hin0]]. cbn in Hf. subst x0'.
      assert (Hin0' : In (x0, m0) v') by (apply (vn_other c (a_policy a) st t d v true x0 _ Hne); exact Hin0).
      right. right. destruct m0 as [lx|]; [right|left; apply view_get_in; auto].
      exists lx, d, (Some s). split; [apply view_get_in; auto|]. split; [reflexivity|].
      split; [apply view_get_in; auto; apply (vn_alive_has c _ st t d v raw _ Hh); reflexivity|].
      rewrite <- (B3 x0 lx eq_refl Hin0). cbn [eff]. apply tol_switch_reason. exact Hc.
  - (* K2: another dialer reported, not good enough *)
    subst alive. set (s := raw + c_off c d) in *. split.
    + unfold min_inv. rewrite Hk1, Hk2. split; [|split; [|split]].
      * intros b Hb. apply Hmem'. apply vn_alive_fst. left. apply Hmem. apply B1. exact Hb.
      * intros _. exact Hbn.
      * intros b lb Hb Hin. assert (Hne : b <> d) by congruence.
        apply (vn_other c (a_policy a) st t d v true b _ Hne) in Hin. eapply B3; eauto.
      * intros b x la Hb Hin. destruct (Nat.eq_dec x d) as [->|Hne].
        { apply (vn_alive_has c _ st t d v raw _ Hh) in Hin. inversion Hin. apply beats_no_switch. exact Hts. }
        { apply (vn_other c (a_policy a) st t d v true x _ Hne) in Hin. eapply B4; eauto. }
    + rewrite Hk1. apply switch_ok_same.
  - (* U: the choice reports a latency that did not increase *)
    subst alive. set (s := raw + c_off c d) in *. split.
    + unfold min_inv. rewrite Hb', Hl'. split; [|split; [|split]].
      * intros b Hb. inversion Hb; subst. apply Hmem'. auto.
      * intros _. discriminate.
      * intros b lb Hb Hin. inversion Hb; subst b. apply (vn_alive_has c _ st t d v raw _ Hh) in Hin. inversion Hin. reflexivity.
      * intros b x la _ Hin. destruct (Nat.eq_dec x d) as [->|Hne].
        { apply (vn_alive_has c _ st t d v raw _ Hh) in Hin. inversion Hin. apply beats_false_ge. fold s. lia. }
        { apply (vn_other c (a_policy a) st t d v true x _ Hne) in Hin. eapply beats_mono; [exact Hle|]. eapply B4; eauto. }
    + rewrite Hbd, Hb'. apply switch_ok_same.
  - (* C1: the choice got worse: rescan *)
    subst alive. set (s := raw + c_off c d) in *.
    destruct (calc_min_proj tol X) as (HXi & HXe & _ & _). rewrite <- HX in HXi, HXe.
    rewrite HXi, HXe in Hok'. rewrite HXe in Hsim'.
    assert (HXinv : min_inv tol (calc_min tol X) v').
    { apply calc_min_inv; auto. intros b Hb. rewrite HXb in Hb. inversion Hb; subst b. split.
      - rewrite <- HXe. apply Hmem'. auto.
      - intros lb Hin. apply (vn_alive_has c _ st t d v raw _ Hh) in Hin. inversion Hin. rewrite HXl. reflexivity. }
    rewrite <- HX in HXinv. split; [exact HXinv|].
    rewrite Hbd. apply switch_ok_intro.
    destruct (calc_min_switch tol X d HXb) as [[Hs _]|(m & Hm & Hin & Hts)]; rewrite <- HX in *.
    + left. exact Hs.
    + destruct (Nat.eq_dec m d) as [->|Hne]; [left; exact Hm|].
      right. right. right.
      destruct (sim_entry_view _ _ _ _ Hsim' Hin) as [my [Hmy Hl]].
      exists s, m, my. split; [apply view_get_in; auto; apply (vn_alive_has c _ st t d v raw _ Hh); reflexivity|].
      split; [exact Hm|]. split; [apply view_get_in; auto|].
      rewrite <- Hl. rewrite HXl in Hts. apply tol_switch_reason. exact Hts.
  - (* K3: a dialer other than the choice is reported not alive *)
    subst alive.
    assert (Hbne : forall b, a_best a = Some b -> b <> d).
    { intros b Hb ->. destruct Hbd as [Hbd|Hbd]; [congruence|].
      apply B1 in Hb. apply (idx_ok_in _ _ _ Hok) in Hb. destruct Hb as [i Hi]. eapply Hbd; eauto. }
    split.
    + unfold min_inv. rewrite Hk1, Hk2. split; [|split; [|split]].
      * intros b Hb. apply Hmem'. apply vn_dead_fst. split; [apply Hmem; apply B1; exact Hb|auto].
      * intros Hne Hn. apply Hne. specialize (Hvnil Hn).
        destruct (a_entries a') as [|[x l] r] eqn:E; [reflexivity|]. exfalso.
        assert (In x (map fst v')) by (apply Hmem'; try rewrite E; left; reflexivity).
        apply vn_dead_fst in H. rewrite Hvnil in H. destruct H as [[] _].
      * intros b lb Hb Hin. apply (vn_other c (a_policy a) st t d v false b _ (Hbne b Hb)) in Hin. eapply B3; eauto.
      * intros b x la Hb Hin. destruct (Nat.eq_dec x d) as [->|Hne]; [exfalso; eapply vn_dead; eauto|].
        apply (vn_other c (a_policy a) st t d v false x _ Hne) in Hin. eapply B4; eauto.
    + rewrite Hk1. apply switch_ok_same.
  - (* C2: the choice is reported not alive: rescan from nothing *)
    subst alive.
    destruct (calc_min_proj tol X) as (HXi & HXe & _ & _). rewrite <- HX in HXi, HXe.
    rewrite HXi, HXe in Hok'. rewrite HXe in Hsim'.
    assert (HXinv : min_inv tol (calc_min tol X) v').
    { apply calc_min_inv; auto. intros b Hb. rewrite HXb in Hb. discriminate. }
    rewrite <- HX in HXinv. split; [exact HXinv|].
    rewrite Hbd. apply switch_ok_intro. right. left. apply view_get_none.
    intros H. apply vn_dead_fst in H. destruct H. congruence.
Qed.

(* ---------- the group against the spec state, over whole histories ---------- *)
Lemma ntype_eqb_eq : forall a b, ntype_eqb a b = true <-> a = b.
Proof.
  intros [d1 v1] [d2 v2]. unfold ntype_eqb. cbn. split.
  - destruct d1, d2, v1, v2; cbn; intros; congruence.
  - intros H. inversion H. destruct d2, v2; reflexivity.
Qed.

Lemma spol_eqb_eq : forall a b, spol_eqb a b = true <-> a = b.
Proof.
  intros a b. split.
  - destruct a as [|[]], b as [|[]]; cbn; intros; congruence.
  - intros ->. destruct b as [|[]]; reflexivity.
Qed.

Lemma new_set_ok : forall p, set_ok (new_set p) [].
Proof.
  intros p. split.
  - intros d i. cbn. split; [discriminate|]. intros [l Hl]. destruct i; discriminate.
  - split; [constructor|]. split; [cbn; tauto|]. intros _ d l [].
Qed.

Lemma new_set_min_inv : forall tol p, min_inv tol (new_set p) [].
Proof.
  intros tol p. unfold min_inv. cbn. repeat split; try discriminate; try congruence.
Qed.

Lemma fold_notify_ok : forall c st t p flag ds a cb v,
  set_ok a v -> a_policy a = p -> (is_min_policy p = true -> min_inv (c_tol c) a v) ->
  set_ok (fst (fold_notify c st t flag ds (a, cb))) (fold_left (fun v d => view_notify c p st t d (flag d) v) ds v) /\
  a_policy (fst (fold_notify c st t flag ds (a, cb))) = p /\
  (is_min_policy p = true ->
   min_inv (c_tol c) (fst (fold_notify c st t flag ds (a, cb))) (fold_left (fun v d => view_notify c p st t d (flag d) v) ds v)).
Proof.
  intros c st t p flag ds. unfold fold_notify. induction ds as [|d ds IH]; intros a cb v Hok Hp Hmi.
  - cbn. auto.
  - cbn [fold_left fst snd].
    destruct (notify c st t a d (flag d)) as [a' cb'] eqn:En.
    assert (Ea' : a' = fst (notify c st t a d (flag d))) by (rewrite En; reflexivity).
    apply IH.
    + subst p. rewrite Ea'. apply notify_set_ok. exact Hok.
    + rewrite Ea'. destruct (notify_core c st t a d (flag d)) as (_ & _ & H). congruence.
    + intros Hm. subst p. rewrite Ea'. apply notify_min_inv; auto.
Qed.

Lemma fold_remove_nil : forall c p st t ds,
  fold_left (fun v d => view_notify c p st t d false v) ds [] = [].
Proof. intros. induction ds; cbn; auto. Qed.

Lemma build_set_ok : forall c st p t,
  set_ok (fst (build_set c st p t)) (view_build c p st t) /\ a_policy (fst (build_set c st p t)) = p /\
  (is_min_policy p = true -> min_inv (c_tol c) (fst (build_set c st p t)) (view_build c p st t)).
Proof.
  intros c st p t. unfold build_set, view_build.
  destruct (fold_notify c st t (fun _ => false) (seq 0 (c_n c)) (new_set p, [])) as [a1 cb1] eqn:E1.
  pose proof (fold_notify_ok c st t p (fun _ => false) (seq 0 (c_n c)) (new_set p) [] [] (new_set_ok p) eq_refl
                (fun _ => new_set_min_inv (c_tol c) p)) as (H1 & H2 & H3).
  rewrite E1 in H1, H2, H3. cbn [fst] in H1, H2, H3. rewrite fold_remove_nil in H1, H3.
  apply fold_notify_ok; auto.
Qed.

Lemma nth_error_map' : forall A B (f : A -> B) l i, nth_error (map f l) i = option_map f (nth_error l i).
Proof. induction l; destruct i; cbn; auto. Qed.

Lemma recompute_ok : forall c st t a v p,
  set_ok a v -> set_ok (recompute c st t a p) (view_repolicy c p st t v) /\ a_policy (recompute c st t a p) = p.
Proof.
  intros c st t a v p [Hok (Hnd & Hmem & Hlat)]. unfold recompute.
  assert (Hfst : map fst (view_repolicy c p st t v) = map fst v).
  { unfold view_repolicy. rewrite map_map. reflexivity. }
  destruct (is_min_policy p) eqn:Ep; cbn [negb].
  2:{ split; [|reflexivity]. split; [exact Hok|]. cbn [a_policy a_entries]. rewrite Ep.
      split; [rewrite Hfst; exact Hnd|]. split; [intros d; rewrite Hfst; apply Hmem|discriminate]. }
  match goal with |- context [calc_min ?tol ?x] => destruct (calc_min_proj tol x) as (Hi & He & Hp & _) end.
  unfold set_ok. rewrite Hi, He, Hp. cbn [a_idx a_entries a_policy]. rewrite Ep. split; [|reflexivity].
  split; [|split; [|split]].
  - intros d i. rewrite nth_error_map'. rewrite (Hok d i). split.
    + intros [l Hl]. rewrite Hl. cbn. destruct (snapshot_latency st d t p); eauto.
    + intros [l Hl]. destruct (nth_error (a_entries a) i) as [[d' l']|] eqn:E; [|discriminate].
      cbn in Hl. destruct (snapshot_latency st d' t p); inversion Hl; subst; eauto.
  - rewrite Hfst. exact Hnd.
  - intros d. rewrite Hfst, <- Hmem, map_map. 
    assert (Hext : map (fun x : nat * Z => fst match snapshot_latency st (fst x) t p with
                                                | Some raw => (fst x, raw + c_off c (fst x))
                                                | None => (fst x, 0) end) (a_entries a) = map fst (a_entries a)).
    { apply map_ext. intros x. destruct (snapshot_latency st (fst x) t p); reflexivity. }
    rewrite Hext. tauto.
  - intros _ d l Hin. apply in_map_iff in Hin. destruct Hin as [[d' l'] [He' Hin]]. cbn [fst] in He'.
    assert (Hd' : In d' (map fst v)) by (apply Hmem; apply in_map_iff; exists (d', l'); auto).
    apply in_map_iff in Hd'. destruct Hd' as [[d'' m] [Hf Hv]]. cbn in Hf. subst d''.
    unfold snapshot_latency in He'.
    exists (match lat_of p (st_lat st d' t) with Some raw => Some (raw + c_off c d') | None => None end).
    destruct (lat_of p (st_lat st d' t)) eqn:El; inversion He'; subst; (split; [|reflexivity]);
      unfold view_repolicy; apply in_map_iff; exists (d, m); cbn [fst]; rewrite El; auto.
Qed.

Lemma recompute_min_inv : forall c st t a v p,
  set_ok a v -> is_min_policy p = true -> min_inv (c_tol c) (recompute c st t a p) (view_repolicy c p st t v).
Proof.
  intros c st t a v p Hok Hm.
  destruct (recompute_ok c st t a v p Hok) as [[Hi Hs] Hp]. rewrite Hp, Hm in Hs.
  unfold recompute in *. rewrite Hm in *. cbn [negb] in *.
  match goal with |- context [calc_min ?tol ?x] => destruct (calc_min_proj tol x) as (Hci & Hce & _ & _);
    rewrite Hci, Hce in Hi; rewrite Hce in Hs; apply calc_min_inv; auto end.
  cbn. intros b Hb. discriminate.
Qed.

Lemma step_ok : forall c g s o, group_ok c g s -> group_ok c (fst (step c g o)) (spec_step c s o).
Proof.
  intros c g s o (Hst & Hpol & Hsets). destruct o as [d t l|d t b|d t b|np].
  - cbn. unfold group_ok. cbn. rewrite Hst, <- Hpol. repeat split; auto;
    try (destruct (g_policy g); auto).
  - cbn. unfold group_ok. cbn. rewrite Hst, <- Hpol. repeat split; auto;
    try (destruct (g_policy g); auto).
  - cbn [step spec_step]. rewrite <- Hpol. destruct (g_policy g) as [i|p] eqn:Ep.
    + rewrite Hsets. cbn [fst]. split; [exact Hst|]. split; [congruence|]. rewrite Ep. exact Hsets.
    + destruct Hsets as (sets & Hs & Hall). rewrite Hs.
      destruct (notify c (g_store g) t (sets t) d b) as [a' cb] eqn:En.
      cbn [fst]. unfold group_ok. cbn [g_store g_policy g_sets ss_store ss_policy ss_views].
      try rewrite Ep. repeat split; auto.
      eexists. split; [reflexivity|]. intros t'. cbn beta.
      destruct (ntype_eqb t' t) eqn:Et.
      * apply ntype_eqb_eq in Et. subst t'. destruct (Hall t) as (Hp & Hok & Hmi).
        replace a' with (fst (notify c (g_store g) t (sets t) d b)) by (rewrite En; reflexivity).
        split; [|split].
        { destruct (notify_core c (g_store g) t (sets t) d b) as (_ & _ & H). congruence. }
        { rewrite <- Hst, <- Hp. apply notify_set_ok. exact Hok. }
        { intros Hm. rewrite <- Hst, <- Hp. apply notify_min_inv; auto; rewrite Hp; auto. }
      * apply Hall.
  - cbn [step spec_step]. rewrite <- Hpol. destruct (g_policy g) as [i|p] eqn:Ep.
    + rewrite Hsets. destruct np as [i'|p'].
      * cbn. unfold group_ok. cbn. auto.
      * destruct (build_sets c (g_store g) p') as [sets cb] eqn:Eb. cbn [fst].
        unfold group_ok. cbn [g_store g_policy g_sets ss_store ss_policy ss_views]. repeat split; auto.
        exists sets. split; auto. intros t. unfold build_sets in Eb. inversion Eb; subst sets.
        rewrite <- Hst. destruct (build_set_ok c (g_store g) p' t) as (K1 & K2 & K3). auto.
    + destruct Hsets as (sets & Hs & Hall). rewrite Hs. destruct np as [i'|p'].
      * cbn. unfold group_ok. cbn. auto.
      * cbn [fst]. unfold group_ok. cbn [g_store g_policy g_sets ss_store ss_policy ss_views]. repeat split; auto.
        eexists. split; [reflexivity|]. intros t. cbn beta. destruct (Hall t) as (Hp & Hok & Hmi).
        unfold set_selection_policy. rewrite Hp.
        destruct (spol_eqb p p') eqn:Epp.
        { apply spol_eqb_eq in Epp. subst p'. auto. }
        { rewrite <- Hst. destruct (recompute_ok c (g_store g) t (sets t) (ss_views s t) p' Hok).
          split; [auto|]. split; [auto|]. intros Hm. apply recompute_min_inv; auto. }
Qed.

Lemma init_ok : forall c p0, group_ok c (init_group c p0) (spec_init c p0).
Proof.
  intros c p0. unfold group_ok, init_group, spec_init. cbn. repeat split; auto.
  destruct p0 as [i|p]; auto. eexists. split; [reflexivity|]. intros t. cbn.
  destruct (build_set_ok c store0 p t) as (H1 & H2 & H3). auto.
Qed.

Lemma run_ok : forall c p0 h, group_ok c (run c p0 h) (spec_run c p0 h).
Proof.
  intros c p0 h. unfold run, spec_run.
  generalize (init_ok c p0). generalize (init_group c p0) (spec_init c p0).
  induction h as [|o h IH]; intros g s H; cbn; auto.
  apply IH. apply step_ok. exact H.
Qed.

(* ---------- selection: random ---------- *)
Lemma find_app' : forall A (f : A -> bool) l1 l2,
  find f (l1 ++ l2) = match find f l1 with Some x => Some x | None => find f l2 end.
Proof. induction l1; intros; cbn; auto. destruct (f a); auto. Qed.

Lemma get_rand_cands : forall a v excl d,
  set_ok a v -> (In d (get_rand a excl) <-> In d (cands excl v)).
Proof.
  intros a v excl d [_ (_ & Hmem & _)]. unfold get_rand, cands, view_drop. rewrite filter_In, Hmem.
  destruct excl as [e|]; cbn [onat_eqb].
  - rewrite view_remove_fst, negb_true_iff, Nat.eqb_neq. tauto.
  - cbn. tauto.
Qed.

Lemma nil_iff : forall A (l : list A), l = [] <-> forall x, ~ In x l.
Proof. intros A l. split; [intros -> x []|]. destruct l; auto. intros H. exfalso. apply (H a). left. reflexivity. Qed.

Lemma select_rand_spec : forall st sets views excl ts,
  (forall t, set_ok (sets t) (views t)) ->
  match first_nonempty views excl ts with
  | Some t' => exists ds sel, select_rand st sets excl ts = MOk ds 0 sel /\
                              forall d, In d ds <-> In d (cands excl (views t'))
  | None => select_rand st sets excl ts = MErr ENoAlive hour
  end.
Proof.
  intros st sets views excl ts Hok. unfold first_nonempty. induction ts as [|t ts IH]; cbn; auto.
  destruct (cands excl (views t)) as [|x cs] eqn:Ec.
  - assert (Hg : get_rand (sets t) excl = []).
    { apply nil_iff. intros d Hin. apply (get_rand_cands _ _ excl d (Hok t)) in Hin. rewrite Ec in Hin. destruct Hin. }
    rewrite Hg. exact IH.
  - destruct (get_rand (sets t) excl) as [|y ds] eqn:Eg.
    + exfalso. assert (In x (get_rand (sets t) excl)) by (apply (get_rand_cands _ _ excl x (Hok t)); rewrite Ec; left; reflexivity).
      rewrite Eg in H. destruct H.
    + eexists _, _. split; [reflexivity|]. intros d. rewrite <- Eg; try rewrite <- Ec. apply get_rand_cands. apply Hok.
Qed.

Lemma chain_selection_types : forall t, selection_types false t = chain t.
Proof. intros [d v]. destruct d; reflexivity. Qed.

Lemma view_mem_cands : forall d excl v, In d (cands excl v) -> view_mem d (view_drop excl v) = true.
Proof. intros d excl v H. apply view_mem_in. exact H. Qed.

Lemma C15_select_random_ok_proof :
  forall (c : cfg) (p0 : gpol) (h : list op) (rq : reqtype) (strict : bool) (excl : option nat) (r : sel_res),
    c_n c <> O -> g_policy (run c p0 h) = GSet SRandom ->
    In r (results_of (select c (run c p0 h) rq strict excl)) ->
    select_ok c (spec_run c p0 h) (key_of rq) strict excl r = true.
Proof.
  intros c p0 h rq strict excl r Hn Hp Hr.
  destruct (run_ok c p0 h) as (Hst & Hpol & Hsets).
  set (g := run c p0 h) in *. set (s := spec_run c p0 h) in *.
  rewrite Hp in Hsets. destruct Hsets as (sets & Hs & Hall).
  assert (Hok : forall t, set_ok (sets t) (ss_views s t)) by (intros t; apply (Hall t)).
  unfold select_ok. rewrite <- Hpol, Hp.
  unfold select, select1 in Hr. rewrite Hp, Hs in Hr.
  destruct (c_n c) as [|n] eqn:En; [congruence|].
  rewrite !chain_selection_types in Hr.
  set (t := key_of rq) in *.
  pose proof (select_rand_spec (g_store g) sets (ss_views s) excl (chain t) Hok) as H1.
  unfold tried.
  destruct (first_nonempty (ss_views s) excl (chain t)) as [t1|] eqn:E1.
  - destruct H1 as (ds & sel & Hsel & Hds). rewrite Hsel in Hr. cbn [results_of] in Hr.
    apply in_map_iff in Hr. destruct Hr as [d [<- Hd]].
    assert (Hf : first_nonempty (ss_views s) excl (if strict then chain t else chain t ++ chain (flip_t t)) = Some t1).
    { destruct strict; auto. unfold first_nonempty in *. rewrite find_app', E1. reflexivity. }
    rewrite Hf. apply Hds in Hd. rewrite (view_mem_cands _ _ _ Hd). reflexivity.
  - rewrite H1 in Hr. destruct strict; cbn [negb] in Hr.
    + rewrite E1. destruct (Nat.eqb (S n) 1) eqn:E1n.
      * cbn in Hr. destruct Hr as [<-|[]]. cbn. reflexivity.
      * cbn in Hr. destruct Hr as [<-|[]]. cbn. reflexivity.
    + pose proof (select_rand_spec (g_store g) sets (ss_views s) excl (chain (flip_t t)) Hok) as H2.
      assert (Hf : first_nonempty (ss_views s) excl (chain t ++ chain (flip_t t)) = first_nonempty (ss_views s) excl (chain (flip_t t))).
      { unfold first_nonempty in *. rewrite find_app', E1. reflexivity. }
      rewrite Hf. rewrite Bool.andb_false_r. rewrite chain_selection_types in Hr.
      destruct (first_nonempty (ss_views s) excl (chain (flip_t t))) as [t2|] eqn:E2.
      * destruct H2 as (ds & sel & Hsel & Hds). rewrite Hsel in Hr. cbn [results_of] in Hr.
        apply in_map_iff in Hr. destruct Hr as [d [<- Hd]].
        apply Hds in Hd. rewrite (view_mem_cands _ _ _ Hd). reflexivity.
      * rewrite H2 in Hr. cbn in Hr. destruct Hr as [<-|[]]. reflexivity.
Qed.

(* ---------- selection: fixed, against the spec checker ---------- *)
Lemma C15_select_fixed_ok_proof :
  forall (c : cfg) (p0 : gpol) (h : list op) (rq : reqtype) (strict : bool) (excl : option nat) (i : Z) (r : sel_res),
    g_policy (run c p0 h) = GFixed i ->
    In r (results_of (select c (run c p0 h) rq strict excl)) ->
    select_ok c (spec_run c p0 h) (key_of rq) strict excl r = true.
Proof.
  intros c p0 h rq strict excl i r Hp Hr.
  destruct (run_ok c p0 h) as (_ & Hpol & _).
  unfold select_ok. rewrite <- Hpol, Hp.
  unfold select, select1 in Hr. rewrite Hp in Hr.
  destruct (c_n c) as [|n] eqn:En.
  - cbn in Hr. destruct Hr as [<-|[]]. reflexivity.
  - destruct (i <? 0) eqn:E1; cbn [orb] in Hr.
    + cbn in Hr. destruct Hr as [<-|[]].
      assert ((0 <=? i) = false) by (apply Z.leb_gt; apply Z.ltb_lt in E1; lia). rewrite H. reflexivity.
    + destruct (Z.of_nat (S n) <=? i) eqn:E2.
      * cbn in Hr. destruct Hr as [<-|[]].
        assert ((i <? Z.of_nat (S n)) = false) by (apply Z.ltb_ge; apply Z.leb_le in E2; lia).
        rewrite H, Bool.andb_false_r. reflexivity.
      * cbn in Hr. destruct Hr as [<-|[]].
        assert ((0 <=? i) = true) by (apply Z.leb_le; apply Z.ltb_ge in E1; lia).
        assert ((i <? Z.of_nat (S n)) = true) by (apply Z.ltb_lt; apply Z.leb_gt in E2; lia).
        rewrite H, H0, Nat.eqb_refl. reflexivity.
Qed.

(* ---------- min policies: the excluded node is never returned by the set (any state) ---------- *)
Lemma scan_min_not_excl : forall e es acc d l,
  scan_min (Some e) es acc = (Some d, l) -> fst acc <> Some e -> d <> e.
Proof.
  intros e es. induction es as [|[d' l'] es IH]; intros acc d l H Hacc.
  - cbn in H. destruct acc as [o z]. cbn in *. inversion H; subst. congruence.
  - cbn in H. destruct (Nat.eqb d' e) eqn:E.
    + eapply IH; eauto.
    + destruct (negb (is_some (fst acc)) || (l' <? snd acc)); eapply IH; eauto. cbn. apply Nat.eqb_neq in E. congruence.
Qed.

Lemma C15_get_min_excluded_proof : forall a e d l, get_min a (Some e) = (Some d, l) -> d <> e.
Proof.
  intros a e d l H. unfold get_min in H. destruct (a_best a) as [b|].
  - cbn in H. destruct (Nat.eqb e b) eqn:E; cbn in H.
    + eapply scan_min_not_excl; eauto. cbn. discriminate.
    + inversion H; subst. apply Nat.eqb_neq in E. congruence.
  - eapply scan_min_not_excl; eauto. cbn. discriminate.
Qed.

(* ---------- no panic in the removal ---------- *)
Lemma C15_no_removal_panic_proof : forall c p0 h sets t d i,
  g_sets (run c p0 h) = Some sets -> a_idx (sets t) d = SAt i -> remove_panics (sets t) i = false.
Proof.
  intros c p0 h sets t d i Hs Hi. destruct (run_ok c p0 h) as (_ & _ & Hsets).
  destruct (g_policy (run c p0 h)); [congruence|].
  destruct Hsets as (sets' & Hs' & Hall). rewrite Hs in Hs'. inversion Hs'; subst sets'.
  destruct (Hall t) as (_ & [Hok _] & _). unfold remove_panics. apply Nat.leb_gt. eapply idx_ok_lt; eauto.
Qed.

(* ---------- witnesses ---------- *)
(* the strict reading of "merely better": a tie moves the standing choice *)
Definition w2_cfg : cfg := {| c_n := 2; c_off := fun _ => 0; c_tol := 30000000 |}.
Definition w2_hist : list op :=
  [OLat 1 (DTcp, V4) (Some 20000000, Some 20000000, Some 20000000); ONotify 1 (DTcp, V4) true;
   OLat 0 (DTcp, V4) (Some 20000000, Some 20000000, Some 20000000); ONotify 0 (DTcp, V4) true].
Lemma C15_tie_switch_witness_proof :
  let best h := match g_sets (run w2_cfg (GSet (SMin MLast)) h) with Some s => a_best (s (DTcp, V4)) | None => None end in
  best (firstn 2 w2_hist) = Some 1%nat /\ best w2_hist = Some 0%nat.
Proof. vm_compute. auto. Qed.

Lemma C15_nonvacuous_proof :
  let c := {| c_n := 3; c_off := fun _ => 0; c_tol := 0 |} in
  let h := [ONotify 1 (DDataUdp, V4) false; ONotify 0 (DDataUdp, V4) false; ONotify 2 (DDataUdp, V4) false;
            ONotify 0 (DDnsUdp, V4) false; ONotify 2 (DDnsUdp, V4) false] in
  let rq := {| rq_l4 := UDP; rq_ipv := V4; rq_isdns := false; rq_udpdom := UData |} in
  g_policy (run c (GSet SRandom) h) = GSet SRandom /\
  results_of (select c (run c (GSet SRandom) h) rq true (Some 1%nat)) = [ROk 0 0; ROk 2 0]
  /\ results_of (select c (run c (GSet SRandom) h) rq true None) = [ROk 1 0]
  /\ results_of (select c (run c (GSet SRandom) (h ++ [OPolicy (GFixed 2)])) rq true (Some 2%nat)) = [ROk 2 0].
Proof. vm_compute. auto. Qed.


(* ====================================================================================================== *)
(* min policies over whole histories                                                                      *)
(* ====================================================================================================== *)
Lemma min_sets_of_run : forall c p0 h m sets,
  g_policy (run c p0 h) = GSet (SMin m) -> g_sets (run c p0 h) = Some sets ->
  forall t, set_ok (sets t) (ss_views (spec_run c p0 h) t) /\ is_min_policy (a_policy (sets t)) = true /\
            min_inv (c_tol c) (sets t) (ss_views (spec_run c p0 h) t).
Proof.
  intros c p0 h m sets Hp Hs t. destruct (run_ok c p0 h) as (_ & _ & Hsets). rewrite Hp in Hsets.
  destruct Hsets as (sets' & Hs' & Hall). rewrite Hs in Hs'. inversion Hs'; subst sets'.
  destruct (Hall t) as (H1 & H2 & H3). rewrite H1. cbn. auto.
Qed.

Lemma within_tol_of_inv : forall tol a v b,
  set_ok a v -> is_min_policy (a_policy a) = true -> min_inv tol a v -> a_best a = Some b -> within_tol tol v b = true.
Proof.
  intros tol a v b [Hok Hsim] Hm (B1 & B2 & B3 & B4) Hb. rewrite Hm in Hsim.
  assert (Hbv : In b (map fst v)) by (destruct Hsim as (_ & H & _); apply H; apply B1; exact Hb).
  apply in_map_iff in Hbv. destruct Hbv as [[b' mb] [Hf Hin]]. cbn in Hf. subst b'.
  unfold within_tol. rewrite (view_get_in v b mb) by (destruct Hsim; auto).
  destruct mb as [lb|]; [|reflexivity].
  apply forallb_forall. intros [x [la|]] Hx; [|reflexivity]. cbn [snd].
  rewrite <- (B3 b lb Hb Hin). rewrite (B4 b x la Hb Hx). reflexivity.
Qed.

Lemma C15_best_is_alive_proof : forall c p0 h m sets t,
  g_policy (run c p0 h) = GSet (SMin m) -> g_sets (run c p0 h) = Some sets ->
  (forall b, a_best (sets t) = Some b ->
             view_mem b (ss_views (spec_run c p0 h) t) = true /\ In b (map fst (a_entries (sets t)))) /\
  (ss_views (spec_run c p0 h) t <> [] -> a_best (sets t) <> None).
Proof.
  intros c p0 h m sets t Hp Hs. destruct (min_sets_of_run c p0 h m sets Hp Hs t) as ([Hok Hsim] & Hm & (B1 & B2 & _)).
  split.
  - intros b Hb. split; [|apply B1; exact Hb]. apply view_mem_in. destruct Hsim as (_ & H & _). apply H. apply B1. exact Hb.
  - intros Hv. apply B2. intros He. apply Hv. eapply sim_nil; eauto.
Qed.

Lemma C15_best_within_tolerance_proof : forall c p0 h m sets t b,
  g_policy (run c p0 h) = GSet (SMin m) -> g_sets (run c p0 h) = Some sets ->
  a_best (sets t) = Some b -> within_tol (c_tol c) (ss_views (spec_run c p0 h) t) b = true.
Proof.
  intros c p0 h m sets t b Hp Hs Hb. destruct (min_sets_of_run c p0 h m sets Hp Hs t) as (Hok & Hm & Hinv).
  eapply within_tol_of_inv; eauto.
Qed.

Lemma run_snoc : forall c p0 h o, run c p0 (h ++ [o]) = fst (step c (run c p0 h) o).
Proof. intros. unfold run. rewrite fold_left_app. reflexivity. Qed.
Lemma spec_run_snoc : forall c p0 h o, spec_run c p0 (h ++ [o]) = spec_step c (spec_run c p0 h) o.
Proof. intros. unfold spec_run. rewrite fold_left_app. reflexivity. Qed.

Definition is_policy_op (o : op) : bool := match o with OPolicy _ => true | _ => false end.

Lemma C15_switch_reasons_proof : forall c p0 h o m sets sets' t,
  g_policy (run c p0 h) = GSet (SMin m) -> g_sets (run c p0 h) = Some sets ->
  g_sets (run c p0 (h ++ [o])) = Some sets' ->
  switch_ok (c_tol c) (ss_views (spec_run c p0 (h ++ [o])) t) (a_best (sets t)) (a_best (sets' t)) (is_policy_op o) = true.
Proof.
  intros c p0 h o m sets sets' t Hp Hs Hs'.
  pose proof (min_sets_of_run c p0 h m sets Hp Hs) as Hall.
  destruct (run_ok c p0 h) as (Hst & Hpol & _).
  rewrite run_snoc in Hs'. rewrite spec_run_snoc.
  set (g := run c p0 h) in *. set (s := spec_run c p0 h) in *.
  destruct o as [d t0 l|d t0 b|d t0 b|np]; cbn [step spec_step is_policy_op] in *.
  - cbn in Hs'. rewrite Hs in Hs'. inversion Hs'; subst. apply switch_ok_same.
  - cbn in Hs'. rewrite Hs in Hs'. inversion Hs'; subst. apply switch_ok_same.
  - rewrite Hs in Hs'. destruct (notify c (g_store g) t0 (sets t0) d b) as [a' cb] eqn:En. cbn in Hs'.
    inversion Hs'; subst sets'. clear Hs'. rewrite <- Hpol, Hp. cbn [ss_views].
    destruct (ntype_eqb t t0) eqn:Et; [|apply switch_ok_same].
    apply ntype_eqb_eq in Et. subst t0.
    destruct (Hall t) as (Hok & Hm & Hinv).
    replace a' with (fst (notify c (g_store g) t (sets t) d b)) by (rewrite En; reflexivity).
    destruct (notify_min_inv c (g_store g) t (sets t) (ss_views s t) d b Hok Hm Hinv) as [_ Hsw].
    destruct (run_ok c p0 h) as (_ & _ & Hsets). fold g in Hsets. rewrite Hp in Hsets.
    destruct Hsets as (sets2 & Hs2 & Hall2). rewrite Hs in Hs2. inversion Hs2; subst sets2.
    destruct (Hall2 t) as (Hpt & _ & _). rewrite Hpt in Hsw. rewrite <- Hst. exact Hsw.
  - destruct (a_best (sets t)) as [x|]; [|reflexivity]. cbn.
    destruct (match a_best (sets' t) with Some y => Nat.eqb x y | None => false end); reflexivity.
Qed.

(* ---------- selection: min policies ---------- *)
Lemma in_view_drop : forall excl v x m, In (x, m) (view_drop excl v) <-> In (x, m) v /\ onat_eqb (Some x) excl = false.
Proof.
  intros [e|] v x m; cbn [view_drop onat_eqb].
  - rewrite in_view_remove. cbn. rewrite Nat.eqb_neq. tauto.
  - tauto.
Qed.

Lemma view_drop_nodup : forall excl v, NoDup (map fst v) -> NoDup (map fst (view_drop excl v)).
Proof. intros [e|] v H; cbn; [apply view_remove_nodup|]; exact H. Qed.

Lemma in_cands : forall excl v x, In x (cands excl v) <-> exists m, In (x, m) v /\ onat_eqb (Some x) excl = false.
Proof.
  intros excl v x. unfold cands. rewrite in_map_iff. split.
  - intros [[x' m] [Hf Hin]]. cbn in Hf. subst x'. apply in_view_drop in Hin. eauto.
  - intros [m H]. exists (x, m). split; auto. apply in_view_drop. exact H.
Qed.

Definition min_result_ok (tol : Z) (excl : option nat) (v : view) (d : nat) (l : Z) : Prop :=
  In d (cands excl v) /\ within_tol tol (view_drop excl v) d = true /\
  match view_get d (view_drop excl v) with Some (Some ld) => l = ld | _ => True end.

Lemma get_min_spec : forall tol a v excl,
  set_ok a v -> is_min_policy (a_policy a) = true -> min_inv tol a v ->
  (cands excl v = [] /\ fst (get_min a excl) = None) \/
  (cands excl v <> [] /\ exists d l, get_min a excl = (Some d, l) /\ min_result_ok tol excl v d l).
Proof.
  intros tol a v excl [Hok Hsim] Hm (B1 & B2 & B3 & B4). rewrite Hm in Hsim.
  assert (Hnd : NoDup (map fst v)) by (destruct Hsim; auto).
  assert (Hndd : NoDup (map fst (view_drop excl v))) by (apply view_drop_nodup; exact Hnd).
  (* the scan *)
  assert (Hscan : (cands excl v = [] /\ fst (scan_min excl (a_entries a) (None, hour)) = None) \/
                  (cands excl v <> [] /\ exists d l, scan_min excl (a_entries a) (None, hour) = (Some d, l) /\ min_result_ok tol excl v d l)).
  { destruct (scan_min_spec excl (a_entries a) None hour) as (S1 & _ & S3).
    destruct (scan_min excl (a_entries a) (None, hour)) as [md ml]. cbn [fst snd] in *.
    destruct md as [m|].
    - right. destruct S3 as [[Hx _]|(m' & Hm' & Hin & Hex)]; [discriminate|]. inversion Hm'; subst m'.
      destruct (sim_entry_view _ _ _ _ Hsim Hin) as [mm [Hmm Hl]].
      assert (Hc : In m (cands excl v)) by (apply in_cands; eauto).
      split; [intros E; rewrite E in Hc; destruct Hc|].
      exists m, ml. split; [reflexivity|]. split; [exact Hc|].
      assert (Hgd : view_get m (view_drop excl v) = Some mm) by (apply view_get_in; auto; apply in_view_drop; auto).
      unfold within_tol. rewrite Hgd. split.
      + destruct mm as [lm|]; [|reflexivity]. cbn in Hl. subst lm.
        apply forallb_forall. intros [x [la|]] Hx; [|reflexivity]. cbn [snd].
        apply in_view_drop in Hx. destruct Hx as [Hx Hxe].
        rewrite beats_false_ge; [reflexivity|]. eapply S1; eauto. eapply sim_measured_entry; eauto.
      + destruct mm as [lm|]; [|exact I]. cbn in Hl. exact Hl.
    - left. split; [|reflexivity]. apply nil_iff. intros x Hx. apply in_cands in Hx. destruct Hx as [mx [Hx Hxe]].
      assert (Hxe' : In x (map fst (a_entries a))) by (destruct Hsim as (_ & H & _); apply H; apply in_map_iff; exists (x, mx); auto).
      apply in_map_iff in Hxe'. destruct Hxe' as [[x' l] [Hf Hl]]. cbn in Hf. subst x'.
      destruct (S1 x l Hl Hxe) as [Hn _]. congruence. }
  unfold get_min. destruct (a_best a) as [b|] eqn:Eb; [|exact Hscan].
  destruct (onat_eqb excl (Some b)) eqn:Ex; cbn [negb]; [exact Hscan|].
  right.
  assert (Hbe : onat_eqb (Some b) excl = false).
  { destruct excl as [e|]; [|reflexivity]. cbn in *. rewrite Nat.eqb_sym. exact Ex. }
  assert (Hbv : In b (map fst v)) by (destruct Hsim as (_ & H & _); apply H; apply B1; reflexivity).
  apply in_map_iff in Hbv. destruct Hbv as [[b' mb] [Hf Hin]]. cbn in Hf. subst b'.
  assert (Hc : In b (cands excl v)) by (apply in_cands; eauto).
  split; [intros E; rewrite E in Hc; destruct Hc|].
  exists b, (a_best_lat a). split; [reflexivity|]. split; [exact Hc|].
  assert (Hgd : view_get b (view_drop excl v) = Some mb) by (apply view_get_in; auto; apply in_view_drop; auto).
  unfold within_tol. rewrite Hgd. split.
  - destruct mb as [lb|]; [|reflexivity].
    apply forallb_forall. intros [x [la|]] Hx; [|reflexivity]. cbn [snd].
    apply in_view_drop in Hx. destruct Hx as [Hx _].
    rewrite <- (B3 b lb eq_refl Hin). rewrite (B4 b x la eq_refl Hx). reflexivity.
  - destruct mb as [lb|]; [|exact I]. apply (B3 b lb eq_refl Hin).
Qed.

Lemma select_min_spec : forall tol st sets views excl ts,
  (forall t, set_ok (sets t) (views t) /\ is_min_policy (a_policy (sets t)) = true /\ min_inv tol (sets t) (views t)) ->
  match first_nonempty views excl ts with
  | Some t' => exists d l sel, select_min st sets excl ts = MOk [d] l sel /\ min_result_ok tol excl (views t') d l
  | None => select_min st sets excl ts = MErr ENoAlive hour
  end.
Proof.
  intros tol st sets views excl ts Hall. unfold first_nonempty. induction ts as [|t ts IH]; cbn; auto.
  destruct (Hall t) as (Hok & Hm & Hinv).
  destruct (get_min_spec tol (sets t) (views t) excl Hok Hm Hinv) as [[Hc Hg]|[Hc (d & l & Hg & Hr)]].
  - rewrite Hc. destruct (get_min (sets t) excl) as [[x|] l]; [discriminate|]. exact IH.
  - destruct (cands excl (views t)) eqn:Ec; [congruence|]. rewrite Hg. eauto.
Qed.

Lemma min_result_select_ok : forall tol excl v d l,
  min_result_ok tol excl v d l ->
  view_mem d (view_drop excl v) &&
  (within_tol tol (view_drop excl v) d &&
   match view_get d (view_drop excl v) with Some (Some ld) => l =? ld | _ => true end) = true.
Proof.
  intros tol excl v d l (H1 & H2 & H3). rewrite (view_mem_cands _ _ _ H1), H2. cbn.
  destruct (view_get d (view_drop excl v)) as [[ld|]|]; auto. subst. apply Z.eqb_refl.
Qed.

Lemma C15_select_min_proof :
  forall (c : cfg) (p0 : gpol) (h : list op) (rq : reqtype) (strict : bool) (excl : option nat) (m : mpol) (r : sel_res),
    c_n c <> O -> g_policy (run c p0 h) = GSet (SMin m) ->
    In r (results_of (select c (run c p0 h) rq strict excl)) ->
    select_ok c (spec_run c p0 h) (key_of rq) strict excl r = true.
Proof.
  intros c p0 h rq strict excl m r Hn Hp Hr.
  destruct (run_ok c p0 h) as (Hst & Hpol & Hsets).
  rewrite Hp in Hsets. destruct Hsets as (sets & Hs & _).
  pose proof (min_sets_of_run c p0 h m sets Hp Hs) as Hall.
  set (g := run c p0 h) in *. set (s := spec_run c p0 h) in *.
  unfold select_ok. rewrite <- Hpol, Hp.
  unfold select, select1 in Hr. rewrite Hp, Hs in Hr.
  destruct (c_n c) as [|n] eqn:En; [congruence|].
  rewrite !chain_selection_types in Hr.
  set (t := key_of rq) in *.
  pose proof (select_min_spec (c_tol c) (g_store g) sets (ss_views s) excl (chain t) Hall) as H1.
  unfold tried.
  destruct (first_nonempty (ss_views s) excl (chain t)) as [t1|] eqn:E1.
  - destruct H1 as (d & l & sel & Hsel & Hres). rewrite Hsel in Hr. cbn in Hr. destruct Hr as [<-|[]].
    assert (Hf : first_nonempty (ss_views s) excl (if strict then chain t else chain t ++ chain (flip_t t)) = Some t1).
    { destruct strict; auto. unfold first_nonempty in *. rewrite find_app', E1. reflexivity. }
    rewrite Hf. apply min_result_select_ok. exact Hres.
  - rewrite H1 in Hr. destruct strict; cbn [negb] in Hr.
    + rewrite E1. destruct (Nat.eqb (S n) 1) eqn:E1n.
      * cbn in Hr. destruct Hr as [<-|[]]. cbn. reflexivity.
      * cbn in Hr. destruct Hr as [<-|[]]. cbn. reflexivity.
    + pose proof (select_min_spec (c_tol c) (g_store g) sets (ss_views s) excl (chain (flip_t t)) Hall) as H2.
      assert (Hf : first_nonempty (ss_views s) excl (chain t ++ chain (flip_t t)) = first_nonempty (ss_views s) excl (chain (flip_t t))).
      { unfold first_nonempty in *. rewrite find_app', E1. reflexivity. }
      rewrite Hf. rewrite Bool.andb_false_r. rewrite chain_selection_types in Hr.
      destruct (first_nonempty (ss_views s) excl (chain (flip_t t))) as [t2|] eqn:E2.
      * destruct H2 as (d & l & sel & Hsel & Hres). rewrite Hsel in Hr. cbn in Hr. destruct Hr as [<-|[]].
        apply min_result_select_ok. exact Hres.
      * rewrite H2 in Hr. cbn in Hr. destruct Hr as [<-|[]]. reflexivity.
Qed.

Definition w3_cfg : cfg := {| c_n := 2; c_off := fun _ => 0; c_tol := 30000000 |}.
Definition w3_hist : list op :=
  [OLat 0 (DTcp, V4) (Some 100000000, None, None); ONotify 0 (DTcp, V4) true;
   OLat 1 (DTcp, V4) (Some 80000000, None, None); ONotify 1 (DTcp, V4) true;
   OLat 1 (DTcp, V4) (Some 60000000, None, None); ONotify 1 (DTcp, V4) true].
Lemma C15_min_nonvacuous_proof :
  let best h := match g_sets (run w3_cfg (GSet (SMin MLast)) h) with Some s => a_best (s (DTcp, V4)) | None => None end in
  let rq := {| rq_l4 := TCP; rq_ipv := V4; rq_isdns := true; rq_udpdom := UUnset |} in
  best (firstn 4 w3_hist) = Some 0%nat /\ best w3_hist = Some 1%nat /\
  results_of (select w3_cfg (run w3_cfg (GSet (SMin MLast)) w3_hist) rq true None) = [ROk 1 60000000] /\
  results_of (select w3_cfg (run w3_cfg (GSet (SMin MLast)) w3_hist) rq true (Some 1%nat)) = [ROk 0 100000000].
Proof. vm_compute. auto. Qed.

(* ---------- completeness: `no alive node` iff every type tried, in both families when allowed, is empty ---------- *)
Lemma first_nonempty_none : forall views excl ts,
  first_nonempty views excl ts = None <-> forall t', In t' ts -> cands excl (views t') = [].
Proof.
  intros views excl ts. unfold first_nonempty. induction ts as [|t ts IH]; cbn.
  - split; [intros _ t' []|reflexivity].
  - destruct (cands excl (views t)) eqn:E.
    + rewrite IH. split; [intros H t' [<-|Hin]; auto|intros H t' Hin; apply H; auto].
    + split; [discriminate|]. intros H. specialize (H t (or_introl eq_refl)). congruence.
Qed.

Lemma select_rand_nonempty : forall st sets excl ts, results_of (select_rand st sets excl ts) <> [].
Proof.
  intros st sets excl ts. induction ts as [|t ts IH]; cbn; [discriminate|].
  destruct (get_rand (sets t) excl) eqn:E; [exact IH|]. cbn. discriminate.
Qed.

Lemma select_min_nonempty : forall st sets excl ts, results_of (select_min st sets excl ts) <> [].
Proof.
  intros st sets excl ts. induction ts as [|t ts IH]; cbn; [discriminate|].
  destruct (get_min (sets t) excl) as [[d|] l]; [cbn; discriminate|exact IH].
Qed.

Lemma select1_nonempty : forall c g pol t excl, results_of (select1 c g pol t excl) <> [].
Proof.
  intros c g pol t excl. unfold select1. destruct (c_n c); [cbn; discriminate|].
  destruct pol as [i|[|m]].
  - destruct ((i <? 0) || (Z.of_nat (S n) <=? i)); cbn; discriminate.
  - apply select_rand_nonempty.
  - apply select_min_nonempty.
Qed.

Lemma select_nonempty : forall c g rq strict excl, results_of (select c g rq strict excl) <> [].
Proof.
  intros c g rq strict excl. unfold select.
  destruct (select1 c g (g_policy g) (key_of rq) excl) as [ds l sel|e l] eqn:E.
  - rewrite <- E. apply select1_nonempty.
  - destruct e; try (rewrite <- E; apply select1_nonempty).
    destruct (negb strict); [apply select1_nonempty|].
    destruct (Nat.eqb (c_n c) 1); [|cbn; discriminate].
    pose proof (select1_nonempty c g (GFixed 0) (key_of rq) excl) as H.
    destruct (select1 c g (GFixed 0) (key_of rq) excl); cbn in *; [|discriminate].
    destruct ds; [exfalso; apply H; reflexivity|discriminate].
Qed.

Lemma C15_select_set_ok_proof :
  forall (c : cfg) (p0 : gpol) (h : list op) (rq : reqtype) (strict : bool) (excl : option nat) (p : spol) (r : sel_res),
    c_n c <> O -> g_policy (run c p0 h) = GSet p ->
    In r (results_of (select c (run c p0 h) rq strict excl)) ->
    select_ok c (spec_run c p0 h) (key_of rq) strict excl r = true.
Proof.
  intros c p0 h rq strict excl [|m] r; [apply C15_select_random_ok_proof|apply C15_select_min_proof].
Qed.

Lemma C15_select_complete_proof :
  forall (c : cfg) (p0 : gpol) (h : list op) (rq : reqtype) (strict : bool) (excl : option nat) (p : spol),
    c_n c <> O -> g_policy (run c p0 h) = GSet p ->
    ((exists l, In (RErr ENoAlive l) (results_of (select c (run c p0 h) rq strict excl))) <->
     ((forall t', In t' (tried (key_of rq) strict) -> cands excl (ss_views (spec_run c p0 h) t') = []) /\
      Nat.eqb (c_n c) 1 && strict = false)).
Proof.
  intros c p0 h rq strict excl p Hn Hp.
  destruct (run_ok c p0 h) as (_ & Hpol & _).
  assert (Hok : forall r, In r (results_of (select c (run c p0 h) rq strict excl)) ->
                          select_ok c (spec_run c p0 h) (key_of rq) strict excl r = true)
    by (intros r; apply (C15_select_set_ok_proof c p0 h rq strict excl p r Hn Hp)).
  rewrite <- first_nonempty_none.
  split.
  - intros [l Hin]. apply Hok in Hin. unfold select_ok in Hin. rewrite <- Hpol, Hp in Hin.
    destruct (c_n c) as [|n]; [congruence|].
    destruct (first_nonempty _ _ _); [discriminate|]. split; [reflexivity|].
    destruct (Nat.eqb (S n) 1 && strict); [discriminate|reflexivity].
  - intros [Hf Hl].
    destruct (results_of (select c (run c p0 h) rq strict excl)) as [|r rs] eqn:Er;
      [exfalso; eapply select_nonempty; eauto|].
    specialize (Hok r (or_introl eq_refl)). unfold select_ok in Hok. rewrite <- Hpol, Hp in Hok.
    destruct (c_n c) as [|n]; [congruence|]. rewrite Hf, Hl in Hok.
    destruct r as [d l|[] l]; try discriminate. exists l. left. reflexivity.
Qed.
