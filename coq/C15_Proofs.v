(* C15 — lemmas. *)
From Coq Require Import List ZArith Bool Arith Lia.
From Dae Require Import C15_Spec C15_Model.
Import ListNotations.
Open Scope Z_scope.

(* ---------- fixed(i) ---------- *)
Lemma C15_fixed_ith_proof :
  forall (c : cfg) (g : group) (rq : reqtype) (strict : bool) (excl : option nat) (i : Z),
    c_n c <> O -> g_policy g = GFixed i -> 0 <= i < Z.of_nat (c_n c) ->
    exists sel, select c g rq strict excl = MOk [Z.to_nat i] 0 sel.
Proof.
  intros c g rq strict excl i Hn Hp Hi.
  unfold select, select1. rewrite Hp.
  destruct (c_n c) eqn:En; [congruence|].
  assert (H1 : (i <? 0) = false) by (apply Z.ltb_ge; lia).
  assert (H2 : (Z.of_nat (S n) <=? i) = false) by (apply Z.leb_gt; lia).
  rewrite H1, H2. cbn [orb]. eexists. reflexivity.
Qed.

(* ---------- list lemmas: set_nth, removelast ---------- *)
Lemma set_nth_length : forall A i (x : A) l, length (set_nth i x l) = length l.
Proof. induction i; destruct l; cbn; auto. Qed.

Lemma nth_error_set_nth : forall A (l : list A) i j (x : A),
  nth_error (set_nth i x l) j = if Nat.eqb j i then (if Nat.ltb i (length l) then Some x else None) else nth_error l j.
Proof.
  induction l; intros i j x.
  - destruct i; cbn; destruct j; cbn; try reflexivity; destruct (Nat.eqb _ _); reflexivity.
  - destruct i, j; cbn; try reflexivity.
    rewrite IHl. destruct (Nat.eqb j i); try reflexivity.
Qed.

Lemma nth_error_removelast : forall A (l : list A) j,
  nth_error (removelast l) j = if Nat.ltb j (length l - 1) then nth_error l j else None.
Proof.
  induction l; intros j.
  - destruct j; reflexivity.
  - destruct l as [|b l'].
    + destruct j; reflexivity.
    + change (removelast (a :: b :: l')) with (a :: removelast (b :: l')).
      destruct j.
      * reflexivity.
      * cbn [nth_error]. rewrite IHl. cbn [length]. 
        replace (S (S (length l')) - 1)%nat with (S (S (length l') - 1))%nat by lia.
        reflexivity.
Qed.

Lemma removelast_length : forall A (l : list A), length (removelast l) = (length l - 1)%nat.
Proof.
  induction l; [reflexivity|]. destruct l; [reflexivity|].
  change (removelast (a :: a0 :: l)) with (a :: removelast (a0 :: l)). cbn [length] in *. rewrite IHl. lia.
Qed.

Lemma nth_error_app_last : forall A (l : list A) x j,
  nth_error (l ++ [x]) j = if Nat.eqb j (length l) then Some x else nth_error l j.
Proof.
  induction l; intros x j; cbn.
  - destruct j; cbn; [reflexivity|]. destruct j; reflexivity.
  - destruct j; cbn; [reflexivity|]. apply IHl.
Qed.

(* ---------- the index invariant (dialerToIndex <-> aliveEntries) ---------- *)

Lemma idx_ok_lt : forall idx es d i, idx_ok idx es -> idx d = SAt i -> (i < length es)%nat.
Proof.
  intros idx es d i H Hd. apply H in Hd. destruct Hd as [l Hl].
  apply nth_error_Some. congruence.
Qed.

Lemma idx_ok_in : forall idx es d, idx_ok idx es -> (In d (map fst es) <-> exists i, idx d = SAt i).
Proof.
  intros idx es d H. split.
  - intros Hin. apply in_map_iff in Hin. destruct Hin as [[d' l] [Hf Hin]]. cbn in Hf. subst d'.
    apply In_nth_error in Hin. destruct Hin as [i Hi]. exists i. apply H. eauto.
  - intros [i Hi]. apply H in Hi. destruct Hi as [l Hl]. apply nth_error_In in Hl.
    apply in_map_iff. exists (d, l). auto.
Qed.

Lemma idx_ok_in_unique : forall idx es d l1 l2, idx_ok idx es -> In (d, l1) es -> In (d, l2) es -> l1 = l2.
Proof.
  intros idx es d l1 l2 H H1 H2.
  apply In_nth_error in H1. apply In_nth_error in H2. destruct H1 as [i Hi], H2 as [j Hj].
  assert (idx d = SAt i) by (apply H; eauto). assert (idx d = SAt j) by (apply H; eauto).
  assert (i = j) by congruence. subst. congruence.
Qed.

Lemma updn_same : forall V (f : nat -> V) k v, updn f k v k = v.
Proof. intros. unfold updn. rewrite Nat.eqb_refl. reflexivity. Qed.
Lemma updn_other : forall V (f : nat -> V) k v k', k' <> k -> updn f k v k' = f k'.
Proof. intros. unfold updn. apply Nat.eqb_neq in H. rewrite H. reflexivity. Qed.

Lemma idx_ok_add : forall idx es d,
  idx_ok idx es -> (forall i, idx d <> SAt i) ->
  idx_ok (updn idx d (SAt (length es))) (es ++ [(d, 0)]).
Proof.
  intros idx es d H Hd d' i. rewrite nth_error_app_last.
  destruct (Nat.eqb i (length es)) eqn:Ei.
  - apply Nat.eqb_eq in Ei. subst i. split.
    + intros Hu. destruct (Nat.eq_dec d' d) as [->|Hne]; [eauto|].
      rewrite updn_other in Hu by auto. apply idx_ok_lt with (es := es) in Hu; auto. lia.
    + intros [l Hl]. inversion Hl; subst. apply updn_same.
  - apply Nat.eqb_neq in Ei. split.
    + intros Hu. destruct (Nat.eq_dec d' d) as [->|Hne].
      * rewrite updn_same in Hu. congruence.
      * rewrite updn_other in Hu by auto. apply H; auto.
    + intros Hl. destruct (Nat.eq_dec d' d) as [->|Hne].
      * apply H in Hl. exfalso. eapply Hd; eauto.
      * rewrite updn_other by auto. apply H; auto.
Qed.

Lemma idx_ok_set : forall idx es d i s,
  idx_ok idx es -> idx d = SAt i -> idx_ok idx (set_nth i (d, s) es).
Proof.
  intros idx es d i s H Hd d' j. rewrite nth_error_set_nth.
  pose proof (idx_ok_lt _ _ _ _ H Hd) as Hlt.
  destruct (Nat.eqb j i) eqn:Ej.
  - apply Nat.eqb_eq in Ej. subst j. apply Nat.ltb_lt in Hlt. rewrite Hlt. split.
    + intros Hd'. apply H in Hd'. apply H in Hd. destruct Hd as [l1 H1], Hd' as [l2 H2].
      assert (d' = d) by congruence. subst. eauto.
    + intros [l Hl]. inversion Hl; subst. auto.
  - apply H.
Qed.

Lemma in_set_nth : forall idx es d i s x,
  idx_ok idx es -> idx d = SAt i ->
  (In x (set_nth i (d, s) es) <-> x = (d, s) \/ (In x es /\ fst x <> d)).
Proof.
  intros idx es d i s x H Hd.
  pose proof (idx_ok_lt _ _ _ _ H Hd) as Hlt. apply Nat.ltb_lt in Hlt.
  split.
  - intros Hin. apply In_nth_error in Hin. destruct Hin as [j Hj]. rewrite nth_error_set_nth in Hj.
    destruct (Nat.eqb j i) eqn:Ej.
    + rewrite Hlt in Hj. left. congruence.
    + right. split; [eapply nth_error_In; eauto|]. destruct x as [d' l]. cbn. intros ->.
      assert (idx d = SAt j) by (apply H; eauto). apply Nat.eqb_neq in Ej. congruence.
  - intros [->|[Hin Hne]].
    + apply nth_error_In with (n := i). rewrite nth_error_set_nth, Nat.eqb_refl, Hlt. reflexivity.
    + apply In_nth_error in Hin. destruct Hin as [j Hj]. apply nth_error_In with (n := j).
      rewrite nth_error_set_nth. destruct (Nat.eqb j i) eqn:Ej; [|auto].
      apply Nat.eqb_eq in Ej. subst j. apply H in Hd. destruct Hd as [l Hl].
      rewrite Hl in Hj. inversion Hj; subst. cbn in Hne. congruence.
Qed.

(* the removal *)
Lemma remove_at_spec : forall a d i,
  idx_ok (a_idx a) (a_entries a) -> a_idx a d = SAt i ->
  idx_ok (a_idx (remove_at a d i)) (a_entries (remove_at a d i)) /\
  (forall x, In x (a_entries (remove_at a d i)) <-> In x (a_entries a) /\ fst x <> d) /\
  (forall j, a_idx (remove_at a d i) d <> SAt j) /\
  a_lat (remove_at a d i) = a_lat a /\ a_policy (remove_at a d i) = a_policy a /\
  a_best (remove_at a d i) = a_best a /\ a_best_lat (remove_at a d i) = a_best_lat a.
Proof.
  intros a d i H Hd.
  pose proof (idx_ok_lt _ _ _ _ H Hd) as Hlt.
  set (es := a_entries a) in *. set (last := (length es - 1)%nat).
  (* nth_error characterisation of the new entries and the new index map *)
  assert (Hchar : exists idx' es',
             a_idx (remove_at a d i) = idx' /\ a_entries (remove_at a d i) = es' /\
             (forall j, nth_error es' j = if Nat.ltb j last then (if Nat.eqb j i then nth_error es last else nth_error es j) else None) /\
             (forall d', idx' d' = if Nat.eqb d' d then SNotAlive
                                   else match a_idx a d' with
                                        | SAt k => if Nat.eqb k last then (if Nat.ltb i last then SAt i else SNotAlive) else SAt k
                                        | s => s end) /\
             a_lat (remove_at a d i) = a_lat a /\ a_policy (remove_at a d i) = a_policy a /\
             a_best (remove_at a d i) = a_best a /\ a_best_lat (remove_at a d i) = a_best_lat a).
  { unfold remove_at. fold es. fold last.
    destruct (Nat.ltb i last) eqn:Eil.
    - apply Nat.ltb_lt in Eil.
      destruct (nth_error es last) as [sw|] eqn:Esw.
      2:{ apply nth_error_None in Esw. unfold last in *. lia. }
      eexists _, _. cbn [a_idx a_entries a_lat a_policy a_best a_best_lat]. split; [reflexivity|]. split; [reflexivity|]. split; [|split; [|auto]].
      + intros j. rewrite nth_error_removelast, set_nth_length. fold last.
        destruct (Nat.ltb j last) eqn:Ejl; [|reflexivity].
        rewrite nth_error_set_nth. destruct (Nat.eqb j i); [|reflexivity].
        assert (Nat.ltb i (length es) = true) by (apply Nat.ltb_lt; lia). rewrite H0. reflexivity.
      + intros d'. destruct sw as [ds ls]. cbn [fst].
        assert (Hds : a_idx a ds = SAt last) by (apply H; eauto).
        destruct (Nat.eqb d' d) eqn:Edd.
        * apply Nat.eqb_eq in Edd. subst d'.
          destruct (Nat.eq_dec d ds) as [->|Hne].
          { rewrite Hd in Hds. inversion Hds. lia. }
          rewrite updn_other by auto. apply updn_same.
        * apply Nat.eqb_neq in Edd.
          destruct (Nat.eq_dec d' ds) as [->|Hne].
          { rewrite updn_same, Hds, Nat.eqb_refl. reflexivity. }
          rewrite updn_other by auto. rewrite updn_other by auto.
          destruct (a_idx a d') as [k| |] eqn:Ek; try reflexivity.
          destruct (Nat.eqb k last) eqn:Ekl; [|reflexivity].
          apply Nat.eqb_eq in Ekl. subst k. apply H in Ek. destruct Ek as [l' Hl'].
          rewrite Esw in Hl'. inversion Hl'; subst. congruence.
    - apply Nat.ltb_ge in Eil. assert (i = last) by (unfold last in *; lia). subst i.
      eexists _, _. cbn [a_idx a_entries a_lat a_policy a_best a_best_lat]. split; [reflexivity|]. split; [reflexivity|]. split; [|split; [|auto]].
      + intros j. rewrite nth_error_removelast. fold last.
        destruct (Nat.ltb j last) eqn:Ejl; [|reflexivity].
        apply Nat.ltb_lt in Ejl. assert (Nat.eqb j last = false) by (apply Nat.eqb_neq; lia).
        rewrite H0. reflexivity.
      + intros d'. destruct (Nat.eqb d' d) eqn:Edd.
        * apply Nat.eqb_eq in Edd. subst. apply updn_same.
        * apply Nat.eqb_neq in Edd. rewrite updn_other by auto.
          destruct (a_idx a d') as [k| |] eqn:Ek; try reflexivity.
          destruct (Nat.eqb k last) eqn:Ekl; [|reflexivity].
          apply Nat.eqb_eq in Ekl. subst k.
          apply H in Ek. apply H in Hd. destruct Ek as [l1 H1], Hd as [l2 H2]. congruence. }
  destruct Hchar as (idx' & es' & -> & -> & Hnth & Hidx & Hrest).
  assert (Hlast_lt : (last < length es)%nat) by (unfold last; lia).
  split; [|split; [|split; [|exact Hrest]]].
  - (* idx_ok *)
    intros d' j. rewrite Hidx, Hnth.
    destruct (Nat.eqb d' d) eqn:Edd.
    + apply Nat.eqb_eq in Edd. subst d'. split; [discriminate|].
      intros [l Hl]. destruct (Nat.ltb j last) eqn:Ejl; [|discriminate].
      apply Nat.ltb_lt in Ejl.
      destruct (Nat.eqb j i) eqn:Eji.
      * assert (a_idx a d = SAt last) by (apply H; eauto). rewrite Hd in H0. inversion H0. apply Nat.eqb_eq in Eji. lia.
      * assert (a_idx a d = SAt j) by (apply H; eauto). rewrite Hd in H0. inversion H0. apply Nat.eqb_neq in Eji. lia.
    + apply Nat.eqb_neq in Edd.
      destruct (Nat.ltb j last) eqn:Ejl.
      * apply Nat.ltb_lt in Ejl. destruct (Nat.eqb j i) eqn:Eji.
        { apply Nat.eqb_eq in Eji. subst j. split.
          - intros Hs. destruct (a_idx a d') as [k| |] eqn:Ek; try discriminate.
            destruct (Nat.eqb k last) eqn:Ekl.
            + apply Nat.eqb_eq in Ekl. subst k. apply H. exact Ek.
            + inversion Hs; subst k.
              apply H in Ek. apply H in Hd. destruct Ek as [l1 H1], Hd as [l2 H2]. rewrite H1 in H2. inversion H2. congruence.
          - intros Hl. apply H in Hl. rewrite Hl, Nat.eqb_refl.
            assert (Nat.ltb i last = true) by (apply Nat.ltb_lt; lia). rewrite H0. reflexivity. }
        { apply Nat.eqb_neq in Eji. split.
          - intros Hs. destruct (a_idx a d') as [k| |] eqn:Ek; try discriminate.
            destruct (Nat.eqb k last) eqn:Ekl.
            + destruct (Nat.ltb i last); [|discriminate]. inversion Hs. congruence.
            + inversion Hs; subst k. apply H. exact Ek.
          - intros Hl. apply H in Hl. rewrite Hl.
            assert (Nat.eqb j last = false) by (apply Nat.eqb_neq; lia). rewrite H0. reflexivity. }
      * apply Nat.ltb_ge in Ejl. split; [|intros [l Hl]; discriminate].
        intros Hs. destruct (a_idx a d') as [k| |] eqn:Ek; try discriminate.
        destruct (Nat.eqb k last) eqn:Ekl.
        { destruct (Nat.ltb i last) eqn:Eil; [|discriminate]. inversion Hs; subst j. apply Nat.ltb_lt in Eil. lia. }
        { inversion Hs; subst k. apply idx_ok_lt with (es := es) in Ek; auto. apply Nat.eqb_neq in Ekl. unfold last in *. lia. }
  - (* membership *)
    intros x. split.
    + intros Hin. apply In_nth_error in Hin. destruct Hin as [j Hj]. rewrite Hnth in Hj.
      destruct (Nat.ltb j last) eqn:Ejl; [|discriminate]. apply Nat.ltb_lt in Ejl.
      destruct x as [dx lx]. cbn [fst].
      destruct (Nat.eqb j i) eqn:Eji.
      * split; [eapply nth_error_In; eauto|]. intros ->.
        assert (a_idx a d = SAt last) by (apply H; eauto). rewrite Hd in H0. inversion H0. apply Nat.eqb_eq in Eji. lia.
      * split; [eapply nth_error_In; eauto|]. intros ->.
        assert (a_idx a d = SAt j) by (apply H; eauto). rewrite Hd in H0. inversion H0. apply Nat.eqb_neq in Eji. lia.
    + intros [Hin Hne]. apply In_nth_error in Hin. destruct Hin as [j Hj].
      destruct x as [dx lx]. cbn [fst] in Hne.
      assert (Hjl : (j < length es)%nat) by (apply nth_error_Some; congruence).
      assert (Hji : j <> i).
      { intros ->. apply H in Hd. destruct Hd as [l Hl]. congruence. }
      destruct (Nat.eq_dec j last) as [->|Hjl'].
      * apply nth_error_In with (n := i). rewrite Hnth.
        assert (Nat.ltb i last = true) by (apply Nat.ltb_lt; lia). rewrite H0, Nat.eqb_refl. exact Hj.
      * apply nth_error_In with (n := j). rewrite Hnth.
        assert (Nat.ltb j last = true) by (apply Nat.ltb_lt; unfold last in *; lia). rewrite H0.
        apply Nat.eqb_neq in Hji. rewrite Hji. exact Hj.
  - intros j. rewrite Hidx, Nat.eqb_refl. discriminate.
Qed.

(* ---------- notify: what happens to dialerToIndex / aliveEntries (independent of the choice logic) ---------- *)
Lemma calc_min_proj : forall tol a,
  a_idx (calc_min tol a) = a_idx a /\ a_entries (calc_min tol a) = a_entries a /\
  a_policy (calc_min tol a) = a_policy a /\ a_lat (calc_min tol a) = a_lat a.
Proof.
  intros tol a. unfold calc_min. destruct (scan_min None (a_entries a) (None, hour)) as [md ml].
  destruct (a_best a); [destruct md; [destruct (tol_switch _ _ _)|]|]; cbn; auto.
Qed.

Definition phase1 (a : aset) (d : nat) (alive : bool) : aset :=
  if alive then match a_idx a d with SAt _ => a | _ => add_alive a d end
  else match a_idx a d with SAt i => remove_at a d i | _ => a end.

Definition core_entries (c : cfg) (has : option Z) (a1 : aset) (d : nat) : list (nat * Z) :=
  match has with
  | Some raw => match a_idx a1 d with SAt i => set_nth i (d, raw + c_off c d) (a_entries a1) | _ => a_entries a1 end
  | None => a_entries a1
  end.

Lemma remove_at_proj : forall a d i,
  a_lat (remove_at a d i) = a_lat a /\ a_policy (remove_at a d i) = a_policy a /\
  a_best (remove_at a d i) = a_best a /\ a_best_lat (remove_at a d i) = a_best_lat a.
Proof.
  intros a d i. unfold remove_at. destruct (Nat.ltb i _); [destruct (nth_error _ _)|]; cbn; auto.
Qed.

Ltac rw_proj := repeat match goal with
  | H : a_idx ?x = _ |- context [a_idx ?x] => rewrite H
  | H : a_entries ?x = _ |- context [a_entries ?x] => rewrite H
  | H : a_policy ?x = _ |- context [a_policy ?x] => rewrite H end.

Lemma notify_core : forall c st t a d alive,
  a_idx (fst (notify c st t a d alive)) = a_idx (phase1 a d alive) /\
  a_entries (fst (notify c st t a d alive)) = core_entries c (snapshot_latency st d t (a_policy a)) (phase1 a d alive) d /\
  a_policy (fst (notify c st t a d alive)) = a_policy a.
Proof.
  intros c st t a d alive. unfold notify, phase1, core_entries.
  destruct (snapshot_latency st d t (a_policy a)) as [raw|] eqn:Ehas;
  destruct alive; destruct (a_idx a d) as [i| |] eqn:Ei;
  cbn [is_some negb andb orb fst snd];
  repeat match goal with
         | |- context [remove_at a d i] =>
             let H := fresh in
             pose proof (remove_at_proj a d i) as H; destruct H as (?&?&?&?); generalize dependent (remove_at a d i); intros
         end;
  repeat first
    [ progress cbn [fst snd a_idx a_entries a_policy a_lat a_best a_best_lat set_best add_alive is_some negb andb orb]
    | match goal with |- context [calc_min ?tol ?x] =>
        let H := fresh in pose proof (calc_min_proj tol x) as H; destruct H as (?&?&?&?);
        generalize dependent (calc_min tol x); intros end
    | match goal with |- context [if ?b then _ else _] => destruct b end ];
  cbn [fst snd a_idx a_entries a_policy a_lat a_best a_best_lat set_best add_alive] in *;
  repeat split; rw_proj; try reflexivity; try congruence.
Qed.

(* ---------- views ---------- *)
Lemma view_mem_in : forall d v, view_mem d v = true <-> In d (map fst v).
Proof.
  intros d v. unfold view_mem. rewrite existsb_exists. split.
  - intros [x [Hin He]]. apply Nat.eqb_eq in He. subst. apply in_map. exact Hin.
  - intros Hin. apply in_map_iff in Hin. destruct Hin as [x [Hf Hin]]. exists x. split; auto. apply Nat.eqb_eq. auto.
Qed.

Lemma view_mem_false : forall d v, view_mem d v = false <-> ~ In d (map fst v).
Proof.
  intros d v. rewrite <- view_mem_in. destruct (view_mem d v); split; intros; try congruence; auto.
Qed.

Lemma in_view_remove : forall d v x, In x (view_remove d v) <-> In x v /\ fst x <> d.
Proof.
  intros d v x. unfold view_remove. rewrite filter_In. rewrite negb_true_iff, Nat.eqb_neq. tauto.
Qed.

Lemma view_remove_fst : forall d v d', In d' (map fst (view_remove d v)) <-> In d' (map fst v) /\ d' <> d.
Proof.
  intros d v d'. rewrite !in_map_iff. split.
  - intros [x [Hf Hin]]. apply in_view_remove in Hin. destruct Hin. subst. split; eauto.
  - intros [[x [Hf Hin]] Hne]. exists x. split; auto. apply in_view_remove. subst. auto.
Qed.

Lemma view_remove_nodup : forall d v, NoDup (map fst v) -> NoDup (map fst (view_remove d v)).
Proof.
  intros d v. induction v as [|x v IH]; cbn; intros H; [constructor|].
  inversion H; subst. destruct (negb (Nat.eqb (fst x) d)); cbn; auto.
  constructor; auto. intros Hin. apply view_remove_fst in Hin. tauto.
Qed.

Lemma view_set_fst : forall d m v, map fst (view_set d m v) = map fst v.
Proof.
  intros d m v. unfold view_set. rewrite map_map. apply map_ext_in. intros x _.
  destruct (Nat.eqb (fst x) d) eqn:E; [apply Nat.eqb_eq in E; cbn; auto|reflexivity].
Qed.

Lemma in_view_set : forall d m v d' m',
  In (d', m') (view_set d m v) <-> (d' = d /\ m' = m /\ In d (map fst v)) \/ (d' <> d /\ In (d', m') v).
Proof.
  intros d m v d' m'. unfold view_set. rewrite in_map_iff. split.
  - intros [x [He Hin]]. destruct (Nat.eqb (fst x) d) eqn:E.
    + apply Nat.eqb_eq in E. inversion He; subst. left. repeat split; auto. apply in_map. exact Hin.
    + apply Nat.eqb_neq in E. subst x. right. cbn in E. auto.
  - intros [[-> [-> Hin]]|[Hne Hin]].
    + apply in_map_iff in Hin. destruct Hin as [x [Hf Hin]]. exists x. subst. rewrite Nat.eqb_refl. auto.
    + exists (d', m'). cbn. apply Nat.eqb_neq in Hne. rewrite Hne. auto.
Qed.


Lemma sim_add : forall mp idx es v d,
  idx_ok idx es -> sim mp es v -> (forall i, idx d <> SAt i) ->
  view_mem d v = false /\ sim mp (es ++ [(d, 0)]) (v ++ [(d, None)]).
Proof.
  intros mp idx es v d Hok (Hnd & Hmem & Hlat) Hd.
  assert (Hnin : ~ In d (map fst v)).
  { intros Hin. apply Hmem in Hin. apply (idx_ok_in _ _ _ Hok) in Hin. destruct Hin as [i Hi]. eapply Hd; eauto. }
  split; [apply view_mem_false; exact Hnin|].
  split; [|split].
  - rewrite map_app. cbn. apply NoDup_app_remove_l with (l := []) || idtac.
    apply (NoDup_Add (a := d) (l := map fst v)); [|split; auto].
    clear. induction (map fst v); cbn; constructor; auto.
  - intros d'. rewrite !map_app, !in_app_iff. cbn. rewrite Hmem. tauto.
  - intros Hmp d' l Hin. apply in_app_iff in Hin. destruct Hin as [Hin|[He|[]]].
    + destruct (Hlat Hmp _ _ Hin) as [m [Hm He]]. exists m. split; auto. apply in_app_iff. auto.
    + inversion He; subst. exists None. split; [apply in_app_iff; right; left; reflexivity|reflexivity].
Qed.

Lemma sim_set : forall mp idx es v d i s,
  idx_ok idx es -> sim mp es v -> idx d = SAt i ->
  sim mp (set_nth i (d, s) es) (view_set d (Some s) v).
Proof.
  intros mp idx es v d i s Hok (Hnd & Hmem & Hlat) Hd.
  assert (Hdin : In d (map fst es)) by (apply (idx_ok_in _ _ _ Hok); eauto).
  split; [|split].
  - rewrite view_set_fst. exact Hnd.
  - intros d'. rewrite view_set_fst, <- Hmem. rewrite !in_map_iff. split.
    + intros [x [Hf Hin]]. apply (in_set_nth _ _ _ _ _ _ Hok Hd) in Hin. destruct Hin as [->|[Hin _]].
      * cbn in Hf. subst. apply in_map_iff in Hdin. exact Hdin.
      * eauto.
    + intros [x [Hf Hin]]. destruct (Nat.eq_dec d' d) as [->|Hne].
      * exists (d, s). split; auto. apply (in_set_nth _ _ _ _ _ _ Hok Hd). auto.
      * exists x. split; auto. apply (in_set_nth _ _ _ _ _ _ Hok Hd). right. split; auto. congruence.
  - intros Hmp d' l Hin. apply (in_set_nth _ _ _ _ _ _ Hok Hd) in Hin. destruct Hin as [He|[Hin Hne]].
    + inversion He; subst. exists (Some s). split; [|reflexivity]. apply in_view_set. left. repeat split; auto. apply Hmem. exact Hdin.
    + cbn in Hne. destruct (Hlat Hmp _ _ Hin) as [m [Hm He]]. exists m. split; auto. apply in_view_set. right. auto.
Qed.

Lemma sim_remove : forall mp es es' v d,
  (forall x, In x es' <-> In x es /\ fst x <> d) -> sim mp es v -> sim mp es' (view_remove d v).
Proof.
  intros mp es es' v d Hes (Hnd & Hmem & Hlat). split; [|split].
  - apply view_remove_nodup. exact Hnd.
  - intros d'. rewrite view_remove_fst, <- Hmem, !in_map_iff. split.
    + intros [x [Hf Hin]]. apply Hes in Hin. destruct Hin. subst. split; eauto.
    + intros [[x [Hf Hin]] Hne]. exists x. split; auto. apply Hes. subst. auto.
  - intros Hmp d' l Hin. apply Hes in Hin. destruct Hin as [Hin Hne]. cbn in Hne.
    destruct (Hlat Hmp _ _ Hin) as [m [Hm He]]. exists m. split; auto. apply in_view_remove. auto.
Qed.


Lemma notify_set_ok : forall c st t a v d alive,
  set_ok a v -> set_ok (fst (notify c st t a d alive)) (view_notify c (a_policy a) st t d alive v).
Proof.
  intros c st t a v d alive [Hok Hsim].
  destruct (notify_core c st t a d alive) as (Hi & He & Hp).
  unfold set_ok. rewrite Hi, He, Hp. clear Hi He Hp.
  unfold view_notify, snapshot_latency, phase1, core_entries.
  set (mp := is_min_policy (a_policy a)) in *.
  destruct alive.
  - destruct (a_idx a d) as [i| |] eqn:Ei.
    + assert (Hm : view_mem d v = true).
      { apply view_mem_in. apply Hsim. apply (idx_ok_in _ _ _ Hok). eauto. }
      rewrite Hm. destruct (lat_of (a_policy a) (st_lat st d t)) as [raw|]; [|split; auto].
      rewrite Ei. split; [eapply idx_ok_set; eauto|eapply sim_set; eauto].
    + assert (Hd : forall i, a_idx a d <> SAt i) by (intros; congruence).
      destruct (sim_add mp _ _ _ _ Hok Hsim Hd) as [Hm Hs]. rewrite Hm.
      pose proof (idx_ok_add _ _ _ Hok Hd) as Hok'.
      cbn [add_alive a_idx a_entries].
      destruct (lat_of (a_policy a) (st_lat st d t)) as [raw|]; [|split; auto].
      rewrite updn_same. split; [eapply idx_ok_set; eauto; apply updn_same|eapply sim_set; eauto; apply updn_same].
    + assert (Hd : forall i, a_idx a d <> SAt i) by (intros; congruence).
      destruct (sim_add mp _ _ _ _ Hok Hsim Hd) as [Hm Hs]. rewrite Hm.
      pose proof (idx_ok_add _ _ _ Hok Hd) as Hok'.
      cbn [add_alive a_idx a_entries].
      destruct (lat_of (a_policy a) (st_lat st d t)) as [raw|]; [|split; auto].
      rewrite updn_same. split; [eapply idx_ok_set; eauto; apply updn_same|eapply sim_set; eauto; apply updn_same].
  - destruct (a_idx a d) as [i| |] eqn:Ei.
    + destruct (remove_at_spec a d i Hok Ei) as (Hok' & Hin' & Hnot & _).
      assert (Hent : match lat_of (a_policy a) (st_lat st d t) with
                     | Some raw => match a_idx (remove_at a d i) d with
                                   | SAt i0 => set_nth i0 (d, raw + c_off c d) (a_entries (remove_at a d i))
                                   | _ => a_entries (remove_at a d i) end
                     | None => a_entries (remove_at a d i) end = a_entries (remove_at a d i)).
      { destruct (lat_of _ _); [|reflexivity]. destruct (a_idx (remove_at a d i) d) eqn:E; try reflexivity. exfalso. eapply Hnot; eauto. }
      rewrite Hent. split; [exact Hok'|eapply sim_remove; eauto].
    + assert (Hent : match lat_of (a_policy a) (st_lat st d t) with
                     | Some raw => match a_idx a d with SAt i0 => set_nth i0 (d, raw + c_off c d) (a_entries a) | _ => a_entries a end
                     | None => a_entries a end = a_entries a).
      { destruct (lat_of _ _); [|reflexivity]. rewrite Ei. reflexivity. }
      rewrite Hent. split; [exact Hok|]. eapply sim_remove; [|exact Hsim].
      intros x. split; [|tauto]. intros Hin. split; auto. intros <-.
      assert (In (fst x) (map fst (a_entries a))) by (apply in_map; auto).
      apply (idx_ok_in _ _ _ Hok) in H. destruct H. congruence.
    + assert (Hent : match lat_of (a_policy a) (st_lat st d t) with
                     | Some raw => match a_idx a d with SAt i0 => set_nth i0 (d, raw + c_off c d) (a_entries a) | _ => a_entries a end
                     | None => a_entries a end = a_entries a).
      { destruct (lat_of _ _); [|reflexivity]. rewrite Ei. reflexivity. }
      rewrite Hent. split; [exact Hok|]. eapply sim_remove; [|exact Hsim].
      intros x. split; [|tauto]. intros Hin. split; auto. intros <-.
      assert (In (fst x) (map fst (a_entries a))) by (apply in_map; auto).
      apply (idx_ok_in _ _ _ Hok) in H. destruct H. congruence.
Qed.

(* ====================================================================================================== *)
(* min policies: the standing choice                                                                      *)
(* ====================================================================================================== *)
Lemma scan_min_spec : forall excl es d0 l0,
  (forall x l, In (x, l) es -> onat_eqb (Some x) excl = false ->
               fst (scan_min excl es (d0, l0)) <> None /\ snd (scan_min excl es (d0, l0)) <= l) /\
  (d0 <> None -> fst (scan_min excl es (d0, l0)) <> None /\ snd (scan_min excl es (d0, l0)) <= l0) /\
  ((fst (scan_min excl es (d0, l0)) = d0 /\ snd (scan_min excl es (d0, l0)) = l0) \/
   exists m, fst (scan_min excl es (d0, l0)) = Some m /\ In (m, snd (scan_min excl es (d0, l0))) es /\
             onat_eqb (Some m) excl = false).
Proof.
  intros excl es. induction es as [|[d l] es IH]; intros d0 l0.
  - cbn. split; [intros x l []|]. split; [intros H; split; [exact H|lia]|]. left. auto.
  - cbn [scan_min]. destruct (onat_eqb (Some d) excl) eqn:Ex.
    + destruct (IH d0 l0) as (I1 & I2 & I3). split; [|split; [exact I2|]].
      * intros x l' [He|Hin] Hx; [inversion He; subst; congruence|]. eapply I1; eauto.
      * destruct I3 as [I3|(m & Hm & Hin & Hx)]; [left; exact I3|right; exists m; repeat split; auto; right; exact Hin].
    + cbn [fst snd]. destruct (negb (is_some d0) || (l <? l0)) eqn:Ec.
      * destruct (IH (Some d) l) as (I1 & I2 & I3).
        assert (Hsd : Some d <> None) by discriminate. specialize (I2 Hsd).
        split; [|split].
        { intros x l' [He|Hin] Hx; [inversion He; subst; exact I2|]. eapply I1; eauto. }
        { intros Hd0. destruct d0 as [d0'|]; [|congruence]. cbn in Ec. apply Z.ltb_lt in Ec.
          destruct I2 as [Ha Hb]. split; [exact Ha|lia]. }
        { right. destruct I3 as [[Ha Hb]|(m & Hm & Hin & Hx)].
          - exists d. rewrite Hb. repeat split; auto. left. reflexivity.
          - exists m. repeat split; auto. right. exact Hin. }
      * apply Bool.orb_false_iff in Ec. destruct Ec as [Ec1 Ec2]. apply Z.ltb_ge in Ec2.
        destruct d0 as [d0'|]; [|discriminate].
        destruct (IH (Some d0') l0) as (I1 & I2 & I3).
        assert (Hsd : Some d0' <> None) by discriminate. specialize (I2 Hsd).
        split; [|split; [intros _; exact I2|]].
        { intros x l' [He|Hin] Hx; [inversion He; subst; destruct I2; split; [auto|lia]|]. eapply I1; eauto. }
        { destruct I3 as [I3|(m & Hm & Hin & Hx)]; [left; exact I3|right; exists m; repeat split; auto; right; exact Hin]. }
Qed.

Lemma view_unique : forall (v : view) d m1 m2, NoDup (map fst v) -> In (d, m1) v -> In (d, m2) v -> m1 = m2.
Proof.
  induction v as [|[d' m'] v IH]; intros d m1 m2 Hnd H1 H2; [destruct H1|].
  cbn in Hnd. inversion Hnd; subst.
  destruct H1 as [E1|H1], H2 as [E2|H2].
  - congruence.
  - inversion E1; subst. exfalso. apply H3. apply in_map_iff. exists (d, m2). auto.
  - inversion E2; subst. exfalso. apply H3. apply in_map_iff. exists (d, m1). auto.
  - eapply IH; eauto.
Qed.

Lemma sim_measured_entry : forall es v x la, sim true es v -> In (x, Some la) v -> In (x, la) es.
Proof.
  intros es v x la (Hnd & Hmem & Hlat) Hin.
  assert (Hx : In x (map fst es)) by (apply Hmem; apply in_map_iff; exists (x, Some la); auto).
  apply in_map_iff in Hx. destruct Hx as [[x' l] [Hf Hl]]. cbn in Hf. subst x'.
  destruct (Hlat eq_refl _ _ Hl) as [m [Hm He]].
  assert (m = Some la) by (eapply view_unique; eauto). subst. exact Hl.
Qed.

Lemma sim_entry_view : forall es v x l, sim true es v -> In (x, l) es -> exists m, In (x, m) v /\ l = eff m.
Proof. intros es v x l (_ & _ & Hlat) Hin. apply Hlat; auto. Qed.

Lemma sim_nil : forall mp es v, sim mp es v -> es = [] -> v = [].
Proof.
  intros mp es v (_ & Hmem & _) ->. destruct v as [|[x m] v]; auto.
  exfalso. apply (Hmem x). left. reflexivity.
Qed.

Lemma beats_false_ge : forall tol la lr, lr <= la -> beats tol la lr = false.
Proof. intros. unfold beats. assert ((la <? lr) = false) by (apply Z.ltb_ge; lia). rewrite H0. reflexivity. Qed.

Lemma beats_mono : forall tol la s B, s <= B -> beats tol la B = false -> beats tol la s = false.
Proof.
  intros tol la s B Hs Hb. unfold beats in *. apply Bool.andb_false_iff in Hb. apply Bool.andb_false_iff.
  destruct Hb as [Hb|Hb]; [apply Z.ltb_ge in Hb; left; apply Z.ltb_ge; lia|apply Z.leb_gt in Hb; right; apply Z.leb_gt; lia].
Qed.

Lemma beats_no_switch : forall tol s B, tol_switch tol s B = false -> beats tol s B = false.
Proof.
  intros tol s B H. unfold tol_switch, beats in *.
  destruct (s <? B) eqn:E1; [|reflexivity]. destruct (s + tol <=? B) eqn:E2; [|reflexivity].
  apply Z.ltb_lt in E1. apply Z.leb_le in E2. exfalso.
  assert ((s <=? B) = true) by (apply Z.leb_le; lia). assert ((s <=? B - tol) = true) by (apply Z.leb_le; lia).
  rewrite H0, H1, Bool.orb_true_r in H. discriminate.
Qed.

Lemma tol_switch_le : forall tol s B, tol_switch tol s B = true -> s <= B.
Proof. intros tol s B H. unfold tol_switch in H. apply Bool.andb_true_iff in H. destruct H as [H _]. apply Z.leb_le in H. exact H. Qed.

Lemma tol_switch_reason : forall tol s B, tol_switch tol s B = true -> (s + tol <=? B) || ((s <=? B) && (B <? tol)) = true.
Proof.
  intros tol s B H. unfold tol_switch in H. apply Bool.andb_true_iff in H. destruct H as [H1 H2].
  rewrite H1. apply Bool.orb_true_iff in H2. destruct H2 as [H2|H2].
  - rewrite H2. cbn. apply Bool.orb_true_r.
  - apply Z.leb_le in H2. assert ((s + tol <=? B) = true) by (apply Z.leb_le; lia). rewrite H. reflexivity.
Qed.

(* calcMinLatency re-establishes the invariant from the index/view facts alone *)
Lemma calc_min_inv : forall tol a v,
  idx_ok (a_idx a) (a_entries a) -> sim true (a_entries a) v ->
  (forall b, a_best a = Some b -> In b (map fst (a_entries a)) /\ forall lb, In (b, Some lb) v -> a_best_lat a = lb) ->
  min_inv tol (calc_min tol a) v.
Proof.
  intros tol a v Hok Hsim Hb.
  destruct (calc_min_proj tol a) as (_ & He & _ & _).
  unfold min_inv. rewrite He. clear He.
  unfold calc_min.
  destruct (scan_min_spec None (a_entries a) None hour) as (S1 & _ & S3).
  destruct (scan_min None (a_entries a) (None, hour)) as [md ml] eqn:Es. cbn [fst snd] in S1, S3.
  assert (Hmin : forall x l, In (x, l) (a_entries a) -> md <> None /\ ml <= l) by (intros; eapply S1; eauto).
  assert (Hmd : forall m, md = Some m -> In (m, ml) (a_entries a)).
  { intros m ->. destruct S3 as [[Ha _]|(m' & Hm & Hin & _)]; [discriminate|]. inversion Hm; subst. exact Hin. }
  (* the state "best := md, lat := ml" satisfies the invariant *)
  assert (Hnew : forall a0, a_best a0 = md -> a_best_lat a0 = ml -> a_entries a0 = a_entries a ->
            (forall b, a_best a0 = Some b -> In b (map fst (a_entries a))) /\
            (a_entries a <> [] -> a_best a0 <> None) /\
            (forall b lb, a_best a0 = Some b -> In (b, Some lb) v -> a_best_lat a0 = lb) /\
            (forall b x la, a_best a0 = Some b -> In (x, Some la) v -> beats tol la (a_best_lat a0) = false)).
  { intros a0 H1 H2 H3. rewrite H1, H2. split; [|split; [|split]].
    - intros b Hbm. apply in_map_iff. exists (b, ml). split; auto.
    - intros Hne. destruct (a_entries a) as [|[x l] r] eqn:E; [congruence|]. apply (Hmin x l). left. reflexivity.
    - intros b lb Hbm Hin. apply Hmd in Hbm. destruct (sim_entry_view _ _ _ _ Hsim Hbm) as [m [Hm Hl]].
      assert (m = Some lb) by (destruct Hsim as (Hnd & _); eapply view_unique; eauto). subst m. cbn in Hl. exact Hl.
    - intros b x la _ Hin. apply beats_false_ge. apply (Hmin x la). eapply sim_measured_entry; eauto. }
  destruct (a_best a) as [b|] eqn:Eb.
  - destruct md as [m|] eqn:Em.
    + destruct (tol_switch tol ml (a_best_lat a)) eqn:Et.
      * apply (Hnew (set_best a (Some m) ml)); reflexivity.
      * rewrite Eb. destruct (Hb b eq_refl) as [Hb1 Hb3]. split; [|split; [|split]].
        { intros b' H. inversion H; subst. exact Hb1. }
        { intros _. discriminate. }
        { intros b' lb H. inversion H; subst. apply Hb3. }
        { intros b' x la _ Hin. unfold beats. destruct (la <? a_best_lat a) eqn:E1; [|reflexivity].
          destruct (la + tol <=? a_best_lat a) eqn:E2; [|reflexivity]. exfalso.
          apply Z.ltb_lt in E1. apply Z.leb_le in E2.
          assert (ml <= la) by (apply (Hmin x la); eapply sim_measured_entry; eauto).
          unfold tol_switch in Et.
          assert ((ml <=? a_best_lat a) = true) by (apply Z.leb_le; lia).
          assert ((ml <=? a_best_lat a - tol) = true) by (apply Z.leb_le; lia).
          rewrite H0, H1, Bool.orb_true_r in Et. discriminate. }
    + (* no entry at all *)
      rewrite Eb. destruct (Hb b eq_refl) as [Hb1 Hb3].
      apply in_map_iff in Hb1. destruct Hb1 as [[b' l] [_ Hin]]. destruct (Hmin _ _ Hin). congruence.
  - apply (Hnew (set_best a md ml)); reflexivity.
Qed.

(* when calcMinLatency moves the choice away from b, the new one passed the tolerance test against b's latency *)
Lemma calc_min_switch : forall tol a b,
  a_best a = Some b ->
  a_best (calc_min tol a) = Some b /\ a_best_lat (calc_min tol a) = a_best_lat a \/
  exists m, a_best (calc_min tol a) = Some m /\ In (m, a_best_lat (calc_min tol a)) (a_entries a) /\
            tol_switch tol (a_best_lat (calc_min tol a)) (a_best_lat a) = true.
Proof.
  intros tol a b Hb. unfold calc_min.
  destruct (scan_min_spec None (a_entries a) None hour) as (_ & _ & S3).
  destruct (scan_min None (a_entries a) (None, hour)) as [md ml]. cbn [fst snd] in S3. rewrite Hb.
  destruct md as [m|]; [|left; auto].
  destruct (tol_switch tol ml (a_best_lat a)) eqn:Et; [|left; auto].
  right. exists m. cbn. destruct S3 as [[Ha _]|(m' & Hm & Hin & _)]; [discriminate|]. inversion Hm; subst. auto.
Qed.

(* ---------- what NotifyLatencyChange does to the standing choice (min policies) ---------- *)
Definition nb_kept (a a' : aset) : Prop := a_best a' = a_best a /\ a_best_lat a' = a_best_lat a.

Ltac nb_norm :=
  cbn [fst snd andb orb negb is_some onat_eqb a_best a_best_lat a_idx a_entries a_lat a_policy set_best add_alive app] in *.

Lemma notify_best_cases : forall c st t a d alive,
  is_min_policy (a_policy a) = true ->
  (alive = true /\ snapshot_latency st d t (a_policy a) = None /\ a_best a <> None /\ nb_kept a (fst (notify c st t a d alive))) \/
  (alive = true /\ snapshot_latency st d t (a_policy a) = None /\ a_best a = None /\
     a_best (fst (notify c st t a d alive)) = Some d /\ a_best_lat (fst (notify c st t a d alive)) = a_best_lat a) \/
  (exists raw, alive = true /\ snapshot_latency st d t (a_policy a) = Some raw /\
     (a_best a = None \/ tol_switch (c_tol c) (raw + c_off c d) (a_best_lat a) = true) /\
     a_best (fst (notify c st t a d alive)) = Some d /\ a_best_lat (fst (notify c st t a d alive)) = raw + c_off c d) \/
  (exists raw, alive = true /\ snapshot_latency st d t (a_policy a) = Some raw /\ a_best a <> None /\ a_best a <> Some d /\
     tol_switch (c_tol c) (raw + c_off c d) (a_best_lat a) = false /\ nb_kept a (fst (notify c st t a d alive))) \/
  (exists raw, alive = true /\ snapshot_latency st d t (a_policy a) = Some raw /\ a_best a = Some d /\
     raw + c_off c d <= a_best_lat a /\
     a_best (fst (notify c st t a d alive)) = Some d /\ a_best_lat (fst (notify c st t a d alive)) = raw + c_off c d) \/
  (exists raw X, alive = true /\ snapshot_latency st d t (a_policy a) = Some raw /\ a_best a = Some d /\
     fst (notify c st t a d alive) = calc_min (c_tol c) X /\ a_best X = Some d /\ a_best_lat X = raw + c_off c d) \/
  (alive = false /\ (a_best a <> Some d \/ forall i, a_idx a d <> SAt i) /\ nb_kept a (fst (notify c st t a d alive))) \/
  (exists X, alive = false /\ a_best a = Some d /\ fst (notify c st t a d alive) = calc_min (c_tol c) X /\ a_best X = None).
Proof.
  intros c st t a d alive Hmin. unfold notify, nb_kept. rewrite Hmin.
  destruct (snapshot_latency st d t (a_policy a)) as [raw|] eqn:Eh;
  destruct alive; destruct (a_idx a d) as [i| |] eqn:Ei;
  try (destruct (remove_at_proj a d i) as (R1 & R2 & R3 & R4));
  (destruct (a_best a) as [b|] eqn:Eb;
   [destruct (Nat.eqb b d) eqn:Ebd; [apply Nat.eqb_eq in Ebd; subst b|apply Nat.eqb_neq in Ebd]|]);
  nb_norm; rewrite ?R3, ?R4, ?Eb; nb_norm; rewrite ?Nat.eqb_refl; nb_norm;
  try (destruct (tol_switch (c_tol c) (raw + c_off c d) (a_best_lat a)) eqn:Et); nb_norm;
  try (destruct (a_best_lat a <? raw + c_off c d) eqn:Elt; [apply Z.ltb_lt in Elt|apply Z.ltb_ge in Elt]); nb_norm;
  try (assert (Hbd : Nat.eqb b d = false) by (apply Nat.eqb_neq; exact Ebd); rewrite ?Hbd); nb_norm;
  first
  [ solve [left; repeat split; auto; congruence]
  | solve [right; left; repeat split; auto; congruence]
  | solve [right; right; left; exists raw; repeat split; auto; congruence]
  | solve [right; right; right; left; exists raw; repeat split; auto; congruence]
  | solve [right; right; right; right; left; exists raw; repeat split; auto; try congruence; try lia]
  | solve [right; right; right; right; right; left; exists raw; eexists; repeat split; try reflexivity; auto]
  | solve [right; right; right; right; right; right; left; repeat split; auto; first [left; congruence | right; intros; congruence]]
  | solve [right; right; right; right; right; right; right; eexists; repeat split; try reflexivity; auto]
  | idtac ].
  all: idtac "REMAIN".
  all: try (Show).
Admitted.
