(* C11 — the packed representation of the LOUDS trie (layer 3, second half (b)):
   64-bit words, rank samples per word, select samples per 64 ones, integer arrays inside CompactBitLists
   ([ptrie] of C11_Louds.v) answer exactly like the logical arrays ([louds]) with naive rank/select.
   Nothing admitted, no axioms.
   A/B  word level: get_bit_pack, ranks_pack_bits, popcount_mask, count_zeros_pack, sel_word_spec, sel_words_spec,
        selects_of_spec, select_ith_one_pack (the integer arrays abstracted by "cbl_get ... = nth of the plain list");
   D    packed_invariant / packed_root (Section Assembly): p_has_from = l_has_from along the numbering of
        C11_NumberingProofs.v, for any [ptrie] that satisfies [views];
   C    Section Packed: the list view of cbl_of_list and [views (pack_louds ..)] from the CompactBitList law, taken as
        section hypotheses in the iterable form that C11_BitlistProofs.v proves (cbl_inv_new, cbl_inv_set);
        instantiated at the end: packed_correct_sized_closed, packed_correct_keys.
   The size bound (label bitmap shorter than 2^64 bits / keys shorter than 2^63 bytes in total) is needed: the
   rank and select samples must fit the at most 64 bit wide units for which the CompactBitList law holds. *)
From Coq Require Import List Arith NArith Bool Lia ZArith ZifyBool ZifyN ZifyNat Sorting.Sorted.
From Dae Require Import C11_Spec C11_Model C11_Louds C11_LoudsProofs C11_NumberingProofs.
Import ListNotations.
Local Open Scope nat_scope.

Local Ltac Zify.zify_post_hook ::= Z.to_euclidean_division_equations.

(* ================= 0. list toolkit ================= *)
Lemma nth_firstn' : forall (A : Type) (l : list A) n j d, j < n -> nth j (firstn n l) d = nth j l d.
Proof.
  induction l as [|x l IH]; intros n j d H.
  - rewrite firstn_nil. reflexivity.
  - destruct n as [|n]; [lia|]. destruct j as [|j]; cbn [firstn nth]; [reflexivity|]. apply IH. lia.
Qed.

Lemma nth_skipn' : forall (A : Type) (l : list A) k j d, nth j (skipn k l) d = nth (k + j) l d.
Proof.
  induction l as [|x l IH]; intros k j d.
  - rewrite skipn_nil. destruct j, k; reflexivity.
  - destruct k as [|k]; cbn [skipn]; [reflexivity|]. rewrite IH. reflexivity.
Qed.

Lemma skipn_skipn' : forall (A : Type) (l : list A) a b, skipn a (skipn b l) = skipn (b + a) l.
Proof.
  induction l as [|x l IH]; intros a b.
  - rewrite !skipn_nil. reflexivity.
  - destruct b as [|b]; cbn [skipn Nat.add]; [reflexivity|]. apply IH.
Qed.

Lemma firstn_add' : forall (A : Type) (l : list A) a b, firstn (a + b) l = firstn a l ++ firstn b (skipn a l).
Proof.
  induction l as [|x l IH]; intros a b.
  - rewrite skipn_nil, !firstn_nil. reflexivity.
  - destruct a as [|a]; cbn [firstn skipn Nat.add app]; [reflexivity|]. f_equal. apply IH.
Qed.

(* number of ones *)
Fixpoint cnt1 (bs : list bool) : nat :=
  match bs with [] => 0 | b :: r => (if b then 1 else 0) + cnt1 r end.

Lemma cnt1_app : forall a b, cnt1 (a ++ b) = cnt1 a + cnt1 b.
Proof. induction a as [|x a IH]; intros b; cbn [app cnt1]; [reflexivity|]. rewrite IH. lia. Qed.

Lemma cnt1_le_length : forall l, cnt1 l <= length l.
Proof. induction l as [|[|] l IH]; cbn [cnt1 length]; lia. Qed.

Lemma zeros_cnt1 : forall l, length (filter negb l) + cnt1 l = length l.
Proof. induction l as [|[|] l IH]; cbn [filter negb cnt1 length]; lia. Qed.

Lemma cnt1_firstn_le : forall l n, cnt1 (firstn n l) <= cnt1 l.
Proof. intros l n. rewrite <- (firstn_skipn n l) at 2. rewrite cnt1_app. lia. Qed.

Lemma cnt1_split : forall l n, cnt1 l = cnt1 (firstn n l) + cnt1 (skipn n l).
Proof. intros l n. rewrite <- (firstn_skipn n l) at 1. apply cnt1_app. Qed.

Lemma count_zeros_l_cnt1 : forall bs i, i <= length bs -> count_zeros_l bs i + cnt1 (firstn i bs) = i.
Proof.
  intros bs i H. unfold count_zeros_l. rewrite zeros_cnt1. apply firstn_length_le. exact H.
Qed.

(* ================= A. words ================= *)
Lemma bits_to_N_cons : forall b r, bits_to_N (b :: r) = (2 * bits_to_N r + N.b2n b)%N.
Proof. intros [|] r; cbn [bits_to_N N.b2n]; lia. Qed.

Lemma testbit_bits : forall l j, N.testbit (bits_to_N l) (N.of_nat j) = nth j l false.
Proof.
  induction l as [|b r IH]; intros j.
  - cbn [bits_to_N]. rewrite N.bits_0. destruct j; reflexivity.
  - rewrite bits_to_N_cons. destruct j as [|j].
    + cbn [nth]. change (N.of_nat 0) with 0%N. apply N.testbit_0_r.
    + rewrite Nat2N.inj_succ, N.testbit_succ_r. cbn [nth]. apply IH.
Qed.

Lemma testbit_bitsN : forall l q, N.testbit (bits_to_N l) q = nth (N.to_nat q) l false.
Proof. intros. rewrite <- testbit_bits, N2Nat.id. reflexivity. Qed.

Lemma pack_nil : forall f, pack f [] = [].
Proof. destruct f; reflexivity. Qed.

Lemma pack_cons : forall f b r, pack (S f) (b :: r) = bits_to_N (firstn 64 (b :: r)) :: pack f (skipn 64 (b :: r)).
Proof. reflexivity. Qed.

Lemma skipn64_length : forall (b : bool) r f, length (b :: r) <= S f -> length (skipn 64 (b :: r)) <= f.
Proof. intros. rewrite skipn_length. cbn [length] in *. lia. Qed.

Lemma nth_pack : forall f bs k, length bs <= f ->
  nth k (pack f bs) 0%N = bits_to_N (firstn 64 (skipn (64 * k) bs)).
Proof.
  induction f as [|f IH]; intros bs k H.
  - destruct bs; [|cbn [length] in H; lia]. rewrite skipn_nil, firstn_nil. destruct k; reflexivity.
  - destruct bs as [|b r].
    + rewrite pack_nil, skipn_nil, firstn_nil. destruct k; reflexivity.
    + rewrite pack_cons. destruct k as [|k].
      * replace (64 * 0) with 0 by lia. reflexivity.
      * cbn [nth]. rewrite IH by (apply skipn64_length; exact H). rewrite skipn_skipn'.
        replace (64 + 64 * k) with (64 * S k) by lia. reflexivity.
Qed.

Lemma pack_length : forall f bs, length bs <= f -> length (pack f bs) = (length bs + 63) / 64.
Proof.
  induction f as [|f IH]; intros bs H.
  - destruct bs; [reflexivity | cbn [length] in H; lia].
  - destruct bs as [|b r]; [reflexivity|]. rewrite pack_cons. cbn [length].
    rewrite IH by (apply skipn64_length; exact H). rewrite skipn_length. cbn [length]. lia.
Qed.

Lemma skipn_pack : forall k f bs, length bs <= f -> skipn k (pack f bs) = pack (f - k) (skipn (64 * k) bs).
Proof.
  induction k as [|k IH]; intros f bs H.
  - replace (64 * 0) with 0 by lia. rewrite Nat.sub_0_r. reflexivity.
  - destruct f as [|f].
    + destruct bs; [|cbn [length] in H; lia]. rewrite (@skipn_nil bool (64 * S k)), !pack_nil, skipn_nil. reflexivity.
    + destruct bs as [|b r].
      * rewrite (@skipn_nil bool (64 * S k)), !pack_nil, skipn_nil. reflexivity.
      * rewrite pack_cons. pose proof (skipn64_length b r f H) as H'.
        set (tl := skipn 64 (b :: r)) in *. rewrite skipn_cons. rewrite IH by exact H'. subst tl.
        replace (S f - S k) with (f - k) by lia.
        rewrite skipn_skipn'. replace (64 + 64 * k) with (64 * S k) by lia. reflexivity.
Qed.

Theorem get_bit_pack : forall bs i, get_bit (pack_bits bs) (N.of_nat i) = nth i bs false.
Proof.
  intros bs i. unfold get_bit, pack_bits, nthN.
  replace (N.to_nat (N.of_nat i / 64)) with (i / 64) by lia.
  replace (N.of_nat i mod 64)%N with (N.of_nat (i mod 64)) by lia.
  rewrite nth_pack by lia. rewrite testbit_bits, nth_firstn' by lia. rewrite nth_skipn'.
  f_equal. lia.
Qed.

(* popcount *)
Lemma popcount_step : forall b n, popcount (2 * n + N.b2n b) = (N.b2n b + popcount n)%N.
Proof. intros [|] [|p]; reflexivity. Qed.

Lemma popcount_bits : forall l, popcount (bits_to_N l) = N.of_nat (cnt1 l).
Proof.
  induction l as [|b r IH]; [reflexivity|]. rewrite bits_to_N_cons, popcount_step, IH.
  cbn [cnt1]. destruct b; cbn [N.b2n]; lia.
Qed.

Lemma bits_zero_cnt1 : forall l, bits_to_N l = 0%N -> cnt1 l = 0.
Proof. intros l H. pose proof (popcount_bits l) as P. rewrite H in P. cbn [popcount] in P. lia. Qed.

(* rank samples: entry k = ones in the first k words = ones among the first 64k bits *)
Lemma nth_ranks_pack : forall k f bs acc, length bs <= f -> k <= length (pack f bs) ->
  nth k (ranks_of (pack f bs) acc) 0%N = (acc + N.of_nat (cnt1 (firstn (64 * k) bs)))%N.
Proof.
  induction k as [|k IH]; intros f bs acc H Hk.
  - replace (64 * 0) with 0 by lia. cbn [firstn cnt1]. destruct (pack f bs); cbn [ranks_of nth]; lia.
  - destruct f as [|f]; [cbn [pack length] in Hk; lia|].
    destruct bs as [|b r]; [cbn [pack length] in Hk; lia|].
    rewrite pack_cons in *. cbn [length] in Hk. cbn [ranks_of nth].
    rewrite IH by (try apply skipn64_length; try exact H; lia).
    rewrite popcount_bits. replace (64 * S k) with (64 + 64 * k) by lia. rewrite firstn_add', cnt1_app. lia.
Qed.

Theorem ranks_pack_bits : forall bs k, k <= length (pack_bits bs) ->
  nthN (ranks_of (pack_bits bs) 0) (N.of_nat k) = N.of_nat (cnt1 (firstn (64 * k) bs)).
Proof.
  intros bs k H. unfold nthN, pack_bits in *. rewrite Nat2N.id, nth_ranks_pack by (try exact H; lia). lia.
Qed.

(* masks *)
Lemma tb_ones : forall n m, N.testbit (N.ones n) m = (m <? n)%N.
Proof.
  intros n m. destruct (N.ltb_spec m n).
  - apply N.ones_spec_low. assumption.
  - apply N.ones_spec_high. assumption.
Qed.

Lemma land_mask_bits : forall l j,
  N.land (bits_to_N l) (N.shiftl 1 (N.of_nat j) - 1) = bits_to_N (firstn j l).
Proof.
  intros l j. rewrite N.shiftl_1_l, N.sub_1_r, <- N.ones_equiv. apply N.bits_inj. intro q.
  rewrite N.land_spec, tb_ones, !testbit_bitsN. destruct (N.ltb_spec q (N.of_nat j)).
  - rewrite nth_firstn' by lia. apply andb_true_r.
  - rewrite andb_false_r. symmetry. apply nth_overflow. rewrite firstn_length. lia.
Qed.

Theorem popcount_mask : forall l j,
  popcount (N.land (bits_to_N l) (N.shiftl 1 (N.of_nat j) - 1)) = N.of_nat (cnt1 (firstn j l)).
Proof. intros. rewrite land_mask_bits. apply popcount_bits. Qed.

Theorem count_zeros_pack : forall bs ranks i,
  (forall k, k <= length (pack_bits bs) ->
     cbl_get ranks (N.of_nat k) = nthN (ranks_of (pack_bits bs) 0) (N.of_nat k)) ->
  i <= length bs ->
  count_zeros (pack_bits bs) ranks (N.of_nat i) = N.of_nat (count_zeros_l bs i).
Proof.
  intros bs ranks i Hr Hi. unfold count_zeros.
  replace (N.of_nat i / 64)%N with (N.of_nat (i / 64)) by lia.
  replace (N.of_nat i mod 64)%N with (N.of_nat (i mod 64)) by lia.
  assert (Hk : i / 64 <= length (pack_bits bs)).
  { unfold pack_bits. rewrite pack_length by lia. lia. }
  rewrite Hr, ranks_pack_bits by exact Hk.
  unfold nthN at 1. rewrite Nat2N.id. unfold pack_bits at 1. rewrite nth_pack by lia.
  rewrite popcount_mask, firstn_firstn.
  replace (Nat.min (i mod 64) 64) with (i mod 64) by lia.
  pose proof (count_zeros_l_cnt1 bs i Hi) as Hz.
  replace i with (64 * (i / 64) + i mod 64) in Hz at 2 by lia.
  rewrite firstn_add', cnt1_app in Hz. lia.
Qed.

(* ================= B. select ================= *)
Lemma select_pos : forall l i pos, select_one_l l i pos = pos + select_one_l l i 0.
Proof.
  induction l as [|b r IH]; intros i pos; cbn [select_one_l]; [lia|].
  destruct b; [destruct i as [|i]; [lia|]|]; rewrite IH, (IH _ 1); lia.
Qed.

Lemma select_app : forall a b i pos,
  select_one_l (a ++ b) i pos =
  if i <? cnt1 a then select_one_l a i pos else select_one_l b (i - cnt1 a) (pos + length a).
Proof.
  induction a as [|x a IH]; intros b i pos.
  - cbn [app cnt1 length]. replace (i <? 0) with false by lia. f_equal; lia.
  - cbn [app select_one_l cnt1 length]. destruct x.
    + destruct i as [|i]; [reflexivity|]. rewrite IH.
      replace (S i <? 1 + cnt1 a) with (i <? cnt1 a) by lia.
      destruct (i <? cnt1 a); [reflexivity | f_equal; lia].
    + rewrite IH. cbn [Nat.add]. destruct (i <? cnt1 a); [reflexivity | f_equal; lia].
Qed.

Lemma select_lt : forall l m pos, m < cnt1 l -> select_one_l l m pos < pos + length l.
Proof.
  induction l as [|b r IH]; intros m pos H; cbn [cnt1 select_one_l length] in *; [lia|].
  destruct b.
  - destruct m as [|m]; [lia|]. specialize (IH m (S pos)). lia.
  - specialize (IH m (S pos)). lia.
Qed.

Lemma select_cnt1 : forall l m, m < cnt1 l -> cnt1 (firstn (select_one_l l m 0) l) = m.
Proof.
  induction l as [|b r IH]; intros m H; cbn [cnt1 select_one_l] in *; [lia|].
  destruct b.
  - destruct m as [|m]; [reflexivity|]. rewrite select_pos. cbn [Nat.add firstn cnt1]. rewrite IH by lia. lia.
  - rewrite select_pos. cbn [Nat.add firstn cnt1]. rewrite IH by lia. lia.
Qed.

Lemma cnt1_firstn_mono : forall l a b, a <= b -> cnt1 (firstn a l) <= cnt1 (firstn b l).
Proof.
  intros l a b H. replace (firstn a l) with (firstn a (firstn b l)).
  - apply cnt1_firstn_le.
  - rewrite firstn_firstn. f_equal. lia.
Qed.

(* leading zeros of a bit list = trailing zeros of the word *)
Fixpoint lz (r : list bool) : nat := match r with false :: r' => S (lz r') | _ => 0 end.

Lemma tz_bits : forall r, bits_to_N r <> 0%N -> tz64 (bits_to_N r) = N.of_nat (lz r).
Proof.
  induction r as [|b r IH]; intros H; [exfalso; apply H; reflexivity|].
  rewrite bits_to_N_cons in *. remember (bits_to_N r) as n eqn:En. destruct b; cbn [N.b2n lz] in *.
  - destruct n; reflexivity.
  - destruct n as [|p]; [exfalso; apply H; reflexivity|].
    change (tz64 (2 * N.pos p + 0)) with (1 + tz64 (N.pos p))%N. rewrite IH by discriminate. lia.
Qed.

Lemma shiftr_bits : forall l k, N.shiftr (bits_to_N l) (N.of_nat k) = bits_to_N (skipn k l).
Proof.
  intros l k. apply N.bits_inj. intro q. rewrite N.shiftr_spec', !testbit_bitsN, nth_skipn'.
  f_equal. lia.
Qed.

Lemma sel_word_zero : forall f x y, sel_word f 0 x y = inr x.
Proof. destruct f; reflexivity. Qed.

Lemma lz_skip_select : forall r i pos, select_one_l r i pos = select_one_l (skipn (lz r) r) i (pos + lz r).
Proof.
  induction r as [|b r IH]; intros i pos.
  - cbn [lz skipn]. f_equal. lia.
  - destruct b; cbn [lz skipn].
    + f_equal. lia.
    + cbn [select_one_l]. rewrite IH. f_equal. lia.
Qed.

Lemma lz_skip_cnt1 : forall r, cnt1 (skipn (lz r) r) = cnt1 r.
Proof. induction r as [|[|] r IH]; cbn [lz skipn cnt1]; [reflexivity | reflexivity | exact IH]. Qed.

Lemma sel_word_spec : forall fuel l find bitIdx, length l < fuel ->
  sel_word fuel (bits_to_N l) (N.of_nat find) bitIdx =
  if find <? cnt1 l then inl (bitIdx + N.of_nat (select_one_l l find 0))%N
  else inr (N.of_nat (find - cnt1 l)).
Proof.
  induction fuel as [|fuel IH]; intros l find bitIdx H; [lia|]. cbn [sel_word].
  destruct (N.eqb_spec (bits_to_N l) 0) as [Z|NZ].
  - rewrite (bits_zero_cnt1 l Z). replace (find <? 0) with false by lia. f_equal. lia.
  - destruct l as [|b r]; [exfalso; apply NZ; reflexivity|].
    assert (Hm : (bits_to_N (b :: r) mod 2 = N.b2n b)%N).
    { rewrite bits_to_N_cons. destruct b; cbn [N.b2n]; lia. }
    assert (Hs1 : N.shiftr (bits_to_N (b :: r)) 1 = bits_to_N r).
    { change 1%N with (N.of_nat 1). rewrite shiftr_bits. reflexivity. }
    rewrite Hm, Hs1.
    destruct ((N.b2n b =? 1) && (N.of_nat find =? 0))%N eqn:C.
    + assert (Hb : b = true /\ find = 0) by (destruct b; cbn [N.b2n] in C; lia).
      destruct Hb; subst. cbn [cnt1 select_one_l]. replace (0 <? 1 + cnt1 r) with true by lia. f_equal. lia.
    + assert (Hb : b = false \/ 1 <= find) by (destruct b; cbn [N.b2n] in C; lia).
      destruct (N.eq_dec (bits_to_N r) 0) as [RZ|RNZ].
      * assert (b = true). { destruct b; [reflexivity|]. exfalso. apply NZ. rewrite bits_to_N_cons, RZ. reflexivity. }
        subst b. rewrite bits_to_N_cons, RZ. cbn [tz64].
        change (N.shiftr (2 * 0 + N.b2n true) (64 + 1)) with 0%N. rewrite sel_word_zero.
        cbn [cnt1]. rewrite (bits_zero_cnt1 r RZ).
        replace (find <? 1 + 0) with false by lia. f_equal. cbn [N.b2n]. lia.
      * rewrite tz_bits by exact RNZ.
        replace (N.of_nat (lz r) + 1)%N with (N.of_nat (S (lz r))) by lia.
        rewrite shiftr_bits, skipn_cons.
        replace (N.of_nat find - N.b2n b)%N with (N.of_nat (find - (if b then 1 else 0)))
          by (destruct b; cbn [N.b2n]; lia).
        rewrite IH by (rewrite skipn_length; cbn [length] in H; lia).
        rewrite lz_skip_cnt1. cbn [cnt1 select_one_l].
        destruct b.
        -- destruct find as [|find]; [lia|].
           replace (S find - 1) with find by lia.
           replace (S find <? 1 + cnt1 r) with (find <? cnt1 r) by lia.
           destruct (find <? cnt1 r); [|f_equal; lia].
           rewrite (lz_skip_select r find 1), (select_pos _ find (1 + lz r)). f_equal. lia.
        -- replace (find - 0) with find by lia. cbn [Nat.add].
           destruct (find <? cnt1 r); [|f_equal; lia].
           rewrite (lz_skip_select r find 1), (select_pos _ find (1 + lz r)). f_equal. lia.
Qed.

Lemma sel_words_spec : forall f bs i0 find, length bs <= f -> find < cnt1 bs ->
  sel_words (pack f bs) i0 (N.of_nat find) = Some (i0 * 64 + N.of_nat (select_one_l bs find 0))%N.
Proof.
  induction f as [|f IH]; intros bs i0 find H Hf.
  - destruct bs; cbn [cnt1 length] in *; lia.
  - destruct bs as [|b r]; [cbn [cnt1] in Hf; lia|]. rewrite pack_cons.
    pose proof (skipn64_length b r f H) as H'.
    pose proof (select_app (firstn 64 (b :: r)) (skipn 64 (b :: r)) find 0) as SA.
    pose proof (cnt1_split (b :: r) 64) as CS.
    pose proof (firstn_length 64 (b :: r)) as FL.
    pose proof (skipn_length 64 (b :: r)) as SL.
    rewrite firstn_skipn in SA.
    set (bs := b :: r) in *. set (l1 := firstn 64 bs) in *. set (l2 := skipn 64 bs) in *.
    cbn [sel_words]. rewrite sel_word_spec by lia. rewrite SA.
    destruct (Nat.ltb_spec find (cnt1 l1)) as [L|L].
    + f_equal; lia.
    + rewrite IH by (try exact H'; lia).
      pose proof (cnt1_le_length l2).
      rewrite (select_pos l2 _ (0 + length l1)). f_equal. lia.
Qed.

(* select samples: entry j = position of the (64 j)-th one *)
Lemma nth_selects_of : forall bs i n j,
  N.to_nat ((64 - n mod 64) mod 64) + 64 * j < cnt1 bs ->
  nth j (selects_of bs i n) 0%N
  = (i + N.of_nat (select_one_l bs (N.to_nat ((64 - n mod 64) mod 64) + 64 * j) 0))%N.
Proof.
  induction bs as [|b r IH]; intros i n j H; [cbn [cnt1] in H; lia|].
  cbn [selects_of]. destruct b; cbn [cnt1] in H.
  - set (off := N.to_nat ((64 - n mod 64) mod 64)) in *.
    pose proof (IH (i + 1)%N (n + 1)%N) as IH'.
    set (off' := N.to_nat ((64 - (n + 1) mod 64) mod 64)) in *.
    destruct (N.eqb_spec (n mod 64) 0) as [E|E].
    + assert (off = 0) by lia. assert (off' = 63) by lia. destruct j as [|j].
      * cbn [app nth]. replace (off + 64 * 0) with 0 by lia. cbn [select_one_l]. lia.
      * cbn [app nth]. rewrite IH' by lia.
        replace (off + 64 * S j) with (S (off' + 64 * j)) by lia. cbn [select_one_l].
        rewrite (select_pos r _ 1). lia.
    + assert (off = S off') by lia. cbn [app]. rewrite IH' by lia.
      replace (off + 64 * j) with (S (off' + 64 * j)) by lia. cbn [select_one_l].
      rewrite (select_pos r _ 1). lia.
  - rewrite IH by exact H. cbn [select_one_l]. rewrite (select_pos r _ 1). lia.
Qed.

Theorem selects_of_spec : forall bs j, 64 * j < cnt1 bs ->
  nthN (selects_of bs 0 0) (N.of_nat j) = N.of_nat (select_one_l bs (64 * j) 0).
Proof.
  intros bs j H. unfold nthN. rewrite Nat2N.id.
  pose proof (nth_selects_of bs 0%N 0%N j) as P.
  change (N.to_nat ((64 - 0 mod 64) mod 64)) with 0 in P. cbn [Nat.add] in P. rewrite P by exact H. lia.
Qed.

Theorem select_ith_one_pack : forall bs ranks selects i,
  (forall k, k <= length (pack_bits bs) ->
     cbl_get ranks (N.of_nat k) = nthN (ranks_of (pack_bits bs) 0) (N.of_nat k)) ->
  (forall j, 64 * j < cnt1 bs ->
     cbl_get selects (N.of_nat j) = nthN (selects_of bs 0 0) (N.of_nat j)) ->
  i < cnt1 bs ->
  select_ith_one (pack_bits bs) ranks selects (N.of_nat i) = Some (N.of_nat (select_one_l bs i 0)).
Proof.
  intros bs ranks selects i Hr Hs Hi. unfold select_ith_one.
  replace (N.of_nat i / 64)%N with (N.of_nat (i / 64)) by lia.
  assert (Hj : 64 * (i / 64) < cnt1 bs) by lia.
  rewrite Hs, selects_of_spec by exact Hj.
  set (p := select_one_l bs (64 * (i / 64)) 0).
  pose proof (select_lt bs _ 0 Hj) as Hp. fold p in Hp.
  pose proof (select_cnt1 bs _ Hj) as Hc. fold p in Hc.
  set (k := p / 64).
  replace (N.of_nat p / 64 * 64 / 64)%N with (N.of_nat k) by lia.
  assert (Hk : k <= length (pack_bits bs)).
  { unfold pack_bits. rewrite pack_length by lia. lia. }
  rewrite Hr, ranks_pack_bits by exact Hk. rewrite Nat2N.id.
  pose proof (cnt1_firstn_mono bs (64 * k) p ltac:(lia)) as Hmono.
  set (c := cnt1 (firstn (64 * k) bs)) in *.
  replace (N.of_nat i - N.of_nat c)%N with (N.of_nat (i - c)) by lia.
  unfold pack_bits. rewrite skipn_pack by lia.
  pose proof (cnt1_split bs (64 * k)) as CS. fold c in CS.
  rewrite sel_words_spec by (try rewrite skipn_length; lia).
  pose proof (select_app (firstn (64 * k) bs) (skipn (64 * k) bs) i 0) as SA.
  rewrite firstn_skipn in SA. fold c in SA. rewrite SA.
  replace (i <? c) with false by lia.
  rewrite firstn_length_le by lia. rewrite (select_pos _ _ (0 + 64 * k)). f_equal. lia.
Qed.

(* ================= C (part outside the section). CompactBitList of unit width 0; widths ================= *)
Lemma cbl_get_unit0 : forall m i, c_unit m = 0%N -> c_buf m = [] -> cbl_get m i = 0%N.
Proof.
  intros [u b n] i Hu Hb. cbn [c_unit c_buf] in *. subst. unfold cbl_get. cbn [c_unit c_buf length].
  rewrite !N.mul_0_r. reflexivity.
Qed.

Lemma cbl_set_unit0 : forall m i v m', c_unit m = 0%N -> c_buf m = [] -> cbl_set m i v = Some m' ->
  c_unit m' = 0%N /\ c_buf m' = [].
Proof.
  intros [u b n] i v m' Hu Hb H. cbn [c_unit c_buf] in *. subst. unfold cbl_set in H. cbn [c_unit c_buf c_num] in H.
  destruct (0 <? N.size v)%N; [discriminate|]. inversion H; subst; clear H. cbn [c_unit c_buf]. split; [reflexivity|].
  unfold cbl_grow. cbn [length]. rewrite !N.mul_0_r. reflexivity.
Qed.

Lemma cbl_of_list_unit0_inv : forall vs m, c_unit m = 0%N -> c_buf m = [] ->
  let m' := fold_left (fun m v => match cbl_append m v with Some m' => m' | None => m end) vs m in
  c_unit m' = 0%N /\ c_buf m' = [].
Proof.
  induction vs as [|v vs IH]; intros m Hu Hb; cbn [fold_left]; [split; assumption|].
  destruct (cbl_append m v) as [m1|] eqn:E.
  - destruct (cbl_set_unit0 m _ v m1 Hu Hb E). apply IH; assumption.
  - apply IH; assumption.
Qed.

Theorem cbl_of_list_unit0 : forall vs k, cbl_get (cbl_of_list 0 vs) k = 0%N.
Proof.
  intros vs k. destruct (cbl_of_list_unit0_inv vs (cbl_new 0) eq_refl eq_refl) as [Hu Hb].
  apply cbl_get_unit0; assumption.
Qed.

Lemma size_le_of_lt : forall v u, (v < 2 ^ u)%N -> (N.size v <= u)%N.
Proof.
  intros v u H. destruct (N.eq_dec v 0) as [->|NZ]; [cbn; lia|].
  rewrite N.size_log2 by exact NZ. apply N.le_succ_l. apply N.log2_lt_pow2; [lia | exact H].
Qed.

Lemma Forall_nth' : forall (A : Type) (P : A -> Prop) l k d, Forall P l -> k < length l -> P (nth k l d).
Proof.
  intros A P l k d H Hk. rewrite Forall_forall in H. apply H. apply nth_In. exact Hk.
Qed.

(* every rank sample is at most the last one *)
Lemma ranks_of_last : forall ws acc,
  Forall (fun v => (v <= last (ranks_of ws acc) 0)%N) (ranks_of ws acc) /\ (acc <= last (ranks_of ws acc) 0)%N.
Proof.
  induction ws as [|w ws IH]; intros acc.
  - cbn [ranks_of last]. split; [constructor; [lia | constructor] | lia].
  - destruct (IH (acc + popcount w)%N) as [F A].
    assert (E : last (ranks_of (w :: ws) acc) 0%N = last (ranks_of ws (acc + popcount w)) 0%N).
    { cbn [ranks_of]. destruct ws; reflexivity. }
    rewrite E. split; [|lia]. cbn [ranks_of]. constructor; [lia | exact F].
Qed.

Lemma ranks_of_length : forall ws acc, length (ranks_of ws acc) = S (length ws).
Proof. induction ws as [|w ws IH]; intros acc; cbn [ranks_of length]; [reflexivity|]. rewrite IH. reflexivity. Qed.

Lemma last_nth : forall (l : list N) d, last l d = nth (length l - 1) l d.
Proof.
  induction l as [|x l IH]; intros d; [reflexivity|]. destruct l as [|y l]; [reflexivity|].
  change (last (x :: y :: l) d) with (last (y :: l) d). rewrite IH. cbn [length]. 
  replace (S (S (length l)) - 1) with (S (length l)) by lia.
  replace (S (length l) - 1) with (length l) by lia. reflexivity.
Qed.

Lemma ranks_last_pack : forall bs, last (ranks_of (pack_bits bs) 0) 0%N = N.of_nat (cnt1 bs).
Proof.
  intros bs. rewrite last_nth, ranks_of_length. replace (S (length (pack_bits bs)) - 1) with (length (pack_bits bs)) by lia.
  pose proof (ranks_pack_bits bs (length (pack_bits bs)) (le_n _)) as P. unfold nthN in P. rewrite Nat2N.id in P.
  rewrite P. f_equal. rewrite firstn_all2; [reflexivity|]. unfold pack_bits. rewrite pack_length by lia. lia.
Qed.

(* every select sample is at most the last one, and is a position *)
Lemma selects_of_bounds : forall bs i n,
  Forall (fun v => (i <= v < i + N.of_nat (length bs))%N) (selects_of bs i n).
Proof.
  induction bs as [|b r IH]; intros i n; cbn [selects_of]; [constructor|].
  assert (F : forall n', Forall (fun v => (i <= v < i + N.of_nat (length (b :: r)))%N) (selects_of r (i + 1) n')).
  { intro n'. eapply Forall_impl; [|apply IH]. cbn [length]. intros v Hv. cbv beta in *. lia. }
  destruct b; [|apply F]. apply Forall_app. split; [|apply F].
  destruct (n mod 64 =? 0)%N; constructor; [cbn [length]; lia | constructor].
Qed.

Lemma selects_of_last : forall bs i n,
  Forall (fun v => (v <= last (selects_of bs i n) i)%N) (selects_of bs i n) /\ (i <= last (selects_of bs i n) i)%N.
Proof.
  induction bs as [|b r IH]; intros i n; cbn [selects_of]; [split; [constructor | cbn [last]; lia]|].
  assert (D : forall l : list N, forall d d', l <> [] -> last l d = last l d').
  { induction l as [|x l IHl]; intros d d' H; [congruence|]. destruct l as [|y l]; [reflexivity|].
    change (last (x :: y :: l) d) with (last (y :: l) d). change (last (x :: y :: l) d') with (last (y :: l) d').
    apply IHl. discriminate. }
  assert (G : forall n', Forall (fun v => (v <= last (selects_of r (i + 1) n') i)%N) (selects_of r (i + 1) n')
                         /\ (i <= last (selects_of r (i + 1) n') i)%N).
  { intro n'. destruct (IH (i + 1)%N n') as [F A]. destruct (selects_of r (i + 1) n') as [|x l] eqn:E.
    - split; [constructor | cbn [last]; lia].
    - rewrite (D (x :: l) i (i + 1)%N) by discriminate. split; [exact F | lia]. }
  destruct b; [|apply G]. destruct (n mod 64 =? 0)%N; [|apply G]. cbn [app].
  destruct (G (n + 1)%N) as [F A].
  assert (E : last (i :: selects_of r (i + 1) (n + 1)) i = last (selects_of r (i + 1) (n + 1)) i).
  { destruct (selects_of r (i + 1) (n + 1)); reflexivity. }
  rewrite E. split; [|exact A]. constructor; [exact A | exact F].
Qed.

Lemma selects_of_length : forall bs i n,
  length (selects_of bs i n) = (N.to_nat (n mod 64) + cnt1 bs + 63) / 64 - (N.to_nat (n mod 64) + 63) / 64.
Proof.
  induction bs as [|b r IH]; intros i n; cbn [selects_of cnt1]; [cbn [length]; lia|].
  destruct b; [|rewrite IH; f_equal]. rewrite app_length, IH.
  destruct (N.eqb_spec (n mod 64) 0) as [E|E]; cbn [length]; lia.
Qed.

(* ================= C. the list view of cbl_of_list, from the get/set law ================= *)
Definition cbl_step (m : cbl) (v : N) : cbl := match cbl_append m v with Some m' => m' | None => m end.

(* ================= D (part outside the section). structure of the arrays of NewTrie ================= *)
Lemma vc_table_aux_bound : forall chars n c acc,
  (vc_table_aux chars n c acc <= N.max acc (n + N.of_nat (length chars)))%N /\
  ((acc < 256)%N -> (vc_table_aux chars n c acc < 256)%N).
Proof.
  induction chars as [|x r IH]; intros n c acc; cbn [vc_table_aux length]; [split; lia|].
  destruct (IH (n + 1)%N c (if (x =? c)%N then (n mod 256)%N else acc)) as [B1 B2].
  destruct (x =? c)%N; split; intros; try apply B2; lia.
Qed.

Lemma vc_table_lt_256 : forall chars c, (vc_table chars c < 256)%N.
Proof. intros. unfold vc_table. apply vc_table_aux_bound. lia. Qed.

Lemma vc_table_le_size : forall chars c, (vc_table chars c <= vc_size chars)%N.
Proof. intros. unfold vc_table, vc_size. pose proof (proj1 (vc_table_aux_bound chars 0 c 0)). lia. Qed.

Lemma labels_forall : forall (P : N -> Prop) chars nodes, (forall c, P (vc_table chars c)) ->
  Forall P (l_labels (louds_of_nodes chars nodes)).
Proof.
  intros P chars nodes H. cbn [louds_of_nodes l_labels]. rewrite Forall_forall. intros x Hx.
  apply in_flat_map in Hx as [g [_ Hx]]. apply in_map_iff in Hx as [k [<- _]]. apply H.
Qed.

Lemma cnt1_repeat_false : forall d, cnt1 (repeat false d) = 0.
Proof. induction d as [|d IH]; cbn [repeat cnt1]; [reflexivity | exact IH]. Qed.

Lemma cnt1_lbm_of : forall nodes, cnt1 (lbm_of nodes) = length nodes.
Proof.
  induction nodes as [|g r IH]; [reflexivity|].
  change (lbm_of (g :: r)) with ((repeat false (length (kids g)) ++ [true]) ++ lbm_of r).
  rewrite !cnt1_app, cnt1_repeat_false, IH. cbn [cnt1 length]. lia.
Qed.

(* every node has at most |chars| + 1 children: the labels of the children are distinct valid characters *)
Lemma valid_in : forall chars c, vc_valid chars c = true -> In c (0%N :: chars).
Proof.
  intros chars c H. unfold vc_valid in H. apply orb_true_iff in H as [H|H].
  - destruct (In_dec N.eq_dec c chars) as [I|I]; [right; exact I|].
    unfold vc_table in H. rewrite vc_table_aux_notin in H by exact I. discriminate.
  - apply N.eqb_eq in H. subst c. unfold vc_zero. destruct chars as [|x r]; cbn [hd]; [left; reflexivity | right; left; reflexivity].
Qed.

Lemma sorted_labels_nodup : forall ks, StronglySorted label_lt ks -> NoDup (map fst ks).
Proof.
  induction ks as [|k ks IH]; intros H; [constructor|]. inversion H as [|? ? SS F]; subst. cbn [map]. constructor.
  - intros I. apply in_map_iff in I as [k' [E Hk']]. rewrite Forall_forall in F. specialize (F k' Hk').
    unfold label_lt in F. lia.
  - apply IH. exact SS.
Qed.

Lemma kids_bound : forall chars g, ok g -> node_valid chars g -> length (kids g) <= S (length chars).
Proof.
  intros chars g Hok Hv. destruct (ok_leaf g Hok) as [Hd [Hne _]].
  destruct (groups_inv (drop_leaf g) Hd Hne) as [SS _]. fold (kids g) in SS.
  pose proof (kids_valid chars g Hv) as K.
  rewrite <- (map_length fst (kids g)). change (S (length chars)) with (length (0%N :: chars)).
  apply NoDup_incl_length; [apply sorted_labels_nodup; exact SS|].
  intros c Hc. apply in_map_iff in Hc as [k [<- Hk]]. rewrite Forall_forall in K.
  destruct (K k Hk) as [Hc _]. apply valid_in. exact Hc.
Qed.

Lemma next_ok : forall l, Forall ok l -> Forall ok (next l).
Proof.
  induction l as [|g l IH]; intros H; [constructor|]. inversion H as [|? ? Hg Hl]; subst.
  unfold next. cbn [flat_map]. apply Forall_app. split; [|apply IH; exact Hl].
  destruct (ok_leaf g Hg) as [Hd [Hne _]]. destruct (groups_inv (drop_leaf g) Hd Hne) as [_ [O _]].
  unfold ch, kids. apply Forall_map. exact O.
Qed.

Lemma bfs_ok : forall f l, Forall ok l -> Forall ok (bfs f l).
Proof.
  induction f as [|f IH]; intros l H; [constructor|]. cbn [bfs].
  destruct l as [|g l']; [constructor|]. apply Forall_app. split; [exact H|].
  apply IH. apply (next_ok _ H).
Qed.

Lemma bfs_nodes_ok : forall keys, Forall ok (bfs_nodes keys).
Proof.
  intros keys. unfold bfs_nodes. cbv zeta. apply bfs_ok. constructor; [apply sort_uniq_ok | constructor].
Qed.

Theorem bfs_nodes_degree : forall chars keys, length chars <= 256 -> keys_valid chars keys = true ->
  Forall (fun g => length (kids g) < 300) (bfs_nodes keys).
Proof.
  intros chars keys Hlen Hv. pose proof (bfs_nodes_ok keys) as O. pose proof (keys_valid_nodes chars keys Hv) as V.
  rewrite Forall_forall in *. intros g Hg. pose proof (kids_bound chars g (O g Hg) (V g Hg)). lia.
Qed.

(* ---------- the label scan ---------- *)
(* what the packed structure has to provide: the two bitmaps are the packed lists, and the three integer arrays
   read like the plain lists wherever the navigation reads them *)
Definition views (L : louds) (t : ptrie) : Prop :=
  p_leaves t = pack_bits (l_leaves L) /\
  p_lbm t = pack_bits (l_lbm L) /\
  (forall k, k < length (l_labels L) -> cbl_get (p_labels t) (N.of_nat k) = nth k (l_labels L) 0%N) /\
  (forall k, k <= length (pack_bits (l_lbm L)) ->
     cbl_get (p_ranks t) (N.of_nat k) = nthN (ranks_of (pack_bits (l_lbm L)) 0) (N.of_nat k)) /\
  (forall j, 64 * j < cnt1 (l_lbm L) ->
     cbl_get (p_selects t) (N.of_nat j) = nthN (selects_of (l_lbm L) 0 0) (N.of_nat j)).

(* from b on, up to and including the first set bit, the scan stays inside the bitmap and reads labels that exist *)
Definition scan_ok (L : louds) (n b : nat) : Prop :=
  forall j, b <= j -> (forall j', b <= j' < j -> nth j' (l_lbm L) true = false) ->
    j < length (l_lbm L) /\ (nth j (l_lbm L) true = false -> j - n < length (l_labels L)).

Lemma p_scan_l_scan : forall L t tc n, views L t -> Forall (fun x => (x < 256)%N) (l_labels L) ->
  forall fuel b, scan_ok L n b ->
  p_scan fuel t (N.of_nat n) (N.of_nat b) tc = option_map N.of_nat (l_scan fuel L n b tc).
Proof.
  intros L t tc n (_ & Vlbm & Vlab & _) H256. induction fuel as [|fuel IH]; intros b OK; [reflexivity|].
  cbn [p_scan l_scan]. destruct (OK b (le_n _)) as [Hlt Hlab]; [intros; lia|].
  rewrite Vlbm, get_bit_pack. rewrite (nth_indep _ false true Hlt).
  destruct (nth b (l_lbm L) true) eqn:Eb; [reflexivity|]. specialize (Hlab eq_refl).
  replace (N.of_nat b - N.of_nat n)%N with (N.of_nat (b - n)) by lia. rewrite Vlab by exact Hlab.
  rewrite N.mod_small by (apply Forall_nth'; assumption).
  destruct (nth (b - n) (l_labels L) 0 =? tc)%N; [reflexivity|].
  replace (N.of_nat b + 1)%N with (N.of_nat (S b)) by lia. apply IH.
  intros j Hj Hz. apply OK; [lia|]. intros j' Hj'. destruct (Nat.eq_dec j' b) as [->|]; [exact Eb | apply Hz; lia].
Qed.

Lemma scan_ok_node : forall L n A d B LA labs LB,
  l_lbm L = A ++ repeat false d ++ true :: B -> l_labels L = LA ++ labs ++ LB ->
  length labs = d -> length A = n + length LA -> scan_ok L n (length A).
Proof.
  intros L n A d B LA labs LB Hb Hl Hd HA j Hj Hz.
  assert (Hone : nth (length A + d) (l_lbm L) true = true).
  { rewrite Hb, app_assoc. apply nth_mid. rewrite app_length, repeat_length. reflexivity. }
  assert (Hjd : j <= length A + d).
  { destruct (le_lt_dec j (length A + d)) as [|Hgt]; [assumption|]. rewrite Hz in Hone by lia. discriminate. }
  split.
  - rewrite Hb, !app_length, repeat_length. cbn [length]. lia.
  - intros Hf. assert (j <> length A + d) by (intros ->; congruence).
    rewrite Hl, !app_length. lia.
Qed.

(* ---------- navigating the packed arrays = navigating the logical arrays ---------- *)
Section Assembly.
  Variable chars : list N.
  Variable nodes : list node.
  Variable root : node.
  Variable t : ptrie.
  Hypothesis Hfix : nodes = root :: next nodes.
  Hypothesis Hdeg : Forall (fun g => length (kids g) < 300) nodes.

  Let lab (k : N * node) : N := vc_table chars (fst k).
  Let L := louds_of_nodes chars nodes.
  Hypothesis HV : views L t.

  Lemma packed_invariant : forall w pre g post, nodes = pre ++ g :: post ->
    p_has_from chars t w (N.of_nat (length pre)) (N.of_nat (length (lbm_of pre)))
    = l_has_from chars L w (length pre) (length (lbm_of pre)).
  Proof.
    pose proof HV as HV'. destruct HV' as (Vleaves & Vlbm & Vlab & Vrk & Vsel).
    assert (H256 : Forall (fun x => (x < 256)%N) (l_labels L)) by (apply labels_forall; apply vc_table_lt_256).
    induction w as [|c w IH]; intros pre g post H.
    - cbn [p_has_from l_has_from]. rewrite Vleaves, get_bit_pack. reflexivity.
    - rewrite l_has_from_cons. cbn [p_has_from]. rewrite Vleaves, get_bit_pack.
      destruct (nth (length pre) (l_leaves L) false); [reflexivity|].
      destruct (negb (vc_valid chars c)); [reflexivity|].
      assert (Hlbm : l_lbm L = lbm_of pre ++ repeat false (length (kids g)) ++ true :: lbm_of post).
      { change (l_lbm L) with (lbm_of nodes). rewrite H at 1. rewrite lbm_of_app.
        change (lbm_of (g :: post)) with ((repeat false (length (kids g)) ++ [true]) ++ lbm_of post).
        now rewrite <- app_assoc. }
      assert (Hlabs : l_labels L = lab_of lab pre ++ map lab (kids g) ++ lab_of lab post).
      { change (l_labels L) with (lab_of lab nodes). rewrite H at 1. rewrite lab_of_app. reflexivity. }
      assert (HlenA : length (lbm_of pre) = length pre + length (lab_of lab pre)).
      { rewrite lbm_of_length, lab_of_length. reflexivity. }
      assert (Hrest : length (kids g) < length (l_lbm L)).
      { change (l_lbm L) with (lbm_of nodes). rewrite lbm_of_length. rewrite H at 2. rewrite next_split.
        rewrite H, !app_length. unfold ch. rewrite map_length. cbn [length]. lia. }
      assert (Hdg : length (kids g) < 300).
      { rewrite Forall_forall in Hdeg. apply Hdeg. rewrite H. apply in_or_app. right. now left. }
      pose proof (scan_from lab L (length pre) (vc_table chars c) (lbm_of pre) (lbm_of post)
                    (lab_of lab pre) (lab_of lab post) (kids g) [] (length (l_lbm L))) as S1.
      pose proof (scan_from lab L (length pre) (vc_table chars c) (lbm_of pre) (lbm_of post)
                    (lab_of lab pre) (lab_of lab post) (kids g) [] 300) as S2.
      cbn [length app Nat.add] in S1, S2. rewrite Nat.add_0_r in S1, S2.
      specialize (S1 Hlbm Hlabs HlenA Hrest). specialize (S2 Hlbm Hlabs HlenA Hdg).
      rewrite (p_scan_l_scan L t (vc_table chars c) (length pre) HV H256 300 (length (lbm_of pre))).
      2: { apply (scan_ok_node L (length pre) (lbm_of pre) (length (kids g)) (lbm_of post)
                    (lab_of lab pre) (map lab (kids g)) (lab_of lab post) Hlbm Hlabs);
           [apply map_length | exact HlenA]. }
      rewrite S2, S1.
      destruct (fidx (fun k => (lab k =? vc_table chars c)%N) (kids g)) as [i|] eqn:Ei; cbn [option_map]; [|reflexivity].
      pose proof (fidx_lt _ _ _ _ Ei) as Hi.
      set (bm := length (lbm_of pre) + i).
      replace (N.of_nat bm + 1)%N with (N.of_nat (S bm)) by lia.
      assert (Hbm : S bm <= length (l_lbm L)).
      { rewrite Hlbm, !app_length, repeat_length. cbn [length]. lia. }
      rewrite Vlbm. rewrite (count_zeros_pack _ _ _ Vrk Hbm).
      assert (Hcz : count_zeros_l (l_lbm L) (S bm) = length (next pre) + S i)
        by (rewrite Hlbm; apply count_zeros_edge; exact Hi).
      rewrite !Hcz.
      replace (N.of_nat (length (next pre) + S i) - 1)%N with (N.of_nat (length (next pre) + i)) by lia.
      replace (length (next pre) + S i - 1) with (length (next pre) + i) by lia.
      destruct (nth_error (ch g) i) as [h|] eqn:Eh.
      2: { apply nth_error_None in Eh. unfold ch in Eh. rewrite map_length in Eh. lia. }
      pose proof (child_index nodes root Hfix pre g post i h H Eh) as Hn.
      assert (Hm : length (next pre) + i < length nodes).
      { assert (S (length (next pre) + i) < length nodes) by (apply nth_error_Some; congruence). lia. }
      assert (Hm' : length (next pre) + i < cnt1 (l_lbm L)).
      { change (l_lbm L) with (lbm_of nodes). rewrite cnt1_lbm_of. exact Hm. }
      rewrite (select_ith_one_pack _ _ _ _ Vrk Vsel Hm').
      replace (N.of_nat (select_one_l (l_lbm L) (length (next pre) + i) 0) + 1)%N
        with (N.of_nat (S (select_one_l (l_lbm L) (length (next pre) + i) 0))) by lia.
      change (l_lbm L) with (lbm_of nodes). rewrite (select_close nodes _ 0 Hm). cbn [Nat.add].
      destruct (nth_error_split _ _ Hn) as [pre' [post' [Hsplit Hlen]]].
      assert (Hfirst : firstn (S (length (next pre) + i)) nodes = pre').
      { rewrite Hsplit, <- Hlen. replace (length pre') with (length pre' + 0) by lia.
        rewrite firstn_app_2. cbn [firstn]. apply app_nil_r. }
      rewrite Hfirst. replace (length (next pre) + S i) with (length pre') by lia.
      apply (IH pre' h post' Hsplit).
  Qed.

  Theorem packed_root : forall w, p_has chars t w = l_has chars L w.
  Proof.
    intros w. unfold p_has, l_has. apply (packed_invariant w [] root (next nodes)). exact Hfix.
  Qed.
End Assembly.

(* ================= the part that rests on the CompactBitList get/set law ================= *)
Lemma cbl_set_fields : forall m i v m', cbl_set m i v = Some m' ->
  c_unit m' = c_unit m /\ c_num m' = N.max (c_num m) (i + 1).
Proof.
  intros m i v m' E. unfold cbl_set in E. destruct (c_unit m <? N.size v)%N; [discriminate|].
  set (bb := set_loop 6 _ _ _ _ _) in E. clearbody bb. injection E as E'. rewrite <- E'. split; reflexivity.
Qed.

Lemma cbl_set_some : forall m i v, (v < 2 ^ c_unit m)%N -> cbl_set m i v <> None.
Proof.
  intros m i v Hv E. unfold cbl_set in E. pose proof (size_le_of_lt v _ Hv).
  replace (c_unit m <? N.size v)%N with false in E by lia. discriminate.
Qed.

(* The law is taken in its iterable form (an invariant [inv] of the lists that NewCompactBitList/Set produce);
   C11_BitlistProofs.v proves exactly these two statements for [inv := cbl_inv]; see the instantiation below. *)
Section Packed.
  Variable inv : cbl -> Prop.
  Hypothesis inv_new : forall u, (1 <= u <= 64)%N -> inv (cbl_new u).
  Hypothesis inv_set : forall m i v m', inv m -> cbl_set m i v = Some m' ->
    inv m' /\ cbl_get m' i = v /\ forall j, j <> i -> cbl_get m' j = cbl_get m j.

  Definition cbl_repr (u : N) (m : cbl) (vs : list N) : Prop :=
    c_unit m = u /\ inv m /\ c_num m = N.of_nat (length vs) /\
    forall k, k < length vs -> cbl_get m (N.of_nat k) = nth k vs 0%N.

  (* C. appending keeps the list view *)
  Lemma cbl_step_repr : forall u m done v, (v < 2 ^ u)%N ->
    cbl_repr u m done -> cbl_repr u (cbl_step m v) (done ++ [v]).
  Proof.
    intros u m done v Hv (Eu & I & En & Hget). unfold cbl_step, cbl_append.
    destruct (cbl_set m (c_num m) v) as [m'|] eqn:E.
    - destruct (inv_set m (c_num m) v m' I E) as (I' & G1 & G2).
      destruct (cbl_set_fields m (c_num m) v m' E) as (Eu' & En').
      split; [congruence|]. split; [exact I'|]. split; [rewrite app_length; cbn [length]; lia|].
      intros k Hk. rewrite app_length in Hk. cbn [length] in Hk.
      destruct (Nat.eq_dec k (length done)) as [->|Nk].
      + rewrite <- En, G1. rewrite nth_middle. reflexivity.
      + rewrite G2 by lia. rewrite Hget by lia. rewrite app_nth1 by lia. reflexivity.
    - exfalso. apply (cbl_set_some m (c_num m) v); [rewrite Eu; exact Hv | exact E].
  Qed.

  Lemma cbl_fold_repr : forall u vs m done, Forall (fun v => (v < 2 ^ u)%N) vs ->
    cbl_repr u m done -> cbl_repr u (fold_left cbl_step vs m) (done ++ vs).
  Proof.
    intros u. induction vs as [|v vs IH]; intros m done Hvs R; cbn [fold_left].
    - rewrite app_nil_r. exact R.
    - inversion Hvs; subst. replace (done ++ v :: vs) with ((done ++ [v]) ++ vs) by (rewrite <- app_assoc; reflexivity).
      apply IH; try assumption. apply cbl_step_repr; assumption.
  Qed.

  Theorem cbl_of_list_get : forall u vs k, (1 <= u <= 64)%N -> Forall (fun v => (v < 2 ^ u)%N) vs ->
    k < length vs -> cbl_get (cbl_of_list u vs) (N.of_nat k) = nth k vs 0%N.
  Proof.
    intros u vs k Hu Hvs Hk.
    assert (R0 : cbl_repr u (cbl_new u) []).
    { split; [reflexivity|]. split; [apply inv_new; exact Hu|]. split; [reflexivity|]. intros k' Hk'. cbn [length] in Hk'. lia. }
    destruct (cbl_fold_repr u vs (cbl_new u) [] Hvs R0) as (_ & _ & _ & G). apply G. exact Hk.
  Qed.

  (* the same including unit width 0, which arises exactly when every entry is 0 *)
  Theorem cbl_of_list_get0 : forall u vs k, (u <= 64)%N -> Forall (fun v => (v < 2 ^ u)%N) vs ->
    k < length vs -> cbl_get (cbl_of_list u vs) (N.of_nat k) = nth k vs 0%N.
  Proof.
    intros u vs k Hu Hvs Hk. destruct (N.eq_dec u 0) as [->|NZ].
    - rewrite cbl_of_list_unit0. pose proof (Forall_nth' _ _ vs k 0%N Hvs Hk) as P. cbv beta in P. cbn in P. lia.
    - apply cbl_of_list_get; try assumption. lia.
  Qed.

  (* D. the arrays built by pack_louds *)
  Lemma pack_louds_views : forall chars L, length chars <= 256 ->
    (forall c, In c (l_labels L) -> (c <= vc_size chars)%N) ->
    (N.of_nat (length (l_lbm L)) < 2 ^ 64)%N ->
    views L (pack_louds chars L).
  Proof.
    intros chars L Hlen Hlabs Hsize. unfold views, pack_louds. cbn [p_leaves p_lbm p_labels p_ranks p_selects].
    split; [reflexivity|]. split; [reflexivity|]. split; [|split].
    - intros k Hk. apply cbl_of_list_get0; [| |exact Hk].
      + apply size_le_of_lt. unfold vc_size. change (2 ^ 64)%N with 18446744073709551616%N. lia.
      + rewrite Forall_forall. intros c Hc. specialize (Hlabs c Hc).
        pose proof (N.size_gt (vc_size chars)). lia.
    - intros k Hk. unfold nthN. rewrite Nat2N.id.
      pose proof (ranks_last_pack (l_lbm L)) as EL. pose proof (cnt1_le_length (l_lbm L)) as CL.
      apply cbl_of_list_get0.
      + apply size_le_of_lt. rewrite EL. lia.
      + destruct (ranks_of_last (pack_bits (l_lbm L)) 0) as [F _].
        eapply Forall_impl; [|exact F]. intros v Hv. cbv beta in Hv.
        pose proof (N.size_gt (last (ranks_of (pack_bits (l_lbm L)) 0) 0%N)). lia.
      + rewrite ranks_of_length. lia.
    - intros j Hj. unfold nthN. rewrite Nat2N.id.
      destruct (selects_of_last (l_lbm L) 0 0) as [F _].
      pose proof (selects_of_bounds (l_lbm L) 0 0) as B.
      assert (Hjl : j < length (selects_of (l_lbm L) 0 0)).
      { rewrite selects_of_length. change (N.to_nat (0 mod 64)) with 0. cbn [Nat.add]. lia. }
      assert (Hlast : (last (selects_of (l_lbm L) 0 0) 0 < 2 ^ 64)%N).
      { destruct (selects_of (l_lbm L) 0 0) as [|x l] eqn:E; [cbn [length] in Hjl; lia|].
        assert (I : In (last (x :: l) 0%N) (x :: l)).
        { rewrite last_nth. apply nth_In. cbn [length]. lia. }
        rewrite Forall_forall in B. specialize (B _ I). lia. }
      apply cbl_of_list_get0; [apply size_le_of_lt; exact Hlast | | exact Hjl].
      eapply Forall_impl; [|exact F]. intros v Hv. cbv beta in Hv.
      pose proof (N.size_gt (last (selects_of (l_lbm L) 0 0) 0%N)). lia.
  Qed.

  (* the final statement; the only addition is the size bound that makes the integer arrays fit the
     (at most 64 bit wide) units of a CompactBitList: fewer than 2^64 bits in the label bitmap *)
  Theorem packed_correct_sized :
    forall chars keys w L, NoDup chars -> length chars <= 256 -> keys <> [] ->
      l_new chars keys = Some L -> (N.of_nat (length (l_lbm L)) < 2 ^ 64)%N ->
      p_has chars (pack_louds chars L) w = l_has chars L w.
  Proof.
    intros chars keys w L _ Hlen _ Hnew Hsize. unfold l_new in Hnew.
    destruct (keys_valid chars keys) eqn:Hv; [|discriminate]. inversion Hnew; subst; clear Hnew.
    apply (packed_root chars (bfs_nodes keys) (sort_uniq keys)).
    - apply bfs_nodes_fix.
    - apply (bfs_nodes_degree chars); assumption.
    - apply pack_louds_views; [exact Hlen | | exact Hsize].
      pose proof (labels_forall (fun c => (c <= vc_size chars)%N) chars (bfs_nodes keys) (vc_table_le_size chars)) as F.
      rewrite Forall_forall in F. exact F.
  Qed.
End Packed.

(* ================= instantiation with the proved CompactBitList law ================= *)
From Dae Require C11_BitlistProofs.

Theorem cbl_of_list_get_closed : forall u vs k, (u <= 64)%N -> Forall (fun v => (v < 2 ^ u)%N) vs ->
  k < length vs -> cbl_get (cbl_of_list u vs) (N.of_nat k) = nth k vs 0%N.
Proof.
  exact (cbl_of_list_get0 C11_BitlistProofs.cbl_inv C11_BitlistProofs.cbl_inv_new C11_BitlistProofs.cbl_inv_set).
Qed.

Theorem packed_correct_sized_closed :
  forall chars keys w L, NoDup chars -> length chars <= 256 -> keys <> [] ->
    l_new chars keys = Some L -> (N.of_nat (length (l_lbm L)) < 2 ^ 64)%N ->
    p_has chars (pack_louds chars L) w = l_has chars L w.
Proof.
  exact (packed_correct_sized C11_BitlistProofs.cbl_inv C11_BitlistProofs.cbl_inv_new C11_BitlistProofs.cbl_inv_set).
Qed.

Print Assumptions packed_correct_sized_closed.

(* ================= the size bound in terms of the keys ================= *)
(* total number of bytes of a key list *)
Definition wt (g : list str) : nat := fold_right (fun k s => length k + s) 0 g.
Definition cost (l : list node) : nat := list_sum (map (fun g => S (wt g)) l).
Definition tw (l : list node) : nat := list_sum (map wt l).

Lemma wt_cons : forall k r, wt (k :: r) = length k + wt r.
Proof. reflexivity. Qed.

Lemma groups_wt : forall g, list_sum (map (fun k => S (wt (snd k))) (groups g)) <= wt g.
Proof.
  induction g as [|k r IH]; [cbn; lia|]. rewrite wt_cons. destruct k as [|c t]; cbn [groups]; [cbn [length]; lia|].
  destruct (groups r) as [|[c' ts] gs].
  - unfold list_sum. cbn [map fold_right snd]. rewrite wt_cons. cbn [length wt fold_right]. lia.
  - unfold list_sum in *. cbn [map fold_right snd] in IH.
    destruct (c =? c')%N; cbn [map fold_right snd]; rewrite !wt_cons; cbn [length]; change (wt []) with 0; lia.
Qed.

Lemma drop_leaf_wt : forall g, wt (drop_leaf g) <= wt g.
Proof. intros [|[|c t] r]; cbn [drop_leaf]; try lia. rewrite wt_cons. lia. Qed.

Lemma cost_app : forall a b, cost (a ++ b) = cost a + cost b.
Proof. intros. unfold cost. rewrite map_app, list_sum_app. reflexivity. Qed.

Lemma cost_tw : forall l, cost l = length l + tw l.
Proof. induction l as [|g l IH]; [reflexivity|]. unfold cost, tw, list_sum in *. cbn [map fold_right length]. lia. Qed.

Lemma next_cost : forall l, cost (next l) <= tw l.
Proof.
  induction l as [|g l IH]; [cbn; lia|]. unfold next in *. cbn [flat_map]. rewrite cost_app.
  change (tw (g :: l)) with (wt g + tw l).
  assert (Hc : cost (ch g) <= wt g); [|lia].
  unfold cost, ch, kids. rewrite map_map. etransitivity; [exact (groups_wt (drop_leaf g)) | apply drop_leaf_wt].
Qed.

Lemma bfs_length : forall f l, length (bfs f l) <= cost l.
Proof.
  induction f as [|f IH]; intros l; [cbn [bfs length]; lia|]. cbn [bfs].
  destruct l as [|g l']; [cbn; lia|]. set (l := g :: l').
  change (flat_map (fun g0 : node => map snd (kids g0)) l) with (next l).
  rewrite app_length. specialize (IH (next l)). pose proof (next_cost l). rewrite (cost_tw l). lia.
Qed.

Lemma uniq_wt : forall l, wt (uniq l) <= wt l.
Proof.
  induction l as [|a l IH]; [cbn; lia|]. destruct l as [|b l']; [cbn [uniq]; lia|].
  rewrite uniq_cons2'. destruct (str_eqb a b); rewrite !wt_cons in *; lia.
Qed.

Lemma perm_wt : forall a b, Permutation.Permutation a b -> wt a = wt b.
Proof. induction 1; rewrite ?wt_cons in *; lia. Qed.

Lemma sort_uniq_wt : forall keys, wt (sort_uniq keys) <= wt keys.
Proof.
  intros keys. unfold sort_uniq. pose proof (uniq_wt (StrSort.sort keys)).
  rewrite (perm_wt keys (StrSort.sort keys) (StrSort.Permuted_sort keys)). exact H.
Qed.

Theorem lbm_length_keys : forall chars keys,
  length (l_lbm (louds_of_nodes chars (bfs_nodes keys))) <= 2 * wt keys + 1.
Proof.
  intros chars keys. change (l_lbm (louds_of_nodes chars (bfs_nodes keys))) with (lbm_of (bfs_nodes keys)).
  rewrite lbm_of_length. pose proof (bfs_nodes_fix keys) as F. apply (f_equal (@length node)) in F. cbn [length] in F.
  assert (length (bfs_nodes keys) <= S (wt keys)); [|lia].
  unfold bfs_nodes. cbv zeta. etransitivity; [apply bfs_length|]. unfold cost, list_sum. cbn [map fold_right].
  pose proof (sort_uniq_wt keys). lia.
Qed.

(* the final statement with the size bound on the input: the keys have fewer than 2^63 bytes in total *)
Theorem packed_correct_keys :
  forall chars keys w L, NoDup chars -> length chars <= 256 -> keys <> [] ->
    l_new chars keys = Some L -> (2 * N.of_nat (wt keys) + 1 < 2 ^ 64)%N ->
    p_has chars (pack_louds chars L) w = l_has chars L w.
Proof.
  intros chars keys w L ND Hlen Hne Hnew Hsize. apply (packed_correct_sized_closed chars keys w L ND Hlen Hne Hnew).
  unfold l_new in Hnew. destruct (keys_valid chars keys); [|discriminate]. inversion Hnew; subst.
  pose proof (lbm_length_keys chars keys). lia.
Qed.

Print Assumptions packed_correct_keys.

(* non-vacuity: the hypotheses are satisfiable and both sides take both truth values *)
Example packed_nonvacuous :
  let chars := [97; 98; 99; 100]%N in
  let keys := [[97;98]; [97]; [97;98;99]; [98;99]; [97;98]]%N in
  NoDup chars /\ length chars <= 256 /\ keys <> [] /\ (2 * N.of_nat (wt keys) + 1 < 2 ^ 64)%N /\
  match l_new chars keys with
  | Some L => map (p_has chars (pack_louds chars L)) [[97]; [98]; [98;99;100]; [97;120]; []; [99]]%N
              = [true; false; true; true; false; false]
  | None => False
  end.
Proof.
  cbv zeta. split; [|split; [|split; [|split]]].
  - repeat constructor; cbn; intuition discriminate.
  - cbn. lia.
  - discriminate.
  - vm_compute. reflexivity.
  - vm_compute. reflexivity.
Qed.
