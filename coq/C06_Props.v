(* C06 — property theorems only.  Each is closed by `exact` of a lemma of C06_Proofs*.v. *)
From Coq Require Import List NArith Bool Arith.
From Dae.gen Require Import C06_Extracted.
From Dae Require Import C06_Spec C06_Model C06_Async C06_Session C06_Clock C06_Key C06_HttpVar C06_Decrypt C06_Proofs.
Import ListNotations.
Open Scope N_scope.

(* ---------------------------------------------------------------- the name that is there (TLS) *)

(* Every well-formed ClientHello (any extension order, GREASE, padding, session id, several names,
   any capacity behind the slice): the extractor returns the first host_name, or "not found". *)
Theorem C06_tls_roundtrip :
  forall (h : hello) (slack : bytes),
    wf_hello h = true -> extract_sni_bytes (enc_handshake h) slack = raw_name_of h.
Proof. exact C06_tls_roundtrip_proof. Qed.
Print Assumptions C06_tls_roundtrip.

(* ... and the sniffer reports it lower-cased, whatever follows the record in the same read. *)
Theorem C06_tls_stream_roundtrip :
  forall (h : hello) (m : N) (rest slack : bytes),
    wf_hello h = true -> hello_names_wf h = true -> blen (enc_handshake h) < 65536 ->
    sniff_group_tcp (enc_record m h ++ rest) slack = name_of h.
Proof. exact C06_tls_stream_roundtrip_proof. Qed.
Print Assumptions C06_tls_stream_roundtrip.

(* However the stream is cut into reads (empty reads and EOF-without-data included), once the first
   read holds the 5-byte record header and the record eventually completes, the result is that of
   the whole stream in one read. *)
Definition benign (e : rd) : bool := match rd_status e with RsOk | RsEof => true | _ => false end.
Definition is_prefix (p l : bytes) : bool := bytes_eqb p (firstn (length p) l).
Theorem C06_chunking_invariant :
  forall (h : hello) (m : N) (script : list rd),
    wf_hello h = true -> hello_names_wf h = true -> blen (enc_handshake h) < 65536 ->
    forallb benign script = true ->
    5 <= blen (rd_data (hd {| rd_window := 0; rd_data := []; rd_status := RsOk |} script)) ->
    is_prefix (enc_record m h) (concat (map rd_data script)) = true ->
    fst (fst (sniff_tcp script)) = name_of h
    /\ sniff_whole (concat (map rd_data script)) = name_of h.
Proof. exact C06_chunking_invariant_proof. Qed.
Print Assumptions C06_chunking_invariant.

(* ---------------------------------------------------------------- never another name (all inputs) *)
(* For EVERY byte string and every capacity: a reported name is the body of a host_name entry
   (type byte 0, two length bytes) lying inside the slice, trailing dot dropped.  No invented names. *)
Theorem C06_only_carried_name :
  forall (data slack n : bytes),
    extract_sni_bytes data slack = Found n ->
    exists p b1 b2, 3 <= p /\ p + (b1 * 256 + b2) <= blen data
                    /\ sub data (p - 3) p = [0; b1; b2]
                    /\ n = strip_dot (sub data p (p + (b1 * 256 + b2))).
Proof. exact C06_only_carried_name_proof. Qed.
Print Assumptions C06_only_carried_name.

(* ---------------------------------------------------------------- never out of bounds *)
(* For ALL byte strings the extractor stays inside its slice even when no capacity follows it (the
   strict locator reports every access past the record as Oob), never exhausts its fuel, and a
   slice with spare capacity behaves identically.  (Before fix 86bfe56 this was false: a server_name
   extension header one byte before the end of the extension block was read one byte past the
   record; the witness is now a regression input in corpus/C06.) *)
Theorem C06_tls_no_oob :
  forall (data slack : bytes),
    extract_sni_strict data <> Oob
    /\ extract_sni_bytes data slack = extract_sni_strict data
    /\ extract_sni_strict data <> OutOfFuel.
Proof. exact C06_tls_no_oob_proof. Qed.
Print Assumptions C06_tls_no_oob.

(* The QUIC-side locator never indexes outside a fragment, for ALL fragment lists. *)
Theorem C06_linear_no_oob :
  forall o : list frag, extract_sni_linear o <> Oob.
Proof. exact C06_linear_no_oob_proof. Qed.
Print Assumptions C06_linear_no_oob.

(* ---------------------------------------------------------------- HTTP/1 *)
Theorem C06_http_roundtrip :
  forall (q : http_head) (body slack : bytes),
    wf_head q = true -> sniff_group_tcp (enc_head q ++ body) slack = host_of q.
Proof. exact C06_http_roundtrip_proof. Qed.
Print Assumptions C06_http_roundtrip.

(* The request head ends at the first empty line: the name is the Host header of the HEAD only.  For every
   head without a Host header and EVERY body (body text, a pipelined second request, anything) no name is
   reported; a head with a Host header reports that one whatever the body says (C06_http_roundtrip). *)
Theorem C06_http_no_host_no_name :
  forall (q : http_head) (body slack : bytes),
    wf_head q = true -> first_host_header (q_headers q) = None ->
    sniff_group_tcp (enc_head q ++ body) slack = NotFound.
Proof. exact C06_http_no_host_no_name_proof. Qed.
Print Assumptions C06_http_no_host_no_name.

(* The line walker that skips the empty line instead of stopping there reads on into the body and reports a
   Host line found THERE - a name the request head does not carry. *)
Theorem C06_http_scan_past_head_refuted :
  exists (q : http_head) (body : bytes),
    wf_head q = true /\ first_host_header (q_headers q) = None
    /\ sniff_http_past (enc_head q ++ body) <> host_of q
    /\ exists n, sniff_http_past (enc_head q ++ body) = Found n.
Proof. exact C06_http_scan_past_head_refuted_proof. Qed.
Print Assumptions C06_http_scan_past_head_refuted.

(* ---------------------------------------------------------------- QUIC CRYPTO reassembly *)
(* However the CRYPTO stream s is cut into frames (split, reordered, duplicated, overlapping) and
   however the frames are spread over packets, once every position is delivered the reassembled
   fragment list is the single fragment (0, s). *)
Definition reassemble_frags (offsets new : list frag) : list frag := merge_frags (sort_frags (offsets ++ new)).
Theorem C06_crypto_reassembly :
  forall (s : bytes) (packets : list (list frag)),
    s <> [] ->
    forallb (fragmentation_of s) packets = true ->
    covers_all s (concat packets) = true ->
    fold_left reassemble_frags packets [] = [(0, s)].
Proof. exact C06_crypto_reassembly_proof. Qed.
Print Assumptions C06_crypto_reassembly.

(* Hence a well-formed ClientHello is recognised from any such fragmentation (relative to the
   decryption oracle, which supplies the frames). *)
Theorem C06_quic_roundtrip :
  forall (h : hello) (packets : list (list frag)),
    wf_hello h = true ->
    forallb (fragmentation_of (enc_handshake h)) packets = true ->
    covers_all (enc_handshake h) (concat packets) = true ->
    extract_sni_linear (fold_left reassemble_frags packets []) = raw_name_of h.
Proof. exact C06_quic_roundtrip_proof. Qed.
Print Assumptions C06_quic_roundtrip.

(* Frame level: whatever PADDING / PING frames are interleaved with the CRYPTO frames of a packet
   (encoder enc_frames / enc_varint after RFC 9000 sections 16, 19.1, 19.2, 19.6, defined in
   C06_ProofsQuic.v), ReassembleCryptos recovers exactly the CRYPTO frames and merges them. *)
Theorem C06_frames_roundtrip :
  forall (fs : list qframe) (offsets : list frag),
    wf_frames fs -> reassemble offsets (enc_frames fs) = ROk (reassemble_frags offsets (cryptos fs)).
Proof. exact C06_frames_roundtrip_proof. Qed.
Print Assumptions C06_frames_roundtrip.

(* ---------------------------------------------------------------- replay *)
(* Whatever the outcome (found, not found, not applicable, need-more-then-timeout, i/o error) and
   whatever the reads were: the sniffer consumed a prefix of the reads, its buffer holds exactly
   their bytes in order, and the rest is untouched; so TakeRelayPrefix+CopyRelayRemainder and
   WriteTo hand the relay the client's bytes, each once. *)
Theorem C06_replay_exact :
  forall script : list rd,
    let '(r, st, rest) := sniff_tcp script in
    exists n : nat, rest = skipn n script /\ s_buf st = concat (map rd_data (firstn n script))
                    /\ fst (relay_prefix_copy st rest) = s_buf st ++ fst (relay_conn rest).
Proof. exact C06_replay_exact_proof. Qed.
Print Assumptions C06_replay_exact.

(* Datagrams: Data() is the datagrams in order; sniffing does not touch them. *)
Theorem C06_udp_data_exact :
  forall (st : ustate) (d : bytes) (oracle : list bytes),
    u_data (append_data st d) = u_data st ++ [d]
    /\ (let '(r, st', _) := sniff_udp st oracle in u_data st' = u_data st /\ u_buf st' = u_buf st).
Proof. exact C06_udp_data_exact_proof. Qed.
Print Assumptions C06_udp_data_exact.

(* The Read path of the sniffer hands over the buffered bytes and then the connection, exactly like
   the other two drains, after every outcome in which the connection itself has not failed - in
   particular after a sniff timeout (fix 9ef4b71; before it Sniffer.dataError kept the timeout). *)
Theorem C06_usable_after_timeout :
  forall (script : list rd) (p : N),
    let '(r, st, rest) := sniff_tcp script in
    r <> IoError -> relay_read_all p st rest = relay_prefix_copy st rest.
Proof. exact C06_usable_after_timeout_proof. Qed.
Print Assumptions C06_usable_after_timeout.

(* non-vacuity of the timeout case: a partial record, the deadline passes, the client goes on *)
Example C06_usable_after_timeout_nonvacuous :
  let script := [ {| rd_window := 4096; rd_data := [22; 3; 1; 0; 100; 1; 0]; rd_status := RsOk |};
                  {| rd_window := 4089; rd_data := []; rd_status := RsTimeout |};
                  {| rd_window := 32768; rd_data := [1; 2]; rd_status := RsOk |};
                  {| rd_window := 32768; rd_data := []; rd_status := RsEof |} ] in
  fst (fst (sniff_tcp script)) = TimedOut
  /\ (let '(r, st, rest) := sniff_tcp script in relay_read_all 32768 st rest)
     = ([22; 3; 1; 0; 100; 1; 0; 1; 2], RsEof).
Proof. exact C06_usable_after_timeout_nonvacuous_proof. Qed.

(* ---------------------------------------------------------------- never waits past its timeout *)
(* SniffTcp on a virtual clock, with the deadline policy EXTRACTED from sniffer.go (fixed once in
   NewStreamSniffer, every read armed with that absolute value).  For every arrival schedule of the
   client (any delays, any chunks, however many) and every parser: SniffTcp returns no later than
   construction time + timeout (parsing itself is not timed), every read was armed with exactly
   that deadline, and the buffer holds exactly the chunks consumed.  The bound is on the WHOLE
   sniff, not per read. *)
Theorem C06_sniff_wait_bounded :
  forall (origin timeout : N) (parse : bytes -> outcome) (sched : list arrival),
    let '(r, t, buf, rest, ds) := clock_sniff extracted_policy origin timeout parse sched in
    t <= origin + timeout
    /\ Forall (fun d => d = origin + timeout) ds
    /\ exists n : nat, rest = skipn n sched /\ buf = concat (map ar_data (firstn n sched)).
Proof. exact C06_sniff_wait_bounded_proof. Qed.
Print Assumptions C06_sniff_wait_bounded.

(* The variant that re-arms the deadline before every read (deadline = now + timeout in the read path)
   turns the sniff timeout into a per-read idle timeout: a drip-feeding client keeps SniffTcp waiting
   without bound. *)
Theorem C06_sniff_wait_rearmed_refuted :
  exists (timeout : N) (parse : bytes -> outcome) (sched : list arrival),
    let '(r, t, buf, rest, ds) := clock_sniff RearmedPerRead 0 timeout parse sched in
    4 * timeout < t.
Proof. exact C06_sniff_wait_rearmed_refuted_proof. Qed.
Print Assumptions C06_sniff_wait_rearmed_refuted.

(* ---------------------------------------------------------------- the asynchronous fallback *)
(* readStreamOnceAsync (readers without read deadlines).  As long as the deadline does not fire it is
   the deadline path: same outcome, same buffer, same rest, no outstanding read; hence
   C06_replay_exact and C06_usable_after_timeout carry over to it. *)
Theorem C06_async_same_without_timeout :
  forall script : list rd,
    let '(r, st, pend, rest) := async_sniff script in
    r <> TimedOut -> pend = None /\ sniff_tcp script = (r, st, rest).
Proof. exact C06_async_same_without_timeout_proof. Qed.
Print Assumptions C06_async_same_without_timeout.

(* Full statements for the timeout case: whatever the drain and whoever runs first (the outstanding
   read or the relay), the relay gets the buffered bytes followed by the connection's. *)
Definition C06_async_replay_exact_full : Prop :=
  forall (script : list rd) (drain p : N) (sc : sched),
    let '(r, st, pend, rest) := async_sniff script in
    drain <> 0 -> fst (async_relay drain sc p st pend rest) = s_buf st ++ fst (relay_conn rest).
Definition C06_async_usable_after_timeout_full : Prop :=
  forall (script : list rd) (p : N) (sc : sched),
    let '(r, st, pend, rest) := async_sniff script in
    r <> IoError -> blen (s_buf st) <= p ->
    async_relay 0 sc p st pend rest = (s_buf st ++ fst (relay_conn rest), snd (relay_conn rest)).

(* Both are FALSE of the faithful model.  (1) When the relay takes the buffer first
   (TakeRelayPrefix / WriteTo), the read left outstanding by the timed-out sniff swallows the
   client's next bytes into the sniffer buffer, which nobody drains: they are lost. *)
Theorem C06_async_replay_exact_refuted :
  exists (script : list rd) (drain p : N) (sc : sched),
    let '(r, st, pend, rest) := async_sniff script in
    drain <> 0 /\ fst (async_relay drain sc p st pend rest) <> s_buf st ++ fst (relay_conn rest).
Proof. exact C06_async_replay_exact_refuted_proof. Qed.
Print Assumptions C06_async_replay_exact_refuted.

(* (2) dataError keeps ctx.Err(): the first relay Read returns it although the client goes on. *)
Theorem C06_async_usable_after_timeout_refuted :
  exists (script : list rd) (p : N) (sc : sched),
    let '(r, st, pend, rest) := async_sniff script in
    r = TimedOut /\ blen (s_buf st) <= p
    /\ async_relay 0 sc p st pend rest <> (s_buf st ++ fst (relay_conn rest), snd (relay_conn rest)).
Proof. exact C06_async_usable_after_timeout_refuted_proof. Qed.
Print Assumptions C06_async_usable_after_timeout_refuted.

(* What holds after a timeout: if the outstanding read completes before the relay touches the
   sniffer, its bytes are appended in order and the buffer-first drains are exact. *)
Theorem C06_async_replay_exact_partial :
  forall (script : list rd) (drain p : N),
    let '(r, st, pend, rest) := async_sniff script in
    drain <> 0 ->
    (match rest with e :: _ => rd_status e = RsOk | [] => True end) ->
    fst (async_relay drain LateFirst p st pend rest) = s_buf st ++ fst (relay_conn rest).
Proof. exact C06_async_replay_exact_partial_proof. Qed.
Print Assumptions C06_async_replay_exact_partial.

(* ---------------------------------------------------------------- control-side UDP sniff session *)
(* For every history of datagrams of one flow (any arrival times in order, any answers of the
   sniffer, any janitor races): as long as no undecided session expires, every datagram is forwarded
   exactly once, in arrival order, or is still withheld in the undecided session. *)
Theorem C06_udp_session_replay_exact :
  forall h : list sevent,
    monotone h = true ->
    let '(outs, fwd, dropped, st) := run_session h in
    dropped = [] -> fwd ++ pending st = map ev_data h.
Proof. exact C06_udp_session_replay_exact_proof. Qed.
Print Assumptions C06_udp_session_replay_exact.

(* Full statement: nothing is ever withheld for good. *)
Definition C06_udp_session_never_withholds_full : Prop :=
  forall h : list sevent, monotone h = true ->
    let '(outs, fwd, dropped, st) := run_session h in dropped = [].

(* FALSE: datagrams withheld while the sniffer says "need more" are released only by a later datagram
   that yields a verdict; there is no release on timeout, and when the session's TTL passes the
   janitor closes it and they are gone. *)
Theorem C06_udp_session_never_withholds_refuted :
  exists h : list sevent,
    monotone h = true /\
    let '(outs, fwd, dropped, st) := run_session h in
    dropped <> [] /\ fwd ++ pending st <> map ev_data h.
Proof. exact C06_udp_session_never_withholds_refuted_proof. Qed.
Print Assumptions C06_udp_session_never_withholds_refuted.

(* ---------------------------------------------------------------- session key and fingerprint parsing *)
(* control/packet_sniffer_pool.go, for EVERY byte string (truncated, mutated, random): the index-based
   parsers with the guards extracted from the source never index outside the datagram, and what they
   return is exactly the structural reading of the long header - fingerprint (version, DCID, SCID)
   and key DCID when present, nothing otherwise. *)
Theorem C06_key_fingerprint_exact :
  forall data : bytes,
    fingerprint data = Ok (spec_fingerprint data) /\ key_dcid data = Ok (spec_key_dcid data).
Proof. exact C06_key_fingerprint_exact_proof. Qed.
Print Assumptions C06_key_fingerprint_exact.

Theorem C06_key_fingerprint_no_oob :
  forall data : bytes, fingerprint data <> Err Oob /\ key_dcid data <> Err Oob.
Proof. exact C06_key_fingerprint_no_oob_proof. Qed.
Print Assumptions C06_key_fingerprint_no_oob.

(* non-vacuity: a header with an 8-byte DCID and a 2-byte SCID, whole and cut right after the DCID *)
Example C06_key_fingerprint_nonvacuous :
  let d := [195; 0; 0; 0; 1; 8; 1; 2; 3; 4; 5; 6; 7; 8; 2; 9; 9; 0; 0] in
  fingerprint d = Ok (Some ([0; 0; 0; 1], [1; 2; 3; 4; 5; 6; 7; 8], [9; 9]))
  /\ key_dcid d = Ok (Some [1; 2; 3; 4; 5; 6; 7; 8])
  /\ fingerprint (firstn 14 d) = Ok None /\ key_dcid (firstn 14 d) = Ok (Some [1; 2; 3; 4; 5; 6; 7; 8]).
Proof. exact C06_key_fingerprint_nonvacuous_proof. Qed.

(* ---------------------------------------------------------------- DecryptQuic_: arithmetic around the oracle *)
(* For every buffer length, packet-number offset, packet end (pnOffset + the header's Length, whatever it
   says) and whatever packet-number length 1..4 header protection reveals, under the preconditions
   sniffQuicBlock establishes: with the sample guard extracted from the source every slice bound and
   the make() size stay within the buffer - the call returns an error or goes through, it never panics. *)
Theorem C06_decrypt_arith_no_oob :
  forall len pnoff blockend pnlen : N,
    1 <= pnoff -> pnoff + max_pn_len <= len -> blockend <= len -> 1 <= pnlen <= max_pn_len ->
    decrypt_arith quic_sample_guard_on_block len pnoff blockend pnlen <> Err Oob.
Proof. exact C06_decrypt_arith_no_oob_proof. Qed.
Print Assumptions C06_decrypt_arith_no_oob.

(* A guard that only asks the BUFFER to hold the sample lets a header whose Length is 0 through when 40 more
   bytes follow: payload = buf[pnOffset+pnLen : pnOffset] has its bounds reversed. *)
Theorem C06_decrypt_buffer_guard_refuted :
  exists len pnoff blockend pnlen : N,
    1 <= pnoff /\ pnoff + max_pn_len <= len /\ blockend <= len /\ 1 <= pnlen <= max_pn_len
    /\ decrypt_arith false len pnoff blockend pnlen = Err Oob.
Proof. exact C06_decrypt_buffer_guard_refuted_proof. Qed.
Print Assumptions C06_decrypt_buffer_guard_refuted.

(* ---------------------------------------------------------------- non-vacuity *)
Example C06_nonvacuous :
  let h := {| h_minor := 3; h_random := repeat 7 32%nat; h_session := [1; 2; 3]; h_suites := [19; 1; 19; 2];
              h_compress := [0];
              h_exts := [ExtOther 2570 []; ExtOther 21 [0; 0; 0];
                         ExtServerName [(1, [120]); (0, [65; 46; 98; 46])]; ExtOther 43 [2; 3; 4]] |} in
  let s := enc_handshake h in
  wf_hello h = true /\ hello_names_wf h = true
  /\ name_of h = Found [97; 46; 98]
  /\ sniff_whole (enc_record 1 h ++ [1; 2; 3]) = Found [97; 46; 98]
  /\ fold_left reassemble_frags
       [[(50, sub s 50 (blen s))]; [(20, sub s 20 60); (0, sub s 0 20)]] [] = [(0, s)]
  /\ fst (fst (sniff_tcp [ {| rd_window := 4096; rd_data := firstn 7 (enc_record 1 h); rd_status := RsOk |};
                           {| rd_window := 4089; rd_data := skipn 7 (enc_record 1 h); rd_status := RsOk |} ]))
     = Found [97; 46; 98].
Proof. exact C06_nonvacuous_proof. Qed.
